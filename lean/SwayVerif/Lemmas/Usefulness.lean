import SwayVerif.Model.Usefulness
/-! Helper lemmas for C14 (`Props/C14.lean`): the typed view of the untyped analysis model. -/
namespace SwayVerif.Usefulness

/-! ## Typed layer: inhabited types, constructors of a type, decomposition of values -/

mutual
/-- Every enum (recursively) has at least one variant: every type has a value. -/
def Ty.inhab : Ty → Bool
  | .bool => true
  | .u8 => true
  | .enum ts => !ts.isEmpty && inhabL ts
  | .tuple ts => inhabL ts
  | .strct ts => inhabL ts
def inhabL : List Ty → Bool
  | [] => true
  | t :: ts => t.inhab && inhabL ts
end

mutual
def Ty.size : Ty → Nat
  | .bool => 1
  | .u8 => 1
  | .enum ts => 1 + sizeTys ts
  | .tuple ts => 1 + sizeTys ts
  | .strct ts => 1 + sizeTys ts
def sizeTys : List Ty → Nat
  | [] => 0
  | t :: ts => t.size + sizeTys ts
end

/-- `c` is a constructor of the values of `t`. -/
def Ty.isCtor : Ty → Ctor → Bool
  | .bool, .bool _ => true
  | .u8, .u8 lo hi => lo == hi && decide (hi ≤ 255)
  | .enum ts, .enum n k => n == ts.length && decide (k < ts.length)
  | .tuple ts, .tuple n => n == ts.length
  | .strct ts, .strct idx => idx == List.range ts.length
  | _, _ => false

/-- Types of the arguments of constructor `c` of `t`. -/
def Ty.argTys : Ty → Ctor → List Ty
  | .enum ts, .enum _ k => match ts[k]? with
    | some t => [t]
    | none => []
  | .tuple ts, .tuple _ => ts
  | .strct ts, .strct _ => ts
  | _, _ => []

/-- Constructor and arguments of a value of type `t`. -/
def Val.decomp : Ty → Val → Option (Ctor × List Val)
  | .bool, .bool b => some (.bool b, [])
  | .u8, .u8 n => some (.u8 n n, [])
  | .enum ts, .enum k v => some (.enum ts.length k, [v])
  | .tuple ts, .tuple vs => some (.tuple ts.length, vs)
  | .strct ts, .tuple vs => some (.strct (List.range ts.length), vs)
  | _, _ => none

theorem hasTyL_length : ∀ {vs : List Val} {ts : List Ty}, hasTyL vs ts = true → vs.length = ts.length
  | [], [], _ => rfl
  | v :: vs, t :: ts, h => by
    simp only [hasTyL, Bool.and_eq_true] at h
    simp [hasTyL_length h.2]
  | [], _ :: _, h => by simp [hasTyL] at h
  | _ :: _, [], h => by simp [hasTyL] at h

theorem patsHaveTy_length : ∀ {ps : List Pat} {ts : List Ty}, patsHaveTy ps ts = true → ps.length = ts.length
  | [], [], _ => rfl
  | p :: ps, t :: ts, h => by
    simp only [patsHaveTy, Bool.and_eq_true] at h
    simp [patsHaveTy_length h.2]
  | [], _ :: _, h => by simp [patsHaveTy] at h
  | _ :: _, [], h => by simp [patsHaveTy] at h

theorem decomp_of_hasTy {t : Ty} {v : Val} (h : v.hasTy t = true) :
    ∃ c vargs, v.decomp t = some (c, vargs) ∧ t.isCtor c = true ∧ hasTyL vargs (t.argTys c) = true ∧
      vargs.length = c.arity := by
  cases t <;> cases v <;> simp [Val.hasTy] at h
  case bool.bool b => exact ⟨_, _, rfl, rfl, rfl, rfl⟩
  case u8.u8 n => exact ⟨_, _, rfl, by simp [Ty.isCtor, h], rfl, rfl⟩
  case enum.enum ts k v =>
    refine ⟨_, _, rfl, ?_, ?_, rfl⟩
    · cases hk : ts[k]? with
      | none => simp [hk] at h
      | some t' =>
        have := (List.getElem?_eq_some_iff.mp hk).1
        simp [Ty.isCtor, this]
    · cases hk : ts[k]? with
      | none => simp [hk] at h
      | some t' => simp [hk] at h; simp [Ty.argTys, hk, hasTyL, h]
  case tuple.tuple ts vs =>
    exact ⟨_, _, rfl, by simp [Ty.isCtor], by simpa [Ty.argTys] using h, by simp [Ctor.arity, hasTyL_length h]⟩
  case strct.tuple ts vs =>
    exact ⟨_, _, rfl, by simp [Ty.isCtor], by simpa [Ty.argTys] using h, by simp [Ctor.arity, hasTyL_length h]⟩


/-! ## List-level facts about typing and matching -/

theorem matchesL_length : ∀ {ps : List Pat} {vs : List Val}, matchesL ps vs = true → ps.length = vs.length
  | [], [], _ => rfl
  | p :: ps, v :: vs, h => by
    simp only [matchesL, Bool.and_eq_true] at h
    simp [matchesL_length h.2]
  | [], _ :: _, h => by simp [matchesL] at h
  | _ :: _, [], h => by simp [matchesL] at h

theorem patsHaveTy_append : ∀ {a b : List Pat} {ta tb : List Ty}, a.length = ta.length →
    patsHaveTy (a ++ b) (ta ++ tb) = (patsHaveTy a ta && patsHaveTy b tb)
  | [], _, [], _, _ => by simp [patsHaveTy]
  | p :: a, b, t :: ta, tb, h => by
    have h' : a.length = ta.length := by simpa using h
    simp [patsHaveTy, patsHaveTy_append h', Bool.and_assoc]
  | [], _, _ :: _, _, h => by simp at h
  | _ :: _, _, [], _, h => by simp at h

theorem hasTyL_append : ∀ {a b : List Val} {ta tb : List Ty}, a.length = ta.length →
    hasTyL (a ++ b) (ta ++ tb) = (hasTyL a ta && hasTyL b tb)
  | [], _, [], _, _ => by simp [hasTyL]
  | p :: a, b, t :: ta, tb, h => by
    have h' : a.length = ta.length := by simpa using h
    simp [hasTyL, hasTyL_append h', Bool.and_assoc]
  | [], _, _ :: _, _, h => by simp at h
  | _ :: _, _, [], _, h => by simp at h

theorem matchesL_append : ∀ {a b : List Pat} {va vb : List Val}, a.length = va.length →
    matchesL (a ++ b) (va ++ vb) = (matchesL a va && matchesL b vb)
  | [], _, [], _, _ => by simp [matchesL]
  | p :: a, b, v :: va, vb, h => by
    have h' : a.length = va.length := by simpa using h
    simp [matchesL, matchesL_append h', Bool.and_assoc]
  | [], _, _ :: _, _, h => by simp at h
  | _ :: _, _, [], _, h => by simp at h

theorem wilds_length (n : Nat) : (wilds n).length = n := by simp [wilds]

theorem patsHaveTy_wilds : ∀ (ts : List Ty), patsHaveTy (wilds ts.length) ts = true
  | [] => by simp [wilds, patsHaveTy]
  | t :: ts => by
    have := patsHaveTy_wilds ts
    simp only [wilds] at this
    simp [wilds, List.replicate_succ, patsHaveTy, Pat.hasTy, this]

theorem matchesL_wilds : ∀ (vs : List Val), matchesL (wilds vs.length) vs = true
  | [] => by simp [wilds, matchesL]
  | v :: vs => by
    have := matchesL_wilds vs
    simp only [wilds] at this
    simp [wilds, List.replicate_succ, matchesL, Pat.matches, this]

theorem argTys_length {t : Ty} {c : Ctor} (h : t.isCtor c = true) : (t.argTys c).length = c.arity := by
  cases t <;> cases c <;> simp [Ty.isCtor] at h <;> simp [Ty.argTys, Ctor.arity]
  case enum.enum ts n k =>
    have : ts[k]? = some ts[k] := List.getElem?_eq_getElem h.2
    simp [this]
  case tuple.tuple ts n => exact h.symm
  case strct.strct ts idx => simp [h]


/-! ## Constructed patterns against decomposed values -/

theorem matchesF_range' : ∀ (ps : List Pat) (k : Nat) (vs : List Val), k + ps.length = vs.length →
    matchesF (List.range' k ps.length) ps vs = matchesL ps (vs.drop k)
  | [], k, vs, h => by
    have : vs.drop k = [] := by apply List.drop_eq_nil_of_le; simp at h; omega
    simp [matchesF, this, matchesL]
  | p :: ps, k, vs, h => by
    have hk : k < vs.length := by simp at h; omega
    have hd : vs.drop k = vs[k] :: vs.drop (k + 1) := by simp
    have ih := matchesF_range' ps (k + 1) vs (by simp at h ⊢; omega)
    simp only [List.length_cons, List.range'_succ, matchesF]
    rw [ih, hd, List.getElem?_eq_getElem hk]
    simp [matchesL]

theorem matchesF_range {ps : List Pat} {vs : List Val} (h : ps.length = vs.length) :
    matchesF (List.range ps.length) ps vs = matchesL ps vs := by
  have := matchesF_range' ps 0 vs (by omega)
  simpa [List.range_eq_range'] using this

theorem same_iff {t : Ty} {c d : Ctor} (hc : t.isCtor c = true) (hd : t.isCtor d = true) :
    c.same d = true ↔ c = d := by
  cases t <;> cases c <;> cases d <;> simp [Ty.isCtor] at hc hd <;> simp [Ctor.same] <;>
    first | omega | simp [hc, hd]

/-- Typing of a constructed pattern: its root constructor belongs to the type, the sub-patterns have the
argument types. -/
theorem ctor_of_hasTy {p : Pat} {t : Ty} {d : Ctor} (h : p.hasTy t = true) (hd : p.ctor? = some d) :
    t.isCtor d = true ∧ patsHaveTy p.args (t.argTys d) = true := by
  cases p <;> simp [Pat.ctor?] at hd <;> subst hd <;> cases t <;> simp [Pat.hasTy] at h
  case bool.bool b => simp [Ty.isCtor, Pat.args, Ty.argTys, patsHaveTy]
  case u8.u8 lo hi => simp [Ty.isCtor, Pat.args, Ty.argTys, patsHaveTy, h]
  case enum.enum n k p ts =>
    cases hk : ts[k]? with
    | none => simp [hk] at h
    | some t' =>
      obtain ⟨hlt, heq⟩ := List.getElem?_eq_some_iff.mp hk
      simp [hk] at h
      simp [Ty.isCtor, Pat.args, Ty.argTys, patsHaveTy, h, hlt, heq]
  case tuple.tuple ps ts =>
    simp [Ty.isCtor, Pat.args, Ty.argTys, h, patsHaveTy_length h]
  case strct.strct idx ps ts =>
    simp [Ty.isCtor, Pat.args, Ty.argTys, h]

/-- A constructed pattern matches a value iff the constructors coincide and the sub-patterns match the
arguments. -/
theorem matches_ctor {p : Pat} {t : Ty} {v : Val} {c d : Ctor} {vargs : List Val}
    (hp : p.hasTy t = true) (hd : p.ctor? = some d) (hv : v.decomp t = some (c, vargs))
    (hargs : hasTyL vargs (t.argTys c) = true) :
    p.matches v = (decide (c = d) && matchesL p.args vargs) := by
  cases p <;> simp [Pat.ctor?] at hd <;> subst hd <;> cases t <;> simp [Pat.hasTy] at hp <;>
    cases v <;> simp [Val.decomp] at hv <;> obtain ⟨rfl, rfl⟩ := hv
  case bool.bool.bool b b' => cases b <;> cases b' <;> simp [Pat.matches, Pat.args, matchesL]
  case u8.u8.u8 lo hi n =>
    obtain ⟨rfl, _⟩ := hp
    by_cases hn : n = lo
    · subst hn; simp [Pat.matches, Pat.args, matchesL]
    · have : ¬ (lo ≤ n ∧ n ≤ lo) := by omega
      simp [Pat.matches, Pat.args, matchesL, hn]
      omega
  case enum.enum.enum n k p ts k' v' =>
    by_cases hkk : k = k'
    · subst hkk; simp [Pat.matches, Pat.args, matchesL, hp.1]
    · have : ¬ k' = k := fun h => hkk h.symm
      simp [Pat.matches, Pat.args, matchesL, hkk, this]
  case tuple.tuple.tuple ps ts vs =>
    simp [Pat.matches, Pat.args, patsHaveTy_length hp]
  case strct.strct.tuple idx ps ts vs =>
    have hl : ps.length = vs.length := by
      rw [patsHaveTy_length hp.2]
      simp [Ty.argTys] at hargs
      exact (hasTyL_length hargs).symm
    have : List.range ts.length = List.range ps.length := by rw [patsHaveTy_length hp.2]
    simp [Pat.matches, Pat.args, hp.1, this, matchesF_range hl]


/-! ## Shape checks never fire on well-typed matrices -/

def rowsHaveTy (P : Matrix) (ts : List Ty) : Prop := ∀ r ∈ P, patsHaveTy r ts = true

/-- `q` is useful w.r.t. `P`: some well-typed value vector is matched by `q` and by no row of `P`. -/
def Useful (ts : List Ty) (P : Matrix) (q : Row) : Prop :=
  ∃ vs, hasTyL vs ts = true ∧ matchesL q vs = true ∧ ∀ r ∈ P, matchesL r vs = false

theorem dims_uniform {rows : List Row} {w : Nat} (h : ∀ r ∈ rows, r.length = w) :
    dims rows = some (if rows = [] then (0, 0) else (rows.length, w)) := by
  cases rows with
  | nil => rfl
  | cons r rs =>
    have hr : r.length = w := h r (by simp)
    have hrs : ∀ x ∈ rs, List.length x = w := fun x hx => h x (by simp [hx])
    simp [dims, hr]
    exact hrs

theorem checkShape_ok {rows : List Row} {w : Nat} (h : ∀ r ∈ rows, r.length = w) :
    checkShape rows w = some rows := by
  unfold checkShape
  rw [dims_uniform h]
  by_cases hr : rows = [] <;> simp [hr]

theorem rowsHaveTy_length {P : Matrix} {ts : List Ty} (h : rowsHaveTy P ts) : ∀ r ∈ P, r.length = ts.length :=
  fun r hr => patsHaveTy_length (h r hr)

/-! ## `S(c, P)` on a well-typed first column -/

theorem specPat_ctor {c : Ctor} {w : Nat} {p : Pat} {d : Ctor} (rest : Row) (hd : p.ctor? = some d) :
    specPat c w p rest = if c.same d = true then some [p.args ++ rest] else some [] := by
  cases p <;> simp [Pat.ctor?] at hd <;> subst hd <;> simp [specPat, Pat.ctor?]

theorem rootCtors_ctor {p : Pat} {d : Ctor} (hd : p.ctor? = some d) : p.rootCtors = [d] := by
  cases p <;> simp [Pat.ctor?] at hd <;> subst hd <;> simp [Pat.rootCtors]

/-- What the rows produced from `p :: rest` (resp. from the alternatives `ps`) must satisfy. -/
structure SpecRes (c : Ctor) (t : Ty) (ts' : List Ty) (matchHead : Val → Bool) (rest : Row)
    (rows : List Row) : Prop where
  typed : ∀ row ∈ rows, patsHaveTy row (t.argTys c ++ ts') = true
  sem : ∀ v vargs vs, v.decomp t = some (c, vargs) → hasTyL vargs (t.argTys c) = true →
    (rows.any fun row => matchesL row (vargs ++ vs)) = (matchHead v && matchesL rest vs)

theorem specRes_width {c t ts' mh rest rows} (hc : t.isCtor c = true) (h : SpecRes c t ts' mh rest rows) :
    ∀ row ∈ rows, row.length = c.arity + ts'.length := by
  intro row hr
  have := patsHaveTy_length (h.typed row hr)
  simpa [argTys_length hc] using this

theorem specPat_ctor_spec (c : Ctor) (t : Ty) (ts' : List Ty) (w : Nat) (hc : t.isCtor c = true)
    (rest : Row) (hrest : patsHaveTy rest ts' = true) (p : Pat) (d : Ctor) (hd : p.ctor? = some d)
    (hp : p.hasTy t = true) :
    ∃ rows, specPat c w p rest = some rows ∧ SpecRes c t ts' p.matches rest rows := by
  obtain ⟨hdc, hargsTy⟩ := ctor_of_hasTy hp hd
  rw [specPat_ctor rest hd]
  by_cases hcd : c = d
  · subst hcd
    have hs : c.same c = true := (same_iff hc hc).mpr rfl
    refine ⟨[p.args ++ rest], by simp [hs], ?_, ?_⟩
    · intro row hr
      simp at hr; subst hr
      rw [patsHaveTy_append (patsHaveTy_length hargsTy), hargsTy, hrest]; rfl
    · intro v vargs vs hv ha
      have hl : p.args.length = vargs.length := by
        rw [patsHaveTy_length hargsTy, hasTyL_length ha]
      rw [matches_ctor hp hd hv ha]
      simp [matchesL_append hl]
  · have hs : ¬ (c.same d = true) := fun h => hcd ((same_iff hc hdc).mp h)
    refine ⟨[], by simp [hs], by intro row hr; simp at hr, ?_⟩
    intro v vargs vs hv ha
    rw [matches_ctor hp hd hv ha]
    simp [hcd]

mutual
theorem specPat_spec (c : Ctor) (t : Ty) (ts' : List Ty) (w : Nat) (hc : t.isCtor c = true)
    (hw : w = c.arity + ts'.length) (rest : Row) (hrest : patsHaveTy rest ts' = true) :
    ∀ (p : Pat), p.hasTy t = true → ∃ rows, specPat c w p rest = some rows ∧ SpecRes c t ts' p.matches rest rows
  | .wild, _ => by
    refine ⟨[wilds c.arity ++ rest], by simp [specPat], ?_, ?_⟩
    · intro row hr
      simp at hr; subst hr
      have h1 : (wilds c.arity).length = (t.argTys c).length := by simp [wilds_length, argTys_length hc]
      rw [patsHaveTy_append h1, hrest]
      have := patsHaveTy_wilds (t.argTys c)
      rw [argTys_length hc] at this
      simp [this]
    · intro v vargs vs _ hargs
      have hl : vargs.length = c.arity := by rw [hasTyL_length hargs, argTys_length hc]
      have h1 : (wilds c.arity).length = vargs.length := by simp [wilds_length, hl]
      have := matchesL_wilds vargs
      rw [hl] at this
      simp [matchesL_append h1, this, Pat.matches]
  | .or ps, hp => by
    simp only [Pat.hasTy, Bool.and_eq_true] at hp
    obtain ⟨rows, hr, hres⟩ := specAlts_spec c t ts' w hc hw rest hrest ps hp.2
    refine ⟨rows, ?_, ?_⟩
    · simp only [specPat, hr, Option.bind_some]
      exact checkShape_ok (fun row hrow => by rw [hw]; exact specRes_width hc hres row hrow)
    · exact ⟨hres.typed, fun v vargs vs hv ha => by rw [hres.sem v vargs vs hv ha]; simp [Pat.matches]⟩
  | .bool b, hp => specPat_ctor_spec c t ts' w hc rest hrest (.bool b) _ rfl hp
  | .u8 lo hi, hp => specPat_ctor_spec c t ts' w hc rest hrest (.u8 lo hi) _ rfl hp
  | .num lo hi, hp => by cases t <;> simp [Pat.hasTy] at hp
  | .enum n k p, hp => specPat_ctor_spec c t ts' w hc rest hrest (.enum n k p) _ rfl hp
  | .tuple ps, hp => specPat_ctor_spec c t ts' w hc rest hrest (.tuple ps) _ rfl hp
  | .strct idx ps, hp => specPat_ctor_spec c t ts' w hc rest hrest (.strct idx ps) _ rfl hp
theorem specAlts_spec (c : Ctor) (t : Ty) (ts' : List Ty) (w : Nat) (hc : t.isCtor c = true)
    (hw : w = c.arity + ts'.length) (rest : Row) (hrest : patsHaveTy rest ts' = true) :
    ∀ (ps : List Pat), allHaveTy ps t = true →
      ∃ rows, specAlts c w ps rest = some rows ∧ SpecRes c t ts' (matchesAny ps) rest rows
  | [], _ => ⟨[], by simp [specAlts], by intro row hr; simp at hr, by intros; simp [matchesAny]⟩
  | p :: ps, hp => by
    simp only [allHaveTy, Bool.and_eq_true] at hp
    obtain ⟨r1, h1, s1⟩ := specPat_spec c t ts' w hc hw rest hrest p hp.1
    obtain ⟨r2, h2, s2⟩ := specAlts_spec c t ts' w hc hw rest hrest ps hp.2
    refine ⟨r1 ++ r2, by simp [specAlts, h1, h2, bindRows], ?_, ?_⟩
    · intro row hr
      rcases List.mem_append.mp hr with h | h
      · exact s1.typed row h
      · exact s2.typed row h
    · intro v vargs vs hv ha
      rw [List.any_append, s1.sem v vargs vs hv ha, s2.sem v vargs vs hv ha]
      simp only [matchesAny]
      cases p.matches v <;> cases matchesAny ps v <;> simp
end


theorem specRows_spec (c : Ctor) (t : Ty) (ts' : List Ty) (w : Nat) (hc : t.isCtor c = true)
    (hw : w = c.arity + ts'.length) :
    ∀ (P : Matrix), rowsHaveTy P (t :: ts') →
      ∃ S, specRows c w P = some S ∧ rowsHaveTy S (t.argTys c ++ ts') ∧
        ∀ v vargs vs, v.decomp t = some (c, vargs) → hasTyL vargs (t.argTys c) = true →
          (S.any fun row => matchesL row (vargs ++ vs)) = (P.any fun row => matchesL row (v :: vs))
  | [], _ => ⟨[], rfl, by intro r hr; simp at hr, by intros; simp⟩
  | [] :: P, hP => by have := hP [] (by simp); simp [patsHaveTy] at this
  | (p :: rest) :: P, hP => by
    have hrow := hP (p :: rest) (by simp)
    simp only [patsHaveTy, Bool.and_eq_true] at hrow
    obtain ⟨r1, h1, s1⟩ := specPat_spec c t ts' w hc hw rest hrow.2 p hrow.1
    obtain ⟨r2, h2, t2, s2⟩ := specRows_spec c t ts' w hc hw P (fun r hr => hP r (by simp [hr]))
    refine ⟨r1 ++ r2, by simp [specRows, h1, h2, bindRows], ?_, ?_⟩
    · intro row hr
      rcases List.mem_append.mp hr with h | h
      · exact s1.typed row h
      · exact t2 row h
    · intro v vargs vs hv ha
      rw [List.any_append, s1.sem v vargs vs hv ha, s2 v vargs vs hv ha]
      simp [matchesL]

/-- `S(c, P)` of a well-typed matrix: no internal error, well typed, and it covers `args ++ vs` exactly when
`P` covers `c(args) :: vs`. -/
theorem specialize_spec (c : Ctor) (t : Ty) (ts' : List Ty) (hc : t.isCtor c = true) (P : Matrix)
    (hP : rowsHaveTy P (t :: ts')) :
    ∃ S, specialize c P (ts'.length + 1) = some S ∧ rowsHaveTy S (t.argTys c ++ ts') ∧
      ∀ v vargs vs, v.decomp t = some (c, vargs) → hasTyL vargs (t.argTys c) = true →
        (S.any fun row => matchesL row (vargs ++ vs)) = (P.any fun row => matchesL row (v :: vs)) := by
  have hw : c.arity + (ts'.length + 1) - 1 = c.arity + ts'.length := by omega
  obtain ⟨S, hS, hT, hsem⟩ := specRows_spec c t ts' (c.arity + ts'.length) hc rfl P hP
  refine ⟨S, ?_, hT, hsem⟩
  unfold specialize
  rw [hw, hS]
  simp only [Option.bind_some]
  apply checkShape_ok
  intro row hr
  have := patsHaveTy_length (hT row hr)
  simpa [argTys_length hc] using this

/-! ## `D(P)` -/

structure DefRes (t : Ty) (ts' : List Ty) (matchHead : Val → Bool) (heads : List Ctor) (rest : Row)
    (rows : List Row) : Prop where
  typed : ∀ row ∈ rows, patsHaveTy row ts' = true
  sound : ∀ v vs, (rows.any fun row => matchesL row vs) = true → (matchHead v && matchesL rest vs) = true
  sem : ∀ v c vargs vs, v.decomp t = some (c, vargs) → hasTyL vargs (t.argTys c) = true → c ∉ heads →
    (matchHead v && matchesL rest vs) = (rows.any fun row => matchesL row vs)

theorem defPat_ctor {w : Nat} {p : Pat} {d : Ctor} (rest : Row) (hd : p.ctor? = some d) :
    defPat w p rest = some [] := by
  cases p <;> simp [Pat.ctor?] at hd <;> simp [defPat]

theorem defPat_ctor_spec (t : Ty) (ts' : List Ty) (w : Nat) (rest : Row) (p : Pat) (d : Ctor)
    (hd : p.ctor? = some d) (hp : p.hasTy t = true) :
    ∃ rows, defPat w p rest = some rows ∧ DefRes t ts' p.matches p.rootCtors rest rows := by
  refine ⟨[], defPat_ctor rest hd, by intro row hr; simp at hr, by intro v vs h; simp at h, ?_⟩
  intro v c vargs vs hv ha hn
  rw [rootCtors_ctor hd] at hn
  have hcd : c ≠ d := by simpa using hn
  rw [matches_ctor hp hd hv ha]
  simp [hcd]

mutual
theorem defPat_spec (t : Ty) (ts' : List Ty) (w : Nat) (hw : w = ts'.length) (rest : Row)
    (hrest : patsHaveTy rest ts' = true) :
    ∀ (p : Pat), p.hasTy t = true → ∃ rows, defPat w p rest = some rows ∧ DefRes t ts' p.matches p.rootCtors rest rows
  | .wild, _ => by
    refine ⟨[rest], by simp [defPat], ?_, ?_, ?_⟩
    · intro row hr; simp at hr; subst hr; exact hrest
    · intro v vs h; simpa [Pat.matches] using h
    · intro v c vargs vs _ _ _; simp [Pat.matches]
  | .or ps, hp => by
    simp only [Pat.hasTy, Bool.and_eq_true] at hp
    obtain ⟨rows, hr, hres⟩ := defAlts_spec t ts' w hw rest hrest ps hp.2
    refine ⟨rows, ?_, ?_⟩
    · simp only [defPat, hr, Option.bind_some]
      exact checkShape_ok (fun row hrow => by rw [hw]; exact patsHaveTy_length (hres.typed row hrow))
    · exact ⟨hres.typed, fun v vs h => by simpa [Pat.matches] using hres.sound v vs h,
        fun v c vargs vs hv ha hn => by simpa [Pat.matches, Pat.rootCtors] using hres.sem v c vargs vs hv ha (by simpa [Pat.rootCtors] using hn)⟩
  | .bool b, hp => defPat_ctor_spec t ts' w rest (.bool b) _ rfl hp
  | .u8 lo hi, hp => defPat_ctor_spec t ts' w rest (.u8 lo hi) _ rfl hp
  | .num lo hi, hp => by cases t <;> simp [Pat.hasTy] at hp
  | .enum n k p, hp => defPat_ctor_spec t ts' w rest (.enum n k p) _ rfl hp
  | .tuple ps, hp => defPat_ctor_spec t ts' w rest (.tuple ps) _ rfl hp
  | .strct idx ps, hp => defPat_ctor_spec t ts' w rest (.strct idx ps) _ rfl hp
theorem defAlts_spec (t : Ty) (ts' : List Ty) (w : Nat) (hw : w = ts'.length) (rest : Row)
    (hrest : patsHaveTy rest ts' = true) :
    ∀ (ps : List Pat), allHaveTy ps t = true →
      ∃ rows, defAlts w ps rest = some rows ∧ DefRes t ts' (matchesAny ps) (rootCtorsL ps) rest rows
  | [], _ => ⟨[], by simp [defAlts], by intro row hr; simp at hr, by intro v vs h; simp at h,
      by intros; simp [matchesAny]⟩
  | p :: ps, hp => by
    simp only [allHaveTy, Bool.and_eq_true] at hp
    obtain ⟨r1, h1, s1⟩ := defPat_spec t ts' w hw rest hrest p hp.1
    obtain ⟨r2, h2, s2⟩ := defAlts_spec t ts' w hw rest hrest ps hp.2
    refine ⟨r1 ++ r2, by simp [defAlts, h1, h2, bindRows], ?_, ?_, ?_⟩
    · intro row hr
      rcases List.mem_append.mp hr with h | h
      · exact s1.typed row h
      · exact s2.typed row h
    · intro v vs h
      rw [List.any_append, Bool.or_eq_true] at h
      simp only [matchesAny]
      rcases h with h | h
      · have := s1.sound v vs h
        simp only [Bool.and_eq_true] at this ⊢
        exact ⟨by simp [this.1], this.2⟩
      · have := s2.sound v vs h
        simp only [Bool.and_eq_true] at this ⊢
        exact ⟨by simp [this.1], this.2⟩
    · intro v c vargs vs hv ha hn
      simp only [rootCtorsL, List.mem_append, not_or] at hn
      rw [List.any_append, ← s1.sem v c vargs vs hv ha hn.1, ← s2.sem v c vargs vs hv ha hn.2]
      simp only [matchesAny]
      cases p.matches v <;> cases matchesAny ps v <;> simp
end


theorem defRows_spec (t : Ty) (ts' : List Ty) (w : Nat) (hw : w = ts'.length) :
    ∀ (P : Matrix), rowsHaveTy P (t :: ts') →
      ∃ D, defRows w P = some D ∧ rowsHaveTy D ts' ∧
        (∀ v vs, (D.any fun row => matchesL row vs) = true → (P.any fun row => matchesL row (v :: vs)) = true) ∧
        (∀ hs, headCtors P = some hs → ∀ v c vargs vs, v.decomp t = some (c, vargs) →
          hasTyL vargs (t.argTys c) = true → c ∉ hs →
          (P.any fun row => matchesL row (v :: vs)) = (D.any fun row => matchesL row vs))
  | [], _ => ⟨[], rfl, by intro r hr; simp at hr, by intro v vs h; simp at h, by intros; simp⟩
  | [] :: P, hP => by have := hP [] (by simp); simp [patsHaveTy] at this
  | (p :: rest) :: P, hP => by
    have hrow := hP (p :: rest) (by simp)
    simp only [patsHaveTy, Bool.and_eq_true] at hrow
    obtain ⟨r1, h1, s1⟩ := defPat_spec t ts' w hw rest hrow.2 p hrow.1
    obtain ⟨r2, h2, t2, snd2, sem2⟩ := defRows_spec t ts' w hw P (fun r hr => hP r (by simp [hr]))
    refine ⟨r1 ++ r2, by simp [defRows, h1, h2, bindRows], ?_, ?_, ?_⟩
    · intro row hr
      rcases List.mem_append.mp hr with h | h
      · exact s1.typed row h
      · exact t2 row h
    · intro v vs h
      rw [List.any_append, Bool.or_eq_true] at h
      rw [List.any_cons, Bool.or_eq_true]
      rcases h with h | h
      · left; simpa [matchesL] using s1.sound v vs h
      · right; exact snd2 v vs h
    · intro hs hhs v c vargs vs hv ha hn
      simp only [headCtors] at hhs
      cases hh : headCtors P with
      | none => simp [hh] at hhs
      | some hs' =>
        simp [hh] at hhs
        subst hhs
        simp only [List.mem_append, not_or] at hn
        rw [List.any_cons, List.any_append, ← s1.sem v c vargs vs hv ha hn.1,
          sem2 hs' hh v c vargs vs hv ha hn.2]
        simp [matchesL]

theorem defaultMatrix_spec (t : Ty) (ts' : List Ty) (P : Matrix) (hP : rowsHaveTy P (t :: ts')) :
    ∃ D, defaultMatrix P (ts'.length + 1) = some D ∧ rowsHaveTy D ts' ∧
      (∀ v vs, (D.any fun row => matchesL row vs) = true → (P.any fun row => matchesL row (v :: vs)) = true) ∧
      (∀ hs, headCtors P = some hs → ∀ v c vargs vs, v.decomp t = some (c, vargs) →
        hasTyL vargs (t.argTys c) = true → c ∉ hs →
        (P.any fun row => matchesL row (v :: vs)) = (D.any fun row => matchesL row vs)) := by
  obtain ⟨D, hD, hT, h1, h2⟩ := defRows_spec t ts' ts'.length rfl P hP
  refine ⟨D, ?_, hT, h1, h2⟩
  unfold defaultMatrix
  simp only [Nat.add_sub_cancel, hD, Option.bind_some]
  exact checkShape_ok (fun row hr => patsHaveTy_length (hT row hr))

/-! ## Σ -/

theorem mem_dedupAux (c : Ctor) : ∀ (l acc : List Ctor), c ∈ dedupAux acc l ↔ c ∈ acc ∨ c ∈ l
  | [], acc => by simp [dedupAux]
  | d :: l, acc => by
    unfold dedupAux
    by_cases h : acc.contains d = true
    · simp only [h, if_true]
      rw [mem_dedupAux c l acc]
      have hd : d ∈ acc := List.contains_iff_mem.mp h
      constructor
      · rintro (h | h)
        · exact Or.inl h
        · exact Or.inr (by simp [h])
      · rintro (h | h)
        · exact Or.inl h
        · rcases List.mem_cons.mp h with rfl | h
          · exact Or.inl hd
          · exact Or.inr h
    · simp only [h, Bool.false_eq_true, if_false]
      rw [mem_dedupAux c l (d :: acc)]
      simp only [List.mem_cons]
      constructor
      · rintro ((rfl | h) | h)
        · exact Or.inr (Or.inl rfl)
        · exact Or.inl h
        · exact Or.inr (Or.inr h)
      · rintro (h | rfl | h)
        · exact Or.inl (Or.inr h)
        · exact Or.inl (Or.inl rfl)
        · exact Or.inr h

theorem mem_dedup {c : Ctor} {l : List Ctor} : c ∈ dedup l ↔ c ∈ l := by
  simp [dedup, mem_dedupAux]

mutual
theorem rootCtors_isCtor (t : Ty) : ∀ (p : Pat), p.hasTy t = true → ∀ c ∈ p.rootCtors, t.isCtor c = true
  | .wild, _ => by simp [Pat.rootCtors]
  | .or ps, hp => by
    simp only [Pat.hasTy, Bool.and_eq_true] at hp
    simpa [Pat.rootCtors] using rootCtorsL_isCtor t ps hp.2
  | .bool b, hp => by
    intro c hc; rw [rootCtors_ctor (d := .bool b) rfl] at hc; simp at hc; subst hc
    exact (ctor_of_hasTy hp rfl).1
  | .u8 lo hi, hp => by
    intro c hc; rw [rootCtors_ctor (d := .u8 lo hi) rfl] at hc; simp at hc; subst hc
    exact (ctor_of_hasTy hp rfl).1
  | .num lo hi, hp => by cases t <;> simp [Pat.hasTy] at hp
  | .enum n k p, hp => by
    intro c hc; rw [rootCtors_ctor (d := .enum n k) rfl] at hc; simp at hc; subst hc
    exact (ctor_of_hasTy hp rfl).1
  | .tuple ps, hp => by
    intro c hc; rw [rootCtors_ctor (d := .tuple ps.length) rfl] at hc; simp at hc; subst hc
    exact (ctor_of_hasTy hp rfl).1
  | .strct idx ps, hp => by
    intro c hc; rw [rootCtors_ctor (d := .strct idx) rfl] at hc; simp at hc; subst hc
    exact (ctor_of_hasTy hp rfl).1
theorem rootCtorsL_isCtor (t : Ty) : ∀ (ps : List Pat), allHaveTy ps t = true → ∀ c ∈ rootCtorsL ps, t.isCtor c = true
  | [], _ => by simp [rootCtorsL]
  | p :: ps, hp => by
    simp only [allHaveTy, Bool.and_eq_true] at hp
    intro c hc
    simp only [rootCtorsL, List.mem_append] at hc
    rcases hc with h | h
    · exact rootCtors_isCtor t p hp.1 c h
    · exact rootCtorsL_isCtor t ps hp.2 c h
end

theorem headCtors_spec (t : Ty) (ts' : List Ty) : ∀ (P : Matrix), rowsHaveTy P (t :: ts') →
    ∃ hs, headCtors P = some hs ∧ ∀ c ∈ hs, t.isCtor c = true
  | [], _ => ⟨[], rfl, by simp⟩
  | [] :: P, hP => by have := hP [] (by simp); simp [patsHaveTy] at this
  | (p :: rest) :: P, hP => by
    have hrow := hP (p :: rest) (by simp)
    simp only [patsHaveTy, Bool.and_eq_true] at hrow
    obtain ⟨hs, h1, h2⟩ := headCtors_spec t ts' P (fun r hr => hP r (by simp [hr]))
    refine ⟨p.rootCtors ++ hs, by simp [headCtors, h1], ?_⟩
    intro c hc
    rcases List.mem_append.mp hc with h | h
    · exact rootCtors_isCtor t p hrow.1 c h
    · exact h2 c h


/-! ## Inhabitants -/

/-- A value with a prescribed constructor and prescribed (well-typed) arguments. -/
theorem mkVal {t : Ty} {c : Ctor} {vargs : List Val} (hc : t.isCtor c = true)
    (ha : hasTyL vargs (t.argTys c) = true) :
    ∃ v : Val, v.hasTy t = true ∧ v.decomp t = some (c, vargs) := by
  cases t <;> cases c <;> simp [Ty.isCtor] at hc
  case bool.bool b =>
    have : vargs = [] := by cases vargs <;> simp_all [Ty.argTys, hasTyL]
    subst this; exact ⟨Val.bool b, rfl, rfl⟩
  case u8.u8 lo hi =>
    have : vargs = [] := by cases vargs <;> simp_all [Ty.argTys, hasTyL]
    subst this; obtain ⟨rfl, h⟩ := hc
    exact ⟨Val.u8 lo, by simp [Val.hasTy, h], rfl⟩
  case enum.enum ts n k =>
    obtain ⟨rfl, hk⟩ := hc
    have hk' : ts[k]? = some ts[k] := List.getElem?_eq_getElem hk
    simp only [Ty.argTys, hk'] at ha
    match vargs, ha with
    | [v], ha =>
      simp only [hasTyL, Bool.and_true] at ha
      exact ⟨Val.enum k v, by simp [Val.hasTy, hk', ha], rfl⟩
    | [], ha => simp [hasTyL] at ha
    | _ :: _ :: _, ha => simp [hasTyL] at ha
  case tuple.tuple ts n =>
    subst hc
    exact ⟨Val.tuple vargs, by simpa [Val.hasTy, Ty.argTys] using ha, rfl⟩
  case strct.strct ts idx =>
    subst hc
    exact ⟨Val.tuple vargs, by simpa [Val.hasTy, Ty.argTys] using ha, rfl⟩

theorem inhab_argTys {t : Ty} {c : Ctor} (ht : t.inhab = true) (hc : t.isCtor c = true) :
    inhabL (t.argTys c) = true := by
  cases t <;> cases c <;> simp [Ty.isCtor] at hc <;> simp [Ty.argTys, inhabL]
  case enum.enum ts n k =>
    have hk' : ts[k]? = some ts[k] := List.getElem?_eq_getElem hc.2
    simp only [Ty.inhab, Bool.and_eq_true] at ht
    have : ∀ (l : List Ty), inhabL l = true → ∀ x ∈ l, x.inhab = true := by
      intro l; induction l with
      | nil => simp
      | cons a l ih =>
        intro h x hx
        simp only [inhabL, Bool.and_eq_true] at h
        rcases List.mem_cons.mp hx with rfl | hx
        · exact h.1
        · exact ih h.2 x hx
    simp [hk', inhabL, this ts ht.2 ts[k] (List.getElem_mem hc.2)]
  case tuple.tuple ts n => simpa [Ty.inhab] using ht
  case strct.strct ts idx => simpa [Ty.inhab] using ht

theorem exists_ctor {t : Ty} (ht : t.inhab = true) : ∃ c, t.isCtor c = true := by
  cases t
  case bool => exact ⟨Ctor.bool true, rfl⟩
  case u8 => exact ⟨Ctor.u8 0 0, rfl⟩
  case enum ts =>
    simp only [Ty.inhab, Bool.and_eq_true] at ht
    refine ⟨.enum ts.length 0, ?_⟩
    cases ts <;> simp_all [Ty.isCtor]
  case tuple ts => exact ⟨.tuple ts.length, by simp [Ty.isCtor]⟩
  case strct ts => exact ⟨.strct (List.range ts.length), by simp [Ty.isCtor]⟩

mutual
theorem exists_val : ∀ (t : Ty), t.inhab = true → ∃ v : Val, v.hasTy t = true
  | .bool, _ => ⟨Val.bool true, rfl⟩
  | .u8, _ => ⟨Val.u8 0, rfl⟩
  | .enum ts, h => by
    simp only [Ty.inhab, Bool.and_eq_true] at h
    match ts, h with
    | t :: ts, h =>
      simp only [inhabL, Bool.and_eq_true] at h
      obtain ⟨v, hv⟩ := exists_val t h.2.1
      exact ⟨Val.enum 0 v, by simp [Val.hasTy, hv]⟩
  | .tuple ts, h => by
    obtain ⟨vs, hvs⟩ := exists_vals ts (by simpa [Ty.inhab] using h)
    exact ⟨Val.tuple vs, by simpa [Val.hasTy] using hvs⟩
  | .strct ts, h => by
    obtain ⟨vs, hvs⟩ := exists_vals ts (by simpa [Ty.inhab] using h)
    exact ⟨Val.tuple vs, by simpa [Val.hasTy] using hvs⟩
theorem exists_vals : ∀ (ts : List Ty), inhabL ts = true → ∃ vs, hasTyL vs ts = true
  | [], _ => ⟨[], rfl⟩
  | t :: ts, h => by
    simp only [inhabL, Bool.and_eq_true] at h
    obtain ⟨v, hv⟩ := exists_val t h.1
    obtain ⟨vs, hvs⟩ := exists_vals ts h.2
    exact ⟨v :: vs, by simp [hasTyL, hv, hvs]⟩
end

/-- Every constructor of an inhabited type has a value. -/
theorem exists_val_ctor {t : Ty} {c : Ctor} (ht : t.inhab = true) (hc : t.isCtor c = true) :
    ∃ (v : Val) (vargs : List Val), v.hasTy t = true ∧ v.decomp t = some (c, vargs) ∧ hasTyL vargs (t.argTys c) = true := by
  obtain ⟨vargs, ha⟩ := exists_vals _ (inhab_argTys ht hc)
  obtain ⟨v, hv, hd⟩ := mkVal hc ha
  exact ⟨v, vargs, hv, hd, ha⟩

theorem inhabL_get {ts : List Ty} (h : inhabL ts = true) {k : Nat} {t : Ty} (hk : ts[k]? = some t) :
    t.inhab = true := by
  induction ts generalizing k with
  | nil => simp at hk
  | cons a ts ih =>
    simp only [inhabL, Bool.and_eq_true] at h
    cases k with
    | zero => simp at hk; subst hk; exact h.1
    | succ k => exact ih h.2 (by simpa using hk)

mutual
/-- A well-typed pattern of an inhabited type matches some value. -/
theorem exists_match : ∀ (p : Pat) (t : Ty), t.inhab = true → p.hasTy t = true →
    ∃ v : Val, v.hasTy t = true ∧ p.matches v = true
  | .wild, t, ht, _ => by
    obtain ⟨v, hv⟩ := exists_val t ht
    exact ⟨v, hv, by simp [Pat.matches]⟩
  | .bool b, t, _, hp => by
    cases t <;> simp [Pat.hasTy] at hp
    exact ⟨Val.bool b, rfl, by simp [Pat.matches]⟩
  | .u8 lo hi, t, _, hp => by
    cases t <;> simp [Pat.hasTy] at hp
    obtain ⟨rfl, h⟩ := hp
    exact ⟨Val.u8 lo, by simp [Val.hasTy, h], by simp [Pat.matches]⟩
  | .num lo hi, t, _, hp => by cases t <;> simp [Pat.hasTy] at hp
  | .enum n k p, t, ht, hp => by
    cases t <;> simp [Pat.hasTy] at hp
    case enum ts =>
      cases hk : ts[k]? with
      | none => simp [hk] at hp
      | some t' =>
        simp [hk] at hp
        simp only [Ty.inhab, Bool.and_eq_true] at ht
        obtain ⟨v, hv, hm⟩ := exists_match p t' (inhabL_get ht.2 hk) hp.2
        exact ⟨Val.enum k v, by simp [Val.hasTy, hk, hv], by simp [Pat.matches, hm]⟩
  | .tuple ps, t, ht, hp => by
    cases t <;> simp [Pat.hasTy] at hp
    case tuple ts =>
      obtain ⟨vs, hvs, hm⟩ := exists_matchL ps ts (by simpa [Ty.inhab] using ht) hp
      exact ⟨Val.tuple vs, by simpa [Val.hasTy] using hvs, by simpa [Pat.matches] using hm⟩
  | .strct idx ps, t, ht, hp => by
    cases t <;> simp [Pat.hasTy] at hp
    case strct ts =>
      obtain ⟨vs, hvs, hm⟩ := exists_matchL ps ts (by simpa [Ty.inhab] using ht) hp.2
      refine ⟨Val.tuple vs, by simpa [Val.hasTy] using hvs, ?_⟩
      have hl : ps.length = vs.length := matchesL_length hm
      have : List.range ts.length = List.range ps.length := by rw [patsHaveTy_length hp.2]
      simp [Pat.matches, hp.1, this, matchesF_range hl, hm]
  | .or ps, t, ht, hp => by
    simp only [Pat.hasTy, Bool.and_eq_true] at hp
    match ps, hp with
    | p :: ps, hp =>
      simp only [allHaveTy, Bool.and_eq_true] at hp
      obtain ⟨v, hv, hm⟩ := exists_match p t ht hp.2.1
      exact ⟨v, hv, by simp [Pat.matches, matchesAny, hm]⟩
theorem exists_matchL : ∀ (ps : List Pat) (ts : List Ty), inhabL ts = true → patsHaveTy ps ts = true →
    ∃ vs, hasTyL vs ts = true ∧ matchesL ps vs = true
  | [], [], _, _ => ⟨[], rfl, rfl⟩
  | p :: ps, t :: ts, ht, hp => by
    simp only [inhabL, Bool.and_eq_true] at ht
    simp only [patsHaveTy, Bool.and_eq_true] at hp
    obtain ⟨v, hv, hm⟩ := exists_match p t ht.1 hp.1
    obtain ⟨vs, hvs, hms⟩ := exists_matchL ps ts ht.2 hp.2
    exact ⟨v :: vs, by simp [hasTyL, hv, hvs], by simp [matchesL, hm, hms]⟩
  | [], _ :: _, _, hp => by simp [patsHaveTy] at hp
  | _ :: _, [], _, hp => by simp [patsHaveTy] at hp
end


/-! ## Complete signatures -/

/-- The two facts about `range.rs` on singleton ranges that the analysis relies on for `u8` columns. -/
def U8Facts : Prop :=
  ∀ (ks : List Nat), ks ≠ [] → (∀ k ∈ ks, k ≤ 255) →
    (∃ b, rangesEqual (ks.map fun k => (k, k)) (0, u8Max) = some b ∧ (b = true ↔ ∀ n, n ≤ 255 → n ∈ ks)) ∧
    exclusionary (ks.map fun k => (k, k)) (0, u8Max) ≠ none

theorem boolVals_spec : ∀ (sig : List Ctor), (∀ c ∈ sig, Ty.bool.isCtor c = true) →
    ∃ bs, boolVals sig = some bs ∧ ∀ b, b ∈ bs ↔ Ctor.bool b ∈ sig
  | [], _ => ⟨[], rfl, by simp⟩
  | c :: sig, h => by
    obtain ⟨bs, h1, h2⟩ := boolVals_spec sig (fun c hc => h c (by simp [hc]))
    have hc := h c (by simp)
    cases c <;> simp [Ty.isCtor] at hc
    case bool b0 =>
      refine ⟨b0 :: bs, by simp [boolVals, h1], ?_⟩
      intro b; simp [h2 b, eq_comm]

theorem enumTags_spec (ts : List Ty) : ∀ (sig : List Ctor), (∀ c ∈ sig, (Ty.enum ts).isCtor c = true) →
    ∃ tags, enumTags sig = some tags ∧ ∀ k, k ∈ tags ↔ Ctor.enum ts.length k ∈ sig
  | [], _ => ⟨[], rfl, by simp⟩
  | c :: sig, h => by
    obtain ⟨tags, h1, h2⟩ := enumTags_spec ts sig (fun c hc => h c (by simp [hc]))
    have hc := h c (by simp)
    cases c <;> simp [Ty.isCtor] at hc
    case enum n k0 =>
      obtain ⟨rfl, _⟩ := hc
      refine ⟨k0 :: tags, by simp [enumTags, h1], ?_⟩
      intro k; simp [h2 k, eq_comm]

theorem u8Ranges_spec : ∀ (sig : List Ctor), (∀ c ∈ sig, Ty.u8.isCtor c = true) →
    ∃ ks : List Nat, u8Ranges sig = some (ks.map fun k => (k, k)) ∧ (∀ k ∈ ks, k ≤ 255) ∧
      ∀ k, k ∈ ks ↔ Ctor.u8 k k ∈ sig
  | [], _ => ⟨[], rfl, by simp, by simp⟩
  | c :: sig, h => by
    obtain ⟨ks, h1, h2, h3⟩ := u8Ranges_spec sig (fun c hc => h c (by simp [hc]))
    have hc := h c (by simp)
    cases c <;> simp [Ty.isCtor] at hc
    case u8 lo hi =>
      obtain ⟨rfl, hle⟩ := hc
      refine ⟨lo :: ks, by simp [u8Ranges, h1], ?_, ?_⟩
      · intro k hk
        rcases List.mem_cons.mp hk with rfl | hk
        · exact hle
        · exact h2 k hk
      · intro k; simp [h3 k, eq_comm]

/-- `is_complete_signature` answers, without internal error, whether Σ contains every constructor of the
column type. -/
theorem isComplete_spec (h8 : U8Facts) (t : Ty) (ht : t.inhab = true) (sig : List Ctor)
    (hs : ∀ c ∈ sig, t.isCtor c = true) :
    ∃ b, isComplete sig = some b ∧ (b = true ↔ ∀ c, t.isCtor c = true → c ∈ sig) := by
  cases sig with
  | nil =>
    refine ⟨false, rfl, ?_⟩
    obtain ⟨c, hc⟩ := exists_ctor ht
    simp only [Bool.false_eq_true, false_iff]
    intro h; have := h c hc; simp at this
  | cons c0 rest =>
    have h0 := hs c0 (by simp)
    cases t <;> cases c0 <;> simp [Ty.isCtor] at h0
    case bool.bool b0 =>
      obtain ⟨bs, h1, h2⟩ := boolVals_spec (Ctor.bool b0 :: rest) hs
      refine ⟨bs.contains true && bs.contains false, by simp [isComplete, h1], ?_⟩
      simp only [Bool.and_eq_true, List.contains_iff_mem, h2]
      constructor
      · rintro ⟨ht, hf⟩ c hc
        cases c <;> simp [Ty.isCtor] at hc
        case bool b => cases b <;> assumption
      · intro h; exact ⟨h _ rfl, h _ rfl⟩
    case u8.u8 lo hi =>
      obtain ⟨ks, h1, h2, h3⟩ := u8Ranges_spec (Ctor.u8 lo hi :: rest) hs
      have hne : ks ≠ [] := by
        intro hk; subst hk
        have := (h3 lo).mpr (by obtain ⟨rfl, _⟩ := h0; simp)
        simp at this
      obtain ⟨⟨b, hb1, hb2⟩, _⟩ := h8 ks hne h2
      refine ⟨b, by simp [isComplete, h1, hb1], ?_⟩
      rw [hb2]
      constructor
      · intro h c hc
        cases c <;> simp [Ty.isCtor] at hc
        case u8 a b' => obtain ⟨rfl, hle⟩ := hc; exact (h3 a).mp (h a hle)
      · intro h n hn; exact (h3 n).mpr (h _ (by simp [Ty.isCtor, hn]))
    case enum.enum ts n k0 =>
      obtain ⟨rfl, hk0⟩ := h0
      obtain ⟨tags, h1, h2⟩ := enumTags_spec ts (Ctor.enum ts.length k0 :: rest) hs
      refine ⟨(List.range ts.length).all fun k => tags.contains k, by simp [isComplete, h1], ?_⟩
      simp only [List.all_eq_true, List.mem_range, List.contains_iff_mem, h2]
      constructor
      · intro h c hc
        cases c <;> simp [Ty.isCtor] at hc
        case enum n k => obtain ⟨rfl, hk⟩ := hc; exact h k hk
      · intro h k hk; exact h _ (by simp [Ty.isCtor, hk])
    case tuple.tuple ts n =>
      subst h0
      refine ⟨true, ?_, ?_⟩
      · simp only [isComplete]
        congr 1
        simp only [List.all_eq_true]
        intro d hd
        have := hs d (by simp [hd])
        cases d <;> simp [Ty.isCtor] at this
        simp [Ctor.same, this]
      · simp only [true_iff]
        intro c hc
        cases c <;> simp [Ty.isCtor] at hc
        simp [hc]
    case strct.strct ts idx =>
      subst h0
      refine ⟨true, ?_, ?_⟩
      · simp only [isComplete]
        congr 1
        simp only [List.all_eq_true]
        intro d hd
        have := hs d (by simp [hd])
        cases d <;> simp [Ty.isCtor] at this
        simp [Ctor.same, this]
      · simp only [true_iff]
        intro c hc
        cases c <;> simp [Ty.isCtor] at hc
        simp [hc]

/-- `create_pattern_not_present` does not fail on a non-empty incomplete Σ. -/
theorem notPresent_some (h8 : U8Facts) (t : Ty) (sig : List Ctor) (hne : sig ≠ [])
    (hs : ∀ c ∈ sig, t.isCtor c = true) (hinc : ¬ ∀ c, t.isCtor c = true → c ∈ sig) :
    notPresent sig ≠ none := by
  cases sig with
  | nil => exact absurd rfl hne
  | cons c0 rest =>
    have h0 := hs c0 (by simp)
    cases t <;> cases c0 <;> simp [Ty.isCtor] at h0
    case bool.bool b0 =>
      generalize hx : (b0 || rest.contains (Ctor.bool true)) = x
      generalize hy : (!b0 || (!rest.contains (Ctor.bool true) && rest.contains (Ctor.bool false))) = y
      have hboth : ¬ (x = true ∧ y = true) := by
        rintro ⟨rfl, rfl⟩
        apply hinc
        intro c hc
        cases c <;> simp [Ty.isCtor] at hc
        case bool b =>
          cases b0 <;> cases b <;> simp_all
      simp only [notPresent, hx, hy]
      cases x <;> cases y <;> simp_all
    case u8.u8 lo hi =>
      obtain ⟨ks, h1, h2, h3⟩ := u8Ranges_spec (Ctor.u8 lo hi :: rest) hs
      have hne' : ks ≠ [] := by
        intro hk; subst hk
        have := (h3 lo).mpr (by obtain ⟨rfl, _⟩ := h0; simp)
        simp at this
      obtain ⟨_, hex⟩ := h8 ks hne' h2
      cases he : exclusionary (ks.map fun k => (k, k)) (0, u8Max) with
      | none => exact absurd he hex
      | some gs => simp [notPresent, h1, he]
    case enum.enum ts n k0 =>
      obtain ⟨tags, h1, _⟩ := enumTags_spec ts (Ctor.enum n k0 :: rest) hs
      simp [notPresent, h1]
    case tuple.tuple ts n => simp [notPresent]
    case strct.strct ts idx => simp [notPresent]

end SwayVerif.Usefulness
