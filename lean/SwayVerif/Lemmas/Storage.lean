import SwayVerif.Model.Storage
/-!
Helper lemmas for C12 / C28 (`Model/Storage.lean`). Core Lean only.
-/
namespace SwayVerif.Storage

/-! ## bytes -/

@[simp] theorem zeros_length (n : Nat) : (zeros n).length = n := by simp [zeros]

theorem zeros_append (a b : Nat) : zeros a ++ zeros b = zeros (a + b) := by
  simp [zeros, List.replicate_append_replicate]

@[simp] theorem zeros_zero : zeros 0 = [] := rfl

@[simp] theorem beBytes_length (len n : Nat) : (beBytes len n).length = len := by
  induction len with
  | zero => rfl
  | succ k ih => simp [beBytes, ih]

theorem le_align8 (n : Nat) : n ≤ align8 n := by unfold align8; omega
theorem align8_mod (n : Nat) : align8 n % 8 = 0 := by unfold align8; omega
theorem align8_of_mod {n : Nat} (h : n % 8 = 0) : align8 n = n := by unfold align8; omega
theorem align8_eq (n : Nat) : align8 n = 8 * ((n + 7) / 8) := by unfold align8; omega

/-! ## layout of constants -/

namespace Val

theorem size_of_isList : ∀ {t : Val}, t.isList = true → t.size % 8 = 0
  | .nil, _ => rfl
  | .cons h t, hl => by
    have ih := size_of_isList (t := t) (by simpa [isList] using hl)
    have := align8_mod h.size
    simp only [size]; omega

theorem mem_length : ∀ {c : Val}, c.wf = true → c.mem.length = c.size
  | .u8 _, _ => rfl
  | .bool _, _ => rfl
  | .word _ _, _ => by simp [mem, size]
  | .b32 _ _, _ => by simp [mem, size]
  | .str bs, _ => by
    have := le_align8 bs.length
    simp [mem, size]; omega
  | .unit, _ => rfl
  | .nil, _ => rfl
  | .cons h t, hw => by
    simp only [wf, Bool.and_eq_true] at hw
    have h1 := mem_length hw.1.1
    have h2 := mem_length hw.1.2
    have := le_align8 h.size
    simp [mem, size, h1, h2]; omega
  | .enum tag uw p, hw => by
    simp only [wf, Bool.and_eq_true, decide_eq_true_eq] at hw
    have h1 := mem_length hw.1.2
    have := le_align8 p.size
    simp [mem, size, h1]; omega

/-- `serialize_to_words` with right padding is the memory image padded to the word; with left
padding (enum payloads) the padding goes in front. -/
theorem ser_eq : ∀ {c : Val}, c.wf = true →
    c.ser .right = c.mem ++ zeros (align8 c.size - c.size) ∧
    c.ser .left = zeros (align8 c.size - c.size) ++ c.mem
  | .u8 _, _ => by simp [ser, mem, size, align8, zeros]
  | .bool _, _ => by simp [ser, mem, size, align8, zeros]
  | .word _ _, _ => by simp [ser, mem, size, align8]
  | .b32 _ _, _ => by simp [ser, mem, size, align8]
  | .str bs, _ => by
    have h := align8_of_mod (align8_mod bs.length)
    simp [ser, mem, size, h]
  | .unit, _ => by simp [ser, mem, size, align8]
  | .nil, _ => by simp [ser, mem, size, align8]
  | .cons h t, hw => by
    simp only [wf, Bool.and_eq_true] at hw
    have ih1 := (ser_eq hw.1.1).1
    have ih2 := (ser_eq hw.1.2).1
    have ht := size_of_isList hw.2
    have hm := align8_mod h.size
    have e1 : align8 t.size - t.size = 0 := by rw [align8_of_mod ht]; omega
    have e2 : align8 (align8 h.size + t.size) - (align8 h.size + t.size) = 0 := by
      rw [align8_of_mod (by omega)]; omega
    simp [ser, mem, size, ih1, ih2, e1, e2]
  | .enum tag uw p, hw => by
    simp only [wf, Bool.and_eq_true, decide_eq_true_eq] at hw
    have ih := (ser_eq hw.1.2).2
    have e2 : align8 (8 + 8 * uw) - (8 + 8 * uw) = 0 := by
      rw [align8_of_mod (by omega)]; omega
    have ha := align8_eq p.size
    have hle := le_align8 p.size
    have e3 : zeros (8 * (uw - (p.size + 7) / 8)) ++ zeros (align8 p.size - p.size) = zeros (8 * uw - p.size) := by
      rw [zeros_append]; congr 1; omega
    simp only [ser, mem, size, ih, e2, zeros_zero, List.append_nil, List.nil_append, List.append_assoc]
    rw [← List.append_assoc (zeros _) (zeros _), e3]
    simp

theorem ser_length {c : Val} (hw : c.wf = true) : (c.ser .right).length = align8 c.size := by
  rw [(ser_eq hw).1, List.length_append, mem_length hw, zeros_length]
  have := le_align8 c.size; omega

theorem size_le_of_not_isRef : ∀ {c : Val}, c.isRef = false → c.size ≤ 8
  | .u8 _, _ => by simp [size]
  | .bool _, _ => by simp [size]
  | .word _ _, _ => by simp [size]
  | .unit, _ => by simp [size]
  | .b32 _ _, h => by simp [isRef] at h
  | .str _, h => by simp [isRef] at h
  | .nil, h => by simp [isRef] at h
  | .cons _ _, h => by simp [isRef] at h
  | .enum _ _ _, h => by simp [isRef] at h

/-- For a well-formed, non-zero-sized constant the compiler emits `ceil(size / 32)` slots. -/
theorem nslots_eq {c : Val} (hw : c.wf = true) (hpos : 0 < c.size) : c.nslots = (c.size + 31) / 32 := by
  have hl := ser_length hw
  have := le_align8 c.size
  cases c with
  | u8 _ => simp [nslots, size]
  | bool _ => simp [nslots, size]
  | word _ _ => simp [nslots, size]
  | b32 _ _ => simp [nslots, size]
  | unit => simp [size] at hpos
  | str bs => simp only [nslots, hl]; omega
  | nil => simp only [nslots, hl]; omega
  | cons h t => simp only [nslots, hl]; omega
  | enum tag uw p => simp only [nslots, hl]; omega

end Val

/-! ## deployment of consecutive slots -/

theorem find_range_map (key : Nat) (g : Nat → Slot) (n : Nat) (k : Nat) :
    ((List.range n).map fun i => (key + i, g i)).find? (fun p => p.1 == k)
      = if key ≤ k ∧ k < key + n then some (k, g (k - key)) else none := by
  induction n with
  | zero => simp
  | succ m ih =>
    rw [List.range_succ, List.map_append, List.find?_append, ih]
    by_cases h : key ≤ k ∧ k < key + m
    · have h' : key ≤ k ∧ k < key + (m + 1) := by omega
      simp [h, h']
    · simp only [h, if_false, Option.none_or, List.map_cons, List.map_nil]
      by_cases h2 : key + m = k
      · have h' : key ≤ k ∧ k < key + (m + 1) := by omega
        have : k - key = m := by omega
        simp [h2, h', this]
      · have h' : ¬ (key ≤ k ∧ k < key + (m + 1)) := by omega
        have h3 : (key + m == k) = false := by simpa using h2
        simp [h', List.find?, h3]

theorem deploy_range (key : Nat) (g : Nat → Slot) (n : Nat) (k : Nat) :
    (deploy ((List.range n).map fun i => (key + i, g i))).get k
      = if key ≤ k ∧ k < key + n then some (g (k - key)) else none := by
  simp only [deploy, find_range_map]
  by_cases h : key ≤ k ∧ k < key + n <;> simp [h]

theorem allSet_iff (st : Store) (k : Nat) (n : Nat) :
    allSet st k n = true ↔ ∀ i, i < n → (st.get (k + i)).isSome = true := by
  induction n with
  | zero => simp [allSet]
  | succ m ih =>
    simp only [allSet, Bool.and_eq_true, ih]
    constructor
    · intro h i hi
      by_cases hin : i < m
      · exact h.1 i hin
      · have : i = m := by omega
        subst this; exact h.2
    · intro h
      exact ⟨fun i hi => h i (by omega), h m (by omega)⟩

theorem getD_append_zeros (l : List Nat) (m a : Nat) (h : a < l.length) : (l ++ zeros m).getD a 0 = l[a] := by
  simp [List.getD, List.getElem?_append_left h, List.getElem?_eq_getElem h]

theorem getD_zeros_tail (l : List Nat) (m a : Nat) : (l ++ zeros m).getD a 0 = l.getD a 0 := by
  by_cases h : a < l.length
  · simp [List.getD, List.getElem?_append_left h]
  · have h' : l.length ≤ a := by omega
    simp only [List.getD, List.getElem?_append_right h', List.getElem?_eq_none h', zeros, List.getElem?_replicate]
    split <;> simp

/-! ## reading a freshly deployed field -/

theorem slotCalc_window (key o sz : Nat) (r : Bool) (hpos : 0 < sz) (hr : r = false → sz ≤ 8) :
    slotCalc (key + o / 4) (o % 4) sz r = (key + o / 4, (o % 4 * 8 + sz + 31) / 32, o % 4) := by
  have hm : o % 4 % 4 = o % 4 := Nat.mod_mod _ _
  cases r with
  | true => simp only [slotCalc, hm, if_true, Nat.sub_self, Nat.add_zero]
  | false =>
    have h8 := hr rfl
    have h1 : (o % 4 * 8 + sz + 31) / 32 = 1 := by omega
    simp [slotCalc, hm, h1]

theorem slotCalc_zero (key size : Nat) (r : Bool) (hpos : 0 < size) (hr : r = false → size ≤ 8) :
    slotCalc key 0 size r = (key, (size + 31) / 32, 0) := by
  have h := slotCalc_window key 0 size r hpos hr
  simpa using h

theorem loadBuf_deploy (key : Nat) (bs : List Nat) (n j a : Nat) (ha : j + a / 32 < n) :
    loadBuf (deploy ((List.range n).map fun i => (key + i, chunk32 bs i))) (key + j) a = bs.getD (32 * j + a) 0 := by
  have hk : key ≤ key + j + a / 32 ∧ key + j + a / 32 < key + n := by omega
  have hm : a % 32 < 32 := Nat.mod_lt _ (by omega)
  have e : key + j + a / 32 - key = j + a / 32 := by omega
  have e2 : 32 * (j + a / 32) + a % 32 = 32 * j + a := by omega
  simp only [loadBuf, deploy_range, hk, and_self, if_true, chunk32, hm, e, e2]

/-- Reading `sz` bytes that start `o` words into a field deployed as the 32-byte chunks of `bs`,
through the slot/offset the compiler computes (`subfieldKey`) and `slot_calculator`. -/
theorem readQuads_deploy_window (bs : List Nat) (key n o sz : Nat) (r : Bool) (hpos : 0 < sz)
    (hr : r = false → sz ≤ 8) (hfit : 8 * o + sz ≤ 32 * n) :
    readQuads (deploy ((List.range n).map fun i => (key + i, chunk32 bs i))) (key + o / 4) (o % 4) sz r
      = some ((List.range sz).map fun a => bs.getD (8 * o + a) 0) := by
  have hne : sz ≠ 0 := by omega
  unfold readQuads
  rw [if_neg hne, slotCalc_window key o sz r hpos hr]
  simp only []
  have hall : allSet (deploy ((List.range n).map fun i => (key + i, chunk32 bs i))) (key + o / 4)
      ((o % 4 * 8 + sz + 31) / 32) = true := by
    rw [allSet_iff]
    intro i hi
    have hk : key ≤ key + o / 4 + i ∧ key + o / 4 + i < key + n := by omega
    simp [deploy_range, hk]
  rw [if_pos hall]
  congr 1
  apply List.map_congr_left
  intro a ha
  have ha' : a < sz := by simpa using ha
  rw [loadBuf_deploy key bs n (o / 4) _ (by omega)]
  congr 1
  omega

theorem map_getD_eq_take_drop (l : List Nat) (off sz : Nat) (h : off + sz ≤ l.length) :
    ((List.range sz).map fun a => l.getD (off + a) 0) = (l.drop off).take sz := by
  apply List.ext_getElem
  · simp; omega
  · intro a h1 h2
    have ha : a < sz := by simpa using h1
    simp only [List.getElem_map, List.getElem_range, List.getElem_take, List.getElem_drop]
    have : off + a < l.length := by omega
    simp [List.getD, List.getElem?_eq_getElem this]

/-- Window read on a well-formed constant's slots: the bytes are the constant's memory image. -/
theorem readQuads_deploy_val (c : Val) (key o sz : Nat) (r : Bool) (hw : c.wf = true) (hpos : 0 < sz)
    (hr : r = false → sz ≤ 8) (hfit : 8 * o + sz ≤ c.size) :
    readQuads (deploy ((List.range c.nslots).map fun i => (key + i, chunk32 (c.ser .right) i)))
      (key + o / 4) (o % 4) sz r = some ((c.mem.drop (8 * o)).take sz) := by
  have hcpos : 0 < c.size := by omega
  have hn := Val.nslots_eq hw hcpos
  rw [readQuads_deploy_window _ key c.nslots o sz r hpos hr (by omega)]
  congr 1
  rw [← map_getD_eq_take_drop c.mem (8 * o) sz (by rw [Val.mem_length hw]; exact hfit)]
  apply List.map_congr_left
  intro a ha
  have ha' : a < sz := by simpa using ha
  rw [(Val.ser_eq hw).1, getD_zeros_tail]

theorem readQuads_deploy (c : Val) (key : Nat) (hw : c.wf = true) (hpos : 0 < c.size) :
    readQuads (deploy ((List.range c.nslots).map fun i => (key + i, chunk32 (c.ser .right) i)))
      key 0 c.size c.isRef = some c.mem := by
  have h := readQuads_deploy_val c key 0 c.size c.isRef hw hpos (fun h => Val.size_le_of_not_isRef h) (by omega)
  simp only [Nat.zero_div, Nat.add_zero, Nat.zero_mod, Nat.mul_zero, List.drop_zero] at h
  rw [h, ← Val.mem_length hw, List.take_length]

/-! ## struct members -/

theorem Val.field_spec : ∀ {c : Val} {i off : Nat} {v : Val}, c.wf = true → c.field i = some (off, v) →
    v.wf = true ∧ off % 8 = 0 ∧ off + v.size ≤ c.size ∧ (c.mem.drop off).take v.size = v.mem
  | .cons h t, 0, off, v, hw, hf => by
    simp only [Val.field, Option.some.injEq, Prod.mk.injEq] at hf
    obtain ⟨rfl, rfl⟩ := hf
    simp only [Val.wf, Bool.and_eq_true] at hw
    have hl := Val.mem_length hw.1.1
    have := le_align8 h.size
    refine ⟨hw.1.1, rfl, by simp only [Val.size]; omega, ?_⟩
    simp only [Val.mem, List.drop_zero, List.append_assoc]
    rw [← hl, List.take_left]
  | .cons h t, i + 1, off, v, hw, hf => by
    simp only [Val.field] at hf
    cases hft : t.field i with
    | none => simp [hft] at hf
    | some p =>
      obtain ⟨o', v'⟩ := p
      simp only [hft, Option.some.injEq, Prod.mk.injEq] at hf
      obtain ⟨rfl, rfl⟩ := hf
      simp only [Val.wf, Bool.and_eq_true] at hw
      obtain ⟨h1, h2, h3, h4⟩ := Val.field_spec hw.1.2 hft
      have hl := Val.mem_length hw.1.1
      have ha := le_align8 h.size
      have hm := align8_mod h.size
      refine ⟨h1, by omega, by simp only [Val.size]; omega, ?_⟩
      have hlen : (h.mem ++ zeros (align8 h.size - h.size)).length = align8 h.size := by
        simp [hl]; omega
      simp only [Val.mem]
      generalize hP : h.mem ++ zeros (align8 h.size - h.size) = P at hlen
      rw [← hlen, List.drop_length_add_append]
      exact h4

/-! ## several fields -/

theorem deploy_append (xs ys : List (Nat × Slot)) (k : Nat) :
    (deploy (xs ++ ys)).get k = match (deploy xs).get k with
      | some s => some s
      | none => (deploy ys).get k := by
  simp only [deploy, List.find?_append]
  cases List.find? (fun p => p.1 == k) xs <;> simp

theorem deploy_fieldSlots (f : Nat × Val) (k : Nat) :
    (deploy (fieldSlots f)).get k
      = if f.1 ≤ k ∧ k < f.1 + f.2.nslots then some (chunk32 (f.2.ser .right) (k - f.1)) else none :=
  deploy_range f.1 _ f.2.nslots k

theorem apart_symm (a b : Nat × Val) : apart a b = apart b a := by
  simp only [apart, Bool.or_comm]

/-- In the combined deployment every key of a field's own range is bound to that field's slot. -/
theorem deploy_allSlots : ∀ (fs : List (Nat × Val)) (f : Nat × Val) (k : Nat), keysSpaced fs = true → f ∈ fs →
    f.1 ≤ k → k < f.1 + f.2.nslots → (deploy (allSlots fs)).get k = (deploy (fieldSlots f)).get k
  | [], _, _, _, hm, _, _ => by simp at hm
  | g :: rest, f, k, hs, hm, h1, h2 => by
    simp only [keysSpaced, Bool.and_eq_true, List.all_eq_true] at hs
    have hA : allSlots (g :: rest) = fieldSlots g ++ allSlots rest := by simp [allSlots]
    rw [hA, deploy_append]
    rcases List.mem_cons.mp hm with rfl | hin
    · have : (deploy (fieldSlots f)).get k = some (chunk32 (f.2.ser .right) (k - f.1)) := by
        rw [deploy_fieldSlots, if_pos ⟨h1, h2⟩]
      rw [this]
    · have hap0 := hs.1 f hin
      have hap : g.1 + g.2.nslots ≤ f.1 ∨ f.1 + f.2.nslots ≤ g.1 := by
        simpa [apart] using hap0
      have : (deploy (fieldSlots g)).get k = none := by
        rw [deploy_fieldSlots, if_neg (by omega)]
      rw [this]
      exact deploy_allSlots rest f k hs.2 hin h1 h2

theorem loadBuf_congr (st st' : Store) (k a : Nat) (h : st.get (k + a / 32) = st'.get (k + a / 32)) :
    loadBuf st k a = loadBuf st' k a := by
  simp only [loadBuf, h]

theorem allSet_congr (st st' : Store) (k n : Nat) (h : ∀ i, i < n → st.get (k + i) = st'.get (k + i)) :
    allSet st k n = allSet st' k n := by
  induction n with
  | zero => rfl
  | succ m ih =>
    simp only [allSet, ih (fun i hi => h i (by omega)), h m (by omega)]

/-- `read_quads` only looks at the slots `slot_calculator` selects. -/
theorem readQuads_congr (st st' : Store) (slot off sz : Nat) (r : Bool) (hr : r = false → off % 4 * 8 + sz ≤ 32)
    (h : ∀ i, i < (slotCalc slot off sz r).2.1 →
      st.get ((slotCalc slot off sz r).1 + i) = st'.get ((slotCalc slot off sz r).1 + i)) :
    readQuads st slot off sz r = readQuads st' slot off sz r := by
  unfold readQuads
  by_cases hz : sz = 0
  · simp [hz]
  · rw [if_neg hz, if_neg hz]
    generalize hsc : slotCalc slot off sz r = sc at h
    obtain ⟨os, n, place⟩ := sc
    simp only [] at h ⊢
    have hplace : place = off % 4 := by simp [slotCalc] at hsc; omega
    have hn : n = if r then (place * 8 + sz + 31) / 32 else 1 := by
      simp [slotCalc] at hsc; rw [hplace]; exact hsc.2.1.symm
    rw [allSet_congr st st' os n h]
    have hm : ((List.range sz).map fun a => loadBuf st os (place * 8 + a))
        = ((List.range sz).map fun a => loadBuf st' os (place * 8 + a)) := by
      apply List.map_congr_left
      intro a ha
      have ha' : a < sz := by simpa using ha
      apply loadBuf_congr
      apply h
      have hp : place < 4 := by rw [hplace]; exact Nat.mod_lt _ (by omega)
      cases r with
      | true => simp at hn; omega
      | false => have := hr rfl; simp at hn; omega
    rw [hm]

theorem apart_of_keysSpaced : ∀ (fs : List (Nat × Val)) (i j : Nat) (hi : i < fs.length) (hj : j < fs.length),
    keysSpaced fs = true → i < j → apart fs[i] fs[j] = true
  | [], i, _, hi, _, _, _ => by simp at hi
  | f :: rest, 0, j + 1, _, hj, hs, _ => by
    simp only [keysSpaced, Bool.and_eq_true, List.all_eq_true] at hs
    exact hs.1 _ (List.getElem_mem _)
  | f :: rest, i + 1, j + 1, hi, hj, hs, hij => by
    simp only [keysSpaced, Bool.and_eq_true] at hs
    exact apart_of_keysSpaced rest i j (by simpa using hi) (by simpa using hj) hs.2 (by omega)

theorem mem_fieldSlots_keys (f : Nat × Val) (k : Nat) :
    k ∈ (fieldSlots f).map (·.1) ↔ f.1 ≤ k ∧ k < f.1 + f.2.nslots := by
  simp only [fieldSlots, List.map_map, List.mem_map, List.mem_range, Function.comp]
  constructor
  · rintro ⟨i, hi, hk⟩
    have hk' : f.1 + i = k := hk
    omega
  · intro h
    refine ⟨k - f.1, by omega, ?_⟩
    show f.1 + (k - f.1) = k
    omega

/-! ## storage key strings: separator analysis -/

theorem identChar_colon : identChar ':' = false := by decide
theorem identChar_dot : identChar '.' = false := by decide

/-- empty, or starting with a character no identifier contains -/
def Sep (x : List Char) : Prop := x = [] ∨ ∃ c t, x = c :: t ∧ identChar c = false

def IdChars (a : List Char) : Prop := ∀ c ∈ a, identChar c = true

theorem ident_split : ∀ (a b x y : List Char), IdChars a → IdChars b → Sep x → Sep y →
    a ++ x = b ++ y → a = b ∧ x = y
  | [], [], _, _, _, _, _, _, h => ⟨rfl, by simpa using h⟩
  | [], c :: b, x, y, _, hb, hx, _, h => by
    exfalso
    have hc := hb c (List.mem_cons_self ..)
    rcases hx with rfl | ⟨d, t, rfl, hd⟩
    · simp at h
    · simp only [List.nil_append, List.cons_append, List.cons.injEq] at h
      rw [h.1] at hd; rw [hd] at hc; cases hc
  | c :: a, [], x, y, ha, _, _, hy, h => by
    exfalso
    have hc := ha c (List.mem_cons_self ..)
    rcases hy with rfl | ⟨d, t, rfl, hd⟩
    · simp at h
    · simp only [List.nil_append, List.cons_append, List.cons.injEq] at h
      rw [← h.1] at hd; rw [hd] at hc; cases hc
  | c :: a, d :: b, x, y, ha, hb, hx, hy, h => by
    simp only [List.cons_append, List.cons.injEq] at h
    have ih := ident_split a b x y (fun e he => ha e (List.mem_cons_of_mem _ he))
      (fun e he => hb e (List.mem_cons_of_mem _ he)) hx hy h.2
    exact ⟨by rw [h.1, ih.1], ih.2⟩

def sfPart (sfs : List (List Char)) : List Char := sfs.flatMap (fun s => '.' :: s)
def nsPart (ns : List (List Char)) : List Char := ns.flatMap (fun n => ':' :: ':' :: n)

theorem sep_sfPart (sfs : List (List Char)) : Sep (sfPart sfs) := by
  cases sfs with
  | nil => exact Or.inl rfl
  | cons s r => exact Or.inr ⟨'.', s ++ sfPart r, by simp [sfPart], identChar_dot⟩

theorem sfPart_inj : ∀ (a b : List (List Char)), (∀ s ∈ a, IdChars s) → (∀ s ∈ b, IdChars s) →
    sfPart a = sfPart b → a = b
  | [], [], _, _, _ => rfl
  | [], s :: r, _, _, h => by simp [sfPart] at h
  | s :: r, [], _, _, h => by simp [sfPart] at h
  | s :: r, s' :: r', ha, hb, h => by
    have h' : s ++ sfPart r = s' ++ sfPart r' := by simpa [sfPart] using h
    have hs := ident_split s s' _ _ (ha s (List.mem_cons_self ..)) (hb s' (List.mem_cons_self ..))
      (sep_sfPart r) (sep_sfPart r') h'
    have ih := sfPart_inj r r' (fun x hx => ha x (List.mem_cons_of_mem _ hx))
      (fun x hx => hb x (List.mem_cons_of_mem _ hx)) hs.2
    rw [hs.1, ih]

theorem sep_nsTail (ns : List (List Char)) (t : List Char) : Sep (nsPart ns ++ '.' :: t) := by
  cases ns with
  | nil => exact Or.inr ⟨'.', t, by simp [nsPart], identChar_dot⟩
  | cons n r => exact Or.inr ⟨':', ':' :: n ++ (nsPart r ++ '.' :: t), by simp [nsPart], identChar_colon⟩

theorem nsPart_inj : ∀ (a b : List (List Char)) (t t' : List Char), (∀ s ∈ a, IdChars s) → (∀ s ∈ b, IdChars s) →
    nsPart a ++ '.' :: t = nsPart b ++ '.' :: t' → a = b ∧ t = t'
  | [], [], t, t', _, _, h => by simpa [nsPart] using h
  | [], n :: r, t, t', _, _, h => by
    exfalso
    simp only [nsPart, List.flatMap_nil, List.nil_append, List.flatMap_cons, List.cons_append, List.cons.injEq] at h
    exact absurd h.1 (by decide)
  | n :: r, [], t, t', _, _, h => by
    exfalso
    simp only [nsPart, List.flatMap_nil, List.nil_append, List.flatMap_cons, List.cons_append, List.cons.injEq] at h
    exact absurd h.1 (by decide)
  | n :: r, n' :: r', t, t', ha, hb, h => by
    have h' : n ++ (nsPart r ++ '.' :: t) = n' ++ (nsPart r' ++ '.' :: t') := by
      simpa [nsPart, List.append_assoc] using h
    have hs := ident_split n n' _ _ (ha n (List.mem_cons_self ..)) (hb n' (List.mem_cons_self ..))
      (sep_nsTail r t) (sep_nsTail r' t') h'
    have ih := nsPart_inj r r' t t' (fun x hx => ha x (List.mem_cons_of_mem _ hx))
      (fun x hx => hb x (List.mem_cons_of_mem _ hx)) hs.2
    exact ⟨by rw [hs.1, ih.1], ih.2⟩

theorem keyString_eq (ns : List (List Char)) (f : List Char) (sfs : List (List Char)) :
    keyString ns f sfs = topNs ++ (nsPart ns ++ '.' :: (f ++ sfPart sfs)) := by
  simp [keyString, nsPart, sfPart, List.append_assoc]

theorem keyString_inj (ns ns' : List (List Char)) (f f' : List Char) (sfs sfs' : List (List Char))
    (h1 : ∀ s ∈ ns, IdChars s) (h1' : ∀ s ∈ ns', IdChars s) (h2 : IdChars f) (h2' : IdChars f')
    (h3 : ∀ s ∈ sfs, IdChars s) (h3' : ∀ s ∈ sfs', IdChars s)
    (h : keyString ns f sfs = keyString ns' f' sfs') : ns = ns' ∧ f = f' ∧ sfs = sfs' := by
  rw [keyString_eq, keyString_eq] at h
  have h := List.append_cancel_left h
  obtain ⟨e1, e2⟩ := nsPart_inj ns ns' _ _ h1 h1' h
  obtain ⟨e3, e4⟩ := ident_split f f' _ _ h2 h2' (sep_sfPart sfs) (sep_sfPart sfs') e2
  exact ⟨e1, e3, sfPart_inj sfs sfs' h3 h3' e4⟩

theorem map_toNat_inj : ∀ (a b : List Char), a.map Char.toNat = b.map Char.toNat → a = b
  | [], [], _ => rfl
  | [], _ :: _, h => by simp at h
  | _ :: _, [], h => by simp at h
  | c :: a, d :: b, h => by
    simp only [List.map_cons, List.cons.injEq] at h
    have hc : c = d := by
      apply Char.ext
      apply UInt32.toNat_inj.mp
      exact h.1
    rw [hc, map_toNat_inj a b h.2]

/-! ## `read_quads` / `write_quads` as reads and writes of a flat byte memory (C28)

`loadBuf st k a` is byte `a` of the flat memory whose origin is slot `k`; `write_quads(k, off, v)`
overwrites bytes `[8*off, 8*off + |v|)` of it and makes the slots it spans present. -/

/-- number of slots an access of `sz` bytes at word offset `off` spans -/
def span (off sz : Nat) : Nat := (off % 4 * 8 + sz + 31) / 32

theorem slotCalc_eq (k off sz : Nat) (r : Bool) (hpos : 0 < sz) (hr : r = false → off % 4 * 8 + sz ≤ 32) :
    slotCalc k off sz r = (k + off / 4, span off sz, off % 4) := by
  cases r with
  | true =>
    have : (off * 8 + sz + 31) / 32 - (off % 4 * 8 + sz + 31) / 32 = off / 4 := by omega
    simp only [slotCalc, span, if_true, this]
  | false =>
    have h := hr rfl
    have h1 : (off * 8 + sz + 31) / 32 - 1 = off / 4 := by omega
    have h2 : (off % 4 * 8 + sz + 31) / 32 = 1 := by omega
    simp [slotCalc, span, h1, h2]

theorem loadBuf_shift (st : Store) (k off a : Nat) :
    loadBuf st (k + off / 4) (off % 4 * 8 + a) = loadBuf st k (8 * off + a) := by
  have e1 : k + off / 4 + (off % 4 * 8 + a) / 32 = k + (8 * off + a) / 32 := by omega
  have e2 : (off % 4 * 8 + a) % 32 = (8 * off + a) % 32 := by omega
  simp only [loadBuf, e1, e2]

theorem readQuads_eq (st : Store) (k off sz : Nat) (r : Bool) (hpos : 0 < sz)
    (hr : r = false → off % 4 * 8 + sz ≤ 32) :
    readQuads st k off sz r =
      if allSet st (k + off / 4) (span off sz) = true then
        some ((List.range sz).map fun a => loadBuf st k (8 * off + a))
      else none := by
  have hne : sz ≠ 0 := by omega
  unfold readQuads
  rw [if_neg hne, slotCalc_eq k off sz r hpos hr]
  simp only [loadBuf_shift]

theorem storeQuad_get (st : Store) (k : Nat) (buf : Nat → Nat) (n k' : Nat) :
    (storeQuad st k buf n).get k' =
      if k ≤ k' ∧ k' < k + n then some (fun b => if b < 32 then buf (32 * (k' - k) + b) else 0) else st.get k' := rfl

theorem loadBuf_storeQuad (st : Store) (k : Nat) (buf : Nat → Nat) (n k2 a : Nat) :
    loadBuf (storeQuad st k buf n) k2 a =
      if k ≤ k2 + a / 32 ∧ k2 + a / 32 < k + n then buf (32 * (k2 + a / 32 - k) + a % 32) else loadBuf st k2 a := by
  have hm : a % 32 < 32 := Nat.mod_lt _ (by omega)
  simp only [loadBuf, storeQuad_get]
  by_cases h : k ≤ k2 + a / 32 ∧ k2 + a / 32 < k + n
  · simp only [if_pos h, hm, if_true]
  · simp only [if_neg h]

/-- slots of the store other than the ones the write spans are unchanged -/
theorem writeQuads_get_other (st : Store) (k off : Nat) (v : List Nat) (r : Bool)
    (hr : r = false → off % 4 * 8 + v.length ≤ 32) (k' : Nat)
    (h : ¬ (k + off / 4 ≤ k' ∧ k' < k + off / 4 + span off v.length)) :
    (writeQuads st k off v r).get k' = st.get k' := by
  unfold writeQuads
  by_cases hz : v.length = 0
  · simp [hz]
  · simp only [hz, if_false]
    by_cases hb : v.length % 32 = 0 ∧ off = 0
    · rw [if_pos hb, storeQuad_get, if_neg]
      obtain ⟨h1, rfl⟩ := hb
      simp only [span] at h
      omega
    · rw [if_neg hb, slotCalc_eq k off v.length r (by omega) hr]
      simp only [storeQuad_get]
      rw [if_neg h]

theorem writeQuads_isSome (st : Store) (k off : Nat) (v : List Nat) (r : Bool) (hpos : 0 < v.length)
    (hr : r = false → off % 4 * 8 + v.length ≤ 32) (k' : Nat)
    (h : k + off / 4 ≤ k' ∧ k' < k + off / 4 + span off v.length) :
    ((writeQuads st k off v r).get k').isSome = true := by
  unfold writeQuads
  have hz : v.length ≠ 0 := by omega
  simp only [hz, if_false]
  by_cases hb : v.length % 32 = 0 ∧ off = 0
  · rw [if_pos hb, storeQuad_get, if_pos]
    · rfl
    · obtain ⟨h1, rfl⟩ := hb
      simp only [span] at h
      omega
  · rw [if_neg hb, slotCalc_eq k off v.length r hpos hr]
    simp only [storeQuad_get]
    rw [if_pos h]; rfl

/-- the flat memory after a write -/
theorem loadBuf_writeQuads (st : Store) (k off : Nat) (v : List Nat) (r : Bool) (hpos : 0 < v.length)
    (hr : r = false → off % 4 * 8 + v.length ≤ 32) (a : Nat) :
    loadBuf (writeQuads st k off v r) k a =
      if 8 * off ≤ a ∧ a < 8 * off + v.length then v.getD (a - 8 * off) 0 else loadBuf st k a := by
  unfold writeQuads
  have hz : v.length ≠ 0 := by omega
  simp only [hz, if_false]
  by_cases hb : v.length % 32 = 0 ∧ off = 0
  · obtain ⟨h1, rfl⟩ := hb
    rw [if_pos ⟨h1, rfl⟩, loadBuf_storeQuad]
    by_cases hin : a < v.length
    · have c1 : k ≤ k + a / 32 ∧ k + a / 32 < k + v.length / 32 := by omega
      have c2 : 8 * 0 ≤ a ∧ a < 8 * 0 + v.length := by omega
      have e : 32 * (k + a / 32 - k) + a % 32 = a := by omega
      rw [if_pos c1, if_pos c2, e]; simp
    · have c1 : ¬ (k ≤ k + a / 32 ∧ k + a / 32 < k + v.length / 32) := by omega
      have c2 : ¬ (8 * 0 ≤ a ∧ a < 8 * 0 + v.length) := by omega
      rw [if_neg c1, if_neg c2]
  · rw [if_neg hb, slotCalc_eq k off v.length r hpos hr]
    simp only []
    rw [loadBuf_storeQuad]
    by_cases c1 : k + off / 4 ≤ k + a / 32 ∧ k + a / 32 < k + off / 4 + span off v.length
    · rw [if_pos c1]
      have e : 32 * (k + a / 32 - (k + off / 4)) + a % 32 = a - 32 * (off / 4) := by omega
      rw [e]
      by_cases c2 : 8 * off ≤ a ∧ a < 8 * off + v.length
      · have c3 : off % 4 * 8 ≤ a - 32 * (off / 4) ∧ a - 32 * (off / 4) < off % 4 * 8 + v.length := by omega
        have e2 : a - 32 * (off / 4) - off % 4 * 8 = a - 8 * off := by omega
        rw [if_pos c2, if_pos c3, e2]
      · have c3 : ¬ (off % 4 * 8 ≤ a - 32 * (off / 4) ∧ a - 32 * (off / 4) < off % 4 * 8 + v.length) := by omega
        rw [if_neg c2, if_neg c3]
        simp only [loadBuf]
        have e4 : k + off / 4 + (a - 32 * (off / 4)) / 32 = k + a / 32 := by omega
        have e5 : (a - 32 * (off / 4)) % 32 = a % 32 := by omega
        rw [e4, e5]
    · rw [if_neg c1]
      have c2 : ¬ (8 * off ≤ a ∧ a < 8 * off + v.length) := by
        simp only [span] at c1; omega
      rw [if_neg c2]

/-! ## read-after-write and frame -/

theorem fromBE_aux (l : List Nat) (acc : Nat) :
    List.foldl (fun acc b => acc * 256 + b) acc l = acc * 256 ^ l.length + fromBE l := by
  induction l generalizing acc with
  | nil => simp [fromBE]
  | cons b t ih =>
    simp only [List.foldl_cons, fromBE, List.length_cons]
    rw [ih, ih (0 * 256 + b)]
    simp only [Nat.zero_mul, Nat.zero_add, Nat.pow_succ]
    rw [Nat.add_mul, Nat.add_assoc]
    congr 1
    rw [Nat.mul_assoc, Nat.mul_comm 256]

theorem fromBE_beBytes (len n : Nat) : fromBE (beBytes len n) = n % 256 ^ len := by
  induction len with
  | zero => simp [beBytes, fromBE, Nat.mod_one]
  | succ m ih =>
    simp only [beBytes, fromBE, List.foldl_cons, Nat.zero_mul, Nat.zero_add]
    rw [fromBE_aux, beBytes_length, ih]
    rw [Nat.pow_succ, Nat.mod_mul, Nat.add_comm, Nat.mul_comm]

theorem read_after_write (st : Store) (k off : Nat) (v : List Nat) (r : Bool) (hpos : 0 < v.length)
    (hr : r = false → off % 4 * 8 + v.length ≤ 32) :
    readQuads (writeQuads st k off v r) k off v.length r = some v := by
  rw [readQuads_eq _ k off v.length r hpos hr]
  have hall : allSet (writeQuads st k off v r) (k + off / 4) (span off v.length) = true := by
    rw [allSet_iff]
    intro i hi
    exact writeQuads_isSome st k off v r hpos hr _ (by omega)
  rw [if_pos hall]
  congr 1
  apply List.ext_getElem
  · simp
  · intro a h1 h2
    simp only [List.getElem_map, List.getElem_range]
    rw [loadBuf_writeQuads st k off v r hpos hr, if_pos (by omega)]
    have : 8 * off + a - 8 * off = a := by omega
    simp [this, List.getD, List.getElem?_eq_getElem h2]

/-- A read that succeeded before a write to the same base at a disjoint byte range still succeeds
with the same value (other offsets in the touched slots are preserved). -/
theorem write_frame (st : Store) (k off : Nat) (v : List Nat) (r : Bool) (hpos : 0 < v.length)
    (hr : r = false → off % 4 * 8 + v.length ≤ 32)
    (off' sz' : Nat) (r' : Bool) (hpos' : 0 < sz') (hr' : r' = false → off' % 4 * 8 + sz' ≤ 32)
    (hdisj : 8 * off' + sz' ≤ 8 * off ∨ 8 * off + v.length ≤ 8 * off') (x : List Nat)
    (h : readQuads st k off' sz' r' = some x) :
    readQuads (writeQuads st k off v r) k off' sz' r' = some x := by
  rw [readQuads_eq _ k off' sz' r' hpos' hr'] at h ⊢
  by_cases ha : allSet st (k + off' / 4) (span off' sz') = true
  · rw [if_pos ha] at h
    have ha' : allSet (writeQuads st k off v r) (k + off' / 4) (span off' sz') = true := by
      rw [allSet_iff] at ha ⊢
      intro i hi
      by_cases hin : k + off / 4 ≤ k + off' / 4 + i ∧ k + off' / 4 + i < k + off / 4 + span off v.length
      · exact writeQuads_isSome st k off v r hpos hr _ hin
      · rw [writeQuads_get_other st k off v r hr _ hin]; exact ha i hi
    rw [if_pos ha', ← h]
    congr 1
    apply List.map_congr_left
    intro a ha2
    have : a < sz' := by simpa using ha2
    rw [loadBuf_writeQuads st k off v r hpos hr, if_neg (by omega)]
  · rw [if_neg ha] at h; cases h

/-- A write does not change what a read sees whose slots are all outside the slots the write spans
(another field / another key). -/
theorem write_frame_other (st : Store) (k off : Nat) (v : List Nat) (r : Bool)
    (hr : r = false → off % 4 * 8 + v.length ≤ 32)
    (k2 off2 sz2 : Nat) (r2 : Bool) (hr2 : r2 = false → off2 % 4 * 8 + sz2 ≤ 32)
    (hsep : ∀ i, i < span off2 sz2 →
      ¬ (k + off / 4 ≤ k2 + off2 / 4 + i ∧ k2 + off2 / 4 + i < k + off / 4 + span off v.length)) :
    readQuads (writeQuads st k off v r) k2 off2 sz2 r2 = readQuads st k2 off2 sz2 r2 := by
  by_cases hz : sz2 = 0
  · simp [readQuads, hz]
  · apply readQuads_congr _ _ _ _ _ _ hr2
    rw [slotCalc_eq k2 off2 sz2 r2 (by omega) hr2]
    intro i hi
    exact writeQuads_get_other st k off v r hr _ (hsep i hi)

theorem span_zero_8 : span 0 8 = 1 := by decide

theorem readLen_writeLen (st : Store) (k n : Nat) (hn : n < 2 ^ 64) : readLen (writeLen st k n) k = n := by
  unfold readLen writeLen
  have h := read_after_write st k 0 (beBytes 8 n) false (by simp) (by simp)
  simp only [beBytes_length] at h
  rw [h]
  simp only []
  rw [fromBE_beBytes]
  exact Nat.mod_eq_of_lt (by simpa using hn)

theorem writeLen_get_other (st : Store) (k n k' : Nat) (h : k' ≠ k) : (writeLen st k n).get k' = st.get k' := by
  unfold writeLen
  apply writeQuads_get_other st k 0 (beBytes 8 n) false (by simp)
  simp only [beBytes_length, span_zero_8]
  omega

end SwayVerif.Storage
