import SwayVerif.Model.AsmOpt
/-!
Behaviour of op lists on the abstract machine of `Model/AsmOpt.lean`, and the proof method of C07:
a stuttering simulation (the optimised program may skip steps of the original one) gives equal
behaviour.
-/
namespace SwayVerif.AsmOpt
open SwayVerif.Asm

variable {V M X : Type}

/-- The run of `P` from state `s` ends with outcome `o` (exit value + final memory, or stuck). -/
def Behaves (mc : Machine V M X) (P : List AOp) (s : St V M) (o : Out M X) : Prop :=
  ∃ n, run mc P n s = some o

/-- Same observable behaviour: entered at op `0` with ANY registers and memory, the two op lists
end with the same outcome — the same exit value and the same final memory (`M` holds memory,
storage and the receipts/logs), or both get stuck — or both run forever. -/
def Equiv (mc : Machine V M X) (P Q : List AOp) : Prop :=
  ∀ r m o, Behaves mc P ⟨0, r, m⟩ o ↔ Behaves mc Q ⟨0, r, m⟩ o

theorem Equiv.refl (mc : Machine V M X) (P : List AOp) : Equiv mc P P := fun _ _ _ => Iff.rfl

theorem Equiv.trans {mc : Machine V M X} {P Q R : List AOp} (h1 : Equiv mc P Q) (h2 : Equiv mc Q R) :
    Equiv mc P R := fun r m o => (h1 r m o).trans (h2 r m o)

theorem Equiv.symm {mc : Machine V M X} {P Q : List AOp} (h : Equiv mc P Q) : Equiv mc Q P :=
  fun r m o => (h r m o).symm

/-- `run` is deterministic, so equal behaviour includes: `P` diverges iff `Q` diverges. -/
theorem Equiv.diverge_iff {mc : Machine V M X} {P Q : List AOp} (h : Equiv mc P Q) (r : Reg → V) (m : M) :
    (∀ n, run mc P n ⟨0, r, m⟩ = none) ↔ (∀ n, run mc Q n ⟨0, r, m⟩ = none) := by
  constructor
  · intro hp n
    cases hq : run mc Q n ⟨0, r, m⟩ with
    | none => rfl
    | some o =>
      obtain ⟨k, hk⟩ := (h r m o).2 ⟨n, hq⟩
      rw [hp k] at hk; cases hk
  · intro hq n
    cases hp : run mc P n ⟨0, r, m⟩ with
    | none => rfl
    | some o =>
      obtain ⟨k, hk⟩ := (h r m o).1 ⟨n, hp⟩
      rw [hq k] at hk; cases hk

/-- Stuttering simulation: every step of `P` is matched by one step of `Q`, or by none — then `P`
moved to the next op (so this cannot go on forever). -/
structure Sim (mc : Machine V M X) (P Q : List AOp) (R : St V M → St V M → Prop) : Prop where
  out : ∀ s s' o, R s s' → step mc P s = .inr o → step mc Q s' = .inr o
  stp : ∀ s s' t, R s s' → step mc P s = .inl t →
    (∃ t', step mc Q s' = .inl t' ∧ R t t') ∨ (R t s' ∧ t.pc = s.pc + 1 ∧ s.pc < P.length)

theorem Sim.forward {mc : Machine V M X} {P Q : List AOp} {R : St V M → St V M → Prop}
    (h : Sim mc P Q R) : ∀ n s s' o, R s s' → run mc P n s = some o → ∃ n', run mc Q n' s' = some o := by
  intro n
  induction n with
  | zero => intro s s' o _ hr; simp [run] at hr
  | succ n ih =>
    intro s s' o hR hr
    simp only [run] at hr
    cases hs : step mc P s with
    | inr o1 =>
      rw [hs] at hr
      simp only [Option.some.injEq] at hr
      subst hr
      exact ⟨1, by simp [run, h.out s s' o1 hR hs]⟩
    | inl t =>
      rw [hs] at hr
      rcases h.stp s s' t hR hs with ⟨t', hq, hR'⟩ | ⟨hR', _, _⟩
      · obtain ⟨n', hn'⟩ := ih t t' o hR' hr
        exact ⟨n' + 1, by simp [run, hq, hn']⟩
      · exact ih t s' o hR' hr

theorem Sim.backward {mc : Machine V M X} {P Q : List AOp} {R : St V M → St V M → Prop}
    (h : Sim mc P Q R) : ∀ n' s s' o, R s s' → run mc Q n' s' = some o → ∃ n, run mc P n s = some o := by
  intro n'
  induction n' with
  | zero => intro s s' o _ hr; simp [run] at hr
  | succ n' ih =>
    intro s s' o hR hr
    generalize hk : P.length - s.pc = k
    induction k using Nat.strongRecOn generalizing s with
    | ind k ihk =>
      cases hs : step mc P s with
      | inr o1 =>
        have hq := h.out s s' o1 hR hs
        simp only [run, hq, Option.some.injEq] at hr
        subst hr
        exact ⟨1, by simp [run, hs]⟩
      | inl t =>
        rcases h.stp s s' t hR hs with ⟨t', hq, hR'⟩ | ⟨hR', hpc, hlt⟩
        · simp only [run, hq] at hr
          obtain ⟨n, hn⟩ := ih t t' o hR' hr
          exact ⟨n + 1, by simp [run, hs, hn]⟩
        · obtain ⟨n, hn⟩ := ihk (P.length - t.pc) (by omega) t hR' rfl
          exact ⟨n + 1, by simp [run, hs, hn]⟩

theorem Sim.behaves {mc : Machine V M X} {P Q : List AOp} {R : St V M → St V M → Prop}
    (h : Sim mc P Q R) {s s' : St V M} (hR : R s s') (o : Out M X) :
    Behaves mc P s o ↔ Behaves mc Q s' o :=
  ⟨fun ⟨n, hn⟩ => h.forward n s s' o hR hn, fun ⟨n, hn⟩ => h.backward n s s' o hR hn⟩

theorem Sim.equiv {mc : Machine V M X} {P Q : List AOp} {R : St V M → St V M → Prop}
    (h : Sim mc P Q R) (h0 : ∀ r m, R ⟨0, r, m⟩ ⟨0, r, m⟩) : Equiv mc P Q :=
  fun r m o => h.behaves (h0 r m) o

/-! ### `step` from `act` -/

theorem step_none {mc : Machine V M X} {P : List AOp} {s : St V M} (h : P[s.pc]? = none) :
    step mc P s = .inr .stuck := by simp [step, h]

theorem step_fall {mc : Machine V M X} {P : List AOp} {s : St V M} {op : AOp} {r : Reg → V} {m : M}
    (h : P[s.pc]? = some op) (ha : act mc op s.regs s.mem = .fall r m) :
    step mc P s = .inl ⟨s.pc + 1, r, m⟩ := by simp [step, h, ha]

theorem step_goto_some {mc : Machine V M X} {P : List AOp} {s : St V M} {op : AOp} {l t : Nat} {r : Reg → V} {m : M}
    (h : P[s.pc]? = some op) (ha : act mc op s.regs s.mem = .goto l r m) (hl : labelIndex P l = some t) :
    step mc P s = .inl ⟨t, r, m⟩ := by simp [step, h, ha, hl]

theorem step_goto_none {mc : Machine V M X} {P : List AOp} {s : St V M} {op : AOp} {l : Nat} {r : Reg → V} {m : M}
    (h : P[s.pc]? = some op) (ha : act mc op s.regs s.mem = .goto l r m) (hl : labelIndex P l = none) :
    step mc P s = .inr .stuck := by simp [step, h, ha, hl]

theorem step_exit {mc : Machine V M X} {P : List AOp} {s : St V M} {op : AOp} {x : X} {m : M}
    (h : P[s.pc]? = some op) (ha : act mc op s.regs s.mem = .exit x m) :
    step mc P s = .inr (.exit x m) := by simp [step, h, ha]

theorem step_stuck {mc : Machine V M X} {P : List AOp} {s : St V M} {op : AOp}
    (h : P[s.pc]? = some op) (ha : act mc op s.regs s.mem = .stuck) :
    step mc P s = .inr .stuck := by simp [step, h, ha]

end SwayVerif.AsmOpt
