import SwayVerif.Lemmas.Lock
/-! Round-trip lemmas for C20 (`Props/C20.lean`). Core Lean only. -/
namespace SwayVerif.Lock

/-! ## Characters -/

def AlnumRange (c : Char) : Prop :=
  (65 ≤ c.val.toNat ∧ c.val.toNat ≤ 90) ∨ (97 ≤ c.val.toNat ∧ c.val.toNat ≤ 122) ∨ (48 ≤ c.val.toNat ∧ c.val.toNat ≤ 57)

instance (c : Char) : Decidable (AlnumRange c) := by unfold AlnumRange; infer_instance

theorem alnum_range (c : Char) (h : c.isAlphanum = true) : AlnumRange c := by
  simp only [Char.isAlphanum, Char.isAlpha, Char.isUpper, Char.isLower, Char.isDigit, Bool.or_eq_true,
    Bool.and_eq_true, decide_eq_true_eq] at h
  simp only [UInt32.le_iff_toNat_le] at h
  have h1 : 'A'.val.toNat = 65 := by decide
  have h2 : 'Z'.val.toNat = 90 := by decide
  have h3 : 'a'.val.toNat = 97 := by decide
  have h4 : 'z'.val.toNat = 122 := by decide
  have h5 : '0'.val.toNat = 48 := by decide
  have h6 : '9'.val.toNat = 57 := by decide
  unfold AlnumRange
  omega

theorem alnum_not_ws (c : Char) (h : c.isAlphanum = true) : isWs c = false := by
  have := alnum_range c h
  unfold AlnumRange at this
  simp only [isWs, Bool.or_eq_false_iff, Bool.and_eq_false_iff, decide_eq_false_iff_not, beq_eq_false_iff_ne]
  omega

theorem alnum_ne {c : Char} (h : c.isAlphanum = true) (d : Char) (hd : ¬ AlnumRange d) : c ≠ d := by
  intro e; subst e; exact hd (alnum_range c h)

theorem noChar_iff {c : Char} {s : Str} : noChar c s = true ↔ c ∉ s := by
  simp [noChar]

theorem noChar_append {c : Char} {a b : Str} : noChar c (a ++ b) = true ↔ noChar c a = true ∧ noChar c b = true := by
  simp [noChar_iff]

theorem noChar_cons {c x : Char} {a : Str} : noChar c (x :: a) = true ↔ c ≠ x ∧ noChar c a = true := by
  simp [noChar_iff]

theorem noChar_of_all_alnum {s : Str} (h : s.all Char.isAlphanum = true) (d : Char) (hd : ¬ AlnumRange d) :
    noChar d s = true := by
  rw [noChar_iff]
  intro hm
  have := List.all_eq_true.mp h d hm
  exact hd (alnum_range d this)

/-! ## `trim` -/

def EndOK (s : Str) : Prop := ∀ c, s.getLast? = some c → isWs c = false

theorem dropWhile_eq_self {p : Char → Bool} {l : Str} (h : ∀ c, l.head? = some c → p c = false) :
    l.dropWhile p = l := by
  cases l with
  | nil => rfl
  | cons x xs => simp [h x rfl]

theorem trimEnd_eq_self {s : Str} (h : EndOK s) : trimEnd s = s := by
  unfold trimEnd
  rw [dropWhile_eq_self]
  · simp
  · intro c hc
    rw [List.head?_reverse] at hc
    exact h c hc

theorem EndOK_of_endOK {s : Str} (h : endOK s = true) : EndOK s := by
  intro c hc
  unfold endOK at h
  rw [hc] at h
  simpa using h

theorem EndOK_nil : EndOK [] := by intro c hc; simp at hc

theorem EndOK_append_ne_nil {a b : Str} (hb : b ≠ []) (h : EndOK b) : EndOK (a ++ b) := by
  intro c hc
  rw [List.getLast?_append] at hc
  cases hl : b.getLast? with
  | none => exact absurd (List.getLast?_eq_none_iff.mp hl) hb
  | some d => rw [hl] at hc; simp at hc; exact h c (by rw [hl, hc])

theorem EndOK_append {a b : Str} (ha : EndOK a) (hb : EndOK b) : EndOK (a ++ b) := by
  cases b with
  | nil => simpa using ha
  | cons x xs => exact EndOK_append_ne_nil (by simp) hb

theorem EndOK_cons {c : Char} {b : Str} (hc : isWs c = false) (hb : EndOK b) : EndOK (c :: b) := by
  have : EndOK ([c] ++ b) := EndOK_append (by intro d hd; simp at hd; rw [← hd]; exact hc) hb
  simpa using this

theorem EndOK_of_all_alnum {s : Str} (h : s.all Char.isAlphanum = true) : EndOK s := by
  intro c hc
  have hm : c ∈ s := List.mem_of_getLast? hc
  exact alnum_not_ws c (List.all_eq_true.mp h c hm)

theorem trim_eq_self {s : Str} (h1 : ∀ c, s.head? = some c → isWs c = false) (h2 : EndOK s) : trim s = s := by
  unfold trim trimStart
  rw [dropWhile_eq_self h1, trimEnd_eq_self h2]

/-! ## Splitting -/

theorem splitChar_ne_nil (c : Char) (s : Str) : splitChar c s ≠ [] := by
  induction s with
  | nil => simp [splitChar]
  | cons x xs ih =>
    simp only [splitChar]
    split
    · simp
    · split <;> simp

theorem splitChar_of_noChar {c : Char} {s : Str} (h : noChar c s = true) : splitChar c s = [s] := by
  induction s with
  | nil => rfl
  | cons x xs ih =>
    rw [noChar_cons] at h
    simp only [splitChar]
    rw [if_neg (fun e => h.1 e.symm), ih h.2]

theorem splitChar_append_sep {c : Char} {a : Str} (b : Str) (h : noChar c a = true) :
    splitChar c (a ++ c :: b) = a :: splitChar c b := by
  induction a with
  | nil => simp [splitChar]
  | cons x xs ih =>
    rw [noChar_cons] at h
    simp only [List.cons_append, splitChar]
    rw [if_neg (fun e => h.1 e.symm), ih h.2]

theorem firstPiece_append_sep {c : Char} {a : Str} (b : Str) (h : noChar c a = true) :
    firstPiece c (a ++ c :: b) = a := by
  simp [firstPiece, splitChar_append_sep b h]

theorem splitOnce_append_sep {c : Char} {a : Str} (b : Str) (h : noChar c a = true) :
    splitOnce c (a ++ c :: b) = some (a, b) := by
  induction a with
  | nil => simp [splitOnce]
  | cons x xs ih =>
    rw [noChar_cons] at h
    simp only [List.cons_append, splitOnce]
    rw [if_neg (fun e => h.1 e.symm), ih h.2]

theorem getFrom_append_sep (a : Str) (c : Char) (b : Str) (hc : u8len c = 1) :
    getFrom (a ++ c :: b) (blen a + 1) = some b := by
  have : a ++ c :: b = (a ++ [c]) ++ b := by simp
  rw [this]
  have h2 : blen a + 1 = blen (a ++ [c]) := by simp [blen_append, hc]
  rw [h2]
  exact getFrom_append _ _

/-- No match of `pat` can start inside `s` when `s` avoids the first char of `pat`. -/
theorem splitStrAux_no_match {f : Char} {pat' : Str} {s : Str} (h : noChar f s = true) (cur : Str) :
    splitStrAux (f :: pat') s 0 cur = [cur.reverse ++ s] := by
  induction s generalizing cur with
  | nil => simp [splitStrAux]
  | cons x xs ih =>
    rw [noChar_cons] at h
    simp only [splitStrAux]
    have : (f :: pat').isPrefixOf (x :: xs) = false := by
      simp [List.isPrefixOf, h.1]
    rw [this]
    simp only [Bool.false_eq_true, ↓reduceIte]
    rw [ih h.2]
    simp

theorem splitStrAux_skip (pat : Str) (a s : Str) (cur : Str) :
    splitStrAux pat (a ++ s) a.length cur = splitStrAux pat s 0 cur := by
  induction a with
  | nil => simp
  | cons x xs ih => simp [splitStrAux, ih]

/-! ## Hex -/

theorem hexVal_upperHexDigit (d : Nat) (h : d < 16) : hexVal (upperHexDigit d) = some d := by
  have : d = 0 ∨ d = 1 ∨ d = 2 ∨ d = 3 ∨ d = 4 ∨ d = 5 ∨ d = 6 ∨ d = 7 ∨ d = 8 ∨ d = 9 ∨ d = 10 ∨ d = 11 ∨
      d = 12 ∨ d = 13 ∨ d = 14 ∨ d = 15 := by omega
  rcases this with h | h | h | h | h | h | h | h | h | h | h | h | h | h | h | h <;> subst h <;> decide

theorem parseHexDigits_append (a b : Str) (acc : Nat) :
    parseHexDigits (a ++ b) acc = (parseHexDigits a acc).bind (parseHexDigits b) := by
  induction a generalizing acc with
  | nil => simp [parseHexDigits]
  | cons x xs ih =>
    simp only [List.cons_append, parseHexDigits]
    cases hexVal x with
    | none => simp
    | some d => simp [ih]

theorem parseHexDigits_hexFixed (k n acc : Nat) :
    parseHexDigits (hexFixed k n) acc = some (acc * 16 ^ k + n % 16 ^ k) := by
  induction k generalizing n acc with
  | zero => simp [hexFixed, parseHexDigits, Nat.mod_one]
  | succ k ih =>
    simp only [hexFixed]
    rw [parseHexDigits_append, ih]
    simp only [Option.bind_some, parseHexDigits]
    rw [hexVal_upperHexDigit _ (Nat.mod_lt _ (by omega))]
    simp only [Option.some.injEq]
    have h1 : n % 16 ^ (k + 1) = 16 * (n / 16 % 16 ^ k) + n % 16 := by
      rw [Nat.pow_succ, Nat.mul_comm (16 ^ k) 16, Nat.mod_mul]
      omega
    rw [h1, Nat.pow_succ]
    rw [Nat.add_mul, Nat.mul_assoc]
    omega

theorem upperHexDigit_not (d : Nat) (c : Char) (hc : ¬ AlnumRange c) : upperHexDigit d ≠ c := by
  have : AlnumRange (upperHexDigit d) := by
    unfold upperHexDigit
    split <;> decide
  intro e; rw [e] at this; exact hc this

theorem upperHexDigit_ne_lower_f (d : Nat) : upperHexDigit d ≠ 'f' := by
  unfold upperHexDigit
  split <;> decide

theorem hexFixed_all {p : Char → Prop} (hp : ∀ d, p (upperHexDigit d)) (k n : Nat) : ∀ c ∈ hexFixed k n, p c := by
  induction k generalizing n with
  | zero => simp [hexFixed]
  | succ k ih =>
    intro c hc
    simp only [hexFixed, List.mem_append, List.mem_singleton] at hc
    rcases hc with hc | hc
    · exact ih _ c hc
    · rw [hc]; exact hp _

theorem hexFixed_length (k n : Nat) : (hexFixed k n).length = k := by
  induction k generalizing n with
  | zero => rfl
  | succ k ih => simp [hexFixed, ih]

theorem parseU64Hex_showId {n : Nat} (h : n < 2 ^ 64) : parseU64Hex (showId n) = some n := by
  unfold parseU64Hex showId
  have hne : (hexFixed 16 n).head? ≠ some '+' := by
    intro e
    have hm : '+' ∈ hexFixed 16 n := List.mem_of_head? e
    exact hexFixed_all (p := fun c => c ≠ '+') (fun d => upperHexDigit_not d '+' (by decide)) 16 n '+' hm rfl
  simp only [hne, ↓reduceIte]
  have hlen := hexFixed_length 16 n
  have : (hexFixed 16 n).isEmpty = false := by
    cases hx : hexFixed 16 n with
    | nil => rw [hx] at hlen; simp at hlen
    | cons a b => rfl
  rw [this, parseHexDigits_hexFixed]
  have h16 : (16 : Nat) ^ 16 = 2 ^ 64 := by decide
  simp only [Nat.zero_mul, Nat.zero_add, h16, Nat.mod_eq_of_lt h, Bool.false_eq_true, ↓reduceIte, h]

/-! ## `Pinned` round trips -/

theorem splitStr_prefix {f : Char} {pat' s : Str} (h : noChar f s = true) :
    splitStr (f :: pat') ((f :: pat') ++ s) = [[], s] := by
  unfold splitStr
  simp only [List.cons_append, splitStrAux]
  have hp : (f :: pat').isPrefixOf (f :: (pat' ++ s)) = true :=
    List.isPrefixOf_iff_prefix.mpr (by simpa using List.prefix_append (f :: pat') s)
  rw [if_pos hp]
  have hl : (f :: pat').length - 1 = pat'.length := by simp
  rw [hl, splitStrAux_skip, splitStrAux_no_match h]
  simp

theorem stripPrefixPlus_lit_append {c : Char} {l rest : Str} (hc : isWs c = false)
    (he : EndOK ((c :: l) ++ rest)) : stripPrefixPlus (c :: l) ((c :: l) ++ rest) = .ok rest := by
  unfold stripPrefixPlus
  simp only
  rw [trim_eq_self (by intro d hd; simp at hd; rw [← hd]; exact hc) he]
  rw [if_pos (startsWith_append _ _), getFrom_append]
  rfl

theorem stripPrefixPlus_err {lit s : Str} (ht : trim s = s) (h : startsWith s lit = false) :
    stripPrefixPlus lit s = .err := by
  unfold stripPrefixPlus
  simp only
  rw [ht, h]
  simp

theorem EndOK_showId (n : Nat) : EndOK (showId n) := by
  intro c hc
  have hm : c ∈ hexFixed 16 n := List.mem_of_getLast? hc
  exact hexFixed_all (p := fun c => isWs c = false) (fun d => by unfold upperHexDigit; split <;> decide) 16 n c hm

theorem noChar_f_showId (n : Nat) : noChar 'f' (showId n) = true := by
  rw [noChar_iff]
  intro hm
  exact hexFixed_all (p := fun c => c ≠ 'f') upperHexDigit_ne_lower_f 16 n 'f' hm rfl

theorem EndOK_display_path (root : Nat) : EndOK (Pinned.path root).display := by
  unfold Pinned.display
  exact EndOK_append (by intro c hc; simp [litPath] at hc; rw [← hc]; decide)
    (EndOK_append (by intro c hc; simp [litFromRoot] at hc; rw [← hc]; decide) (EndOK_showId root))

theorem parsePath_display {root : Nat} (h : root < 2 ^ 64) : parsePath (Pinned.path root).display = .ok root := by
  have he := EndOK_display_path root
  unfold parsePath
  unfold Pinned.display at he ⊢
  have := stripPrefixPlus_lit_append (c := 'p') (l := ['a', 't', 'h', '+']) (rest := litFromRoot ++ showId root)
    (by decide) he
  rw [show litPath = 'p' :: ['a', 't', 'h', '+'] from rfl, this]
  simp only [Res.bind_ok]
  rw [show litFromRoot = 'f' :: ['r', 'o', 'm', '-', 'r', 'o', 'o', 't', '-'] from rfl,
    splitStr_prefix (noChar_f_showId root)]
  simp [parseU64Hex_showId h]

theorem EndOK_commit {commit : Str} (h : validCommitHash commit = true) : EndOK ('#' :: commit) := by
  simp only [validCommitHash, Bool.and_eq_true] at h
  exact EndOK_cons (by decide) (EndOK_of_all_alnum h.2)

theorem EndOK_display_git {repo : Str} {r : Reference} {commit : Str} (h : validCommitHash commit = true) :
    EndOK (Pinned.git repo r commit).display := by
  unfold Pinned.display
  refine EndOK_append_ne_nil ?_ (EndOK_append_ne_nil (by simp) ?_)
  · simp
  · have : '?' :: (r.display ++ '#' :: commit) = ('?' :: r.display) ++ ('#' :: commit) := by simp
    rw [this]
    exact EndOK_append_ne_nil (by simp) (EndOK_commit h)

theorem parseGit_display {ext : Ext} {repo : Str} {r : Reference} {commit : Str}
    (h : WFPinned ext (.git repo r commit) = true) :
    parseGit ext (Pinned.git repo r commit).display = .ok (.git repo r commit) := by
  simp only [WFPinned, Bool.and_eq_true, decide_eq_true_eq] at h
  obtain ⟨⟨⟨h1, h2⟩, h3⟩, h4⟩ := h
  have he := EndOK_display_git (repo := repo) (r := r) h4
  unfold parseGit
  unfold Pinned.display at he ⊢
  have := stripPrefixPlus_lit_append (c := 'g') (l := ['i', 't', '+'])
    (rest := repo ++ '?' :: (r.display ++ '#' :: commit)) (by decide) he
  rw [show litGit = 'g' :: ['i', 't', '+'] from rfl, this]
  simp only [Res.bind_ok]
  rw [firstPiece_append_sep _ h2, h1]
  simp only [Res.ofOption_some, Res.bind_ok]
  rw [getFrom_append_sep _ _ _ (by decide)]
  simp only [Res.ofOption_some, Res.bind_ok]
  have hc : noChar '#' commit = true := by
    simp only [validCommitHash, Bool.and_eq_true] at h4
    exact noChar_of_all_alnum h4.2 '#' (by decide)
  have hr : noChar '#' r.display = true := by
    cases r with
    | branch b =>
      simp only [WFReference] at h3
      simp only [Reference.display, noChar_append, h3, and_true]; decide
    | tag t =>
      simp only [WFReference] at h3
      simp only [Reference.display, noChar_append, h3, and_true]; decide
    | rev s => show noChar '#' litRev = true; decide
    | default => show noChar '#' litDefault = true; decide
  rw [splitChar_append_sep _ hr, splitChar_of_noChar hc]
  simp only [List.getElem?_cons_zero, List.getElem?_cons_succ, Res.ofOption_some, Res.bind_ok, h4,
    Bool.not_true, Bool.false_eq_true, ↓reduceIte]
  cases r with
  | branch b =>
    simp only [Reference.display, startsWith_append, ↓reduceIte, getFrom_append, Res.orPanic_some, Res.bind_ok]
  | tag t =>
    have hn : startsWith (litTag ++ t) litBranch = false := by
      simp [startsWith, litTag, litBranch, List.isPrefixOf]
    simp only [Reference.display, hn, Bool.false_eq_true, startsWith_append, ↓reduceIte, getFrom_append,
      Res.orPanic_some, Res.bind_ok]
  | rev s =>
    simp only [WFReference, decide_eq_true_eq] at h3
    subst h3
    simp only [Reference.display]
    have hn1 : startsWith litRev litBranch = false := by decide
    have hn2 : startsWith litRev litTag = false := by decide
    simp [hn1, hn2]
  | default =>
    simp only [Reference.display]
    have hn1 : startsWith litDefault litBranch = false := by decide
    have hn2 : startsWith litDefault litTag = false := by decide
    have hn3 : litDefault ≠ litRev := by decide
    simp [hn1, hn2, hn3]

theorem noChar_of_all {p : Char → Bool} {s : Str} (h : s.all p = true) (d : Char) (hd : p d = false) :
    noChar d s = true := by
  rw [noChar_iff]
  intro hm
  have := List.all_eq_true.mp h d hm
  rw [hd] at this; exact absurd this (by simp)

theorem parseIpfs_display {ext : Ext} {cid : Str} (h : WFPinned ext (.ipfs cid) = true) :
    parseIpfs ext (Pinned.ipfs cid).display = .ok (.ipfs cid) := by
  simp only [WFPinned, Bool.and_eq_true, decide_eq_true_eq, cidTok] at h
  have he : EndOK (litIpfs ++ cid) :=
    EndOK_append (by intro c hc; simp [litIpfs] at hc; rw [← hc]; decide) (EndOK_of_all_alnum h.2)
  unfold parseIpfs Pinned.display
  have := stripPrefixPlus_lit_append (c := 'i') (l := ['p', 'f', 's', '+']) (rest := cid) (by decide) he
  rw [show litIpfs = 'i' :: ['p', 'f', 's', '+'] from rfl, this]
  simp [h.1]

theorem EndOK_nsd {ns : Option Str}
    (h : (match ns with
      | none => true
      | some d => !d.isEmpty && noChar '#' d && noChar '!' d && endOK d) = true) :
    EndOK ('!' :: ns.getD []) := by
  cases ns with
  | none => intro c hc; simp at hc; rw [← hc]; decide
  | some d =>
    simp only [Bool.and_eq_true] at h
    exact EndOK_cons (by decide) (EndOK_of_endOK h.2)

theorem parseReg_display {ext : Ext} {name ver cid : Str} {ns : Option Str}
    (h : WFPinned ext (.registry name ver cid ns) = true) :
    parseReg ext (Pinned.registry name ver cid ns).display = .ok (.registry name ver cid ns) := by
  simp only [WFPinned, Bool.and_eq_true, decide_eq_true_eq] at h
  obtain ⟨⟨⟨⟨⟨⟨hname, hver⟩, hvt⟩, hcid⟩, hct⟩, hvc⟩, hns⟩ := h
  have hW := EndOK_nsd hns
  have he : EndOK (litReg ++ (name ++ '?' :: (ver ++ '#' :: (cid ++ '!' :: ns.getD [])))) := by
    refine EndOK_append_ne_nil (by simp) (EndOK_append_ne_nil (by simp) ?_)
    have e1 : '?' :: (ver ++ '#' :: (cid ++ '!' :: ns.getD [])) = ('?' :: ver) ++ ('#' :: (cid ++ '!' :: ns.getD [])) := by simp
    rw [e1]
    refine EndOK_append_ne_nil (by simp) ?_
    have e2 : '#' :: (cid ++ '!' :: ns.getD []) = ('#' :: cid) ++ ('!' :: ns.getD []) := by simp
    rw [e2]
    exact EndOK_append_ne_nil (by simp) hW
  unfold parseReg Pinned.display
  have := stripPrefixPlus_lit_append (c := 'r') (l := ['e', 'g', 'i', 's', 't', 'r', 'y', '+'])
    (rest := name ++ '?' :: (ver ++ '#' :: (cid ++ '!' :: ns.getD []))) (by decide) he
  rw [show litReg = 'r' :: ['e', 'g', 'i', 's', 't', 'r', 'y', '+'] from rfl, this]
  simp only [Res.bind_ok]
  rw [splitOnce_append_sep _ hname]
  simp only [Res.ofOption_some, Res.bind_ok]
  have hv : noChar '#' ver = true := noChar_of_all hvt '#' (by decide)
  have hc1 : noChar '#' cid = true := noChar_of_all hct '#' (by decide)
  have hc2 : noChar '!' cid = true := noChar_of_all hct '!' (by decide)
  have hn1 : noChar '#' (ns.getD []) = true := by
    cases ns with
    | none => decide
    | some d => simp only [Bool.and_eq_true] at hns; exact hns.1.1.2
  have hn2 : noChar '!' (ns.getD []) = true := by
    cases ns with
    | none => decide
    | some d => simp only [Bool.and_eq_true] at hns; exact hns.1.2
  have hrest : noChar '#' (cid ++ '!' :: ns.getD []) = true := by
    rw [noChar_append, noChar_cons]
    exact ⟨hc1, by decide, hn1⟩
  rw [splitChar_append_sep _ hv, splitChar_of_noChar hrest]
  simp only [List.getElem?_cons_zero, List.getElem?_cons_succ, Res.ofOption_some, Res.bind_ok, hver]
  rw [splitChar_append_sep _ hc2, splitChar_of_noChar hn2]
  simp only [List.getElem?_cons_zero, List.getElem?_cons_succ, Res.ofOption_some, Res.bind_ok, hvc, hcid,
    Bool.not_true, Bool.false_eq_true, ↓reduceIte]
  cases ns with
  | none => rfl
  | some d =>
    simp only [Bool.and_eq_true, Bool.not_eq_true'] at hns
    simp [hns.1.1.1]

theorem EndOK_display {ext : Ext} {p : Pinned} (h : WFPinned ext p = true) : EndOK p.display := by
  cases p with
  | member => intro c hc; simp [Pinned.display, litMember] at hc; rw [← hc]; decide
  | git repo r commit =>
    simp only [WFPinned, Bool.and_eq_true] at h
    exact EndOK_display_git h.2
  | path root => exact EndOK_display_path root
  | ipfs cid =>
    simp only [WFPinned, Bool.and_eq_true, cidTok] at h
    exact EndOK_append (by intro c hc; simp [litIpfs] at hc; rw [← hc]; decide) (EndOK_of_all_alnum h.2)
  | registry name ver cid ns =>
    simp only [WFPinned, Bool.and_eq_true] at h
    have hW := EndOK_nsd h.2
    unfold Pinned.display
    refine EndOK_append_ne_nil (by simp) (EndOK_append_ne_nil (by simp) ?_)
    have e1 : '?' :: (ver ++ '#' :: (cid ++ '!' :: ns.getD [])) = ('?' :: ver) ++ ('#' :: (cid ++ '!' :: ns.getD [])) := by simp
    rw [e1]
    refine EndOK_append_ne_nil (by simp) ?_
    have e2 : '#' :: (cid ++ '!' :: ns.getD []) = ('#' :: cid) ++ ('!' :: ns.getD []) := by simp
    rw [e2]
    exact EndOK_append_ne_nil (by simp) hW

theorem head_display (p : Pinned) : ∃ c rest, p.display = c :: rest ∧ isWs c = false ∧
    (c = 'm' ∨ c = 'g' ∨ c = 'p' ∨ c = 'i' ∨ c = 'r') := by
  cases p with
  | member => exact ⟨'m', _, rfl, by decide, by simp⟩
  | git repo r commit => exact ⟨'g', _, rfl, by decide, by simp⟩
  | path root => exact ⟨'p', _, rfl, by decide, by simp⟩
  | ipfs cid => exact ⟨'i', _, rfl, by decide, by simp⟩
  | registry name ver cid ns => exact ⟨'r', _, rfl, by decide, by simp⟩

theorem trim_display {ext : Ext} {p : Pinned} (h : WFPinned ext p = true) : trim p.display = p.display := by
  obtain ⟨c, rest, e, hc, _⟩ := head_display p
  refine trim_eq_self ?_ (EndOK_display h)
  intro d hd
  rw [e] at hd
  simp at hd
  rw [← hd]; exact hc

theorem parsePath_err_of {s : Str} (ht : trim s = s) (h : startsWith s litPath = false) : parsePath s = .err := by
  unfold parsePath; rw [stripPrefixPlus_err ht h]; rfl

theorem parseGit_err_of {ext : Ext} {s : Str} (ht : trim s = s) (h : startsWith s litGit = false) :
    parseGit ext s = .err := by
  unfold parseGit; rw [stripPrefixPlus_err ht h]; rfl

theorem parseIpfs_err_of {ext : Ext} {s : Str} (ht : trim s = s) (h : startsWith s litIpfs = false) :
    parseIpfs ext s = .err := by
  unfold parseIpfs; rw [stripPrefixPlus_err ht h]; rfl

/-- `from_str (to_string p) = Ok(p)` for well-formed pinned sources. -/
theorem parsePinned_display {ext : Ext} {p : Pinned} (h : WFPinned ext p = true) :
    parsePinned ext p.display = .ok p := by
  have ht := trim_display h
  cases p with
  | member => simp [parsePinned, Pinned.display]
  | path root =>
    simp only [WFPinned, decide_eq_true_eq] at h
    have hne : ¬ ((Pinned.path root).display = litRoot ∨ (Pinned.path root).display = litMember) := by
      simp [Pinned.display, litPath, litRoot, litMember]
    unfold parsePinned
    rw [if_neg hne, parsePath_display h]
    rfl
  | git repo r commit =>
    have hne : ¬ ((Pinned.git repo r commit).display = litRoot ∨ (Pinned.git repo r commit).display = litMember) := by
      simp [Pinned.display, litGit, litRoot, litMember]
    have h1 : startsWith (Pinned.git repo r commit).display litPath = false := by
      simp [Pinned.display, startsWith, litGit, litPath, List.isPrefixOf]
    unfold parsePinned
    rw [if_neg hne, parsePath_err_of ht h1, parseGit_display h]
    rfl
  | ipfs cid =>
    have hne : ¬ ((Pinned.ipfs cid).display = litRoot ∨ (Pinned.ipfs cid).display = litMember) := by
      simp [Pinned.display, litIpfs, litRoot, litMember]
    have h1 : startsWith (Pinned.ipfs cid).display litPath = false := by
      simp [Pinned.display, startsWith, litIpfs, litPath, List.isPrefixOf]
    have h2 : startsWith (Pinned.ipfs cid).display litGit = false := by
      simp [Pinned.display, startsWith, litIpfs, litGit, List.isPrefixOf]
    unfold parsePinned
    rw [if_neg hne, parsePath_err_of ht h1, parseGit_err_of ht h2, parseIpfs_display h]
    rfl
  | registry name ver cid ns =>
    have hne : ¬ ((Pinned.registry name ver cid ns).display = litRoot ∨
        (Pinned.registry name ver cid ns).display = litMember) := by
      simp [Pinned.display, litReg, litRoot, litMember]
    have h1 : startsWith (Pinned.registry name ver cid ns).display litPath = false := by
      simp [Pinned.display, startsWith, litReg, litPath, List.isPrefixOf]
    have h2 : startsWith (Pinned.registry name ver cid ns).display litGit = false := by
      simp [Pinned.display, startsWith, litReg, litGit, List.isPrefixOf]
    have h3 : startsWith (Pinned.registry name ver cid ns).display litIpfs = false := by
      simp [Pinned.display, startsWith, litReg, litIpfs, List.isPrefixOf]
    unfold parsePinned
    rw [if_neg hne, parsePath_err_of ht h1, parseGit_err_of ht h2, parseIpfs_err_of ht h3, parseReg_display h]
    rfl

/-! ## Dependency lines -/

/-- What `pkg_dep_line` needs of the package string (`<name>` or `<name> <source>`). -/
def KeyOK (key : Str) : Prop := key ≠ [] ∧ startOK key = true ∧ endOK key = true ∧ noChar '(' key = true

theorem head_not_ws {s : Str} (h : startOK s = true) : ∀ c, s.head? = some c → isWs c = false := by
  intro c hc
  unfold startOK at h
  rw [hc] at h
  simpa using h

theorem trimStart_append_of_startOK {s : Str} (hne : s ≠ []) (h : startOK s = true) (t : Str) :
    trimStart (s ++ t) = s ++ t := by
  unfold trimStart
  apply dropWhile_eq_self
  intro c hc
  cases s with
  | nil => exact absurd rfl hne
  | cons x xs => simp at hc; rw [← hc]; exact head_not_ws h x rfl

theorem trimStart_space (s : Str) : trimStart (' ' :: s) = trimStart s := by
  simp [trimStart, show isWs ' ' = true from by decide]

theorem trimEnd_space (s : Str) : trimEnd (s ++ [' ']) = trimEnd s := by
  simp [trimEnd, show isWs ' ' = true from by decide]

theorem trim_key {key : Str} (hk : KeyOK key) : trim key = key := by
  obtain ⟨hne, h1, h2, _⟩ := hk
  unfold trim
  have := trimStart_append_of_startOK hne h1 []
  simp only [List.append_nil] at this
  rw [this, trimEnd_eq_self (EndOK_of_endOK h2)]

theorem trim_space_key {key : Str} (hk : KeyOK key) : trim (' ' :: key) = key := by
  unfold trim
  rw [trimStart_space]
  exact trim_key hk

theorem trim_key_space {key : Str} (hk : KeyOK key) : trim (key ++ [' ']) = key := by
  obtain ⟨hne, h1, h2, _⟩ := hk
  unfold trim
  rw [trimStart_append_of_startOK hne h1, trimEnd_space, trimEnd_eq_self (EndOK_of_endOK h2)]

theorem trim_space_key_space {key : Str} (hk : KeyOK key) : trim (' ' :: (key ++ [' '])) = key := by
  unfold trim
  rw [trimStart_space]
  exact trim_key_space hk

theorem hex_not_ws (c : Char) (h : (hexVal c).isSome = true) : isWs c = false := by
  cases hw : isWs c with
  | false => rfl
  | true =>
    exfalso
    simp only [isWs, Bool.or_eq_true, Bool.and_eq_true, decide_eq_true_eq, beq_iff_eq] at hw
    have : hexVal c = none := by
      unfold hexVal
      simp only
      rw [if_neg (by omega), if_neg (by omega), if_neg (by omega)]
    rw [this] at h; simp at h

theorem noChar_of_hex {s : Str} (h : s.all (fun c => (hexVal c).isSome && lowerHex c = c) = true) (d : Char)
    (hd : hexVal d = none) : noChar d s = true := by
  apply noChar_of_all h
  simp [hd]

theorem parseSalt_of_WF {s : Salt} (h : WFSalt s = true) : parseSalt s = some s := by
  simp only [WFSalt, Bool.and_eq_true, decide_eq_true_eq] at h
  obtain ⟨hl, ha⟩ := h
  have hx : noChar 'x' s = true := noChar_of_hex ha 'x' (by decide)
  have hs : startsWith s ['0', 'x'] = false := by
    cases s with
    | nil => rfl
    | cons a t =>
      cases t with
      | nil => simp [startsWith, List.isPrefixOf]
      | cons b u =>
        rw [noChar_cons, noChar_cons] at hx
        have : ¬ ('x' = b) := hx.2.1
        simp [startsWith, List.isPrefixOf]
        intro _ hb
        exact this hb
  unfold parseSalt
  simp only [hs, Bool.false_eq_true, ↓reduceIte]
  have h1 : s.all (fun c => (hexVal c).isSome) = true := by
    rw [List.all_eq_true] at ha ⊢
    intro c hc
    have := ha c hc
    simp only [Bool.and_eq_true] at this
    exact this.1
  have h2 : s.map lowerHex = s := by
    rw [List.all_eq_true] at ha
    have : ∀ c ∈ s, lowerHex c = c := by
      intro c hc
      have := ha c hc
      simp only [Bool.and_eq_true, decide_eq_true_eq] at this
      exact this.2
    clear hl ha hx hs h1
    induction s with
    | nil => rfl
    | cons a t ih =>
      simp only [List.map_cons]
      rw [this a List.mem_cons_self, ih (fun c hc => this c (List.mem_cons_of_mem _ hc))]
  simp [hl, h1, h2]

theorem stripSuffix_snoc (s : Str) (c : Char) : stripSuffixChar (s ++ [c]) c = some s := by
  simp [stripSuffixChar]

/-- The text `pkg_dep_line` appends for the salt. -/
def saltPost : Option Salt → Str
  | none => []
  | some s => ' ' :: '(' :: (s ++ [')'])

theorem pkgDepLine_eq (depName : Option Str) (name source : Str) (kind : DepKind) (dis : Bool) :
    pkgDepLine depName name source kind dis =
      (match depName with
        | none => pkgNameDisambiguated name source dis
        | some d => '(' :: (d ++ (')' :: ' ' :: pkgNameDisambiguated name source dis))) ++ saltPost (saltOf kind) := by
  unfold pkgDepLine
  cases depName <;> cases kind <;> simp only [saltOf] <;> (try split) <;> simp [saltPost]

theorem WFSalt_of_saltOf {kind : DepKind} (h : WFKind kind = true) {s : Salt} (hs : saltOf kind = some s) :
    WFSalt s = true := by
  cases kind with
  | library => simp [saltOf] at hs
  | contract t =>
    simp only [saltOf] at hs
    split at hs
    · simp at hs
    · simp only [Option.some.injEq] at hs
      subst hs; exact h

/-- The tail parser on `<pad><key><salt part>` with `pad` empty or one space. -/
theorem parseDepTail_body {key : Str} (hk : KeyOK key) (depName : Option Str) (pad : Bool)
    {salt : Option Salt} (hs : ∀ s, salt = some s → WFSalt s = true) :
    parseDepTail depName ((if pad then [' '] else []) ++ (key ++ saltPost salt)) = .ok (depName, key, salt) := by
  have hkp := hk.2.2.2
  have hpadk : noChar '(' ((if pad then [' '] else []) ++ key) = true := by
    cases pad
    · simpa using hkp
    · rw [noChar_append]; exact ⟨by decide, hkp⟩
  have htrim : trim ((if pad then [' '] else []) ++ key) = key := by
    cases pad
    · simpa using trim_key hk
    · simpa using trim_space_key hk
  have htrim2 : trim ((if pad then [' '] else []) ++ key ++ [' ']) = key := by
    cases pad
    · simpa using trim_key_space hk
    · simpa using trim_space_key_space hk
  unfold parseDepTail
  cases salt with
  | none =>
    simp only [saltPost, List.append_nil]
    rw [splitChar_of_noChar hpadk]
    simp [htrim]
  | some s =>
    have hw := hs s rfl
    have hw' := hw
    simp only [WFSalt, Bool.and_eq_true, decide_eq_true_eq] at hw'
    have hsp : noChar '(' (s ++ [')']) = true := by
      rw [noChar_append]
      exact ⟨noChar_of_hex hw'.2 '(' (by decide), by decide⟩
    have e : (if pad then [' '] else []) ++ (key ++ saltPost (some s)) =
        ((if pad then [' '] else []) ++ key ++ [' ']) ++ '(' :: (s ++ [')']) := by
      simp [saltPost]
    have hpadk2 : noChar '(' ((if pad then [' '] else []) ++ key ++ [' ']) = true := by
      rw [noChar_append]; exact ⟨hpadk, by decide⟩
    rw [e, splitChar_append_sep _ hpadk2, splitChar_of_noChar hsp]
    have hend : EndOK (s ++ [')']) := EndOK_append_ne_nil (by simp) (by intro c hc; simp at hc; rw [← hc]; decide)
    have hstart : ∀ c, (s ++ [')']).head? = some c → isWs c = false := by
      intro c hc
      cases s with
      | nil => simp at hc; rw [← hc]; decide
      | cons x xs =>
        simp at hc
        rw [← hc]
        have := List.all_eq_true.mp hw'.2 x (List.mem_cons_self)
        simp only [Bool.and_eq_true] at this
        exact hex_not_ws x this.1
    simp only [List.getElem?_cons_zero, List.getElem?_cons_succ, Res.ofOption_some, Res.bind_ok, htrim2]
    rw [trim_eq_self hstart hend, stripSuffix_snoc]
    simp only [Res.ofOption_some, Res.bind_ok, parseSalt_of_WF hw]

/-- `parse_pkg_dep_line (pkg_dep_line ..)` returns the dependency name, the package string and the salt. -/
theorem parsePkgDepLine_pkgDepLine (depName : Option Str) (name source : Str) (kind : DepKind) (dis : Bool)
    (hd : ∀ d, depName = some d → WFDepName d = true)
    (hk : KeyOK (pkgNameDisambiguated name source dis)) (hkind : WFKind kind = true) :
    parsePkgDepLine (pkgDepLine depName name source kind dis) =
      .ok (depName, pkgNameDisambiguated name source dis, saltOf kind) := by
  rw [pkgDepLine_eq]
  generalize hkey : pkgNameDisambiguated name source dis = key at hk ⊢
  have hs : ∀ s, saltOf kind = some s → WFSalt s = true := fun s h => WFSalt_of_saltOf hkind h
  have hpostEnd : EndOK (key ++ saltPost (saltOf kind)) := by
    cases hso : saltOf kind with
    | none => simpa [saltPost] using EndOK_of_endOK hk.2.2.1
    | some s =>
      simp only [saltPost]
      refine EndOK_append_ne_nil (by simp) ?_
      have : ' ' :: '(' :: (s ++ [')']) = (' ' :: '(' :: s) ++ [')'] := by simp
      rw [this]
      exact EndOK_append_ne_nil (by simp) (by intro c hc; simp at hc; rw [← hc]; decide)
  unfold parsePkgDepLine
  cases depName with
  | none =>
    simp only
    obtain ⟨hne, h1, h2, h3⟩ := hk
    have ht : trim (key ++ saltPost (saltOf kind)) = key ++ saltPost (saltOf kind) := by
      refine trim_eq_self ?_ hpostEnd
      intro c hc
      cases key with
      | nil => exact absurd rfl hne
      | cons x xs => simp at hc; rw [← hc]; exact head_not_ws h1 x rfl
    have hnp : startsWith (key ++ saltPost (saltOf kind)) ['('] = false := by
      cases key with
      | nil => exact absurd rfl hne
      | cons x xs =>
        rw [noChar_cons] at h3
        simp [startsWith, List.isPrefixOf]
        exact fun e => h3.1 e
    rw [ht]
    unfold parseDepHead
    simp only [hnp, Bool.false_eq_true, ↓reduceIte, Res.bind_ok]
    have := parseDepTail_body ⟨hne, h1, h2, h3⟩ none false hs
    simpa using this
  | some d =>
    simp only
    have hdn := hd d rfl
    simp only [WFDepName] at hdn
    have e : '(' :: (d ++ ')' :: ' ' :: key) ++ saltPost (saltOf kind) =
        '(' :: (d ++ ')' :: (' ' :: (key ++ saltPost (saltOf kind)))) := by simp
    rw [e]
    have ht : trim ('(' :: (d ++ ')' :: (' ' :: (key ++ saltPost (saltOf kind))))) =
        '(' :: (d ++ ')' :: (' ' :: (key ++ saltPost (saltOf kind)))) := by
      refine trim_eq_self (by intro c hc; simp at hc; rw [← hc]; decide) ?_
      have e2 : '(' :: (d ++ ')' :: (' ' :: (key ++ saltPost (saltOf kind)))) =
          ('(' :: (d ++ [')', ' '])) ++ (key ++ saltPost (saltOf kind)) := by simp
      rw [e2]
      refine EndOK_append_ne_nil ?_ hpostEnd
      intro hnil
      have := List.append_eq_nil_iff.mp hnil
      exact hk.1 this.1
    rw [ht]
    unfold parseDepHead
    have hsw : startsWith ('(' :: (d ++ ')' :: (' ' :: (key ++ saltPost (saltOf kind))))) ['('] = true := by
      simp [startsWith, List.isPrefixOf]
    have hg : getFrom ('(' :: (d ++ ')' :: (' ' :: (key ++ saltPost (saltOf kind))))) 1 =
        some (d ++ ')' :: (' ' :: (key ++ saltPost (saltOf kind)))) := by
      have := getFrom_append ['('] (d ++ ')' :: (' ' :: (key ++ saltPost (saltOf kind))))
      simpa [show u8len '(' = 1 from by decide] using this
    simp only [hsw, ↓reduceIte, hg, Res.orPanic_some, Res.bind_ok, splitOnce_append_sep _ hdn, Res.ofOption_some]
    have := parseDepTail_body hk (some d) true hs
    simpa using this

end SwayVerif.Lock
