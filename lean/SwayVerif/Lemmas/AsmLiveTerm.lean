import Mathlib.Data.List.Perm.Subperm
import SwayVerif.Lemmas.AsmGraph
/-!
Termination of the liveness loop: the loop bound `liveFuel` of the model is never exhausted
(every round that reports "modified" adds a used register to one of the `2·|ops|` duplicate-free
sets, each of which only ever holds used registers).
-/
namespace SwayVerif.Asm

def tot (l : List RSet) : Nat := (l.map List.length).sum

/-- the registers the analysis can ever put into a set -/
def usedRegs (ic : Bool) (ops : List AOp) : List Reg := (ops.flatMap (·.uses)).filter (keepReg ic)

theorem length_ins_ge (s : RSet) (r : Reg) : s.length ≤ (ins s r).length := by
  unfold ins; split <;> simp

theorem length_foldl_ins_ge (rs : List Reg) (s : RSet) : s.length ≤ (rs.foldl ins s).length := by
  induction rs generalizing s with
  | nil => exact Nat.le_refl _
  | cons r rs ih => exact Nat.le_trans (length_ins_ge s r) (ih _)

theorem length_foldl_ins_gt (rs : List Reg) (s : RSet) (h : ∃ r ∈ rs, r ∉ s) :
    s.length < (rs.foldl ins s).length := by
  induction rs generalizing s with
  | nil => obtain ⟨r, hr, _⟩ := h; cases hr
  | cons a rs ih =>
    simp only [List.foldl_cons]
    by_cases ha : a ∈ s
    · have e : ins s a = s := by unfold ins; simp [ha]
      rw [e]
      obtain ⟨r, hr, hrs⟩ := h
      rcases List.mem_cons.1 hr with rfl | hr
      · exact absurd ha hrs
      · exact ih s ⟨r, hr, hrs⟩
    · have e : (ins s a).length = s.length + 1 := by unfold ins; simp [ha]
      have := length_foldl_ins_ge rs (ins s a)
      omega

theorem insAll_length (s : RSet) (rs : List Reg) :
    s.length ≤ (insAll s rs).1.length ∧ ((insAll s rs).2 = true → s.length < (insAll s rs).1.length) := by
  refine ⟨length_foldl_ins_ge rs s, fun h => length_foldl_ins_gt rs s ?_⟩
  simp only [insAll, Bool.not_eq_true', List.all_eq_false, decide_eq_true_eq] at h
  exact h

theorem tot_set (l : List RSet) (i : Nat) (x : RSet) (hi : i < l.length) :
    tot (l.set i x) + (l.getD i []).length = tot l + x.length := by
  induction l generalizing i with
  | nil => cases hi
  | cons a l ih =>
    cases i with
    | zero => simp [tot]; omega
    | succ i =>
      have := ih i (by simpa using hi)
      simp only [tot, List.set_cons_succ, List.map_cons, List.sum_cons, List.getD_cons_succ] at this ⊢
      omega

/-- Invariant of the liveness loop. -/
structure LInv (ic : Bool) (ops : List AOp) (st : LState) : Prop where
  lenIn : st.liveIn.length = ops.length
  lenOut : st.liveOut.length = ops.length
  okIn : ∀ s ∈ st.liveIn, s.Nodup ∧ ∀ r ∈ s, r ∈ usedRegs ic ops
  okOut : ∀ s ∈ st.liveOut, s.Nodup ∧ ∀ r ∈ s, r ∈ usedRegs ic ops

theorem getD_ok {ic ops} {l : List RSet} (h : ∀ s ∈ l, s.Nodup ∧ ∀ r ∈ s, r ∈ usedRegs ic ops)
    (i : Nat) : (l.getD i []).Nodup ∧ ∀ r ∈ l.getD i [], r ∈ usedRegs ic ops := by
  rcases Nat.lt_or_ge i l.length with hi | hi
  · have : l.getD i [] = l[i] := by simp [List.getD, hi]
    rw [this]; exact h _ (List.getElem_mem hi)
  · have : l.getD i [] = [] := by simp [List.getD, List.getElem?_eq_none hi]
    rw [this]; exact ⟨List.nodup_nil, by simp⟩

theorem mem_set_ok {l : List RSet} {i : Nat} {x s : RSet} (h : s ∈ l.set i x) : s ∈ l ∨ s = x := by
  rcases List.mem_or_eq_of_mem_set h with h | h
  · exact Or.inl h
  · exact Or.inr h

theorem stepAt_inv {ic ops st i op} (inv : LInv ic ops st) (hi : i < ops.length) (hop : op ∈ ops) :
    LInv ic ops (stepAt ic st i op).1 ∧
    tot st.liveIn + tot st.liveOut ≤ tot (stepAt ic st i op).1.liveIn + tot (stepAt ic st i op).1.liveOut ∧
    ((stepAt ic st i op).2 = true →
      tot st.liveIn + tot st.liveOut < tot (stepAt ic st i op).1.liveIn + tot (stepAt ic st i op).1.liveOut) := by
  -- names for the pieces of `stepAt`
  generalize hsi : (op.succ.flatMap fun s => st.liveIn.getD s []) = succIn
  have hlo := insAll_length (st.liveOut.getD i []) succIn
  generalize hlo' : insAll (st.liveOut.getD i []) succIn = lo at hlo
  generalize hadd : (op.uses.filter (keepReg ic) ++
    lo.1.filter fun l => !decide (l ∈ op.defs.filter (keepReg ic))) = add
  have hli := insAll_length (st.liveIn.getD i []) add
  generalize hli' : insAll (st.liveIn.getD i []) add = li at hli
  have hstep : stepAt ic st i op =
      ({ liveIn := st.liveIn.set i li.1, liveOut := st.liveOut.set i lo.1 }, lo.2 || li.2) := by
    simp only [stepAt, hsi, hlo', hadd, hli']
  rw [hstep]
  have t1 := tot_set st.liveIn i li.1 (by rw [inv.lenIn]; exact hi)
  have t2 := tot_set st.liveOut i lo.1 (by rw [inv.lenOut]; exact hi)
  -- the new sets are fine
  have hsuccIn : ∀ r ∈ succIn, r ∈ usedRegs ic ops := by
    intro r hr
    rw [← hsi] at hr
    obtain ⟨s, _, hrs⟩ := List.mem_flatMap.1 hr
    exact (getD_ok inv.okIn s).2 r hrs
  have hloOk : lo.1.Nodup ∧ ∀ r ∈ lo.1, r ∈ usedRegs ic ops := by
    rw [← hlo']
    refine ⟨nodup_foldl_ins (getD_ok inv.okOut i).1, fun r hr => ?_⟩
    rcases insAll_fst_mem.1 hr with h | h
    · exact (getD_ok inv.okOut i).2 r h
    · exact hsuccIn r h
  have hliOk : li.1.Nodup ∧ ∀ r ∈ li.1, r ∈ usedRegs ic ops := by
    rw [← hli']
    refine ⟨nodup_foldl_ins (getD_ok inv.okIn i).1, fun r hr => ?_⟩
    rcases insAll_fst_mem.1 hr with h | h
    · exact (getD_ok inv.okIn i).2 r h
    · rw [← hadd] at h
      rcases List.mem_append.1 h with h | h
      · obtain ⟨hu, hk⟩ := List.mem_filter.1 h
        exact List.mem_filter.2 ⟨List.mem_flatMap.2 ⟨op, hop, hu⟩, hk⟩
      · exact hloOk.2 r (List.mem_filter.1 h).1
  refine ⟨⟨by simp [inv.lenIn], by simp [inv.lenOut], fun s hs => ?_, fun s hs => ?_⟩, ?_, ?_⟩
  · rcases mem_set_ok hs with h | h
    · exact inv.okIn s h
    · rw [h]; exact hliOk
  · rcases mem_set_ok hs with h | h
    · exact inv.okOut s h
    · rw [h]; exact hloOk
  · simp only
    omega
  · intro hflag
    simp only [Bool.or_eq_true] at hflag
    simp only
    rcases hflag with h | h
    · have := hlo.2 h; omega
    · have := hli.2 h; omega

theorem foldl_passStep_inv {ic ops} (xs : List (AOp × Nat))
    (hxs : ∀ x ∈ xs, x.2 < ops.length ∧ x.1 ∈ ops) (st : LState) (m : Bool) (inv : LInv ic ops st) :
    LInv ic ops (xs.foldl (passStep ic) (st, m)).1 ∧
    tot st.liveIn + tot st.liveOut ≤
      tot (xs.foldl (passStep ic) (st, m)).1.liveIn + tot (xs.foldl (passStep ic) (st, m)).1.liveOut ∧
    ((xs.foldl (passStep ic) (st, m)).2 = true → m = false →
      tot st.liveIn + tot st.liveOut <
        tot (xs.foldl (passStep ic) (st, m)).1.liveIn + tot (xs.foldl (passStep ic) (st, m)).1.liveOut) := by
  induction xs generalizing st m with
  | nil => exact ⟨inv, Nat.le_refl _, fun h hm => by simp only [List.foldl_nil] at h; rw [hm] at h; cases h⟩
  | cons x xs ih =>
    obtain ⟨hx2, hx1⟩ := hxs x (List.mem_cons_self ..)
    obtain ⟨inv1, hle1, hlt1⟩ := stepAt_inv (st := st) inv hx2 hx1
    obtain ⟨inv2, hle2, hlt2⟩ :=
      ih (fun y hy => hxs y (List.mem_cons_of_mem _ hy)) (stepAt ic st x.2 x.1).1
        (m || (stepAt ic st x.2 x.1).2) inv1
    simp only [List.foldl_cons, passStep]
    refine ⟨inv2, Nat.le_trans hle1 hle2, fun hfl hm => ?_⟩
    by_cases hc : (stepAt ic st x.2 x.1).2 = true
    · have := hlt1 hc
      omega
    · have := hlt2 hfl (by simp [hm, hc])
      omega

theorem pass_inv {ic ops st} (inv : LInv ic ops st) :
    LInv ic ops (pass ic ops st).1 ∧
    tot st.liveIn + tot st.liveOut ≤ tot (pass ic ops st).1.liveIn + tot (pass ic ops st).1.liveOut ∧
    ((pass ic ops st).2 = true →
      tot st.liveIn + tot st.liveOut < tot (pass ic ops st).1.liveIn + tot (pass ic ops st).1.liveOut) := by
  have hxs : ∀ x ∈ (indexed ops 0).reverse, x.2 < ops.length ∧ x.1 ∈ ops := by
    rintro ⟨op, i⟩ hx
    have := (mem_indexed.1 (List.mem_reverse.1 hx)).2
    simp only [Nat.sub_zero] at this
    refine ⟨?_, List.mem_of_getElem? this⟩
    rcases Nat.lt_or_ge i ops.length with h | h
    · exact h
    · rw [List.getElem?_eq_none h] at this; cases this
  obtain ⟨a, b, c⟩ := foldl_passStep_inv (ic := ic) _ hxs st false inv
  exact ⟨a, b, fun h => c h rfl⟩

theorem tot_le {l : List RSet} {B : Nat} (h : ∀ s ∈ l, s.length ≤ B) : tot l ≤ l.length * B := by
  induction l with
  | nil => simp [tot]
  | cons a l ih =>
    have h1 := h a (List.mem_cons_self ..)
    have h2 := ih fun s hs => h s (List.mem_cons_of_mem _ hs)
    simp only [tot, List.map_cons, List.sum_cons, List.length_cons] at h2 ⊢
    rw [Nat.add_mul]
    omega

theorem linv_bound {ic ops st} (inv : LInv ic ops st) :
    tot st.liveIn + tot st.liveOut ≤ 2 * ops.length * (usedRegs ic ops).length := by
  have hB : ∀ s : RSet, (s.Nodup ∧ ∀ r ∈ s, r ∈ usedRegs ic ops) → s.length ≤ (usedRegs ic ops).length :=
    fun s hs => (List.subperm_of_subset hs.1 hs.2).length_le
  have h1 := tot_le (B := (usedRegs ic ops).length) fun s hs => hB s (inv.okIn s hs)
  have h2 := tot_le (B := (usedRegs ic ops).length) fun s hs => hB s (inv.okOut s hs)
  rw [inv.lenIn] at h1
  rw [inv.lenOut] at h2
  have : 2 * ops.length * (usedRegs ic ops).length =
      ops.length * (usedRegs ic ops).length + ops.length * (usedRegs ic ops).length := by
    rw [Nat.mul_assoc, Nat.two_mul]
  omega

theorem liveLoop_ne_none {ic ops} (fuel : Nat) (st : LState) (inv : LInv ic ops st)
    (h : 2 * ops.length * (usedRegs ic ops).length < tot st.liveIn + tot st.liveOut + fuel) :
    liveLoop ic ops fuel st ≠ none := by
  induction fuel generalizing st with
  | zero => have := linv_bound inv; omega
  | succ f ih =>
    obtain ⟨inv', hle, hlt⟩ := pass_inv (ic := ic) inv
    simp only [liveLoop]
    split
    · rename_i hm
      exact ih _ inv' (by have := hlt hm; omega)
    · simp

theorem liveLoop_inv {ic ops} (fuel : Nat) (st r : LState) (inv : LInv ic ops st)
    (h : liveLoop ic ops fuel st = some r) : LInv ic ops r := by
  induction fuel generalizing st with
  | zero => simp [liveLoop] at h
  | succ f ih =>
    obtain ⟨inv', _, _⟩ := pass_inv (ic := ic) inv
    simp only [liveLoop] at h
    split at h
    · exact ih _ inv' h
    · simp only [Option.some.injEq] at h
      rw [← h]; exact inv'

theorem linv_init (ic : Bool) (ops : List AOp) : LInv ic ops
    { liveIn := List.replicate ops.length [], liveOut := List.replicate ops.length [] } := by
  refine ⟨by simp, by simp, fun s hs => ?_, fun s hs => ?_⟩ <;>
  · rw [(List.mem_replicate.1 hs).2]; exact ⟨List.nodup_nil, by simp⟩

theorem foldl_uses_length (ops : List AOp) (k : Nat) :
    ops.foldl (fun n op => n + op.uses.length) k = k + (ops.flatMap (·.uses)).length := by
  induction ops generalizing k with
  | nil => simp
  | cons a ops ih => simp only [List.foldl_cons, ih, List.flatMap_cons, List.length_append]; omega

/-- The liveness loop of the model always reaches its fixpoint within `liveFuel`. -/
theorem livenessFull_ne_none (ic : Bool) (ops : List AOp) : livenessFull ic ops ≠ none := by
  unfold livenessFull
  apply liveLoop_ne_none
  · exact linv_init ic ops
  · have hU : (usedRegs ic ops).length ≤ (ops.flatMap (·.uses)).length := List.length_filter_le _ _
    have hf : liveFuel ops = 2 * ops.length * (ops.flatMap (·.uses)).length + 2 := by
      unfold liveFuel; rw [foldl_uses_length]; simp
    rw [hf]
    have := Nat.mul_le_mul_left (2 * ops.length) hU
    omega

end SwayVerif.Asm
