import SwayVerif.Model.Fetch
/-!
Helper lemmas for C30 (`Props/C30.lean`): frame lemmas (which steps can change `final`), the closed form
of the checkout loop for any number of files, and the link between the indexed failure states
(`failStates`) and the recursive enumeration (`failStatesFrom`).
-/
namespace SwayVerif.Fetch

/-- Steps that write to, create or remove the final checkout directory. -/
def touchesFinal : Op → Bool
  | .rmFinal => true
  | .mkdir .final => true
  | .writeFile .final _ => true
  | .writeMarker .final => true
  | .publish => true
  | _ => false

theorem run_nil (n : Nat) (s : St) : run n [] s = s := rfl

theorem run_cons (n : Nat) (op : Op) (ops : List Op) (s : St) :
    run n (op :: ops) s = run n ops (exec n op s) := rfl

theorem run_append (n : Nat) (a b : List Op) (s : St) :
    run n (a ++ b) s = run n b (run n a s) := by
  simp [run, List.foldl_append]

theorem onError_final (s : St) : (onError s).final = s.final := by
  unfold onError dropTmp
  split <;> rfl

theorem settle_final (k : Kind) (s : St) : (settle k s).final = s.final := by
  cases k
  · rfl
  · exact onError_final s

/-- A step that does not touch `final` leaves it alone — also when it only half happens. -/
theorem partials_final (n : Nat) (op : Op) (s : St) (h : touchesFinal op = false) :
    ∀ t ∈ partials n op s, t.final = s.final := by
  intro t ht
  cases op with
  | writeFile tg i =>
    cases tg with
    | final => simp [touchesFinal] at h
    | stage =>
      simp only [partials, exec, St.setTree, St.tree, List.mem_cons, List.mem_nil_iff, or_false] at ht
      rcases ht with rfl | rfl | rfl <;> rfl
  | writeMarker tg =>
    cases tg with
    | final => simp [touchesFinal] at h
    | stage =>
      simp only [partials, exec, St.setTree, St.tree, List.mem_cons, List.mem_nil_iff, or_false] at ht
      rcases ht with rfl | rfl | rfl <;> rfl
  | rmFinal => simp [touchesFinal] at h
  | publish => simp [touchesFinal] at h
  | mkdir tg =>
    cases tg with
    | final => simp [touchesFinal] at h
    | stage =>
      simp only [partials, exec, List.mem_cons, List.mem_nil_iff, or_false] at ht
      rcases ht with rfl | rfl
      · rfl
      · split <;> rfl
  | tmpClear =>
    simp only [partials, exec, dropTmp] at ht
    split at ht
    · simp only [List.mem_cons, List.mem_nil_iff, or_false] at ht
      rcases ht with rfl | rfl | rfl <;> rfl
    · simp only [List.mem_cons, List.mem_nil_iff, or_false] at ht
      rw [ht]
  | scopeEnd =>
    simp only [partials, exec, dropTmp, List.mem_cons, List.mem_nil_iff, or_false] at ht
    rcases ht with rfl | rfl | rfl <;> rfl
  | point pt k =>
    simp only [partials, exec, List.mem_cons, List.mem_nil_iff, or_false] at ht
    rcases ht with rfl | rfl <;> rfl
  | lockFile =>
    simp only [partials, exec, List.mem_cons, List.mem_nil_iff, or_false] at ht
    rcases ht with rfl | rfl <;> rfl
  | guardOn =>
    simp only [partials, exec, List.mem_cons, List.mem_nil_iff, or_false] at ht
    rcases ht with rfl | rfl <;> rfl
  | tmpInit =>
    simp only [partials, exec, List.mem_cons, List.mem_nil_iff, or_false] at ht
    rcases ht with rfl | rfl <;> rfl
  | tmpFetch =>
    simp only [partials, exec, List.mem_cons, List.mem_nil_iff, or_false] at ht
    rcases ht with rfl | rfl <;> rfl
  | setHead =>
    simp only [partials, exec, List.mem_cons, List.mem_nil_iff, or_false] at ht
    rcases ht with rfl | rfl <;> rfl
  | mkParent =>
    simp only [partials, exec, List.mem_cons, List.mem_nil_iff, or_false] at ht
    rcases ht with rfl | rfl <;> rfl
  | checkoutEnd =>
    simp only [partials, exec, List.mem_cons, List.mem_nil_iff, or_false] at ht
    rcases ht with rfl | rfl <;> rfl

/-- the full effect is one of the listed outcomes -/
theorem exec_mem_partials (n : Nat) (op : Op) (s : St) : exec n op s ∈ partials n op s := by
  cases op with
  | rmFinal =>
    simp only [partials, exec]
    split <;> simp
  | tmpClear =>
    simp only [partials, exec]
    split <;> simp
  | _ => simp [partials]

theorem self_mem_partials (n : Nat) (op : Op) (s : St) : s ∈ partials n op s := by
  cases op with
  | rmFinal =>
    simp only [partials]
    split <;> simp
  | tmpClear =>
    simp only [partials]
    split <;> simp
  | _ => simp [partials]

theorem exec_final (n : Nat) (op : Op) (s : St) (h : touchesFinal op = false) :
    (exec n op s).final = s.final :=
  partials_final n op s h _ (exec_mem_partials n op s)

/-- `if path.exists() { remove_dir_all(path) }` on a directory that does not exist. -/
theorem partials_rmFinal_gone (n : Nat) (s : St) (h : s.final.present = false) :
    partials n .rmFinal s = [s] := by
  simp [partials, h]

/-- A step is harmless for an absent `final` if it does not touch it, or is the conditional removal. -/
def keepsAbsent (op : Op) : Bool := !touchesFinal op || decide (op = .rmFinal)

theorem partials_keepsAbsent (n : Nat) (op : Op) (s : St) (h : keepsAbsent op = true)
    (hs : s.final = Tree.gone) : ∀ t ∈ partials n op s, t.final = Tree.gone := by
  intro t ht
  by_cases hr : op = .rmFinal
  · subst hr
    rw [partials_rmFinal_gone n s (by rw [hs]; rfl)] at ht
    simp only [List.mem_cons, List.mem_nil_iff, or_false] at ht
    rw [ht, hs]
  · have h' : touchesFinal op = false := by
      simp only [keepsAbsent, Bool.or_eq_true, Bool.not_eq_true', decide_eq_true_eq] at h
      rcases h with h | h
      · exact h
      · exact absurd h hr
    rw [partials_final n op s h' t ht, hs]

/-! ### Failure states along a program -/

theorem mem_failStatesFrom_append (n : Nat) (a b : List Op) (s : St) (t : St) :
    t ∈ failStatesFrom n (a ++ b) s ↔ t ∈ failStatesFrom n a s ∨ t ∈ failStatesFrom n b (run n a s) := by
  induction a generalizing s with
  | nil => simp [failStatesFrom, run_nil]
  | cons op rest ih =>
    simp only [List.cons_append, failStatesFrom, List.mem_append, run_cons, ih]
    constructor
    · rintro (h | h | h)
      · exact .inl (.inl h)
      · exact .inl (.inr h)
      · exact .inr h
    · rintro ((h | h) | h)
      · exact .inl h
      · exact .inr (.inl h)
      · exact .inr (.inr h)

/-- Every indexed failure state (before settling) is enumerated by `failStatesFrom`. -/
theorem partials_mem_failStatesFrom (n : Nat) (prog : List Op) (s0 : St) (p : Nat) (op : Op)
    (hop : prog[p]? = some op) : ∀ t ∈ partials n op (run n (prog.take p) s0), t ∈ failStatesFrom n prog s0 := by
  induction prog generalizing s0 p with
  | nil => simp at hop
  | cons o rest ih =>
    intro t ht
    cases p with
    | zero =>
      simp only [List.getElem?_cons_zero, Option.some.injEq] at hop
      subst hop
      simp only [List.take_zero, run_nil] at ht
      simp only [failStatesFrom, List.mem_append]
      exact .inl ht
    | succ q =>
      simp only [List.getElem?_cons_succ] at hop
      simp only [List.take_succ_cons, run_cons] at ht
      simp only [failStatesFrom, List.mem_append]
      exact .inr (ih (exec n o s0) q hop t ht)

theorem mem_failStates (n : Nat) (prog : List Op) (s0 : St) (p : Nat) (k : Kind) (t : St)
    (h : t ∈ failStates n prog s0 p k) : ∃ u ∈ failStatesFrom n prog s0, t = settle k u := by
  unfold failStates at h
  cases hop : prog[p]? with
  | none => simp [hop] at h
  | some op =>
    simp only [hop, List.mem_map] at h
    obtain ⟨u, hu, rfl⟩ := h
    exact ⟨u, partials_mem_failStatesFrom n prog s0 p op hop u hu, rfl⟩

/-- A segment of steps harmless for an absent `final`: it stays absent in every failure state and at
the end. -/
theorem segment_keepsAbsent (n : Nat) (ops : List Op) (s : St) (hops : ∀ op ∈ ops, keepsAbsent op = true)
    (hs : s.final = Tree.gone) :
    (∀ t ∈ failStatesFrom n ops s, t.final = Tree.gone) ∧ (run n ops s).final = Tree.gone := by
  induction ops generalizing s with
  | nil => exact ⟨by simp [failStatesFrom], by simpa [run_nil] using hs⟩
  | cons op rest ih =>
    have hop := hops op (by simp)
    have hex : (exec n op s).final = Tree.gone :=
      partials_keepsAbsent n op s hop hs _ (exec_mem_partials n op s)
    obtain ⟨h1, h2⟩ := ih (exec n op s) (fun o ho => hops o (by simp [ho])) hex
    refine ⟨?_, by rw [run_cons]; exact h2⟩
    intro t ht
    simp only [failStatesFrom, List.mem_append] at ht
    rcases ht with ht | ht
    · exact partials_keepsAbsent n op s hop hs t ht
    · exact h1 t ht

/-- A segment of steps that do not touch `final` at all. -/
theorem segment_frame (n : Nat) (ops : List Op) (s : St) (hops : ∀ op ∈ ops, touchesFinal op = false) :
    (∀ t ∈ failStatesFrom n ops s, t.final = s.final) ∧ (run n ops s).final = s.final := by
  induction ops generalizing s with
  | nil => exact ⟨by simp [failStatesFrom], by simp [run_nil]⟩
  | cons op rest ih =>
    have hop := hops op (by simp)
    have hex := exec_final n op s hop
    obtain ⟨h1, h2⟩ := ih (exec n op s) (fun o ho => hops o (by simp [ho]))
    refine ⟨?_, by rw [run_cons, h2, hex]⟩
    intro t ht
    simp only [failStatesFrom, List.mem_append] at ht
    rcases ht with ht | ht
    · exact partials_final n op s hop t ht
    · rw [h1 t ht, hex]

/-! ### The checkout loop, any number of files -/

theorem set_replicate_boundary (k j : Nat) (c a : FileSt) :
    (List.replicate k c ++ List.replicate (j + 1) a).set k c =
      List.replicate (k + 1) c ++ List.replicate j a := by
  induction k with
  | zero => simp [List.replicate_succ]
  | succ k ih =>
    rw [List.replicate_succ, List.cons_append, List.set_cons_succ, ih]
    simp [List.replicate_succ]

theorem checkoutLoop_succ (t : Target) (k : Nat) :
    checkoutLoop t (k + 1) = checkoutLoop t k ++ [.point .checkoutProgress k, .writeFile t k] := by
  simp [checkoutLoop, List.range_succ, List.flatMap_append]

/-- After `k ≤ n` blobs the staging tree holds exactly the first `k` files. -/
theorem run_checkoutLoop_stage (n k j : Nat) (hk : k + j = n) (s : St)
    (hs : s.stage = Tree.fresh n) :
    run n (checkoutLoop .stage k) s =
      { s with stage := ⟨true, List.replicate k .complete ++ List.replicate j .absent, .absent⟩ } := by
  induction k generalizing j with
  | zero =>
    have : j = n := by omega
    subst this
    simp only [checkoutLoop, List.range_zero, List.flatMap_nil, run_nil, List.replicate_zero, List.nil_append]
    cases s
    simp only [Tree.fresh] at hs
    simp [hs]
  | succ k ih =>
    rw [checkoutLoop_succ, run_append, ih (j + 1) (by omega)]
    simp only [run_cons, run_nil, exec, St.setTree, St.tree, Tree.setFile, if_true]
    rw [set_replicate_boundary]

theorem mem_checkoutLoop (t : Target) (k : Nat) (op : Op) (h : op ∈ checkoutLoop t k) :
    (∃ i, op = .point .checkoutProgress i) ∨ (∃ i, op = .writeFile t i) := by
  simp only [checkoutLoop, List.mem_flatMap, List.mem_range, List.mem_cons, List.mem_nil_iff, or_false] at h
  obtain ⟨i, _, rfl | rfl⟩ := h
  · exact .inl ⟨i, rfl⟩
  · exact .inr ⟨i, rfl⟩

/-! ### Shape of the code (compared with the token lists of `gen/fetch_steps.py`) -/

def Pt.index : Pt → Nat
  | .tmpRepoBegin => 0 | .tmpRepoCleared => 1 | .tmpRepoInited => 2 | .tmpRepoFetched => 3
  | .tmpRepoUsed => 4 | .lockFileCreated => 5 | .fetchNeeded => 6 | .headSet => 7
  | .stagingDirCreated => 8 | .checkoutProgress => 9 | .checkoutDone => 10 | .indexFileWritten => 11
  | .checkoutDirRemoved => 12 | .checkoutParentCreated => 13 | .checkoutPublished => 14
  | .fetchDone => 15 | .checkoutDirCreated => 16

/-- The tokens `gen/fetch_steps.py` emits for the source text of a step. -/
def Op.shape : Op → List Nat
  | .point .checkoutProgress _ => [24]      -- `verif::checkout_points(&mut checkout)`
  | .point pt _ => [100 + pt.index]         -- `verif_fault!("<name>")`
  | .lockFile => [17]                       -- `path_lock(repo_path)`
  | .tmpClear => [27, 1]                    -- `repo_dir.exists()`, `remove_dir_all(&repo_dir)`
  | .guardOn => [2, 23]                     -- `scopeguard::guard(`, `remove_dir_all(dir)`
  | .tmpInit => [3]                         -- `Repository::init(&repo_dir)`
  | .tmpFetch => [4]                        -- `.fetch(&refspecs`
  | .setHead => [6]                         -- `set_head_detached(`
  | .rmFinal => [26, 7]                     -- `path.exists()`, `remove_dir_all(&path)`
  | .mkdir .stage => [25, 8]                -- `staging_path = tmp_git_repo_dir(..).join(..)`, `create_dir_all(&staging_path)`
  | .mkdir .final => [9]                    -- `create_dir_all(&path)`
  | .mkParent => [10]                       -- `create_dir_all(parent)`
  | .writeFile _ _ => []                    -- inside libgit2
  | .checkoutEnd => [11]                    -- `checkout_head(`
  | .writeMarker .stage => [14]             -- `fs::write(staging_path.join(".forc_index")`
  | .writeMarker .final => [15]             -- `fs::write(path.join(".forc_index")`
  | .publish => [16]                        -- `fs::rename(&staging_path, &path)`
  | .scopeEnd => []                         -- implicit drop of the guard

def shapeOf (ops : List Op) : List Nat := ops.flatMap Op.shape

/-- `with_tmp_git_repo`: prologue, `f(repo)` (5), epilogue. -/
def shapeWithTmpRepo : List Nat := shapeOf (tmpRepoPrologue 0) ++ [5] ++ shapeOf (tmpRepoEpilogue 0)

/-- `fetch`: `with_tmp_git_repo(` (22) and the closure; `target_dir(&staging_path)` is 12. -/
def shapeFetchFn : List Nat :=
  [22] ++ shapeOf fixedClosurePre ++ [12] ++ shapeOf (checkoutFiles .stage 0) ++ shapeOf fixedClosureMid ++
  shapeOf [.publish] ++ shapeOf fixedClosurePost

/-- `<Pinned as Fetch>::fetch`: lock, the decision `!repo_path.exists()` (19) = `needsFetch`, the call of
`fetch` (20), `find_within(repo_path` (21). -/
def shapePinnedFetch : List Nat :=
  shapeOf (fetchEntry.take 2) ++ [19] ++ shapeOf (fetchEntry.drop 2) ++ [20] ++ shapeOf [.point .fetchDone 0] ++ [21]

/-- `pin`: only `with_tmp_git_repo(`; its closure is read-only. -/
def shapePinFn : List Nat := [22]

end SwayVerif.Fetch
