import SwayVerif.Model.AsmOpt
/-!
List lemmas for C07: label resolution, deletion of ops by a mask (`filterMask`, `newPos`), the
indexed zips the checkers iterate over.
-/
namespace SwayVerif.AsmOpt
open SwayVerif.Asm

/-! ### `labelIndex` = position of the last label op with that name -/

def lastLabel (l : Nat) : List AOp → Option Nat
  | [] => none
  | op :: ops =>
    match lastLabel l ops with
    | some j => some (j + 1)
    | none => if op.kind = .label l then some 0 else none

theorem labelIndexFrom_eq (l : Nat) (ops : List AOp) (i : Nat) (acc : Option Nat) :
    labelIndexFrom l ops i acc = match lastLabel l ops with
      | some j => some (i + j)
      | none => acc := by
  induction ops generalizing i acc with
  | nil => simp [labelIndexFrom, lastLabel]
  | cons op ops ih =>
    simp only [labelIndexFrom, lastLabel]
    rw [ih]
    cases h : lastLabel l ops with
    | some j => simp; omega
    | none =>
      by_cases hk : op.kind = .label l <;> simp [hk]

theorem labelIndex_eq (P : List AOp) (l : Nat) : labelIndex P l = lastLabel l P := by
  unfold labelIndex
  rw [labelIndexFrom_eq]
  cases lastLabel l P <;> simp

theorem lastLabel_some {l : Nat} {P : List AOp} {t : Nat} (h : lastLabel l P = some t) :
    ∃ op, P[t]? = some op ∧ op.kind = .label l := by
  induction P generalizing t with
  | nil => simp [lastLabel] at h
  | cons op ops ih =>
    simp only [lastLabel] at h
    cases h' : lastLabel l ops with
    | some j =>
      rw [h'] at h
      simp only [Option.some.injEq] at h
      subst h
      obtain ⟨o, ho, hk⟩ := ih h'
      exact ⟨o, by simpa using ho, hk⟩
    | none =>
      rw [h'] at h
      by_cases hk : op.kind = .label l
      · simp only [hk, if_true, Option.some.injEq] at h
        subst h
        exact ⟨op, by simp, hk⟩
      · simp [hk] at h

theorem labelIndex_some {l : Nat} {P : List AOp} {t : Nat} (h : labelIndex P l = some t) :
    ∃ op, P[t]? = some op ∧ op.kind = .label l := by
  rw [labelIndex_eq] at h; exact lastLabel_some h

/-! ### `filterMask`, `newPos` -/

theorem lastLabel_filter_none {l : Nat} {P : List AOp} (ks : List Bool) (h : lastLabel l P = none) :
    lastLabel l (filterMask P ks) = none := by
  induction P generalizing ks with
  | nil => cases ks <;> simp [filterMask, lastLabel]
  | cons op ops ih =>
    simp only [lastLabel] at h
    cases h' : lastLabel l ops with
    | some j => rw [h'] at h; cases h
    | none =>
      rw [h'] at h
      have hk : ¬ op.kind = .label l := by
        intro hk; simp [hk] at h
      cases ks with
      | nil => simp [filterMask, lastLabel]
      | cons k ks =>
        cases k
        · simpa [filterMask] using ih ks h'
        · simp [filterMask, lastLabel, ih ks h', hk]

theorem lastLabel_filter_some {l : Nat} {P : List AOp} {ks : List Bool} {t : Nat}
    (hlen : ks.length = P.length) (h : lastLabel l P = some t) (hk : ks[t]? = some true) :
    lastLabel l (filterMask P ks) = some (newPos ks t) := by
  induction P generalizing ks t with
  | nil => simp [lastLabel] at h
  | cons op ops ih =>
    cases ks with
    | nil => simp at hlen
    | cons k ks =>
      simp only [List.length_cons, Nat.add_right_cancel_iff] at hlen
      simp only [lastLabel] at h
      cases h' : lastLabel l ops with
      | some j =>
        rw [h'] at h
        simp only [Option.some.injEq] at h
        subst h
        have hkj : ks[j]? = some true := by simpa using hk
        have := ih hlen h' hkj
        cases k
        · simp [filterMask, newPos, this]
        · simp [filterMask, newPos, lastLabel, this]; omega
      | none =>
        rw [h'] at h
        by_cases hkl : op.kind = .label l
        · simp only [hkl, if_true, Option.some.injEq] at h
          subst h
          simp only [List.getElem?_cons_zero, Option.some.injEq] at hk
          subst hk
          simp [filterMask, newPos, lastLabel, lastLabel_filter_none ks h', hkl]
        · simp [hkl] at h

theorem labelIndex_filter_some {l : Nat} {P : List AOp} {ks : List Bool} {t : Nat}
    (hlen : ks.length = P.length) (h : labelIndex P l = some t) (hk : ks[t]? = some true) :
    labelIndex (filterMask P ks) l = some (newPos ks t) := by
  rw [labelIndex_eq] at h ⊢; exact lastLabel_filter_some hlen h hk

theorem labelIndex_filter_none {l : Nat} {P : List AOp} (ks : List Bool) (h : labelIndex P l = none) :
    labelIndex (filterMask P ks) l = none := by
  rw [labelIndex_eq] at h ⊢; exact lastLabel_filter_none ks h

theorem newPos_succ {ks : List Bool} {i : Nat} {k : Bool} (h : ks[i]? = some k) :
    newPos ks (i + 1) = newPos ks i + (if k then 1 else 0) := by
  induction ks generalizing i with
  | nil => simp at h
  | cons a ks ih =>
    cases i with
    | zero =>
      simp only [List.getElem?_cons_zero, Option.some.injEq] at h
      subst h
      simp [newPos]
    | succ i =>
      have h' : ks[i]? = some k := by simpa using h
      have := ih h'
      simp only [newPos] at this ⊢
      omega

theorem filterMask_get {P : List AOp} {ks : List Bool} {i : Nat} {op : AOp}
    (hlen : ks.length = P.length) (hp : P[i]? = some op) (hk : ks[i]? = some true) :
    (filterMask P ks)[newPos ks i]? = some op := by
  induction P generalizing ks i with
  | nil => simp at hp
  | cons a ops ih =>
    cases ks with
    | nil => simp at hlen
    | cons k ks =>
      simp only [List.length_cons, Nat.add_right_cancel_iff] at hlen
      cases i with
      | zero =>
        simp only [List.getElem?_cons_zero, Option.some.injEq] at hp hk
        subst hp; subst hk
        simp [filterMask, newPos]
      | succ i =>
        have hp' : ops[i]? = some op := by simpa using hp
        have hk' : ks[i]? = some true := by simpa using hk
        have := ih hlen hp' hk'
        cases k
        · simpa [filterMask, newPos] using this
        · simp only [filterMask, newPos, if_true]
          rw [Nat.add_comm]
          simpa using this

theorem filterMask_get_none {P : List AOp} {ks : List Bool} {i : Nat}
    (hlen : ks.length = P.length) (hp : P[i]? = none) :
    (filterMask P ks)[newPos ks i]? = none := by
  induction P generalizing ks i with
  | nil => cases ks <;> simp [filterMask]
  | cons a ops ih =>
    cases ks with
    | nil => simp at hlen
    | cons k ks =>
      simp only [List.length_cons, Nat.add_right_cancel_iff] at hlen
      cases i with
      | zero => simp at hp
      | succ i =>
        have hp' : ops[i]? = none := by simpa using hp
        have := ih hlen hp'
        cases k
        · simpa [filterMask, newPos] using this
        · simp only [filterMask, newPos, if_true]
          rw [Nat.add_comm]
          simpa using this

theorem filterMask_all_true (P : List AOp) : filterMask P (P.map fun _ => true) = P := by
  induction P with
  | nil => rfl
  | cons a ops ih => simp [filterMask, ih]

theorem filterMask_length_le (P : List AOp) (ks : List Bool) : (filterMask P ks).length ≤ P.length := by
  induction P generalizing ks with
  | nil => cases ks <;> simp [filterMask]
  | cons a ops ih =>
    cases ks with
    | nil => simp [filterMask]
    | cons k ks =>
      have := ih ks
      cases k <;> simp [filterMask] <;> omega

/-! ### the indexed zips of the checkers -/

theorem mem_zip3_go {P : List AOp} {ks : List Bool} {i j : Nat} {op : AOp} {k : Bool}
    (hp : P[i]? = some op) (hk : ks[i]? = some k) : ((op, k), j + i) ∈ zip3.go P ks j := by
  induction P generalizing ks i j with
  | nil => simp at hp
  | cons a ops ih =>
    cases ks with
    | nil => simp at hk
    | cons b ks =>
      cases i with
      | zero =>
        simp only [List.getElem?_cons_zero, Option.some.injEq] at hp hk
        subst hp; subst hk
        simp [zip3.go]
      | succ i =>
        have hp' : ops[i]? = some op := by simpa using hp
        have hk' : ks[i]? = some k := by simpa using hk
        have := ih (j := j + 1) hp' hk'
        simp only [zip3.go, List.mem_cons]
        right
        have e : j + (i + 1) = j + 1 + i := by omega
        rw [e]; exact this

theorem mem_zip3 {P : List AOp} {ks : List Bool} {i : Nat} {op : AOp} {k : Bool}
    (hp : P[i]? = some op) (hk : ks[i]? = some k) : ((op, k), i) ∈ zip3 P ks := by
  have := mem_zip3_go (j := 0) hp hk
  simpa [zip3] using this

theorem mem_zipQ_go {P Q : List AOp} {i j : Nat} {op q : AOp}
    (hp : P[i]? = some op) (hq : Q[i]? = some q) : ((op, q), j + i) ∈ zipQ.go P Q j := by
  induction P generalizing Q i j with
  | nil => simp at hp
  | cons a ops ih =>
    cases Q with
    | nil => simp at hq
    | cons b qs =>
      cases i with
      | zero =>
        simp only [List.getElem?_cons_zero, Option.some.injEq] at hp hq
        subst hp; subst hq
        simp [zipQ.go]
      | succ i =>
        have hp' : ops[i]? = some op := by simpa using hp
        have hq' : qs[i]? = some q := by simpa using hq
        have := ih (j := j + 1) hp' hq'
        simp only [zipQ.go, List.mem_cons]
        right
        have e : j + (i + 1) = j + 1 + i := by omega
        rw [e]; exact this

theorem mem_zipQ {P Q : List AOp} {i : Nat} {op q : AOp}
    (hp : P[i]? = some op) (hq : Q[i]? = some q) : ((op, q), i) ∈ zipQ P Q := by
  have := mem_zipQ_go (j := 0) hp hq
  simpa [zipQ] using this

theorem memR_iff {r : Reg} {s : RSet} : memR r s = true ↔ r ∈ s := by
  simp [memR]

end SwayVerif.AsmOpt
