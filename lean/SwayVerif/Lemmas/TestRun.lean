import SwayVerif.Model.TestRun
/-!
Helper lemmas for C29 (`Props/C29.lean`): substring characterisation of the filter, and the
per-thread characterisation of an arbitrary schedule.
-/
namespace SwayVerif.TestRun

theorem isPrefix_iff (p s : List Char) : isPrefix p s = true ↔ ∃ b, s = p ++ b := by
  induction p generalizing s with
  | nil => simp [isPrefix]
  | cons a p ih =>
    cases s with
    | nil => simp [isPrefix]
    | cons c s =>
      simp only [isPrefix, Bool.and_eq_true, beq_iff_eq, ih, List.cons_append, List.cons.injEq]
      constructor
      · rintro ⟨rfl, b, rfl⟩; exact ⟨b, rfl, rfl⟩
      · rintro ⟨b, rfl, rfl⟩; exact ⟨rfl, b, rfl⟩

theorem contains_iff (s p : List Char) : contains s p = true ↔ ∃ a b, s = a ++ p ++ b := by
  induction s with
  | nil =>
    simp only [contains, isPrefix_iff]
    constructor
    · rintro ⟨b, h⟩; exact ⟨[], b, by simpa using h⟩
    · rintro ⟨a, b, h⟩
      have h' := congrArg List.length h
      simp only [List.length_nil, List.length_append] at h'
      have ha : a = [] := List.eq_nil_of_length_eq_zero (by omega)
      subst ha
      exact ⟨b, by simpa using h⟩
  | cons c r ih =>
    simp only [contains, Bool.or_eq_true, isPrefix_iff, ih]
    constructor
    · rintro (⟨b, h⟩ | ⟨a, b, h⟩)
      · exact ⟨[], b, by simpa using h⟩
      · exact ⟨c :: a, b, by simp [h]⟩
    · rintro ⟨a, b, h⟩
      cases a with
      | nil => exact Or.inl ⟨b, by simpa using h⟩
      | cons x a =>
        simp only [List.cons_append, List.cons.injEq] at h
        exact Or.inr ⟨a, b, h.2⟩

theorem containsSpec_iff (s p : List Char) : containsSpec s p = true ↔ ∃ a b, s = a ++ p ++ b := by
  simp only [containsSpec, List.any_eq_true, List.mem_range, decide_eq_true_eq]
  constructor
  · rintro ⟨i, _, h⟩
    refine ⟨s.take i, (s.drop i).drop p.length, ?_⟩
    have h1 : s.drop i = p ++ (s.drop i).drop p.length := by
      conv => lhs; rw [← List.take_append_drop p.length (s.drop i), h]
    rw [List.append_assoc, ← h1, List.take_append_drop]
  · rintro ⟨a, b, rfl⟩
    refine ⟨a.length, by simp; omega, ?_⟩
    simp [List.append_assoc]

theorem containsSpec_eq (s p : List Char) : containsSpec s p = contains s p := by
  rw [Bool.eq_iff_iff, containsSpec_iff, contains_iff]

theorem selectedSpec_eq (f : Option Filter) (n : List Char) : selectedSpec f n = selected f n := by
  cases f with
  | none => rfl
  | some f => simp [selectedSpec, selected, Filter.matches, containsSpec_eq]

theorem lookup_of_mem_nodup {β : Type} (l : List (List Char × β)) (h : (l.map (·.1)).Nodup)
    (k : List Char) (v : β) (hm : (k, v) ∈ l) : l.lookup k = some v := by
  induction l with
  | nil => cases hm
  | cons e l ih =>
    obtain ⟨k', v'⟩ := e
    simp only [List.map_cons, List.nodup_cons] at h
    rcases List.mem_cons.mp hm with heq | hin
    · cases heq; simp [List.lookup]
    · have hne : k ≠ k' := by
        rintro rfl
        exact h.1 (List.mem_map.mpr ⟨(k, v), hin, rfl⟩)
      have hb : (k == k') = false := by simpa using hne
      simp only [List.lookup, hb]
      exact ih h.2 hin

/-! ### Schedules -/

theorem Thread.step_of_done (t : Thread) (h : t.res.isSome) : t.step = t := by
  unfold Thread.step
  cases hr : t.res with
  | none => simp [hr] at h
  | some _ => rfl

theorem Thread.steps_of_done (n : Nat) (t : Thread) (h : t.res.isSome) : Thread.steps n t = t := by
  induction n with
  | zero => rfl
  | succ n ih => simp [Thread.steps, Thread.step_of_done t h, ih]

theorem Thread.steps_add (m n : Nat) (t : Thread) :
    Thread.steps (m + n) t = Thread.steps n (Thread.steps m t) := by
  induction m generalizing t with
  | zero => simp [Thread.steps]
  | succ m ih => rw [Nat.succ_add]; simp [Thread.steps, ih]

/-- After `ops.length + 1` of its own steps a thread is finished with exactly `exec`'s outcome. -/
theorem Thread.steps_exec (ops : List Op) (st : Storage) (lg : List Nat) :
    Thread.steps (ops.length + 1) { ops := ops, st := st, logs := lg, res := none }
      = { ops := [], st := (exec ops st lg).2.2, logs := (exec ops st lg).2.1,
          res := some (exec ops st lg).1 } := by
  induction ops generalizing st lg with
  | nil => rfl
  | cons o r ih =>
    have stable : ∀ (t : Thread), t.res.isSome → Thread.steps (r.length + 1) t = t :=
      fun t h => Thread.steps_of_done _ t h
    show Thread.steps (r.length + 1) (Thread.step { ops := o :: r, st := st, logs := lg, res := none }) = _
    cases o with
    | log v => exact ih st (lg ++ [v])
    | read k => exact ih st (lg ++ [st.getD k 0])
    | write k v => exact ih (st.set k v) lg
    | expect k v =>
      by_cases hc : st[k]?.getD 0 = v
      · have e1 : Thread.step { ops := Op.expect k v :: r, st := st, logs := lg, res := none }
            = { ops := r, st := st, logs := lg, res := none } := by simp [Thread.step, hc]
        have e2 : exec (Op.expect k v :: r) st lg = exec r st lg := by simp [exec, hc]
        rw [e1, e2]; exact ih st lg
      · have e1 : Thread.step { ops := Op.expect k v :: r, st := st, logs := lg, res := none }
            = { ops := [], st := st, logs := lg, res := some (.state (.revert assertCode)) } := by
          simp [Thread.step, hc]
        have e2 : exec (Op.expect k v :: r) st lg = (.state (.revert assertCode), lg, st) := by simp [exec, hc]
        rw [e1, e2]; exact stable _ rfl
    | revert c => exact stable { ops := [], st := st, logs := lg, res := some (.state (.revert c)) } rfl
    | vmPanic => exact stable { ops := [], st := st, logs := lg, res := some (.state (.revert 0)) } rfl
    | hostError => exact stable { ops := [], st := st, logs := lg, res := some .error } rfl

theorem stepAt_get (ths : List Thread) (j i : Nat) :
    (stepAt ths j)[i]? = if j = i then ths[i]?.map Thread.step else ths[i]? := by
  unfold stepAt
  cases hj : ths[j]? with
  | none =>
    by_cases h : j = i
    · subst h; simp [hj]
    · simp [h]
  | some t =>
    by_cases h : j = i
    · subst h
      have hlt : j < ths.length := by
        rcases List.getElem?_eq_some_iff.mp hj with ⟨hlt, _⟩; exact hlt
      simp [hj, List.getElem?_set_self hlt]
    · simp [h, List.getElem?_set_ne h]

/-- Whatever the interleaving, thread `i` ends where its OWN steps take it. -/
theorem runSched_get (ths : List Thread) (sched : List Nat) (i : Nat) :
    (runSched ths sched)[i]? = ths[i]?.map (Thread.steps (sched.count i)) := by
  induction sched generalizing ths with
  | nil =>
    cases h : ths[i]? <;> simp [runSched, Thread.steps, h]
  | cons j s ih =>
    have : runSched ths (j :: s) = runSched (stepAt ths j) s := rfl
    rw [this, ih, stepAt_get, List.count_cons]
    by_cases h : j = i
    · subst h
      cases ht : ths[j]? with
      | none => simp
      | some t => simp [Thread.steps]
    · have hb : (j == i) = false := by simpa using h
      simp [h, hb]

end SwayVerif.TestRun
