import SwayVerif.Model.Dispatch
/-!
Helper lemmas for C11 (core Lean only).

* `find`/`slice`: a found offset addresses the pattern; appending keeps earlier slices.
* `insertArm`: the arms after an insertion are the old arms plus the new one (under its key).
* `Inv`: the loop invariant of `generate_contract_entry`'s `for` loop.
* `runGroups_hit` / `runGroups_miss`: the generated `if` cascade over a table satisfying the invariant.
-/
namespace SwayVerif.Dispatch

/-! ### isPrefix / find / slice -/

theorem isPrefix_iff (p s : Bytes) : isPrefix p s = true ↔ s.take p.length = p ∧ p.length ≤ s.length := by
  induction p generalizing s with
  | nil => simp [isPrefix]
  | cons a p ih =>
    cases s with
    | nil => simp [isPrefix]
    | cons c s =>
      simp only [isPrefix, Bool.and_eq_true, beq_iff_eq, ih, List.length_cons, List.take_succ_cons,
        List.cons.injEq, Nat.add_le_add_iff_right]
      constructor
      · rintro ⟨rfl, h1, h2⟩; exact ⟨⟨rfl, h1⟩, h2⟩
      · rintro ⟨⟨rfl, h1⟩, h2⟩; exact ⟨rfl, h1, h2⟩

theorem slice_eq_some {names : Bytes} {off len : Nat} {x : Bytes} :
    slice names off len = some x ↔ off + len ≤ names.length ∧ (names.drop off).take len = x := by
  unfold slice
  split
  · simp_all
  · simp only [reduceCtorEq, false_iff, not_and]
    intro h; omega

/-- A found offset addresses the pattern, inside the string. -/
theorem find_some {s p : Bytes} {o : Nat} (h : find s p = some o) : slice s o p.length = some p := by
  induction s generalizing o with
  | nil =>
    unfold find at h
    split at h
    · rename_i hp
      have := (isPrefix_iff p []).1 hp
      cases h
      have hl : p = [] := by
        cases p with
        | nil => rfl
        | cons a p => simp at this
      subst hl; simp [slice]
    · simp at h
  | cons c s ih =>
    unfold find at h
    split at h
    · rename_i hp
      have := (isPrefix_iff p (c :: s)).1 hp
      cases h
      exact slice_eq_some.2 ⟨by simpa using this.2, by simpa using this.1⟩
    · simp only [Option.map_eq_some_iff] at h
      obtain ⟨o', ho', rfl⟩ := h
      have := slice_eq_some.1 (ih ho')
      refine slice_eq_some.2 ⟨?_, ?_⟩
      · simp only [List.length_cons]; omega
      · simpa using this.2

/-- `find` returns the FIRST occurrence: no smaller offset addresses the pattern. -/
theorem find_first {s p : Bytes} {o : Nat} (h : find s p = some o) :
    ∀ o', o' < o → slice s o' p.length ≠ some p := by
  induction s generalizing o with
  | nil =>
    unfold find at h
    split at h
    · cases h; intro o' ho'; omega
    · simp at h
  | cons c s ih =>
    unfold find at h
    split at h
    · cases h; intro o' ho'; omega
    · rename_i hp
      simp only [Option.map_eq_some_iff] at h
      obtain ⟨o1, ho1, rfl⟩ := h
      intro o' ho' hs
      cases o' with
      | zero =>
        apply hp
        have := slice_eq_some.1 hs
        exact (isPrefix_iff p (c :: s)).2 ⟨by simpa using this.2, by simpa using this.1⟩
      | succ o2 =>
        refine ih ho1 o2 (by omega) ?_
        have := slice_eq_some.1 hs
        refine slice_eq_some.2 ⟨?_, by simpa using this.2⟩
        have h1 := this.1
        simp only [List.length_cons] at h1
        omega

/-- `find = none` means the pattern occurs nowhere. -/
theorem find_none {s p : Bytes} (h : find s p = none) : ∀ o, slice s o p.length ≠ some p := by
  induction s with
  | nil =>
    unfold find at h
    split at h
    · simp at h
    · rename_i hp
      intro o hs
      apply hp
      have := slice_eq_some.1 hs
      have hl : p.length = 0 := by have h1 := this.1; simp only [List.length_nil] at h1; omega
      have : p = [] := List.eq_nil_of_length_eq_zero hl
      subst this; simp [isPrefix]
  | cons c s ih =>
    unfold find at h
    split at h
    · simp at h
    · rename_i hp
      simp only [Option.map_eq_none_iff] at h
      intro o hs
      cases o with
      | zero =>
        apply hp
        have := slice_eq_some.1 hs
        exact (isPrefix_iff p (c :: s)).2 ⟨by simpa using this.2, by simpa using this.1⟩
      | succ o2 =>
        refine ih h o2 ?_
        have := slice_eq_some.1 hs
        refine slice_eq_some.2 ⟨?_, by simpa using this.2⟩
        have h1 := this.1
        simp only [List.length_cons] at h1
        omega

theorem slice_append_left {s : Bytes} {off len : Nat} {x : Bytes} (t : Bytes)
    (h : slice s off len = some x) : slice (s ++ t) off len = some x := by
  have ⟨h1, h2⟩ := slice_eq_some.1 h
  refine slice_eq_some.2 ⟨by simp only [List.length_append]; omega, ?_⟩
  rw [List.drop_append_of_le_length (by omega), List.take_append_of_le_length (by simp; omega)]
  exact h2

theorem slice_append_right (s p : Bytes) : slice (s ++ p) s.length p.length = some p := by
  refine slice_eq_some.2 ⟨by simp, ?_⟩
  simp

theorem slice_length {s : Bytes} {off len : Nat} {x : Bytes} (h : slice s off len = some x) :
    x.length = len := by
  have ⟨h1, h2⟩ := slice_eq_some.1 h
  subst h2
  simp; omega

/-! ### insertArm -/

theorem mem_flatten {g : Groups} {k : Nat} {e : Entry} :
    (k, e) ∈ flatten g ↔ ∃ es, (k, es) ∈ g ∧ e ∈ es := by
  unfold flatten
  simp only [List.mem_flatMap, List.mem_map, Prod.mk.injEq, Prod.exists]
  constructor
  · rintro ⟨k', es, hm, e', he', rfl, rfl⟩; exact ⟨es, hm, he'⟩
  · rintro ⟨es, hm, he⟩; exact ⟨k, es, hm, e, he, rfl, rfl⟩

theorem flatten_cons (k : Nat) (es : List Entry) (r : Groups) :
    flatten ((k, es) :: r) = es.map (fun e => (k, e)) ++ flatten r := by
  simp [flatten]

theorem mem_flatten_insertArm (g : Groups) (k : Nat) (e : Entry) (p : Nat × Entry) :
    p ∈ flatten (insertArm g k e) ↔ p = (k, e) ∨ p ∈ flatten g := by
  induction g with
  | nil => simp [insertArm, flatten]
  | cons hd r ih =>
    obtain ⟨k', es⟩ := hd
    unfold insertArm
    split
    · rename_i hk; subst hk
      simp only [flatten_cons, List.map_append, List.map_cons, List.map_nil, List.mem_append,
        List.mem_cons, List.not_mem_nil, or_false]
      constructor
      · rintro ((h | h) | h)
        · exact Or.inr (Or.inl h)
        · exact Or.inl h
        · exact Or.inr (Or.inr h)
      · rintro (h | h | h)
        · exact Or.inl (Or.inr h)
        · exact Or.inl (Or.inl h)
        · exact Or.inr h
    · split
      · simp [flatten_cons]
      · simp only [flatten_cons, List.mem_append, ih]
        constructor
        · rintro (h | h | h)
          · exact Or.inr (Or.inl h)
          · exact Or.inl h
          · exact Or.inr (Or.inr h)
        · rintro (h | h | h)
          · exact Or.inr (Or.inl h)
          · exact Or.inl h
          · exact Or.inr (Or.inr h)

/-! ### the loop invariant -/

/-- Name of the method at position `i` of `all` (`[]` out of range). -/
def nm (all : List Bytes) (i : Nat) : Bytes := (all[i]?).getD []

/-- Invariant of the `for` loop after `idx` methods of `all`: every arm sits in the group of its own
length, belongs to an already processed method, and addresses that method's name inside `names`;
and every processed method has an arm. -/
structure Inv (all : List Bytes) (t : Table) (idx : Nat) : Prop where
  arms : ∀ k e, (k, e) ∈ flatten t.groups →
    k = e.len ∧ e.idx < idx ∧ e.len = (nm all e.idx).length ∧ slice t.names e.off e.len = some (nm all e.idx)
  covered : ∀ i, i < idx → ∃ k e, (k, e) ∈ flatten t.groups ∧ e.idx = i

theorem inv_init (all : List Bytes) : Inv all ⟨[], []⟩ 0 :=
  ⟨by intro k e h; simp [flatten] at h, by intro i h; omega⟩

theorem inv_step {all : List Bytes} {t : Table} {idx : Nat} {n : Bytes}
    (hinv : Inv all t idx) (hn : all[idx]? = some n) : Inv all (step t idx n) (idx + 1) := by
  have hnm : nm all idx = n := by simp [nm, hn]
  unfold step
  split
  · rename_i off hf
    have hs := find_some hf
    constructor
    · intro k e h
      rcases (mem_flatten_insertArm _ _ _ _).1 h with h | h
      · cases h
        exact ⟨rfl, Nat.lt_succ_self _, by simp [hnm], by simpa [hnm] using hs⟩
      · obtain ⟨a, b, c, d⟩ := hinv.arms k e h
        exact ⟨a, Nat.lt_succ_of_lt b, c, d⟩
    · intro i hi
      by_cases h : i = idx
      · subst h
        exact ⟨n.length, ⟨n.length, off, i⟩, (mem_flatten_insertArm _ _ _ _).2 (Or.inl rfl), rfl⟩
      · obtain ⟨k, e, hm, he⟩ := hinv.covered i (by omega)
        exact ⟨k, e, (mem_flatten_insertArm _ _ _ _).2 (Or.inr hm), he⟩
  · constructor
    · intro k e h
      rcases (mem_flatten_insertArm _ _ _ _).1 h with h | h
      · cases h
        exact ⟨rfl, Nat.lt_succ_self _, by simp [hnm], by simpa [hnm] using slice_append_right t.names n⟩
      · obtain ⟨a, b, c, d⟩ := hinv.arms k e h
        exact ⟨a, Nat.lt_succ_of_lt b, c, slice_append_left n d⟩
    · intro i hi
      by_cases h : i = idx
      · subst h
        exact ⟨n.length, ⟨n.length, t.names.length, i⟩, (mem_flatten_insertArm _ _ _ _).2 (Or.inl rfl), rfl⟩
      · obtain ⟨k, e, hm, he⟩ := hinv.covered i (by omega)
        exact ⟨k, e, (mem_flatten_insertArm _ _ _ _).2 (Or.inr hm), he⟩

theorem inv_buildFrom {all : List Bytes} {t : Table} {idx : Nat} (rest : List Bytes)
    (hinv : Inv all t idx) (hle : idx ≤ all.length) (hrest : all.drop idx = rest) :
    Inv all (buildFrom t idx rest) all.length := by
  induction rest generalizing t idx with
  | nil =>
    have : all.length ≤ idx := by simpa using hrest
    have : idx = all.length := by omega
    subst this
    exact hinv
  | cons n r ih =>
    unfold buildFrom
    have hn : all[idx]? = some n := by
      have := congrArg List.head? hrest
      simpa [List.head?_drop] using this
    have hlt : idx < all.length := by
      have := List.getElem?_eq_some_iff.1 hn
      exact this.1
    refine ih (inv_step hinv hn) hlt ?_
    have : all.drop (idx + 1) = (all.drop idx).drop 1 := by simp [List.drop_drop]
    rw [this, hrest]; rfl

/-! ### the generated `if` cascade over a table that satisfies the invariant -/

/-- Index of the first arm (in text order) whose method is named `call`. -/
def firstMatch (all : List Bytes) (call : Bytes) : List (Nat × Entry) → Option Nat
  | [] => none
  | (_, e) :: r => if nm all e.idx = call then some e.idx else firstMatch all call r

theorem firstMatch_append (all : List Bytes) (call : Bytes) (l₁ l₂ : List (Nat × Entry)) :
    firstMatch all call (l₁ ++ l₂) =
      match firstMatch all call l₁ with
      | some i => some i
      | none => firstMatch all call l₂ := by
  induction l₁ with
  | nil => simp [firstMatch]
  | cons hd r ih =>
    obtain ⟨k, e⟩ := hd
    simp only [List.cons_append, firstMatch]
    split <;> simp [ih]

theorem firstMatch_sound {all : List Bytes} {call : Bytes} {l : List (Nat × Entry)} {j : Nat}
    (h : firstMatch all call l = some j) : ∃ k e, (k, e) ∈ l ∧ e.idx = j ∧ nm all j = call := by
  induction l with
  | nil => simp [firstMatch] at h
  | cons hd r ih =>
    obtain ⟨k, e⟩ := hd
    simp only [firstMatch] at h
    split at h
    · rename_i hc
      cases h
      exact ⟨k, e, List.mem_cons_self, rfl, hc⟩
    · obtain ⟨k', e', hm, h1, h2⟩ := ih h
      exact ⟨k', e', List.mem_cons_of_mem _ hm, h1, h2⟩

theorem firstMatch_none {all : List Bytes} {call : Bytes} {l : List (Nat × Entry)}
    (h : ∀ k e, (k, e) ∈ l → nm all e.idx ≠ call) : firstMatch all call l = none := by
  induction l with
  | nil => rfl
  | cons hd r ih =>
    obtain ⟨k, e⟩ := hd
    simp only [firstMatch]
    rw [if_neg (h k e List.mem_cons_self)]
    exact ih fun k' e' hm => h k' e' (List.mem_cons_of_mem _ hm)

theorem firstMatch_isSome {all : List Bytes} {call : Bytes} {l : List (Nat × Entry)} {k : Nat} {e : Entry}
    (hm : (k, e) ∈ l) (hc : nm all e.idx = call) : (firstMatch all call l).isSome = true := by
  induction l with
  | nil => simp at hm
  | cons hd r ih =>
    obtain ⟨k', e'⟩ := hd
    simp only [firstMatch]
    split
    · rfl
    · rename_i hne
      rcases List.mem_cons.1 hm with h | h
      · cases h; exact absurd hc hne
      · exact ih h

/-- What an arm must satisfy (the part of `Inv.arms` the cascade depends on). -/
def ArmOk (all : List Bytes) (names : Bytes) (k : Nat) (e : Entry) : Prop :=
  k = e.len ∧ e.len = (nm all e.idx).length ∧ slice names e.off e.len = some (nm all e.idx)

theorem runArms_eq {all : List Bytes} {names call : Bytes} {k : Nat} (es : List Entry)
    (hk : call.length = k) (h : ∀ e, e ∈ es → ArmOk all names k e) :
    runArms names call es = (firstMatch all call (es.map fun e => (k, e))).map Target.method := by
  induction es with
  | nil => rfl
  | cons e r ih =>
    obtain ⟨h1, h2, h3⟩ := h e List.mem_cons_self
    have hlen : call.take e.len = call := by rw [← h1, ← hk]; simp
    simp only [runArms, h3, hlen, List.map_cons, firstMatch]
    split
    · rfl
    · exact ih fun e' he' => h e' (List.mem_cons_of_mem _ he')

theorem firstMatch_skip {all : List Bytes} {names call : Bytes} {k : Nat} (es : List Entry)
    (hk : call.length ≠ k) (h : ∀ e, e ∈ es → ArmOk all names k e) :
    firstMatch all call (es.map fun e => (k, e)) = none := by
  apply firstMatch_none
  intro k' e' hm hc
  obtain ⟨e, he, heq⟩ := List.mem_map.1 hm
  simp only [Prod.mk.injEq] at heq
  obtain ⟨hk', he'⟩ := heq
  subst he'
  obtain ⟨h1, h2, _⟩ := h e he
  apply hk
  rw [← hc, ← h2, ← h1]

/-- The cascade of `if _method_len == k { arms }` blocks is a search, in text order, for the first arm
whose method bears the called name. -/
theorem runGroups_eq {all : List Bytes} {names call : Bytes} (g : Groups)
    (h : ∀ k e, (k, e) ∈ flatten g → ArmOk all names k e) :
    runGroups names call g = (firstMatch all call (flatten g)).map Target.method := by
  induction g with
  | nil => rfl
  | cons hd r ih =>
    obtain ⟨k, es⟩ := hd
    have hes : ∀ e, e ∈ es → ArmOk all names k e := fun e he =>
      h k e (by rw [flatten_cons]; exact List.mem_append_left _ (List.mem_map.2 ⟨e, he, rfl⟩))
    have hr : ∀ k' e, (k', e) ∈ flatten r → ArmOk all names k' e := fun k' e he =>
      h k' e (by rw [flatten_cons]; exact List.mem_append_right _ he)
    rw [flatten_cons, firstMatch_append]
    simp only [runGroups]
    split
    · rename_i hk
      rw [runArms_eq es hk hes]
      cases hfm : firstMatch all call (es.map fun e => (k, e)) with
      | none => simpa using ih hr
      | some i => simp
    · rename_i hk
      rw [firstMatch_skip es hk hes]
      exact ih hr

theorem nm_inj {all : List Bytes} (hnd : all.Nodup) {i j : Nat} (hi : i < all.length) (hj : j < all.length)
    (h : nm all i = nm all j) : i = j := by
  simp only [nm, List.getElem?_eq_getElem hi, List.getElem?_eq_getElem hj, Option.getD_some] at h
  exact (List.getElem_inj hnd).1 h

theorem inv_armOk {all : List Bytes} {t : Table} {idx : Nat} (hinv : Inv all t idx) :
    ∀ k e, (k, e) ∈ flatten t.groups → ArmOk all t.names k e := fun k e h =>
  let ⟨a, _, c, d⟩ := hinv.arms k e h; ⟨a, c, d⟩

theorem buildTable_inv (ms : List Method) :
    Inv (ms.map (·.name)) (buildTable ms) (ms.map (·.name)).length :=
  inv_buildFrom _ (inv_init _) (Nat.zero_le _) rfl

end SwayVerif.Dispatch
