import SwayVerif.Lemmas.DataSection
namespace SwayVerif.DataSection

theorem Res.bind_eq_ok {α β} {r : Res α} {f : α → Res β} {b : β} (h : r.bind f = .ok b) :
    ∃ a, r = .ok a ∧ f a = .ok b := by
  cases r with
  | ok a => exact ⟨a, rfl, h⟩
  | panic p => simp [Res.bind] at h

/-- every binding of the pointer map names a non-configurable word entry holding that value -/
def PtrsWF (ds : DS) : Prop :=
  ∀ v id, (v, id) ∈ ds.ptrs → ∃ e, ds.get id = some e ∧ e.value = .word v

/-- top-level word entries carry no extra padding (the compiler creates them with `Entry::new_word(_, _, None)`) -/
def WordsPlain (ds : DS) : Prop :=
  ∀ id e v, ds.get id = some e → e.value = .word v → e.toBytes = be64 v

theorem be64_length (v : Nat) : (be64 v).length = 8 := by simp [be64]

theorem wordEntry_toBytes (v : Nat) : (wordEntry v).toBytes = be64 v := by
  simp [wordEntry, Entry.toBytes, padBytes, Datum.raw, be64_length, zeros]

theorem Datum.equiv_word {d : Datum} {v : Nat} (h : d.equiv (.word v) = true) : d = .word v := by
  cases d <;> simp [Datum.equiv] at h
  subst h; rfl

theorem findEquiv_word {es : List Entry} {v : Nat} {i : Nat} (h : findEquiv es (wordEntry v) = some i) :
    ∃ x, es[i]? = some x ∧ x.value = .word v := by
  unfold findEquiv at h
  rw [List.findIdx?_eq_some_iff_getElem] at h
  obtain ⟨hi, hp, _⟩ := h
  refine ⟨es[i], by simp [hi], ?_⟩
  simp [Entry.equiv, wordEntry] at hp
  exact Datum.equiv_word hp.1.1

/-- the id returned by `append_pointer v` names a word entry holding `v` -/
theorem appendPointer_get (ds : DS) (v : Nat) :
    ∃ e, (ds.appendPointer v).1.get (ds.appendPointer v).2 = some e ∧ e.value = .word v := by
  simp only [DS.appendPointer, DS.insert, wordEntry]
  cases hf : findEquiv ds.nonConf ⟨.word v, .right 8, none⟩ with
  | some i =>
    obtain ⟨x, hx, hv⟩ := findEquiv_word (v := v) (by simpa [wordEntry] using hf)
    exact ⟨x, by simpa [DS.get] using hx, hv⟩
  | none => exact ⟨⟨.word v, .right 8, none⟩, by simp [DS.get], rfl⟩

theorem appendPointer_get_new (ds : DS) (v : Nat) (id : DataId) (e : Entry)
    (h : (ds.appendPointer v).1.get id = some e) : ds.get id = some e ∨ e = wordEntry v := by
  simp only [DS.appendPointer, DS.insert, wordEntry] at h
  cases hf : findEquiv ds.nonConf ⟨.word v, .right 8, none⟩ with
  | some i => rw [hf] at h; left; simpa [DS.get] using h
  | none =>
    rw [hf] at h
    unfold DS.get at h ⊢
    by_cases hc : id.conf
    · left; simpa [hc] using h
    · simp only [hc] at h ⊢
      by_cases hi : id.idx < ds.nonConf.length
      · left; rw [List.getElem?_append_left hi] at h; exact h
      · right
        rw [List.getElem?_append_right (Nat.le_of_not_lt hi)] at h
        cases hk : id.idx - ds.nonConf.length with
        | zero => rw [hk] at h; simp at h; exact h.symm
        | succ k => rw [hk] at h; simp at h

theorem appendPointer_ptrs (ds : DS) (v : Nat) :
    (ds.appendPointer v).1.ptrs = (v, (ds.appendPointer v).2) :: ds.ptrs := by
  simp only [DS.appendPointer, DS.insert, wordEntry]
  cases findEquiv ds.nonConf ⟨.word v, .right 8, none⟩ <;> rfl

theorem PtrsWF_appendPointer {ds : DS} (h : PtrsWF ds) (v : Nat) : PtrsWF (ds.appendPointer v).1 := by
  intro w id hm
  rw [appendPointer_ptrs] at hm
  cases hm with
  | head => exact appendPointer_get ds v
  | tail _ hm' =>
    obtain ⟨e, he, hv⟩ := h w id hm'
    exact ⟨e, appendPointer_get_mono ds v id e he, hv⟩

theorem WordsPlain_appendPointer {ds : DS} (h : WordsPlain ds) (v : Nat) : WordsPlain (ds.appendPointer v).1 := by
  intro id e w he hw
  cases appendPointer_get_new ds v id e he with
  | inl h0 => exact h id e w h0 hw
  | inr h1 =>
    subst h1
    have : w = v := by simp [wordEntry] at hw; exact hw.symm
    subst this; exact wordEntry_toBytes w

theorem pass1_inv (off0 : Nat) (ops : List COp) : ∀ (ds : DS) (ofs : Nat) (dsf : DS),
    pass1 off0 ds ofs ops = .ok dsf → PtrsWF ds → WordsPlain ds → PtrsWF dsf ∧ WordsPlain dsf := by
  induction ops with
  | nil => intro ds ofs dsf h h1 h2; simp [pass1] at h; subst h; exact ⟨h1, h2⟩
  | cons op ops ih =>
    intro ds ofs dsf h h1 h2
    cases op with
    | fixed n => simp [pass1, opSize, Res.bind] at h; exact ih _ _ _ h h1 h2
    | addr id => simp [pass1, opSize, Res.bind] at h; exact ih _ _ _ h h1 h2
    | load id =>
      simp only [pass1] at h
      cases hg : ds.get id with
      | none => rw [hg] at h; simp at h
      | some e =>
        rw [hg] at h
        by_cases hc : e.isCopy
        · simp [hc] at h; exact ih _ _ _ h h1 h2
        · simp [hc] at h
          obtain ⟨ptr, _, h'⟩ := Res.bind_eq_ok h
          exact ih _ _ _ h' (PtrsWF_appendPointer h1 ptr) (WordsPlain_appendPointer h2 ptr)

/-! ### slices of the serialised data section at an id -/

theorem get_all (ds : DS) (id : DataId) (e : Entry) (h : ds.get id = some e) :
    ∃ hi : ds.absIdx id < ds.all.length, ds.all[ds.absIdx id] = e := by
  unfold DS.get at h
  unfold DS.absIdx DS.all
  by_cases hc : id.conf
  · simp only [hc, if_true] at h ⊢
    have hi : id.idx < ds.conf.length := by
      by_cases hh : id.idx < ds.conf.length
      · exact hh
      · simp [List.getElem?_eq_none (Nat.le_of_not_lt hh)] at h
    refine ⟨by simp; omega, ?_⟩
    rw [List.getElem_append_right (by omega)]
    simp only [Nat.add_sub_cancel]
    rw [List.getElem?_eq_getElem hi] at h
    exact Option.some.inj h
  · simp only [hc] at h ⊢
    have hi : id.idx < ds.nonConf.length := by
      by_cases hh : id.idx < ds.nonConf.length
      · exact hh
      · simp [List.getElem?_eq_none (Nat.le_of_not_lt hh)] at h
    refine ⟨by simp; omega, ?_⟩
    simp only [Bool.false_eq_true, if_false]
    rw [List.getElem_append_left hi]
    rw [List.getElem?_eq_getElem hi] at h
    exact Option.some.inj h

/-- the bytes of the serialised data section at the offset of an id are that entry's bytes -/
theorem slice_serialize_id (ds : DS) (id : DataId) (e : Entry) (h : ds.get id = some e) :
    slice ds.serialize (ds.offsetOf id) e.toBytes.length = e.toBytes := by
  obtain ⟨hi, he⟩ := get_all ds id e h
  have hi' : ds.absIdx id < (chunks ds.all).length := by simpa [chunks] using hi
  have := slice_ser (chunks ds.all) (ds.absIdx id) hi'
  simp only [chunks, List.getElem_map, he] at this
  simpa [DS.serialize, DS.offsetOf, DS.offsetOfAbs, chunks] using this

/-! ### the emission pass addresses every entry at its final offset -/

theorem pointerValue_ok {off0 ofs offb ptr : Nat} (h : pointerValue off0 ofs offb = .ok ptr) :
    ptr + ofs + 4 = off0 + offb := by
  unfold pointerValue at h
  split at h
  · simp at h
  · split at h
    · simp at h
    · simp at h; omega

theorem loadImm_ok {ds : DS} {id : DataId} {e : Entry} {imm : Nat} (h : loadImm ds id e = .ok imm) :
    (e.isByte = true → imm = ds.offsetOf id) ∧ (e.isByte = false → imm * 8 = ds.offsetOf id) := by
  unfold loadImm at h
  simp only at h
  by_cases hm : ds.offsetOf id % 8 ≠ 0
  · simp [hm] at h
  · simp only [hm, if_false] at h
    by_cases hb : e.isByte = true
    · simp only [hb, if_true] at h
      by_cases hgt : ds.offsetOf id > twelveBits
      · simp [hgt] at h
      · simp [hgt] at h; subst h; simp [hb]
    · simp only [hb] at h
      by_cases hgt : ds.offsetOf id / 8 > twelveBits
      · simp [hgt] at h
      · simp [hgt] at h; subst h; simp [hb]; omega

theorem pointerId_mem {ds : DS} {v : Nat} {pid : DataId} (h : ds.pointerId v = some pid) : (v, pid) ∈ ds.ptrs := by
  unfold DS.pointerId at h
  cases hf : ds.ptrs.find? (fun p => p.1 == v) with
  | none => simp [hf] at h
  | some a =>
    simp [hf] at h
    have hm := List.mem_of_find?_eq_some hf
    have hp := List.find?_some hf
    simp at hp
    obtain ⟨a1, a2⟩ := a
    simp at h hp
    subst h; subst hp; exact hm

theorem isCopy_of_isByte {e : Entry} (h : e.isByte = true) : e.isCopy = true := by
  unfold Entry.isByte at h; unfold Entry.isCopy
  cases hv : e.value <;> simp [hv] at h ⊢

theorem emitOp_resolves (ds : DS) (off0 ofs : Nat) (op : COp) (e : Emit) (emits : List Emit)
    (hwf : PtrsWF ds) (hpl : WordsPlain ds) (h : emitOp ds off0 ofs op = .ok e)
    (hsmall : ∀ id, op = .addr id → ds.offsetOf id < 2 ^ 18) :
    emitResolves ⟨off0, ds, emits⟩ ofs op e = true := by
  cases op with
  | fixed n => simp [emitOp] at h; subst h; simp [emitResolves]
  | addr id =>
    simp only [emitOp] at h
    split at h
    · simp at h; subst h; simp [emitResolves]
    · split at h
      · simp at h
      · simp at h; subst h
        have := hsmall id rfl
        simp [emitResolves, Nat.mod_eq_of_lt this]
  | load id =>
    simp only [emitOp] at h
    cases hg : ds.get id with
    | none => simp [hg] at h
    | some en =>
      simp only [hg] at h
      obtain ⟨imm, himm, h⟩ := Res.bind_eq_ok h
      obtain ⟨hb, hnb⟩ := loadImm_ok himm
      by_cases hc : en.isCopy
      · simp only [hc, if_true] at h
        by_cases hby : en.isByte
        · simp [hby] at h; subst h; simp [emitResolves, hb hby]
        · simp [hby] at h; subst h; simp [emitResolves, hnb (by simpa using hby)]
      · simp only [hc] at h
        obtain ⟨ptr, hptr, h⟩ := Res.bind_eq_ok h
        cases hp : ds.pointerId ptr with
        | none => simp [hp] at h
        | some pid =>
          simp only [hp] at h
          cases hpg : ds.get pid with
          | none => simp [hpg] at h
          | some pe =>
            simp only [hpg] at h
            obtain ⟨slot, hslot, h⟩ := Res.bind_eq_ok h
            simp at h; subst h
            obtain ⟨pe', hpe', hval⟩ := hwf ptr pid (pointerId_mem hp)
            rw [hpg] at hpe'; cases hpe'
            have hbytes := hpl pid pe ptr hpg hval
            have hnotbyte : pe.isByte = false := by simp [Entry.isByte, hval]
            have hs := (loadImm_ok hslot).2 hnotbyte
            have hsl := slice_serialize_id ds pid pe hpg
            rw [hbytes, be64_length] at hsl
            have hpv := pointerValue_ok hptr
            simp [emitResolves, hs, hsl, hpv]

theorem pass2_resolves (ds : DS) (off0 : Nat) (E : List Emit) (hwf : PtrsWF ds) (hpl : WordsPlain ds)
    (ops : List COp) : ∀ (ofs : Nat) (emits : List Emit), pass2 ds off0 ofs ops = .ok emits →
    (∀ id, COp.addr id ∈ ops → ds.offsetOf id < 2 ^ 18) →
    allResolve ⟨off0, ds, E⟩ ofs ops emits = true := by
  induction ops with
  | nil => intro ofs emits h _; simp [pass2] at h; subst h; simp [allResolve]
  | cons op ops ih =>
    intro ofs emits h hs
    simp only [pass2] at h
    obtain ⟨e, he, h⟩ := Res.bind_eq_ok h
    obtain ⟨es, hes, h⟩ := Res.bind_eq_ok h
    simp at h; subst h
    have r1 := emitOp_resolves ds off0 ofs op e E hwf hpl he (fun id hid => hs id (by simp [hid]))
    have r2 := ih (ofs + e.size) es hes (fun id hid => hs id (by simp [hid]))
    simp [allResolve, r1, r2]


theorem PtrsWF_of_isEmpty {ds : DS} (h : ds.ptrs.isEmpty = true) : PtrsWF ds := by
  intro v id hm
  have : ds.ptrs = [] := by simpa using h
  rw [this] at hm; cases hm

theorem WordsPlain_of_noCopy {ds : DS} (h : ds.all.all (fun e => !e.isCopy) = true) : WordsPlain ds := by
  intro id e v hg hv
  obtain ⟨hi, he⟩ := get_all ds id e hg
  have hm : e ∈ ds.all := by rw [← he]; exact List.getElem_mem hi
  have := (List.all_eq_true.mp h) e hm
  simp [Entry.isCopy, hv] at this

end SwayVerif.DataSection
