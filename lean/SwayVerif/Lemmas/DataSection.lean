import SwayVerif.Model.DataSection
/-!
Helper lemmas for C13 (core Lean only): arithmetic of `roundUp8`, right-recursive characterisations of
`serializeChunks` / `offsetAt`, slices, patches.
-/
namespace SwayVerif.DataSection

theorem roundUp8_ge (n : Nat) : n ≤ roundUp8 n := by unfold roundUp8; omega
theorem roundUp8_mod (n : Nat) : roundUp8 n % 8 = 0 := by unfold roundUp8; omega
theorem roundUp8_lt (n : Nat) : roundUp8 n < n + 8 := by unfold roundUp8; omega
theorem roundUp8_add (a b : Nat) (h : a % 8 = 0) : roundUp8 (a + b) = a + roundUp8 b := by
  unfold roundUp8; omega
theorem roundUp8_of_mod (n : Nat) (h : n % 8 = 0) : roundUp8 n = n := by unfold roundUp8; omega

@[simp] theorem zeros_length (n : Nat) : (zeros n).length = n := by simp [zeros]

theorem padTo8_length (bs : List Byte) : (padTo8 bs).length = roundUp8 bs.length := by
  have := roundUp8_ge bs.length
  simp [padTo8]; omega

theorem padTo8_append (buf c : List Byte) (h : buf.length % 8 = 0) :
    padTo8 (buf ++ c) = buf ++ padTo8 c := by
  unfold padTo8
  have e : roundUp8 (buf ++ c).length - (buf ++ c).length = roundUp8 c.length - c.length := by
    rw [List.length_append, roundUp8_add _ _ h]; omega
  rw [e, List.append_assoc]

theorem foldl_ser (cs : List (List Byte)) : ∀ (buf : List Byte), buf.length % 8 = 0 →
    cs.foldl (fun buf c => padTo8 (buf ++ c)) buf = buf ++ serializeChunks cs := by
  induction cs with
  | nil => intro buf _; simp [serializeChunks]
  | cons c cs ih =>
    intro buf h
    have h1 : (padTo8 (buf ++ c)).length % 8 = 0 := by rw [padTo8_length]; exact roundUp8_mod _
    have h2 : (padTo8 ([] ++ c)).length % 8 = 0 := by rw [padTo8_length]; exact roundUp8_mod _
    simp only [List.foldl_cons, serializeChunks]
    rw [ih _ h1, ih _ h2, padTo8_append _ _ h]
    simp [serializeChunks]

theorem ser_nil : serializeChunks [] = [] := rfl

theorem ser_cons (c : List Byte) (cs : List (List Byte)) :
    serializeChunks (c :: cs) = padTo8 c ++ serializeChunks cs := by
  have h2 : (padTo8 ([] ++ c)).length % 8 = 0 := by rw [padTo8_length]; exact roundUp8_mod _
  show List.foldl _ (padTo8 ([] ++ c)) cs = _
  rw [foldl_ser _ _ h2]; simp

theorem foldl_off (ls : List (List Byte)) : ∀ (a : Nat), a % 8 = 0 →
    ls.foldl (fun off c => roundUp8 (off + c.length)) a
      = a + ls.foldl (fun off c => roundUp8 (off + c.length)) 0 := by
  induction ls with
  | nil => intro a _; simp
  | cons c cs ih =>
    intro a h
    simp only [List.foldl_cons]
    rw [ih _ (roundUp8_mod _), ih (roundUp8 (0 + c.length)) (roundUp8_mod _), roundUp8_add _ _ h]
    simp; omega

@[simp] theorem offsetAt_zero (cs : List (List Byte)) : offsetAt cs 0 = 0 := by simp [offsetAt]
@[simp] theorem offsetAt_nil (i : Nat) : offsetAt [] i = 0 := by simp [offsetAt]

theorem offsetAt_cons_succ (c : List Byte) (cs : List (List Byte)) (i : Nat) :
    offsetAt (c :: cs) (i + 1) = roundUp8 c.length + offsetAt cs i := by
  simp only [offsetAt, List.take_succ_cons, List.foldl_cons]
  rw [foldl_off _ _ (roundUp8_mod _)]; simp

theorem offsetAt_mod8 (cs : List (List Byte)) (i : Nat) : offsetAt cs i % 8 = 0 := by
  induction cs generalizing i with
  | nil => simp
  | cons c cs ih =>
    cases i with
    | zero => simp
    | succ i => rw [offsetAt_cons_succ]; have := ih i; have := roundUp8_mod c.length; omega

theorem offsetAt_succ (cs : List (List Byte)) (i : Nat) (h : i < cs.length) :
    offsetAt cs (i + 1) = roundUp8 (offsetAt cs i + cs[i].length) := by
  induction cs generalizing i with
  | nil => simp at h
  | cons c cs ih =>
    cases i with
    | zero => simp [offsetAt_cons_succ]
    | succ i =>
      have h' : i < cs.length := by simpa using h
      rw [offsetAt_cons_succ, offsetAt_cons_succ, ih i h']
      simp only [List.getElem_cons_succ]
      rw [Nat.add_assoc, roundUp8_add _ _ (roundUp8_mod _)]

theorem offsetAt_mono (cs : List (List Byte)) {i j : Nat} (h : i ≤ j) : offsetAt cs i ≤ offsetAt cs j := by
  induction cs generalizing i j with
  | nil => simp
  | cons c cs ih =>
    cases i with
    | zero => simp
    | succ i =>
      cases j with
      | zero => omega
      | succ j =>
        rw [offsetAt_cons_succ, offsetAt_cons_succ]
        have := ih (i := i) (j := j) (by omega); omega

theorem ser_length (cs : List (List Byte)) : (serializeChunks cs).length = offsetAt cs cs.length := by
  induction cs with
  | nil => simp [ser_nil]
  | cons c cs ih =>
    simp only [List.length_cons]
    rw [ser_cons, offsetAt_cons_succ]; simp [padTo8_length, ih]

theorem offsetAt_of_ge (cs : List (List Byte)) (i : Nat) (h : cs.length ≤ i) :
    offsetAt cs i = offsetAt cs cs.length := by
  simp [offsetAt, List.take_of_length_le h]

/-- offsets depend only on the chunk lengths -/
theorem offsetAt_congr (cs cs' : List (List Byte)) (h : cs.map List.length = cs'.map List.length) (k : Nat) :
    offsetAt cs k = offsetAt cs' k := by
  induction cs generalizing cs' k with
  | nil => cases cs' with
    | nil => rfl
    | cons _ _ => simp at h
  | cons c cs ih =>
    cases cs' with
    | nil => simp at h
    | cons c' cs' =>
      simp only [List.map_cons, List.cons.injEq] at h
      cases k with
      | zero => simp
      | succ k => rw [offsetAt_cons_succ, offsetAt_cons_succ, ih cs' h.2 k, h.1]

theorem offsetAt_set (cs : List (List Byte)) (i : Nat) (new : List Byte) (hi : i < cs.length)
    (hl : new.length = cs[i].length) (k : Nat) : offsetAt (cs.set i new) k = offsetAt cs k := by
  apply offsetAt_congr
  rw [List.map_set, hl]
  apply List.ext_getElem
  · simp
  · intro n h1 h2
    by_cases hn : i = n
    · subst hn; simp
    · simp [List.getElem_set_ne hn]

/-! ### slices -/

theorem slice_append_left (p r : List Byte) (off len : Nat) :
    slice (p ++ r) (p.length + off) len = slice r off len := by
  simp [slice, List.drop_append, List.drop_eq_nil_of_le]

theorem slice_padTo8_zero (c r : List Byte) : slice (padTo8 c ++ r) 0 c.length = c := by
  simp [slice, padTo8]

/-- **serialize_at_offset** on chunk lists -/
theorem slice_ser (cs : List (List Byte)) (i : Nat) (h : i < cs.length) :
    slice (serializeChunks cs) (offsetAt cs i) cs[i].length = cs[i] := by
  induction cs generalizing i with
  | nil => simp at h
  | cons c cs ih =>
    cases i with
    | zero => rw [ser_cons]; simpa using slice_padTo8_zero c _
    | succ i =>
      have h' : i < cs.length := by simpa using h
      rw [ser_cons, offsetAt_cons_succ, ← padTo8_length, slice_append_left]
      simpa using ih i h'

/-! ### patches -/

theorem patch_append_left (p r new : List Byte) (off : Nat) :
    patch (p ++ r) (p.length + off) new = (patch r off new).map (p ++ ·) := by
  unfold patch
  simp only [List.length_append]
  by_cases h : off + new.length ≤ r.length
  · have h' : p.length + off + new.length ≤ p.length + r.length := by omega
    simp only [h, h', if_true, Option.map_some]
    congr 1
    have e1 : p.length + off + new.length = p.length + (off + new.length) := by omega
    rw [e1]
    simp [List.drop_append, List.take_append, List.drop_eq_nil_of_le, List.take_of_length_le]
  · have h' : ¬ p.length + off + new.length ≤ p.length + r.length := by omega
    simp [h, h']

theorem patch_padTo8_zero (c r new : List Byte) (hl : new.length = c.length) :
    patch (padTo8 c ++ r) 0 new = some (padTo8 new ++ r) := by
  unfold patch
  have hle : 0 + new.length ≤ (padTo8 c ++ r).length := by
    have := roundUp8_ge c.length; simp [padTo8_length]; omega
  simp only [hle, if_true]
  simp only [padTo8, hl, List.take_zero, List.nil_append, Nat.zero_add, List.append_assoc]
  simp

/-- patching chunk `i` in the serialised buffer = serialising the list with chunk `i` replaced -/
theorem patch_ser (cs : List (List Byte)) (i : Nat) (new : List Byte) (hi : i < cs.length)
    (hl : new.length = cs[i].length) :
    patch (serializeChunks cs) (offsetAt cs i) new = some (serializeChunks (cs.set i new)) := by
  induction cs generalizing i with
  | nil => simp at hi
  | cons c cs ih =>
    cases i with
    | zero =>
      simp only [List.getElem_cons_zero] at hl
      rw [ser_cons, List.set_cons_zero, ser_cons]; simpa using patch_padTo8_zero c _ new hl
    | succ i =>
      have h' : i < cs.length := by simpa using hi
      have hl' : new.length = cs[i].length := by simpa using hl
      rw [ser_cons, offsetAt_cons_succ, ← padTo8_length, patch_append_left, ih i h' hl']
      simp [ser_cons]

/-! ### insertion: ids are stable and keep the inserted name -/

theorem equiv_name {a b : Entry} (h : a.equiv b = true) : a.name = b.name := by
  simp [Entry.equiv] at h; exact h.1.2

theorem equiv_toBytes {a b : Entry} (h : a.equiv b = true) : a.toBytes = b.toBytes := by
  simp [Entry.equiv] at h; exact h.2

theorem findEquiv_some {es : List Entry} {e : Entry} {i : Nat} (h : findEquiv es e = some i) :
    ∃ x, es[i]? = some x ∧ x.name = e.name ∧ x.toBytes = e.toBytes := by
  unfold findEquiv at h
  rw [List.findIdx?_eq_some_iff_getElem] at h
  obtain ⟨hi, hp, _⟩ := h
  exact ⟨es[i], by simp [hi], equiv_name hp, equiv_toBytes hp⟩

theorem findEquiv_lt {es : List Entry} {e : Entry} {i : Nat} (h : findEquiv es e = some i) : i < es.length := by
  unfold findEquiv at h
  rw [List.findIdx?_eq_some_iff_getElem] at h
  exact h.1

/-- the entry found at the id returned by `insert` carries the inserted entry's name and bytes -/
theorem insert_get (ds : DS) (e : Entry) :
    ∃ x, (ds.insert e).1.get (ds.insert e).2 = some x ∧ x.name = e.name ∧ x.toBytes = e.toBytes := by
  unfold DS.insert
  cases hn : e.name with
  | none =>
    cases hf : findEquiv ds.nonConf e with
    | some i =>
      obtain ⟨x, hx, hxn, hxb⟩ := findEquiv_some hf
      exact ⟨x, by simpa [DS.get] using hx, by rw [hxn, hn], hxb⟩
    | none => exact ⟨e, by simp [DS.get], hn, rfl⟩
  | some n =>
    cases hf : findEquiv ds.conf e with
    | some i =>
      obtain ⟨x, hx, hxn, hxb⟩ := findEquiv_some hf
      exact ⟨x, by simpa [DS.get] using hx, by rw [hxn, hn], hxb⟩
    | none => exact ⟨e, by simp [DS.get], hn, rfl⟩

theorem getElem?_append_some {α} {l : List α} {i : Nat} {x : α} (h : l[i]? = some x) (r : List α) :
    (l ++ r)[i]? = some x := by
  have hi : i < l.length := by
    by_cases hh : i < l.length
    · exact hh
    · simp [List.getElem?_eq_none (Nat.le_of_not_lt hh)] at h
  rw [List.getElem?_append_left hi]; exact h

/-- entries never move or change: an id that resolves keeps resolving to the same entry -/
theorem insert_get_mono (ds : DS) (e : Entry) (id : DataId) (x : Entry) (h : ds.get id = some x) :
    (ds.insert e).1.get id = some x := by
  unfold DS.insert
  cases e.name with
  | none =>
    cases findEquiv ds.nonConf e with
    | some i => exact h
    | none =>
      unfold DS.get at h ⊢
      by_cases hc : id.conf
      · simpa [hc] using h
      · simp only [hc] at h ⊢; exact getElem?_append_some h _
  | some n =>
    cases findEquiv ds.conf e with
    | some i => exact h
    | none =>
      unfold DS.get at h ⊢
      by_cases hc : id.conf
      · simp only [hc, if_true] at h ⊢; exact getElem?_append_some h _
      · simpa [hc] using h

theorem appendPointer_get_mono (ds : DS) (v : Nat) (id : DataId) (x : Entry) (h : ds.get id = some x) :
    (ds.appendPointer v).1.get id = some x := by
  have := insert_get_mono ds (wordEntry v) id x h
  simpa [DS.appendPointer, DS.get] using this

theorem apply_get_mono (ds : DS) (op : DOp) (id : DataId) (x : Entry) (h : ds.get id = some x) :
    (ds.apply op).1.get id = some x := by
  cases op with
  | insert e => exact insert_get_mono ds e id x h
  | pointer v => exact appendPointer_get_mono ds v id x h

theorem run_get_mono (ops : List DOp) : ∀ (ds : DS) (id : DataId) (x : Entry), ds.get id = some x →
    (ds.run ops).1.get id = some x := by
  induction ops with
  | nil => intro ds id x h; exact h
  | cons op ops ih => intro ds id x h; exact ih _ id x (apply_get_mono ds op id x h)

/-- after any history, the id returned for an inserted entry resolves to an entry with that entry's name -/
theorem run_insert_name (ops : List DOp) : ∀ (ds : DS) (a : Nat) (e : Entry), ops[a]? = some (.insert e) →
    ∃ id x, (ds.run ops).2[a]? = some id ∧ (ds.run ops).1.get id = some x ∧ x.name = e.name
      ∧ x.toBytes = e.toBytes := by
  induction ops with
  | nil => intro ds a e h; simp at h
  | cons op ops ih =>
    intro ds a e h
    cases a with
    | zero =>
      simp at h; subst h
      obtain ⟨x, hx, hn, hb⟩ := insert_get ds e
      exact ⟨(ds.insert e).2, x, by simp [DS.run, DS.apply], run_get_mono ops _ _ _ (by simpa [DS.apply] using hx), hn, hb⟩
    | succ a =>
      simp at h
      obtain ⟨id, x, h1, h2, h3, h4⟩ := ih (ds.apply op).1 a e h
      exact ⟨id, x, by simpa [DS.run] using h1, by simpa [DS.run] using h2, h3, h4⟩

end SwayVerif.DataSection
