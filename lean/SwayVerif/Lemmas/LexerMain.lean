import SwayVerif.Lemmas.LexerSub
/-! The invariant of the main loop of `lex_commented` (model: `Model/Lexer.lean`) and its preservation. -/
namespace SwayVerif.Lexer

/-- Relation between consecutive tokens in `St.toks` (kept reversed: later tokens first). -/
def After (b a : Token) : Prop := a.stop ≤ b.start

/-- Everything recorded so far is valid and lies before byte position `index`. -/
structure Pre (text : List CC) (s : St) (index : Nat) : Prop where
  toks : ∀ t ∈ s.toks, SpanOK text t.start t.stop ∧ t.stop ≤ index
  sorted : s.toks.Pairwise After
  errs : ∀ e ∈ s.errs, SpanOK text e.start e.stop
  aux : ∀ a ∈ s.aux, SpanOK text a.1 a.2
  stack : ∀ od ∈ s.stack, Bd text od.1 ∧ Bd text (od.1 + 1) ∧ od.1 + 1 ≤ index
  fso : s.fso ≤ index
  bad : s.bad = false
  fuelOut : s.fuelOut = false

/-- The loop invariant. -/
structure Inv (text : List CC) (s : St) : Prop where
  suf : Suf text s.pos s.rest
  pre : Pre text s s.pos

/-- What one iteration establishes when the stream after the first character is `(pos, rest)`. -/
structure Post (text : List CC) (pos : Nat) (rest : List CC) (s' : St) : Prop where
  inv : Inv text s'
  adv : Adv pos rest s'.pos s'.rest

theorem Pre.mono {text : List CC} {s : St} {i j : Nat} (h : Pre text s i) (hij : i ≤ j) : Pre text s j :=
  ⟨fun t ht => ⟨(h.toks t ht).1, Nat.le_trans (h.toks t ht).2 hij⟩, h.sorted, h.errs, h.aux,
   fun od hod => ⟨(h.stack od hod).1, (h.stack od hod).2.1, Nat.le_trans (h.stack od hod).2.2 hij⟩,
   Nat.le_trans h.fso hij, h.bad, h.fuelOut⟩

/-- `Pre` does not look at `pos`, `rest`, `seen`, `fail`. -/
theorem Pre.congr {text : List CC} {s s' : St} {i : Nat} (h : Pre text s i)
    (h1 : s'.toks = s.toks) (h2 : s'.errs = s.errs) (h3 : s'.aux = s.aux) (h4 : s'.stack = s.stack)
    (h5 : s'.fso = s.fso) (h6 : s'.bad = s.bad) (h7 : s'.fuelOut = s.fuelOut) : Pre text s' i :=
  ⟨by rw [h1]; exact h.toks, by rw [h1]; exact h.sorted, by rw [h2]; exact h.errs, by rw [h3]; exact h.aux,
   by rw [h4]; exact h.stack, by rw [h5]; exact h.fso, by rw [h6]; exact h.bad, by rw [h7]; exact h.fuelOut⟩

theorem forall_mem_reverse_append {α : Type} {p : α → Prop} {l1 l2 : List α} (h1 : ∀ x ∈ l1, p x) (h2 : ∀ x ∈ l2, p x) :
    ∀ x ∈ l1.reverse ++ l2, p x := by
  intro x hx
  rcases List.mem_append.1 hx with h | h
  · exact h1 x (List.mem_reverse.1 h)
  · exact h2 x h

/-- Folding the result of a sub-lexer (token starting at `lo ≥ index`) into the state. -/
theorem absorb_post {text : List CC} {s : St} {index lo fromPos : Nat} {fromRest : List CC} {r : Sub}
    (hpre : Pre text s index) (hsuf : Suf text fromPos fromRest) (hsub : SubOK text lo fromPos fromRest r)
    (hlo : index ≤ lo) (hfrom : index ≤ fromPos) :
    Post text fromPos fromRest (s.absorb fromPos fromRest r) := by
  have hle := hsub.adv.le
  refine ⟨⟨hsuf.adv hsub.adv, ?_⟩, hsub.adv⟩
  refine ⟨?_, ?_, ?_, ?_, ?_, ?_, ?_, ?_⟩
  · show ∀ t ∈ r.toks.reverse ++ s.toks, _
    refine forall_mem_reverse_append ?_ ?_
    · intro t ht; exact ⟨(hsub.toks t ht).1, (hsub.toks t ht).2.2⟩
    · intro t ht; exact ⟨(hpre.toks t ht).1, by have := (hpre.toks t ht).2; show t.stop ≤ r.pos; omega⟩
  · show (r.toks.reverse ++ s.toks).Pairwise After
    rw [List.pairwise_append]
    refine ⟨?_, hpre.sorted, ?_⟩
    · rw [List.pairwise_reverse]; exact hsub.sorted
    · intro b hb a ha
      have h1 := (hsub.toks b (List.mem_reverse.1 hb)).2.1
      have h2 := (hpre.toks a ha).2
      show a.stop ≤ b.start
      omega
  · show ∀ e ∈ r.errs.reverse ++ s.errs, _
    exact forall_mem_reverse_append hsub.errs hpre.errs
  · show ∀ a ∈ r.aux.reverse ++ s.aux, _
    exact forall_mem_reverse_append hsub.aux hpre.aux
  · intro od hod
    have := hpre.stack od hod
    exact ⟨this.1, this.2.1, by show od.1 + 1 ≤ r.pos; omega⟩
  · have := hpre.fso; show s.fso ≤ r.pos; omega
  · show (s.bad || r.bad) = false; rw [hpre.bad, hsub.bad]; rfl
  · exact hpre.fuelOut

theorem absorbFuel_post {text : List CC} {s : St} {index lo fromPos : Nat} {fromRest : List CC} {r : Sub}
    (hpre : Pre text s index) (hsuf : Suf text fromPos fromRest) (hsub : SubOK text lo fromPos fromRest r)
    (hlo : index ≤ lo) (hfrom : index ≤ fromPos) (hfo : r.fuelOut = false) :
    Post text fromPos fromRest (s.absorbFuel fromPos fromRest r) := by
  have h := absorb_post hpre hsuf hsub hlo hfrom
  refine ⟨⟨h.inv.suf, ?_⟩, h.adv⟩
  have hp := h.inv.pre
  exact ⟨hp.toks, hp.sorted, hp.errs, hp.aux, hp.stack, hp.fso, hp.bad,
    by show (s.fuelOut || r.fuelOut) = false; rw [hpre.fuelOut, hfo]; rfl⟩

theorem openDelim?_u8len {c : Char} {d : Delim} (h : openDelim? c = some d) : u8len c = 1 := by
  unfold openDelim? at h
  by_cases c1 : c = '('
  · subst c1; decide
  · rw [if_neg c1] at h
    by_cases c2 : c = '{'
    · subst c2; decide
    · rw [if_neg c2] at h
      by_cases c3 : c = '['
      · subst c3; decide
      · rw [if_neg c3] at h; simp at h

theorem post_of {text : List CC} {s' : St} {pos : Nat} {rest : List CC}
    (hs : Suf text pos rest) (hp : s'.pos = pos) (hr : s'.rest = rest) (hpre : Pre text s' pos) : Post text pos rest s' :=
  ⟨⟨by rw [hp, hr]; exact hs, by rw [hp]; exact hpre⟩, by rw [hp, hr]; exact Adv.refl _ _⟩

theorem pairwise_cons_after {toks : List Token} {t : Token} {index : Nat}
    (hs : toks.Pairwise After) (hle : ∀ a ∈ toks, a.stop ≤ index) (ht : index ≤ t.start) : (t :: toks).Pairwise After := by
  rw [List.pairwise_cons]
  exact ⟨fun a ha => Nat.le_trans (hle a ha) ht, hs⟩

theorem stepOther_post {text : List CC} {s : St} {index pos fuel : Nat} {x : CC} {rest : List CC}
    (hpre : Pre text s index) (hsuf : Suf text index (x :: rest)) (hpos : pos = index + u8len x.c)
    (hfuel : rest.length < fuel) :
    Post text pos rest (stepOther text (blen text) fuel s index x pos rest) := by
  have hx := u8len_pos x.c
  have h1 : Suf text pos rest := by rw [hpos]; exact hsuf.cons
  have hi := hsuf.bd
  have hle : index ≤ pos := by omega
  have hpre' := hpre.mono hle
  have htoks : ∀ a ∈ s.toks, a.stop ≤ index := fun a ha => (hpre.toks a ha).2
  unfold stepOther
  cases hod : openDelim? x.c with
  | some d =>
    simp only []
    have h1len := openDelim?_u8len hod
    have e : index + 1 = pos := by omega
    refine post_of h1 rfl rfl ⟨?_, ?_, hpre.errs, hpre.aux, ?_, hpre'.fso, hpre.bad, hpre.fuelOut⟩
    · intro t ht
      simp only [List.mem_cons] at ht
      rcases ht with ht | ht
      · subst ht; exact ⟨⟨hi, by simp only []; rw [e]; exact h1.bd, by simp only []; omega⟩, by simp only []; omega⟩
      · exact hpre'.toks t ht
    · exact pairwise_cons_after hpre.sorted htoks (Nat.le_refl _)
    · intro od hod'
      simp only [List.mem_cons] at hod'
      rcases hod' with hod' | hod'
      · subst hod'; exact ⟨hi, by simp only []; rw [e]; exact h1.bd, by simp only []; omega⟩
      · exact hpre'.stack od hod'
  | none =>
    simp only []
    cases hcd : closeDelim? x.c with
    | some cd =>
      simp only []
      have herr : ∀ k, SpanOK text (LexErr.mk k index (index + u8len x.c)).start (LexErr.mk k index (index + u8len x.c)).stop :=
        fun k => ⟨hi, by simp only []; rw [← hpos]; exact h1.bd, by simp only []; omega⟩
      cases hst : s.stack with
      | nil =>
        simp only []
        refine post_of h1 rfl rfl ⟨hpre'.toks, hpre.sorted, ?_, hpre.aux, ?_, hpre'.fso, hpre.bad, hpre.fuelOut⟩
        · intro e he
          simp only [List.mem_cons] at he
          rcases he with he | he
          · subst he; exact herr _
          · exact hpre.errs e he
        · intro od hod'; simp at hod'
      | cons top st =>
        obtain ⟨openIndex, od⟩ := top
        simp only []
        have hop := hpre.stack (openIndex, od) (by rw [hst]; simp)
        simp only [] at hop
        refine post_of h1 rfl rfl ⟨?_, ?_, ?_, ?_, ?_, hpre'.fso, hpre.bad, hpre.fuelOut⟩
        · intro t ht
          simp only [List.mem_cons] at ht
          rcases ht with ht | ht
          · subst ht
            simp only [peekPos_eq h1]
            exact ⟨⟨hi, h1.bd, hle⟩, Nat.le_refl _⟩
          · exact hpre'.toks t ht
        · exact pairwise_cons_after hpre.sorted htoks (Nat.le_refl _)
        · intro e he
          split at he
          · simp only [List.mem_cons] at he
            rcases he with he | he
            · subst he; exact herr _
            · exact hpre.errs e he
          · exact hpre.errs e he
        · intro a ha
          simp only [List.mem_cons] at ha
          rcases ha with ha | ha | ha
          · subst ha; simp only [peekPos_eq h1]; exact ⟨hop.1, h1.bd, by omega⟩
          · subst ha; exact ⟨hop.2.1, hi, hop.2.2⟩
          · exact hpre.aux a ha
        · intro od' hod'
          exact hpre'.stack od' (by rw [hst]; exact List.mem_cons_of_mem _ hod')
    | none =>
      simp only []
      by_cases c1 : x.c = '"'
      · rw [if_pos c1]
        have := lexString_spec (text := text) (index := index) (fuel := fuel) h1 hi (by omega) hfuel
        exact absorbFuel_post hpre h1 this.1 (Nat.le_refl _) hle this.2
      rw [if_neg c1]
      by_cases c2 : x.c = '\''
      · rw [if_pos c2]
        exact absorb_post hpre h1 (lexChar_spec h1 hi (by omega)) (Nat.le_refl _) hle
      rw [if_neg c2]
      cases hdig : toDigit x.c 10 with
      | some d =>
        simp only []
        exact absorb_post hpre h1 (lexInt_spec d h1 hi hle) (Nat.le_refl _) hle
      | none =>
        simp only []
        by_cases c3 : isPunct x.c = true
        · rw [if_pos c3]
          refine post_of h1 rfl rfl ⟨?_, ?_, hpre.errs, hpre.aux, hpre'.stack, hpre'.fso, hpre.bad, hpre.fuelOut⟩
          · intro t ht
            simp only [List.mem_cons] at ht
            rcases ht with ht | ht
            · subst ht
              simp only [peekPos_eq h1]
              exact ⟨⟨hi, h1.bd, hle⟩, Nat.le_refl _⟩
            · exact hpre'.toks t ht
          · exact pairwise_cons_after hpre.sorted htoks (Nat.le_refl _)
        · rw [if_neg c3]
          refine post_of h1 rfl rfl ⟨hpre'.toks, hpre.sorted, ?_, hpre.aux, hpre'.stack, hpre'.fso, hpre.bad, hpre.fuelOut⟩
          intro e he
          simp only [List.mem_cons] at he
          rcases he with he | he
          · subst he; exact ⟨hi, by simp only []; rw [← hpos]; exact h1.bd, by simp only []; omega⟩
          · exact hpre.errs e he

theorem Post.mono {text : List CC} {pos p' : Nat} {rest r' : List CC} {s' : St}
    (a : Adv pos rest p' r') (h : Post text p' r' s') : Post text pos rest s' :=
  ⟨h.inv, a.trans h.adv⟩

theorem identTail_post {text : List CC} {s : St} {i0 index pos fuel : Nat} {x : CC} {rest : List CC} (raw : Bool)
    (hpre : Pre text s i0) (hi0 : i0 ≤ index) (hi : Bd text index) (hlt : index < pos) (hsuf : Suf text pos rest)
    (hfuel : rest.length < fuel) (hund : x.c = '_' → Suf text index (x :: rest) ∧ pos = index + u8len x.c) :
    Post text pos rest (identTail text (blen text) fuel s raw index x pos rest) := by
  unfold identTail
  by_cases hc : notSingleUnderscore x rest = true
  · rw [if_pos hc]
    have sk := skipWhile_adv (fun c => c.xc) rest pos
    generalize skipWhile (fun c => c.xc) rest pos = res at sk
    obtain ⟨p2, r2⟩ := res
    simp only [] at sk ⊢
    have h2 := hsuf.adv sk
    have hle2 := sk.le
    have hpre2 := hpre.mono (j := p2) (by omega)
    refine ⟨⟨h2, ?_⟩, sk⟩
    refine ⟨?_, ?_, hpre.errs, hpre.aux, hpre2.stack, hpre2.fso, hpre.bad, hpre.fuelOut⟩
    · intro t ht
      simp only [List.mem_cons] at ht
      rcases ht with ht | ht
      · subst ht
        simp only [peekPos_eq h2]
        exact ⟨⟨hi, h2.bd, by omega⟩, Nat.le_refl _⟩
      · exact hpre2.toks t ht
    · exact pairwise_cons_after hpre.sorted (fun a ha => (hpre.toks a ha).2) hi0
  · rw [if_neg hc]
    have hx : x.c = '_' := by
      by_cases hx : x.c = '_'
      · exact hx
      · exfalso; apply hc; simp [notSingleUnderscore, hx]
    obtain ⟨hs, hp⟩ := hund hx
    exact stepOther_post (hpre.mono hi0) hs hp hfuel

theorem isRawPrefix_r {x : CC} {rest : List CC} (h : isRawPrefix x rest = true) : x.c ≠ '_' := by
  unfold isRawPrefix at h
  simp only [Bool.and_eq_true, decide_eq_true_eq] at h
  rw [h.1]; decide

theorem stepIdent_post {text : List CC} {s : St} {index pos fuel : Nat} {x : CC} {rest : List CC}
    (hpre : Pre text s index) (hsuf : Suf text index (x :: rest)) (hpos : pos = index + u8len x.c)
    (hfuel : rest.length < fuel) :
    Post text pos rest (stepIdent text (blen text) fuel s index x pos rest) := by
  have hx := u8len_pos x.c
  have h1 : Suf text pos rest := by rw [hpos]; exact hsuf.cons
  have hi := hsuf.bd
  unfold stepIdent
  split
  · split
    · rename_i hraw
      have hnu := isRawPrefix_r hraw
      cases rest with
      | nil => exact identTail_post true hpre (Nat.le_refl _) hi (by omega) h1 hfuel (fun e => absurd e hnu)
      | cons h r1 =>
        have hh := u8len_pos h.c
        have h2 := h1.cons
        simp only [List.length_cons] at hfuel
        cases r1 with
        | nil =>
          simp only []
          refine Post.mono (Adv.cons _ _ _) (identTail_post true (s := { s with seen := h :: s.seen }) ?_ (Nat.le_refl _) hi (by omega) h2 (by simp; omega)
            (fun e => absurd e hnu))
          exact hpre.congr rfl rfl rfl rfl rfl rfl rfl
        | cons y r2 =>
          have hy := u8len_pos y.c
          have h3 := h2.cons
          simp only [List.length_cons] at hfuel
          have hpre' : Pre text { s with seen := y :: h :: s.seen } index := hpre.congr rfl rfl rfl rfl rfl rfl rfl
          simp only []
          split
          · exact Post.mono (Adv.cons2 _ _ _ _) (identTail_post true hpre' (by omega) h2.bd (by omega) h3 (by omega)
              (fun _ => ⟨h2, rfl⟩))
          · refine Post.mono (Adv.cons2 _ _ _ _) (post_of h3 rfl rfl ?_)
            have hm := hpre.mono (j := pos + u8len h.c + u8len y.c) (by omega)
            refine ⟨hm.toks, hm.sorted, ?_, hm.aux, hm.stack, hm.fso, hm.bad, hm.fuelOut⟩
            intro e he
            simp only [List.mem_cons] at he
            rcases he with he | he
            · subst he; exact ⟨h2.bd, h3.bd, by simp only []; omega⟩
            · exact hpre.errs e he
    · exact identTail_post false hpre (Nat.le_refl _) hi (by omega) h1 hfuel (fun _ => ⟨hsuf, hpos⟩)
  · exact stepOther_post hpre hsuf hpos hfuel

theorem stepWs_post {text : List CC} {s : St} {x : CC} {rest : List CC}
    (hinv : Inv text s) (hr : s.rest = x :: rest) :
    Post text (s.pos + u8len x.c) rest (stepWs s x rest) := by
  have hx := u8len_pos x.c
  have hs : Suf text s.pos (x :: rest) := by rw [← hr]; exact hinv.suf
  have hm := hinv.pre.mono (j := s.pos + u8len x.c) (by omega)
  refine post_of hs.cons rfl rfl ⟨hm.toks, hm.sorted, hm.errs, hm.aux, hm.stack, ?_, ?_, hm.fuelOut⟩
  · show (if s.pos - s.fso = 0 then s.fso + u8len x.c else s.fso) ≤ s.pos + u8len x.c
    have := hinv.pre.fso
    split <;> omega
  · show (s.bad || decide (s.pos < s.fso)) = false
    have := hinv.pre.fso
    rw [hinv.pre.bad]
    simp; omega

theorem searchEnd_ok {text : List CC} {s : St} {index : Nat} (hpre : Pre text s index) (hi : Bd text index) :
    SpanOK text (searchEnd s.toks) index := by
  unfold searchEnd
  cases ht : s.toks with
  | nil => exact ⟨Bd.zero _, hi, Nat.zero_le _⟩
  | cons t ts =>
    have := hpre.toks t (by rw [ht]; simp)
    simp only []
    split
    · exact ⟨Bd.zero _, hi, Nat.zero_le _⟩
    · exact ⟨Bd.zero _, hi, Nat.zero_le _⟩
    · exact ⟨this.1.2.1, hi, this.2⟩

theorem stepLineComment_post {text : List CC} {s : St} {x y : CC} {rest : List CC}
    (hinv : Inv text s) (hr : s.rest = x :: y :: rest) (hx : x.c = '/') (hy : y.c = '/') :
    Post text (s.pos + u8len x.c) (y :: rest) (stepLineComment (blen text) s x (y :: rest)) := by
  have hx1 : u8len x.c = 1 := by rw [hx]; exact u8len_slash
  have hs : Suf text s.pos (x :: y :: rest) := by rw [← hr]; exact hinv.suf
  have hse := searchEnd_ok hinv.pre hs.bd
  unfold stepLineComment
  refine absorb_post (index := s.pos) (lo := s.pos) ?_ hs.cons
    (lexLineComment_spec (lineCommentKind s) hs.cons hs.bd (by omega) hy) (Nat.le_refl _) (by omega)
  have hp := hinv.pre
  refine ⟨hp.toks, hp.sorted, hp.errs, ?_, hp.stack, hp.fso, hp.bad, hp.fuelOut⟩
  intro a ha
  simp only [List.mem_cons] at ha
  rcases ha with ha | ha
  · subst ha; exact hse
  · exact hp.aux a ha

theorem stepBlockComment_post {text : List CC} {s : St} {x y : CC} {rest : List CC}
    (hinv : Inv text s) (hr : s.rest = x :: y :: rest) :
    Post text (s.pos + u8len x.c) (y :: rest) (stepBlockComment text (blen text) s x (y :: rest)) := by
  have hx := u8len_pos x.c
  have hs : Suf text s.pos (x :: y :: rest) := by rw [← hr]; exact hinv.suf
  unfold stepBlockComment
  refine absorb_post (index := s.pos) (lo := s.pos) ?_ hs.cons
    (lexBlockComment_spec hs.cons hs.bd (by omega)) (Nat.le_refl _) (by omega)
  exact hinv.pre.congr rfl rfl rfl rfl rfl rfl rfl

theorem stepToken_post {text : List CC} {s : St} {x : CC} {rest : List CC} {fuel : Nat}
    (hinv : Inv text s) (hr : s.rest = x :: rest) (hfuel : rest.length < fuel) :
    Post text (s.pos + u8len x.c) rest (stepToken text (blen text) fuel s x rest) := by
  have hs : Suf text s.pos (x :: rest) := by rw [← hr]; exact hinv.suf
  unfold stepToken
  exact stepIdent_post (hinv.pre.congr rfl rfl rfl rfl rfl rfl rfl) hs rfl hfuel

theorem step_post {text : List CC} {s : St} {x : CC} {rest : List CC} {fuel : Nat}
    (hinv : Inv text s) (hr : s.rest = x :: rest) (hfuel : rest.length < fuel) :
    Post text (s.pos + u8len x.c) rest (step text (blen text) fuel s x rest) := by
  unfold step
  by_cases c1 : x.ws = true
  · rw [if_pos c1]; exact stepWs_post hinv hr
  rw [if_neg c1]
  by_cases c2 : x.c = '/'
  · rw [if_pos c2]
    cases rest with
    | nil => exact stepToken_post hinv hr hfuel
    | cons y r =>
      simp only []
      by_cases c3 : y.c = '/'
      · rw [if_pos c3]; exact stepLineComment_post hinv hr c2 c3
      rw [if_neg c3]
      by_cases c4 : y.c = '*'
      · rw [if_pos c4]; exact stepBlockComment_post hinv hr
      · rw [if_neg c4]; exact stepToken_post hinv hr hfuel
  · rw [if_neg c2]; exact stepToken_post hinv hr hfuel

/-- The main loop keeps the invariant; in particular it never runs out of fuel when `rest.length < fuel`. -/
theorem mainLoop_inv {text : List CC} (fuel : Nat) (s : St) (hinv : Inv text s) (hfuel : s.rest.length < fuel) :
    Inv text (mainLoop text (blen text) fuel s) := by
  induction fuel generalizing s with
  | zero => omega
  | succ fuel ih =>
    unfold mainLoop
    cases hr : s.rest with
    | nil => simp only []; exact hinv
    | cons x r =>
      simp only []
      rw [hr] at hfuel
      simp only [List.length_cons] at hfuel
      have hp := step_post (fuel := fuel) hinv hr (by omega)
      split
      · exact hp.inv
      · exact ih _ hp.inv (by have := hp.adv.length_le; omega)

theorem closeAll_pre {text : List CC} (stk : List (Nat × Delim)) (s : St)
    (hpre : Pre text s (blen text))
    (hstk : ∀ od ∈ stk, Bd text od.1 ∧ Bd text (od.1 + 1) ∧ od.1 + 1 ≤ blen text) :
    Pre text (closeAll (blen text) stk s) (blen text) := by
  induction stk generalizing s with
  | nil => exact hpre
  | cons top st ih =>
    obtain ⟨openIndex, d⟩ := top
    unfold closeAll
    have hop := hstk (openIndex, d) (by simp)
    simp only [] at hop
    apply ih
    · refine ⟨?_, ?_, ?_, ?_, ?_, hpre.fso, hpre.bad, hpre.fuelOut⟩
      · intro t ht
        simp only [List.mem_cons] at ht
        rcases ht with ht | ht
        · subst ht; exact ⟨⟨Bd.len _, Bd.len _, Nat.le_refl _⟩, Nat.le_refl _⟩
        · exact hpre.toks t ht
      · exact pairwise_cons_after hpre.sorted (fun a ha => (hpre.toks a ha).2) (Nat.le_refl _)
      · intro e he
        simp only [List.mem_cons] at he
        rcases he with he | he
        · subst he; exact ⟨hop.1, hop.2.1, by simp only []; omega⟩
        · exact hpre.errs e he
      · intro a ha
        simp only [List.mem_cons] at ha
        rcases ha with ha | ha | ha
        · subst ha; exact ⟨hop.1, Bd.len _, by simp only []; omega⟩
        · subst ha; exact ⟨hop.2.1, Bd.len _, hop.2.2⟩
        · exact hpre.aux a ha
      · intro od hod; exact hstk od (List.mem_cons_of_mem _ hod)
    · intro od hod; exact hstk od (List.mem_cons_of_mem _ hod)

/-- Validity of everything `lexRaw` records. -/
structure RawOK (text : List CC) (r : Raw) : Prop where
  fuelOut : r.fuelOut = false
  bad : r.bad = false
  toks : ∀ t ∈ r.toks, SpanOK text t.start t.stop
  sorted : r.toks.Pairwise (fun a b => a.stop ≤ b.start)
  errs : ∀ e ∈ r.errs, SpanOK text e.start e.stop
  aux : ∀ a ∈ r.aux, SpanOK text a.1 a.2

theorem pre_rawOK {text : List CC} {s : St} {i : Nat} (hpre : Pre text s i) (extra : List (Nat × Nat))
    (hextra : ∀ a ∈ extra, SpanOK text a.1 a.2) (fail : Bool) :
    RawOK text { toks := s.toks.reverse, errs := s.errs.reverse, aux := (extra ++ s.aux).reverse, fail := fail, bad := s.bad, fuelOut := s.fuelOut } := by
  refine ⟨hpre.fuelOut, hpre.bad, ?_, ?_, ?_, ?_⟩
  · intro t ht; exact (hpre.toks t (List.mem_reverse.1 ht)).1
  · show s.toks.reverse.Pairwise _
    rw [List.pairwise_reverse]; exact hpre.sorted
  · intro e he; exact hpre.errs e (List.mem_reverse.1 he)
  · intro a ha
    have := List.mem_reverse.1 ha
    rcases List.mem_append.1 this with h | h
    · exact hextra a h
    · exact hpre.aux a h

theorem lexRaw_ok (text : List CC) : RawOK text (lexRaw text) := by
  have hinit : Inv text { pos := 0, rest := text } :=
    ⟨Suf.init text, by simp, by simp, by simp, by simp, by simp, Nat.le_refl _, rfl, rfl⟩
  have hinv := mainLoop_inv (text := text) (text.length + 1) { pos := 0, rest := text } hinit (by simp)
  unfold lexRaw
  simp only []
  generalize mainLoop text (blen text) (text.length + 1) { pos := 0, rest := text } = s at hinv
  split
  · have := pre_rawOK hinv.pre [] (by simp) s.fail
    simpa using this
  · rename_i hflags
    have hm := hinv.pre.mono hinv.suf.le
    have hc := closeAll_pre s.stack s hm hm.stack
    have := pre_rawOK hc [(0, blen text)] (by intro a ha; simp at ha; subst ha; exact ⟨Bd.zero _, Bd.len _, Nat.zero_le _⟩) false
    rw [hc.bad, hc.fuelOut] at this
    simpa using this

end SwayVerif.Lexer
