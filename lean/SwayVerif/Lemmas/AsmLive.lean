import SwayVerif.Model.Asm
/-!
Lemmas about the liveness model (`SwayVerif.Asm.liveness`): a pass that reports "not modified"
leaves the tables unchanged and the tables then solve the dataflow inequations.
-/
namespace SwayVerif.Asm

/-! ### sets as duplicate-free lists -/

theorem mem_ins {s : RSet} {r x : Reg} : x ∈ ins s r ↔ x ∈ s ∨ x = r := by
  unfold ins
  split
  · constructor
    · exact Or.inl
    · rintro (h | h)
      · exact h
      · subst h; assumption
  · simp

theorem mem_foldl_ins {rs : List Reg} {s : RSet} {x : Reg} :
    x ∈ rs.foldl ins s ↔ x ∈ s ∨ x ∈ rs := by
  induction rs generalizing s with
  | nil => simp
  | cons r rs ih =>
    simp only [List.foldl_cons, ih, mem_ins, List.mem_cons]
    constructor
    · rintro ((h | h) | h)
      · exact Or.inl h
      · exact Or.inr (Or.inl h)
      · exact Or.inr (Or.inr h)
    · rintro (h | h | h)
      · exact Or.inl (Or.inl h)
      · exact Or.inl (Or.inr h)
      · exact Or.inr h

theorem foldl_ins_eq_self {rs : List Reg} {s : RSet} (h : ∀ r ∈ rs, r ∈ s) : rs.foldl ins s = s := by
  induction rs generalizing s with
  | nil => rfl
  | cons r rs ih =>
    have hr : r ∈ s := h r (List.mem_cons_self ..)
    have : ins s r = s := by unfold ins; simp [hr]
    simp only [List.foldl_cons, this]
    exact ih fun x hx => h x (List.mem_cons_of_mem _ hx)

theorem insAll_fst_mem {s : RSet} {rs : List Reg} {x : Reg} :
    x ∈ (insAll s rs).1 ↔ x ∈ s ∨ x ∈ rs := mem_foldl_ins

theorem insAll_unchanged {s : RSet} {rs : List Reg} (h : (insAll s rs).2 = false) :
    (∀ r ∈ rs, r ∈ s) ∧ (insAll s rs).1 = s := by
  have hall : ∀ r ∈ rs, r ∈ s := by
    simp only [insAll, Bool.not_eq_false', List.all_eq_true, decide_eq_true_eq] at h
    exact h
  exact ⟨hall, foldl_ins_eq_self hall⟩

theorem set_getD_self {α : Type} (l : List α) (i : Nat) (d : α) : l.set i (l.getD i d) = l := by
  induction l generalizing i with
  | nil => rfl
  | cons a l ih =>
    cases i with
    | zero => rfl
    | succ i => simp only [List.set_cons_succ, List.getD_cons_succ, ih]

/-! ### the dataflow inequations -/

/-- The inequations at op `i`: `use ⊆ in`, `out \ def ⊆ in`, `in(s) ⊆ out` for each successor. -/
def SolvedAt (ic : Bool) (li lo : List RSet) (i : Nat) (op : AOp) : Prop :=
  (∀ r ∈ op.uses, keepReg ic r = true → r ∈ li.getD i []) ∧
  (∀ r ∈ lo.getD i [], r ∉ op.defs → r ∈ li.getD i []) ∧
  (∀ s ∈ op.succ, ∀ r ∈ li.getD s [], r ∈ lo.getD i [])

/-- `li`, `lo` solve the liveness inequations of `ops`. -/
def Solution (ic : Bool) (ops : List AOp) (li lo : List RSet) : Prop :=
  ∀ i op, ops[i]? = some op → SolvedAt ic li lo i op

theorem solvedAt_iff {ic li lo i op} : solvedAt ic li lo i op = true ↔ SolvedAt ic li lo i op := by
  unfold solvedAt SolvedAt
  simp only [Bool.and_eq_true, List.all_eq_true, Bool.or_eq_true, Bool.not_eq_true',
    decide_eq_true_eq]
  constructor
  · rintro ⟨⟨h1, h2⟩, h3⟩
    refine ⟨fun r hr hk => ?_, fun r hr hd => ?_, h3⟩
    · rcases h1 r hr with h | h
      · rw [hk] at h; cases h
      · exact h
    · rcases h2 r hr with h | h
      · exact absurd h hd
      · exact h
  · rintro ⟨h1, h2, h3⟩
    refine ⟨⟨fun r hr => ?_, fun r hr => ?_⟩, h3⟩
    · cases hk : keepReg ic r
      · exact Or.inl rfl
      · exact Or.inr (h1 r hr hk)
    · by_cases hd : r ∈ op.defs
      · exact Or.inl hd
      · exact Or.inr (h2 r hr hd)

theorem mem_indexed {ops : List AOp} {k : Nat} {op : AOp} {i : Nat} :
    (op, i) ∈ indexed ops k ↔ k ≤ i ∧ ops[i - k]? = some op := by
  induction ops generalizing k with
  | nil => simp [indexed]
  | cons a ops ih =>
    simp only [indexed, List.mem_cons, Prod.mk.injEq, ih]
    constructor
    · rintro (⟨rfl, rfl⟩ | ⟨h1, h2⟩)
      · simp
      · refine ⟨by omega, ?_⟩
        have : i - k = (i - (k + 1)) + 1 := by omega
        rw [this]; simpa using h2
    · rintro ⟨h1, h2⟩
      by_cases hik : i = k
      · subst hik
        left
        simp at h2
        exact ⟨h2.symm, rfl⟩
      · right
        refine ⟨by omega, ?_⟩
        have : i - k = (i - (k + 1)) + 1 := by omega
        rw [this] at h2; simpa using h2

theorem isSolution_iff {ic ops li lo} : isSolution ic ops li lo = true ↔ Solution ic ops li lo := by
  unfold isSolution Solution
  simp only [List.all_eq_true, solvedAt_iff]
  constructor
  · intro h i op hi
    exact h (op, i) (mem_indexed.2 ⟨Nat.zero_le _, by simpa using hi⟩)
  · rintro h ⟨op, i⟩ hx
    exact h i op (by simpa using (mem_indexed.1 hx).2)

/-! ### an unmodified pass is a fixpoint and a solution -/

theorem stepAt_unchanged {ic st i op} (h : (stepAt ic st i op).2 = false) :
    (stepAt ic st i op).1 = st ∧ SolvedAt ic st.liveIn st.liveOut i op := by
  simp only [stepAt, Bool.or_eq_false_iff] at h
  obtain ⟨h1, h2⟩ := h
  obtain ⟨a1, e1⟩ := insAll_unchanged h1
  rw [e1] at h2
  obtain ⟨a2, e2⟩ := insAll_unchanged h2
  constructor
  · simp only [stepAt, e1, e2, set_getD_self]
  · refine ⟨fun r hr hk => ?_, fun r hr hd => ?_, fun s hs r hr => ?_⟩
    · exact a2 r (List.mem_append_left _ (List.mem_filter.2 ⟨hr, hk⟩))
    · refine a2 r (List.mem_append_right _ (List.mem_filter.2 ⟨hr, ?_⟩))
      simp only [Bool.not_eq_true', decide_eq_false_iff_not, List.mem_filter, not_and]
      exact fun hd' => absurd hd' hd
    · exact a1 r (List.mem_flatMap.2 ⟨s, hs, hr⟩)

theorem foldl_passStep_unchanged {ic} (xs : List (AOp × Nat)) (st st' : LState) (m : Bool)
    (h : xs.foldl (passStep ic) (st, m) = (st', false)) :
    m = false ∧ st' = st ∧ ∀ x ∈ xs, SolvedAt ic st.liveIn st.liveOut x.2 x.1 := by
  induction xs generalizing st m with
  | nil =>
    simp only [List.foldl_nil, Prod.mk.injEq] at h
    exact ⟨h.2, h.1.symm, by simp⟩
  | cons x xs ih =>
    simp only [List.foldl_cons, passStep] at h
    obtain ⟨hm, hst, hall⟩ := ih _ _ h
    simp only [Bool.or_eq_false_iff] at hm
    obtain ⟨e, hs⟩ := stepAt_unchanged hm.2
    rw [e] at hst hall
    refine ⟨hm.1, hst, fun y hy => ?_⟩
    rcases List.mem_cons.1 hy with rfl | hy
    · exact hs
    · exact hall y hy

theorem pass_unchanged {ic ops st} (h : (pass ic ops st).2 = false) :
    (pass ic ops st).1 = st ∧ Solution ic ops st.liveIn st.liveOut := by
  have hp : (indexed ops 0).reverse.foldl (passStep ic) (st, false) = ((pass ic ops st).1, false) := by
    have e : pass ic ops st = ((pass ic ops st).1, (pass ic ops st).2) := rfl
    rw [h] at e; exact e
  obtain ⟨_, hst, hall⟩ := foldl_passStep_unchanged _ _ _ _ hp
  refine ⟨hst, fun i op hi => ?_⟩
  exact hall (op, i) (List.mem_reverse.2 (mem_indexed.2 ⟨Nat.zero_le _, by simpa using hi⟩))

theorem liveLoop_solution {ic ops fuel st r} (h : liveLoop ic ops fuel st = some r) :
    Solution ic ops r.liveIn r.liveOut := by
  induction fuel generalizing st with
  | zero => simp [liveLoop] at h
  | succ f ih =>
    simp only [liveLoop] at h
    split at h
    · exact ih h
    · rename_i hm
      simp only [Bool.not_eq_true] at hm
      obtain ⟨e, hs⟩ := pass_unchanged hm
      simp only [Option.some.injEq] at h
      rw [← h, e]; exact hs

/-! ### soundness along paths -/

/-- On some path starting with the execution of op `i`, register `r` is read before it is
redefined. -/
inductive ReadBeforeDef (ops : List AOp) (r : Reg) : Nat → Prop
  | here {i op} : ops[i]? = some op → r ∈ op.uses → ReadBeforeDef ops r i
  | step {i op s} : ops[i]? = some op → r ∉ op.defs → s ∈ op.succ → ReadBeforeDef ops r s →
      ReadBeforeDef ops r i

theorem solution_liveIn_of_read {ic ops li lo r i} (hs : Solution ic ops li lo)
    (hk : keepReg ic r = true) (h : ReadBeforeDef ops r i) : r ∈ li.getD i [] := by
  induction h with
  | here ho hu => exact (hs _ _ ho).1 r hu hk
  | step ho hd hsucc _ ih => exact (hs _ _ ho).2.1 r ((hs _ _ ho).2.2 _ hsucc r ih) hd

end SwayVerif.Asm
