import SwayVerif.Model.MiniIR
/-!
Simulation lemmas for the three modelled MiniIR transformations (property C03).
Core Lean only.
-/
namespace SwayVerif.MiniIR

/-! ## generic -/

theorem findBlock_some {bs : List Block} {l : Label} {b : Block} (h : findBlock bs l = some b) :
    b ∈ bs ∧ b.label = l := by
  induction bs with
  | nil => simp [findBlock] at h
  | cons c cs ih =>
    unfold findBlock at h
    by_cases hc : c.label = l
    · simp [hc] at h
      subst h
      exact ⟨List.mem_cons_self, hc⟩
    · simp [hc] at h
      exact ⟨List.mem_cons_of_mem _ (ih h).1, (ih h).2⟩

theorem findBlock_map (g : Block → Block) (hg : ∀ b, (g b).label = b.label) (bs : List Block) (l : Label) :
    findBlock (bs.map g) l = (findBlock bs l).map g := by
  induction bs with
  | nil => rfl
  | cons c cs ih =>
    simp only [List.map, findBlock, hg]
    by_cases hc : c.label = l
    · simp [hc]
    · simp [hc, ih]

theorem stepTerm_jump_succ {e : Env} {t : Term} {l : Label} {vs : List Val}
    (h : stepTerm e t = .jump l vs) : l ∈ t.succs := by
  cases t with
  | br l' args =>
    simp only [stepTerm] at h
    split at h
    · cases h; simp [Term.succs]
    · cases h
  | cbr c lt ta lf fa =>
    simp only [stepTerm] at h
    split at h
    · split at h
      · cases h; simp [Term.succs]
      · cases h
    · split at h
      · cases h; simp [Term.succs]
      · cases h
    · cases h
  | ret v =>
    simp only [stepTerm] at h
    split at h <;> cases h

/-! ## (i) removing blocks outside a successor-closed set -/

theorem findBlock_filter (keep : Label → Bool) (bs : List Block) (l : Label) (h : keep l = true) :
    findBlock (bs.filter fun b => keep b.label) l = findBlock bs l := by
  induction bs with
  | nil => rfl
  | cons c cs ih =>
    by_cases hc : c.label = l
    · subst hc
      simp [List.filter, h, findBlock]
    · cases hk : keep c.label
      · simp [List.filter, hk, findBlock, hc, ih]
      · simp [List.filter, hk, findBlock, hc, ih]

theorem closedB_succ {keep : Label → Bool} {f : Func} (hc : closedB keep f = true)
    {b : Block} (hb : b ∈ f.blocks) (hk : keep b.label = true) {l : Label} (hl : l ∈ b.term.succs) :
    keep l = true := by
  unfold closedB at hc
  rw [List.all_eq_true] at hc
  have h1 := hc b hb
  simp only [hk, Bool.not_true, Bool.false_or, List.all_eq_true] at h1
  exact h1 l hl

theorem runFrom_filter (keep : Label → Bool) (f : Func) (hc : closedB keep f = true) :
    ∀ (n : Nat) (e : Env) (l : Label) (vals : List Val), keep l = true →
      runFrom (filterBlocks keep f) n e l vals = runFrom f n e l vals := by
  intro n
  induction n with
  | zero => intro e l vals _; rfl
  | succ n ih =>
    intro e l vals hk
    simp only [runFrom, filterBlocks]
    rw [findBlock_filter keep f.blocks l hk]
    cases hfb : findBlock f.blocks l with
    | none => rfl
    | some b =>
      simp only []
      have ⟨hbm, hbl⟩ := findBlock_some hfb
      cases hbp : bindParams e b.params vals with
      | none => rfl
      | some e1 =>
        simp only []
        cases hex : execInsts e1 b.insts with
        | trap => rfl
        | stuck => rfl
        | ok e2 =>
          simp only []
          cases hst : stepTerm e2 b.term with
          | stuck => rfl
          | done v => rfl
          | jump l' vals' =>
            simp only []
            have hk' : keep l' = true :=
              closedB_succ hc hbm (by rw [hbl]; exact hk) (stepTerm_jump_succ hst)
            exact ih e2 l' vals' hk'

/-! ## (iii) `cbr` on a constant -/

theorem stepTerm_foldCbrTerm (e : Env) (t : Term) : stepTerm e (foldCbrTerm t) = stepTerm e t := by
  cases t with
  | br l args => rfl
  | ret v => rfl
  | cbr c lt ta lf fa =>
    cases c with
    | var x => rfl
    | const v =>
      cases v with
      | u n => rfl
      | b v => cases v <;> simp [foldCbrTerm, stepTerm, evalOp]

theorem runFrom_foldCbr (f : Func) :
    ∀ (n : Nat) (e : Env) (l : Label) (vals : List Val),
      runFrom (foldCbr f) n e l vals = runFrom f n e l vals := by
  intro n
  induction n with
  | zero => intro e l vals; rfl
  | succ n ih =>
    intro e l vals
    simp only [runFrom, foldCbr]
    rw [findBlock_map (fun b => { b with term := foldCbrTerm b.term }) (fun _ => rfl)]
    cases hfb : findBlock f.blocks l with
    | none => rfl
    | some b =>
      simp only [Option.map]
      cases hbp : bindParams e b.params vals with
      | none => rfl
      | some e1 =>
        simp only []
        cases hex : execInsts e1 b.insts with
        | trap => rfl
        | stuck => rfl
        | ok e2 =>
          simp only [stepTerm_foldCbrTerm]
          cases hst : stepTerm e2 b.term with
          | stuck => rfl
          | done v => rfl
          | jump l' vals' => exact ih e2 l' vals'

/-! ## (ii) DCE -/

/-- The two environments agree on every variable of `U`. -/
def Agree (U : List Var) (e1 e2 : Env) : Prop := ∀ x, x ∈ U → e1 x = e2 x

theorem Agree.set {U : List Var} {e1 e2 : Env} (h : Agree U e1 e2) (x : Var) (v : Val) :
    Agree U (e1.set x v) (e2.set x v) := by
  intro y hy
  simp only [Env.set]
  by_cases hyx : y = x
  · simp [hyx]
  · simp [hyx, h y hy]

theorem Agree.set_left {U : List Var} {e1 e2 : Env} (h : Agree U e1 e2) {x : Var} (hx : x ∉ U) (v : Val) :
    Agree U (e1.set x v) e2 := by
  intro y hy
  simp only [Env.set]
  by_cases hyx : y = x
  · subst hyx; exact absurd hy hx
  · simp [hyx, h y hy]

theorem evalOp_agree {U : List Var} {e1 e2 : Env} (h : Agree U e1 e2) (o : Operand)
    (ho : ∀ x, x ∈ o.vars → x ∈ U) : evalOp e1 o = evalOp e2 o := by
  cases o with
  | var x => exact h x (ho x (by simp [Operand.vars]))
  | const v => rfl

theorem evalOps_agree {U : List Var} {e1 e2 : Env} (h : Agree U e1 e2) (os : List Operand)
    (ho : ∀ x, x ∈ os.flatMap Operand.vars → x ∈ U) : evalOps e1 os = evalOps e2 os := by
  induction os with
  | nil => rfl
  | cons o os ih =>
    have h1 : evalOp e1 o = evalOp e2 o :=
      evalOp_agree h o (fun x hx => ho x (by simp [List.flatMap_cons]; exact Or.inl hx))
    have h2 : evalOps e1 os = evalOps e2 os :=
      ih (fun x hx => ho x (by simp only [List.flatMap_cons, List.mem_append]; exact Or.inr hx))
    simp only [evalOps, h1, h2]

theorem stepTerm_agree {U : List Var} {e1 e2 : Env} (h : Agree U e1 e2) (t : Term)
    (ht : ∀ x, x ∈ t.uses → x ∈ U) : stepTerm e1 t = stepTerm e2 t := by
  cases t with
  | br l args =>
    simp only [stepTerm, evalOps_agree h args (fun x hx => ht x (by simpa [Term.uses] using hx))]
  | ret v =>
    simp only [stepTerm, evalOp_agree h v (fun x hx => ht x (by simpa [Term.uses] using hx))]
  | cbr c lt ta lf fa =>
    have hc := evalOp_agree h c (fun x hx => ht x (by simp only [Term.uses, List.mem_append]; exact Or.inl (Or.inl hx)))
    have hta := evalOps_agree h ta (fun x hx => ht x (by simp only [Term.uses, List.mem_append]; exact Or.inl (Or.inr hx)))
    have hfa := evalOps_agree h fa (fun x hx => ht x (by simp only [Term.uses, List.mem_append]; exact Or.inr hx))
    simp only [stepTerm, hc, hta, hfa]

/-- Relation between the results of one instruction executed in two agreeing environments. -/
def StepRel (U : List Var) : StepRes → StepRes → Prop
  | .ok a, .ok b => Agree U a b
  | .trap, .trap => True
  | .stuck, .stuck => True
  | _, _ => False

theorem stepInst_agree {U : List Var} {e1 e2 : Env} (h : Agree U e1 e2) (i : Inst)
    (hi : ∀ x, x ∈ i.uses → x ∈ U) : StepRel U (stepInst e1 i) (stepInst e2 i) := by
  cases i with
  | binop d op a b =>
    have ha := evalOp_agree h a (fun x hx => hi x (by simp only [Inst.uses, List.mem_append]; exact Or.inl hx))
    have hb := evalOp_agree h b (fun x hx => hi x (by simp only [Inst.uses, List.mem_append]; exact Or.inr hx))
    simp only [stepInst, ha, hb]
    split
    · split
      · exact h.set _ _
      · trivial
    · trivial
  | cmp d p a b =>
    have ha := evalOp_agree h a (fun x hx => hi x (by simp only [Inst.uses, List.mem_append]; exact Or.inl hx))
    have hb := evalOp_agree h b (fun x hx => hi x (by simp only [Inst.uses, List.mem_append]; exact Or.inr hx))
    simp only [stepInst, ha, hb]
    split
    · split
      · exact h.set _ _
      · trivial
    · trivial

/-- A dead instruction (its destination is outside `U`) only touches a variable nobody reads. -/
theorem stepInst_dead {U : List Var} {e1 e2 : Env} (h : Agree U e1 e2) (i : Inst) (hd : i.dst ∉ U)
    (a : Env) (ha : stepInst e1 i = .ok a) : Agree U a e2 := by
  cases i with
  | binop d op x y =>
    simp only [stepInst] at ha
    split at ha
    · split at ha
      · cases ha; exact h.set_left hd _
      · cases ha
    · cases ha
  | cmp d p x y =>
    simp only [stepInst] at ha
    split at ha
    · split at ha
      · cases ha; exact h.set_left hd _
      · cases ha
    · cases ha

theorem nonTrapping_no_trap (e : Env) (i : Inst) (hn : i.nonTrapping = true) : stepInst e i ≠ .trap := by
  cases i with
  | cmp d p a b =>
    simp only [stepInst]
    split
    · split <;> simp
    · simp
  | binop d op a b =>
    simp only [stepInst]
    split
    · cases op <;> simp [Inst.nonTrapping] at hn <;> simp [evalBin]
    · simp

theorem bindParams_agree {U : List Var} :
    ∀ (ps : List Var) (vs : List Val) (e1 e2 : Env), Agree U e1 e2 →
      match bindParams e1 ps vs, bindParams e2 ps vs with
      | some a, some b => Agree U a b
      | none, none => True
      | _, _ => False := by
  intro ps
  induction ps with
  | nil =>
    intro vs e1 e2 h
    cases vs with
    | nil => simpa [bindParams] using h
    | cons v vs => simp [bindParams]
  | cons p ps ih =>
    intro vs e1 e2 h
    cases vs with
    | nil => simp [bindParams]
    | cons v vs =>
      simp only [bindParams]
      exact ih vs _ _ (h.set p v)

/-- What executing `is` in `e1` and the surviving instructions in `e2` can give.
`bad` = some dead instruction of `is` may trap. -/
def ExecSpec (U : List Var) (bad : Prop) (r1 r2 : StepRes) : Prop :=
  match r1 with
  | .stuck => True
  | .ok a => ∃ b, r2 = .ok b ∧ Agree U a b
  | .trap => r2 = .trap ∨ bad

theorem execInsts_dce (U : List Var) :
    ∀ (is : List Inst) (e1 e2 : Env), Agree U e1 e2 →
      (∀ i, i ∈ is → ∀ x, x ∈ i.uses → x ∈ U) →
      ExecSpec U (∃ i, i ∈ is ∧ i.dst ∉ U ∧ i.nonTrapping = false)
        (execInsts e1 is) (execInsts e2 (is.filter fun i => U.contains i.dst)) := by
  intro is
  induction is with
  | nil =>
    intro e1 e2 h _
    exact ⟨e2, rfl, h⟩
  | cons i is ih =>
    intro e1 e2 h hu
    have hu' : ∀ j, j ∈ is → ∀ x, x ∈ j.uses → x ∈ U := fun j hj => hu j (List.mem_cons_of_mem _ hj)
    by_cases hd : i.dst ∈ U
    · -- live instruction: executed on both sides
      have hc : U.contains i.dst = true := by simpa using hd
      have hrel := stepInst_agree h i (hu i List.mem_cons_self)
      simp only [List.filter, hc, execInsts]
      cases h1 : stepInst e1 i with
      | stuck => trivial
      | trap =>
        cases h2 : stepInst e2 i with
        | trap => exact Or.inl rfl
        | ok b => rw [h1, h2] at hrel; exact hrel.elim
        | stuck => rw [h1, h2] at hrel; exact hrel.elim
      | ok a =>
        cases h2 : stepInst e2 i with
        | trap => rw [h1, h2] at hrel; exact hrel.elim
        | stuck => rw [h1, h2] at hrel; exact hrel.elim
        | ok b =>
          rw [h1, h2] at hrel
          have := ih a b hrel hu'
          simp only []
          revert this
          cases execInsts a is with
          | stuck => intro _; trivial
          | ok a' => intro t; exact t
          | trap =>
            intro t
            cases t with
            | inl t => exact Or.inl t
            | inr t =>
              obtain ⟨j, hj, hjd, hjn⟩ := t
              exact Or.inr ⟨j, List.mem_cons_of_mem _ hj, hjd, hjn⟩
    · -- dead instruction: executed on the left only
      have hc : U.contains i.dst = false := by simpa using hd
      have hdead := stepInst_dead h i hd
      simp only [List.filter, hc, execInsts]
      cases h1 : stepInst e1 i with
      | stuck => trivial
      | trap =>
        refine Or.inr ⟨i, List.mem_cons_self, hd, ?_⟩
        cases hn : i.nonTrapping with
        | false => rfl
        | true => exact absurd h1 (nonTrapping_no_trap e1 i hn)
      | ok a =>
        have := ih a e2 (hdead a h1) hu'
        simp only []
        revert this
        cases execInsts a is with
        | stuck => intro _; trivial
        | ok a' => intro t; exact t
        | trap =>
          intro t
          cases t with
          | inl t => exact Or.inl t
          | inr t =>
            obtain ⟨j, hj, hjd, hjn⟩ := t
            exact Or.inr ⟨j, List.mem_cons_of_mem _ hj, hjd, hjn⟩

/-- Some dead instruction of the function may trap. -/
def Bad (f : Func) : Prop :=
  ∃ b, b ∈ f.blocks ∧ ∃ i, i ∈ b.insts ∧ isDead f i = true ∧ i.nonTrapping = false

theorem mem_usedVars_of_inst {f : Func} {b : Block} (hb : b ∈ f.blocks) {i : Inst} (hi : i ∈ b.insts)
    {x : Var} (hx : x ∈ i.uses) : x ∈ usedVars f := by
  simp only [usedVars, List.mem_flatMap]
  refine ⟨b, hb, ?_⟩
  simp only [Block.uses, List.mem_append, List.mem_flatMap]
  exact Or.inl ⟨i, hi, hx⟩

theorem mem_usedVars_of_term {f : Func} {b : Block} (hb : b ∈ f.blocks)
    {x : Var} (hx : x ∈ b.term.uses) : x ∈ usedVars f := by
  simp only [usedVars, List.mem_flatMap]
  refine ⟨b, hb, ?_⟩
  simp only [Block.uses, List.mem_append]
  exact Or.inr hx

theorem dce_filter_eq (f : Func) (is : List Inst) :
    (is.filter fun i => !isDead f i) = is.filter fun i => (usedVars f).contains i.dst := by
  congr 1
  funext i
  simp [isDead]

theorem runFrom_dceOnce (f : Func) :
    ∀ (n : Nat) (e1 e2 : Env) (l : Label) (vals : List Val), Agree (usedVars f) e1 e2 →
      runFrom f n e1 l vals = .stuck ∨ (runFrom f n e1 l vals = .trap ∧ Bad f) ∨
        runFrom (dceOnce f) n e2 l vals = runFrom f n e1 l vals := by
  intro n
  induction n with
  | zero => intro e1 e2 l vals _; exact Or.inr (Or.inr rfl)
  | succ n ih =>
    intro e1 e2 l vals h
    simp only [runFrom, dceOnce]
    rw [findBlock_map (fun b => { b with insts := b.insts.filter fun i => !isDead f i }) (fun _ => rfl)]
    cases hfb : findBlock f.blocks l with
    | none => exact Or.inl rfl
    | some b =>
      simp only [Option.map]
      have ⟨hbm, _⟩ := findBlock_some hfb
      have hbp := bindParams_agree b.params vals e1 e2 h
      cases hb1 : bindParams e1 b.params vals with
      | none => exact Or.inl rfl
      | some a1 =>
        cases hb2 : bindParams e2 b.params vals with
        | none => rw [hb1, hb2] at hbp; exact hbp.elim
        | some a2 =>
          rw [hb1, hb2] at hbp
          simp only []
          rw [dce_filter_eq]
          have hex := execInsts_dce (usedVars f) b.insts a1 a2 hbp
            (fun i hi x hx => mem_usedVars_of_inst hbm hi hx)
          cases hx1 : execInsts a1 b.insts with
          | stuck => exact Or.inl rfl
          | trap =>
            rw [hx1] at hex
            cases hex with
            | inl t => rw [t]; exact Or.inr (Or.inr rfl)
            | inr t =>
              obtain ⟨i, hi, hid, hin⟩ := t
              refine Or.inr (Or.inl ⟨rfl, b, hbm, i, hi, ?_, hin⟩)
              simpa [isDead] using hid
          | ok c1 =>
            rw [hx1] at hex
            obtain ⟨c2, hc2, hagr⟩ := hex
            rw [hc2]
            simp only []
            have hst := stepTerm_agree hagr b.term (fun x hx => mem_usedVars_of_term hbm hx)
            rw [← hst]
            cases hs : stepTerm c1 b.term with
            | stuck => exact Or.inl rfl
            | done v => exact Or.inr (Or.inr rfl)
            | jump l' vals' => exact ih c1 c2 l' vals' hagr

theorem Agree.refl (U : List Var) (e : Env) : Agree U e e := fun _ _ => rfl

end SwayVerif.MiniIR
