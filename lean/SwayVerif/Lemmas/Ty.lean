import SwayVerif.Model.Ty
/-!
Lemmas for M-Ty (C09 / C10): big-endian bytes, decoder/encoder inversion, layout facts.
-/
namespace SwayVerif.Abi
open SwayVerif.Generated

/-! ## big-endian bytes -/

@[simp] theorem beBytes_length : ∀ k n, (beBytes k n).length = k
  | 0, _ => rfl
  | k + 1, n => by simp [beBytes, beBytes_length k n]

theorem beNat_lt : ∀ bs : List UInt8, beNat bs < 256 ^ bs.length
  | [] => by simp [beNat]
  | b :: r => by
    have h := beNat_lt r
    have hb : b.toNat < 256 := by have := b.toNat_lt; simpa using this
    simp only [beNat, List.length_cons, Nat.pow_succ]
    have : b.toNat * 256 ^ r.length ≤ 255 * 256 ^ r.length := Nat.mul_le_mul_right _ (by omega)
    omega

theorem beNat_beBytes : ∀ k n, beNat (beBytes k n) = n % 256 ^ k
  | 0, n => by simp [beBytes, beNat, Nat.mod_one]
  | k + 1, n => by
    have ih := beNat_beBytes k n
    have h256 : n / 256 ^ k % 256 < 256 := Nat.mod_lt _ (by decide)
    simp only [beBytes, beNat, beBytes_length, ih]
    rw [UInt8.toNat_ofNat_of_lt' (by simpa using h256)]
    rw [Nat.pow_succ, Nat.mod_mul]
    rw [Nat.mul_comm]
    omega

/-- the low `k` bytes do not see multiples of `256^k` -/
theorem beBytes_add_mul : ∀ k c m, beBytes k (c * 256 ^ k + m) = beBytes k m
  | 0, _, _ => rfl
  | k + 1, c, m => by
    have ih := beBytes_add_mul k (c * 256) m
    have e : c * 256 ^ (k + 1) + m = c * 256 * 256 ^ k + m := by rw [Nat.pow_succ]; ac_rfl
    simp only [beBytes]
    rw [e, ih]
    congr 2
    have hp : 0 < 256 ^ k := Nat.pow_pos (by decide)
    rw [Nat.add_comm, Nat.add_mul_div_right _ _ hp, Nat.add_mul_mod_self_right]

theorem beBytes_beNat : ∀ bs : List UInt8, beBytes bs.length (beNat bs) = bs
  | [] => rfl
  | b :: r => by
    have ih := beBytes_beNat r
    have hlt := beNat_lt r
    have hp : 0 < 256 ^ r.length := Nat.pow_pos (by decide)
    have hb : b.toNat < 256 := by have := b.toNat_lt; simpa using this
    simp only [List.length_cons, beBytes, beNat]
    rw [beBytes_add_mul, ih]
    congr 1
    rw [Nat.add_comm, Nat.add_mul_div_right _ _ hp, Nat.div_eq_of_lt hlt, Nat.zero_add, Nat.mod_eq_of_lt hb]
    simp

theorem takeNat_append (k n : Nat) (r : List UInt8) :
    takeNat k (beBytes k n ++ r) = some (n % 256 ^ k, r) := by
  simp [takeNat, beNat_beBytes]

theorem takeNat_sound {k : Nat} {bs r : List UInt8} {n : Nat} (h : takeNat k bs = some (n, r)) :
    bs = beBytes k n ++ r ∧ n < 256 ^ k := by
  unfold takeNat at h
  split at h
  · cases h
  · rename_i hlen
    simp only [Option.some.injEq, Prod.mk.injEq] at h
    obtain ⟨hn, hr⟩ := h
    have hl : (bs.take k).length = k := by simp; omega
    constructor
    · have := beBytes_beNat (bs.take k)
      rw [hl, hn] at this
      rw [this, ← hr, List.take_append_drop]
    · rw [← hn]; have := beNat_lt (bs.take k); rwa [hl] at this


/-! ## decode ∘ encode = id -/

theorem decodeRep_flatMap {f : Dec Val} {g : Val → List UInt8} {p : Val → Bool}
    (hf : ∀ v r, p v = true → f (g v ++ r) = some (v, r)) :
    ∀ (vs : List Val) (r : List UInt8), allVals p vs = true →
      decodeRep f vs.length (flatMapVals g vs ++ r) = some (vs, r)
  | [], r, _ => by simp [decodeRep, flatMapVals]
  | v :: vs, r, h => by
    simp only [allVals, Bool.and_eq_true] at h
    simp only [List.length_cons, decodeRep, flatMapVals, List.append_assoc, hf v _ h.1,
      decodeRep_flatMap hf vs r h.2]

theorem decodeBoolByte_enc (b : Bool) : decodeBoolByte (if b then 1 else 0) = some b := by
  cases b <;> simp [decodeBoolByte]

theorem decodeLenPrefixed_append (bs r : List UInt8) (h : bs.length < 2 ^ 64) :
    decodeLenPrefixed (lenPrefixed bs ++ r) = some (.bytes bs, r) := by
  have h' : bs.length % 256 ^ 8 = bs.length := Nat.mod_eq_of_lt (by simpa using h)
  simp [decodeLenPrefixed, lenPrefixed, List.append_assoc, takeNat_append, h']

theorem decodeNum_append (k n : Nat) (r : List UInt8) (h : n < 256 ^ k) :
    decodeNum k (beBytes k n ++ r) = some (.num n, r) := by
  simp [decodeNum, takeNat_append, Nat.mod_eq_of_lt h]

theorem isNumLt_elim {b : Nat} {v : Val} (h : isNumLt b v = true) : ∃ n, v = .num n ∧ n < b := by
  cases v <;> simp [isNumLt] at h
  exact ⟨_, rfl, h⟩

theorem isBytes_elim {p : List UInt8 → Bool} {v : Val} (h : isBytes p v = true) : ∃ bs, v = .bytes bs ∧ p bs = true := by
  cases v <;> simp [isBytes] at h
  exact ⟨_, rfl, h⟩

mutual
theorem decode_encode_aux : ∀ (t : Ty) (v : Val) (r : List UInt8), hasType t v = true →
    decode t (encode t v ++ r) = some (v, r)
  | .u8, v, r, h => by
    obtain ⟨n, rfl, hn⟩ := isNumLt_elim (by simpa [hasType] using h)
    simpa [decode, encode, Val.numD] using decodeNum_append 1 n r (by simpa using hn)
  | .u16, v, r, h => by
    obtain ⟨n, rfl, hn⟩ := isNumLt_elim (by simpa [hasType] using h)
    simpa [decode, encode, Val.numD] using decodeNum_append 2 n r (by simpa using hn)
  | .u32, v, r, h => by
    obtain ⟨n, rfl, hn⟩ := isNumLt_elim (by simpa [hasType] using h)
    simpa [decode, encode, Val.numD] using decodeNum_append 4 n r (by simpa using hn)
  | .u64, v, r, h => by
    obtain ⟨n, rfl, hn⟩ := isNumLt_elim (by simpa [hasType] using h)
    simpa [decode, encode, Val.numD] using decodeNum_append 8 n r (by simpa using hn)
  | .u256, v, r, h => by
    obtain ⟨n, rfl, hn⟩ := isNumLt_elim (by simpa [hasType] using h)
    simpa [decode, encode, Val.numD] using decodeNum_append 32 n r (by simpa using hn)
  | .b256, v, r, h => by
    obtain ⟨n, rfl, hn⟩ := isNumLt_elim (by simpa [hasType] using h)
    simpa [decode, encode, Val.numD] using decodeNum_append 32 n r (by simpa using hn)
  | .bool, v, r, h => by
    cases v <;> simp [hasType] at h
    rename_i b
    cases b <;> simp [decode, encode, Val.boolD, decodeBoolByte]
  | .unit, v, r, h => by
    cases v <;> simp [hasType] at h
    simp [decode, encode]
  | .strArray n, v, r, h => by
    obtain ⟨bs, rfl, hb⟩ := isBytes_elim (by simpa [hasType] using h)
    have hb : bs.length = n := by simpa using hb
    simp [decode, encode, Val.bytesD, hb]
  | .array t n, v, r, h => by
    cases v <;> simp [hasType] at h
    rename_i vs
    obtain ⟨hl, ha⟩ := h
    have := decodeRep_flatMap (f := decode t) (g := encode t) (p := hasType t)
      (fun v r hv => decode_encode_aux t v r hv) vs r ha
    simp [decode, encode, Val.seqD, ← hl, this, mapSeq]
  | .tuple ts, v, r, h => by
    cases v <;> simp [hasType] at h
    rename_i vs
    simp [decode, encode, Val.seqD, decodes_encodes_aux ts vs r h, mapSeq]
  | .struct ts, v, r, h => by
    cases v <;> simp [hasType] at h
    rename_i vs
    simp [decode, encode, Val.seqD, decodes_encodes_aux ts vs r h, mapSeq]
  | .enum ts, v, r, h => by
    cases v <;> simp [hasType] at h
    rename_i i p
    obtain ⟨hi, hp⟩ := h
    have hi' : i % 256 ^ 8 = i := Nat.mod_eq_of_lt (by simpa using hi)
    simp [decode, encode, Val.tagD, Val.payloadD, List.append_assoc, takeNat_append, hi',
      decodeVariant_encodeVariant_aux ts i i p r hp]
  | .vec t, v, r, h => by
    cases v <;> simp [hasType] at h
    rename_i vs
    obtain ⟨hl, ha⟩ := h
    have hl' : vs.length % 256 ^ 8 = vs.length := Nat.mod_eq_of_lt (by simpa using hl)
    have := decodeRep_flatMap (f := decode t) (g := encode t) (p := hasType t)
      (fun v r hv => decode_encode_aux t v r hv) vs r ha
    simp [decode, encode, Val.seqD, List.append_assoc, takeNat_append, hl', this, mapSeq]
  | .bytes, v, r, h => by
    obtain ⟨bs, rfl, hb⟩ := isBytes_elim (by simpa [hasType] using h)
    simpa [decode, encode, Val.bytesD] using decodeLenPrefixed_append bs r (by simpa using hb)
  | .string, v, r, h => by
    obtain ⟨bs, rfl, hb⟩ := isBytes_elim (by simpa [hasType] using h)
    simpa [decode, encode, Val.bytesD] using decodeLenPrefixed_append bs r (by simpa using hb)
  | .strSlice, v, r, h => by
    obtain ⟨bs, rfl, hb⟩ := isBytes_elim (by simpa [hasType] using h)
    simpa [decode, encode, Val.bytesD] using decodeLenPrefixed_append bs r (by simpa using hb)
  | .rawSlice, v, r, h => by
    obtain ⟨bs, rfl, hb⟩ := isBytes_elim (by simpa [hasType] using h)
    simpa [decode, encode, Val.bytesD] using decodeLenPrefixed_append bs r (by simpa using hb)
  | .trivialBool, v, r, h => by
    cases v <;> simp [hasType] at h
    rename_i vs
    match vs, h with
    | [w], h =>
      obtain ⟨n, rfl, hn⟩ := isNumLt_elim h
      simp [decode, encode, Val.single, Val.numD, decodeRep, decodeNum_append 8 n r (by simpa using hn), mapSeq]
  | .trivialEnum t, v, r, h => by
    cases v <;> simp [hasType] at h
    rename_i vs
    match vs, h with
    | [w], h =>
      simp [decode, encode, Val.single, decodeRep, decode_encode_aux t w r h, mapSeq]
theorem decodes_encodes_aux : ∀ (ts : List Ty) (vs : List Val) (r : List UInt8), hasTypes ts vs = true →
    decodes ts (encodes ts vs ++ r) = some (vs, r)
  | [], [], r, _ => by simp [decodes, encodes]
  | [], _ :: _, r, h => by simp [hasTypes] at h
  | _ :: _, [], r, h => by simp [hasTypes] at h
  | t :: ts, v :: vs, r, h => by
    simp only [hasTypes, Bool.and_eq_true] at h
    simp [decodes, encodes, List.append_assoc, decode_encode_aux t v _ h.1, decodes_encodes_aux ts vs r h.2]
theorem decodeVariant_encodeVariant_aux : ∀ (ts : List Ty) (i tag : Nat) (p : Val) (r : List UInt8),
    hasTypeVariant ts i p = true →
    decodeVariant ts i tag (encodeVariant ts i p ++ r) = some (.variant tag p, r)
  | [], _, _, _, _, h => by simp [hasTypeVariant] at h
  | t :: _, 0, tag, p, r, h => by
    simp only [hasTypeVariant] at h
    simp [decodeVariant, encodeVariant, decode_encode_aux t p r h]
  | _ :: ts, i + 1, tag, p, r, h => by
    simp only [hasTypeVariant] at h
    simp [decodeVariant, encodeVariant, decodeVariant_encodeVariant_aux ts i tag p r h]
end


/-! ## decode is sound: it only ever returns a well-typed value, and only from its canonical encoding -/

theorem decodeRep_sound {f : Dec Val} {g : Val → List UInt8} {p : Val → Bool}
    (hf : ∀ bs v r, f bs = some (v, r) → p v = true ∧ bs = g v ++ r) :
    ∀ (n : Nat) (bs : List UInt8) (vs : List Val) (r : List UInt8), decodeRep f n bs = some (vs, r) →
      vs.length = n ∧ allVals p vs = true ∧ bs = flatMapVals g vs ++ r
  | 0, bs, vs, r, h => by
    simp only [decodeRep, Option.some.injEq, Prod.mk.injEq] at h
    obtain ⟨rfl, rfl⟩ := h
    simp [allVals, flatMapVals]
  | n + 1, bs, vs, r, h => by
    simp only [decodeRep] at h
    split at h
    · cases h
    · rename_i v r1 h1
      split at h
      · cases h
      · rename_i vs' r2 h2
        simp only [Option.some.injEq, Prod.mk.injEq] at h
        obtain ⟨rfl, rfl⟩ := h
        obtain ⟨hp, rfl⟩ := hf _ _ _ h1
        obtain ⟨hl, ha, rfl⟩ := decodeRep_sound hf n _ _ _ h2
        simp [hl, allVals, hp, ha, flatMapVals, List.append_assoc]

theorem decodeNum_sound {k : Nat} {bs r : List UInt8} {v : Val} (h : decodeNum k bs = some (v, r)) :
    ∃ n, v = .num n ∧ n < 256 ^ k ∧ bs = beBytes k n ++ r := by
  unfold decodeNum at h
  split at h
  · rename_i n r' hk
    simp only [Option.some.injEq, Prod.mk.injEq] at h
    obtain ⟨rfl, rfl⟩ := h
    obtain ⟨h1, h2⟩ := takeNat_sound hk
    exact ⟨n, rfl, h2, h1⟩
  · cases h

theorem decodeLenPrefixed_sound {bs r : List UInt8} {v : Val} (h : decodeLenPrefixed bs = some (v, r)) :
    ∃ xs, v = .bytes xs ∧ xs.length < 2 ^ 64 ∧ bs = lenPrefixed xs ++ r := by
  unfold decodeLenPrefixed at h
  split at h
  · rename_i len r' hk
    obtain ⟨h1, h2⟩ := takeNat_sound hk
    split at h
    · cases h
    · rename_i hlen
      simp only [Option.some.injEq, Prod.mk.injEq] at h
      obtain ⟨rfl, rfl⟩ := h
      have hl : (r'.take len).length = len := by simp; omega
      refine ⟨_, rfl, ?_, ?_⟩
      · rw [hl]; simpa using h2
      · simp only [lenPrefixed, hl, List.append_assoc, List.take_append_drop]; exact h1
  · cases h

theorem decodeBoolByte_sound {b : UInt8} {x : Bool} (h : decodeBoolByte b = some x) :
    b = (if x then 1 else 0) := by
  simp only [decodeBoolByte] at h
  split at h
  · cases h; simp_all
  · split at h
    · cases h; simp_all
    · cases h

theorem mapSeq_some {o : Option (List Val × List UInt8)} {v : Val} {r : List UInt8} (h : mapSeq o = some (v, r)) :
    ∃ vs, v = .seq vs ∧ o = some (vs, r) := by
  cases o with
  | none => simp [mapSeq] at h
  | some x => cases x; simp [mapSeq] at h; obtain ⟨rfl, rfl⟩ := h; exact ⟨_, rfl, rfl⟩

mutual
theorem decode_sound_aux : ∀ (t : Ty) (bs : List UInt8) (v : Val) (r : List UInt8), decode t bs = some (v, r) →
    hasType t v = true ∧ bs = encode t v ++ r
  | .u8, bs, v, r, h => by
    obtain ⟨n, rfl, hn, rfl⟩ := decodeNum_sound (by simpa [decode] using h)
    simp [hasType, isNumLt, encode, Val.numD]; simpa using hn
  | .u16, bs, v, r, h => by
    obtain ⟨n, rfl, hn, rfl⟩ := decodeNum_sound (by simpa [decode] using h)
    simp [hasType, isNumLt, encode, Val.numD]; simpa using hn
  | .u32, bs, v, r, h => by
    obtain ⟨n, rfl, hn, rfl⟩ := decodeNum_sound (by simpa [decode] using h)
    simp [hasType, isNumLt, encode, Val.numD]; simpa using hn
  | .u64, bs, v, r, h => by
    obtain ⟨n, rfl, hn, rfl⟩ := decodeNum_sound (by simpa [decode] using h)
    simp [hasType, isNumLt, encode, Val.numD]; simpa using hn
  | .u256, bs, v, r, h => by
    obtain ⟨n, rfl, hn, rfl⟩ := decodeNum_sound (by simpa [decode] using h)
    simp [hasType, isNumLt, encode, Val.numD]; simpa using hn
  | .b256, bs, v, r, h => by
    obtain ⟨n, rfl, hn, rfl⟩ := decodeNum_sound (by simpa [decode] using h)
    simp [hasType, isNumLt, encode, Val.numD]; simpa using hn
  | .bool, bs, v, r, h => by
    simp only [decode] at h
    split at h
    · cases h
    · rename_i b r'
      split at h
      · rename_i x hx
        simp only [Option.some.injEq, Prod.mk.injEq] at h
        obtain ⟨rfl, rfl⟩ := h
        have := decodeBoolByte_sound hx
        cases x <;> simp_all [hasType, encode, Val.boolD]
      · cases h
  | .unit, bs, v, r, h => by
    simp only [decode, Option.some.injEq, Prod.mk.injEq] at h
    obtain ⟨rfl, rfl⟩ := h
    simp [hasType, encode]
  | .strArray n, bs, v, r, h => by
    simp only [decode] at h
    split at h
    · cases h
    · simp only [Option.some.injEq, Prod.mk.injEq] at h
      obtain ⟨rfl, rfl⟩ := h
      simp [hasType, isBytes, encode, Val.bytesD]; omega
  | .array t n, bs, v, r, h => by
    obtain ⟨vs, rfl, ho⟩ := mapSeq_some (by simpa [decode] using h)
    obtain ⟨hl, ha, rfl⟩ := decodeRep_sound (f := decode t) (g := encode t) (p := hasType t)
      (fun bs v r hv => decode_sound_aux t bs v r hv) _ _ _ _ ho
    simp [hasType, hl, ha, encode, Val.seqD]
  | .tuple ts, bs, v, r, h => by
    obtain ⟨vs, rfl, ho⟩ := mapSeq_some (by simpa [decode] using h)
    obtain ⟨h1, rfl⟩ := decodes_sound_aux ts _ _ _ ho
    simp [hasType, h1, encode, Val.seqD]
  | .struct ts, bs, v, r, h => by
    obtain ⟨vs, rfl, ho⟩ := mapSeq_some (by simpa [decode] using h)
    obtain ⟨h1, rfl⟩ := decodes_sound_aux ts _ _ _ ho
    simp [hasType, h1, encode, Val.seqD]
  | .enum ts, bs, v, r, h => by
    simp only [decode] at h
    split at h
    · rename_i tag r' hk
      obtain ⟨rfl, htag⟩ := takeNat_sound hk
      obtain ⟨p, rfl, hp, rfl⟩ := decodeVariant_sound_aux ts tag tag r' v r h
      simp [hasType, hp, encode, Val.tagD, Val.payloadD, List.append_assoc]; simpa using htag
    · cases h
  | .vec t, bs, v, r, h => by
    simp only [decode] at h
    split at h
    · rename_i len r' hk
      obtain ⟨rfl, hlen⟩ := takeNat_sound hk
      obtain ⟨vs, rfl, ho⟩ := mapSeq_some h
      obtain ⟨hl, ha, rfl⟩ := decodeRep_sound (f := decode t) (g := encode t) (p := hasType t)
        (fun bs v r hv => decode_sound_aux t bs v r hv) _ _ _ _ ho
      simp [hasType, hl, ha, encode, Val.seqD, List.append_assoc]; simpa using hlen
    · cases h
  | .bytes, bs, v, r, h => by
    obtain ⟨xs, rfl, hx, rfl⟩ := decodeLenPrefixed_sound (by simpa [decode] using h)
    simp [hasType, isBytes, encode, Val.bytesD]; simpa using hx
  | .string, bs, v, r, h => by
    obtain ⟨xs, rfl, hx, rfl⟩ := decodeLenPrefixed_sound (by simpa [decode] using h)
    simp [hasType, isBytes, encode, Val.bytesD]; simpa using hx
  | .strSlice, bs, v, r, h => by
    obtain ⟨xs, rfl, hx, rfl⟩ := decodeLenPrefixed_sound (by simpa [decode] using h)
    simp [hasType, isBytes, encode, Val.bytesD]; simpa using hx
  | .rawSlice, bs, v, r, h => by
    obtain ⟨xs, rfl, hx, rfl⟩ := decodeLenPrefixed_sound (by simpa [decode] using h)
    simp [hasType, isBytes, encode, Val.bytesD]; simpa using hx
  | .trivialBool, bs, v, r, h => by
    obtain ⟨vs, rfl, ho⟩ := mapSeq_some (by simpa [decode] using h)
    simp only [decodeRep] at ho
    split at ho
    · cases ho
    · rename_i w r1 h1
      simp only [Option.some.injEq, Prod.mk.injEq] at ho
      obtain ⟨rfl, rfl⟩ := ho
      obtain ⟨n, rfl, hn, rfl⟩ := decodeNum_sound h1
      simp [hasType, isNumLt, encode, Val.single, Val.numD]; simpa using hn
  | .trivialEnum t, bs, v, r, h => by
    obtain ⟨vs, rfl, ho⟩ := mapSeq_some (by simpa [decode] using h)
    simp only [decodeRep] at ho
    split at ho
    · cases ho
    · rename_i w r1 h1
      simp only [Option.some.injEq, Prod.mk.injEq] at ho
      obtain ⟨rfl, rfl⟩ := ho
      obtain ⟨hw, rfl⟩ := decode_sound_aux t _ _ _ h1
      simp [hasType, hw, encode, Val.single]
theorem decodes_sound_aux : ∀ (ts : List Ty) (bs : List UInt8) (vs : List Val) (r : List UInt8),
    decodes ts bs = some (vs, r) → hasTypes ts vs = true ∧ bs = encodes ts vs ++ r
  | [], bs, vs, r, h => by
    simp only [decodes, Option.some.injEq, Prod.mk.injEq] at h
    obtain ⟨rfl, rfl⟩ := h
    simp [hasTypes, encodes]
  | t :: ts, bs, vs, r, h => by
    simp only [decodes] at h
    split at h
    · cases h
    · rename_i v r1 h1
      split at h
      · cases h
      · rename_i vs' r2 h2
        simp only [Option.some.injEq, Prod.mk.injEq] at h
        obtain ⟨rfl, rfl⟩ := h
        obtain ⟨hv, rfl⟩ := decode_sound_aux t _ _ _ h1
        obtain ⟨hvs, rfl⟩ := decodes_sound_aux ts _ _ _ h2
        simp [hasTypes, hv, hvs, encodes, List.append_assoc]
theorem decodeVariant_sound_aux : ∀ (ts : List Ty) (i tag : Nat) (bs : List UInt8) (v : Val) (r : List UInt8),
    decodeVariant ts i tag bs = some (v, r) →
    ∃ p, v = .variant tag p ∧ hasTypeVariant ts i p = true ∧ bs = encodeVariant ts i p ++ r
  | [], _, _, _, _, _, h => by simp [decodeVariant] at h
  | t :: _, 0, tag, bs, v, r, h => by
    simp only [decodeVariant] at h
    split at h
    · rename_i p r' hp
      simp only [Option.some.injEq, Prod.mk.injEq] at h
      obtain ⟨rfl, rfl⟩ := h
      obtain ⟨h1, rfl⟩ := decode_sound_aux t _ _ _ hp
      exact ⟨p, rfl, by simpa [hasTypeVariant] using h1, by simp [encodeVariant]⟩
    · cases h
  | _ :: ts, i + 1, tag, bs, v, r, h => by
    simp only [decodeVariant] at h
    obtain ⟨p, rfl, h1, rfl⟩ := decodeVariant_sound_aux ts i tag bs v r h
    exact ⟨p, rfl, by simpa [hasTypeVariant] using h1, by simp [encodeVariant]⟩
end

/-! ## length of the encoding -/

theorem flatMap_length {f : Val → List UInt8} {l : Val → Nat} {p : Val → Bool}
    (hf : ∀ v, p v = true → (f v).length = l v) :
    ∀ vs, allVals p vs = true → (flatMapVals f vs).length = sumLens l vs
  | [], _ => rfl
  | v :: vs, h => by
    simp only [allVals, Bool.and_eq_true] at h
    simp [flatMapVals, sumLens, hf v h.1, flatMap_length hf vs h.2]

mutual
theorem encode_length_aux : ∀ (t : Ty) (v : Val), hasType t v = true → (encode t v).length = encLen t v
  | .u8, v, _ => by simp [encode, encLen]
  | .u16, v, _ => by simp [encode, encLen]
  | .u32, v, _ => by simp [encode, encLen]
  | .u64, v, _ => by simp [encode, encLen]
  | .u256, v, _ => by simp [encode, encLen]
  | .b256, v, _ => by simp [encode, encLen]
  | .bool, v, _ => by simp [encode, encLen]
  | .unit, v, _ => by simp [encode, encLen]
  | .strArray n, v, h => by
    obtain ⟨bs, rfl, hb⟩ := isBytes_elim (by simpa [hasType] using h)
    simpa [encode, encLen, Val.bytesD] using hb
  | .array t n, v, h => by
    cases v <;> simp [hasType] at h
    simpa [encode, encLen, Val.seqD] using flatMap_length (fun v hv => encode_length_aux t v hv) _ h.2
  | .tuple ts, v, h => by
    cases v <;> simp [hasType] at h
    simpa [encode, encLen, Val.seqD] using encodes_length_aux ts _ h
  | .struct ts, v, h => by
    cases v <;> simp [hasType] at h
    simpa [encode, encLen, Val.seqD] using encodes_length_aux ts _ h
  | .enum ts, v, h => by
    cases v <;> simp [hasType] at h
    simp [encode, encLen, Val.tagD, Val.payloadD, encodeVariant_length_aux ts _ _ h.2]
  | .vec t, v, h => by
    cases v <;> simp [hasType] at h
    simp [encode, encLen, Val.seqD, flatMap_length (fun v hv => encode_length_aux t v hv) _ h.2]
  | .bytes, v, _ => by simp [encode, encLen, lenPrefixed]
  | .string, v, _ => by simp [encode, encLen, lenPrefixed]
  | .strSlice, v, _ => by simp [encode, encLen, lenPrefixed]
  | .rawSlice, v, _ => by simp [encode, encLen, lenPrefixed]
  | .trivialBool, v, _ => by simp [encode, encLen]
  | .trivialEnum t, v, h => by
    cases v <;> simp [hasType] at h
    rename_i vs
    match vs, h with
    | [w], h => simp [encode, encLen, Val.single, encode_length_aux t w h]
theorem encodes_length_aux : ∀ (ts : List Ty) (vs : List Val), hasTypes ts vs = true →
    (encodes ts vs).length = encLens ts vs
  | [], [], _ => rfl
  | [], _ :: _, h => by simp [hasTypes] at h
  | _ :: _, [], h => by simp [hasTypes] at h
  | t :: ts, v :: vs, h => by
    simp only [hasTypes, Bool.and_eq_true] at h
    simp [encodes, encLens, encode_length_aux t v h.1, encodes_length_aux ts vs h.2]
theorem encodeVariant_length_aux : ∀ (ts : List Ty) (i : Nat) (p : Val), hasTypeVariant ts i p = true →
    (encodeVariant ts i p).length = encLenVariant ts i p
  | [], _, _, h => by simp [hasTypeVariant] at h
  | t :: _, 0, p, h => by simp only [hasTypeVariant] at h; simp [encodeVariant, encLenVariant, encode_length_aux t p h]
  | _ :: ts, i + 1, p, h => by
    simp only [hasTypeVariant] at h
    simp [encodeVariant, encLenVariant, encodeVariant_length_aux ts i p h]
end


/-! ## layout arithmetic -/

theorem align8_ge (n : Nat) : n ≤ align8 n := by unfold align8; omega
theorem align8_mod (n : Nat) : align8 n % 8 = 0 := by unfold align8; omega
theorem align8_idem (n : Nat) : align8 (align8 n) = align8 n := by unfold align8; omega
theorem padTo8_zero_iff (n : Nat) : padTo8 n = 0 ↔ align8 n = n := by
  have := align8_ge n; unfold padTo8; omega
theorem add_padTo8 (n : Nat) : n + padTo8 n = align8 n := by
  have := align8_ge n; unfold padTo8; omega
theorem padTo8_align8 (n : Nat) : padTo8 (align8 n) = 0 := by
  rw [padTo8_zero_iff, align8_idem]
theorem align8_mono {a b : Nat} (h : a ≤ b) : align8 a ≤ align8 b := by unfold align8; omega
theorem align8_zero : align8 0 = 0 := rfl

@[simp] theorem known_length (bs : List UInt8) : (known bs).length = bs.length := by simp [known]
@[simp] theorem padding_length (n : Nat) : (padding n).length = n := by simp [padding]
theorem known_append (a b : List UInt8) : known (a ++ b) = known a ++ known b := by simp [known]
@[simp] theorem known_nil : known [] = [] := rfl
@[simp] theorem padding_zero : padding 0 = [] := rfl

theorem getD_known : ∀ bs : List UInt8, (known bs).map (·.getD 0) = bs
  | [] => rfl
  | b :: r => by
    have := getD_known r
    simp only [known, List.map_cons, Option.getD_some, List.cons.injEq, true_and] at this ⊢
    exact this

theorem known_injective {a b : List UInt8} (h : known a = known b) : a = b := by
  rw [← getD_known a, ← getD_known b, h]

theorem mem_maxList {a : Nat} : ∀ {l : List Nat}, a ∈ l → a ≤ maxList l
  | b :: r, h => by
    simp only [List.mem_cons] at h
    simp only [maxList]
    rcases h with rfl | h
    · omega
    · have := mem_maxList h; omega

theorem allZero_iff : ∀ {l : List Nat}, allZero l = true ↔ ∀ a ∈ l, a = 0
  | [] => by simp [allZero]
  | a :: r => by simp [allZero, allZero_iff (l := r)]

theorem allTrue_iff : ∀ {l : List Bool}, allTrue l = true ↔ ∀ b ∈ l, b = true
  | [] => by simp [allTrue]
  | a :: r => by simp [allTrue, allTrue_iff (l := r)]

theorem sizesRT_eq_map : ∀ ts : List Ty, sizesRT ts = ts.map sizeRT
  | [] => rfl
  | t :: ts => by simp [sizesRT, sizesRT_eq_map ts]

theorem isEncodeTrivials_eq_map : ∀ ts : List Ty, isEncodeTrivials ts = ts.map isEncodeTrivial
  | [] => rfl
  | t :: ts => by simp [isEncodeTrivials, isEncodeTrivials_eq_map ts]

theorem isDecodeTrivials_eq_map : ∀ ts : List Ty, isDecodeTrivials ts = ts.map isDecodeTrivial
  | [] => rfl
  | t :: ts => by simp [isDecodeTrivials, isDecodeTrivials_eq_map ts]

/-! ## the memory image has the size `__size_of` reports -/

theorem flatMapImg_length {f : Val → List MByte} {p : Val → Bool} {k : Nat}
    (hf : ∀ v, p v = true → (f v).length = k) :
    ∀ vs, allVals p vs = true → (flatMapImg f vs).length = vs.length * k
  | [], _ => by simp [flatMapImg]
  | v :: vs, h => by
    simp only [allVals, Bool.and_eq_true] at h
    simp [flatMapImg, hf v h.1, flatMapImg_length hf vs h.2, Nat.succ_mul, Nat.add_comm]

mutual
theorem runtimeImage_length : ∀ (t : Ty) (v : Val), hasType t v = true → (runtimeImage t v).length = sizeRT t
  | .u8, v, _ => by simp [runtimeImage, sizeRT]
  | .u16, v, _ => by simp [runtimeImage, sizeRT]
  | .u32, v, _ => by simp [runtimeImage, sizeRT]
  | .u64, v, _ => by simp [runtimeImage, sizeRT]
  | .u256, v, _ => by simp [runtimeImage, sizeRT]
  | .b256, v, _ => by simp [runtimeImage, sizeRT]
  | .bool, v, _ => by simp [runtimeImage, sizeRT]
  | .unit, v, _ => by simp [runtimeImage, sizeRT]
  | .strArray n, v, h => by
    obtain ⟨bs, rfl, hb⟩ := isBytes_elim (by simpa [hasType] using h)
    have hb : bs.length = n := by simpa using hb
    have := align8_ge n
    simp only [runtimeImage, sizeRT, Val.bytesD, List.length_append, known_length, padding_length, hb]
    split <;> omega
  | .array t n, v, h => by
    cases v <;> simp [hasType] at h
    simp [runtimeImage, sizeRT, Val.seqD, flatMapImg_length (fun v hv => runtimeImage_length t v hv) _ h.2, h.1]
  | .tuple ts, v, h => by
    cases v <;> simp [hasType] at h
    simpa [runtimeImage, sizeRT, Val.seqD] using fieldImages_length ts _ h
  | .struct ts, v, h => by
    cases v <;> simp [hasType] at h
    simpa [runtimeImage, sizeRT, Val.seqD] using fieldImages_length ts _ h
  | .enum ts, v, h => by
    cases v <;> simp [hasType] at h
    simp only [runtimeImage, sizeRT, Val.tagD, Val.payloadD, List.length_append, known_length, beBytes_length]
    split
    · simp
    · rw [variantImage_length ts _ _ _ h.2 (align8_ge _)]
  | .vec t, v, _ => by simp [runtimeImage, sizeRT]
  | .bytes, v, _ => by simp [runtimeImage, sizeRT]
  | .string, v, _ => by simp [runtimeImage, sizeRT]
  | .strSlice, v, _ => by simp [runtimeImage, sizeRT]
  | .rawSlice, v, _ => by simp [runtimeImage, sizeRT]
  | .trivialBool, v, _ => by simp [runtimeImage, sizeRT]
  | .trivialEnum t, v, h => by
    cases v <;> simp [hasType] at h
    rename_i vs
    match vs, h with
    | [w], h => simp [runtimeImage, sizeRT, Val.single, runtimeImage_length t w h, add_padTo8]
theorem fieldImages_length : ∀ (ts : List Ty) (vs : List Val), hasTypes ts vs = true →
    (fieldImages ts vs).length = sumAligned (sizesRT ts)
  | [], [], _ => rfl
  | [], _ :: _, h => by simp [hasTypes] at h
  | _ :: _, [], h => by simp [hasTypes] at h
  | t :: ts, v :: vs, h => by
    simp only [hasTypes, Bool.and_eq_true] at h
    have := add_padTo8 (sizeRT t)
    simp [fieldImages, sizesRT, sumAligned, runtimeImage_length t v h.1, fieldImages_length ts vs h.2]
    omega
theorem variantImage_length : ∀ (ts : List Ty) (i : Nat) (p : Val) (u : Nat), hasTypeVariant ts i p = true →
    maxList (sizesRT ts) ≤ u → (variantImage ts i p u).length = u
  | [], _, _, _, h, _ => by simp [hasTypeVariant] at h
  | t :: _, 0, p, u, h, hu => by
    simp only [hasTypeVariant] at h
    simp only [sizesRT, maxList] at hu
    simp [variantImage, runtimeImage_length t p h]; omega
  | _ :: ts, i + 1, p, u, h, hu => by
    simp only [hasTypeVariant] at h
    simp only [sizesRT, maxList] at hu
    simp [variantImage, variantImage_length ts i p u h (by omega)]
end

/-! ## `MemoryRepresentation` facts -/

mutual
def MemRep.noPad : MemRep → Bool
  | .pad _ => false
  | .blob _ => true
  | .and xs => MemRep.noPadList xs
  | .or xs => MemRep.noPadList xs
  | .arr a _ => a.noPad
def MemRep.noPadList : List MemRep → Bool
  | [] => true
  | x :: xs => x.noPad && MemRep.noPadList xs
end

mutual
theorem MemRep.beq_eq : ∀ (a b : MemRep), a.beq b = true → a = b
  | .pad a, .pad b, h => by simp [MemRep.beq] at h; simp [h]
  | .blob a, .blob b, h => by simp [MemRep.beq] at h; simp [h]
  | .and xs, .and ys, h => by simp only [MemRep.beq] at h; rw [MemRep.beqList_eq xs ys h]
  | .or xs, .or ys, h => by simp only [MemRep.beq] at h; rw [MemRep.beqList_eq xs ys h]
  | .arr a n, .arr b m, h => by
    simp only [MemRep.beq, Bool.and_eq_true, beq_iff_eq] at h
    rw [MemRep.beq_eq a b h.1, h.2]
  | .pad _, .blob _, h | .pad _, .and _, h | .pad _, .or _, h | .pad _, .arr _ _, h
  | .blob _, .pad _, h | .blob _, .and _, h | .blob _, .or _, h | .blob _, .arr _ _, h
  | .and _, .pad _, h | .and _, .blob _, h | .and _, .or _, h | .and _, .arr _ _, h
  | .or _, .pad _, h | .or _, .blob _, h | .or _, .and _, h | .or _, .arr _ _, h
  | .arr _ _, .pad _, h | .arr _ _, .blob _, h | .arr _ _, .and _, h | .arr _ _, .or _, h => by
    simp [MemRep.beq] at h
theorem MemRep.beqList_eq : ∀ (xs ys : List MemRep), MemRep.beqList xs ys = true → xs = ys
  | [], [], _ => rfl
  | [], _ :: _, h => by simp [MemRep.beqList] at h
  | _ :: _, [], h => by simp [MemRep.beqList] at h
  | x :: xs, y :: ys, h => by
    simp only [MemRep.beqList, Bool.and_eq_true] at h
    rw [MemRep.beq_eq x y h.1, MemRep.beqList_eq xs ys h.2]
end

theorem noPadList_iff : ∀ {l : List MemRep}, MemRep.noPadList l = true ↔ ∀ x ∈ l, x.noPad = true
  | [] => by simp [MemRep.noPadList]
  | a :: r => by simp [MemRep.noPadList, noPadList_iff (l := r)]

mutual
theorem encodingRepr_noPad : ∀ (t : Ty) (e : MemRep), encodingRepr t = some e → e.noPad = true
  | .u8, e, h | .u16, e, h | .u32, e, h | .u64, e, h | .u256, e, h | .b256, e, h | .bool, e, h
  | .strArray _, e, h | .trivialBool, e, h | .unit, e, h => by
    simp only [encodingRepr, Option.some.injEq] at h; subst h; simp [MemRep.noPad, MemRep.noPadList]
  | .array t n, e, h => by
    simp only [encodingRepr] at h
    split at h
    · rename_i r hr; cases h; simpa [MemRep.noPad] using encodingRepr_noPad t r hr
    · cases h
  | .tuple ts, e, h => by
    simp only [encodingRepr] at h
    split at h
    · rename_i rs hr; cases h; simpa [MemRep.noPad] using encodingReprs_noPad ts rs hr
    · cases h
  | .struct ts, e, h => by
    simp only [encodingRepr] at h
    split at h
    · rename_i rs hr; cases h; simpa [MemRep.noPad] using encodingReprs_noPad ts rs hr
    · cases h
  | .enum ts, e, h => by
    simp only [encodingRepr] at h
    split at h
    · rename_i rs hr
      split at h <;> cases h <;> simp [MemRep.noPad, MemRep.noPadList, encodingReprs_noPad ts rs hr]
    · cases h
  | .vec _, e, h | .bytes, e, h | .string, e, h | .strSlice, e, h | .rawSlice, e, h => by
    simp [encodingRepr] at h
  | .trivialEnum t, e, h => by
    simp only [encodingRepr] at h
    split at h
    · rename_i r hr; cases h; simp [MemRep.noPad, MemRep.noPadList, encodingRepr_noPad t r hr]
    · cases h
theorem encodingReprs_noPad : ∀ (ts : List Ty) (es : List MemRep), encodingReprs ts = some es →
    MemRep.noPadList es = true
  | [], es, h => by simp only [encodingReprs, Option.some.injEq] at h; subst h; rfl
  | t :: ts, es, h => by
    simp only [encodingReprs] at h
    split at h
    · rename_i r rs hr hrs
      cases h
      simp [MemRep.noPadList, encodingRepr_noPad t r hr, encodingReprs_noPad ts rs hrs]
    · cases h
end


/-! ## the description `get_runtime_representation` gives has the size of the real layout -/

theorem withPad_len_right (r : MemRep) (p : Nat) : (withPad .right r p).len = r.len + p := by
  unfold withPad; split <;> simp_all [MemRep.len, MemRep.lenSum]
theorem withPad_len_left (r : MemRep) (p : Nat) : (withPad .left r p).len = r.len + p := by
  unfold withPad; split <;> simp_all [MemRep.len, MemRep.lenSum, Nat.add_comm]

theorem withPad_noPad_right {r : MemRep} {p : Nat} (h : (withPad .right r p).noPad = true) : p = 0 := by
  unfold withPad at h; split at h
  · assumption
  · simp [MemRep.noPad, MemRep.noPadList] at h
theorem withPad_noPad_left {r : MemRep} {p : Nat} (h : (withPad .left r p).noPad = true) : p = 0 := by
  unfold withPad at h; split at h
  · assumption
  · simp [MemRep.noPad, MemRep.noPadList] at h
theorem withPad_zero (rule : MemRepr.PadRule) (r : MemRep) : withPad rule r 0 = r := by simp [withPad]

theorem structItem_len (r : MemRep) : (structItem r).len = align8 r.len := by
  simp [structItem, MemRepr.rtStructPad, withPad_len_right, add_padTo8]

theorem structItem_noPad {r : MemRep} (h : (structItem r).noPad = true) : padTo8 r.len = 0 ∧ structItem r = r := by
  have := withPad_noPad_right (by simpa [structItem, MemRepr.rtStructPad] using h)
  exact ⟨this, by simp [structItem, this, withPad_zero]⟩

theorem mem_lenMax {x : MemRep} : ∀ {l : List MemRep}, x ∈ l → x.len ≤ MemRep.lenMax l
  | b :: r, h => by
    simp only [List.mem_cons] at h
    simp only [MemRep.lenMax]
    rcases h with rfl | h
    · omega
    · have := mem_lenMax h; omega

theorem lenMax_const {c : Nat} : ∀ {l : List MemRep}, (∀ x ∈ l, x.len = c) → l ≠ [] → MemRep.lenMax l = c
  | [a], h, _ => by simp [MemRep.lenMax, h a (by simp)]
  | a :: b :: r, h, _ => by
    have := lenMax_const (l := b :: r) (fun x hx => h x (by simp [hx])) (by simp)
    simp only [MemRep.lenMax] at this ⊢
    rw [this, h a (by simp)]; simp

theorem unionItems_len (rs : List MemRep) : MemRep.lenMax (unionItems rs) = align8 (MemRep.lenMax rs) := by
  cases rs with
  | nil => rfl
  | cons a r =>
    apply lenMax_const
    · intro x hx
      simp only [unionItems, List.mem_map] at hx
      obtain ⟨it, hit, rfl⟩ := hx
      have := mem_lenMax hit
      have := add_padTo8 (MemRep.lenMax (a :: r))
      simp only [MemRepr.rtUnionPad, withPad_len_left]; omega
    · simp [unionItems]

theorem unionItems_noPad {rs : List MemRep} (h : MemRep.noPadList (unionItems rs) = true) :
    ∀ r ∈ rs, r.len = align8 (MemRep.lenMax rs) := by
  intro r hr
  have h1 := noPadList_iff.mp h (withPad MemRepr.rtUnionPad r (padTo8 (MemRep.lenMax rs) + (MemRep.lenMax rs - r.len)))
    (by simp only [unionItems, List.mem_map]; exact ⟨r, hr, rfl⟩)
  have h2 := withPad_noPad_left (by simpa [MemRepr.rtUnionPad] using h1)
  have := mem_lenMax hr
  have := (padTo8_zero_iff (MemRep.lenMax rs)).mp (by omega)
  omega

theorem unionItems_eq_self {rs : List MemRep} (h : MemRep.noPadList (unionItems rs) = true) : unionItems rs = rs := by
  have hall := unionItems_noPad h
  have hbig : padTo8 (MemRep.lenMax rs) = 0 := by
    cases rs with
    | nil => rfl
    | cons a r =>
      have h1 := hall a (by simp)
      have h2 := mem_lenMax (x := a) (l := a :: r) (by simp)
      have := align8_ge (MemRep.lenMax (a :: r))
      rw [padTo8_zero_iff]; omega
  simp only [unionItems]
  conv => rhs; rw [← List.map_id rs]
  apply List.map_congr_left
  intro r hr
  have h1 := hall r hr
  have h2 := (padTo8_zero_iff _).mp hbig
  have : padTo8 (MemRep.lenMax rs) + (MemRep.lenMax rs - r.len) = 0 := by omega
  simp [this, withPad_zero]

mutual
theorem runtimeRepr_len : ∀ t : Ty, (runtimeRepr t).len = sizeRT t
  | .u8 => by simp [runtimeRepr, sizeRT, MemRep.len, MemRepr.rtU8]
  | .u16 => by simp [runtimeRepr, sizeRT, MemRep.len, MemRepr.rtU64]
  | .u32 => by simp [runtimeRepr, sizeRT, MemRep.len, MemRepr.rtU64]
  | .u64 => by simp [runtimeRepr, sizeRT, MemRep.len, MemRepr.rtU64]
  | .u256 => by simp [runtimeRepr, sizeRT, MemRep.len, MemRepr.rtU256]
  | .b256 => by simp [runtimeRepr, sizeRT, MemRep.len, MemRepr.rtB256]
  | .bool => by simp [runtimeRepr, sizeRT, MemRep.len, MemRepr.rtBool]
  | .unit => by simp [runtimeRepr, sizeRT, MemRep.len, MemRep.lenSum]
  | .strArray n => by
    simp only [runtimeRepr, sizeRT, MemRepr.rtStrArrayPad]
    split
    · simp [MemRep.len]
    · simp [withPad_len_right, MemRep.len, add_padTo8]
  | .array t n => by simp [runtimeRepr, sizeRT, MemRep.len, runtimeRepr_len t, Nat.mul_comm]
  | .tuple ts => by simp [runtimeRepr, sizeRT, MemRep.len, runtimeReprFields_len ts]
  | .struct ts => by simp [runtimeRepr, sizeRT, MemRep.len, runtimeReprFields_len ts]
  | .enum ts => by
    simp only [runtimeRepr, sizeRT]
    split
    · simp [MemRep.len, MemRep.lenSum, MemRepr.rtU64]
    · simp [MemRep.len, MemRep.lenSum, MemRepr.rtU64, structItem_len, unionItems_len, runtimeReprs_len ts, align8_idem]
  | .vec _ => by simp [runtimeRepr, sizeRT, MemRep.len, MemRep.lenSum, MemRepr.rtU64, MemRepr.rtPtr]
  | .bytes => by simp [runtimeRepr, sizeRT, MemRep.len, MemRep.lenSum, MemRepr.rtU64, MemRepr.rtPtr]
  | .string => by simp [runtimeRepr, sizeRT, MemRep.len, MemRep.lenSum, MemRepr.rtU64, MemRepr.rtPtr]
  | .strSlice => by simp [runtimeRepr, sizeRT, MemRep.len, MemRepr.rtStringSlice]
  | .rawSlice => by simp [runtimeRepr, sizeRT, MemRep.len, MemRepr.rtSlice]
  | .trivialBool => by simp [runtimeRepr, sizeRT, MemRep.len, MemRep.lenSum, MemRepr.rtU64]
  | .trivialEnum t => by simp [runtimeRepr, sizeRT, MemRep.len, MemRep.lenSum, structItem_len, runtimeRepr_len t]
theorem runtimeReprFields_len : ∀ ts : List Ty, MemRep.lenSum (runtimeReprFields ts) = sumAligned (sizesRT ts)
  | [] => rfl
  | t :: ts => by
    simp [runtimeReprFields, MemRep.lenSum, sizesRT, sumAligned, structItem_len, runtimeRepr_len t, runtimeReprFields_len ts]
theorem runtimeReprs_len : ∀ ts : List Ty, MemRep.lenMax (runtimeReprs ts) = maxList (sizesRT ts)
  | [] => rfl
  | t :: ts => by simp [runtimeReprs, MemRep.lenMax, sizesRT, maxList, runtimeRepr_len t, runtimeReprs_len ts]
end

theorem runtimeReprs_eq_map : ∀ ts : List Ty, runtimeReprs ts = ts.map runtimeRepr
  | [] => rfl
  | t :: ts => by simp [runtimeReprs, runtimeReprs_eq_map ts]

/-- word-sized fields: the layout puts no padding after any of them -/
def allWordSized : List Nat → Bool
  | [] => true
  | a :: r => padTo8 a == 0 && allWordSized r

theorem runtimeReprFields_noPad : ∀ ts : List Ty, MemRep.noPadList (runtimeReprFields ts) = true →
    allWordSized (sizesRT ts) = true
  | [], _ => rfl
  | t :: ts, h => by
    simp only [runtimeReprFields, MemRep.noPadList, Bool.and_eq_true] at h
    have h1 := (structItem_noPad h.1).1
    rw [runtimeRepr_len] at h1
    simp [sizesRT, allWordSized, h1, runtimeReprFields_noPad ts h.2]

/-- the mem-id test on a struct / tuple: no field is followed by padding -/
theorem memIdEq_fields {ts : List Ty} {es : List MemRep} (hes : encodingReprs ts = some es)
    (h : (MemRep.and (runtimeReprFields ts)).beq (.and es) = true) : allWordSized (sizesRT ts) = true := by
  have := MemRep.beq_eq _ _ h
  simp only [MemRep.and.injEq] at this
  apply runtimeReprFields_noPad
  rw [this]
  exact encodingReprs_noPad ts es hes

theorem memIdEq_struct {ts : List Ty} (h : memIdEq (.struct ts) = true) : allWordSized (sizesRT ts) = true := by
  simp only [memIdEq, encodingRepr, runtimeRepr] at h
  cases hes : encodingReprs ts with
  | none => simp [hes] at h
  | some es => exact memIdEq_fields hes (by simpa [hes] using h)

theorem memIdEq_tuple {ts : List Ty} (h : memIdEq (.tuple ts) = true) : allWordSized (sizesRT ts) = true := by
  simp only [memIdEq, encodingRepr, runtimeRepr] at h
  cases hes : encodingReprs ts with
  | none => simp [hes] at h
  | some es => exact memIdEq_fields hes (by simpa [hes] using h)

/-- the mem-id test on an enum: either tag only, or every variant fills the (word-sized) union exactly -/
theorem memIdEq_enum {ts : List Ty} (h : memIdEq (.enum ts) = true) :
    allZero (sizesRT ts) = true ∨
      (allZero (sizesRT ts) = false ∧ ∀ s ∈ sizesRT ts, s = align8 (maxList (sizesRT ts))) := by
  cases hz : allZero (sizesRT ts) with
  | true => exact .inl rfl
  | false =>
    refine .inr ⟨rfl, ?_⟩
    simp only [memIdEq, encodingRepr, runtimeRepr, hz] at h
    cases hes : encodingReprs ts with
    | none => simp [hes] at h
    | some es =>
      simp only [hes] at h
      by_cases hz2 : allLenZero es = true
      · -- encoding: tag only; runtime has two items
        simp only [hz2, ↓reduceIte, Bool.false_eq_true] at h
        have := MemRep.beq_eq _ _ h
        simp at this
      · simp only [hz2, ↓reduceIte, Bool.false_eq_true] at h
        have heq := MemRep.beq_eq _ _ h
        simp only [MemRep.and.injEq, List.cons.injEq, and_true] at heq
        obtain ⟨_, h2⟩ := heq
        have hnp : (MemRep.or es).noPad = true := by simpa [MemRep.noPad] using encodingReprs_noPad ts es hes
        rw [← h2] at hnp
        obtain ⟨_, h3⟩ := structItem_noPad hnp
        rw [h3] at hnp
        simp only [MemRep.noPad] at hnp
        have hall := unionItems_noPad hnp
        intro s hs
        rw [sizesRT_eq_map] at hs
        simp only [List.mem_map] at hs
        obtain ⟨t, ht, rfl⟩ := hs
        have := hall (runtimeRepr t) (by rw [runtimeReprs_eq_map]; exact List.mem_map_of_mem ht)
        rw [runtimeRepr_len, runtimeReprs_len] at this
        exact this


/-! ## the generated tables say what the soundness proofs need -/

/-- What `Generated/CodecTrivial.lean` and `Generated/MemRepr.lean` must say for the fast paths to be sound
(everything else in them is free to change). Checked by `decide` against the regenerated tables. -/
def TablesOK : Prop :=
  -- leaves whose memory image is not their encoding must not be marked trivial
  CodecTrivial.enc_u16 = .lit false ∧ CodecTrivial.enc_u32 = .lit false ∧
  CodecTrivial.dec_u16 = .lit false ∧ CodecTrivial.dec_u32 = .lit false ∧
  (CodecTrivial.strArrayNoPadding = false → CodecTrivial.enc_strArray false = .lit false ∧ CodecTrivial.dec_strArray false = .lit false) ∧
  CodecTrivial.enc_vec = .lit false ∧ CodecTrivial.enc_bytes = .lit false ∧ CodecTrivial.enc_string = .lit false ∧
  CodecTrivial.enc_strSlice = .lit false ∧ CodecTrivial.enc_rawSlice = .lit false ∧
  CodecTrivial.dec_vec = .lit false ∧ CodecTrivial.dec_bytes = .lit false ∧ CodecTrivial.dec_string = .lit false ∧
  CodecTrivial.dec_strSlice = .lit false ∧ CodecTrivial.dec_rawSlice = .lit false ∧
  -- not every byte is a `bool`, not every word a tag
  CodecTrivial.dec_bool = .lit false ∧ CodecTrivial.dec_enum = .lit false ∧
  -- composites: mem-id test and every component
  CodecTrivial.enc_array = .param 0 ∧ CodecTrivial.dec_array = .param 0 ∧
  CodecTrivial.enc_struct = .allFields true ∧ CodecTrivial.dec_struct = .allFields true ∧
  CodecTrivial.enc_enum = .allFields true ∧
  (∀ k, k < CodecTrivial.enc_tuple.length → CodecTrivial.enc_tuple[k]? = some (.conj true (List.range (k + 1)))) ∧
  (∀ k, k < CodecTrivial.dec_tuple.length → CodecTrivial.dec_tuple[k]? = some (.conj true (List.range (k + 1)))) ∧
  CodecTrivial.extraImpls = [] ∧ CodecTrivial.autoImplTemplateOk = true ∧
  -- decoders validate
  CodecTrivial.boolDecode = .strict ∧ CodecTrivial.enumDecodeRejectsUnknownTag = true ∧
  CodecTrivial.structDecodeAllFields = true ∧ CodecTrivial.structEncodeAllFields = true ∧
  CodecTrivial.enumEncodeTagThenPayload = true ∧
  CodecTrivial.encodeShapeKnown = true ∧ CodecTrivial.decodeShapeKnown = true ∧
  CodecTrivial.vecEncShapeKnown = true ∧ CodecTrivial.vecDecShapeKnown = true ∧
  CodecTrivial.newEncoding = true ∧ CodecTrivial.featuresKnown = true ∧
  -- the two descriptions use the layout's sizes and describe all of its padding
  MemRepr.rtBool = 1 ∧ MemRepr.rtU8 = 1 ∧ MemRepr.rtU64 = 8 ∧ MemRepr.rtU256 = 32 ∧ MemRepr.rtB256 = 32 ∧
  MemRepr.rtPtr = 8 ∧ MemRepr.rtSlice = 16 ∧ MemRepr.rtStringSlice = 16 ∧
  MemRepr.rtStructPad = .right ∧ MemRepr.rtUnionPad = .left ∧ MemRepr.rtStrArrayPad = .right ∧
  MemRepr.irUnit = 0 ∧ MemRepr.irU8Bool = 1 ∧ MemRepr.irWord = 8 ∧ MemRepr.irU256 = 32 ∧ MemRepr.irB256 = 32 ∧
  MemRepr.irSlice = 16 ∧ MemRepr.irStringSlice = 16 ∧
  MemRepr.shapeFlags.all (·.2) = true

instance : Decidable TablesOK := by unfold TablesOK; infer_instance

theorem tables_wellformed_aux : TablesOK := by decide

theorem allIdx_iff {comps : List Bool} : ∀ {idxs : List Nat},
    allIdx comps idxs = true ↔ ∀ i ∈ idxs, comps.getD i true = true
  | [] => by simp [allIdx]
  | a :: r => by simp [allIdx, allIdx_iff (idxs := r)]

theorem allIdx_range {comps : List Bool} (h : allIdx comps (List.range comps.length) = true) :
    allTrue comps = true := by
  rw [allTrue_iff]
  intro b hb
  obtain ⟨i, hi, rfl⟩ := List.getElem_of_mem hb
  have := allIdx_iff.mp h i (List.mem_range.mpr hi)
  simpa [List.getD, List.getElem?_eq_getElem hi] using this

theorem tuple_enc_trivial {n : Nat} {m : Bool} {comps : List Bool} (hn : 0 < n) (hc : comps.length = n)
    (h : evalBody (tupleBody CodecTrivial.enc_tuple n) m comps = true) : m = true ∧ allTrue comps = true := by
  obtain ⟨k, rfl⟩ : ∃ k, n = k + 1 := ⟨n - 1, by omega⟩
  simp only [tupleBody] at h
  by_cases hk : k < CodecTrivial.enc_tuple.length
  · have := tables_wellformed_aux.2.2.2.2.2.2.2.2.2.2.2.2.2.2.2.2.2.2.2.2.2.2.1 k hk
    rw [this] at h
    simp only [evalBody, Bool.not_true, Bool.false_or, Bool.and_eq_true] at h
    exact ⟨h.1, allIdx_range (by rw [hc]; exact h.2)⟩
  · rw [List.getElem?_eq_none (by omega)] at h
    simp [evalBody] at h

theorem tuple_dec_trivial {n : Nat} {m : Bool} {comps : List Bool} (hn : 0 < n) (hc : comps.length = n)
    (h : evalBody (tupleBody CodecTrivial.dec_tuple n) m comps = true) : m = true ∧ allTrue comps = true := by
  obtain ⟨k, rfl⟩ : ∃ k, n = k + 1 := ⟨n - 1, by omega⟩
  simp only [tupleBody] at h
  by_cases hk : k < CodecTrivial.dec_tuple.length
  · have := tables_wellformed_aux.2.2.2.2.2.2.2.2.2.2.2.2.2.2.2.2.2.2.2.2.2.2.2.1 k hk
    rw [this] at h
    simp only [evalBody, Bool.not_true, Bool.false_or, Bool.and_eq_true] at h
    exact ⟨h.1, allIdx_range (by rw [hc]; exact h.2)⟩
  · rw [List.getElem?_eq_none (by omega)] at h
    simp [evalBody] at h

theorem isEncodeTrivials_length (ts : List Ty) : (isEncodeTrivials ts).length = ts.length := by
  simp [isEncodeTrivials_eq_map]
theorem isDecodeTrivials_length (ts : List Ty) : (isDecodeTrivials ts).length = ts.length := by
  simp [isDecodeTrivials_eq_map]

/-! ## C10, encode direction -/

theorem flatMapImg_known {f : Val → List MByte} {g : Val → List UInt8} {p : Val → Bool}
    (hf : ∀ v, p v = true → f v = known (g v)) :
    ∀ vs, allVals p vs = true → flatMapImg f vs = known (flatMapVals g vs)
  | [], _ => rfl
  | v :: vs, h => by
    simp only [allVals, Bool.and_eq_true] at h
    simp [flatMapImg, flatMapVals, known_append, hf v h.1, flatMapImg_known hf vs h.2]

mutual
theorem enc_img : ∀ (t : Ty) (v : Val), noTrivialEnum t = true → isEncodeTrivial t = true → hasType t v = true →
    runtimeImage t v = known (encode t v)
  | .u8, v, _, _, _ => by simp [runtimeImage, encode]
  | .u16, v, _, ht, _ => by simp [isEncodeTrivial, evalBody, CodecTrivial.enc_u16] at ht
  | .u32, v, _, ht, _ => by simp [isEncodeTrivial, evalBody, CodecTrivial.enc_u32] at ht
  | .u64, v, _, _, _ => by simp [runtimeImage, encode]
  | .u256, v, _, _, _ => by simp [runtimeImage, encode]
  | .b256, v, _, _, _ => by simp [runtimeImage, encode]
  | .bool, v, _, _, _ => by simp [runtimeImage, encode]
  | .unit, v, _, _, _ => by simp [runtimeImage, encode]
  | .strArray n, v, _, ht, _ => by
    simp [isEncodeTrivial, evalBody, CodecTrivial.enc_strArray, CodecTrivial.strArrayNoPadding] at ht
  | .array t n, v, hn, ht, h => by
    have ht' : isEncodeTrivial t = true := by
      simpa [isEncodeTrivial, evalBody, CodecTrivial.enc_array] using ht
    simp only [noTrivialEnum] at hn
    cases v <;> simp [hasType] at h
    simpa [runtimeImage, encode, Val.seqD] using
      flatMapImg_known (fun w hw => enc_img t w hn ht' hw) _ h.2
  | .tuple ts, v, hn, ht, h => by
    simp only [noTrivialEnum] at hn
    cases v <;> simp [hasType] at h
    rename_i vs
    cases ts with
    | nil => cases vs <;> simp [hasTypes] at h; simp [runtimeImage, encode, fieldImages, encodes]
    | cons t0 ts0 =>
      simp only [isEncodeTrivial] at ht
      obtain ⟨hm, hall⟩ := tuple_enc_trivial (by simp) (isEncodeTrivials_length _) ht
      simpa [runtimeImage, encode, Val.seqD] using
        enc_imgs (t0 :: ts0) vs hn hall (memIdEq_tuple hm) h
  | .struct ts, v, hn, ht, h => by
    simp only [noTrivialEnum] at hn
    cases v <;> simp [hasType] at h
    rename_i vs
    simp only [isEncodeTrivial, evalBody, CodecTrivial.enc_struct, Bool.not_true, Bool.false_or,
      Bool.and_eq_true] at ht
    simpa [runtimeImage, encode, Val.seqD] using enc_imgs ts vs hn ht.2 (memIdEq_struct ht.1) h
  | .enum ts, v, hn, ht, h => by
    simp only [noTrivialEnum] at hn
    cases v <;> simp [hasType] at h
    rename_i i p
    simp only [isEncodeTrivial, evalBody, CodecTrivial.enc_enum, Bool.not_true, Bool.false_or,
      Bool.and_eq_true] at ht
    rcases memIdEq_enum ht.1 with hz | ⟨hz, hsz⟩
    · simp [runtimeImage, encode, Val.tagD, Val.payloadD, hz, enc_variant_zero ts i p hn ht.2 hz h.2]
    · simp [runtimeImage, encode, Val.tagD, Val.payloadD, hz, known_append,
        enc_variant ts i p _ hn ht.2 hsz h.2]
  | .vec t, v, _, ht, _ => by simp [isEncodeTrivial, evalBody, CodecTrivial.enc_vec] at ht
  | .bytes, v, _, ht, _ => by simp [isEncodeTrivial, evalBody, CodecTrivial.enc_bytes] at ht
  | .string, v, _, ht, _ => by simp [isEncodeTrivial, evalBody, CodecTrivial.enc_string] at ht
  | .strSlice, v, _, ht, _ => by simp [isEncodeTrivial, evalBody, CodecTrivial.enc_strSlice] at ht
  | .rawSlice, v, _, ht, _ => by simp [isEncodeTrivial, evalBody, CodecTrivial.enc_rawSlice] at ht
  | .trivialBool, v, _, _, _ => by simp [runtimeImage, encode]
  | .trivialEnum t, v, hn, _, _ => by simp [noTrivialEnum] at hn
theorem enc_imgs : ∀ (ts : List Ty) (vs : List Val), noTrivialEnums ts = true →
    allTrue (isEncodeTrivials ts) = true → allWordSized (sizesRT ts) = true → hasTypes ts vs = true →
    fieldImages ts vs = known (encodes ts vs)
  | [], [], _, _, _, _ => rfl
  | [], _ :: _, _, _, _, h => by simp [hasTypes] at h
  | _ :: _, [], _, _, _, h => by simp [hasTypes] at h
  | t :: ts, v :: vs, hn, ht, hw, h => by
    simp only [noTrivialEnums, Bool.and_eq_true] at hn
    simp only [isEncodeTrivials, allTrue, Bool.and_eq_true] at ht
    simp only [sizesRT, allWordSized, Bool.and_eq_true, beq_iff_eq] at hw
    simp only [hasTypes, Bool.and_eq_true] at h
    simp [fieldImages, encodes, known_append, hw.1, enc_img t v hn.1 ht.1 h.1,
      enc_imgs ts vs hn.2 ht.2 hw.2 h.2]
theorem enc_variant : ∀ (ts : List Ty) (i : Nat) (p : Val) (u : Nat), noTrivialEnums ts = true →
    allTrue (isEncodeTrivials ts) = true → (∀ s ∈ sizesRT ts, s = u) → hasTypeVariant ts i p = true →
    variantImage ts i p u = known (encodeVariant ts i p)
  | [], _, _, _, _, _, _, h => by simp [hasTypeVariant] at h
  | t :: _, 0, p, u, hn, ht, hs, h => by
    simp only [noTrivialEnums, Bool.and_eq_true] at hn
    simp only [isEncodeTrivials, allTrue, Bool.and_eq_true] at ht
    simp only [hasTypeVariant] at h
    have : sizeRT t = u := hs _ (by simp [sizesRT])
    simp [variantImage, encodeVariant, this, enc_img t p hn.1 ht.1 h]
  | _ :: ts, i + 1, p, u, hn, ht, hs, h => by
    simp only [noTrivialEnums, Bool.and_eq_true] at hn
    simp only [isEncodeTrivials, allTrue, Bool.and_eq_true] at ht
    simp only [hasTypeVariant] at h
    simp [variantImage, encodeVariant,
      enc_variant ts i p u hn.2 ht.2 (fun s hs' => hs s (by simp [sizesRT, hs'])) h]
theorem enc_variant_zero : ∀ (ts : List Ty) (i : Nat) (p : Val), noTrivialEnums ts = true →
    allTrue (isEncodeTrivials ts) = true → allZero (sizesRT ts) = true → hasTypeVariant ts i p = true →
    encodeVariant ts i p = []
  | [], _, _, _, _, _, h => by simp [hasTypeVariant] at h
  | t :: _, 0, p, hn, ht, hz, h => by
    simp only [noTrivialEnums, Bool.and_eq_true] at hn
    simp only [isEncodeTrivials, allTrue, Bool.and_eq_true] at ht
    simp only [sizesRT, allZero, Bool.and_eq_true, beq_iff_eq] at hz
    simp only [hasTypeVariant] at h
    have h1 := enc_img t p hn.1 ht.1 h
    have h2 := runtimeImage_length t p h
    rw [h1, known_length, hz.1] at h2
    simpa [encodeVariant] using List.eq_nil_of_length_eq_zero h2
  | _ :: ts, i + 1, p, hn, ht, hz, h => by
    simp only [noTrivialEnums, Bool.and_eq_true] at hn
    simp only [isEncodeTrivials, allTrue, Bool.and_eq_true] at ht
    simp only [sizesRT, allZero, Bool.and_eq_true, beq_iff_eq] at hz
    simp only [hasTypeVariant] at h
    simp [encodeVariant, enc_variant_zero ts i p hn.2 ht.2 hz.2 h]
end


/-! ## C10, decode direction: every byte string of the right size is the image of a value, and decodes to it -/

theorem decodeNum_exact {k : Nat} {bs : List UInt8} (r : List UInt8) (h : bs.length = k) :
    decodeNum k (bs ++ r) = some (.num (beNat bs), r) := by
  subst h
  have := decodeNum_append bs.length (beNat bs) r (beNat_lt bs)
  rwa [beBytes_beNat] at this

theorem num_img {k : Nat} {bs : List UInt8} (h : bs.length = k) : beBytes k (beNat bs) = bs := by
  rw [← h, beBytes_beNat]

theorem rep_exists {t : Ty} {k : Nat}
    (hel : ∀ (bs r : List UInt8), bs.length = k →
      ∃ v, hasType t v = true ∧ runtimeImage t v = known bs ∧ decode t (bs ++ r) = some (v, r)) :
    ∀ (n : Nat) (bs r : List UInt8), bs.length = n * k →
      ∃ vs, vs.length = n ∧ allVals (hasType t) vs = true ∧ flatMapImg (runtimeImage t) vs = known bs ∧
        decodeRep (decode t) n (bs ++ r) = some (vs, r)
  | 0, bs, r, h => by
    have : bs = [] := List.eq_nil_of_length_eq_zero (by simpa using h)
    subst this
    exact ⟨[], rfl, rfl, rfl, by simp [decodeRep]⟩
  | n + 1, bs, r, h => by
    have hk : k ≤ bs.length := by rw [h, Nat.succ_mul]; omega
    obtain ⟨v, hv, hi, hd⟩ := hel (bs.take k) (bs.drop k ++ r) (by simp; omega)
    obtain ⟨vs, hl, ha, him, hds⟩ := rep_exists hel n (bs.drop k) r (by simp [h, Nat.succ_mul])
    refine ⟨v :: vs, by simp [hl], by simp [allVals, hv, ha], ?_, ?_⟩
    · simp [flatMapImg, hi, him, ← known_append]
    · have : bs ++ r = bs.take k ++ (bs.drop k ++ r) := by rw [← List.append_assoc, List.take_append_drop]
      simp [decodeRep, this, hd, hds]

mutual
theorem dec_img : ∀ (t : Ty) (bs r : List UInt8), noTrivialEnum t = true → isDecodeTrivial t = true →
    bs.length = sizeRT t →
    ∃ v, hasType t v = true ∧ runtimeImage t v = known bs ∧ decode t (bs ++ r) = some (v, r)
  | .u8, bs, r, _, _, h => by
    simp only [sizeRT] at h
    exact ⟨.num (beNat bs), by simpa [hasType, isNumLt, h] using beNat_lt bs,
      by simp [runtimeImage, Val.numD, num_img h], by simpa [decode] using decodeNum_exact r h⟩
  | .u16, _, _, _, ht, _ => by simp [isDecodeTrivial, evalBody, CodecTrivial.dec_u16] at ht
  | .u32, _, _, _, ht, _ => by simp [isDecodeTrivial, evalBody, CodecTrivial.dec_u32] at ht
  | .u64, bs, r, _, _, h => by
    simp only [sizeRT] at h
    exact ⟨.num (beNat bs), by simpa [hasType, isNumLt, h] using beNat_lt bs,
      by simp [runtimeImage, Val.numD, num_img h], by simpa [decode] using decodeNum_exact r h⟩
  | .u256, bs, r, _, _, h => by
    simp only [sizeRT] at h
    exact ⟨.num (beNat bs), by simpa [hasType, isNumLt, h] using beNat_lt bs,
      by simp [runtimeImage, Val.numD, num_img h], by simpa [decode] using decodeNum_exact r h⟩
  | .b256, bs, r, _, _, h => by
    simp only [sizeRT] at h
    exact ⟨.num (beNat bs), by simpa [hasType, isNumLt, h] using beNat_lt bs,
      by simp [runtimeImage, Val.numD, num_img h], by simpa [decode] using decodeNum_exact r h⟩
  | .bool, _, _, _, ht, _ => by simp [isDecodeTrivial, evalBody, CodecTrivial.dec_bool] at ht
  | .unit, bs, r, _, _, h => by
    have : bs = [] := List.eq_nil_of_length_eq_zero (by simpa [sizeRT] using h)
    subst this
    exact ⟨.unit, by simp [hasType], by simp [runtimeImage], by simp [decode]⟩
  | .strArray n, _, _, _, ht, _ => by
    simp [isDecodeTrivial, evalBody, CodecTrivial.dec_strArray, CodecTrivial.strArrayNoPadding] at ht
  | .array t n, bs, r, hn, ht, h => by
    have ht' : isDecodeTrivial t = true := by
      simpa [isDecodeTrivial, evalBody, CodecTrivial.dec_array] using ht
    simp only [noTrivialEnum] at hn
    simp only [sizeRT] at h
    obtain ⟨vs, hl, ha, him, hd⟩ := rep_exists (t := t) (k := sizeRT t)
      (fun bs r hb => dec_img t bs r hn ht' hb) n bs r h
    exact ⟨.seq vs, by simp [hasType, hl, ha], by simp [runtimeImage, Val.seqD, him],
      by simp [decode, hd, mapSeq]⟩
  | .tuple ts, bs, r, hn, ht, h => by
    simp only [noTrivialEnum] at hn
    simp only [sizeRT] at h
    cases ts with
    | nil =>
      have : bs = [] := List.eq_nil_of_length_eq_zero (by simpa [sizesRT, sumAligned] using h)
      subst this
      exact ⟨.seq [], by simp [hasType, hasTypes], by simp [runtimeImage, fieldImages],
        by simp [decode, decodes, mapSeq]⟩
    | cons t0 ts0 =>
      simp only [isDecodeTrivial] at ht
      obtain ⟨hm, hall⟩ := tuple_dec_trivial (by simp) (isDecodeTrivials_length _) ht
      obtain ⟨vs, hv, hi, hd⟩ := dec_imgs (t0 :: ts0) bs r hn hall (memIdEq_tuple hm) h
      exact ⟨.seq vs, by simp [hasType, hv], by simp [runtimeImage, Val.seqD, hi], by simp [decode, hd, mapSeq]⟩
  | .struct ts, bs, r, hn, ht, h => by
    simp only [noTrivialEnum] at hn
    simp only [sizeRT] at h
    simp only [isDecodeTrivial, evalBody, CodecTrivial.dec_struct, Bool.not_true, Bool.false_or,
      Bool.and_eq_true] at ht
    obtain ⟨vs, hv, hi, hd⟩ := dec_imgs ts bs r hn ht.2 (memIdEq_struct ht.1) h
    exact ⟨.seq vs, by simp [hasType, hv], by simp [runtimeImage, Val.seqD, hi], by simp [decode, hd, mapSeq]⟩
  | .enum _, _, _, _, ht, _ => by simp [isDecodeTrivial, evalBody, CodecTrivial.dec_enum] at ht
  | .vec _, _, _, _, ht, _ => by simp [isDecodeTrivial, evalBody, CodecTrivial.dec_vec] at ht
  | .bytes, _, _, _, ht, _ => by simp [isDecodeTrivial, evalBody, CodecTrivial.dec_bytes] at ht
  | .string, _, _, _, ht, _ => by simp [isDecodeTrivial, evalBody, CodecTrivial.dec_string] at ht
  | .strSlice, _, _, _, ht, _ => by simp [isDecodeTrivial, evalBody, CodecTrivial.dec_strSlice] at ht
  | .rawSlice, _, _, _, ht, _ => by simp [isDecodeTrivial, evalBody, CodecTrivial.dec_rawSlice] at ht
  | .trivialBool, bs, r, _, _, h => by
    simp only [sizeRT] at h
    exact ⟨.seq [.num (beNat bs)], by simpa [hasType, isNumLt, h] using beNat_lt bs,
      by simp [runtimeImage, Val.single, Val.numD, num_img h],
      by simp [decode, decodeRep, decodeNum_exact r h, mapSeq]⟩
  | .trivialEnum _, _, _, hn, _, _ => by simp [noTrivialEnum] at hn
theorem dec_imgs : ∀ (ts : List Ty) (bs r : List UInt8), noTrivialEnums ts = true →
    allTrue (isDecodeTrivials ts) = true → allWordSized (sizesRT ts) = true →
    bs.length = sumAligned (sizesRT ts) →
    ∃ vs, hasTypes ts vs = true ∧ fieldImages ts vs = known bs ∧ decodes ts (bs ++ r) = some (vs, r)
  | [], bs, r, _, _, _, h => by
    have : bs = [] := List.eq_nil_of_length_eq_zero (by simpa [sizesRT, sumAligned] using h)
    subst this
    exact ⟨[], rfl, rfl, by simp [decodes]⟩
  | t :: ts, bs, r, hn, ht, hw, h => by
    simp only [noTrivialEnums, Bool.and_eq_true] at hn
    simp only [isDecodeTrivials, allTrue, Bool.and_eq_true] at ht
    simp only [sizesRT, allWordSized, Bool.and_eq_true, beq_iff_eq] at hw
    simp only [sizesRT, sumAligned] at h
    have ha : align8 (sizeRT t) = sizeRT t := (padTo8_zero_iff _).mp hw.1
    rw [ha] at h
    obtain ⟨v, hv, hi, hd⟩ := dec_img t (bs.take (sizeRT t)) (bs.drop (sizeRT t) ++ r) hn.1 ht.1 (by simp; omega)
    obtain ⟨vs, hvs, his, hds⟩ := dec_imgs ts (bs.drop (sizeRT t)) r hn.2 ht.2 hw.2 (by simp; omega)
    refine ⟨v :: vs, by simp [hasTypes, hv, hvs], ?_, ?_⟩
    · simp [fieldImages, hw.1, hi, his, ← known_append]
    · have : bs ++ r = bs.take (sizeRT t) ++ (bs.drop (sizeRT t) ++ r) := by
        rw [← List.append_assoc, List.take_append_drop]
      simp [decodes, this, hd, hds]
end

/-! ## the slow path with `Vec`'s raw element copy is the canonical encoding -/

theorem flatMapVals_congr {f g : Val → List UInt8} {p : Val → Bool} (hf : ∀ v, p v = true → f v = g v) :
    ∀ vs, allVals p vs = true → flatMapVals f vs = flatMapVals g vs
  | [], _ => rfl
  | v :: vs, h => by
    simp only [allVals, Bool.and_eq_true] at h
    simp [flatMapVals, hf v h.1, flatMapVals_congr hf vs h.2]

theorem runtimeBytes_of_trivial {t : Ty} {v : Val} (hn : noTrivialEnum t = true) (ht : isEncodeTrivial t = true)
    (h : hasType t v = true) : runtimeBytes t v = encode t v := by
  simp [runtimeBytes, enc_img t v hn ht h, getD_known]

mutual
theorem slowEncode_eq : ∀ (t : Ty) (v : Val), noTrivialEnum t = true → hasType t v = true →
    slowEncode t v = encode t v
  | .u8, _, _, _ | .u16, _, _, _ | .u32, _, _, _ | .u64, _, _, _ | .u256, _, _, _ | .b256, _, _, _
  | .bool, _, _, _ | .unit, _, _, _ | .strArray _, _, _, _ | .bytes, _, _, _ | .string, _, _, _
  | .strSlice, _, _, _ | .rawSlice, _, _, _ | .trivialBool, _, _, _ => by simp [slowEncode]
  | .array t n, v, hn, h => by
    simp only [noTrivialEnum] at hn
    cases v <;> simp [hasType] at h
    simpa [slowEncode, encode, Val.seqD] using flatMapVals_congr (fun w hw => slowEncode_eq t w hn hw) _ h.2
  | .tuple ts, v, hn, h => by
    simp only [noTrivialEnum] at hn
    cases v <;> simp [hasType] at h
    simpa [slowEncode, encode, Val.seqD] using slowEncodes_eq ts _ hn h
  | .struct ts, v, hn, h => by
    simp only [noTrivialEnum] at hn
    cases v <;> simp [hasType] at h
    simpa [slowEncode, encode, Val.seqD] using slowEncodes_eq ts _ hn h
  | .enum ts, v, hn, h => by
    simp only [noTrivialEnum] at hn
    cases v <;> simp [hasType] at h
    simp [slowEncode, encode, Val.tagD, Val.payloadD, slowEncodeVariant_eq ts _ _ hn h.2]
  | .vec t, v, hn, h => by
    simp only [noTrivialEnum] at hn
    cases v <;> simp [hasType] at h
    rename_i vs
    simp only [slowEncode, encode, Val.seqD]
    congr 1
    split
    · rename_i hc
      simp only [Bool.and_eq_true] at hc
      exact flatMapVals_congr (fun w hw => runtimeBytes_of_trivial hn hc.2 hw) _ h.2
    · exact flatMapVals_congr (fun w hw => slowEncode_eq t w hn hw) _ h.2
  | .trivialEnum _, _, hn, _ => by simp [noTrivialEnum] at hn
theorem slowEncodes_eq : ∀ (ts : List Ty) (vs : List Val), noTrivialEnums ts = true → hasTypes ts vs = true →
    slowEncodes ts vs = encodes ts vs
  | [], [], _, _ => rfl
  | [], _ :: _, _, h => by simp [hasTypes] at h
  | _ :: _, [], _, h => by simp [hasTypes] at h
  | t :: ts, v :: vs, hn, h => by
    simp only [noTrivialEnums, Bool.and_eq_true] at hn
    simp only [hasTypes, Bool.and_eq_true] at h
    simp [slowEncodes, encodes, slowEncode_eq t v hn.1 h.1, slowEncodes_eq ts vs hn.2 h.2]
theorem slowEncodeVariant_eq : ∀ (ts : List Ty) (i : Nat) (p : Val), noTrivialEnums ts = true →
    hasTypeVariant ts i p = true → slowEncodeVariant ts i p = encodeVariant ts i p
  | [], _, _, _, h => by simp [hasTypeVariant] at h
  | t :: _, 0, p, hn, h => by
    simp only [noTrivialEnums, Bool.and_eq_true] at hn
    simp only [hasTypeVariant] at h
    simp [slowEncodeVariant, encodeVariant, slowEncode_eq t p hn.1 h]
  | _ :: ts, i + 1, p, hn, h => by
    simp only [noTrivialEnums, Bool.and_eq_true] at hn
    simp only [hasTypeVariant] at h
    simp [slowEncodeVariant, encodeVariant, slowEncodeVariant_eq ts i p hn.2 h]
end


/-! ## the decoder as implemented (validity checks as found in the sources) is the canonical decoder -/

theorem implBoolByte_eq (b : UInt8) : implBoolByte b = decodeBoolByte b := by
  simp [implBoolByte, CodecTrivial.boolDecode]

theorem decodeRep_congr {f g : Dec Val} (h : ∀ bs, f bs = g bs) : ∀ n bs, decodeRep f n bs = decodeRep g n bs
  | 0, _ => rfl
  | n + 1, bs => by
    simp only [decodeRep, h bs]
    split
    · rfl
    · rw [decodeRep_congr h n]

mutual
theorem slowDecode_eq : ∀ (t : Ty) (bs : List UInt8), slowDecode t bs = decode t bs
  | .u8, _ | .u16, _ | .u32, _ | .u64, _ | .u256, _ | .b256, _ | .unit, _ | .strArray _, _ | .bytes, _
  | .string, _ | .strSlice, _ | .rawSlice, _ | .trivialBool, _ => by simp [slowDecode, decode]
  | .bool, bs => by
    cases bs with
    | nil => simp [slowDecode, decode]
    | cons b r => simp [slowDecode, decode, implBoolByte_eq]
  | .array t n, bs => by simp [slowDecode, decode, decodeRep_congr (slowDecode_eq t)]
  | .tuple ts, bs => by simp [slowDecode, decode, slowDecodes_eq ts]
  | .struct ts, bs => by simp [slowDecode, decode, slowDecodes_eq ts]
  | .enum ts, bs => by
    simp only [slowDecode, decode]
    split
    · exact slowDecodeVariant_eq ts _ _ _
    · rfl
  | .vec t, bs => by simp [slowDecode, decode, decodeRep_congr (slowDecode_eq t)]
  | .trivialEnum t, bs => by simp [slowDecode, decode, decodeRep_congr (slowDecode_eq t)]
theorem slowDecodes_eq : ∀ (ts : List Ty) (bs : List UInt8), slowDecodes ts bs = decodes ts bs
  | [], _ => rfl
  | t :: ts, bs => by
    simp only [slowDecodes, decodes, slowDecode_eq t bs]
    split
    · rfl
    · simp [slowDecodes_eq ts]
theorem slowDecodeVariant_eq : ∀ (ts : List Ty) (i tag : Nat) (bs : List UInt8),
    slowDecodeVariant ts i tag bs = decodeVariant ts i tag bs
  | [], _, _, _ => rfl
  | t :: _, 0, tag, bs => by simp [slowDecodeVariant, decodeVariant, slowDecode_eq t bs]
  | _ :: ts, i + 1, tag, bs => by simp [slowDecodeVariant, decodeVariant, slowDecodeVariant_eq ts i tag bs]
end

end SwayVerif.Abi
