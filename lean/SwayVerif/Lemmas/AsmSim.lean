import SwayVerif.Lemmas.AsmGraph
/-!
The checker `validAlloc` and the simulation of virtual-register code by allocated code.
-/
namespace SwayVerif.Asm

/-! ### the property -/

/-- At `op` with live-out set `lo`: a defined virtual register and a different live-out virtual
register have different locations, except for the two ends of the copy `MOVE v w` itself. -/
def NoClobberAt {γ : Type} (col : Reg → Option γ) (op : AOp) (lo : RSet) : Prop :=
  ∀ v ∈ op.defs, v.isVirt = true → ∀ w ∈ lo, w.isVirt = true → w ≠ v →
    moveOf? op ≠ some (v, w) → ∀ c, col v = some c → col w ≠ some c

/-- No definition anywhere in `ops` overwrites the location of a value that is live after it. -/
def NoClobber {γ : Type} (ops : List AOp) (lo : List RSet) (col : Reg → Option γ) : Prop :=
  ∀ x ∈ ops.zip lo, NoClobberAt col x.1 x.2

/-- every virtual register read, written or live has a pool register below `K` -/
def Located (ops : List AOp) (lo : List RSet) (col : Reg → Option Nat) (K : Nat) : Prop :=
  (∀ op ∈ ops, ∀ r ∈ op.defs ++ op.uses, r.isVirt = true → ∃ c, col r = some c ∧ c < K) ∧
  (∀ l ∈ lo, ∀ r ∈ l, r.isVirt = true → ∃ c, col r = some c ∧ c < K)

theorem clobberFree_iff {γ : Type} [DecidableEq γ] {col : Reg → Option γ} {op : AOp} {lo : RSet} :
    clobberFree col op lo = true ↔ NoClobberAt col op lo := by
  unfold clobberFree NoClobberAt
  simp only [List.all_eq_true, Bool.or_eq_true, Bool.not_eq_true', decide_eq_true_eq]
  constructor
  · intro h v hv hvv w hw hwv hne hmv c hc hc'
    rcases h v hv with h1 | h1
    · rw [hvv] at h1; cases h1
    · rcases h1 w hw with ((h2 | h2) | h2) | h2
      · rw [hwv] at h2; cases h2
      · exact absurd h2 hne
      · exact absurd h2 hmv
      · simp [sameLoc, hc, hc'] at h2
  · intro h v hv
    cases hvv : v.isVirt
    · exact Or.inl rfl
    · refine Or.inr fun w hw => ?_
      cases hwv : w.isVirt
      · exact Or.inl (Or.inl (Or.inl rfl))
      · by_cases hne : w = v
        · exact Or.inl (Or.inl (Or.inr hne))
        · by_cases hmv : moveOf? op = some (v, w)
          · exact Or.inl (Or.inr hmv)
          · refine Or.inr ?_
            have := h v hv hvv w hw hwv hne hmv
            unfold sameLoc
            cases hc : col v with
            | none => rfl
            | some a =>
              cases hc' : col w with
              | none => rfl
              | some b =>
                simp only [decide_eq_false_iff_not]
                exact fun e => this a hc (by rw [hc', e])

theorem validAlloc_spec {ops : List AOp} {lo : List RSet} {col : Reg → Option Nat} {K : Nat}
    (h : validAlloc ops lo col K = true) :
    lo.length = ops.length ∧ NoClobber ops lo col ∧ Located ops lo col K := by
  unfold validAlloc at h
  simp only [Bool.and_eq_true, decide_eq_true_eq, List.all_eq_true] at h
  obtain ⟨⟨⟨hlen, hcf⟩, hloc⟩, hlo⟩ := h
  refine ⟨hlen, fun x hx => clobberFree_iff.1 (hcf x hx), fun op hop r hr hv => ?_,
    fun l hl r hr hv => ?_⟩
  · have := hloc op hop
    unfold located at this
    simp only [List.all_eq_true, Bool.or_eq_true, Bool.not_eq_true'] at this
    rcases this r hr with h1 | h1
    · rw [hv] at h1; cases h1
    · cases hc : col r with
      | none => rw [hc] at h1; cases h1
      | some c => rw [hc] at h1; exact ⟨c, rfl, by simpa using h1⟩
  · rcases (by simpa using hlo l hl r hr : r.isVirt = false ∨ _) with h1 | h1
    · rw [hv] at h1; cases h1
    · cases hc : col r with
      | none => rw [hc] at h1; cases h1
      | some c => rw [hc] at h1; exact ⟨c, rfl, by simpa using h1⟩

/-! ### simulation -/

theorem allocReg_const {col : Reg → Option Nat} {r : Reg} {c : Nat} :
    allocReg col r = .const c ↔ r = .const c := by
  cases r <;> simp [allocReg]

theorem allocReg_isVirt {col : Reg → Option Nat} (r : Reg) :
    (allocReg col r).isVirt = r.isVirt := by
  cases r <;> rfl

theorem allocReg_ne_of_col_ne {col : Reg → Option Nat} {a b : Reg}
    (ha : ∃ c, col a = some c) (hb : ∃ c, col b = some c) (h : ∀ c, col a = some c → col b ≠ some c)
    (hva : a.isVirt = true) (hvb : b.isVirt = true) : allocReg col a ≠ allocReg col b := by
  obtain ⟨ca, hca⟩ := ha
  obtain ⟨cb, hcb⟩ := hb
  cases a with
  | const _ => cases hva
  | virt n =>
    cases b with
    | const _ => cases hvb
    | virt m =>
      simp only [allocReg, hca, hcb, Option.getD_some, ne_eq, Reg.virt.injEq]
      intro e
      exact h ca hca (by rw [hcb, e])

/-- Writing through a renaming `f`: the value of `w` is found at `f w` provided every other written
register either stays apart from `w` or is given the value `w` has afterwards anyway. -/
theorem writeList_map {V : Type} (f : Reg → Reg) (σ τ : Reg → V) (ps : List (Reg × V)) (w : Reg)
    (hsep : ∀ p ∈ ps, p.1 ≠ w → f p.1 ≠ f w ∨ p.2 = writeList σ ps w)
    (hbase : w ∉ ps.map (·.1) → τ (f w) = σ w) :
    writeList τ (ps.map fun p => (f p.1, p.2)) (f w) = writeList σ ps w := by
  induction ps with
  | nil => exact hbase (by simp)
  | cons p ps ih =>
    simp only [List.map_cons, writeList]
    by_cases hw : w = p.1
    · simp [hw]
    · simp only [hw, if_false]
      have hp := hsep p (List.mem_cons_self ..) (fun e => hw e.symm)
      simp only [writeList, hw, if_false] at hp
      by_cases hf : f w = f p.1
      · simp only [hf, if_true]
        rcases hp with hp | hp
        · exact absurd hf.symm hp
        · exact hp
      · simp only [hf, if_false]
        apply ih
        · intro q hq hqw
          have := hsep q (List.mem_cons_of_mem _ hq) hqw
          simpa only [writeList, hw, if_false] using this
        · intro hnot
          apply hbase
          simp only [List.map_cons, List.mem_cons, not_or]
          exact ⟨hw, hnot⟩

theorem writeList_not_mem {V : Type} (σ : Reg → V) (ps : List (Reg × V)) (w : Reg)
    (h : w ∉ ps.map (·.1)) : writeList σ ps w = σ w := by
  induction ps with
  | nil => rfl
  | cons p ps ih =>
    simp only [List.map_cons, List.mem_cons, not_or] at h
    simp only [writeList, h.1, if_false]
    exact ih h.2

theorem zip_map_left' {α β γ : Type} (f : α → γ) (l : List α) (r : List β) :
    (l.map f).zip r = (l.zip r).map fun p => (f p.1, p.2) := by
  induction l generalizing r with
  | nil => simp
  | cons a l ih =>
    cases r with
    | nil => simp
    | cons b r => simp [ih]

theorem fst_mem_of_mem_zip {α β : Type} {l : List α} {r : List β} {p : α × β} (h : p ∈ l.zip r) :
    p.1 ∈ l := (List.of_mem_zip h).1

/-- What the machine semantics must respect: a MOVE copies, `defConst` are constant registers,
an op produces one value per register it writes. -/
structure SemOk {V M : Type} (sem : Sem V M) (ops : List AOp) : Prop where
  move : ∀ i op d s, ops[i]? = some op → moveOf? op = some (d, s) →
    ∀ x m outs m' n, sem.exec i [x] m = some (outs, m', n) → outs.head? = some x
  defConst : ∀ op ∈ ops, ∀ r ∈ op.defConst, r.isVirt = false
  arity : ∀ i op, ops[i]? = some op → ∀ ins m outs m' n, sem.exec i ins m = some (outs, m', n) →
    outs.length = (op.defs ++ op.defConst).length

/-- The allocated machine state `t` represents the virtual state `s`: same `pc` and memory, every
live-in virtual register is found in its pool register, constant registers agree. -/
structure Related {V M : Type} (col : Reg → Option Nat) (li : List RSet)
    (s t : MState V M) : Prop where
  pc : t.pc = s.pc
  mem : t.mem = s.mem
  live : ∀ v ∈ li.getD s.pc [], v.isVirt = true → t.regs (allocReg col v) = s.regs v
  const : ∀ c, t.regs (.const c) = s.regs (.const c)

theorem getElem?_zip_of {α β : Type} {l : List α} {r : List β} {i : Nat} {a : α}
    (hlen : r.length = l.length) (h : l[i]? = some a) : ∃ b, r[i]? = some b ∧ (a, b) ∈ l.zip r := by
  have hi : i < l.length := by
    rcases Nat.lt_or_ge i l.length with h' | h'
    · exact h'
    · rw [List.getElem?_eq_none h'] at h; cases h
  have hi' : i < r.length := by omega
  refine ⟨r[i], by simp [hi'], ?_⟩
  have hz : (l.zip r)[i]? = some (a, r[i]) := by
    simp [List.getElem?_zip_eq_some, h, hi']
  exact List.mem_of_getElem? hz

theorem simulation_step {V M : Type} (sem : Sem V M) (ops : List AOp) (li lo : List RSet)
    (col : Reg → Option Nat) (K : Nat)
    (hsol : Solution true ops li lo) (hlen : lo.length = ops.length)
    (hnc : NoClobber ops lo col) (hloc : Located ops lo col K) (hsem : SemOk sem ops)
    (s t s' : MState V M) (hR : Related col li s t) (hstep : step sem ops s = some s') :
    ∃ t', step sem (ops.map (mapOp (allocReg col))) t = some t' ∧ Related col li s' t' := by
  unfold step at hstep
  cases hop : ops[s.pc]? with
  | none => simp [hop] at hstep
  | some op =>
    simp only [hop] at hstep
    cases hex : sem.exec s.pc (op.uses.map s.regs) s.mem with
    | none => simp [hex] at hstep
    | some res =>
      obtain ⟨outs, m, nxt⟩ := res
      simp only [hex] at hstep
      split at hstep
      case isFalse => cases hstep
      case isTrue hnxt =>
      simp only [Option.some.injEq] at hstep
      subst hstep
      have hS := hsol _ _ hop
      have hopmem : op ∈ ops := List.mem_of_getElem? hop
      obtain ⟨L, hL, hzip⟩ := getElem?_zip_of hlen hop
      have hLD : lo.getD s.pc [] = L := by simp [List.getD, hL]
      -- the allocated machine reads the same values
      have hreads : (op.uses.map (allocReg col)).map t.regs = op.uses.map s.regs := by
        rw [List.map_map]
        apply List.map_congr_left
        intro r hr
        cases r with
        | const c => exact hR.const c
        | virt n => exact hR.live _ (hS.1 _ hr rfl) rfl
      refine ⟨{ pc := nxt, mem := m,
                regs := writeList t.regs
                  (((op.defs ++ op.defConst).map (allocReg col)).zip outs) }, ?_, ?_⟩
      · unfold step
        simp only [hR.pc, hR.mem, List.getElem?_map, hop, Option.map_some, mapOp, hreads, hex,
          hnxt, if_true, List.map_append]
      · -- the new states are related
        have hD : ((op.defs ++ op.defConst).zip outs).map (·.1) = op.defs ++ op.defConst := by
          have := hsem.arity _ _ hop _ _ _ _ _ hex
          exact List.map_fst_zip (by omega)
        have hdc : ∀ r ∈ op.defConst, r.isVirt = false := hsem.defConst op hopmem
        have hwrite : ∀ w,
            (∀ p ∈ (op.defs ++ op.defConst).zip outs, p.1 ≠ w → allocReg col p.1 ≠ allocReg col w ∨
              p.2 = writeList s.regs ((op.defs ++ op.defConst).zip outs) w) →
            (w ∉ op.defs ++ op.defConst → t.regs (allocReg col w) = s.regs w) →
            writeList t.regs (((op.defs ++ op.defConst).map (allocReg col)).zip outs) (allocReg col w)
              = writeList s.regs ((op.defs ++ op.defConst).zip outs) w := by
          intro w hsep hbase
          rw [zip_map_left']
          apply writeList_map _ _ _ _ _ hsep
          rw [hD]; exact hbase
        refine ⟨rfl, rfl, fun v hv hvv => ?_, fun c => ?_⟩
        · -- a live-in register of the successor is live-out here
          have hvL : v ∈ L := by rw [← hLD]; exact hS.2.2 _ hnxt v hv
          obtain ⟨cv, hcv, _⟩ := hloc.2 L (List.mem_of_getElem? hL) v hvL hvv
          apply hwrite v
          · intro p hp hpv
            have hp1 : p.1 ∈ op.defs ++ op.defConst := fst_mem_of_mem_zip hp
            cases hpvirt : p.1.isVirt
            · left
              intro e
              have := congrArg Reg.isVirt e
              rw [allocReg_isVirt, allocReg_isVirt, hpvirt, hvv] at this
              cases this
            · have hpd : p.1 ∈ op.defs := by
                rcases List.mem_append.1 hp1 with h | h
                · exact h
                · rw [hdc _ h] at hpvirt; cases hpvirt
              by_cases hmv : moveOf? op = some (p.1, v)
              · -- the copy itself: the colliding write carries the value of `v`
                right
                have hshape : op.defs = [p.1] ∧ op.uses = [v] := by
                  unfold moveOf? at hmv
                  split at hmv
                  · rename_i _ hd hu
                    simp only [Option.some.injEq, Prod.mk.injEq] at hmv
                    rw [hd, hu, hmv.1, hmv.2]; exact ⟨rfl, rfl⟩
                  · cases hmv
                have hvD : v ∉ op.defs ++ op.defConst := by
                  intro h
                  rcases List.mem_append.1 h with h | h
                  · rw [hshape.1] at h
                    exact hpv (List.mem_singleton.1 h).symm
                  · rw [hdc _ h] at hvv; cases hvv
                rw [writeList_not_mem _ _ _ (by rw [hD]; exact hvD)]
                have hx : sem.exec s.pc [s.regs v] s.mem = some (outs, m, nxt) := by
                  rw [← hex, hshape.2]; rfl
                have hhead := hsem.move _ _ _ _ hop hmv _ _ _ _ _ hx
                cases outs with
                | nil => cases hhead
                | cons x rest =>
                  simp only [List.head?_cons, Option.some.injEq] at hhead
                  rw [hshape.1] at hp
                  simp only [List.cons_append, List.nil_append, List.zip_cons_cons,
                    List.mem_cons] at hp
                  rcases hp with hp | hp
                  · rw [hp]; exact hhead
                  · have := hdc _ (fst_mem_of_mem_zip hp)
                    rw [this] at hpvirt; cases hpvirt
              · left
                obtain ⟨cp, hcp, _⟩ := hloc.1 op hopmem p.1 (List.mem_append_left _ hpd) hpvirt
                exact allocReg_ne_of_col_ne ⟨cp, hcp⟩ ⟨cv, hcv⟩
                  (hnc _ hzip p.1 hpd hpvirt v hvL hvv (fun e => hpv e.symm) hmv) hpvirt hvv
          · intro hnot
            have hvd : v ∉ op.defs := fun h => hnot (List.mem_append_left _ h)
            exact hR.live v (hS.2.1 v (by rw [hLD]; exact hvL) hvd) hvv
        · -- constant registers
          have := hwrite (.const c) (fun p _ hpc => Or.inl (fun e => hpc (allocReg_const.1 e)))
            (fun _ => hR.const c)
          exact this

end SwayVerif.Asm
