import SwayVerif.Model.AsmOpt
import SwayVerif.Lemmas.AsmOptSim
import SwayVerif.Lemmas.AsmOptList
/-!
C07: what the theorems assume about the meaning of ops (`Respects`), the generic simulation for
deleting ops by a mask (`filter_sim`), and how one op acts on two register files that agree on a
set of registers (`act_agree`).
-/
namespace SwayVerif.AsmOpt
open SwayVerif.Asm

variable {V M X : Type}

/-- two results of the same op on two register files: same memory / exit value, and the registers
the op may write agree -/
def SemRel (op : AOp) (amb : Reg → Bool) : Res V M X → Res V M X → Prop
  | .next r₂ m₂, .next r₂' m₂' =>
    m₂' = m₂ ∧ ∀ x, (x ∈ op.defs ∨ x ∈ op.defConst ∨ (op.sideEffect = true ∧ amb x = true)) → r₂ x = r₂' x
  | .exit x m₂, .exit x' m₂' => x' = x ∧ m₂' = m₂
  | _, _ => False

/-- What C07's theorems assume about the meaning of the ops, relative to the set `amb` of ambient
registers (registers side-effecting ops — calls — may read and write without declaring it). -/
structure Respects (mc : Machine V M X) (amb : Reg → Bool) : Prop where
  /-- only `def ∪ def_const` change (and, for side-effecting ops, ambient registers) -/
  frame : ∀ op r m r₂ m₂, mc.sem op r m = .next r₂ m₂ → ∀ x, x ∉ op.defs → x ∉ op.defConst →
    (op.sideEffect = false ∨ amb x = false) → r₂ x = r x
  /-- the result depends only on `use` (and, for side-effecting ops, ambient registers) and memory -/
  reads : ∀ op r r' m, (∀ x ∈ op.uses, r x = r' x) →
    (op.sideEffect = true → ∀ x, amb x = true → r x = r' x) →
    SemRel op amb (mc.sem op r m) (mc.sem op r' m)
  /-- an op without side effect neither stops the machine nor touches memory -/
  pure : ∀ op r m, op.sideEffect = false → ∃ r₂, mc.sem op r m = .next r₂ m
  /-- `NOOP`, `MOVE a a`, `MCP _ _ $zero`, `MCPI _ _ 0` change at most their `def_const` registers -/
  nop : ∀ op r m, nopWf op = true → ∃ r₂, mc.sem op r m = .next r₂ m ∧ ∀ x, x ∉ op.defConst → r₂ x = r x
  /-- apart from its destination a `MOVE` (that defines `$of`, `$err` like `NOOP`) does what `NOOP` does -/
  moveNoop : ∀ op r m r₂ m₂ r₃ m₃, op.kind = .move → op.defConst = noopOp.defConst →
    mc.sem op r m = .next r₂ m₂ →
    mc.sem noopOp r m = .next r₃ m₃ → m₂ = m₃ ∧ ∀ x, x ∉ op.defs → r₂ x = r₃ x

/-! ### the generic simulation for deletion -/

/-- results of the same kept op in the original and in the filtered program -/
def ActRel (P : List AOp) (ks : List Bool) (Inv : Nat → (Reg → V) → (Reg → V) → Prop) (i : Nat) :
    Act V M X → Act V M X → Prop
  | .fall r m, .fall r' m' => m' = m ∧ Inv (i + 1) r r'
  | .goto l r m, .goto l' r' m' =>
    l' = l ∧ m' = m ∧ ∀ t, labelIndex P l = some t → ks[t]? = some true ∧ Inv t r r'
  | .exit x m, .exit x' m' => x' = x ∧ m' = m
  | .stuck, .stuck => True
  | _, _ => False

theorem filter_sim (mc : Machine V M X) (P : List AOp) (ks : List Bool) (hlen : ks.length = P.length)
    (Inv : Nat → (Reg → V) → (Reg → V) → Prop)
    (hdel : ∀ i op r r' m, P[i]? = some op → ks[i]? = some false → Inv i r r' →
      ∃ r₂, act mc op r m = .fall r₂ m ∧ Inv (i + 1) r₂ r')
    (hkeep : ∀ i op r r' m, P[i]? = some op → ks[i]? = some true → Inv i r r' →
      ActRel P ks Inv i (act mc op r m) (act mc op r' m)) :
    Sim mc P (filterMask P ks)
      (fun s s' => s'.pc = newPos ks s.pc ∧ s'.mem = s.mem ∧ Inv s.pc s.regs s'.regs) := by
  have hk_of : ∀ (i : Nat) (op : AOp), P[i]? = some op → ∃ k, ks[i]? = some k := by
    intro i op hp
    have hi : i < P.length := by
      rcases Nat.lt_or_ge i P.length with h | h
      · exact h
      · rw [List.getElem?_eq_none h] at hp; cases hp
    have hi' : i < ks.length := by omega
    exact ⟨ks[i], List.getElem?_eq_getElem hi'⟩
  constructor
  · -- outcomes
    intro s s' o ⟨hpc, hmem, hinv⟩ hs
    cases hp : P[s.pc]? with
    | none =>
      rw [step_none hp] at hs
      have hq : (filterMask P ks)[s'.pc]? = none := by rw [hpc]; exact filterMask_get_none hlen hp
      rw [step_none hq]; exact hs
    | some op =>
      obtain ⟨k, hk⟩ := hk_of _ _ hp
      cases k with
      | false =>
        obtain ⟨r₂, ha, _⟩ := hdel s.pc op s.regs s'.regs s.mem hp hk hinv
        rw [step_fall hp ha] at hs; cases hs
      | true =>
        have hq : (filterMask P ks)[s'.pc]? = some op := by rw [hpc]; exact filterMask_get hlen hp hk
        have hrel := hkeep s.pc op s.regs s'.regs s.mem hp hk hinv
        cases ha : act mc op s.regs s.mem with
        | fall r m =>
          rw [step_fall hp ha] at hs; cases hs
        | goto l r m =>
          cases ha' : act mc op s'.regs s.mem with
          | goto l' r' m' =>
            rw [ha, ha'] at hrel
            obtain ⟨hl, hm, ht⟩ := hrel
            subst hl
            cases hl : labelIndex P l' with
            | none =>
              rw [step_goto_none hp ha hl] at hs
              rw [step_goto_none hq (by rw [hmem]; exact ha') (labelIndex_filter_none ks hl)]
              exact hs
            | some t =>
              rw [step_goto_some hp ha hl] at hs; cases hs
          | fall _ _ => rw [ha, ha'] at hrel; exact hrel.elim
          | exit _ _ => rw [ha, ha'] at hrel; exact hrel.elim
          | stuck => rw [ha, ha'] at hrel; exact hrel.elim
        | exit x m =>
          cases ha' : act mc op s'.regs s.mem with
          | exit x' m' =>
            rw [ha, ha'] at hrel
            obtain ⟨hx, hm⟩ := hrel
            subst hx; subst hm
            rw [step_exit hp ha] at hs
            rw [step_exit hq (by rw [hmem]; exact ha')]; exact hs
          | fall _ _ => rw [ha, ha'] at hrel; exact hrel.elim
          | goto _ _ _ => rw [ha, ha'] at hrel; exact hrel.elim
          | stuck => rw [ha, ha'] at hrel; exact hrel.elim
        | stuck =>
          cases ha' : act mc op s'.regs s.mem with
          | stuck =>
            rw [step_stuck hp ha] at hs
            rw [step_stuck hq (by rw [hmem]; exact ha')]; exact hs
          | fall _ _ => rw [ha, ha'] at hrel; exact hrel.elim
          | goto _ _ _ => rw [ha, ha'] at hrel; exact hrel.elim
          | exit _ _ => rw [ha, ha'] at hrel; exact hrel.elim
  · -- steps
    intro s s' t ⟨hpc, hmem, hinv⟩ hs
    cases hp : P[s.pc]? with
    | none => rw [step_none hp] at hs; cases hs
    | some op =>
      have hlt : s.pc < P.length := by
        rcases Nat.lt_or_ge s.pc P.length with h | h
        · exact h
        · rw [List.getElem?_eq_none h] at hp; cases hp
      obtain ⟨k, hk⟩ := hk_of _ _ hp
      cases k with
      | false =>
        obtain ⟨r₂, ha, hinv'⟩ := hdel s.pc op s.regs s'.regs s.mem hp hk hinv
        rw [step_fall hp ha] at hs
        simp only [Sum.inl.injEq] at hs
        subst hs
        right
        refine ⟨⟨?_, hmem, hinv'⟩, rfl, hlt⟩
        rw [hpc, newPos_succ hk]; simp
      | true =>
        have hq : (filterMask P ks)[s'.pc]? = some op := by rw [hpc]; exact filterMask_get hlen hp hk
        have hrel := hkeep s.pc op s.regs s'.regs s.mem hp hk hinv
        left
        cases ha : act mc op s.regs s.mem with
        | fall r m =>
          rw [step_fall hp ha] at hs
          simp only [Sum.inl.injEq] at hs
          subst hs
          cases ha' : act mc op s'.regs s.mem with
          | fall r' m' =>
            rw [ha, ha'] at hrel
            obtain ⟨hm, hi⟩ := hrel
            refine ⟨⟨s'.pc + 1, r', m'⟩, step_fall hq (by rw [hmem]; exact ha'), ?_, hm, hi⟩
            show s'.pc + 1 = newPos ks (s.pc + 1)
            rw [hpc, newPos_succ hk]; simp
          | goto _ _ _ => rw [ha, ha'] at hrel; exact hrel.elim
          | exit _ _ => rw [ha, ha'] at hrel; exact hrel.elim
          | stuck => rw [ha, ha'] at hrel; exact hrel.elim
        | goto l r m =>
          cases ha' : act mc op s'.regs s.mem with
          | goto l' r' m' =>
            rw [ha, ha'] at hrel
            obtain ⟨hl, hm, ht⟩ := hrel
            subst hl
            cases hl : labelIndex P l' with
            | none => rw [step_goto_none hp ha hl] at hs; cases hs
            | some t0 =>
              rw [step_goto_some hp ha hl] at hs
              simp only [Sum.inl.injEq] at hs
              subst hs
              obtain ⟨hkt, hi⟩ := ht t0 hl
              exact ⟨⟨newPos ks t0, r', m'⟩,
                step_goto_some hq (by rw [hmem]; exact ha') (labelIndex_filter_some hlen hl hkt),
                rfl, hm, hi⟩
          | fall _ _ => rw [ha, ha'] at hrel; exact hrel.elim
          | exit _ _ => rw [ha, ha'] at hrel; exact hrel.elim
          | stuck => rw [ha, ha'] at hrel; exact hrel.elim
        | exit x m => rw [step_exit hp ha] at hs; cases hs
        | stuck => rw [step_stuck hp ha] at hs; cases hs

/-! ### where an op can go -/

theorem act_fall_flow {mc : Machine V M X} {P : List AOp} {op : AOp} {r r₂ : Reg → V} {m m₂ : M} (i : Nat)
    (h : act mc op r m = .fall r₂ m₂) : i + 1 ∈ flowSucc P i op.kind := by
  cases hk : op.kind <;> simp only [act, hk, flowSucc] at h ⊢ <;> try simp
  all_goals (first | (cases h; done) | skip)
  all_goals (split at h <;> first | cases h | skip)

theorem act_goto_flow {mc : Machine V M X} {P : List AOp} {op : AOp} {r r₂ : Reg → V} {m m₂ : M} {l t : Nat}
    (i : Nat) (h : act mc op r m = .goto l r₂ m₂) (hl : labelIndex P l = some t) :
    t ∈ flowSucc P i op.kind := by
  cases hk : op.kind <;> simp only [act, hk, flowSucc] at h ⊢
  case jump l' =>
    simp only [Act.goto.injEq] at h
    obtain ⟨rfl, _, _⟩ := h
    simp [hl]
  case jnz l' =>
    split at h
    · split at h
      · cases h
      · simp only [Act.goto.injEq] at h
        obtain ⟨rfl, _, _⟩ := h
        simp [hl]
    · cases h
  all_goals (first | (cases h; done) | (split at h <;> cases h))

end SwayVerif.AsmOpt
