import SwayVerif.Model.AsmOpt
import SwayVerif.Lemmas.AsmOptSim
import SwayVerif.Lemmas.AsmOptList
import SwayVerif.Lemmas.AsmOptFilter
/-!
C07: soundness of the checkers `validDelete` (liveness-justified deletion: `dce`,
`remove_redundant_ops`) and `validUnreach` (`simplify_cfg`).
-/
namespace SwayVerif.AsmOpt
open SwayVerif.Asm

variable {V M X : Type}

/-! ### one op on two register files that agree on `S` -/

def ResAgree (T : Reg → Prop) : Res V M X → Res V M X → Prop
  | .next r₂ m₂, .next r₂' m₂' => m₂' = m₂ ∧ ∀ x, T x → r₂ x = r₂' x
  | .exit x m₂, .exit x' m₂' => x' = x ∧ m₂' = m₂
  | _, _ => False

def ActAgree (T : Reg → Prop) : Act V M X → Act V M X → Prop
  | .fall r m, .fall r' m' => m' = m ∧ ∀ x, T x → r x = r' x
  | .goto l r m, .goto l' r' m' => l' = l ∧ m' = m ∧ ∀ x, T x → r x = r' x
  | .exit x m, .exit x' m' => x' = x ∧ m' = m
  | .stuck, .stuck => True
  | _, _ => False

theorem sem_agree {mc : Machine V M X} {amb : Reg → Bool} (hR : Respects mc amb) (op : AOp)
    (S T : Reg → Prop) (r r' : Reg → V) (m : M)
    (huse : ∀ x ∈ op.uses, S x) (hamb : ∀ x, amb x = true → S x)
    (hT : ∀ x, T x → x ∈ op.defs ∨ x ∈ op.defConst ∨ S x)
    (hag : ∀ x, S x → r x = r' x) :
    ResAgree T (mc.sem (core op) r m) (mc.sem (core op) r' m) := by
  have hrd := hR.reads (core op) r r' m (fun x hx => hag x (huse x hx))
    (fun _ x hx => hag x (hamb x hx))
  cases h1 : mc.sem (core op) r m with
  | next r₂ m₂ =>
    cases h2 : mc.sem (core op) r' m with
    | next r₂' m₂' =>
      rw [h1, h2] at hrd
      obtain ⟨hm, hw⟩ := hrd
      refine ⟨hm, fun x hx => ?_⟩
      by_cases hd : x ∈ op.defs
      · exact hw x (Or.inl hd)
      by_cases hc : x ∈ op.defConst
      · exact hw x (Or.inr (Or.inl hc))
      by_cases hse : op.sideEffect = true ∧ amb x = true
      · exact hw x (Or.inr (Or.inr hse))
      · have hS : S x := by
          rcases hT x hx with h | h | h
          · exact absurd h hd
          · exact absurd h hc
          · exact h
        have hcond : (core op).sideEffect = false ∨ amb x = false := by
          show op.sideEffect = false ∨ amb x = false
          cases hs : op.sideEffect
          · exact Or.inl rfl
          · cases ha : amb x
            · exact Or.inr rfl
            · exact absurd ⟨hs, ha⟩ hse
        have e1 := hR.frame (core op) r m r₂ m₂ h1 x hd hc hcond
        have e2 := hR.frame (core op) r' m r₂' m₂' h2 x hd hc hcond
        rw [e1, e2]; exact hag x hS
    | exit x' m₂' => rw [h1, h2] at hrd; exact hrd
  | exit x m₂ =>
    cases h2 : mc.sem (core op) r' m with
    | next r₂' m₂' => rw [h1, h2] at hrd; exact hrd
    | exit x' m₂' => rw [h1, h2] at hrd; exact hrd

theorem act_agree {mc : Machine V M X} {amb : Reg → Bool} (hR : Respects mc amb) (op : AOp)
    (S T : Reg → Prop) (r r' : Reg → V) (m : M)
    (huse : ∀ x ∈ op.uses, S x) (hamb : ∀ x, amb x = true → S x)
    (hT : ∀ x, T x → x ∈ kills op ∨ S x)
    (hag : ∀ x, S x → r x = r' x) :
    ActAgree T (act mc op r m) (act mc op r' m) := by
  have hTS : kills op = [] → ∀ x, T x → r x = r' x := by
    intro hk x hx
    rcases hT x hx with h | h
    · rw [hk] at h; cases h
    · exact hag x h
  have hsem : kills op = op.defs ++ op.defConst →
      ResAgree T (mc.sem (core op) r m) (mc.sem (core op) r' m) := by
    intro hk
    refine sem_agree hR op S T r r' m huse hamb (fun x hx => ?_) hag
    rcases hT x hx with h | h
    · rw [hk, List.mem_append] at h
      rcases h with h | h
      · exact Or.inl h
      · exact Or.inr (Or.inl h)
    · exact Or.inr (Or.inr h)
  cases hk : op.kind with
  | label l => simp only [act, hk]; exact ⟨rfl, hTS (by simp [kills, hk])⟩
  | comment => simp only [act, hk]; exact ⟨rfl, hTS (by simp [kills, hk])⟩
  | jump l => simp only [act, hk]; exact ⟨rfl, rfl, hTS (by simp [kills, hk])⟩
  | jnz l =>
    simp only [act, hk]
    have hn : kills op = [] := by simp [kills, hk]
    match hu : op.uses with
    | [] => simp [ActAgree]
    | [c] =>
      have hc : r c = r' c := hag c (huse c (by simp [hu]))
      simp only [hc]
      by_cases hz : mc.isZero (r' c) = true
      · simp only [hz, if_true]; exact ⟨rfl, hTS hn⟩
      · simp only [hz]; exact ⟨rfl, rfl, hTS hn⟩
    | _ :: _ :: _ => simp [ActAgree]
  | jmpaddr =>
    simp only [act, hk]
    have := hsem (by simp [kills, hk])
    cases h1 : mc.sem (core op) r m <;> cases h2 : mc.sem (core op) r' m <;>
      simp_all [ResAgree, ActAgree]
  | retcall =>
    simp only [act, hk]
    have := hsem (by simp [kills, hk])
    cases h1 : mc.sem (core op) r m <;> cases h2 : mc.sem (core op) r' m <;>
      simp_all [ResAgree, ActAgree]
  | rvrt =>
    simp only [act, hk]
    have := hsem (by simp [kills, hk])
    cases h1 : mc.sem (core op) r m <;> cases h2 : mc.sem (core op) r' m <;>
      simp_all [ResAgree, ActAgree]
  | move =>
    simp only [act, hk]
    have := hsem (by simp [kills, hk])
    cases h1 : mc.sem (core op) r m <;> cases h2 : mc.sem (core op) r' m <;>
      simp_all [ResAgree, ActAgree]
  | call l =>
    simp only [act, hk]
    have := hsem (by simp [kills, hk])
    cases h1 : mc.sem (core op) r m <;> cases h2 : mc.sem (core op) r' m <;>
      simp_all [ResAgree, ActAgree]
  | other a b =>
    simp only [act, hk]
    have := hsem (by simp [kills, hk])
    cases h1 : mc.sem (core op) r m <;> cases h2 : mc.sem (core op) r' m <;>
      simp_all [ResAgree, ActAgree]

/-! ### `validDelete` -/

theorem newPos_zero (ks : List Bool) : newPos ks 0 = 0 := by cases ks <;> rfl

theorem getElem?_of_length {ks : List Bool} {P : List AOp} {i : Nat} {op : AOp}
    (hlen : ks.length = P.length) (hp : P[i]? = some op) : ∃ k, ks[i]? = some k := by
  have hi : i < P.length := by
    rcases Nat.lt_or_ge i P.length with h | h
    · exact h
    · rw [List.getElem?_eq_none h] at hp; cases hp
  have hi' : i < ks.length := by omega
  exact ⟨ks[i], List.getElem?_eq_getElem hi'⟩

theorem validDelete_spec {amb : Reg → Bool} {P : List AOp} {ks : List Bool} {li lo : List RSet}
    (h : validDelete amb P ks li lo = true) :
    ks.length = P.length ∧ ∀ (i : Nat) (op : AOp) (k : Bool), P[i]? = some op → ks[i]? = some k →
      delOkAt amb P li lo i op k = true := by
  simp only [validDelete, Bool.and_eq_true, beq_iff_eq, List.all_eq_true] at h
  exact ⟨h.1, fun i op k hp hk => h.2 _ (mem_zip3 hp hk)⟩

theorem isNopCand_kind {op : AOp} (h : isNopCand op = true) :
    op.kind = .move ∨ ∃ a b, op.kind = .other a b := by
  unfold isNopCand at h
  cases hk : op.kind <;> simp_all

theorem skipWrites_kind {op : AOp} {w : List Reg} (h : skipWrites op = some w) :
    op.kind = .move ∨ ∃ a b, op.kind = .other a b := by
  unfold skipWrites at h
  by_cases hn : nopWf op = true
  · exact isNopCand_kind (by simp only [nopWf, Bool.and_eq_true] at hn; exact hn.1)
  · simp only [hn] at h
    cases hk : op.kind <;> simp_all

theorem skip_flow {op : AOp} {w : List Reg} (P : List AOp) (i : Nat) (h : skipWrites op = some w) :
    flowSucc P i op.kind = [i + 1] := by
  rcases skipWrites_kind h with hk | ⟨a, b, hk⟩ <;> simp [flowSucc, hk]

theorem act_default_next {mc : Machine V M X} {op : AOp} {r r' : Reg → V} {m m' : M}
    (hk : op.kind = .move ∨ ∃ a b, op.kind = .other a b) (hs : mc.sem (core op) r m = .next r' m') :
    act mc op r m = .fall r' m' := by
  rcases hk with hk | ⟨a, b, hk⟩ <;> simp [act, hk, hs]

theorem skip_act {mc : Machine V M X} {amb : Reg → Bool} (hR : Respects mc amb) {op : AOp} {w : List Reg}
    (h : skipWrites op = some w) (r : Reg → V) (m : M) :
    ∃ r₂, act mc op r m = .fall r₂ m ∧ ∀ x, x ∉ w → r₂ x = r x := by
  have hk := skipWrites_kind h
  unfold skipWrites at h
  by_cases hn : nopWf op = true
  · simp only [hn, if_true, Option.some.injEq] at h
    subst h
    have hn' : nopWf (core op) = true := hn
    obtain ⟨r₂, hs, hf⟩ := hR.nop (core op) r m hn'
    exact ⟨r₂, act_default_next hk hs, hf⟩
  · simp only [hn] at h
    have hse : op.sideEffect = false ∧ w = op.defs ++ op.defConst := by
      rcases hk with hk | ⟨a, b, hk⟩ <;> simp only [hk] at h <;>
        (cases hs : op.sideEffect <;> simp_all)
    obtain ⟨hse, rfl⟩ := hse
    obtain ⟨r₂, hs⟩ := hR.pure (core op) r m hse
    refine ⟨r₂, act_default_next hk hs, fun x hx => ?_⟩
    rw [List.mem_append, not_or] at hx
    exact hR.frame (core op) r m r₂ m hs x hx.1 hx.2 (Or.inl hse)

/-- registers agree on the live-in set of op `i` and on the ambient registers -/
def LiveInv (amb : Reg → Bool) (li : List RSet) (i : Nat) (r r' : Reg → V) : Prop :=
  ∀ x, (x ∈ li.getD i [] ∨ amb x = true) → r x = r' x

theorem validDelete_sound {mc : Machine V M X} {amb : Reg → Bool} (hR : Respects mc amb)
    {P : List AOp} {ks : List Bool} {li lo : List RSet}
    (h : validDelete amb P ks li lo = true) : Equiv mc P (filterMask P ks) := by
  obtain ⟨hlen, hspec⟩ := validDelete_spec h
  refine (filter_sim mc P ks hlen (LiveInv amb li) ?_ ?_).equiv
    (fun r m => ⟨(newPos_zero ks).symm, rfl, fun _ _ => rfl⟩)
  · -- deleted ops
    intro i op r r' m hp hk hinv
    have hd := hspec i op false hp hk
    simp only [delOkAt, Bool.and_eq_true, List.all_eq_true, memR_iff, Bool.false_eq_true,
      if_false] at hd
    obtain ⟨hflow, hlo, hw⟩ := hd
    cases hsw : skipWrites op with
    | none => rw [hsw] at hw; cases hw
    | some w =>
      rw [hsw] at hw
      simp only [List.all_eq_true, Bool.and_eq_true, Bool.not_eq_true', memR] at hw
      obtain ⟨r₂, ha, hf⟩ := skip_act hR hsw r m
      refine ⟨r₂, ha, fun x hx => ?_⟩
      have hxw : x ∉ w := by
        intro hxw
        have := hw x hxw
        rcases hx with hx | hx
        · have hxlo : x ∈ lo.getD i [] := hflow (i + 1) (by rw [skip_flow P i hsw]; simp) x hx
          have := this.2
          simp only [List.contains_eq_mem, decide_eq_false_iff_not] at this
          exact this hxlo
        · rw [this.1] at hx; cases hx
      rw [hf x hxw]
      rcases hx with hx | hx
      · have hxlo : x ∈ lo.getD i [] := hflow (i + 1) (by rw [skip_flow P i hsw]; simp) x hx
        exact hinv x (Or.inl (hlo x hxlo))
      · exact hinv x (Or.inr hx)
  · -- kept ops
    intro i op r r' m hp hk hinv
    have hd := hspec i op true hp hk
    simp only [delOkAt, Bool.and_eq_true, List.all_eq_true, memR_iff, if_true, Bool.or_eq_true] at hd
    obtain ⟨hflow, huse, hlo⟩ := hd
    have hag := act_agree hR op (fun x => x ∈ li.getD i [] ∨ amb x = true)
      (fun x => x ∈ lo.getD i [] ∨ amb x = true) r r' m
      (fun x hx => Or.inl (huse x hx)) (fun x hx => Or.inr hx)
      (fun x hx => by
        rcases hx with hx | hx
        · rcases hlo x hx with h | h
          · exact Or.inl h
          · exact Or.inr (Or.inl h)
        · exact Or.inr (Or.inr hx))
      hinv
    have hlab : ∀ l t, labelIndex P l = some t → ks[t]? = some true := by
      intro l t hl
      obtain ⟨opt, hpt, hkt⟩ := labelIndex_some hl
      obtain ⟨k, hkk⟩ := getElem?_of_length hlen hpt
      cases k with
      | true => exact hkk
      | false =>
        have hd := hspec t opt false hpt hkk
        have hsw : skipWrites opt = none := by
          simp [skipWrites, nopWf, isNopCand, hkt]
        simp [delOkAt, hsw] at hd
    cases ha : act mc op r m with
    | fall r₂ m₂ =>
      cases ha' : act mc op r' m with
      | fall r₂' m₂' =>
        rw [ha, ha'] at hag
        refine ⟨hag.1, fun x hx => ?_⟩
        rcases hx with hx | hx
        · exact hag.2 x (Or.inl (hflow (i + 1) (act_fall_flow i ha) x hx))
        · exact hag.2 x (Or.inr hx)
      | goto _ _ _ => rw [ha, ha'] at hag; exact hag.elim
      | exit _ _ => rw [ha, ha'] at hag; exact hag.elim
      | stuck => rw [ha, ha'] at hag; exact hag.elim
    | goto l r₂ m₂ =>
      cases ha' : act mc op r' m with
      | goto l' r₂' m₂' =>
        rw [ha, ha'] at hag
        obtain ⟨hl, hm, hx⟩ := hag
        refine ⟨hl, hm, fun t ht => ⟨hlab l t ht, fun x hxx => ?_⟩⟩
        rcases hxx with hxx | hxx
        · exact hx x (Or.inl (hflow t (act_goto_flow i ha ht) x hxx))
        · exact hx x (Or.inr hxx)
      | fall _ _ => rw [ha, ha'] at hag; exact hag.elim
      | exit _ _ => rw [ha, ha'] at hag; exact hag.elim
      | stuck => rw [ha, ha'] at hag; exact hag.elim
    | exit x₁ m₁ =>
      cases ha' : act mc op r' m with
      | exit _ _ => rw [ha, ha'] at hag; exact hag
      | fall _ _ => rw [ha, ha'] at hag; exact hag.elim
      | goto _ _ _ => rw [ha, ha'] at hag; exact hag.elim
      | stuck => rw [ha, ha'] at hag; exact hag.elim
    | stuck =>
      cases ha' : act mc op r' m with
      | stuck => trivial
      | fall _ _ => rw [ha, ha'] at hag; exact hag.elim
      | goto _ _ _ => rw [ha, ha'] at hag; exact hag.elim
      | exit _ _ => rw [ha, ha'] at hag; exact hag.elim

end SwayVerif.AsmOpt
