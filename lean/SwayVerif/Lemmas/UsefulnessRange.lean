import SwayVerif.Lemmas.Usefulness
/-! `range.rs` on singleton ranges (the only ranges that literals produce): `condense_ranges` computes the
maximal runs, hence `do_ranges_equal_range` and `find_exclusionary_ranges` are right. Discharges `U8Facts`. -/
namespace SwayVerif.Usefulness

def SortedDesc : List Rng → Prop
  | [] => True
  | r :: rs => (∀ x ∈ rs, x.1 ≤ r.1) ∧ SortedDesc rs

theorem mem_insertDesc {r x : Rng} : ∀ {l : List Rng}, x ∈ insertDesc r l ↔ x = r ∨ x ∈ l
  | [] => by simp [insertDesc]
  | y :: ys => by
    unfold insertDesc
    split
    · simp
    · simp only [List.mem_cons, mem_insertDesc (l := ys)]
      constructor
      · rintro (h | h | h)
        · exact Or.inr (Or.inl h)
        · exact Or.inl h
        · exact Or.inr (Or.inr h)
      · rintro (h | h | h)
        · exact Or.inr (Or.inl h)
        · exact Or.inl h
        · exact Or.inr (Or.inr h)

theorem sorted_insertDesc {r : Rng} : ∀ {l : List Rng}, SortedDesc l → SortedDesc (insertDesc r l)
  | [], _ => by simp [insertDesc, SortedDesc]
  | y :: ys, h => by
    unfold insertDesc
    split
    · rename_i hgt
      refine ⟨?_, h⟩
      intro x hx
      rcases List.mem_cons.mp hx with rfl | hx
      · omega
      · have := h.1 x hx; omega
    · rename_i hle
      refine ⟨?_, sorted_insertDesc h.2⟩
      intro x hx
      rcases mem_insertDesc.mp hx with rfl | hx
      · omega
      · exact h.1 x hx

theorem mem_sortDesc {x : Rng} : ∀ {l : List Rng}, x ∈ sortDesc l ↔ x ∈ l
  | [] => by simp [sortDesc]
  | y :: ys => by simp [sortDesc, mem_insertDesc, mem_sortDesc (l := ys)]

theorem sorted_sortDesc : ∀ (l : List Rng), SortedDesc (sortDesc l)
  | [] => trivial
  | _ :: ys => sorted_insertDesc (sorted_sortDesc ys)

/-- Stack invariant: valid ranges, strictly separated (a gap of at least one value), ascending from the top. -/
def Separated : List Rng → Prop
  | [] => True
  | [a] => a.1 ≤ a.2
  | a :: b :: rest => a.1 ≤ a.2 ∧ a.2 + 2 ≤ b.1 ∧ Separated (b :: rest)

def covers (cs : List Rng) (n : Nat) : Prop := ∃ c ∈ cs, c.1 ≤ n ∧ n ≤ c.2

theorem overlaps_single {k a b : Nat} (h1 : k ≤ a) (h2 : a ≤ b) : Rng.overlaps (k, k) (a, b) = decide (a = k) := by
  unfold Rng.overlaps
  by_cases h : a = k
  · subst h; simp; omega
  · have : ¬ a ≤ k := by omega
    simp [h, this]
    omega

theorem withinOne_single {k a b : Nat} (h1 : k ≤ a) (h2 : a ≤ b) :
    Rng.withinOne (k, k) (a, b) = decide (a = k + 1) := by
  unfold Rng.withinOne
  rw [overlaps_single h1 h2]
  by_cases h : a = k + 1
  · subst h; simp
  · by_cases h' : a = k
    · subst h'; simp
    · have : ¬ (k > b) := by omega
      simp [h, h', this]
      omega

theorem join_single {k a b : Nat} (h1 : k ≤ a) (h2 : a ≤ b) (h : a = k ∨ a = k + 1) :
    Rng.join (k, k) (a, b) = some (k, b) := by
  have e1 : (if k < a then k else a) = k := by split <;> omega
  have e2 : (if k > b then k else b) = b := by split <;> omega
  have e3 : ¬ (b < k) := by omega
  have e4 : (!decide (a = k) && !decide (a = k + 1)) = false := by rcases h with h | h <;> simp [h]
  unfold Rng.join
  rw [overlaps_single h1 h2, withinOne_single h1 h2]
  simp only [e4, Bool.false_eq_true, if_false, e1, e2, e3]

/-- The loop of `condense_ranges` on singletons arriving in descending order. -/
theorem condenseLoop_spec : ∀ (rest : List Rng) (top : Rng) (below : List Rng),
    Separated (top :: below) → SortedDesc rest → (∀ r ∈ rest, r.1 = r.2 ∧ r.1 ≤ top.1) →
    ∃ cs, condenseLoop (top :: below) rest = some cs ∧ cs ≠ [] ∧ Separated cs ∧
      ∀ n, covers cs n ↔ (covers (top :: below) n ∨ ∃ r ∈ rest, r.1 = n)
  | [], top, below, hsep, _, _ => ⟨top :: below, rfl, by simp, hsep, by simp⟩
  | r :: rest, (a, b), below, hsep, hsort, hrest => by
    obtain ⟨k, k'⟩ := r
    have hr := hrest (k, k') (by simp)
    simp only at hr
    obtain ⟨rfl, hka⟩ := hr
    have hab : a ≤ b := by cases below <;> simp [Separated] at hsep <;> omega
    have hrest' : ∀ r ∈ rest, r.1 = r.2 ∧ r.1 ≤ k := fun r hr =>
      ⟨(hrest r (by simp [hr])).1, hsort.1 r hr⟩
    by_cases hj : a = k ∨ a = k + 1
    · -- joined with the top
      have hsep' : Separated ((k, b) :: below) := by
        cases below with
        | nil => simp only [Separated]; omega
        | cons c below =>
          simp only [Separated] at hsep ⊢
          exact ⟨by omega, hsep.2.1, hsep.2.2⟩
      obtain ⟨cs, hcs, hne, hs, hcov⟩ := condenseLoop_spec rest (k, b) below hsep' hsort.2 hrest'
      refine ⟨cs, ?_, hne, hs, ?_⟩
      · have hcond : (Rng.overlaps (k, k) (a, b) || Rng.withinOne (k, k) (a, b)) = true := by
          rw [overlaps_single hka hab, withinOne_single hka hab]; simpa using hj
        simp only [condenseLoop, hcond, if_true, join_single hka hab hj, hcs]
      · intro n
        rw [hcov n]
        simp only [covers, List.mem_cons, exists_eq_or_imp]
        constructor
        · rintro ((⟨h1, h2⟩ | h) | h)
          · by_cases hn : n = k
            · exact Or.inr (Or.inl hn.symm)
            · exact Or.inl (Or.inl ⟨by show a ≤ n; (have : k ≤ n := h1); omega, h2⟩)
          · exact Or.inl (Or.inr h)
          · exact Or.inr (Or.inr h)
        · rintro ((⟨h1, h2⟩ | h) | (h | h))
          · exact Or.inl (Or.inl ⟨by show k ≤ n; (have : a ≤ n := h1); omega, h2⟩)
          · exact Or.inl (Or.inr h)
          · have h' : k = n := h
            subst h'; exact Or.inl (Or.inl ⟨Nat.le_refl _, by show k ≤ b; omega⟩)
          · exact Or.inr h
    · -- pushed
      have hgap : k + 2 ≤ a := by omega
      have hsep' : Separated ((k, k) :: (a, b) :: below) := by
        refine ⟨by simp, by simpa using hgap, hsep⟩
      obtain ⟨cs, hcs, hne, hs, hcov⟩ := condenseLoop_spec rest (k, k) ((a, b) :: below) hsep' hsort.2 hrest'
      refine ⟨cs, ?_, hne, hs, ?_⟩
      · have hcond : (Rng.overlaps (k, k) (a, b) || Rng.withinOne (k, k) (a, b)) = false := by
          rw [overlaps_single hka hab, withinOne_single hka hab]
          have h1 : ¬ a = k := fun h => hj (Or.inl h)
          have h2 : ¬ a = k + 1 := fun h => hj (Or.inr h)
          simp [h1, h2]
        simp only [condenseLoop, hcond, Bool.false_eq_true, if_false, hcs]
      · intro n
        rw [hcov n]
        simp only [covers, List.mem_cons, exists_eq_or_imp]
        constructor
        · rintro ((⟨h1, h2⟩ | h) | h)
          · exact Or.inr (Or.inl (by show k = n; (have : k ≤ n := h1); (have : n ≤ k := h2); omega))
          · exact Or.inl h
          · exact Or.inr (Or.inr h)
        · rintro (h | (h | h))
          · exact Or.inl (Or.inr h)
          · have h' : k = n := h
            subst h'; exact Or.inl (Or.inl ⟨Nat.le_refl _, Nat.le_refl _⟩)
          · exact Or.inr h

/-- `condense_ranges` on the singleton ranges of `ks`. -/
theorem condense_spec (ks : List Nat) (hne : ks ≠ []) :
    ∃ cs, condense (ks.map fun k => (k, k)) = some cs ∧ cs ≠ [] ∧ Separated cs ∧
      ∀ n, covers cs n ↔ n ∈ ks := by
  unfold condense
  have hmem : ∀ x : Rng, x ∈ sortDesc (ks.map fun k => (k, k)) ↔ ∃ k ∈ ks, x = (k, k) := by
    intro x; rw [mem_sortDesc]; simp [eq_comm]
  have hsorted := sorted_sortDesc (ks.map fun k => (k, k))
  cases hL : sortDesc (ks.map fun k => (k, k)) with
  | nil =>
    exfalso
    cases ks with
    | nil => exact hne rfl
    | cons k ks =>
      have h2 := (hmem (k, k)).mpr ⟨k, by simp, rfl⟩
      rw [hL] at h2
      simp at h2
  | cons f rest =>
    rw [hL] at hmem hsorted
    obtain ⟨kf, _, hf⟩ := (hmem f).mp (by simp)
    subst hf
    obtain ⟨cs, hcs, hne', hs, hcov⟩ := condenseLoop_spec rest (kf, kf) [] (by simp [Separated]) hsorted.2
      (fun r hr => by
        obtain ⟨k, _, rfl⟩ := (hmem r).mp (by simp [hr])
        exact ⟨rfl, hsorted.1 _ hr⟩)
    refine ⟨cs, hcs, hne', hs, ?_⟩
    intro n
    rw [hcov n]
    constructor
    · rintro (⟨c, hc, h1, h2⟩ | ⟨r, hr, rfl⟩)
      · simp at hc; subst hc
        obtain ⟨k, hk, hkk⟩ := (hmem (kf, kf)).mp (by simp)
        simp at hkk h1 h2; subst hkk
        have : n = kf := by omega
        subst this; exact hk
      · obtain ⟨k, hk, rfl⟩ := (hmem r).mp (by simp [hr])
        exact hk
    · intro hn
      have := (hmem (n, n)).mpr ⟨n, hn, rfl⟩
      rcases List.mem_cons.mp this with h | h
      · left; exact ⟨(kf, kf), by simp, by simp at h; simp [h], by simp at h; simp [h]⟩
      · right; exact ⟨(n, n), h, rfl⟩


theorem separated_valid : ∀ {cs : List Rng}, Separated cs → ∀ c ∈ cs, c.1 ≤ c.2
  | [], _ => by simp
  | [a], h => by intro c hc; simp at hc; subst hc; exact h
  | a :: b :: rest, h => by
    intro c hc
    rcases List.mem_cons.mp hc with rfl | hc
    · exact h.1
    · exact separated_valid h.2.2 c hc

theorem separated_head_le : ∀ {b : Rng} {rest : List Rng}, Separated (b :: rest) → ∀ c ∈ b :: rest, b.1 ≤ c.1
  | b, [], _ => by intro c hc; simp at hc; subst hc; exact Nat.le_refl _
  | b, d :: rest, h => by
    intro c hc
    rcases List.mem_cons.mp hc with rfl | hc
    · exact Nat.le_refl _
    · have := separated_head_le h.2.2 c hc
      have h1 := h.1
      have h2 := h.2.1
      omega

theorem gapsBetween_some : ∀ {cs : List Rng}, Separated cs → ∃ g, gapsBetween cs = some g
  | [], _ => ⟨[], rfl⟩
  | [_], _ => ⟨[], rfl⟩
  | a :: b :: rest, h => by
    obtain ⟨g, hg⟩ := gapsBetween_some h.2.2
    have h2 := h.2.1
    have : ¬ (b.1 - 1 < a.2 + 1) := by omega
    exact ⟨(a.2 + 1, b.1 - 1) :: g, by simp [gapsBetween, this, hg]⟩

/-- The facts about `range.rs` that the analysis needs for `u8` columns hold. -/
theorem u8Facts : U8Facts := by
  intro ks hne hle
  obtain ⟨cs, hcs, hne', hsep, hcov⟩ := condense_spec ks hne
  have hin : ∀ c ∈ cs, c.2 ≤ 255 := by
    intro c hc
    have hv := separated_valid hsep c hc
    exact hle c.2 ((hcov c.2).mp ⟨c, hc, hv, Nat.le_refl _⟩)
  constructor
  · match cs, hne', hsep, hcov, hcs, hin with
    | [r], _, hsep, hcov, hcs, hin =>
      refine ⟨r == (0, u8Max), by simp [rangesEqual, hcs], ?_⟩
      rw [beq_iff_eq]
      have hv : r.1 ≤ r.2 := hsep
      constructor
      · intro hr n hn
        subst hr
        exact (hcov n).mp ⟨(0, u8Max), by simp, Nat.zero_le _, hn⟩
      · intro h
        obtain ⟨c0, hc0, h01, _⟩ := (hcov 0).mpr (h 0 (by omega))
        obtain ⟨c1, hc1, _, h12⟩ := (hcov 255).mpr (h 255 (by omega))
        simp at hc0 hc1; subst hc0; subst hc1
        have := hin c1 (by simp)
        obtain ⟨a, b⟩ := c1
        simp only [u8Max] at *
        simp only [Prod.mk.injEq]
        omega
    | a :: b :: rest, _, hsep, hcov, hcs, hin =>
      refine ⟨false, by simp [rangesEqual, hcs], ?_⟩
      simp only [Bool.false_eq_true, false_iff]
      intro h
      have hbv := separated_valid hsep b (by simp)
      have hb255 := hin b (by simp)
      have hgap := hsep.2.1
      obtain ⟨c, hc, h1, h2⟩ := (hcov (a.2 + 1)).mpr (h (a.2 + 1) (by omega))
      rcases List.mem_cons.mp hc with rfl | hc
      · omega
      · have := separated_head_le hsep.2.2 c hc
        omega
  · unfold exclusionary
    rw [hcs]
    have hall : (cs.all fun c => decide ((0, u8Max).1 ≤ c.1) && decide ((0, u8Max).2 ≥ c.2)) = true := by
      simp only [List.all_eq_true, Bool.and_eq_true, decide_eq_true_eq]
      intro c hc
      exact ⟨Nat.zero_le _, hin c hc⟩
    obtain ⟨g, hg⟩ := gapsBetween_some hsep
    cases cs with
    | nil => exact absurd rfl hne'
    | cons c cs' =>
      have hl : ∃ l, (c :: cs').getLast? = some l := by
        cases h : (c :: cs').getLast? with
        | none => simp at h
        | some l => exact ⟨l, rfl⟩
      obtain ⟨l, hl⟩ := hl
      simp only [hall, Bool.not_true, Bool.false_eq_true, if_false, List.head?_cons, hl, hg, Option.map_some]
      simp

end SwayVerif.Usefulness
