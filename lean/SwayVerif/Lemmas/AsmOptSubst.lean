import SwayVerif.Model.AsmOpt
import SwayVerif.Lemmas.AsmOptSim
import SwayVerif.Lemmas.AsmOptList
import SwayVerif.Lemmas.AsmOptFilter
import SwayVerif.Lemmas.AsmOptValid
/-!
C07: soundness of `validUnreach` (`simplify_cfg`), and the simulation for passes that replace ops
in place (`remove_redundant_moves`, `remove_sequential_jumps`): `validMoves`, `validSeqJump`.
-/
namespace SwayVerif.AsmOpt
open SwayVerif.Asm

variable {V M X : Type}

/-! ### `validUnreach` -/

theorem getD_true {ks : List Bool} {s : Nat} (h : ks.getD s true = true) :
    ks[s]? = some true ∨ ks.length ≤ s := by
  rcases Nat.lt_or_ge s ks.length with hl | hl
  · left
    rw [List.getD_eq_getElem?_getD, List.getElem?_eq_getElem hl] at h
    rw [List.getElem?_eq_getElem hl]
    simpa using h
  · exact Or.inr hl

theorem validUnreach_spec {P : List AOp} {ks : List Bool} (h : validUnreach P ks = true) :
    ks.length = P.length ∧ ks.getD 0 true = true ∧
    ∀ (i : Nat) (op : AOp), P[i]? = some op → ks[i]? = some true →
      ∀ s ∈ flowSucc P i op.kind, ks.getD s true = true := by
  simp only [validUnreach, Bool.and_eq_true, beq_iff_eq, List.all_eq_true, Bool.or_eq_true,
    Bool.not_eq_true'] at h
  refine ⟨h.1.1, h.1.2, fun i op hp hk s hs => ?_⟩
  rcases h.2 _ (mem_zip3 hp hk) with h' | h'
  · cases h'
  · exact h' s hs

theorem validUnreach_sound (mc : Machine V M X) {P : List AOp} {ks : List Bool}
    (h : validUnreach P ks = true) : Equiv mc P (filterMask P ks) := by
  obtain ⟨hlen, h0, hcl⟩ := validUnreach_spec h
  refine (filter_sim mc P ks hlen
    (fun i r r' => (ks[i]? = some true ∨ P.length ≤ i) ∧ r = r') ?_ ?_).equiv
    (fun r m => ⟨(newPos_zero ks).symm, rfl, ?_, rfl⟩)
  · intro i op r r' m hp hk ⟨hi, _⟩
    rcases hi with hi | hi
    · rw [hk] at hi; cases hi
    · rw [List.getElem?_eq_none hi] at hp; cases hp
  · intro i op r r' m hp hk ⟨_, hr⟩
    subst hr
    have hinv : ∀ s ∈ flowSucc P i op.kind, ks[s]? = some true ∨ P.length ≤ s := by
      intro s hs
      rcases getD_true (hcl i op hp hk s hs) with h' | h'
      · exact Or.inl h'
      · exact Or.inr (by omega)
    cases ha : act mc op r m with
    | fall r₂ m₂ => exact ⟨rfl, hinv _ (act_fall_flow i ha), rfl⟩
    | goto l r₂ m₂ =>
      refine ⟨rfl, rfl, fun t ht => ?_⟩
      have := hinv t (act_goto_flow i ha ht)
      obtain ⟨opt, hpt, _⟩ := labelIndex_some ht
      rcases this with h' | h'
      · exact ⟨h', Or.inl h', rfl⟩
      · rw [List.getElem?_eq_none h'] at hpt; cases hpt
    | exit x m₂ => exact ⟨rfl, rfl⟩
    | stuck => trivial
  · rcases getD_true h0 with h' | h'
    · exact Or.inl h'
    · exact Or.inr (by omega)

/-! ### replacing ops in place -/

/-- results of the op at position `i` of `P` and of the op that replaces it -/
def SubRel (P : List AOp) (Inv : Nat → (Reg → V) → (Reg → V) → Prop) (i : Nat) :
    Act V M X → Act V M X → Prop
  | .fall r m, .fall r' m' => m' = m ∧ Inv (i + 1) r r'
  | .goto l r m, .goto l' r' m' => l' = l ∧ m' = m ∧ ∀ t, labelIndex P l = some t → Inv t r r'
  | .goto l r m, .fall r' m' => m' = m ∧ labelIndex P l = some (i + 1) ∧ Inv (i + 1) r r'
  | .exit x m, .exit x' m' => x' = x ∧ m' = m
  | .stuck, .stuck => True
  | _, _ => False

theorem subst_sim (mc : Machine V M X) (P Q : List AOp) (hlen : Q.length = P.length)
    (Inv : Nat → (Reg → V) → (Reg → V) → Prop)
    (hlab : ∀ l, labelIndex Q l = labelIndex P l)
    (hact : ∀ (i : Nat) (op q : AOp) r r' m, P[i]? = some op → Q[i]? = some q → Inv i r r' →
      SubRel P Inv i (act mc op r m) (act mc q r' m)) :
    Sim mc P Q (fun s s' => s'.pc = s.pc ∧ s'.mem = s.mem ∧ Inv s.pc s.regs s'.regs) := by
  have hq_of : ∀ (i : Nat) (op : AOp), P[i]? = some op → ∃ q, Q[i]? = some q := by
    intro i op hp
    have hi : i < P.length := by
      rcases Nat.lt_or_ge i P.length with h | h
      · exact h
      · rw [List.getElem?_eq_none h] at hp; cases hp
    have hi' : i < Q.length := by omega
    exact ⟨Q[i], List.getElem?_eq_getElem hi'⟩
  have hnone : ∀ (i : Nat), P[i]? = none → Q[i]? = none := by
    intro i hp
    have : P.length ≤ i := by
      rcases Nat.lt_or_ge i P.length with h | h
      · rw [List.getElem?_eq_getElem h] at hp; cases hp
      · exact h
    exact List.getElem?_eq_none (by omega)
  constructor
  · intro s s' o ⟨hpc, hmem, hinv⟩ hs
    cases hp : P[s.pc]? with
    | none =>
      rw [step_none hp] at hs
      rw [step_none (by rw [hpc]; exact hnone _ hp)]; exact hs
    | some op =>
      obtain ⟨q, hq⟩ := hq_of _ _ hp
      have hq' : Q[s'.pc]? = some q := by rw [hpc]; exact hq
      have hrel := hact s.pc op q s.regs s'.regs s.mem hp hq hinv
      cases ha : act mc op s.regs s.mem with
      | fall r m => rw [step_fall hp ha] at hs; cases hs
      | goto l r m =>
        cases ha' : act mc q s'.regs s.mem with
        | goto l' r' m' =>
          rw [ha, ha'] at hrel
          obtain ⟨hl, hm, ht⟩ := hrel
          subst hl
          cases hl : labelIndex P l' with
          | none =>
            rw [step_goto_none hp ha hl] at hs
            rw [step_goto_none hq' (by rw [hmem]; exact ha') (by rw [hlab]; exact hl)]
            exact hs
          | some t => rw [step_goto_some hp ha hl] at hs; cases hs
        | fall r' m' =>
          rw [ha, ha'] at hrel
          rw [step_goto_some hp ha hrel.2.1] at hs; cases hs
        | exit _ _ => rw [ha, ha'] at hrel; exact hrel.elim
        | stuck => rw [ha, ha'] at hrel; exact hrel.elim
      | exit x m =>
        cases ha' : act mc q s'.regs s.mem with
        | exit x' m' =>
          rw [ha, ha'] at hrel
          obtain ⟨hx, hm⟩ := hrel
          subst hx; subst hm
          rw [step_exit hp ha] at hs
          rw [step_exit hq' (by rw [hmem]; exact ha')]; exact hs
        | fall _ _ => rw [ha, ha'] at hrel; exact hrel.elim
        | goto _ _ _ => rw [ha, ha'] at hrel; exact hrel.elim
        | stuck => rw [ha, ha'] at hrel; exact hrel.elim
      | stuck =>
        cases ha' : act mc q s'.regs s.mem with
        | stuck =>
          rw [step_stuck hp ha] at hs
          rw [step_stuck hq' (by rw [hmem]; exact ha')]; exact hs
        | fall _ _ => rw [ha, ha'] at hrel; exact hrel.elim
        | goto _ _ _ => rw [ha, ha'] at hrel; exact hrel.elim
        | exit _ _ => rw [ha, ha'] at hrel; exact hrel.elim
  · intro s s' t ⟨hpc, hmem, hinv⟩ hs
    cases hp : P[s.pc]? with
    | none => rw [step_none hp] at hs; cases hs
    | some op =>
      obtain ⟨q, hq⟩ := hq_of _ _ hp
      have hq' : Q[s'.pc]? = some q := by rw [hpc]; exact hq
      have hrel := hact s.pc op q s.regs s'.regs s.mem hp hq hinv
      left
      cases ha : act mc op s.regs s.mem with
      | fall r m =>
        rw [step_fall hp ha] at hs
        simp only [Sum.inl.injEq] at hs
        subst hs
        cases ha' : act mc q s'.regs s.mem with
        | fall r' m' =>
          rw [ha, ha'] at hrel
          exact ⟨⟨s'.pc + 1, r', m'⟩, step_fall hq' (by rw [hmem]; exact ha'),
            by show s'.pc + 1 = s.pc + 1; rw [hpc], hrel.1, hrel.2⟩
        | goto _ _ _ => rw [ha, ha'] at hrel; exact hrel.elim
        | exit _ _ => rw [ha, ha'] at hrel; exact hrel.elim
        | stuck => rw [ha, ha'] at hrel; exact hrel.elim
      | goto l r m =>
        cases ha' : act mc q s'.regs s.mem with
        | goto l' r' m' =>
          rw [ha, ha'] at hrel
          obtain ⟨hl, hm, ht⟩ := hrel
          subst hl
          cases hl : labelIndex P l' with
          | none => rw [step_goto_none hp ha hl] at hs; cases hs
          | some t0 =>
            rw [step_goto_some hp ha hl] at hs
            simp only [Sum.inl.injEq] at hs
            subst hs
            exact ⟨⟨t0, r', m'⟩,
              step_goto_some hq' (by rw [hmem]; exact ha') (by rw [hlab]; exact hl), rfl, hm, ht t0 hl⟩
        | fall r' m' =>
          rw [ha, ha'] at hrel
          obtain ⟨hm, hl, hi⟩ := hrel
          rw [step_goto_some hp ha hl] at hs
          simp only [Sum.inl.injEq] at hs
          subst hs
          exact ⟨⟨s'.pc + 1, r', m'⟩, step_fall hq' (by rw [hmem]; exact ha'),
            by show s'.pc + 1 = s.pc + 1; rw [hpc], hm, hi⟩
        | exit _ _ => rw [ha, ha'] at hrel; exact hrel.elim
        | stuck => rw [ha, ha'] at hrel; exact hrel.elim
      | exit x m => rw [step_exit hp ha] at hs; cases hs
      | stuck => rw [step_stuck hp ha] at hs; cases hs

/-- two op lists with label ops at the same positions resolve labels alike -/
theorem lastLabel_congr {l : Nat} {P Q : List AOp} (hlen : Q.length = P.length)
    (h : ∀ (i : Nat) (op q : AOp), P[i]? = some op → Q[i]? = some q →
      (op.kind = .label l ↔ q.kind = .label l)) :
    lastLabel l Q = lastLabel l P := by
  induction P generalizing Q with
  | nil =>
    cases Q with
    | nil => rfl
    | cons _ _ => simp at hlen
  | cons op ops ih =>
    cases Q with
    | nil => simp at hlen
    | cons q qs =>
      simp only [List.length_cons, Nat.add_right_cancel_iff] at hlen
      have ih' := ih hlen (fun i o1 o2 h1 h2 => h (i + 1) o1 o2 (by simpa using h1) (by simpa using h2))
      have h0 := h 0 op q (by simp) (by simp)
      simp only [lastLabel, ih']
      cases lastLabel l ops with
      | some j => rfl
      | none =>
        by_cases hk : op.kind = .label l
        · simp [hk, h0.1 hk]
        · have : ¬ q.kind = .label l := fun hq => hk (h0.2 hq)
          simp [hk, this]

theorem mem_zip_of_get {P Q : List AOp} {i : Nat} {op q : AOp}
    (hp : P[i]? = some op) (hq : Q[i]? = some q) : (op, q) ∈ P.zip Q := by
  apply List.mem_of_getElem? (i := i)
  rw [List.getElem?_zip_eq_some]
  exact ⟨hp, hq⟩

end SwayVerif.AsmOpt
