import SwayVerif.Model.SwaySem
/-!
Fuel monotonicity of the `SwaySem` interpreter: one more unfolding never changes a result that is not `oof`.
-/
namespace SwayVerif.SwaySem

/-- approximation order on results: `oof` is below everything -/
def Res.le {α : Type} (r r' : Res α) : Prop := r = .oof ∨ r = r'

theorem Res.le_refl {α : Type} (r : Res α) : Res.le r r := Or.inr rfl
theorem Res.oof_le {α : Type} (r : Res α) : Res.le .oof r := Or.inl rfl
theorem Res.le_trans {α : Type} {a b c : Res α} (h1 : Res.le a b) (h2 : Res.le b c) : Res.le a c := by
  rcases h1 with h | h
  · exact Or.inl h
  · subst h; exact h2

theorem bind_le {α β : Type} {m m' : Res α} {f f' : α → St → Res β}
    (hm : Res.le m m') (hf : ∀ a s, Res.le (f a s) (f' a s)) : Res.le (m.bind f) (m'.bind f') := by
  rcases hm with h | h
  · subst h; exact Or.inl rfl
  · subst h
    cases m with
    | ok a s => exact hf a s
    | brk s => exact Res.le_refl _
    | cont s => exact Res.le_refl _
    | ret v s => exact Res.le_refl _
    | fail f l => exact Res.le_refl _
    | oof => exact Res.le_refl _

theorem asBool_le {v : Val} {s : St} {k k' : Bool → Res Val} (h : ∀ b, Res.le (k b) (k' b)) :
    Res.le (asBool v s k) (asBool v s k') := by
  cases v <;> simp only [asBool] <;> first | exact h _ | exact Res.le_refl _

section
variable {fns : List Fn}
variable {rE rE' : Expr → St → Res Val} {rEs rEs' : List Expr → St → Res (List Val)}
variable {rB rB' : List Stmt → St → Res Val} {rS rS' : Stmt → St → Res Val}
variable {rArms rArms' : Val → List Arm → St → Res Val} {rPath rPath' : List PathElem → St → Res RPath}

theorem inScope_le (hB : ∀ x s, Res.le (rB x s) (rB' x s)) (b : List Stmt) (s : St) :
    Res.le (inScope rB b s) (inScope rB' b s) := by
  unfold inScope
  rcases hB b s with h | h
  · rw [h]; exact Or.inl rfl
  · rw [h]; exact Res.le_refl _

theorem stepE_le (hE : ∀ x s, Res.le (rE x s) (rE' x s)) (hEs : ∀ x s, Res.le (rEs x s) (rEs' x s))
    (hB : ∀ x s, Res.le (rB x s) (rB' x s)) (hA : ∀ v x s, Res.le (rArms v x s) (rArms' v x s))
    (x : Expr) (s : St) : Res.le (stepE fns rE rEs rB rArms x s) (stepE fns rE' rEs' rB' rArms' x s) := by
  cases x <;> simp only [stepE]
  case lit => exact Res.le_refl _
  case bool => exact Res.le_refl _
  case var => exact Res.le_refl _
  case bin op a b =>
    exact bind_le (hE _ _) fun _ _ => bind_le (hE _ _) fun _ _ => Res.le_refl _
  case cmp op a b =>
    exact bind_le (hE _ _) fun _ _ => bind_le (hE _ _) fun _ _ => Res.le_refl _
  case land a b =>
    refine bind_le (hE _ _) fun _ _ => asBool_le fun x => ?_
    cases x
    · exact Res.le_refl _
    · exact bind_le (hE _ _) fun _ _ => Res.le_refl _
  case lor a b =>
    refine bind_le (hE _ _) fun _ _ => asBool_le fun x => ?_
    cases x
    · exact bind_le (hE _ _) fun _ _ => Res.le_refl _
    · exact Res.le_refl _
  case not a => exact bind_le (hE _ _) fun _ _ => Res.le_refl _
  case cast w a => exact bind_le (hE _ _) fun _ _ => Res.le_refl _
  case tup es => exact bind_le (hEs _ _) fun _ _ => Res.le_refl _
  case proj a i => exact bind_le (hE _ _) fun _ _ => Res.le_refl _
  case idx a i => exact bind_le (hE _ _) fun _ _ => bind_le (hE _ _) fun _ _ => Res.le_refl _
  case enm t a => exact bind_le (hE _ _) fun _ _ => Res.le_refl _
  case ite c t e =>
    refine bind_le (hE _ _) fun _ _ => asBool_le fun x => ?_
    cases x
    · exact inScope_le hB _ _
    · exact inScope_le hB _ _
  case block b => exact inScope_le hB _ _
  case call f args =>
    refine bind_le (hEs _ _) fun vs s => ?_
    cases findFn fns f with
    | none => exact Res.le_refl _
    | some fn =>
      simp only
      split
      · exact Res.le_refl _
      · rcases hB fn.body { s with env := (fn.params.zip vs).reverse } with h | h
        · rw [h]; exact Or.inl rfl
        · rw [h]; exact Res.le_refl _
  case mtch a arms =>
    refine bind_le (hE _ _) fun va s => ?_
    split
    · exact Res.le_refl _
    · exact hA _ _ _

theorem stepEs_le (hE : ∀ x s, Res.le (rE x s) (rE' x s)) (hEs : ∀ x s, Res.le (rEs x s) (rEs' x s))
    (x : List Expr) (s : St) : Res.le (stepEs rE rEs x s) (stepEs rE' rEs' x s) := by
  cases x <;> simp only [stepEs]
  · exact Res.le_refl _
  · exact bind_le (hE _ _) fun _ _ => bind_le (hEs _ _) fun _ _ => Res.le_refl _

theorem stepArms_le (hE : ∀ x s, Res.le (rE x s) (rE' x s)) (hA : ∀ v x s, Res.le (rArms v x s) (rArms' v x s))
    (v : Val) (x : List Arm) (s : St) : Res.le (stepArms rE rArms v x s) (stepArms rE' rArms' v x s) := by
  cases x with
  | nil => simp only [stepArms]; exact Res.le_refl _
  | cons a arms =>
    cases a with
    | mk p e =>
      simp only [stepArms]
      cases matchPat p v with
      | none => exact hA _ _ _
      | some bs =>
        simp only
        rcases hE e { s with env := bs ++ s.env } with h | h
        · rw [h]; exact Or.inl rfl
        · rw [h]; exact Res.le_refl _

theorem stepPath_le (hE : ∀ x s, Res.le (rE x s) (rE' x s)) (hP : ∀ x s, Res.le (rPath x s) (rPath' x s))
    (x : List PathElem) (s : St) : Res.le (stepPath rE rPath x s) (stepPath rE' rPath' x s) := by
  cases x with
  | nil => simp only [stepPath]; exact Res.le_refl _
  | cons a p =>
    cases a with
    | fld i => simp only [stepPath]; exact bind_le (hP _ _) fun _ _ => Res.le_refl _
    | idx e =>
      simp only [stepPath]
      refine bind_le (hE _ _) fun vi s => ?_
      split
      · exact bind_le (hP _ _) fun _ _ => Res.le_refl _
      · exact Res.le_refl _
      · exact Res.le_refl _

theorem stepB_le (hB : ∀ x s, Res.le (rB x s) (rB' x s)) (hS : ∀ x s, Res.le (rS x s) (rS' x s))
    (x : List Stmt) (s : St) : Res.le (stepB rB rS x s) (stepB rB' rS' x s) := by
  match x with
  | [] => simp only [stepB]; exact Res.le_refl _
  | [st] => simp only [stepB]; exact hS _ _
  | st :: st2 :: rest => simp only [stepB]; exact bind_le (hS _ _) fun _ _ => hB _ _

theorem stepS_le (hE : ∀ x s, Res.le (rE x s) (rE' x s)) (hB : ∀ x s, Res.le (rB x s) (rB' x s))
    (hS : ∀ x s, Res.le (rS x s) (rS' x s)) (hP : ∀ x s, Res.le (rPath x s) (rPath' x s))
    (x : Stmt) (s : St) : Res.le (stepS rE rB rS rPath x s) (stepS rE' rB' rS' rPath' x s) := by
  cases x <;> simp only [stepS]
  case let_ x e => exact bind_le (hE _ _) fun _ _ => Res.le_refl _
  case assign x path e =>
    exact bind_le (hE _ _) fun _ _ => bind_le (hP _ _) fun _ _ => Res.le_refl _
  case while_ c b =>
    refine bind_le (hE _ _) fun _ s => asBool_le fun x => ?_
    cases x
    · exact Res.le_refl _
    · simp only [if_true]
      rcases hB b s with h | h
      · rw [h]; exact Or.inl rfl
      · rw [h]
        cases rB' b s with
        | ok a s' => exact hS _ _
        | cont s' => exact hS _ _
        | brk s' => exact Res.le_refl _
        | ret v s' => exact Res.le_refl _
        | fail f l => exact Res.le_refl _
        | oof => exact Res.le_refl _
  case brk => exact Res.le_refl _
  case cont => exact Res.le_refl _
  case ret e => exact bind_le (hE _ _) fun _ _ => Res.le_refl _
  case expr e => exact bind_le (hE _ _) fun _ _ => Res.le_refl _
  case tail e => exact hE _ _
  case log e => exact bind_le (hE _ _) fun _ _ => Res.le_refl _
  case revert e => exact bind_le (hE _ _) fun _ _ => Res.le_refl _
  case assert e => exact bind_le (hE _ _) fun _ _ => Res.le_refl _
  case require c v => exact bind_le (hE _ _) fun _ _ => bind_le (hE _ _) fun _ _ => Res.le_refl _

end

structure Evals.le (r r' : Evals) : Prop where
  e : ∀ x s, Res.le (r.e x s) (r'.e x s)
  es : ∀ x s, Res.le (r.es x s) (r'.es x s)
  b : ∀ x s, Res.le (r.b x s) (r'.b x s)
  s : ∀ x s, Res.le (r.s x s) (r'.s x s)
  arms : ∀ v x s, Res.le (r.arms v x s) (r'.arms v x s)
  path : ∀ x s, Res.le (r.path x s) (r'.path x s)

theorem Evals.le_refl (r : Evals) : Evals.le r r :=
  ⟨fun _ _ => Res.le_refl _, fun _ _ => Res.le_refl _, fun _ _ => Res.le_refl _, fun _ _ => Res.le_refl _,
   fun _ _ _ => Res.le_refl _, fun _ _ => Res.le_refl _⟩

theorem Evals.le_trans {a b c : Evals} (h1 : Evals.le a b) (h2 : Evals.le b c) : Evals.le a c :=
  ⟨fun x s => Res.le_trans (h1.e x s) (h2.e x s), fun x s => Res.le_trans (h1.es x s) (h2.es x s),
   fun x s => Res.le_trans (h1.b x s) (h2.b x s), fun x s => Res.le_trans (h1.s x s) (h2.s x s),
   fun v x s => Res.le_trans (h1.arms v x s) (h2.arms v x s), fun x s => Res.le_trans (h1.path x s) (h2.path x s)⟩

theorem Evals.bot_le (r : Evals) : Evals.le .bot r :=
  ⟨fun _ _ => Res.oof_le _, fun _ _ => Res.oof_le _, fun _ _ => Res.oof_le _, fun _ _ => Res.oof_le _,
   fun _ _ _ => Res.oof_le _, fun _ _ => Res.oof_le _⟩

/-- one unfolding of the semantics is monotone in the approximation it unfolds -/
theorem Evals.next_mono (fns : List Fn) {r r' : Evals} (h : Evals.le r r') : Evals.le (r.next fns) (r'.next fns) :=
  ⟨stepE_le h.e h.es h.b h.arms, stepEs_le h.e h.es, stepB_le h.b h.s, stepS_le h.e h.b h.s h.path,
   stepArms_le h.e h.arms, stepPath_le h.e h.path⟩

theorem evals_le_succ (fns : List Fn) : ∀ n, Evals.le (evals fns n) (evals fns (n + 1))
  | 0 => Evals.bot_le _
  | n + 1 => Evals.next_mono fns (evals_le_succ fns n)

theorem evals_mono (fns : List Fn) {n m : Nat} (h : n ≤ m) : Evals.le (evals fns n) (evals fns m) := by
  induction h with
  | refl => exact Evals.le_refl _
  | step _ ih => exact Evals.le_trans ih (evals_le_succ fns _)

end SwayVerif.SwaySem
