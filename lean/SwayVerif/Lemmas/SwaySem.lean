import SwayVerif.Model.SwaySem
/-!
Fuel monotonicity of the `SwaySem` interpreter: one more unfolding never changes a result that is not `oof`.
-/
namespace SwayVerif.SwaySem

/-- approximation order on results: `oof` is below everything -/
def Res.le {α : Type} (r r' : Res α) : Prop := r = .oof ∨ r = r'

theorem Res.le_refl {α : Type} (r : Res α) : Res.le r r := Or.inr rfl
theorem Res.oof_le {α : Type} (r : Res α) : Res.le .oof r := Or.inl rfl
theorem Res.le_trans {α : Type} {a b c : Res α} (h1 : Res.le a b) (h2 : Res.le b c) : Res.le a c := by
  rcases h1 with h | h
  · exact Or.inl h
  · subst h; exact h2

theorem bind_le {α β : Type} {m m' : Res α} {f f' : α → St → Res β}
    (hm : Res.le m m') (hf : ∀ a s, Res.le (f a s) (f' a s)) : Res.le (m.bind f) (m'.bind f') := by
  rcases hm with h | h
  · subst h; exact Or.inl rfl
  · subst h
    cases m with
    | ok a s => exact hf a s
    | brk s => exact Res.le_refl _
    | cont s => exact Res.le_refl _
    | ret v s => exact Res.le_refl _
    | fail f l => exact Res.le_refl _
    | oof => exact Res.le_refl _

theorem asBool_le {v : Val} {s : St} {k k' : Bool → Res Val} (h : ∀ b, Res.le (k b) (k' b)) :
    Res.le (asBool v s k) (asBool v s k') := by
  cases v <;> simp only [asBool] <;> first | exact h _ | exact Res.le_refl _

theorem bothBranches_le {r1 r1' r2 r2' : Res Val} (s : St) (h1 : Res.le r1 r1') (h2 : Res.le r2 r2') :
    Res.le (bothBranches r1 r2 s) (bothBranches r1' r2' s) := by
  rcases h1 with h | h
  · subst h; left; simp [bothBranches]
  · subst h
    rcases h2 with h | h
    · subst h; left; cases r1 <;> simp [bothBranches]
    · subst h; exact Res.le_refl _

section
variable {fns : List Fn}
variable {rE rE' : Expr → St → Res Val} {rEs rEs' : List Expr → St → Res (List Val)}
variable {rB rB' : List Stmt → St → Res Val} {rS rS' : Stmt → St → Res Val}
variable {rArms rArms' : Val → List Arm → St → Res Val} {rPath rPath' : List PathElem → St → Res RPath}

theorem inScope_le (hB : ∀ x s, Res.le (rB x s) (rB' x s)) (b : List Stmt) (s : St) :
    Res.le (inScope rB b s) (inScope rB' b s) := by
  unfold inScope
  rcases hB b s with h | h
  · rw [h]; exact Or.inl rfl
  · rw [h]; exact Res.le_refl _

theorem stepE_le (hE : ∀ x s, Res.le (rE x s) (rE' x s)) (hEs : ∀ x s, Res.le (rEs x s) (rEs' x s))
    (hB : ∀ x s, Res.le (rB x s) (rB' x s)) (hA : ∀ v x s, Res.le (rArms v x s) (rArms' v x s))
    (x : Expr) (s : St) : Res.le (stepE fns rE rEs rB rArms x s) (stepE fns rE' rEs' rB' rArms' x s) := by
  cases x <;> simp only [stepE]
  case lit => exact Res.le_refl _
  case bool => exact Res.le_refl _
  case var => exact Res.le_refl _
  case bin op a b =>
    exact bind_le (hE _ _) fun _ _ => bind_le (hE _ _) fun _ _ => Res.le_refl _
  case cmp op a b =>
    exact bind_le (hE _ _) fun _ _ => bind_le (hE _ _) fun _ _ => Res.le_refl _
  case land a b =>
    refine bind_le (hE _ _) fun _ _ => asBool_le fun x => ?_
    cases x
    · exact Res.le_refl _
    · exact bind_le (hE _ _) fun _ _ => Res.le_refl _
  case lor a b =>
    refine bind_le (hE _ _) fun _ _ => asBool_le fun x => ?_
    cases x
    · exact bind_le (hE _ _) fun _ _ => Res.le_refl _
    · exact Res.le_refl _
  case not a => exact bind_le (hE _ _) fun _ _ => Res.le_refl _
  case cast w a => exact bind_le (hE _ _) fun _ _ => Res.le_refl _
  case tup es => exact bind_le (hEs _ _) fun _ _ => Res.le_refl _
  case proj a i => exact bind_le (hE _ _) fun _ _ => Res.le_refl _
  case idx a i => exact bind_le (hE _ _) fun _ _ => bind_le (hE _ _) fun _ _ => Res.le_refl _
  case enm t a => exact bind_le (hE _ _) fun _ _ => Res.le_refl _
  case ite c t e =>
    refine bind_le (hE _ _) fun vc s => ?_
    have hb : Res.le (bothBranches (inScope rB t s) (inScope rB e s) s)
        (bothBranches (inScope rB' t s) (inScope rB' e s) s) :=
      bothBranches_le s (inScope_le hB _ _) (inScope_le hB _ _)
    have ha : Res.le (asBool vc s fun x => if x then inScope rB t s else inScope rB e s)
        (asBool vc s fun x => if x then inScope rB' t s else inScope rB' e s) := by
      refine asBool_le fun x => ?_
      cases x
      · exact inScope_le hB _ _
      · exact inScope_le hB _ _
    cases vc <;> first | exact hb | exact ha
  case block b => exact inScope_le hB _ _
  case call f args =>
    refine bind_le (hEs _ _) fun vs s => ?_
    cases findFn fns f with
    | none => exact Res.le_refl _
    | some fn =>
      simp only
      split
      · exact Res.le_refl _
      · rcases hB fn.body { s with env := (fn.params.zip vs).reverse } with h | h
        · rw [h]; exact Or.inl rfl
        · rw [h]; exact Res.le_refl _
  case mtch a arms =>
    refine bind_le (hE _ _) fun va s => ?_
    split
    · exact Res.le_refl _
    · exact hA _ _ _

theorem stepEs_le (hE : ∀ x s, Res.le (rE x s) (rE' x s)) (hEs : ∀ x s, Res.le (rEs x s) (rEs' x s))
    (x : List Expr) (s : St) : Res.le (stepEs rE rEs x s) (stepEs rE' rEs' x s) := by
  cases x <;> simp only [stepEs]
  · exact Res.le_refl _
  · exact bind_le (hE _ _) fun _ _ => bind_le (hEs _ _) fun _ _ => Res.le_refl _

theorem stepArms_le (hE : ∀ x s, Res.le (rE x s) (rE' x s)) (hA : ∀ v x s, Res.le (rArms v x s) (rArms' v x s))
    (v : Val) (x : List Arm) (s : St) : Res.le (stepArms rE rArms v x s) (stepArms rE' rArms' v x s) := by
  cases x with
  | nil => simp only [stepArms]; exact Res.le_refl _
  | cons a arms =>
    cases a with
    | mk p e =>
      simp only [stepArms]
      cases matchPat p v with
      | none => exact hA _ _ _
      | some bs =>
        simp only
        rcases hE e { s with env := bs ++ s.env } with h | h
        · rw [h]; exact Or.inl rfl
        · rw [h]; exact Res.le_refl _

theorem stepPath_le (hE : ∀ x s, Res.le (rE x s) (rE' x s)) (hP : ∀ x s, Res.le (rPath x s) (rPath' x s))
    (x : List PathElem) (s : St) : Res.le (stepPath rE rPath x s) (stepPath rE' rPath' x s) := by
  cases x with
  | nil => simp only [stepPath]; exact Res.le_refl _
  | cons a p =>
    cases a with
    | fld i => simp only [stepPath]; exact bind_le (hP _ _) fun _ _ => Res.le_refl _
    | idx e =>
      simp only [stepPath]
      refine bind_le (hE _ _) fun vi s => ?_
      split
      · exact bind_le (hP _ _) fun _ _ => Res.le_refl _
      · exact Res.le_refl _
      · exact Res.le_refl _

theorem stepB_le (hB : ∀ x s, Res.le (rB x s) (rB' x s)) (hS : ∀ x s, Res.le (rS x s) (rS' x s))
    (x : List Stmt) (s : St) : Res.le (stepB rB rS x s) (stepB rB' rS' x s) := by
  match x with
  | [] => simp only [stepB]; exact Res.le_refl _
  | [st] => simp only [stepB]; exact hS _ _
  | st :: st2 :: rest => simp only [stepB]; exact bind_le (hS _ _) fun _ _ => hB _ _

theorem stepS_le (hE : ∀ x s, Res.le (rE x s) (rE' x s)) (hB : ∀ x s, Res.le (rB x s) (rB' x s))
    (hS : ∀ x s, Res.le (rS x s) (rS' x s)) (hP : ∀ x s, Res.le (rPath x s) (rPath' x s))
    (x : Stmt) (s : St) : Res.le (stepS rE rB rS rPath x s) (stepS rE' rB' rS' rPath' x s) := by
  cases x <;> simp only [stepS]
  case let_ x e => exact bind_le (hE _ _) fun _ _ => Res.le_refl _
  case assign x path e =>
    exact bind_le (hE _ _) fun _ _ => bind_le (hP _ _) fun _ _ => Res.le_refl _
  case while_ c b =>
    refine bind_le (hE _ _) fun _ s => asBool_le fun x => ?_
    cases x
    · exact Res.le_refl _
    · simp only [if_true]
      rcases hB b s with h | h
      · rw [h]; exact Or.inl rfl
      · rw [h]
        cases rB' b s with
        | ok a s' => exact hS _ _
        | cont s' => exact hS _ _
        | brk s' => exact Res.le_refl _
        | ret v s' => exact Res.le_refl _
        | fail f l => exact Res.le_refl _
        | oof => exact Res.le_refl _
  case brk => exact Res.le_refl _
  case cont => exact Res.le_refl _
  case ret e => exact bind_le (hE _ _) fun _ _ => Res.le_refl _
  case expr e => exact bind_le (hE _ _) fun _ _ => Res.le_refl _
  case tail e => exact hE _ _
  case log e => exact bind_le (hE _ _) fun _ _ => Res.le_refl _
  case revert e => exact bind_le (hE _ _) fun _ _ => Res.le_refl _
  case assert e => exact bind_le (hE _ _) fun _ _ => Res.le_refl _
  case require c v => exact bind_le (hE _ _) fun _ _ => bind_le (hE _ _) fun _ _ => Res.le_refl _

end

structure Evals.le (r r' : Evals) : Prop where
  e : ∀ x s, Res.le (r.e x s) (r'.e x s)
  es : ∀ x s, Res.le (r.es x s) (r'.es x s)
  b : ∀ x s, Res.le (r.b x s) (r'.b x s)
  s : ∀ x s, Res.le (r.s x s) (r'.s x s)
  arms : ∀ v x s, Res.le (r.arms v x s) (r'.arms v x s)
  path : ∀ x s, Res.le (r.path x s) (r'.path x s)

theorem Evals.le_refl (r : Evals) : Evals.le r r :=
  ⟨fun _ _ => Res.le_refl _, fun _ _ => Res.le_refl _, fun _ _ => Res.le_refl _, fun _ _ => Res.le_refl _,
   fun _ _ _ => Res.le_refl _, fun _ _ => Res.le_refl _⟩

theorem Evals.le_trans {a b c : Evals} (h1 : Evals.le a b) (h2 : Evals.le b c) : Evals.le a c :=
  ⟨fun x s => Res.le_trans (h1.e x s) (h2.e x s), fun x s => Res.le_trans (h1.es x s) (h2.es x s),
   fun x s => Res.le_trans (h1.b x s) (h2.b x s), fun x s => Res.le_trans (h1.s x s) (h2.s x s),
   fun v x s => Res.le_trans (h1.arms v x s) (h2.arms v x s), fun x s => Res.le_trans (h1.path x s) (h2.path x s)⟩

theorem Evals.bot_le (r : Evals) : Evals.le .bot r :=
  ⟨fun _ _ => Res.oof_le _, fun _ _ => Res.oof_le _, fun _ _ => Res.oof_le _, fun _ _ => Res.oof_le _,
   fun _ _ _ => Res.oof_le _, fun _ _ => Res.oof_le _⟩

/-- one unfolding of the semantics is monotone in the approximation it unfolds -/
theorem Evals.next_mono (fns : List Fn) {r r' : Evals} (h : Evals.le r r') : Evals.le (r.next fns) (r'.next fns) :=
  ⟨stepE_le h.e h.es h.b h.arms, stepEs_le h.e h.es, stepB_le h.b h.s, stepS_le h.e h.b h.s h.path,
   stepArms_le h.e h.arms, stepPath_le h.e h.path⟩

theorem evals_le_succ (fns : List Fn) : ∀ n, Evals.le (evals fns n) (evals fns (n + 1))
  | 0 => Evals.bot_le _
  | n + 1 => Evals.next_mono fns (evals_le_succ fns n)

theorem evals_mono (fns : List Fn) {n m : Nat} (h : n ≤ m) : Evals.le (evals fns n) (evals fns m) := by
  induction h with
  | refl => exact Evals.le_refl _
  | step _ ih => exact Evals.le_trans ih (evals_le_succ fns _)

/-! ## Typing of the closed scalar sub-fragment and progress -/

inductive STy | int (w : W) | bool
  deriving DecidableEq

def isShift : BinOp → Bool
  | .shl | .shr => true
  | _ => false

def isBitwise : BinOp → Bool
  | .band | .bor | .bxor => true
  | _ => false

/-- typing of the closed scalar sub-fragment: literals, arithmetic / bitwise / shift operators, comparisons,
`&& || !`, widening casts -/
def tyE : Expr → Option STy
  | .lit w n => if n ≤ w.max then some (.int w) else none
  | .bool _ => some .bool
  | .bin op a b =>
    match tyE a, tyE b with
    | some (.int w), some (.int w') =>
      if isShift op then (if w' = .u64 then some (.int w) else none)
      else if w = w' then some (.int w) else none
    | some .bool, some .bool => if isBitwise op then some .bool else none
    | _, _ => none
  | .cmp op a b =>
    match tyE a, tyE b with
    | some (.int w), some (.int w') => if w = w' then some .bool else none
    | some .bool, some .bool => if op = .eq ∨ op = .ne then some .bool else none
    | _, _ => none
  | .land a b | .lor a b =>
    match tyE a, tyE b with
    | some .bool, some .bool => some .bool
    | _, _ => none
  | .not a => tyE a
  | .cast w a =>
    match tyE a with
    | some (.int w') => if w'.bits ≤ w.bits then some (.int w) else none
    | _ => none
  | _ => none


def hasTy : Val → STy → Prop
  | .int w _, .int w' => w = w'
  | .bool _, .bool => True
  | _, _ => False

/-- results a well-typed closed scalar expression may have in the prescriptive semantics (`skip = 0`):
a value of its type with the state unchanged, an arithmetic revert with the logs unchanged, or out of fuel -/
def GoodRes (s : St) (t : STy) : Res Val → Prop
  | .ok v s' => hasTy v t ∧ s' = s
  | .fail (.revert 0) l => l = s.logs
  | .oof => True
  | _ => False

theorem bind_good {s : St} {ta t : STy} {m : Res Val} {f : Val → St → Res Val}
    (hm : GoodRes s ta m) (hf : ∀ v, hasTy v ta → GoodRes s t (f v s)) : GoodRes s t (m.bind f) := by
  cases m with
  | ok v s' => obtain ⟨hv, hs⟩ := hm; subst hs; exact hf v hv
  | fail f' l =>
    cases f' with
    | revert c => cases c with
      | zero => exact hm
      | succ c => exact hm.elim
    | _ => exact hm.elim
  | oof => trivial
  | _ => exact hm.elim

theorem int_of_hasTy {v : Val} {w : W} (h : hasTy v (.int w)) : ∃ n, v = .int w n := by
  cases v with
  | int w' n => exact ⟨n, by simp only [hasTy] at h; rw [h]⟩
  | _ => exact h.elim

theorem bool_of_hasTy {v : Val} (h : hasTy v .bool) : ∃ b, v = .bool b := by
  cases v with
  | bool b => exact ⟨b, rfl⟩
  | _ => exact h.elim

theorem binVals_int_good (op : BinOp) (w w' : W) (x y : Nat) (s : St) (hs : s.skip = 0)
    (hty : if isShift op then w' = .u64 else w = w') :
    GoodRes s (.int w) (binVals op (.int w x) (.int w' y) s) := by
  simp only [binVals]
  have hshift : (op = .shl ∨ op = .shr) ↔ isShift op = true := by cases op <;> simp [isShift]
  by_cases hsh : isShift op = true
  · simp only [hsh, if_true] at hty
    have h1 : ¬ ((op = .shl ∨ op = .shr) ∧ w' ≠ .u64) := fun h => h.2 hty
    have h2 : ¬ (¬ (op = .shl ∨ op = .shr) ∧ w ≠ w') := fun h => h.1 (hshift.mpr hsh)
    simp only [h1, h2, if_false]
    cases evalBin op w x y with
    | some r => exact ⟨rfl, rfl⟩
    | none => simp only [hs, Nat.lt_irrefl, and_false, if_false, failS]; rfl
  · have hsh' : isShift op = false := by cases h : isShift op <;> simp_all
    simp only [hsh', Bool.false_eq_true, if_false] at hty
    have h1 : ¬ ((op = .shl ∨ op = .shr) ∧ w' ≠ .u64) := fun h => hsh (hshift.mp h.1)
    have h2 : ¬ (¬ (op = .shl ∨ op = .shr) ∧ w ≠ w') := fun h => h.2 hty
    simp only [h1, h2, if_false]
    cases evalBin op w x y with
    | some r => exact ⟨rfl, rfl⟩
    | none => simp only [hs, Nat.lt_irrefl, and_false, if_false, failS]; rfl


theorem evals_e_succ (fns : List Fn) (n : Nat) :
    (evals fns (n + 1)).e = stepE fns (evals fns n).e (evals fns n).es (evals fns n).b (evals fns n).arms := rfl

/-- **Progress for the closed scalar fragment.** A well-typed expression built from literals, arithmetic /
bitwise / shift operators, comparisons, `&& || !` and widening casts never gets `stuck` (nor `unsupported`,
nor a control signal): at any fuel it yields a value of its type, an arithmetic revert, or runs out of fuel;
logs and environment are untouched. -/
theorem scalar_good (fns : List Fn) : ∀ (n : Nat) (e : Expr) (t : STy) (s : St), s.skip = 0 → tyE e = some t →
    GoodRes s t ((evals fns n).e e s)
  | 0, _, _, _, _, _ => trivial
  | n + 1, e, t, s, hs, ht => by
    have ih := scalar_good fns n
    rw [evals_e_succ]
    cases e with
    | lit w k =>
      simp only [tyE] at ht
      split at ht
      · rename_i hk
        simp only [Option.some.injEq] at ht; subst ht
        simp only [stepE, hk, if_true]; exact ⟨rfl, rfl⟩
      · exact absurd ht (by simp)
    | bool b =>
      simp only [tyE, Option.some.injEq] at ht; subst ht
      simp only [stepE]; exact ⟨trivial, rfl⟩
    | bin op a b =>
      simp only [tyE] at ht
      cases hta : tyE a with
      | none => rw [hta] at ht; simp at ht
      | some ta =>
        cases htb : tyE b with
        | none => rw [hta, htb] at ht; cases ta <;> simp at ht
        | some tb =>
          rw [hta, htb] at ht
          simp only [stepE]
          refine bind_good (ih a ta s hs hta) fun va hva => bind_good (ih b tb s hs htb) fun vb hvb => ?_
          cases ta with
          | int w =>
            cases tb with
            | int w' =>
              obtain ⟨x, rfl⟩ := int_of_hasTy hva
              obtain ⟨y, rfl⟩ := int_of_hasTy hvb
              simp only at ht
              by_cases hsh : isShift op = true
              · simp only [hsh, if_true] at ht
                split at ht
                · rename_i h64
                  simp only [Option.some.injEq] at ht; subst ht
                  exact binVals_int_good op w w' x y s hs (by simp [hsh, h64])
                · exact absurd ht (by simp)
              · have hsh' : isShift op = false := by cases h : isShift op <;> simp_all
                simp only [hsh', Bool.false_eq_true, if_false] at ht
                split at ht
                · rename_i hww
                  simp only [Option.some.injEq] at ht; subst ht
                  exact binVals_int_good op w w' x y s hs (by simp [hsh', hww])
                · exact absurd ht (by simp)
            | bool => simp at ht
          | bool =>
            cases tb with
            | int w' => simp at ht
            | bool =>
              obtain ⟨x, rfl⟩ := bool_of_hasTy hva
              obtain ⟨y, rfl⟩ := bool_of_hasTy hvb
              simp only at ht
              split at ht
              · rename_i hb
                simp only [Option.some.injEq] at ht; subst ht
                cases op <;> simp [isBitwise] at hb <;> simp only [binVals] <;> exact ⟨trivial, rfl⟩
              · exact absurd ht (by simp)
    | cmp op a b =>
      simp only [tyE] at ht
      cases hta : tyE a with
      | none => rw [hta] at ht; simp at ht
      | some ta =>
        cases htb : tyE b with
        | none => rw [hta, htb] at ht; cases ta <;> simp at ht
        | some tb =>
          rw [hta, htb] at ht
          simp only [stepE]
          refine bind_good (ih a ta s hs hta) fun va hva => bind_good (ih b tb s hs htb) fun vb hvb => ?_
          cases ta with
          | int w =>
            cases tb with
            | int w' =>
              obtain ⟨x, rfl⟩ := int_of_hasTy hva
              obtain ⟨y, rfl⟩ := int_of_hasTy hvb
              simp only at ht
              split at ht
              · rename_i hww
                simp only [Option.some.injEq] at ht; subst ht
                simp only [cmpVals, hww, if_true]; exact ⟨trivial, rfl⟩
              · exact absurd ht (by simp)
            | bool => simp at ht
          | bool =>
            cases tb with
            | int w' => simp at ht
            | bool =>
              obtain ⟨x, rfl⟩ := bool_of_hasTy hva
              obtain ⟨y, rfl⟩ := bool_of_hasTy hvb
              simp only at ht
              split at ht
              · rename_i hb
                simp only [Option.some.injEq] at ht; subst ht
                rcases hb with hb | hb <;> subst hb <;> simp only [cmpVals] <;> exact ⟨trivial, rfl⟩
              · exact absurd ht (by simp)
    | land a b =>
      simp only [tyE] at ht
      cases hta : tyE a with
      | none => rw [hta] at ht; simp at ht
      | some ta =>
        cases htb : tyE b with
        | none => rw [hta, htb] at ht; cases ta <;> simp at ht
        | some tb =>
          rw [hta, htb] at ht
          cases ta <;> cases tb <;> simp at ht
          subst ht
          simp only [stepE]
          refine bind_good (ih a .bool s hs hta) fun va hva => ?_
          obtain ⟨x, rfl⟩ := bool_of_hasTy hva
          simp only [asBool]
          cases x
          · exact ⟨trivial, rfl⟩
          · simp only [if_true]
            refine bind_good (ih b .bool s hs htb) fun vb hvb => ?_
            obtain ⟨y, rfl⟩ := bool_of_hasTy hvb
            exact ⟨trivial, rfl⟩
    | lor a b =>
      simp only [tyE] at ht
      cases hta : tyE a with
      | none => rw [hta] at ht; simp at ht
      | some ta =>
        cases htb : tyE b with
        | none => rw [hta, htb] at ht; cases ta <;> simp at ht
        | some tb =>
          rw [hta, htb] at ht
          cases ta <;> cases tb <;> simp at ht
          subst ht
          simp only [stepE]
          refine bind_good (ih a .bool s hs hta) fun va hva => ?_
          obtain ⟨x, rfl⟩ := bool_of_hasTy hva
          simp only [asBool]
          cases x
          · simp only [Bool.false_eq_true, if_false]
            refine bind_good (ih b .bool s hs htb) fun vb hvb => ?_
            obtain ⟨y, rfl⟩ := bool_of_hasTy hvb
            exact ⟨trivial, rfl⟩
          · exact ⟨trivial, rfl⟩
    | not a =>
      simp only [tyE] at ht
      simp only [stepE]
      refine bind_good (ih a t s hs ht) fun va hva => ?_
      cases t with
      | int w => obtain ⟨x, rfl⟩ := int_of_hasTy hva; exact ⟨rfl, rfl⟩
      | bool => obtain ⟨x, rfl⟩ := bool_of_hasTy hva; exact ⟨trivial, rfl⟩
    | cast w a =>
      simp only [tyE] at ht
      cases hta : tyE a with
      | none => rw [hta] at ht; simp at ht
      | some ta =>
        rw [hta] at ht
        cases ta with
        | bool => simp at ht
        | int w' =>
          simp only at ht
          split at ht
          · rename_i hbits
            simp only [Option.some.injEq] at ht; subst ht
            simp only [stepE]
            refine bind_good (ih a (.int w') s hs hta) fun va hva => ?_
            obtain ⟨x, rfl⟩ := int_of_hasTy hva
            simp only [castVal, hbits, if_true]; exact ⟨rfl, rfl⟩
          · exact absurd ht (by simp)
    | var _ => simp [tyE] at ht
    | tup _ => simp [tyE] at ht
    | proj _ _ => simp [tyE] at ht
    | idx _ _ => simp [tyE] at ht
    | enm _ _ => simp [tyE] at ht
    | ite _ _ _ => simp [tyE] at ht
    | block _ => simp [tyE] at ht
    | call _ _ => simp [tyE] at ht
    | mtch _ _ => simp [tyE] at ht


end SwayVerif.SwaySem
