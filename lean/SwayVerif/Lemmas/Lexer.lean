import SwayVerif.Model.Lexer
/-! Helper lemmas for C16 (`Props/C16.lean`): byte offsets, char boundaries, stream invariants and the
specifications of the sub-lexers of `Model/Lexer.lean`. -/
namespace SwayVerif.Lexer

/-! ## Byte lengths -/

theorem u8len_pos (c : Char) : 0 < u8len c := by
  unfold u8len
  split
  · omega
  · split
    · omega
    · split <;> omega

theorem u8len_ascii {c : Char} (h : c.toNat < 128) : u8len c = 1 := by
  unfold u8len
  have : c.val.toNat = c.toNat := rfl
  rw [this]
  simp [h]

@[simp] theorem blen_nil : blen [] = 0 := rfl
@[simp] theorem blen_cons (x : CC) (xs : List CC) : blen (x :: xs) = u8len x.c + blen xs := rfl

theorem blen_append (a b : List CC) : blen (a ++ b) = blen a + blen b := by
  induction a with
  | nil => simp
  | cons c cs ih => simp [ih, Nat.add_assoc]

/-! ## Char boundaries -/

/-- `p` is the byte length of a prefix of `text`. -/
def Bd (text : List CC) (p : Nat) : Prop := ∃ pre suf, text = pre ++ suf ∧ blen pre = p

theorem isBoundary_zero (text : List CC) : isBoundary text 0 = true := by
  cases text <;> rfl

theorem isBoundary_cons_succ (x : CC) (xs : List CC) (n : Nat) :
    isBoundary (x :: xs) (n + 1) = if n + 1 < u8len x.c then false else isBoundary xs (n + 1 - u8len x.c) := rfl

theorem isBoundary_iff (text : List CC) (p : Nat) : isBoundary text p = true ↔ Bd text p := by
  constructor
  · intro h
    induction text generalizing p with
    | nil =>
      cases p with
      | zero => exact ⟨[], [], rfl, rfl⟩
      | succ n => simp [isBoundary] at h
    | cons x xs ih =>
      cases p with
      | zero => exact ⟨[], x :: xs, rfl, rfl⟩
      | succ n =>
        rw [isBoundary_cons_succ] at h
        split at h
        · simp at h
        · rename_i hlt
          obtain ⟨pre, suf, h1, h2⟩ := ih _ h
          refine ⟨x :: pre, suf, by simp [h1], ?_⟩
          simp [h2]; omega
  · rintro ⟨pre, suf, h1, h2⟩
    subst h1
    induction pre generalizing p with
    | nil => simp at h2; subst h2; exact isBoundary_zero _
    | cons x pre ih =>
      have hx := u8len_pos x.c
      simp at h2
      cases p with
      | zero => omega
      | succ n =>
        rw [List.cons_append, isBoundary_cons_succ]
        have : ¬ (n + 1 < u8len x.c) := by omega
        rw [if_neg this]
        exact ih _ (by omega)

theorem Bd.zero (text : List CC) : Bd text 0 := ⟨[], text, rfl, rfl⟩

theorem Bd.len (text : List CC) : Bd text (blen text) := ⟨text, [], by simp, rfl⟩

theorem Bd.le_len {text : List CC} {p : Nat} (h : Bd text p) : p ≤ blen text := by
  obtain ⟨pre, suf, h1, h2⟩ := h
  subst h1; rw [blen_append]; omega

/-- Validity of a span / slice: what `text.get(a..b)` needs. -/
def SpanOK (text : List CC) (a b : Nat) : Prop := Bd text a ∧ Bd text b ∧ a ≤ b

theorem validSpan_iff (text : List CC) (a b : Nat) : validSpan text a b = true ↔ SpanOK text a b := by
  unfold validSpan SpanOK
  simp only [Bool.and_eq_true, decide_eq_true_eq, isBoundary_iff]
  constructor
  · rintro ⟨⟨h1, h2⟩, h3⟩; exact ⟨h2, h3, h1⟩
  · rintro ⟨h1, h2, h3⟩; exact ⟨⟨h3, h1⟩, h2⟩

theorem walkBack_le (text : List CC) (n : Nat) : walkBack text n ≤ n := by
  induction n with
  | zero => simp [walkBack]
  | succ n ih =>
    unfold walkBack
    split
    · omega
    · omega

theorem walkBack_bd (text : List CC) (n : Nat) : Bd text (walkBack text n) := by
  induction n with
  | zero => exact Bd.zero _
  | succ n ih =>
    unfold walkBack
    split
    · rename_i h; exact (isBoundary_iff _ _).1 h
    · exact ih

theorem walkBack_ge {text : List CC} {b n : Nat} (hb : Bd text b) (hle : b ≤ n) : b ≤ walkBack text n := by
  induction n with
  | zero => omega
  | succ n ih =>
    unfold walkBack
    split
    · exact hle
    · rename_i h
      have : b ≠ n + 1 := by
        intro e; subst e; exact h ((isBoundary_iff _ _).2 hb)
      exact ih (by omega)

/-! ## Streams -/

/-- `(pos, rest)` is a stream over `text`: `rest` is a suffix and `pos` the byte length of what precedes it. -/
def Suf (text : List CC) (pos : Nat) (rest : List CC) : Prop := ∃ pre, text = pre ++ rest ∧ blen pre = pos

/-- The stream `(p', r')` is reached from `(p, r)` by consuming characters. -/
def Adv (p : Nat) (r : List CC) (p' : Nat) (r' : List CC) : Prop := ∃ mid, r = mid ++ r' ∧ p' = p + blen mid

theorem Suf.init (text : List CC) : Suf text 0 text := ⟨[], rfl, rfl⟩

theorem Suf.bd {text : List CC} {p : Nat} {r : List CC} (h : Suf text p r) : Bd text p := by
  obtain ⟨pre, h1, h2⟩ := h; exact ⟨pre, r, h1, h2⟩

theorem Suf.total {text : List CC} {p : Nat} {r : List CC} (h : Suf text p r) : p + blen r = blen text := by
  obtain ⟨pre, h1, h2⟩ := h; subst h1; rw [blen_append]; omega

theorem Suf.le {text : List CC} {p : Nat} {r : List CC} (h : Suf text p r) : p ≤ blen text := by
  have := h.total; omega

theorem Suf.nil {text : List CC} {p : Nat} (h : Suf text p []) : p = blen text := by
  have := h.total; simp at this; exact this

theorem Suf.adv {text : List CC} {p p' : Nat} {r r' : List CC} (h : Suf text p r) (a : Adv p r p' r') : Suf text p' r' := by
  obtain ⟨pre, h1, h2⟩ := h
  obtain ⟨mid, h3, h4⟩ := a
  exact ⟨pre ++ mid, by rw [h1, h3, List.append_assoc], by rw [blen_append, h2, h4]⟩

theorem Suf.lt_len {text : List CC} {p : Nat} {x : CC} {r : List CC} (h : Suf text p (x :: r)) : p + u8len x.c ≤ blen text := by
  have := h.total; simp at this; omega

theorem Adv.refl (p : Nat) (r : List CC) : Adv p r p r := ⟨[], rfl, rfl⟩

theorem Adv.trans {p p' p'' : Nat} {r r' r'' : List CC} (a : Adv p r p' r') (b : Adv p' r' p'' r'') : Adv p r p'' r'' := by
  obtain ⟨m1, h1, h2⟩ := a
  obtain ⟨m2, h3, h4⟩ := b
  exact ⟨m1 ++ m2, by rw [h1, h3, List.append_assoc], by rw [blen_append, h4, h2]; omega⟩

theorem Adv.cons (p : Nat) (x : CC) (r : List CC) : Adv p (x :: r) (p + u8len x.c) r := ⟨[x], rfl, by simp⟩

theorem Adv.cons2 (p : Nat) (x y : CC) (r : List CC) : Adv p (x :: y :: r) (p + u8len x.c + u8len y.c) r :=
  ⟨[x, y], rfl, by simp; omega⟩

theorem Adv.le {p p' : Nat} {r r' : List CC} (a : Adv p r p' r') : p ≤ p' := by
  obtain ⟨m, _, h⟩ := a; omega

theorem Adv.length_le {p p' : Nat} {r r' : List CC} (a : Adv p r p' r') : r'.length ≤ r.length := by
  obtain ⟨m, h, _⟩ := a; subst h; simp

theorem Suf.cons {text : List CC} {p : Nat} {x : CC} {r : List CC} (h : Suf text p (x :: r)) : Suf text (p + u8len x.c) r :=
  h.adv (Adv.cons p x r)

/-- Under the stream invariant, `span_until` ends exactly at the stream position. -/
theorem peekPos_eq {text : List CC} {p : Nat} {r : List CC} (h : Suf text p r) : peekPos p r (blen text) = p := by
  cases r with
  | nil => simp [peekPos, h.nil]
  | cons x r => rfl

theorem SpanOK.of_suf {text : List CC} {a p : Nat} {r : List CC} (ha : Bd text a) (h : Suf text p r) (hle : a ≤ p) : SpanOK text a p :=
  ⟨ha, h.bd, hle⟩

/-! ## Simple scanners -/

theorem skipWhile_adv (p : CC → Bool) (r : List CC) (pos : Nat) :
    Adv pos r (skipWhile p r pos).1 (skipWhile p r pos).2 := by
  induction r generalizing pos with
  | nil => exact Adv.refl _ _
  | cons x r ih =>
    unfold skipWhile
    split
    · exact (Adv.cons _ _ _).trans (ih _)
    · exact Adv.refl _ _

theorem findNl_spec {text : List CC} {r : List CC} {pos : Nat} (h : Suf text pos r) :
    Adv pos r (findNl r pos).2.1 (findNl r pos).2.2 ∧
    (∀ q, (findNl r pos).1 = some q → Bd text q ∧ pos ≤ q ∧ q ≤ (findNl r pos).2.1) ∧
    ((findNl r pos).1 = none → (findNl r pos).2.2 = []) := by
  induction r generalizing pos with
  | nil => simp [findNl, Adv.refl]
  | cons x r ih =>
    unfold findNl
    split
    · refine ⟨Adv.cons _ _ _, ?_, by simp⟩
      intro q hq
      simp at hq; subst hq
      exact ⟨h.bd, Nat.le_refl _, by simp⟩
    · obtain ⟨a, b, c⟩ := ih h.cons
      refine ⟨(Adv.cons _ _ _).trans a, ?_, c⟩
      intro q hq
      obtain ⟨b1, b2, b3⟩ := b q hq
      exact ⟨b1, by omega, b3⟩

theorem parseDigits_spec (radix : Nat) (r : List CC) (pos v : Nat) :
    Adv pos r (parseDigits radix r pos v).2.2.1 (parseDigits radix r pos v).2.2.2 ∧
    (∀ e, (parseDigits radix r pos v).2.1 = some e → e = (parseDigits radix r pos v).2.2.1) ∧
    ((parseDigits radix r pos v).2.1 = none → (parseDigits radix r pos v).2.2.2 = []) := by
  induction r generalizing pos v with
  | nil => simp [parseDigits, Adv.refl]
  | cons x r ih =>
    unfold parseDigits
    split
    · obtain ⟨a, b, c⟩ := ih (pos + u8len x.c) v
      exact ⟨(Adv.cons _ _ _).trans a, b, c⟩
    · split
      · simp [Adv.refl]
      · rename_i d _
        obtain ⟨a, b, c⟩ := ih (pos + u8len x.c) (v * radix + d)
        exact ⟨(Adv.cons _ _ _).trans a, b, c⟩

theorem takeSuffix_adv (r : List CC) (pos : Nat) (acc : List Char) :
    Adv pos r (takeSuffix r pos acc).1 (takeSuffix r pos acc).2.1 := by
  induction r generalizing pos acc with
  | nil => exact Adv.refl _ _
  | cons x r ih =>
    unfold takeSuffix
    split
    · exact (Adv.cons _ _ _).trans (ih _ _)
    · exact Adv.refl _ _

theorem findQuote_adv (r : List CC) (pos : Nat) (acc : List Char) :
    Adv pos r (findQuote r pos acc).2.1 (findQuote r pos acc).2.2.1 := by
  induction r generalizing pos acc with
  | nil => exact Adv.refl _ _
  | cons x r ih =>
    unfold findQuote
    split
    · exact Adv.cons _ _ _
    · exact (Adv.cons _ _ _).trans (ih _ _)

/-! ## Specification shape of the sub-lexers -/

/-- What every sub-lexer guarantees when started on the stream `(pos, rest)` for a token that begins at `lo`. -/
structure SubOK (text : List CC) (lo pos : Nat) (rest : List CC) (r : Sub) : Prop where
  adv : Adv pos rest r.pos r.rest
  toks : ∀ t ∈ r.toks, SpanOK text t.start t.stop ∧ lo ≤ t.start ∧ t.stop ≤ r.pos
  sorted : r.toks.Pairwise (fun a b => a.stop ≤ b.start)
  errs : ∀ e ∈ r.errs, SpanOK text e.start e.stop
  aux : ∀ a ∈ r.aux, SpanOK text a.1 a.2
  bad : r.bad = false

theorem u8len_slash : u8len '/' = 1 := by decide
theorem u8len_bang : u8len '!' = 1 := by decide
theorem u8len_star : u8len '*' = 1 := by decide
theorem u8len_u : u8len 'u' = 1 := by decide

theorem docStyleOf_some {r : List CC} {b : Bool} (h : docStyleOf r = some b) :
    ∃ x r', r = x :: r' ∧ x.c ≠ '\n' ∧ u8len x.c = 1 := by
  cases r with
  | nil => simp [docStyleOf] at h
  | cons x r' =>
    refine ⟨x, r', rfl, ?_⟩
    simp only [docStyleOf] at h
    by_cases hn : x.c = '\n'
    · simp [hn] at h
    · refine ⟨hn, ?_⟩
      by_cases hb : x.c = '!'
      · rw [hb]; exact u8len_bang
      · by_cases hs : x.c = '/'
        · rw [hs]; exact u8len_slash
        · simp [hn, hb, hs] at h

theorem findNl_cons_ne {x : CC} {r : List CC} {pos : Nat} (h : x.c ≠ '\n') :
    findNl (x :: r) pos = findNl r (pos + u8len x.c) := by
  conv => lhs; unfold findNl
  simp [h]

theorem lexLineComment_spec {text : List CC} {index pos : Nat} {s : CC} {r : List CC} (kind : CommentKind)
    (hs : Suf text pos (s :: r)) (hi : Bd text index) (hpos : pos = index + 1) (hsc : s.c = '/') :
    SubOK text index pos (s :: r) (lexLineComment (blen text) index kind pos (s :: r)) := by
  have hs1 : u8len s.c = 1 := by rw [hsc]; exact u8len_slash
  have hsuf : Suf text (pos + u8len s.c) r := hs.cons
  unfold lexLineComment
  simp only []
  generalize hf : findNl r (pos + u8len s.c) = res
  obtain ⟨nl, p2, r2⟩ := res
  have hspec := findNl_spec hsuf
  rw [hf] at hspec
  simp only [] at hspec
  obtain ⟨hadv, hsome, hnone⟩ := hspec
  have hsuf2 : Suf text p2 r2 := hsuf.adv hadv
  have hadv' : Adv pos (s :: r) p2 r2 := (Adv.cons _ _ _).trans hadv
  -- the end of the comment
  have hstop : Bd text (nl.getD (blen text)) ∧ pos + u8len s.c ≤ nl.getD (blen text) ∧ nl.getD (blen text) ≤ p2 := by
    cases nl with
    | none =>
      have : r2 = [] := hnone rfl
      subst this
      have := hsuf2.nil
      simp only [Option.getD_none]
      exact ⟨Bd.len _, by rw [← this]; exact hadv.le, by omega⟩
    | some q =>
      obtain ⟨a, b, c⟩ := hsome q rfl
      exact ⟨a, b, c⟩
  obtain ⟨hb, hlo, hhi⟩ := hstop
  cases hd : docStyleOf r with
  | none =>
    simp only []
    refine ⟨hadv', ?_, by simp, by simp, by simp, rfl⟩
    intro t ht
    simp at ht; subst ht
    exact ⟨⟨hi, hb, by simp only []; omega⟩, Nat.le_refl _, hhi⟩
  | some inner =>
    simp only []
    obtain ⟨x, r', hr, hxn, hx1⟩ := docStyleOf_some hd
    subst hr
    -- the position after the third character is `index + 3`
    have hsuf3 : Suf text (index + 3) r' := by
      have := hsuf.cons
      have e : pos + u8len s.c + u8len x.c = index + 3 := by omega
      rw [e] at this; exact this
    rw [findNl_cons_ne hxn] at hf
    have hspec3 := findNl_spec (r := r') (pos := index + 3) hsuf3
    have e : pos + u8len s.c + u8len x.c = index + 3 := by omega
    rw [e] at hf
    rw [hf] at hspec3
    simp only [] at hspec3
    obtain ⟨hadv3, hsome3, hnone3⟩ := hspec3
    have h3 : index + 3 ≤ nl.getD (blen text) := by
      cases nl with
      | none =>
        have : r2 = [] := hnone3 rfl
        subst this
        simp only [Option.getD_none]
        rw [← hsuf2.nil]; exact hadv3.le
      | some q => exact (hsome3 q rfl).2.1
    refine ⟨hadv', ?_, by simp, by simp, ?_, rfl⟩
    · intro t ht
      simp at ht; subst ht
      exact ⟨⟨hi, hb, by simp only []; omega⟩, Nat.le_refl _, hhi⟩
    · intro a ha
      simp at ha; subst ha
      exact ⟨hsuf3.bd, hb, h3⟩

end SwayVerif.Lexer
