import SwayVerif.Model.IrText
/-!
Lemmas for the IR text kernels (`Model/IrText.lean`): whitespace, decimal and hexadecimal numerals,
string escapes, the type grammar and the constant grammar. Everything is proved for arbitrary
continuations `r` of the printed text so that the pieces compose.
-/
namespace SwayVerif.IrText

/-! ### whitespace `_` -/

/-- the head of `l` is neither blank, newline nor `/` (so `_` stops in front of it); `[]` counts too -/
def Solid : List Char → Prop
  | [] => True
  | c :: _ => isBlank c = false ∧ isNl c = false ∧ c ≠ '/'

theorem ws_solid {l : List Char} (h : Solid l) : ws l = l := by
  cases l with
  | nil => simp [ws, wsF]
  | cons c r =>
    obtain ⟨h1, h2, h3⟩ := h
    simp [ws, wsF, h1, h2, h3]

theorem ws_blank (r : List Char) : ws (' ' :: r) = ws r := by
  simp [ws, wsF, isBlank]

theorem dropLine_length : ∀ (x y : List Char), dropLine x = some y → y.length < x.length + 1 := by
  intro x
  induction x with
  | nil => intro y hy; simp [dropLine] at hy
  | cons a x ih =>
    intro y hy
    simp only [dropLine] at hy
    by_cases ha : isNl a = true
    · simp [ha] at hy; subst hy; simp; omega
    · simp [ha] at hy; have := ih y hy; simp; omega

/-- `_` cannot make progress on `l` -/
def Stuck (l : List Char) : Prop := wsF 1 l = l

theorem wsF_of_stuck {l : List Char} (h : Stuck l) (f : Nat) : wsF (f + 1) l = l := by
  unfold Stuck at h
  cases l with
  | nil => simp [wsF]
  | cons c r =>
    simp only [wsF] at h ⊢
    by_cases hb : (isBlank c || isNl c) = true
    · simp only [hb, if_true] at h
      exact absurd (congrArg List.length h) (by simp)
    · simp only [hb] at h ⊢
      by_cases hs : c = '/'
      · simp only [hs, if_true] at h ⊢
        cases r with
        | nil => rfl
        | cons d r' =>
          by_cases hd : d = '/'
          · subst hd
            simp only at h ⊢
            cases hdl : dropLine r' with
            | none => simp
            | some r'' =>
              simp only [hdl] at h
              have := dropLine_length _ _ hdl
              have := congrArg List.length h
              simp at this; omega
          · simp [hd]
      · simp [hs]

theorem stuck_wsF : ∀ (f : Nat) (l : List Char), l.length < f → Stuck (wsF f l) := by
  intro f
  induction f with
  | zero => intro l h; omega
  | succ f ih =>
    intro l hl
    cases l with
    | nil => simp [wsF, Stuck]
    | cons c r =>
      simp only [wsF]
      by_cases hb : (isBlank c || isNl c) = true
      · simp only [hb, if_true]; exact ih r (by simp at hl; omega)
      · simp only [hb]
        by_cases hs : c = '/'
        · simp only [hs, if_true]
          cases r with
          | nil => simp [Stuck, wsF, isBlank, isNl]
          | cons d r' =>
            by_cases hd : d = '/'
            · subst hd
              simp only
              cases hdl : dropLine r' with
              | none => simp [Stuck, wsF, isBlank, isNl, hdl]
              | some r'' =>
                simp only
                have := dropLine_length _ _ hdl
                exact ih r'' (by simp at hl; omega)
            · simp [hd, Stuck, wsF, isBlank, isNl]
        · simp only [hs]
          simp only [Bool.not_eq_true] at hb
          simp [Stuck, wsF, hb, hs]

theorem ws_ws (l : List Char) : ws (ws l) = ws l := by
  have h : Stuck (ws l) := stuck_wsF (l.length + 1) l (by omega)
  show wsF ((ws l).length + 1) (ws l) = ws l
  exact wsF_of_stuck h _

/-! ### decimal numerals -/

theorem digitChar_spec : ∀ d, d < 10 →
    isDigit (digitChar d) = true ∧ digitVal (digitChar d) = d ∧ (digitChar d = '0' ↔ d = 0) := by
  decide

theorem ofDigits_snoc (xs : List Char) (c : Char) : ofDigits (xs ++ [c]) = ofDigits xs * 10 + digitVal c := by
  simp [ofDigits, List.foldl_append]

theorem decF_digits : ∀ (f n : Nat), ∀ c ∈ decF f n, isDigit c = true := by
  intro f
  induction f with
  | zero => intro n c h; simp [decF] at h
  | succ f ih =>
    intro n c h
    simp only [decF] at h
    by_cases hn : n < 10
    · simp [hn] at h; subst h; exact (digitChar_spec n hn).1
    · simp only [hn, if_false, List.mem_append, List.mem_singleton] at h
      rcases h with h | h
      · exact ih _ _ h
      · subst h; exact (digitChar_spec _ (Nat.mod_lt _ (by decide))).1

theorem ofDigits_decF : ∀ (f n : Nat), n < f → ofDigits (decF f n) = n := by
  intro f
  induction f with
  | zero => intro n h; omega
  | succ f ih =>
    intro n h
    simp only [decF]
    by_cases hn : n < 10
    · simp [hn, ofDigits, (digitChar_spec n hn).2.1]
    · simp only [hn, if_false, ofDigits_snoc]
      rw [ih (n / 10) (by omega), (digitChar_spec _ (Nat.mod_lt _ (by decide))).2.1]
      omega

/-- a positive number prints with a non-zero leading digit -/
theorem decF_head : ∀ (f n : Nat), 0 < n → n < f →
    ∃ c ds, decF f n = c :: ds ∧ isDigit c = true ∧ c ≠ '0' := by
  intro f
  induction f with
  | zero => intro n _ h; omega
  | succ f ih =>
    intro n hp h
    simp only [decF]
    by_cases hn : n < 10
    · refine ⟨digitChar n, [], by simp [hn], (digitChar_spec n hn).1, ?_⟩
      intro hc; have := (digitChar_spec n hn).2.2.mp hc; omega
    · simp only [hn, if_false]
      obtain ⟨c, ds, hd, h1, h2⟩ := ih (n / 10) (by omega) (by omega)
      exact ⟨c, ds ++ [digitChar (n % 10)], by simp [hd], h1, h2⟩

/-- `r` does not continue a digit string -/
def NoDigit : List Char → Prop
  | [] => True
  | c :: _ => isDigit c = false

theorem takeDigits_append : ∀ (ds r : List Char), (∀ c ∈ ds, isDigit c = true) → NoDigit r →
    takeDigits (ds ++ r) = (ds, r) := by
  intro ds
  induction ds with
  | nil =>
    intro r _ hr
    cases r with
    | nil => simp [takeDigits]
    | cons c r => simp [NoDigit] at hr; simp [takeDigits, hr]
  | cons d ds ih =>
    intro r hd hr
    have h1 : isDigit d = true := hd d (by simp)
    have h2 := ih r (fun c hc => hd c (by simp [hc])) hr
    simp [takeDigits, h1, h2]

theorem decStr_zero : decStr 0 = ['0'] := by decide

theorem decDigits_decStr (n : Nat) (r : List Char) (hn : n < 2 ^ 64) (hr : NoDigit r) :
    decDigits (decStr n ++ r) = .ok n r := by
  by_cases h0 : n = 0
  · subst h0; simp [decStr_zero, decDigits]
  · obtain ⟨c, ds, hd, h1, h2⟩ := decF_head (n + 1) n (by omega) (by omega)
    have hall := decF_digits (n + 1) n
    have hval := ofDigits_decF (n + 1) n (by omega)
    unfold decStr
    rw [hd] at hall hval ⊢
    simp only [List.cons_append, decDigits, h2, if_false, h1, if_true]
    rw [takeDigits_append ds r (fun c hc => hall c (by simp [hc])) hr]
    simp [hval, hn]

theorem decStr_ne_nil (n : Nat) : decStr n ≠ [] := by
  unfold decStr
  simp only [decF]
  by_cases hn : n < 10 <;> simp [hn]

/-- the head of a decimal numeral is a digit -/
theorem decStr_head (n : Nat) : ∃ c ds, decStr n = c :: ds ∧ isDigit c = true := by
  by_cases h0 : n = 0
  · subst h0; exact ⟨'0', [], decStr_zero, by decide⟩
  · obtain ⟨c, ds, hd, h1, _⟩ := decF_head (n + 1) n (by omega) (by omega)
    exact ⟨c, ds, hd, h1⟩

/-! ### hexadecimal numerals -/

theorem hexDigit_spec : ∀ d, d < 16 → hexVal (hexDigitChar d) = some d := by decide

theorem takeHex_hexF : ∀ (j i acc m : Nat) (rest : List Char), m < 16 ^ j →
    takeHex (j + i) acc (hexF j m ++ rest) = takeHex i (acc * 16 ^ j + m) rest := by
  intro j
  induction j with
  | zero => intro i acc m rest h; simp at h; subst h; simp [hexF]
  | succ j ih =>
    intro i acc m rest h
    have hm : m / 16 < 16 ^ j := by
      rw [Nat.pow_succ] at h; exact Nat.div_lt_of_lt_mul (by omega)
    simp only [hexF, List.append_assoc, List.singleton_append]
    have e : j + 1 + i = j + (i + 1) := by omega
    rw [e, ih (i + 1) acc (m / 16) _ hm]
    simp only [takeHex, hexDigit_spec _ (Nat.mod_lt m (by decide : 0 < 16))]
    congr 1
    rw [Nat.pow_succ]
    have := Nat.div_add_mod m 16
    rw [Nat.add_mul, Nat.mul_assoc]
    omega

theorem takeHex64 (n : Nat) (r : List Char) (hn : n < 2 ^ 256) : takeHex 64 0 (hexF 64 n ++ r) = some (n, r) := by
  have h : n < 16 ^ 64 := by
    have : (16 : Nat) ^ 64 = 2 ^ 256 := by
      rw [show (16 : Nat) = 2 ^ 4 from rfl, ← Nat.pow_mul]
    omega
  have := takeHex_hexF 64 0 0 n r h
  simpa [takeHex] using this

/-! ### string escapes -/

theorem plain_char : ∀ b, b < 256 → (Char.ofNat b).toNat = b := by decide +kernel

theorem strChar_escByte (b : Nat) (r : List Char) (hb : b < 256) : strChar (escByte b ++ r) = some (b, r) := by
  unfold escByte
  by_cases hp : plainByte b = true
  · simp [hp, strChar, plain_char b hb]
  · simp only [hp]
    have h1 : b / 16 < 16 := by omega
    have h2 : b % 16 < 16 := Nat.mod_lt _ (by decide)
    have hbs : plainByte ('\\' : Char).toNat = false := by decide
    simp only [Bool.false_eq_true, if_false, List.cons_append, List.nil_append, strChar, hbs, if_true,
      hexDigit_spec _ h1, hexDigit_spec _ h2]
    have := Nat.div_add_mod b 16
    simp; omega

theorem strChar_quote (r : List Char) : strChar ('"' :: r) = none := by
  have h1 : plainByte 34 = false := by decide
  have h2 : ('"' : Char) ≠ '\\' := by decide
  simp [strChar, h1, h2]

theorem strCharsF_escape : ∀ (bs : List Nat) (f : Nat) (r : List Char), bytesOk bs = true → bs.length < f →
    strCharsF f (escape bs ++ '"' :: r) = (bs, '"' :: r) := by
  intro bs
  induction bs with
  | nil =>
    intro f r _ hf
    cases f with
    | zero => omega
    | succ f => simp [escape, strCharsF, strChar_quote]
  | cons b bs ih =>
    intro f r hok hf
    simp only [bytesOk, Bool.and_eq_true, decide_eq_true_eq] at hok
    cases f with
    | zero => omega
    | succ f =>
      simp only [escape, List.append_assoc, strCharsF, strChar_escByte b _ hok.1]
      rw [ih f r hok.2 (by simp at hf; omega)]

theorem strCharsF_escape_end : ∀ (bs : List Nat) (f : Nat), bytesOk bs = true → bs.length < f →
    strCharsF f (escape bs) = (bs, []) := by
  intro bs
  induction bs with
  | nil =>
    intro f _ hf
    cases f with
    | zero => omega
    | succ f => simp [escape, strCharsF, strChar]
  | cons b bs ih =>
    intro f hok hf
    simp only [bytesOk, Bool.and_eq_true, decide_eq_true_eq] at hok
    cases f with
    | zero => omega
    | succ f =>
      have := strChar_escByte b (escape bs) hok.1
      simp only [escape, strCharsF, this]
      rw [ih f hok.2 (by simp at hf; omega)]

theorem escByte_length (b : Nat) : 1 ≤ (escByte b).length := by
  unfold escByte; by_cases hp : plainByte b = true <;> simp [hp]

theorem escape_length : ∀ (bs : List Nat), bs.length ≤ (escape bs).length := by
  intro bs
  induction bs with
  | nil => simp [escape]
  | cons b bs ih => simp only [escape, List.length_append, List.length_cons]; have := escByte_length b; omega

/-! ### the type grammar -/

@[simp] theorem orElse_some {α : Type} (r : R α) (b : Unit → R α) : orElse (some r) b = r := rfl
@[simp] theorem orElse_none {α : Type} (b : Unit → R α) : orElse none b = b () := rfl
@[simp] theorem andThen_ok {α β : Type} (a : α) (r : List Char) (k : α → List Char → Option (R β)) :
    andThen (.ok a r) k = k a r := rfl
@[simp] theorem andThen_fail {α β : Type} (k : α → List Char → Option (R β)) : andThen (.fail : R α) k = none := rfl
@[simp] theorem andThen_panic {α β : Type} (k : α → List Char → Option (R β)) :
    andThen (.panic : R α) k = some .panic := rfl

mutual
def Ty.size : Ty → Nat
  | .arr t _ => t.size + 1
  | .union ts => ts.size + 1
  | .struct ts => ts.size + 1
  | .tptr t => t.size + 1
  | .tslice t => t.size + 1
  | _ => 1
def Tys.size : Tys → Nat
  | .nil => 0
  | .cons t ts => t.size + ts.size + 1
end

def Tys.len : Tys → Nat
  | .nil => 0
  | .cons _ ts => ts.len + 1

def Tys.toList : Tys → List Ty
  | .nil => []
  | .cons t ts => t :: ts.toList

theorem tysOfList_toList : (ts : Tys) → tysOfList ts.toList = ts
  | .nil => rfl
  | .cons t ts => by simp [Tys.toList, tysOfList, tysOfList_toList ts]

/-- the elements after the first one, each preceded by the separator -/
def tailTys (sepStr : List Char) : Tys → List Char
  | .nil => []
  | .cons t ts => sepStr ++ printTy t ++ tailTys sepStr ts

theorem printTys_comma_cons : (t : Ty) → (ts : Tys) →
    printTys [','] (.cons t ts) = printTy t ++ tailTys [',',' '] ts
  | t, .nil => by simp [printTys, tailTys]
  | t, .cons t2 ts2 => by
    have := printTys_comma_cons t2 ts2
    simp [printTys, tailTys, this]

theorem printTys_bar_cons : (t : Ty) → (ts : Tys) →
    printTys ['|',' '] (.cons t ts) = printTy t ++ tailTys [' ','|',' '] ts
  | t, .nil => by simp [printTys, tailTys]
  | t, .cons t2 ts2 => by
    have := printTys_bar_cons t2 ts2
    simp [printTys, tailTys, this]

theorem printTy_head (t : Ty) : ∃ c rest, printTy t = c :: rest ∧ Solid [c] ∧ isDigit c = false ∧ c ≠ '"' := by
  cases t <;> exact ⟨_, _, rfl, by simp [Solid, isBlank, isNl], by decide, by decide⟩

theorem ws_printTy (t : Ty) (x : List Char) : ws (printTy t ++ x) = printTy t ++ x := by
  obtain ⟨c, rest, h, hs, _⟩ := printTy_head t
  rw [h]; exact ws_solid (by simpa [Solid] using hs)

theorem digit_solid {c : Char} (h : isDigit c = true) : isBlank c = false ∧ isNl c = false ∧ c ≠ '/' := by
  refine ⟨?_, ?_, ?_⟩
  · cases hb : isBlank c with
    | false => rfl
    | true =>
      simp only [isBlank, Bool.or_eq_true, decide_eq_true_eq] at hb
      rcases hb with hb | hb <;> (subst hb; exact absurd h (by decide))
  · cases hb : isNl c with
    | false => rfl
    | true =>
      simp only [isNl, Bool.or_eq_true, decide_eq_true_eq] at hb
      rcases hb with hb | hb <;> (subst hb; exact absurd h (by decide))
  · intro hc; subst hc; exact absurd h (by decide)

theorem ws_decStr (n : Nat) (x : List Char) : ws (decStr n ++ x) = decStr n ++ x := by
  obtain ⟨c, ds, h, hd⟩ := decStr_head n
  rw [h]; exact ws_solid (by simpa [Solid] using digit_solid hd)

theorem decimal_decStr (n : Nat) (r : List Char) (hn : n < 2 ^ 64) (hr : NoDigit r) :
    decimal (decStr n ++ r) = .ok n (ws r) := by
  simp [decimal, decDigits_decStr n r hn hr]

theorem decStr_8 : decStr 8 = ['8'] := by decide
theorem decStr_64 : decStr 64 = ['6','4'] := by decide
theorem decStr_256 : decStr 256 = ['2','5','6'] := by decide

/-- the separator loop over the remaining elements of a printed type list -/
theorem sepLoop_tys (p : List Char → R Ty) (sp : List Char → Option (List Char)) (sepStr : List Char)
    (close : Char) (r : List Char)
    (hs1 : ∀ x, sp (ws (sepStr ++ x)) = some (ws x))
    (hs2 : sp (close :: r) = none)
    (hs3 : Solid [close]) :
    (ts : Tys) → (∀ k, ts.len ≤ k →
      (∀ t x, (∃ pre post, ts.toList = pre ++ t :: post) → p (printTy t ++ x) = .ok t (ws x)) →
      sepLoop p sp k (ws (tailTys sepStr ts ++ ' ' :: close :: r)) = .ok ts.toList (close :: r))
  | .nil => by
    intro k _ _
    have h : ws (tailTys sepStr .nil ++ ' ' :: close :: r) = close :: r := by
      simp only [tailTys, List.nil_append, ws_blank]
      exact ws_solid (by simpa [Solid] using hs3)
    rw [h]
    cases k with
    | zero => simp [sepLoop, Tys.toList]
    | succ k => simp [sepLoop, hs2, Tys.toList]
  | .cons t ts => by
    intro k hk hp
    cases k with
    | zero => simp [Tys.len] at hk
    | succ k =>
      have ih := sepLoop_tys p sp sepStr close r hs1 hs2 hs3 ts k (by simp [Tys.len] at hk; omega)
        (fun t' x ⟨pre, post, h⟩ => hp t' x ⟨t :: pre, post, by simp [Tys.toList, h]⟩)
      have h1 := hs1 (printTy t ++ (tailTys sepStr ts ++ ' ' :: close :: r))
      have hpt := hp t (tailTys sepStr ts ++ ' ' :: close :: r) ⟨[], ts.toList, by simp [Tys.toList]⟩
      simp only [tailTys, List.append_assoc] at h1 ⊢
      simp only [sepLoop, h1, ws_printTy, hpt, ih, Tys.toList]

theorem comma_spec (x : List Char) : comma (ws ([',',' '] ++ x)) = some (ws x) := by
  have : ws ([',',' '] ++ x) = ',' :: ' ' :: x := ws_solid (by simp [Solid, isBlank, isNl])
  rw [this]; simp [comma, ws_blank]

theorem bar_spec (x : List Char) : barSep (ws ([' ','|',' '] ++ x)) = some (ws x) := by
  have : ws ([' ','|',' '] ++ x) = '|' :: ' ' :: x := by
    simp only [List.cons_append, List.nil_append, ws_blank]
    exact ws_solid (by simp [Solid, isBlank, isNl])
  rw [this]; simp [barSep, ws_blank]

theorem tailTys_length (sepStr : List Char) : (ts : Tys) → ts.len ≤ (tailTys sepStr ts).length
  | .nil => by simp [Tys.len]
  | .cons t ts => by
    have := tailTys_length sepStr ts
    obtain ⟨c, rest, h, _⟩ := printTy_head t
    simp [tailTys, Tys.len, h]; omega

theorem ws_cons (c : Char) (r : List Char) (h : (isBlank c || isNl c || c == '/') = false) : ws (c :: r) = c :: r := by
  simp only [Bool.or_eq_false_iff, beq_eq_false_iff_ne] at h
  exact ws_solid ⟨h.1.1, h.1.2, h.2⟩

@[simp] theorem ws_gt (r : List Char) : ws ('>' :: r) = '>' :: r := ws_cons _ _ (by decide)
@[simp] theorem ws_lt (r : List Char) : ws ('<' :: r) = '<' :: r := ws_cons _ _ (by decide)
@[simp] theorem ws_rb (r : List Char) : ws (']' :: r) = ']' :: r := ws_cons _ _ (by decide)
@[simp] theorem ws_lb (r : List Char) : ws ('[' :: r) = '[' :: r := ws_cons _ _ (by decide)
@[simp] theorem ws_rc (r : List Char) : ws ('}' :: r) = '}' :: r := ws_cons _ _ (by decide)
@[simp] theorem ws_lc (r : List Char) : ws ('{' :: r) = '{' :: r := ws_cons _ _ (by decide)
@[simp] theorem ws_rp (r : List Char) : ws (')' :: r) = ')' :: r := ws_cons _ _ (by decide)
@[simp] theorem ws_lp (r : List Char) : ws ('(' :: r) = '(' :: r := ws_cons _ _ (by decide)
@[simp] theorem ws_semi (r : List Char) : ws (';' :: r) = ';' :: r := ws_cons _ _ (by decide)
@[simp] theorem ws_comma (r : List Char) : ws (',' :: r) = ',' :: r := ws_cons _ _ (by decide)
@[simp] theorem ws_quote (r : List Char) : ws ('"' :: r) = '"' :: r := ws_cons _ _ (by decide)
@[simp] theorem ws_bar (r : List Char) : ws ('|' :: r) = '|' :: r := ws_cons _ _ (by decide)
@[simp] theorem ws_sp (r : List Char) : ws (' ' :: r) = ws r := ws_blank r

theorem parseTyF_rc (f : Nat) (r : List Char) : parseTyF f ('}' :: r) = .fail := by
  cases f with
  | zero => rfl
  | succ f => simp [parseTyF, altKw, kw, lit, altTSlice, altStrArr, altArr, altStruct, altUnion, altTPtr]

mutual
theorem parseTyF_print : (t : Ty) → tyOk t = true → ∀ f, t.size < f → ∀ r,
    parseTyF f (printTy t ++ r) = .ok t (ws r)
  | .never, _, f, hf, r => by
    cases f with
    | zero => omega
    | succ f => simp [printTy, parseTyF, altKw, kw, lit, altTSlice, altStrArr, altArr, altStruct, altUnion, altTPtr]
  | .unit, _, f, hf, r => by
    cases f with
    | zero => omega
    | succ f => simp [printTy, parseTyF, altKw, kw, lit]
  | .bool, _, f, hf, r => by
    cases f with
    | zero => omega
    | succ f => simp [printTy, parseTyF, altKw, kw, lit]
  | .b256, _, f, hf, r => by
    cases f with
    | zero => omega
    | succ f => simp [printTy, parseTyF, altKw, kw, lit]
  | .slice, _, f, hf, r => by
    cases f with
    | zero => omega
    | succ f => simp [printTy, parseTyF, altKw, kw, lit]
  | .ptr, _, f, hf, r => by
    cases f with
    | zero => omega
    | succ f => simp [printTy, parseTyF, altKw, kw, lit, altTSlice, altStrArr, altArr, altStruct, altUnion, altTPtr]
  | .strSlice, h, _, _, _ => by simp [tyOk] at h
  | .uint n, h, f, hf, r => by
    cases f with
    | zero => omega
    | succ f =>
      simp only [tyOk, Bool.or_eq_true, beq_iff_eq] at h
      rcases h with (h | h) | h <;> subst h
      · simp [printTy, decStr_8, parseTyF, altKw, kw, lit]
      · simp [printTy, decStr_64, parseTyF, altKw, kw, lit]
      · simp [printTy, decStr_256, parseTyF, altKw, kw, lit]
  | .strArr n, h, f, hf, r => by
    cases f with
    | zero => omega
    | succ f =>
      simp only [tyOk, decide_eq_true_eq] at h
      have hd := decimal_decStr n ('>' :: r) h (by simp [NoDigit, isDigit])
      simp [printTy, parseTyF, altKw, kw, lit, altTSlice, altStrArr, ws_decStr, hd]
  | .arr t n, h, f, hf, r => by
    cases f with
    | zero => omega
    | succ f =>
      simp only [tyOk, Bool.and_eq_true, decide_eq_true_eq] at h
      have ih := parseTyF_print t h.1 f (by simp [Ty.size] at hf; omega)
      have hd := decimal_decStr n (']' :: r) h.2 (by simp [NoDigit, isDigit])
      simp [printTy, parseTyF, altKw, kw, lit, altTSlice, altStrArr, altArr, ws_printTy, ih, ws_decStr, hd]
  | .tslice t, h, f, hf, r => by
    cases f with
    | zero => omega
    | succ f =>
      simp only [tyOk] at h
      have ih := parseTyF_print t h f (by simp [Ty.size] at hf; omega)
      simp [printTy, parseTyF, altKw, kw, lit, altTSlice, ws_printTy, ih]
  | .tptr t, h, f, hf, r => by
    cases f with
    | zero => omega
    | succ f =>
      simp only [tyOk] at h
      have ih := parseTyF_print t h f (by simp [Ty.size] at hf; omega)
      simp [printTy, parseTyF, altKw, kw, lit, altTSlice, altStrArr, altArr, altStruct, altUnion, altTPtr, ws_printTy, ih, ws_ws]
  | .struct ts, h, f, hf, r => by
    cases f with
    | zero => omega
    | succ f =>
      simp only [tyOk] at h
      have hall := parseTys_all ts h f (by simp [Ty.size] at hf; omega)
      cases ts with
      | nil =>
        simp [printTy, printTys, parseTyF, altKw, kw, lit, altTSlice, altStrArr, altArr, altStruct, sepBy0,
          altUnion, altTPtr, tysOfList, parseTyF_rc]
      | cons t ts =>
        have hp := hall t (tailTys [',',' '] ts ++ ' ' :: '}' :: r) ⟨[], ts.toList, by simp [Tys.toList]⟩
        have hl := sepLoop_tys (parseTyF f) comma [',',' '] '}' r comma_spec (by simp [comma])
          (by simp [Solid, isBlank, isNl]) ts
          (ws (tailTys [',',' '] ts ++ ' ' :: '}' :: r)).length
          (by
            cases ts with
            | nil => simp [Tys.len]
            | cons t2 ts2 =>
              have := tailTys_length [',',' '] (.cons t2 ts2)
              have e : ws (tailTys [',',' '] (.cons t2 ts2) ++ ' ' :: '}' :: r)
                  = tailTys [',',' '] (.cons t2 ts2) ++ ' ' :: '}' :: r := by simp [tailTys]
              rw [e]; simp; omega)
          (fun t' x ⟨pre, post, hm⟩ => hall t' x ⟨t :: pre, post, by simp [Tys.toList, hm]⟩)
        have e : printTy (.struct (.cons t ts)) ++ r
            = '{' :: ' ' :: (printTy t ++ (tailTys [',',' '] ts ++ ' ' :: '}' :: r)) := by
          simp [printTy, printTys_comma_cons]
        rw [e]
        simp [parseTyF, altKw, kw, lit, altTSlice, altStrArr, altArr, altStruct, sepBy0, ws_printTy, hp, hl,
          tysOfList, tysOfList_toList]
  | .union ts, h, f, hf, r => by
    cases f with
    | zero => omega
    | succ f =>
      cases ts with
      | nil => simp [tyOk] at h
      | cons t ts =>
        simp only [tyOk, Bool.true_and] at h
        have hall := parseTys_all (.cons t ts) h f (by simp [Ty.size] at hf; omega)
        have hp := hall t (tailTys [' ','|',' '] ts ++ ' ' :: ')' :: r) ⟨[], ts.toList, by simp [Tys.toList]⟩
        have hl := sepLoop_tys (parseTyF f) barSep [' ','|',' '] ')' r bar_spec (by simp [barSep])
          (by simp [Solid, isBlank, isNl]) ts
          (ws (tailTys [' ','|',' '] ts ++ ' ' :: ')' :: r)).length
          (by
            cases ts with
            | nil => simp [Tys.len]
            | cons t2 ts2 =>
              have := tailTys_length [' ','|',' '] ts2
              obtain ⟨c, rest, hc, _⟩ := printTy_head t2
              have e : ws (tailTys [' ','|',' '] (.cons t2 ts2) ++ ' ' :: ')' :: r)
                  = '|' :: ' ' :: (printTy t2 ++ (tailTys [' ','|',' '] ts2 ++ ' ' :: ')' :: r)) := by
                simp [tailTys]
              rw [e, hc]; simp [Tys.len]; omega)
          (fun t' x ⟨pre, post, hm⟩ => hall t' x ⟨t :: pre, post, by simp [Tys.toList, hm]⟩)
        have e : printTy (.union (.cons t ts)) ++ r
            = '(' :: ' ' :: (printTy t ++ (tailTys [' ','|',' '] ts ++ ' ' :: ')' :: r)) := by
          simp [printTy, printTys_bar_cons]
        rw [e]
        simp [parseTyF, altKw, kw, lit, altTSlice, altStrArr, altArr, altStruct, altUnion, sepBy0, sepBy1,
          ws_printTy, hp, hl, tysOfList, tysOfList_toList]
theorem parseTys_all : (ts : Tys) → tysOk ts = true → ∀ f, ts.size < f → ∀ t x,
    (∃ pre post, ts.toList = pre ++ t :: post) → parseTyF f (printTy t ++ x) = .ok t (ws x)
  | .nil, _, _, _, t, x, ⟨pre, post, h⟩ => by simp [Tys.toList] at h
  | .cons t0 ts, h, f, hf, t, x, ⟨pre, post, hm⟩ => by
    simp only [tysOk, Bool.and_eq_true] at h
    cases pre with
    | nil =>
      simp only [Tys.toList, List.nil_append, List.cons.injEq] at hm
      rw [← hm.1]
      exact parseTyF_print t0 h.1 f (by simp [Tys.size] at hf; omega) x
    | cons a pre =>
      simp only [Tys.toList, List.cons_append, List.cons.injEq] at hm
      exact parseTys_all ts h.2 f (by simp [Tys.size] at hf; omega) t x ⟨pre, post, hm.2⟩
end

/-! ### `Ty.beq` decides equality; printed types are longer than their size -/

mutual
theorem Ty.eq_of_beq : (a b : Ty) → Ty.beq a b = true → a = b
  | .never, b, h => by cases b <;> simp_all [Ty.beq]
  | .unit, b, h => by cases b <;> simp_all [Ty.beq]
  | .bool, b, h => by cases b <;> simp_all [Ty.beq]
  | .b256, b, h => by cases b <;> simp_all [Ty.beq]
  | .strSlice, b, h => by cases b <;> simp_all [Ty.beq]
  | .slice, b, h => by cases b <;> simp_all [Ty.beq]
  | .ptr, b, h => by cases b <;> simp_all [Ty.beq]
  | .uint n, b, h => by cases b <;> simp_all [Ty.beq]
  | .strArr n, b, h => by cases b <;> simp_all [Ty.beq]
  | .arr s n, b, h => by
    cases b <;> simp [Ty.beq] at h
    rename_i t m
    rw [h.1, Ty.eq_of_beq s t h.2]
  | .union s, b, h => by
    cases b <;> simp [Ty.beq] at h
    rename_i t
    rw [Tys.eq_of_beq s t h]
  | .struct s, b, h => by
    cases b <;> simp [Ty.beq] at h
    rename_i t
    rw [Tys.eq_of_beq s t h]
  | .tptr s, b, h => by
    cases b <;> simp [Ty.beq] at h
    rename_i t
    rw [Ty.eq_of_beq s t h]
  | .tslice s, b, h => by
    cases b <;> simp [Ty.beq] at h
    rename_i t
    rw [Ty.eq_of_beq s t h]
theorem Tys.eq_of_beq : (a b : Tys) → Tys.beq a b = true → a = b
  | .nil, b, h => by cases b <;> simp_all [Tys.beq]
  | .cons x s, b, h => by
    cases b <;> simp [Tys.beq] at h
    rename_i y t
    rw [Ty.eq_of_beq x y h.1, Tys.eq_of_beq s t h.2]
end

mutual
theorem Ty.beq_refl : (a : Ty) → Ty.beq a a = true
  | .never | .unit | .bool | .b256 | .strSlice | .slice | .ptr => by simp [Ty.beq]
  | .uint _ | .strArr _ => by simp [Ty.beq]
  | .arr s _ => by simp [Ty.beq, Ty.beq_refl s]
  | .union s => by simp [Ty.beq, Tys.beq_refl s]
  | .struct s => by simp [Ty.beq, Tys.beq_refl s]
  | .tptr s => by simp [Ty.beq, Ty.beq_refl s]
  | .tslice s => by simp [Ty.beq, Ty.beq_refl s]
theorem Tys.beq_refl : (a : Tys) → Tys.beq a a = true
  | .nil => by simp [Tys.beq]
  | .cons x s => by simp [Tys.beq, Ty.beq_refl x, Tys.beq_refl s]
end

mutual
theorem Ty.size_le : (t : Ty) → t.size ≤ (printTy t).length
  | .never | .unit | .bool | .b256 | .strSlice | .slice | .ptr => by simp [Ty.size, printTy]
  | .uint _ => by simp [Ty.size, printTy]
  | .strArr _ => by simp [Ty.size, printTy]
  | .arr t _ => by have := Ty.size_le t; simp [Ty.size, printTy]; omega
  | .tptr t => by have := Ty.size_le t; simp [Ty.size, printTy]; omega
  | .tslice t => by have := Ty.size_le t; simp [Ty.size, printTy]; omega
  | .struct ts => by
    cases ts with
    | nil => simp [Ty.size, Tys.size, printTy, printTys]
    | cons t ts =>
      have h1 := Ty.size_le t
      have h2 := Tys.size_le [',',' '] ts (by simp)
      simp [Ty.size, Tys.size, printTy, printTys_comma_cons]; omega
  | .union ts => by
    cases ts with
    | nil => simp [Ty.size, Tys.size, printTy, printTys]
    | cons t ts =>
      have h1 := Ty.size_le t
      have h2 := Tys.size_le [' ','|',' '] ts (by simp)
      simp [Ty.size, Tys.size, printTy, printTys_bar_cons]; omega
theorem Tys.size_le (s : List Char) : (ts : Tys) → 1 ≤ s.length → ts.size ≤ (tailTys s ts).length
  | .nil, _ => by simp [Tys.size]
  | .cons t ts, hs => by
    have h1 := Ty.size_le t
    have h2 := Tys.size_le s ts hs
    simp [Tys.size, tailTys]; omega
end

/-- `ty_roundtrip`, functional form -/
theorem parseTy_printTy (t : Ty) (h : tyOk t = true) : parseTy (printTy t) = .ok t := by
  have := parseTyF_print t h ((printTy t).length + 1) (by have := Ty.size_le t; omega) []
  simp only [List.append_nil] at this
  simp [parseTy, this, ws, wsF]

/-! ### the constant grammar -/

mutual
def toAst : Const → Ast
  | .undef _ => .undef
  | .unit _ => .unit
  | .bool _ b => .bool b
  | .uint _ n => .num n
  | .u256 _ n => .hex n
  | .b256 _ n => .hex n
  | .str _ bs => .str bs
  | .arr _ es => .arr (toFields es)
  | .struct _ es => .struct (toFields es)
  | .slice _ _ => .undef
  | .ref _ _ => .undef
  | .raw _ _ => .undef
def toFields : Consts → Fields
  | .nil => .nil
  | .cons c cs => .cons c.ty (toAst c) (toFields cs)
end

mutual
def Const.size : Const → Nat
  | .arr _ es => es.size + 1
  | .struct _ es => es.size + 1
  | .slice _ es => es.size + 1
  | .ref _ c => c.size + 1
  | _ => 1
def Consts.size : Consts → Nat
  | .nil => 0
  | .cons c cs => c.size + cs.size + 2
end

def Consts.len : Consts → Nat
  | .nil => 0
  | .cons _ cs => cs.len + 1

def Consts.toPairs : Consts → List (Ty × Ast)
  | .nil => []
  | .cons c cs => (c.ty, toAst c) :: cs.toPairs

theorem fieldsOfList_toPairs : (cs : Consts) → fieldsOfList cs.toPairs = toFields cs
  | .nil => by simp [Consts.toPairs, fieldsOfList, toFields]
  | .cons c cs => by simp [Consts.toPairs, fieldsOfList, toFields, fieldsOfList_toPairs cs]

/-- text of the type in front of a printed constant -/
def tyText : Const → List Char
  | .unit _ => ['u','n','i','t']
  | .bool _ _ => ['b','o','o','l']
  | .u256 _ _ => ['u','2','5','6']
  | .b256 _ _ => ['b','2','5','6']
  | c => printTy c.ty

/-- text of the value after `<ty> ` -/
def valText : Const → List Char
  | .undef _ => ['u','n','d','e','f']
  | .unit _ => ['(',')']
  | .bool _ b => if b then ['t','r','u','e'] else ['f','a','l','s','e']
  | .uint _ n => decStr n
  | .u256 _ n => ['0','x'] ++ hexF 64 n
  | .b256 _ n => ['0','x'] ++ hexF 64 n
  | .str _ bs => '"' :: escape bs ++ ['"']
  | .arr _ es => '[' :: printConsts es ++ [']']
  | .struct _ es => '{' :: ' ' :: printConsts es ++ [' ','}']
  | _ => []

theorem printConst_split (c : Const) (h : printableIn c = true) : printConst c = tyText c ++ ' ' :: valText c := by
  cases c <;> simp_all [printConst, tyText, valText, printableIn, Const.ty]

/-- what may follow a printed constant: end of input, `, …`, `]…` or ` }…` -/
def Delim (r : List Char) : Prop :=
  r = [] ∨ (∃ x, r = ',' :: x) ∨ (∃ x, r = ']' :: x) ∨ (∃ x, r = ' ' :: '}' :: x)

theorem Delim.noDigit {r : List Char} (h : Delim r) : NoDigit r := by
  rcases h with h | ⟨x, h⟩ | ⟨x, h⟩ | ⟨x, h⟩ <;> subst h <;> simp [NoDigit, isDigit]

theorem Delim.meta_ok {r : List Char} (h : Delim r) : optMeta (ws r) = .ok () (ws r) := by
  rcases h with h | ⟨x, h⟩ | ⟨x, h⟩ | ⟨x, h⟩ <;> subst h
  · simp [optMeta, ws, wsF]
  · simp [optMeta]
  · simp [optMeta]
  · simp [optMeta]

theorem Delim.notX {r : List Char} (h : Delim r) : lit ['0','x'] ('0' :: r) = none := by
  rcases h with h | ⟨x, h⟩ | ⟨x, h⟩ | ⟨x, h⟩ <;> subst h <;> simp [lit]

theorem tyText_parse (c : Const) (h : printableIn c = true) (F : Nat) (hF : c.ty.size < F) (x : List Char) :
    parseTyF F (tyText c ++ ' ' :: x) = .ok c.ty (ws x) := by
  cases c with
  | undef ty => simpa [tyText, Const.ty, printableIn] using parseTyF_print ty (by simpa [printableIn] using h) F hF (' ' :: x)
  | unit ty =>
    have := Ty.eq_of_beq _ _ (by simpa [printableIn] using h); subst this
    cases F with
    | zero => omega
    | succ F => simp [tyText, Const.ty, parseTyF, altKw, kw, lit]
  | bool ty b =>
    have := Ty.eq_of_beq _ _ (by simpa [printableIn] using h); subst this
    cases F with
    | zero => omega
    | succ F => simp [tyText, Const.ty, parseTyF, altKw, kw, lit]
  | uint ty n =>
    simp only [printableIn, Bool.and_eq_true] at h
    simpa [tyText, Const.ty] using parseTyF_print ty h.1 F hF (' ' :: x)
  | u256 ty n =>
    simp only [printableIn, Bool.and_eq_true] at h
    have := Ty.eq_of_beq _ _ h.1; subst this
    cases F with
    | zero => omega
    | succ F => simp [tyText, Const.ty, parseTyF, altKw, kw, lit]
  | b256 ty n =>
    simp only [printableIn, Bool.and_eq_true] at h
    have := Ty.eq_of_beq _ _ h.1; subst this
    cases F with
    | zero => omega
    | succ F => simp [tyText, Const.ty, parseTyF, altKw, kw, lit]
  | str ty bs =>
    simp only [printableIn, Bool.and_eq_true] at h
    simpa [tyText, Const.ty] using parseTyF_print ty h.1 F hF (' ' :: x)
  | arr ty es =>
    have h1 : tyOk ty = true := by cases es <;> simp_all [printableIn]
    simpa [tyText, Const.ty] using parseTyF_print ty h1 F hF (' ' :: x)
  | struct ty es =>
    simp only [printableIn, Bool.and_eq_true] at h
    simpa [tyText, Const.ty] using parseTyF_print ty h.1 F hF (' ' :: x)
  | slice ty es => simp [printableIn] at h
  | ref ty c => simp [printableIn] at h
  | raw ty bs => simp [printableIn] at h

theorem tyText_size (c : Const) (h : printableIn c = true) : c.ty.size ≤ (tyText c).length := by
  cases c with
  | unit ty => have := Ty.eq_of_beq _ _ (by simpa [printableIn] using h); subst this; simp [Const.ty, Ty.size, tyText]
  | bool ty b => have := Ty.eq_of_beq _ _ (by simpa [printableIn] using h); subst this; simp [Const.ty, Ty.size, tyText]
  | u256 ty n =>
    simp only [printableIn, Bool.and_eq_true] at h
    have := Ty.eq_of_beq _ _ h.1; subst this; simp [Const.ty, Ty.size, tyText]
  | b256 ty n =>
    simp only [printableIn, Bool.and_eq_true] at h
    have := Ty.eq_of_beq _ _ h.1; subst this; simp [Const.ty, Ty.size, tyText]
  | undef ty => simpa [Const.ty, tyText] using Ty.size_le ty
  | uint ty n => simpa [Const.ty, tyText] using Ty.size_le ty
  | str ty bs => simpa [Const.ty, tyText] using Ty.size_le ty
  | arr ty es => simpa [Const.ty, tyText] using Ty.size_le ty
  | struct ty es => simpa [Const.ty, tyText] using Ty.size_le ty
  | slice ty es => simp [printableIn] at h
  | ref ty c => simp [printableIn] at h
  | raw ty bs => simp [printableIn] at h

theorem valText_solid (c : Const) (h : printableIn c = true) (x : List Char) : ws (valText c ++ x) = valText c ++ x := by
  cases c with
  | uint ty n => simpa [valText] using ws_decStr n x
  | bool ty b => cases b <;> exact ws_cons _ _ (by decide)
  | slice ty es => simp [printableIn] at h
  | ref ty c => simp [printableIn] at h
  | raw ty bs => simp [printableIn] at h
  | _ => exact ws_cons _ _ (by decide)

theorem tyText_head (c : Const) : ∃ ch rest, tyText c = ch :: rest ∧ Solid [ch] := by
  cases c <;> first
    | exact ⟨_, _, rfl, by simp [Solid, isBlank, isNl]⟩
    | (obtain ⟨ch, rest, h, hs, _⟩ := printTy_head (Const.ty _); exact ⟨ch, rest, by simpa [tyText] using h, hs⟩)

theorem ws_printConst (c : Const) (h : printableIn c = true) (x : List Char) :
    ws (printConst c ++ x) = printConst c ++ x := by
  obtain ⟨ch, rest, ht, hs⟩ := tyText_head c
  rw [printConst_split c h, ht]
  exact ws_solid (by simpa [Solid] using hs)

theorem parseValF_u (f : Nat) (x : List Char) : parseValF f ('u' :: x) = .fail := by
  cases f with
  | zero => rfl
  | succ f =>
    simp [parseValF, altVKw, kw, lit, altHex, altNum, decimal, decDigits, isDigit, altStr, altArrC, altStructC]

theorem field_of_val (c : Const) (h : printableIn c = true) (f : Nat) (r : List Char) (hr : Delim r)
    (hV : (∀ ty, c ≠ .undef ty) → parseValF f (valText c ++ r) = .ok (toAst c) (ws r)) :
    parseFieldF (f + 1) (printConst c ++ r) = .ok (c.ty, toAst c) (ws r) := by
  have hT := tyText_parse c h ((printConst c ++ r).length + 1)
    (by have := tyText_size c h; rw [printConst_split c h]; simp; omega) (valText c ++ r)
  rw [valText_solid c h] at hT
  have e : printConst c ++ r = tyText c ++ ' ' :: (valText c ++ r) := by rw [printConst_split c h]; simp
  simp only [parseFieldF]
  rw [← e] at hT
  rw [hT]
  by_cases hu : ∃ ty, c = .undef ty
  · obtain ⟨ty, hu⟩ := hu
    subst hu
    simp [altFieldVal, valText, parseValF_u, kw, lit, toAst, Const.ty]
  · have hV' := hV (fun ty hc => hu ⟨ty, hc⟩)
    simp [altFieldVal, hV', hr.meta_ok]

/-- elements after the first one of a printed constant list -/
def tailC : Consts → List Char
  | .nil => []
  | .cons c cs => [',',' '] ++ printConst c ++ tailC cs

theorem printConsts_cons : (c : Const) → (cs : Consts) → printConsts (.cons c cs) = printConst c ++ tailC cs
  | c, .nil => by simp [printConsts, tailC]
  | c, .cons c2 cs2 => by
    have := printConsts_cons c2 cs2
    simp [printConsts, tailC, this]

theorem tailC_length : (cs : Consts) → cs.len ≤ (tailC cs).length
  | .nil => by simp [Consts.len]
  | .cons c cs => by have := tailC_length cs; simp [tailC, Consts.len]; omega

theorem delim_tail (cs : Consts) (endStr r : List Char) (hd : Delim (endStr ++ r)) : Delim (tailC cs ++ (endStr ++ r)) := by
  cases cs with
  | nil => simpa [tailC] using hd
  | cons c cs => exact Or.inr (Or.inl ⟨' ' :: (printConst c ++ (tailC cs ++ (endStr ++ r))), by simp [tailC]⟩)

theorem allPrintable_of_sameTy (t : Ty) : (cs : Consts) → allPrintableSameTy t cs = true → allPrintable cs = true
  | .nil, _ => by simp [allPrintable]
  | .cons c cs, h => by
    simp only [allPrintableSameTy, Bool.and_eq_true] at h
    simp [allPrintable, h.1.2, allPrintable_of_sameTy t cs h.2]

theorem parseFieldF_rc (f : Nat) (r : List Char) : parseFieldF f ('}' :: r) = .fail := by
  cases f with
  | zero => rfl
  | succ f => simp [parseFieldF, parseTyF_rc]

mutual
theorem parseValF_print : (c : Const) → printableIn c = true → (∀ ty, c ≠ .undef ty) → ∀ f, c.size < f → ∀ r, Delim r →
    parseValF f (valText c ++ r) = .ok (toAst c) (ws r)
  | .undef ty, _, hu, _, _, _, _ => absurd rfl (hu ty)
  | .unit ty, _, _, f, hf, r, _ => by
    cases f with
    | zero => omega
    | succ f => simp [valText, parseValF, altVKw, kw, lit, toAst]
  | .bool ty b, _, _, f, hf, r, _ => by
    cases f with
    | zero => omega
    | succ f => cases b <;> simp [valText, parseValF, altVKw, kw, lit, toAst]
  | .uint ty n, h, _, f, hf, r, hr => by
    cases f with
    | zero => omega
    | succ f =>
      simp only [printableIn, Bool.and_eq_true, decide_eq_true_eq] at h
      have hd := decimal_decStr n r h.2 hr.noDigit
      obtain ⟨ch, ds, hc, hdig⟩ := decStr_head n
      have hne : ch ≠ '(' ∧ ch ≠ 't' ∧ ch ≠ 'f' := by
        refine ⟨?_, ?_, ?_⟩ <;> (intro hx; subst hx; exact absurd hdig (by decide))
      have hhex : altHex (decStr n ++ r) = none := by
        by_cases h0 : n = 0
        · subst h0; simp [decStr_zero, altHex, hr.notX]
        · obtain ⟨c2, ds2, hc2, _, hnz⟩ := decF_head (n + 1) n (by omega) (by omega)
          have : decStr n = c2 :: ds2 := hc2
          simp [this, altHex, lit, Ne.symm hnz]
      have hk1 : altVKw ['(',')'] .unit (decStr n ++ r) = none := by simp [hc, altVKw, kw, lit, Ne.symm hne.1]
      have hk2 : altVKw ['t','r','u','e'] (.bool true) (decStr n ++ r) = none := by
        simp [hc, altVKw, kw, lit, Ne.symm hne.2.1]
      have hk3 : altVKw ['f','a','l','s','e'] (.bool false) (decStr n ++ r) = none := by
        simp [hc, altVKw, kw, lit, Ne.symm hne.2.2]
      simp [valText, parseValF, hk1, hk2, hk3, hhex, altNum, hd, toAst]
  | .u256 ty n, h, _, f, hf, r, _ => by
    cases f with
    | zero => omega
    | succ f =>
      simp only [printableIn, Bool.and_eq_true, decide_eq_true_eq] at h
      simp [valText, parseValF, altVKw, kw, lit, altHex, takeHex64 n r h.2, toAst]
  | .b256 ty n, h, _, f, hf, r, _ => by
    cases f with
    | zero => omega
    | succ f =>
      simp only [printableIn, Bool.and_eq_true, decide_eq_true_eq] at h
      simp [valText, parseValF, altVKw, kw, lit, altHex, takeHex64 n r h.2, toAst]
  | .str ty bs, h, _, f, hf, r, _ => by
    cases f with
    | zero => omega
    | succ f =>
      simp only [printableIn, Bool.and_eq_true] at h
      have hs : strChars (escape bs ++ '"' :: r) = (bs, '"' :: r) :=
        strCharsF_escape bs _ r h.2 (by have := escape_length bs; simp; omega)
      simp [valText, parseValF, altVKw, kw, lit, altHex, altNum, decimal, decDigits, isDigit, altStr, hs, toAst]
  | .slice _ _, h, _, _, _, _, _ => by simp [printableIn] at h
  | .ref _ _, h, _, _, _, _, _ => by simp [printableIn] at h
  | .raw _ _, h, _, _, _, _, _ => by simp [printableIn] at h
  | .arr ty es, h, _, f, hf, r, hr => by
    cases f with
    | zero => omega
    | succ f =>
      cases es with
      | nil => simp [printableIn] at h
      | cons e es =>
        simp only [printableIn, Bool.and_eq_true] at h
        have hes := allPrintable_of_sameTy e.ty es h.2.2
        have hsz : e.size + es.size + 2 < f := by simp [Const.size, Consts.size] at hf; omega
        cases f with
        | zero => omega
        | succ f =>
          have hd1 : Delim (tailC es ++ ([']'] ++ r)) := delim_tail es [']'] r (Or.inr (Or.inr (Or.inl ⟨r, rfl⟩)))
          have hp := field_of_val e h.2.1 f _ hd1
            (fun hu => parseValF_print e h.2.1 hu f (by omega) _ hd1)
          have hl := sepLoop_consts es hes f (by omega) [']'] ']' r (by simp) (Or.inr (Or.inr (Or.inl ⟨r, rfl⟩)))
            (by simp [comma]) (ws (tailC es ++ ([']'] ++ r))).length
            (by
              cases es with
              | nil => simp [Consts.len]
              | cons c2 cs2 =>
                have := tailC_length (.cons c2 cs2)
                have e2 : ws (tailC (.cons c2 cs2) ++ ([']'] ++ r)) = tailC (.cons c2 cs2) ++ ([']'] ++ r) := by
                  simp [tailC]
                rw [e2]; simp; omega)
          have e1 : valText (.arr ty (.cons e es)) ++ r = '[' :: (printConst e ++ (tailC es ++ ([']'] ++ r))) := by
            simp [valText, printConsts_cons]
          rw [e1]
          simp only [List.cons_append, List.nil_append] at hp hl
          simp [parseValF, altVKw, kw, lit, altHex, altNum, decimal, decDigits, isDigit, altStr, altArrC, sepBy1,
            ws_printConst e h.2.1, hp, hl, toAst, toFields, fieldsOfList, fieldsOfList_toPairs]
  | .struct ty es, h, _, f, hf, r, hr => by
    cases f with
    | zero => omega
    | succ f =>
      simp only [printableIn, Bool.and_eq_true] at h
      cases es with
      | nil =>
        simp [valText, printConsts, parseValF, altVKw, kw, lit, altHex, altNum, decimal, decDigits, isDigit, altStr,
          altArrC, altStructC, sepBy0, parseFieldF_rc, toAst, toFields, fieldsOfList]
      | cons e es =>
        simp only [allPrintable, Bool.and_eq_true] at h
        have hsz : e.size + es.size + 2 < f := by simp [Const.size, Consts.size] at hf; omega
        cases f with
        | zero => omega
        | succ f =>
          have hdE : Delim ([' ','}'] ++ r) := Or.inr (Or.inr (Or.inr ⟨r, rfl⟩))
          have hd1 : Delim (tailC es ++ ([' ','}'] ++ r)) := delim_tail es [' ','}'] r hdE
          have hp := field_of_val e h.2.1 f _ hd1
            (fun hu => parseValF_print e h.2.1 hu f (by omega) _ hd1)
          have hl := sepLoop_consts es h.2.2 f (by omega) [' ','}'] '}' r (by simp) hdE
            (by simp [comma]) (ws (tailC es ++ ([' ','}'] ++ r))).length
            (by
              cases es with
              | nil => simp [Consts.len]
              | cons c2 cs2 =>
                have := tailC_length (.cons c2 cs2)
                have e2 : ws (tailC (.cons c2 cs2) ++ ([' ','}'] ++ r)) = tailC (.cons c2 cs2) ++ ([' ','}'] ++ r) := by
                  simp [tailC]
                rw [e2]; simp; omega)
          have e1 : valText (.struct ty (.cons e es)) ++ r
              = '{' :: ' ' :: (printConst e ++ (tailC es ++ ([' ','}'] ++ r))) := by
            simp [valText, printConsts_cons]
          rw [e1]
          simp only [List.cons_append, List.nil_append] at hp hl
          simp [parseValF, altVKw, kw, lit, altHex, altNum, decimal, decDigits, isDigit, altStr, altArrC, altStructC,
            sepBy0, ws_printConst e h.2.1, hp, hl, toAst, toFields, fieldsOfList, fieldsOfList_toPairs]
theorem sepLoop_consts : (cs : Consts) → allPrintable cs = true → ∀ f, cs.size < f + 1 →
    ∀ (endStr : List Char) (close : Char) (r : List Char),
    ws (endStr ++ r) = close :: r → Delim (endStr ++ r) → comma (close :: r) = none →
    ∀ k, cs.len ≤ k →
    sepLoop (parseFieldF (f + 1)) comma k (ws (tailC cs ++ (endStr ++ r))) = .ok cs.toPairs (close :: r)
  | .nil, _, f, _, endStr, close, r, he, _, hc, k, _ => by
    simp only [tailC, List.nil_append, he]
    cases k with
    | zero => simp [sepLoop, Consts.toPairs]
    | succ k => simp [sepLoop, hc, Consts.toPairs]
  | .cons e es, h, f, hf, endStr, close, r, he, hd, hc, k, hk => by
    simp only [allPrintable, Bool.and_eq_true] at h
    cases k with
    | zero => simp [Consts.len] at hk
    | succ k =>
      have hd1 : Delim (tailC es ++ (endStr ++ r)) := delim_tail es endStr r hd
      have hp := field_of_val e h.1 f _ hd1
        (fun hu => parseValF_print e h.1 hu f (by simp [Consts.size] at hf; omega) _ hd1)
      have ih := sepLoop_consts es h.2 f (by simp [Consts.size] at hf; omega) endStr close r he hd hc k
        (by simp [Consts.len] at hk; omega)
      have e1 : ws (tailC (.cons e es) ++ (endStr ++ r)) = ',' :: ' ' :: (printConst e ++ (tailC es ++ (endStr ++ r))) := by
        simp [tailC]
      rw [e1]
      simp [sepLoop, comma, ws_printConst e h.1, hp, ih, Consts.toPairs]
end

/-! ### conversions and the closed round-trip statements -/

mutual
theorem conv_toAst : (c : Const) → printableIn c = true → conv c.ty (toAst c) = some c
  | .undef ty, _ => by simp [Const.ty, toAst, conv]
  | .unit ty, _ => by simp [Const.ty, toAst, conv]
  | .bool ty b, _ => by simp [Const.ty, toAst, conv]
  | .uint ty n, _ => by simp [Const.ty, toAst, conv]
  | .u256 ty n, h => by
    simp only [printableIn, Bool.and_eq_true] at h
    have := Ty.eq_of_beq _ _ h.1; subst this
    simp [Const.ty, toAst, conv]
  | .b256 ty n, h => by
    simp only [printableIn, Bool.and_eq_true] at h
    have := Ty.eq_of_beq _ _ h.1; subst this
    simp [Const.ty, toAst, conv]
  | .str ty bs, _ => by simp [Const.ty, toAst, conv]
  | .slice _ _, h => by simp [printableIn] at h
  | .ref _ _, h => by simp [printableIn] at h
  | .raw _ _, h => by simp [printableIn] at h
  | .arr ty es, h => by
    cases es with
    | nil => simp [printableIn] at h
    | cons e es =>
      simp only [printableIn, Bool.and_eq_true] at h
      have h1 := conv_toAst e h.2.1
      have h2 := convElems_same e.ty es h.2.2
      show conv ty (Ast.arr (Fields.cons e.ty (toAst e) (toFields es))) = some (Const.arr ty (Consts.cons e es))
      simp only [conv, convElems, h1, h2]
  | .struct ty es, h => by
    simp only [printableIn, Bool.and_eq_true] at h
    have h2 := convFields_all es h.2
    simp [Const.ty, toAst, conv, h2]
theorem convElems_same (t : Ty) : (cs : Consts) → allPrintableSameTy t cs = true → convElems t (toFields cs) = some cs
  | .nil, _ => by simp [toFields, convElems]
  | .cons c cs, h => by
    simp only [allPrintableSameTy, Bool.and_eq_true] at h
    have ht := Ty.eq_of_beq _ _ h.1.1
    have h1 := conv_toAst c h.1.2
    rw [ht] at h1
    have h2 := convElems_same t cs h.2
    simp [toFields, convElems, h1, h2]
theorem convFields_all : (cs : Consts) → allPrintable cs = true → convFields (toFields cs) = some cs
  | .nil, _ => by simp [toFields, convFields]
  | .cons c cs, h => by
    simp only [allPrintable, Bool.and_eq_true] at h
    have h1 := conv_toAst c h.1
    have h2 := convFields_all cs h.2
    simp [toFields, convFields, h1, h2]
end

mutual
theorem Const.size_le : (c : Const) → c.size ≤ (printConst c).length
  | .undef _ | .unit _ | .bool _ _ | .uint _ _ | .u256 _ _ | .b256 _ _ | .str _ _ | .raw _ _ => by
    simp [Const.size, printConst] <;> omega
  | .ref _ c => by have := Const.size_le c; simp [Const.size, printConst]; omega
  | .arr _ es => by
    cases es with
    | nil => simp [Const.size, Consts.size, printConst] <;> omega
    | cons e es =>
      have h1 := Const.size_le e
      have h2 := Consts.size_le es
      simp [Const.size, Consts.size, printConst, printConsts_cons]; omega
  | .slice _ es => by
    cases es with
    | nil => simp [Const.size, Consts.size, printConst] <;> omega
    | cons e es =>
      have h1 := Const.size_le e
      have h2 := Consts.size_le es
      simp [Const.size, Consts.size, printConst, printConsts_cons]; omega
  | .struct _ es => by
    cases es with
    | nil => simp [Const.size, Consts.size, printConst] <;> omega
    | cons e es =>
      have h1 := Const.size_le e
      have h2 := Consts.size_le es
      simp [Const.size, Consts.size, printConst, printConsts_cons]; omega
theorem Consts.size_le : (cs : Consts) → cs.size ≤ (tailC cs).length
  | .nil => by simp [Consts.size]
  | .cons c cs => by
    have h1 := Const.size_le c
    have h2 := Consts.size_le cs
    simp [Consts.size, tailC]; omega
end

/-- the grammar part shared by both positions: type, value, optional metadata index, end of input -/
theorem parseTypedF_print (c : Const) (h : printableIn c = true) (hu : ∀ ty, c ≠ .undef ty) :
    parseTypedF ((printConst c).length + 1) (printConst c) = .ok (c.ty, toAst c) [] := by
  have hT := tyText_parse c h ((printConst c).length + 1)
    (by have := tyText_size c h; rw [printConst_split c h]; simp; omega) (valText c)
  have hs := valText_solid c h []
  simp only [List.append_nil] at hs
  rw [hs] at hT
  have hV := parseValF_print c h hu ((printConst c).length + 1) (by have := Const.size_le c; omega) [] (Or.inl rfl)
  simp only [List.append_nil] at hV
  have e : printConst c = tyText c ++ ' ' :: valText c := printConst_split c h
  have hw : ws [] = [] := by simp [ws, wsF]
  simp only [parseTypedF]
  rw [← e] at hT
  rw [hT]
  simp [hV, hw, optMeta]

theorem parseConst_print (c : Const) (h : printable c = true) : parseConst (printConst c) = .ok c := by
  simp only [printable, Bool.and_eq_true] at h
  have hu : ∀ ty, c ≠ .undef ty := by
    intro ty hc; subst hc; simp at h
  simp [parseConst, parseTypedF_print c h.1 hu, conv_toAst c h.1]

theorem printableIn_of_top (c : Const) (h : printableTop c = true) : printableIn c = true ∧ ∀ ty, c ≠ .undef ty := by
  cases c with
  | undef ty => simp [printableTop] at h
  | uint ty n =>
    simp only [printableTop, Bool.and_eq_true, Bool.or_eq_true, decide_eq_true_eq] at h
    refine ⟨?_, by intro ty hc; cases hc⟩
    rcases h.1 with h1 | h1 <;> (have := Ty.eq_of_beq _ _ h1; subst this; simp [printableIn, tyOk, h.2])
  | str ty bs =>
    simp only [printableTop, Bool.and_eq_true, decide_eq_true_eq] at h
    have := Ty.eq_of_beq _ _ h.1.1; subst this
    exact ⟨by simp [printableIn, tyOk, h.1.2, h.2], by intro ty hc; cases hc⟩
  | arr ty es =>
    simp only [printableTop, Bool.and_eq_true] at h
    exact ⟨h.2, by intro ty hc; cases hc⟩
  | struct ty es =>
    simp only [printableTop, Bool.and_eq_true] at h
    exact ⟨h.2, by intro ty hc; cases hc⟩
  | unit ty => exact ⟨by simpa [printableTop, printableIn] using h, by intro ty hc; cases hc⟩
  | bool ty b => exact ⟨by simpa [printableTop, printableIn] using h, by intro ty hc; cases hc⟩
  | u256 ty n => exact ⟨by simpa [printableTop] using h, by intro ty hc; cases hc⟩
  | b256 ty n => exact ⟨by simpa [printableTop] using h, by intro ty hc; cases hc⟩
  | slice ty es => simp [printableTop, printableIn] at h
  | ref ty c => simp [printableTop, printableIn] at h
  | raw ty bs => simp [printableTop, printableIn] at h

theorem convTop_toAst (c : Const) (h : printableTop c = true) : convTop c.ty (toAst c) = some c := by
  have hin := (printableIn_of_top c h).1
  cases c with
  | undef ty => simp [printableTop] at h
  | unit ty =>
    have := Ty.eq_of_beq _ _ (by simpa [printableTop] using h); subst this
    simp [Const.ty, toAst, convTop]
  | bool ty b =>
    have := Ty.eq_of_beq _ _ (by simpa [printableTop] using h); subst this
    simp [Const.ty, toAst, convTop]
  | uint ty n =>
    simp only [printableTop, Bool.and_eq_true, Bool.or_eq_true] at h
    rcases h.1 with h1 | h1 <;> (have := Ty.eq_of_beq _ _ h1; subst this; simp [Const.ty, toAst, convTop])
  | u256 ty n =>
    simp only [printableIn, Bool.and_eq_true] at hin
    have := Ty.eq_of_beq _ _ hin.1; subst this
    simp [Const.ty, toAst, convTop]
  | b256 ty n =>
    simp only [printableIn, Bool.and_eq_true] at hin
    have := Ty.eq_of_beq _ _ hin.1; subst this
    simp [Const.ty, toAst, convTop]
  | str ty bs =>
    simp only [printableTop, Bool.and_eq_true] at h
    have := Ty.eq_of_beq _ _ h.1.1; subst this
    simp [Const.ty, toAst, convTop]
  | arr ty es =>
    simp only [printableTop, Bool.and_eq_true] at h
    have hc := conv_toAst _ hin
    cases ty <;> simp_all [Const.ty, toAst, convTop]
  | struct ty es =>
    simp only [printableTop, Bool.and_eq_true] at h
    have hc := conv_toAst _ hin
    cases ty <;> simp_all [Const.ty, toAst, convTop]
  | slice ty es => simp [printableIn] at hin
  | ref ty c => simp [printableIn] at hin
  | raw ty bs => simp [printableIn] at hin

theorem parseConstTop_print (c : Const) (h : printableTop c = true) : parseConstTop (printConst c) = .ok c := by
  obtain ⟨hin, hu⟩ := printableIn_of_top c h
  simp [parseConstTop, parseTypedF_print c hin hu, convTop_toAst c h]

theorem unescape_escape (bs : List Nat) (h : bytesOk bs = true) : unescape (escape bs) = some bs := by
  have := strCharsF_escape_end bs ((escape bs).length + 1) h (by have := escape_length bs; omega)
  simp [unescape, strChars, this]

theorem bytesOk_map (bs : List UInt8) : bytesOk (bs.map (·.toNat)) = true := by
  induction bs with
  | nil => simp [bytesOk]
  | cons b bs ih => simp [bytesOk, ih]; exact UInt8.toNat_lt b

mutual
theorem Const.beq_refl : (c : Const) → Const.beq c c = true
  | .undef t | .unit t => by simp [Const.beq, Ty.beq_refl t]
  | .bool t _ | .uint t _ | .u256 t _ | .b256 t _ | .str t _ | .raw t _ => by simp [Const.beq, Ty.beq_refl t]
  | .arr t es | .slice t es | .struct t es => by simp [Const.beq, Ty.beq_refl t, Consts.beq_refl es]
  | .ref t c => by simp [Const.beq, Ty.beq_refl t, Const.beq_refl c]
theorem Consts.beq_refl : (cs : Consts) → Consts.beq cs cs = true
  | .nil => by simp [Consts.beq]
  | .cons c cs => by simp [Consts.beq, Const.beq_refl c, Consts.beq_refl cs]
end

end SwayVerif.IrText
