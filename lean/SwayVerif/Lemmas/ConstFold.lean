import SwayVerif.Model.ConstFold
/-!
Helper lemmas for C06: per Rust method × VM instruction soundness, and the decidable whitelist
(`pairOk`, `armCheck`, …) that `Props/C06.lean` evaluates over the GENERATED tables. A table row that is
not on the whitelist (another Rust method, another instruction, another `bits()` bound, `.unknown`)
makes the `decide` in `Props/C06.lean` fail.
-/
namespace SwayVerif.ConstFold
open SwayVerif.RustInt

/-! ## arithmetic facts -/

theorem bits_le_iff (r k : Nat) : bits r ≤ k + 1 ↔ r < 2 ^ (k + 1) := by
  unfold bits
  by_cases h : r = 0
  · subst h; simp [Nat.two_pow_pos]
  · simp only [h, if_false]
    have := @Nat.log2_lt r (k + 1) h
    omega

theorem bits_le_256 (r : Nat) : bits r ≤ 256 ↔ r < p256 := bits_le_iff r 255

theorem shr_zero_of_ge (a b : Nat) (ha : a < p256) (hb : 256 ≤ b) : a >>> b = 0 := by
  rw [Nat.shiftRight_eq_div_pow]
  apply Nat.div_eq_of_lt
  have : (2 : Nat) ^ 256 ≤ 2 ^ b := Nat.pow_le_pow_right (by decide) hb
  omega

theorem shl_ge_of_ge (a b : Nat) (ha : a ≠ 0) (hb : 256 ≤ b) : p256 ≤ a <<< b := by
  rw [Nat.shiftLeft_eq]
  have h1 : (2 : Nat) ^ 256 ≤ 2 ^ b := Nat.pow_le_pow_right (by decide) hb
  have h2 : 1 * 2 ^ b ≤ a * 2 ^ b := Nat.mul_le_mul_right _ (Nat.pos_of_ne_zero ha)
  omega

theorem zero_shl (b : Nat) : 0 <<< b = 0 := by simp

theorem and_mask (x n : Nat) : x &&& (2 ^ n - 1) = x % 2 ^ n := Nat.and_two_pow_sub_one_eq_mod x n

/-- The evaluation shortcut in `evalBody (.bitsLe .shl bound)` does not change the function. -/
theorem bitsLe_shl_shortcut (a b bound : Nat) (ha : a ≠ 0) (hb : b > bound) :
    ctFilter (bigOp .shl a b) (fun r => decide (bits r ≤ bound)) = .decline := by
  simp only [bigOp, ctFilter]
  have hge : 2 ^ b ≤ a <<< b := by
    rw [Nat.shiftLeft_eq]
    have : 1 * 2 ^ b ≤ a * 2 ^ b := Nat.mul_le_mul_right _ (Nat.pos_of_ne_zero ha)
    omega
  have hne : a <<< b ≠ 0 := by
    have : 0 < 2 ^ b := Nat.two_pow_pos b
    omega
  have hbits : ¬ bits (a <<< b) ≤ bound := by
    unfold bits
    simp only [hne, if_false]
    have hlog : b ≤ Nat.log2 (a <<< b) := by
      apply Classical.byContradiction
      intro hlt
      have := (Nat.log2_lt hne).1 (Nat.lt_of_not_le hlt)
      omega
    omega
  simp [hbits]

/-! ## operand classes -/

/-- Bounds / operand passing of the two operands, determined by the arm's kinds. -/
inductive Cls where
  /-- both operands are `u64` payloads in registers -/
  | n64
  /-- both operands are 256-bit values in memory -/
  | wideWide
  /-- left 256-bit in memory, right a `u64` shift amount in a register -/
  | wideShift
  deriving DecidableEq, Repr

def clsOf (lk rk : Kind) : Option Cls :=
  match lk, rk with
  | .uint, .uint => some .n64
  | .u256, .u256 => some .wideWide
  | .b256, .b256 => some .wideWide
  | .u256, .uint => some .wideShift
  | .b256, .uint => some .wideShift
  | _, _ => none

def Cls.lbound : Cls → Nat
  | .n64 => p64
  | _ => p256
def Cls.rbound : Cls → Nat
  | .wideWide => p256
  | _ => p64
def Cls.rhsWide : Cls → Bool
  | .wideWide => true
  | _ => false

theorem Kind.matches_uint (ty : Ty) (h : Kind.uint.matches ty = true) : ty.bound = p64 ∧ ty.isWide = false := by
  cases ty <;> simp [Kind.matches, Ty.kind] at h <;> exact ⟨rfl, rfl⟩
theorem Kind.matches_u256 (ty : Ty) (h : Kind.u256.matches ty = true) : ty = .u256 := by
  cases ty <;> simp [Kind.matches, Ty.kind] at h <;> rfl
theorem Kind.matches_b256 (ty : Ty) (h : Kind.b256.matches ty = true) : ty = .b256 := by
  cases ty <;> simp [Kind.matches, Ty.kind] at h <;> rfl

/-- The class is consistent with the operand types that the arm's kinds match. -/
theorem cls_types (lk rk : Kind) (cls : Cls) (op : Op) (ty : Ty) (h : clsOf lk rk = some cls)
    (hl : lk.matches ty = true) (hr : rk.matches (rhsTy op ty) = true) :
    ty.bound = cls.lbound ∧ (rhsTy op ty).bound = cls.rbound ∧ (rhsTy op ty).isWide = cls.rhsWide ∧
    ty.isWide = (cls != .n64) := by
  cases lk <;> cases rk <;> simp only [clsOf, Option.some.injEq, reduceCtorEq] at h <;> subst h
  · -- uint, uint
    obtain ⟨h1, h2⟩ := Kind.matches_uint ty hl
    obtain ⟨h3, h4⟩ := Kind.matches_uint _ hr
    exact ⟨h1, h3, h4, h2⟩
  · -- u256, uint
    have := Kind.matches_u256 ty hl; subst this
    obtain ⟨h3, h4⟩ := Kind.matches_uint _ hr
    exact ⟨rfl, h3, h4, rfl⟩
  · -- u256, u256
    have := Kind.matches_u256 ty hl; subst this
    have h := Kind.matches_u256 _ hr
    rw [h]
    exact ⟨rfl, rfl, rfl, rfl⟩
  · -- b256, uint
    have := Kind.matches_b256 ty hl; subst this
    obtain ⟨h3, h4⟩ := Kind.matches_uint _ hr
    exact ⟨rfl, h3, h4, rfl⟩
  · -- b256, b256
    have := Kind.matches_b256 ty hl; subst this
    have h := Kind.matches_b256 _ hr
    rw [h]
    exact ⟨rfl, rfl, rfl, rfl⟩

/-! ## whitelist: Rust method × VM instruction -/

/-- `ctEval` only looks at the method (and, for `not`, the type). -/
def ctMethod (m : Method) (ty : Ty) (a b : Nat) : Ct := ctEval ⟨.irFold, .add, .any, .any, m⟩ ty a b

theorem ctEval_eq (arm : Arm) (ty : Ty) (a b : Nat) : ctEval arm ty a b = ctMethod arm.method ty a b := rfl

def PairSound (cls : Cls) (m : Method) (i : Instr) : Prop :=
  ∀ (ty : Ty) (a b v : Nat), a < cls.lbound → b < cls.rbound → ctMethod m ty a b = .fold v →
    vmExec i cls.rhsWide a b = .ok v

theorem ps_add : PairSound .n64 (.u64 .checkedAdd) (.add) := by
  intro ty a b v _ _ hct
  simp only [ctMethod, ctEval, evalU64, Ct.ofOption, checkedAdd] at hct
  simp only [vmExec, captureOverflow]
  by_cases h : a + b < 2 ^ 64
  · simp only [h, if_true] at hct
    simp at hct
    subst hct
    rw [if_neg (by omega)]
  · simp [h] at hct

theorem ps_sub : PairSound .n64 (.u64 .checkedSub) (.sub) := by
  intro ty a b v ha hb hct
  have ha : a < 2 ^ 64 := ha
  have hb : b < 2 ^ 64 := hb
  simp only [ctMethod, ctEval, evalU64, Ct.ofOption, checkedSub] at hct
  simp only [vmExec, captureOverflow]
  by_cases h : b ≤ a
  · simp only [h, if_true] at hct
    simp at hct
    subst hct
    have e : (a + 2 ^ 128 - b) % 2 ^ 128 = a - b := by omega
    rw [e, if_neg (by omega)]
  · simp [h] at hct

theorem ps_mul : PairSound .n64 (.u64 .checkedMul) (.mul) := by
  intro ty a b v _ _ hct
  simp only [ctMethod, ctEval, evalU64, Ct.ofOption, checkedMul] at hct
  simp only [vmExec, captureOverflow]
  by_cases h : a * b < 2 ^ 64
  · simp only [h, if_true] at hct
    simp at hct
    subst hct
    rw [if_neg (by omega)]
  · simp [h] at hct

theorem ps_div : PairSound .n64 (.u64 .checkedDiv) (.div) := by
  intro ty a b v ha hb hct
  simp only [ctMethod, ctEval, evalU64, Ct.ofOption, checkedDiv] at hct
  simp only [vmExec, aluError]
  by_cases hb0 : b = 0
  · simp [hb0] at hct
  · simp only [hb0, if_false] at hct
    simp at hct
    subst hct
    simp [hb0]

theorem ps_rem : PairSound .n64 (.u64 .checkedRem) (.mod) := by
  intro ty a b v ha hb hct
  simp only [ctMethod, ctEval, evalU64, Ct.ofOption, checkedRem] at hct
  simp only [vmExec, aluError]
  by_cases hb0 : b = 0
  · simp [hb0] at hct
  · simp only [hb0, if_false] at hct
    simp at hct
    subst hct
    simp [hb0]

theorem ps_and : PairSound .n64 (.u64 .bitAnd) (.and) := by
  intro ty a b v _ _ hct
  simp [ctMethod, ctEval, evalU64] at hct; subst hct; rfl
theorem ps_or : PairSound .n64 (.u64 .bitOr) (.or) := by
  intro ty a b v _ _ hct
  simp [ctMethod, ctEval, evalU64] at hct; subst hct; rfl
theorem ps_xor : PairSound .n64 (.u64 .bitXor) (.xor) := by
  intro ty a b v _ _ hct
  simp [ctMethod, ctEval, evalU64] at hct; subst hct; rfl

theorem ps_sll : PairSound .n64 (.u32TryFromThen .checkedShl) (.sll) := by
  intro ty a b v ha hb hct
  simp only [ctMethod, ctEval, u32TryFrom] at hct
  simp only [vmExec]
  by_cases h32 : b < 2 ^ 32
  · simp only [h32, if_true] at hct ⊢
    simp only [evalU64, Ct.ofOption, checkedShl] at hct
    by_cases h64 : b < 64
    · simp only [h64, if_true] at hct ⊢
      simpa using hct
    · simp [h64] at hct
  · simp [h32] at hct

theorem ps_srl : PairSound .n64 (.u32TryFromThen .checkedShr) (.srl) := by
  intro ty a b v ha hb hct
  simp only [ctMethod, ctEval, u32TryFrom] at hct
  simp only [vmExec]
  by_cases h32 : b < 2 ^ 32
  · simp only [h32, if_true] at hct ⊢
    simp only [evalU64, Ct.ofOption, checkedShr] at hct
    by_cases h64 : b < 64
    · simp only [h64, if_true] at hct ⊢
      simpa using hct
    · simp [h64] at hct
  · simp [h32] at hct

theorem ps_gt : PairSound .n64 (.gtOp) (.gt) := by
  intro ty a b v _ _ hct
  simp [ctMethod, ctEval] at hct; subst hct; rfl
theorem ps_lt : PairSound .n64 (.ltOp) (.lt) := by
  intro ty a b v _ _ hct
  simp [ctMethod, ctEval] at hct; subst hct; rfl

theorem ps_wadd : PairSound .wideWide (.big (.bitsLe .add 256)) (.wqop .add true) := by
  intro ty a b v ha hb hct
  simp only [ctMethod, ctEval, evalBody, bigOp, ctFilter, reduceCtorEq, false_and, if_false] at hct
  simp only [vmExec, wideOp, Cls.rhsWide, if_true]
  split at hct <;> simp at hct
  subst hct
  rename_i hbits
  have := (bits_le_256 (a + b)).1 (by simpa using hbits)
  simp [this]

theorem ps_wsub : PairSound .wideWide (.big .geThenSub) (.wqop .sub true) := by
  intro ty a b v ha hb hct
  simp only [ctMethod, ctEval, evalBody, bigOp] at hct
  simp only [vmExec, wideOp, Cls.rhsWide, if_true]
  by_cases hge : b ≤ a
  · simp only [ge_iff_le, hge, if_true] at hct ⊢
    simpa using hct
  · simp [hge] at hct

theorem ps_wmul : PairSound .wideWide (.big (.bitsLe .mul 256)) (.wqml true true) := by
  intro ty a b v ha hb hct
  simp only [ctMethod, ctEval, evalBody, bigOp, ctFilter, reduceCtorEq, false_and, if_false] at hct
  simp only [vmExec, Cls.rhsWide]
  split at hct <;> simp at hct
  subst hct
  rename_i hbits
  have := (bits_le_256 (a * b)).1 (by simpa using hbits)
  simp [this]

theorem ps_wdiv1 : PairSound .wideWide (.big (.nonZeroThen .div)) (.wqdv true) := by
  intro ty a b v ha hb hct
  simp only [ctMethod, ctEval, evalBody, bigOp] at hct
  simp only [vmExec, Cls.rhsWide]
  by_cases hb0 : b = 0
  · simp [hb0] at hct
  · simp only [hb0, if_false] at hct ⊢
    simpa using hct
theorem ps_wdiv2 : PairSound .wideWide (.big (.ifZeroNoneElse .div)) (.wqdv true) := by
  intro ty a b v ha hb hct
  simp only [ctMethod, ctEval, evalBody, bigOp] at hct
  simp only [vmExec, Cls.rhsWide]
  by_cases hb0 : b = 0
  · simp [hb0] at hct
  · simp only [hb0, if_false] at hct ⊢
    simpa using hct
theorem ps_wrem1 : PairSound .wideWide (.big (.nonZeroThen .rem)) (.wqam) := by
  intro ty a b v ha hb hct
  simp only [ctMethod, ctEval, evalBody, bigOp] at hct
  simp only [vmExec, Cls.rhsWide]
  by_cases hb0 : b = 0
  · simp [hb0] at hct
  · simp only [hb0, if_false] at hct ⊢
    simpa using hct
theorem ps_wrem2 : PairSound .wideWide (.big (.ifZeroNoneElse .rem)) (.wqam) := by
  intro ty a b v ha hb hct
  simp only [ctMethod, ctEval, evalBody, bigOp] at hct
  simp only [vmExec, Cls.rhsWide]
  by_cases hb0 : b = 0
  · simp [hb0] at hct
  · simp only [hb0, if_false] at hct ⊢
    simpa using hct
/-- `Some(arg1.rem(arg2))`: a folded value is right; the zero divisor is a crash, not a wrong value
(see `noCrashCheck`). -/
theorem ps_wrem3 : PairSound .wideWide (.big (.plain .rem)) (.wqam) := by
  intro ty a b v ha hb hct
  simp only [ctMethod, ctEval, evalBody, bigOp] at hct
  simp only [vmExec, Cls.rhsWide]
  by_cases hb0 : b = 0
  · simp [hb0] at hct
  · simp only [hb0, if_false] at hct ⊢
    simpa using hct

theorem ps_wand : PairSound .wideWide (.big (.plain .and)) (.wqop .and true) := by
  intro ty a b v _ _ hct
  simp [ctMethod, ctEval, evalBody, bigOp] at hct; subst hct; simp [vmExec, wideOp, Cls.rhsWide]
theorem ps_wor : PairSound .wideWide (.big (.plain .or)) (.wqop .or true) := by
  intro ty a b v _ _ hct
  simp [ctMethod, ctEval, evalBody, bigOp] at hct; subst hct; simp [vmExec, wideOp, Cls.rhsWide]
theorem ps_wxor : PairSound .wideWide (.big (.plain .xor)) (.wqop .xor true) := by
  intro ty a b v _ _ hct
  simp [ctMethod, ctEval, evalBody, bigOp] at hct; subst hct; simp [vmExec, wideOp, Cls.rhsWide]
theorem ps_wgt : PairSound .wideWide (.gtOp) (.wqcm .gt true) := by
  intro ty a b v _ _ hct
  simp [ctMethod, ctEval] at hct; subst hct; simp [vmExec, wideCmp, Cls.rhsWide]
theorem ps_wlt : PairSound .wideWide (.ltOp) (.wqcm .lt true) := by
  intro ty a b v _ _ hct
  simp [ctMethod, ctEval] at hct; subst hct; simp [vmExec, wideCmp, Cls.rhsWide]

theorem ps_wshr : PairSound .wideShift (.big (.plain .shr)) (.wqop .shr false) := by
  intro ty a b v ha hb hct
  have ha : a < 2 ^ 256 := ha
  simp [ctMethod, ctEval, evalBody, bigOp] at hct; subst hct
  simp only [vmExec, wideOp, Cls.rhsWide, if_true]
  by_cases h256 : b < 256
  · have : b < 2 ^ 32 := by omega
    simp [this, h256]
  · rw [shr_zero_of_ge a b ha (by omega)]
    split <;> simp [h256]

theorem shl_sound (a b : Nat) (hlt : a <<< b < p256) : vmExec (.wqop .shl false) false a b = .ok (a <<< b) := by
  simp only [vmExec, wideOp, if_true]
  by_cases h256 : b < 256
  · have : b < 2 ^ 32 := by omega
    simp only [this, h256, if_true]
    rw [Nat.mod_eq_of_lt hlt]
  · have ha0 : a = 0 := by
      apply Classical.byContradiction
      intro hne
      have := shl_ge_of_ge a b hne (by omega)
      omega
    subst ha0
    simp [h256]

/-- Any guard is functionally sound (it only declines more); see `shlBoundCheck` for what the guard is for. -/
theorem ps_wshl_guarded (g : Nat) : PairSound .wideShift (.big (.shlGuardedBitsLe g 256)) (.wqop .shl false) := by
  intro ty a b v ha hb hct
  simp only [ctMethod, ctEval, evalBody, bigOp, ctFilter] at hct
  split at hct
  · simp at hct
  · split at hct <;> simp at hct
    subst hct
    rename_i hbits
    exact shl_sound a b ((bits_le_256 _).1 (by simpa using hbits))

theorem ps_wshl_plain : PairSound .wideShift (.big (.bitsLe .shl 256)) (.wqop .shl false) := by
  intro ty a b v ha hb hct
  simp only [ctMethod, ctEval, evalBody, bigOp, ctFilter] at hct
  split at hct
  · simp at hct
  split at hct <;> simp at hct
  subst hct
  rename_i hbits
  exact shl_sound a b ((bits_le_256 _).1 (by simpa using hbits))

def pairs : List (Cls × Method × Instr) := [
  (.n64, .u64 .checkedAdd, .add), (.n64, .u64 .checkedSub, .sub), (.n64, .u64 .checkedMul, .mul),
  (.n64, .u64 .checkedDiv, .div), (.n64, .u64 .checkedRem, .mod),
  (.n64, .u64 .bitAnd, .and), (.n64, .u64 .bitOr, .or), (.n64, .u64 .bitXor, .xor),
  (.n64, .u32TryFromThen .checkedShl, .sll), (.n64, .u32TryFromThen .checkedShr, .srl),
  (.n64, .gtOp, .gt), (.n64, .ltOp, .lt),
  (.wideWide, .big (.bitsLe .add 256), .wqop .add true), (.wideWide, .big .geThenSub, .wqop .sub true),
  (.wideWide, .big (.bitsLe .mul 256), .wqml true true),
  (.wideWide, .big (.nonZeroThen .div), .wqdv true), (.wideWide, .big (.ifZeroNoneElse .div), .wqdv true),
  (.wideWide, .big (.nonZeroThen .rem), .wqam), (.wideWide, .big (.ifZeroNoneElse .rem), .wqam),
  (.wideWide, .big (.plain .rem), .wqam),
  (.wideWide, .big (.plain .and), .wqop .and true), (.wideWide, .big (.plain .or), .wqop .or true),
  (.wideWide, .big (.plain .xor), .wqop .xor true),
  (.wideWide, .gtOp, .wqcm .gt true), (.wideWide, .ltOp, .wqcm .lt true),
  (.wideShift, .big (.plain .shr), .wqop .shr false),
  (.wideShift, .big (.bitsLe .shl 256), .wqop .shl false)]

theorem pairs_sound : ∀ p ∈ pairs, PairSound p.1 p.2.1 p.2.2 := by
  intro p hp
  simp only [pairs, List.mem_cons, List.not_mem_nil, or_false] at hp
  rcases hp with h | h | h | h | h | h | h | h | h | h | h | h | h | h | h | h | h | h | h | h | h | h | h | h | h | h | h <;>
    subst h
  · exact ps_add
  · exact ps_sub
  · exact ps_mul
  · exact ps_div
  · exact ps_rem
  · exact ps_and
  · exact ps_or
  · exact ps_xor
  · exact ps_sll
  · exact ps_srl
  · exact ps_gt
  · exact ps_lt
  · exact ps_wadd
  · exact ps_wsub
  · exact ps_wmul
  · exact ps_wdiv1
  · exact ps_wdiv2
  · exact ps_wrem1
  · exact ps_wrem2
  · exact ps_wrem3
  · exact ps_wand
  · exact ps_wor
  · exact ps_wxor
  · exact ps_wgt
  · exact ps_wlt
  · exact ps_wshr
  · exact ps_wshl_plain

def guardedShl (cls : Cls) (m : Method) (i : Instr) : Bool :=
  match cls, m, i with
  | .wideShift, .big (.shlGuardedBitsLe _ 256), .wqop .shl false => true
  | _, _, _ => false

def pairOk (cls : Cls) (m : Method) (i : Instr) : Bool := pairs.contains (cls, m, i) || guardedShl cls m i

theorem pairOk_sound (cls : Cls) (m : Method) (i : Instr) (h : pairOk cls m i = true) : PairSound cls m i := by
  unfold pairOk at h
  rw [Bool.or_eq_true] at h
  cases h with
  | inl h => exact pairs_sound (cls, m, i) (List.contains_iff_mem.1 h)
  | inr h =>
    unfold guardedShl at h
    split at h <;> try contradiction
    exact ps_wshl_guarded _

/-! ## table-level checker -/

def Kind.isWideKind : Kind → Bool
  | .u256 | .b256 => true
  | _ => false

/-- Decidable check of one binary / comparison arm against the lowering table. -/
def armCheck (low : List Lower) (arm : Arm) : Bool :=
  if arm.method = .fallbackCrash then true   -- never yields a value
  else if arm.lkind = .any ∧ arm.rkind = .any then
    arm.method == .handleEq && arm.op == .eq
      && findLower low .eq false == some .eq && findLower low .eq true == some (.wqcm .eq true)
  else
    match clsOf arm.lkind arm.rkind, findLower low arm.op arm.lkind.isWideKind with
    | some cls, some i => pairOk cls arm.method i
    | _, _ => false

/-- The statement `armCheck` certifies: for all operand types the arm matches and all payloads in
range, a folded value is the VM's value. -/
def ArmSound (low : List Lower) (arm : Arm) : Prop :=
  ∀ (ty : Ty) (a b v : Nat), arm.lkind.matches ty = true → arm.rkind.matches (rhsTy arm.op ty) = true →
    a < ty.bound → b < (rhsTy arm.op ty).bound →
    ctEval arm ty a b = .fold v → rtEval low arm.op ty a b = .ok v

theorem isWide_of_cls (lk rk : Kind) (cls : Cls) (h : clsOf lk rk = some cls) : lk.isWideKind = (cls != .n64) := by
  cases lk <;> cases rk <;> simp [clsOf] at h <;> subst h <;> rfl

theorem armCheck_sound (low : List Lower) (arm : Arm) (h : armCheck low arm = true) : ArmSound low arm := by
  intro ty a b v hl hr ha hb hct
  unfold armCheck at h
  split at h
  · rename_i hm
    rw [ctEval_eq, hm] at hct
    simp [ctMethod, ctEval] at hct
  split at h
  · -- Equal on constant handles
    simp only [Bool.and_eq_true, beq_iff_eq] at h
    obtain ⟨⟨⟨hm, hop⟩, hn⟩, hw⟩ := h
    rw [ctEval_eq, hm] at hct
    simp [ctMethod, ctEval] at hct
    subst hct
    unfold rtEval
    rw [hop]
    cases hty : ty.isWide
    · rw [hn]
      simp [vmExec]
    · rw [hw]
      have : (rhsTy Op.eq ty).isWide = true := by simpa [rhsTy, Op.rhsIsWord] using hty
      simp [vmExec, this, wideCmp]
  · split at h
    · rename_i cls i hcls hlow
      obtain ⟨hlb, hrb, hrw, htw⟩ := cls_types arm.lkind arm.rkind cls arm.op ty hcls hl hr
      unfold rtEval
      rw [htw, ← isWide_of_cls _ _ cls hcls, hlow, hrw]
      exact pairOk_sound cls arm.method i h ty a b v (hlb ▸ ha) (hrb ▸ hb) (by rw [← ctEval_eq]; exact hct)
    · simp at h

/-! ## unary `not` -/

/-- Arms for `not`: compile-time result equals `ops.sw`'s run-time recipe (`NOT`, then `AND max` on
`u8/u16/u32`); on `u64`, `u256`, `b256` the recipe is the bare instruction. -/
def notCheck (low : List Lower) (arm : Arm) : Bool :=
  arm.op == .not &&
  match arm.lkind, arm.method with
  | _, .fallbackCrash => true
  | .uint, .notMaskWidth => findLower low .not false == some .not && findLower low .and false == some .and
  | .uint, .notCastWidth => findLower low .not false == some .not && findLower low .and false == some .and
  | .u256, .big .notBytes32 => findLower low .not true == some (.wqop .not false)
  | .b256, .big .notBytes32 => findLower low .not true == some (.wqop .not false)
  | _, _ => false

def NotSound (low : List Lower) (arm : Arm) : Prop :=
  ∀ (ty : Ty) (a v : Nat), arm.lkind.matches ty = true → a < ty.bound →
    ctEval arm ty a 0 = .fold v → rtNotStd low ty a = .ok v

theorem notCheck_sound (low : List Lower) (arm : Arm) (h : notCheck low arm = true) : NotSound low arm := by
  intro ty a v hl ha hct
  unfold notCheck at h
  simp only [Bool.and_eq_true, beq_iff_eq] at h
  obtain ⟨_, h⟩ := h
  rw [ctEval_eq] at hct
  split at h
  · rename_i hm
    rw [hm] at hct
    simp [ctMethod, ctEval] at hct
  · -- notMaskWidth
    rename_i hk hm
    simp only [Bool.and_eq_true, beq_iff_eq] at h
    rw [hm] at hct; rw [hk] at hl
    cases ty <;> simp [Kind.matches, Ty.kind] at hl <;>
      simp [ctMethod, ctEval, notWidthMax, Ty.uintWidth] at hct <;> subst hct <;>
      simp [rtNotStd, rtEval, Ty.isWide, h.1, h.2, vmExec, rhsTy, Ty.maxVal]
  · -- notCastWidth
    rename_i hk hm
    simp only [Bool.and_eq_true, beq_iff_eq] at h
    rw [hm] at hct; rw [hk] at hl
    cases ty <;> simp [Kind.matches, Ty.kind] at hl <;>
      simp [ctMethod, ctEval, notWidthMax, Ty.uintWidth] at hct <;> subst hct <;>
      simp only [rtNotStd, rtEval, Ty.isWide, h.1, h.2, vmExec, rhsTy, Ty.maxVal, Option.map, not64,
        Bool.false_eq_true, if_false] <;>
      simp only [Ty.bound] at ha
    · rw [and_mask]; congr 1; omega
    · rw [and_mask]; congr 1; omega
    · rw [and_mask]; congr 1; omega
    · rw [show (2 : Nat) ^ 64 - 1 = 2 ^ 64 - 1 from rfl, and_mask]; congr 1; omega
  · rename_i hk hm
    simp only [beq_iff_eq] at h
    rw [hm] at hct; rw [hk] at hl
    cases ty <;> simp [Kind.matches, Ty.kind] at hl
    simp [ctMethod, ctEval, evalBody] at hct; subst hct
    simp [rtNotStd, rtEval, Ty.isWide, h, vmExec, rhsTy, Op.rhsIsWord, wideOp]
  · rename_i hk hm
    simp only [beq_iff_eq] at h
    rw [hm] at hct; rw [hk] at hl
    cases ty <;> simp [Kind.matches, Ty.kind] at hl
    simp [ctMethod, ctEval, evalBody] at hct; subst hct
    simp [rtNotStd, rtEval, Ty.isWide, h, vmExec, rhsTy, Op.rhsIsWord, wideOp]
  · simp at h

/-! ## "useless binary op" rewrites -/

def simpCheck (low : List Lower) (s : Simp) : Bool :=
  match s.op, s.constOnLeft, s.c, s.resultIsLeft with
  | .add, true, 0, false => findLower low .add false == some .add
  | .add, false, 0, true => findLower low .add false == some .add
  | .mul, true, 1, false => findLower low .mul false == some .mul
  | .mul, false, 1, true => findLower low .mul false == some .mul
  | .div, false, 1, true => findLower low .div false == some .div
  | .sub, false, 0, true => findLower low .sub false == some .sub
  | .or, true, 0, false => findLower low .or false == some .or
  | .or, false, 0, true => findLower low .or false == some .or
  | .xor, true, 0, false => findLower low .xor false == some .xor
  | .xor, false, 0, true => findLower low .xor false == some .xor
  | .lsh, false, 0, true => findLower low .lsh false == some .sll
  | .rsh, false, 0, true => findLower low .rsh false == some .srl
  | _, _, _, _ => false

/-- The rewrite replaces the instruction by the value the VM would have computed (for every value
`x < 2^64` of the non-constant operand; these rewrites fire for `Uint` constants only). -/
def SimpSound (low : List Lower) (s : Simp) : Prop :=
  ∀ x : Nat, x < p64 → simpRt low s x = .ok (simpCt s x)

theorem simpCheck_sound (low : List Lower) (s : Simp) (h : simpCheck low s = true) : SimpSound low s := by
  intro x hx
  obtain ⟨op, l, c, r⟩ := s
  unfold simpCheck at h
  simp only at h
  split at h <;> try contradiction
  all_goals simp only [beq_iff_eq] at h
  all_goals simp only [simpRt, simpCt, rtEval, Ty.isWide, h, Option.map, vmExec, rhsTy, Op.rhsIsWord, captureOverflow, aluError,
      if_true, if_false, Bool.false_eq_true, reduceCtorEq]
  · rw [Nat.zero_add, if_neg (by omega)]
  · rw [Nat.add_zero, if_neg (by omega)]
  · rw [Nat.one_mul, if_neg (by omega)]
  · rw [Nat.mul_one, if_neg (by omega)]
  · simp
  · have e : (x + 2 ^ 128 - 0) % 2 ^ 128 = x := by omega
    rw [e, if_neg (by omega)]
  · simp
  · simp
  · simp
  · simp
  · have : x % 2 ^ 64 = x := Nat.mod_eq_of_lt hx
    simp [this]
  · simp

/-! ## `U256::checked_shl` is bounded -/

/-- Size in bits of the largest `BigUint` a left-shifting body materialises (0 when it returns before
shifting; `BigUint::shl` returns zero unchanged). Bodies that do not shift: 0. -/
def shlWork (m : Method) (a b : Nat) : Nat :=
  match m with
  | .big (.shlGuardedBitsLe g _) => if b ≥ g ∧ a ≠ 0 then 0 else (if a = 0 then 0 else bits a + b)
  | .big (.bitsLe .shl _) => if a = 0 then 0 else bits a + b
  | .big (.plain .shl) => if a = 0 then 0 else bits a + b
  | _ => 0

def shlBoundCheck (arm : Arm) : Bool :=
  match arm.method with
  | .big (.shlGuardedBitsLe g 256) => decide (g ≤ 256)
  | _ => false

theorem shlBoundCheck_sound (arm : Arm) (h : shlBoundCheck arm = true) (ty : Ty) (a b : Nat) (ha : a < p256) :
    shlWork arm.method a b ≤ 511 ∧ (a ≠ 0 → 256 ≤ b → ctEval arm ty a b = .decline) := by
  unfold shlBoundCheck at h
  split at h <;> try contradiction
  rename_i g hm
  simp at h
  have hbits : bits a ≤ 256 := (bits_le_256 a).2 ha
  constructor
  · rw [hm]; simp only [shlWork]
    split
    · omega
    · split
      · omega
      · rename_i h1 h2
        have : b < g := by
          apply Classical.byContradiction; intro hge; exact h1 ⟨by omega, h2⟩
        omega
  · intro hne hb
    rw [ctEval_eq, hm]
    simp only [ctMethod, ctEval, evalBody]
    rw [if_pos ⟨by omega, hne⟩]

/-! ## the compile-time evaluators do not crash -/

def BigOp.total : BigOp → Bool
  | .sub | .div | .rem => false
  | _ => true

def bodyCrashFree : U256Body → Bool
  | .bitsLe op _ => op.total
  | .geThenSub => true
  | .nonZeroThen op => op != .sub
  | .ifZeroNoneElse op => op != .sub
  | .plain op => op.total
  | .shlGuardedBitsLe _ _ => true
  | .notBytes32 => true
  | .unknown _ => false

def crashFreeCheck (arm : Arm) : Bool :=
  match arm.method with
  | .u64 _ => true
  | .u32TryFromThen _ => true
  | .big body => bodyCrashFree body
  | .notMaskWidth => true
  | .notCastWidth => arm.lkind == .uint
  | .handleEq => true
  | .gtOp => true
  | .ltOp => true
  | .fallbackCrash => false
  | .unknown _ => false

theorem evalU64_ne_crash (m : U64Method) (a b : Nat) : evalU64 m a b ≠ .crash := by
  cases m <;> simp only [evalU64, checkedAdd, checkedSub, checkedMul, checkedDiv, checkedRem, checkedShl, checkedShr] <;>
    (try split) <;> simp [Ct.ofOption]

theorem bigOp_total (op : BigOp) (h : op.total = true) (a b : Nat) : ∃ v, bigOp op a b = .fold v := by
  cases op <;> simp [BigOp.total] at h <;> exact ⟨_, rfl⟩

theorem ctFilter_ne_crash (r : Ct) (p : Nat → Bool) (h : r ≠ .crash) : ctFilter r p ≠ .crash := by
  cases r with
  | fold v => simp only [ctFilter]; split <;> simp
  | decline => simp [ctFilter]
  | crash => exact absurd rfl h

theorem bigOp_divrem_ne_crash (op : BigOp) (h : (op != .sub) = true) (a b : Nat) (hb : b ≠ 0) : bigOp op a b ≠ .crash := by
  cases op <;> simp at h <;> simp [bigOp, hb]

theorem evalBody_ne_crash (body : U256Body) (h : bodyCrashFree body = true) (a b : Nat) : evalBody body a b ≠ .crash := by
  cases body with
  | bitsLe op bound =>
    obtain ⟨v, hv⟩ := bigOp_total op h a b
    simp only [evalBody, hv]
    split
    · simp
    · exact ctFilter_ne_crash _ _ (by simp)
  | geThenSub =>
    simp only [evalBody, bigOp]
    by_cases hge : a ≥ b
    · have : b ≤ a := hge
      simp [hge, this]
    · simp [hge]
  | nonZeroThen op =>
    simp only [evalBody]
    by_cases hb : b = 0
    · simp [hb]
    · simp only [hb, if_false]; exact bigOp_divrem_ne_crash op h a b hb
  | ifZeroNoneElse op =>
    simp only [evalBody]
    by_cases hb : b = 0
    · simp [hb]
    · simp only [hb, if_false]; exact bigOp_divrem_ne_crash op h a b hb
  | plain op =>
    obtain ⟨v, hv⟩ := bigOp_total op h a b
    simp [evalBody, hv]
  | shlGuardedBitsLe g bound =>
    simp only [evalBody, bigOp]
    split
    · simp
    · exact ctFilter_ne_crash _ _ (by simp)
  | notBytes32 => simp [evalBody]
  | unknown t => simp [bodyCrashFree] at h

theorem crashFreeCheck_sound (arm : Arm) (h : crashFreeCheck arm = true) (ty : Ty) (a b : Nat)
    (hl : arm.lkind.matches ty = true) : ctEval arm ty a b ≠ .crash := by
  rw [ctEval_eq]
  unfold crashFreeCheck at h
  split at h
  · rename_i m hm; rw [hm]; exact evalU64_ne_crash m a b
  · rename_i m hm; rw [hm]
    simp only [ctMethod, ctEval]
    split
    · exact evalU64_ne_crash _ _ _
    · simp
  · rename_i body hm; rw [hm]; exact evalBody_ne_crash body h a b
  · rename_i hm; rw [hm]
    simp only [ctMethod, ctEval]
    split <;> simp
  · rename_i hm; rw [hm]
    simp only [beq_iff_eq] at h
    rw [h] at hl
    cases ty <;> simp [Kind.matches, Ty.kind] at hl <;> simp [ctMethod, ctEval, notWidthMax, Ty.uintWidth]
  · rename_i hm; rw [hm]; simp [ctMethod, ctEval]
  · rename_i hm; rw [hm]; simp [ctMethod, ctEval]
  · rename_i hm; rw [hm]; simp [ctMethod, ctEval]
  · simp at h
  · simp at h

/-- Lookup-level check: for this evaluator, operator and (well-typed) operand type, the first matching arm
cannot crash. -/
def lookupCrashFree (table : List Arm) (src : Src) (op : Op) (ty : Ty) : Bool :=
  !wellTyped op ty ||
  match findArm table src op ty (rhsTy op ty) with
  | some arm => crashFreeCheck arm
  | none => true

def allSrc : List Src := [.irFold, .constEval]
def allOp : List Op := [.add, .sub, .mul, .div, .mod, .and, .or, .xor, .lsh, .rsh, .not, .eq, .lt, .gt]
def allTy : List Ty := [.u8, .u16, .u32, .u64, .u256, .b256, .bool]

theorem mem_allSrc (s : Src) : s ∈ allSrc := by cases s <;> simp [allSrc]
theorem mem_allOp (o : Op) : o ∈ allOp := by cases o <;> simp [allOp]
theorem mem_allTy (t : Ty) : t ∈ allTy := by cases t <;> simp [allTy]

def tableCrashFree (table : List Arm) : Bool :=
  allSrc.all fun s => allOp.all fun o => allTy.all fun t => lookupCrashFree table s o t

theorem tableCrashFree_sound (table : List Arm) (h : tableCrashFree table = true) (src : Src) (op : Op) (ty : Ty)
    (hwt : wellTyped op ty = true) (a b : Nat) : ctFold table src op ty (rhsTy op ty) a b ≠ .crash := by
  unfold tableCrashFree at h
  have h1 := List.all_eq_true.1 h src (mem_allSrc src)
  have h2 := List.all_eq_true.1 h1 op (mem_allOp op)
  have h3 := List.all_eq_true.1 h2 ty (mem_allTy ty)
  unfold lookupCrashFree at h3
  simp only [hwt, Bool.not_true, Bool.false_or] at h3
  unfold ctFold
  split
  · rename_i arm hfind
    rw [hfind] at h3
    have hp := List.find?_some hfind
    simp only [Bool.and_eq_true, beq_iff_eq] at hp
    exact crashFreeCheck_sound arm h3 ty a b hp.1.2
  · simp

end SwayVerif.ConstFold
