import SwayVerif.Lemmas.AsmLive
/-!
Lemmas about the interference graph, coalescing, register assignment and spill slots of
`SwayVerif.Asm`.
-/
namespace SwayVerif.Asm

/-! ### edges -/

theorem mem_addEdge {g : Graph} {a b : Reg} {e : Reg × Reg} :
    e ∈ addEdge g a b ↔ e ∈ g ∨ e = (a, b) := by
  unfold addEdge
  split
  · constructor
    · exact Or.inl
    · rintro (h | h)
      · exact h
      · subst h; assumption
  · simp

/-- membership in a fold that only ever adds the edges described by `P` -/
theorem mem_foldl_edges {α : Type} (f : Graph → α → Graph) (P : α → Reg × Reg → Prop)
    (hf : ∀ g a e, e ∈ f g a ↔ e ∈ g ∨ P a e) (l : List α) (g : Graph) (e : Reg × Reg) :
    e ∈ l.foldl f g ↔ e ∈ g ∨ ∃ a ∈ l, P a e := by
  induction l generalizing g with
  | nil => simp
  | cons a l ih =>
    simp only [List.foldl_cons, ih, hf, List.mem_cons, exists_eq_or_imp]
    constructor
    · rintro ((h | h) | h)
      · exact Or.inl h
      · exact Or.inr (Or.inl h)
      · exact Or.inr (Or.inr h)
    · rintro (h | h | h)
      · exact Or.inl (Or.inl h)
      · exact Or.inl (Or.inr h)
      · exact Or.inr h

theorem mem_addEdgesFrom {v : Reg} {ok : Reg → Bool} {g : Graph} {lo : RSet} {e : Reg × Reg} :
    e ∈ addEdgesFrom v ok g lo ↔
      e ∈ g ∨ ∃ b ∈ lo, (b.isVirt = true ∧ ok b = true) ∧ e = (v, b) := by
  unfold addEdgesFrom
  refine mem_foldl_edges _ (fun b e => (b.isVirt = true ∧ ok b = true) ∧ e = (v, b)) ?_ lo g e
  intro g b e
  by_cases h : (b.isVirt && ok b) = true
  · simp only [h, if_true, mem_addEdge]
    simp only [Bool.and_eq_true] at h
    simp [h]
  · simp only [h]
    simp only [Bool.and_eq_true] at h
    simp [h]

theorem mem_interfAt {g : Graph} {op : AOp} {lo : RSet} {e : Reg × Reg} :
    e ∈ interfAt g op lo ↔ e ∈ g ∨
      (∃ v ∈ op.defs, v.isVirt = true ∧ ∃ b ∈ lo, b.isVirt = true ∧ b ≠ v ∧
        (∀ c, moveOf? op = some (v, c) → b ≠ c) ∧ e = (v, b)) := by
  unfold interfAt
  cases hm : moveOf? op with
  | some vc =>
    obtain ⟨v, c⟩ := vc
    have hshape : op.defs = [v] := by
      unfold moveOf? at hm
      split at hm
      · rename_i hd _; simp only [Option.some.injEq, Prod.mk.injEq] at hm; rw [hd, hm.1]
      · cases hm
    simp only [hshape, List.mem_singleton, exists_eq_left]
    by_cases hv : v.isVirt = true
    · simp only [hv, if_true, mem_addEdgesFrom, true_and]
      constructor
      · rintro (h | ⟨b, hb, ⟨hbv, hok⟩, rfl⟩)
        · exact Or.inl h
        · simp only [Bool.and_eq_true, bne_iff_ne, ne_eq] at hok
          refine Or.inr ⟨b, hb, hbv, hok.2, ?_, rfl⟩
          intro c' hc'
          simp only [Option.some.injEq, Prod.mk.injEq, true_and] at hc'
          rw [← hc']; exact hok.1
      · rintro (h | ⟨b, hb, hbv, hne, hc, rfl⟩)
        · exact Or.inl h
        · refine Or.inr ⟨b, hb, ⟨hbv, ?_⟩, rfl⟩
          simp only [Bool.and_eq_true, bne_iff_ne, ne_eq]
          exact ⟨hc c rfl, hne⟩
    · simp only [hv, Bool.false_eq_true, if_false, false_and, or_false]
  | none =>
    simp only [reduceCtorEq, false_implies, implies_true, true_and]
    rw [mem_foldl_edges (fun g v => if v.isVirt then addEdgesFrom v (fun b => b != v) g lo else g)
      (fun v e => v.isVirt = true ∧ ∃ b ∈ lo, b.isVirt = true ∧ b ≠ v ∧ e = (v, b))]
    intro g v e
    by_cases hv : v.isVirt = true
    · simp only [hv, if_true, mem_addEdgesFrom, true_and, bne_iff_ne, ne_eq, and_assoc]
    · simp only [hv, Bool.false_eq_true, if_false, false_and, or_false]

theorem interferenceFrom_mono {g : Graph} {xs : List (AOp × RSet)} {e : Reg × Reg} (h : e ∈ g) :
    e ∈ interferenceFrom g xs := by
  induction xs generalizing g with
  | nil => exact h
  | cons x xs ih => exact ih (mem_interfAt.2 (Or.inl h))

/-- every edge of the graph joins two different virtual registers -/
def GraphOk (g : Graph) : Prop := ∀ a b, (a, b) ∈ g → a ≠ b ∧ a.isVirt = true ∧ b.isVirt = true

theorem interferenceFrom_ok {g : Graph} {xs : List (AOp × RSet)} (h : GraphOk g) :
    GraphOk (interferenceFrom g xs) := by
  induction xs generalizing g with
  | nil => exact h
  | cons x xs ih =>
    apply ih
    intro a b hab
    rcases mem_interfAt.1 hab with h' | ⟨v, _, hv, b', _, hb', hne, _, he⟩
    · exact h a b h'
    · simp only [Prod.mk.injEq] at he
      obtain ⟨rfl, rfl⟩ := he
      exact ⟨fun h => hne h.symm, hv, hb'⟩

/-- Directed form of completeness at one op: a def and a different live-out register are joined,
except for the two ends of the MOVE itself. -/
def OpInterfD (g : Graph) (op : AOp) (lo : RSet) : Prop :=
  ∀ v ∈ op.defs, v.isVirt = true → ∀ w ∈ lo, w.isVirt = true → w ≠ v →
    moveOf? op ≠ some (v, w) → (v, w) ∈ g

theorem interferenceFrom_complete {g : Graph} {xs : List (AOp × RSet)} :
    ∀ x ∈ xs, OpInterfD (interferenceFrom g xs) x.1 x.2 := by
  induction xs generalizing g with
  | nil => simp
  | cons y xs ih =>
    intro x hx
    rcases List.mem_cons.1 hx with rfl | hx
    · intro v hv hvv w hw hwv hne hmv
      show (v, w) ∈ interferenceFrom (interfAt g x.1 x.2) xs
      refine interferenceFrom_mono (mem_interfAt.2 (Or.inr ⟨v, hv, hvv, w, hw, hwv, hne, ?_, rfl⟩))
      intro c hc hwc
      exact hmv (by rw [hc, hwc])
    · exact ih x hx

/-! ### undirected adjacency -/

theorem adj_iff {g : Graph} {a b : Reg} : adj g a b = true ↔ (a, b) ∈ g ∨ (b, a) ∈ g := by
  simp [adj]

theorem adj_comm {g : Graph} {a b : Reg} : adj g a b = adj g b a := by
  simp only [adj, Bool.or_comm]

theorem mem_nbrs {g : Graph} {n m : Reg} : m ∈ nbrs g n ↔ adj g n m = true := by
  simp only [nbrs, List.mem_append, List.mem_map, List.mem_filter, beq_iff_eq, adj_iff]
  constructor
  · rintro (⟨⟨a, b⟩, ⟨h, rfl⟩, rfl⟩ | ⟨⟨a, b⟩, ⟨h, rfl⟩, rfl⟩)
    · exact Or.inl h
    · exact Or.inr h
  · rintro (h | h)
    · exact Or.inl ⟨(n, m), ⟨h, rfl⟩, rfl⟩
    · exact Or.inr ⟨(m, n), ⟨h, rfl⟩, rfl⟩

theorem mem_dedup {l : List Reg} {x : Reg} : x ∈ dedup l ↔ x ∈ l := by
  simp [dedup, mem_foldl_ins]

/-- Undirected completeness at one op. -/
def OpInterf (g : Graph) (op : AOp) (lo : RSet) : Prop :=
  ∀ v ∈ op.defs, v.isVirt = true → ∀ w ∈ lo, w.isVirt = true → w ≠ v →
    moveOf? op ≠ some (v, w) → adj g v w = true

/-- The graph is complete for a list of ops with their live-out sets. -/
def InterfComplete (xs : List (AOp × RSet)) (g : Graph) : Prop := ∀ x ∈ xs, OpInterf g x.1 x.2

/-! ### coalescing -/

theorem lookup_map_snd (m : RegMap) (f : Reg → Reg) (x : Reg) :
    (m.map fun e => (e.1, f e.2)).lookup x = (m.lookup x).map f := by
  induction m with
  | nil => rfl
  | cons e m ih =>
    obtain ⟨k, v⟩ := e
    simp only [List.map_cons, List.lookup_cons]
    cases x == k <;> simp [ih]

theorem rep_mergeMap {m : RegMap} {r1 r2 : Reg} (hroot : rep m r1 = r1) (x : Reg) :
    rep (mergeMap m r1 r2) x = if rep m x = r1 then r2 else rep m x := by
  unfold rep mergeMap
  simp only [List.lookup_cons]
  by_cases hx : x = r1
  · subst hx
    simp only [beq_self_eq_true, Option.getD_some]
    unfold rep at hroot
    simp [hroot]
  · have : (x == r1) = false := by simpa using hx
    have key : (m.map fun e => (e.1, if e.2 = r1 then r2 else e.2)).lookup x
        = (m.lookup x).map (fun v => if v = r1 then r2 else v) := lookup_map_snd m (fun v => if v = r1 then r2 else v) x
    simp only [this]
    rw [key]
    cases hl : m.lookup x with
    | none => simp [hx]
    | some v => simp

/-- Invariant of the coalescing loop w.r.t. the graph `G0` it started from. -/
structure CoInv (G0 : Graph) (st : CoState) : Prop where
  edges : ∀ a b, (a, b) ∈ G0 →
    rep st.map a ≠ rep st.map b ∧ adj st.graph (rep st.map a) (rep st.map b) = true
  idem : ∀ x, rep st.map (rep st.map x) = rep st.map x
  virt : ∀ x, (rep st.map x).isVirt = x.isVirt

theorem mergeFold_mono {r2 : Reg} {l : List Reg} {g : Graph} {e : Reg × Reg} (h : e ∈ g) :
    e ∈ l.foldl (fun g n => if (r2, n) ∈ g then g else addEdge g n r2) g := by
  induction l generalizing g with
  | nil => exact h
  | cons n l ih =>
    apply ih
    show e ∈ (if (r2, n) ∈ g then g else addEdge g n r2)
    split
    · exact h
    · exact mem_addEdge.2 (Or.inl h)

theorem mergeFold_adj {r2 : Reg} {l : List Reg} {g : Graph} :
    ∀ n ∈ l, adj (l.foldl (fun g n => if (r2, n) ∈ g then g else addEdge g n r2) g) r2 n = true := by
  induction l generalizing g with
  | nil => simp
  | cons m l ih =>
    intro n hn
    rcases List.mem_cons.1 hn with rfl | hn
    · simp only [List.foldl_cons]
      apply adj_iff.2
      split
      · exact Or.inl (mergeFold_mono (by assumption))
      · exact Or.inr (mergeFold_mono (mem_addEdge.2 (Or.inr rfl)))
    · exact ih n hn

theorem mem_mergeGraph_of_mem {g : Graph} {r1 r2 : Reg} {e : Reg × Reg} (h : e ∈ g)
    (h1 : e.1 ≠ r1) (h2 : e.2 ≠ r1) : e ∈ mergeGraph g r1 r2 := by
  unfold mergeGraph
  refine List.mem_filter.2 ⟨mergeFold_mono h, ?_⟩
  simp [h1, h2]

theorem adj_mergeGraph_of_adj {g : Graph} {r1 r2 a b : Reg} (h : adj g a b = true)
    (ha : a ≠ r1) (hb : b ≠ r1) : adj (mergeGraph g r1 r2) a b = true := by
  rcases adj_iff.1 h with h | h
  · exact adj_iff.2 (Or.inl (mem_mergeGraph_of_mem h ha hb))
  · exact adj_iff.2 (Or.inr (mem_mergeGraph_of_mem h hb ha))

theorem adj_mergeGraph_new {g : Graph} {r1 r2 n : Reg} (h : adj g r1 n = true)
    (hn : n ≠ r1) (h2 : r2 ≠ r1) : adj (mergeGraph g r1 r2) r2 n = true := by
  have hmem : n ∈ dedup (nbrs g r1) := mem_dedup.2 (mem_nbrs.2 h)
  have := mergeFold_adj (r2 := r2) (g := g) n hmem
  unfold mergeGraph
  rcases adj_iff.1 this with h' | h'
  · refine adj_iff.2 (Or.inl (List.mem_filter.2 ⟨h', ?_⟩)); simp [h2, hn]
  · refine adj_iff.2 (Or.inr (List.mem_filter.2 ⟨h', ?_⟩)); simp [h2, hn]

theorem coInv_merge {G0 : Graph} {st : CoState} (inv : CoInv G0 st) {x y : Reg}
    (hx : x.isVirt = true) (hy : y.isVirt = true)
    (hne : rep st.map x ≠ rep st.map y)
    (hadj : adj st.graph (rep st.map x) (rep st.map y) = false) :
    CoInv G0 { graph := mergeGraph st.graph (rep st.map x) (rep st.map y),
               map := mergeMap st.map (rep st.map x) (rep st.map y), kept := st.kept } := by
  have hroot := inv.idem x
  have h21 : rep st.map y ≠ rep st.map x := fun h => hne h.symm
  refine ⟨fun a b hab => ?_, fun z => ?_, fun z => ?_⟩
  · obtain ⟨hd, ha⟩ := inv.edges a b hab
    simp only [rep_mergeMap hroot]
    by_cases h1 : rep st.map a = rep st.map x
    · have hb1 : rep st.map b ≠ rep st.map x := fun h => hd (h1.trans h.symm)
      have hb2 : rep st.map b ≠ rep st.map y := by
        intro h; rw [h1, h] at ha; rw [ha] at hadj; cases hadj
      simp only [h1, if_true, hb1, if_false]
      refine ⟨fun h => hb2 h.symm, ?_⟩
      rw [h1] at ha
      exact adj_mergeGraph_new ha hb1 h21
    · by_cases h2 : rep st.map b = rep st.map x
      · have ha2 : rep st.map a ≠ rep st.map y := by
          intro h; rw [h2, h, adj_comm] at ha; rw [ha] at hadj; cases hadj
        simp only [h1, if_false, h2, if_true]
        refine ⟨ha2, ?_⟩
        rw [h2, adj_comm] at ha
        rw [adj_comm]
        exact adj_mergeGraph_new ha h1 h21
      · simp only [h1, if_false, h2]
        exact ⟨hd, adj_mergeGraph_of_adj ha h1 h2⟩
  · simp only [rep_mergeMap hroot]
    by_cases h1 : rep st.map z = rep st.map x
    · simp only [h1, if_true, inv.idem y, h21, if_false]
    · simp only [h1, if_false, inv.idem z]
  · simp only [rep_mergeMap hroot]
    by_cases h1 : rep st.map z = rep st.map x
    · simp only [h1, if_true]
      rw [inv.virt y, hy, ← inv.virt z, h1, inv.virt x, hx]
    · simp only [h1, if_false, inv.virt z]

theorem coInv_step {safe} {G0 : Graph} {st : CoState} (inv : CoInv G0 st) (x : AOp × RSet) :
    CoInv G0 (coalesceStep safe st x) := by
  unfold coalesceStep
  split
  · rename_i a b _
    dsimp only
    split
    · exact inv
    · split
      · exact ⟨inv.edges, inv.idem, inv.virt⟩
      · rename_i hne hcond
        simp only [Bool.or_eq_true, Bool.not_eq_true', not_or, Bool.not_eq_true,
          Bool.not_eq_false] at hcond
        exact coInv_merge inv rfl rfl hne hcond.1
  · exact ⟨inv.edges, inv.idem, inv.virt⟩

theorem coInv_foldl {safe} {G0 : Graph} (xs : List (AOp × RSet)) {st : CoState}
    (inv : CoInv G0 st) : CoInv G0 (xs.foldl (coalesceStep safe) st) := by
  induction xs generalizing st with
  | nil => exact inv
  | cons x xs ih => exact ih (coInv_step inv x)

theorem coInv_init {G0 : Graph} (hok : GraphOk G0) :
    CoInv G0 { graph := G0, map := [], kept := [] } := by
  refine ⟨fun a b hab => ?_, fun x => rfl, fun x => rfl⟩
  exact ⟨(hok a b hab).1, adj_iff.2 (Or.inl hab)⟩

theorem kept_step_subset {safe} {st : CoState} {x y : AOp × RSet}
    (h : y ∈ (coalesceStep safe st x).kept) : y ∈ st.kept ∨ y = x := by
  unfold coalesceStep at h
  split at h
  · dsimp only at h
    split at h
    · exact Or.inl h
    · split at h
      · rcases List.mem_cons.1 h with h | h
        · exact Or.inr h
        · exact Or.inl h
      · exact Or.inl h
  · rcases List.mem_cons.1 h with h | h
    · exact Or.inr h
    · exact Or.inl h

theorem kept_foldl_subset {safe} (xs : List (AOp × RSet)) {st : CoState} {y : AOp × RSet}
    (h : y ∈ (xs.foldl (coalesceStep safe) st).kept) : y ∈ st.kept ∨ y ∈ xs := by
  induction xs generalizing st with
  | nil => exact Or.inl h
  | cons x xs ih =>
    rcases ih h with h | h
    · rcases kept_step_subset h with h | h
      · exact Or.inl h
      · exact Or.inr (by rw [h]; exact List.mem_cons_self ..)
    · exact Or.inr (List.mem_cons_of_mem _ h)

theorem mem_renameRegs {m : RegMap} {l : List Reg} {x : Reg} :
    x ∈ renameRegs m l ↔ ∃ y ∈ l, rep m y = x := by
  simp [renameRegs, mem_dedup]

theorem moveOf?_rename {m : RegMap} {op : AOp} {v w : Reg} (h : moveOf? op = some (v, w)) :
    moveOf? (renameOp m op) = some (rep m v, rep m w) := by
  unfold moveOf? at h
  split at h
  · rename_i hk hd hu
    simp only [Option.some.injEq, Prod.mk.injEq] at h
    obtain ⟨rfl, rfl⟩ := h
    simp [moveOf?, renameOp, renameRegs, dedup, ins, hk, hd, hu]
  · cases h

/-- Completeness is inherited by a renamed op when the renaming keeps the ends of all
original edges apart and adjacent. -/
theorem opInterf_rename {G0 g : Graph} {m : RegMap} {op : AOp} {lo : RSet}
    (hedges : ∀ a b, (a, b) ∈ G0 → rep m a ≠ rep m b ∧ adj g (rep m a) (rep m b) = true)
    (hvirt : ∀ x, (rep m x).isVirt = x.isVirt)
    (h : OpInterf G0 op lo) : OpInterf g (renameOp m op) (renameRegs m lo) := by
  intro v' hv' hvv' w' hw' hwv' hne hmv
  obtain ⟨v, hv, rfl⟩ := mem_renameRegs.1 hv'
  obtain ⟨w, hw, rfl⟩ := mem_renameRegs.1 hw'
  rw [hvirt] at hvv' hwv'
  have hne' : w ≠ v := fun e => hne (by rw [e])
  have hmv' : moveOf? op ≠ some (v, w) := fun e => hmv (moveOf?_rename e)
  rcases adj_iff.1 (h v hv hvv' w hw hwv' hne' hmv') with e | e
  · exact (hedges _ _ e).2
  · rw [adj_comm]; exact (hedges _ _ e).2

/-! ### assignment -/

/-- users of one pool register are pairwise non-adjacent -/
def PoolInv (g : Graph) (pool : Pool) : Prop :=
  ∀ u ∈ pool, ∀ a ∈ u, ∀ b ∈ u, a ≠ b → adj g a b = false

theorem firstFree_some {g : Graph} {n : Reg} {p : Pool} {j k : Nat}
    (h : firstFree g n p j = some k) : j ≤ k ∧ ∃ u, p[k - j]? = some u ∧ freeFor g n u = true := by
  induction p generalizing j with
  | nil => simp [firstFree] at h
  | cons u p ih =>
    simp only [firstFree] at h
    split at h
    · simp only [Option.some.injEq] at h
      subst h
      exact ⟨Nat.le_refl _, u, by simp, by assumption⟩
    · obtain ⟨hle, u', hu', hf⟩ := ih h
      refine ⟨by omega, u', ?_, hf⟩
      have : k - j = (k - (j + 1)) + 1 := by omega
      rw [this]; simpa using hu'

theorem mem_addAt {p : Pool} {k : Nat} {r : Reg} {u' : RSet} (h : u' ∈ addAt p k r) :
    u' ∈ p ∨ ∃ u, p[k]? = some u ∧ u' = ins u r := by
  induction p generalizing k with
  | nil => simp [addAt] at h
  | cons u p ih =>
    cases k with
    | zero =>
      simp only [addAt, List.mem_cons] at h
      rcases h with h | h
      · exact Or.inr ⟨u, by simp, h⟩
      · exact Or.inl (List.mem_cons_of_mem _ h)
    | succ k =>
      simp only [addAt, List.mem_cons] at h
      rcases h with h | h
      · exact Or.inl (by rw [h]; exact List.mem_cons_self ..)
      · rcases ih h with h | ⟨u0, h0, h1⟩
        · exact Or.inl (List.mem_cons_of_mem _ h)
        · exact Or.inr ⟨u0, by simpa using h0, h1⟩

theorem freeFor_iff {g : Graph} {n : Reg} {u : RSet} :
    freeFor g n u = true ↔ ∀ b ∈ u, adj g n b = false := by
  simp only [freeFor, List.all_eq_true, Bool.not_eq_true', decide_eq_false_iff_not, mem_nbrs]
  constructor
  · intro h b hb
    cases hab : adj g n b
    · rfl
    · exact absurd hb (h b hab)
  · intro h m hm hmu
    rw [h m hmu] at hm; cases hm

theorem poolInv_step {g : Graph} {pool pool' : Pool} {n : Reg} (inv : PoolInv g pool)
    (h : assignStep g pool n = some pool') : PoolInv g pool' := by
  unfold assignStep at h
  split at h
  · split at h
    · rename_i k hk
      simp only [Option.some.injEq] at h
      subst h
      obtain ⟨_, u, hu, hfree⟩ := firstFree_some hk
      simp only [Nat.sub_zero] at hu
      intro u' hu' a ha b hb hab
      rcases mem_addAt hu' with h | ⟨u0, h0, rfl⟩
      · exact inv u' h a ha b hb hab
      · rw [hu] at h0
        simp only [Option.some.injEq] at h0
        subst h0
        have hmem : u ∈ pool := List.mem_of_getElem? hu
        have hf := freeFor_iff.1 hfree
        rcases mem_ins.1 ha with ha' | ha' <;> rcases mem_ins.1 hb with hb' | hb'
        · exact inv u hmem a ha' b hb' hab
        · rw [hb', adj_comm]; exact hf a ha'
        · rw [ha']; exact hf b hb'
        · exact absurd (ha'.trans hb'.symm) hab
    · cases h
  · simp only [Option.some.injEq] at h
    subst h; exact inv

theorem poolInv_assignFrom {g : Graph} {ns : List Reg} {pool pool' : Pool} (inv : PoolInv g pool)
    (h : assignFrom g pool ns = some pool') : PoolInv g pool' := by
  induction ns generalizing pool with
  | nil => simp only [assignFrom, Option.some.injEq] at h; subst h; exact inv
  | cons n ns ih =>
    simp only [assignFrom] at h
    split at h
    · rename_i p hp
      exact ih (poolInv_step inv hp) h
    · cases h

theorem poolInv_replicate {g : Graph} {K : Nat} : PoolInv g (List.replicate K []) := by
  intro u hu a ha
  rw [(List.mem_replicate.1 hu).2] at ha
  cases ha

theorem colourFrom_some {r : Reg} {p : Pool} {j k : Nat} (h : colourFrom r p j = some k) :
    j ≤ k ∧ ∃ u, p[k - j]? = some u ∧ r ∈ u := by
  induction p generalizing j with
  | nil => simp [colourFrom] at h
  | cons u p ih =>
    simp only [colourFrom] at h
    split at h
    · simp only [Option.some.injEq] at h
      subst h
      exact ⟨Nat.le_refl _, u, by simp, by assumption⟩
    · obtain ⟨hle, u', hu', hf⟩ := ih h
      refine ⟨by omega, u', ?_, hf⟩
      have : k - j = (k - (j + 1)) + 1 := by omega
      rw [this]; simpa using hu'

theorem colourFrom_isSome {r : Reg} {p : Pool} {j : Nat} (h : ∃ u ∈ p, r ∈ u) :
    ∃ k, colourFrom r p j = some k ∧ k < j + p.length := by
  induction p generalizing j with
  | nil => obtain ⟨u, hu, _⟩ := h; cases hu
  | cons u p ih =>
    simp only [colourFrom]
    split
    · exact ⟨j, rfl, by simp⟩
    · rename_i hr
      obtain ⟨u', hu', hru'⟩ := h
      rcases List.mem_cons.1 hu' with rfl | hu'
      · exact absurd hru' hr
      · obtain ⟨k, hk, hlt⟩ := ih (j := j + 1) ⟨u', hu', hru'⟩
        exact ⟨k, hk, by simp only [List.length_cons]; omega⟩

/-- registers that have a pool register -/
def Covered (pool : Pool) (r : Reg) : Prop := ∃ u ∈ pool, r ∈ u

theorem addAt_length {p : Pool} {k : Nat} {r : Reg} : (addAt p k r).length = p.length := by
  induction p generalizing k with
  | nil => rfl
  | cons u p ih => cases k <;> simp [addAt, ih]

theorem covered_addAt_mono {p : Pool} {k : Nat} {r x : Reg} (h : Covered p x) :
    Covered (addAt p k r) x := by
  induction p generalizing k with
  | nil => obtain ⟨u, hu, _⟩ := h; cases hu
  | cons u p ih =>
    obtain ⟨u', hu', hx⟩ := h
    cases k with
    | zero =>
      rcases List.mem_cons.1 hu' with rfl | hu'
      · exact ⟨ins u' r, by simp [addAt], mem_ins.2 (Or.inl hx)⟩
      · exact ⟨u', by simp [addAt, hu'], hx⟩
    | succ k =>
      rcases List.mem_cons.1 hu' with rfl | hu'
      · exact ⟨u', by simp [addAt], hx⟩
      · obtain ⟨u'', hu'', hx''⟩ := ih (k := k) ⟨u', hu', hx⟩
        exact ⟨u'', by simp [addAt, hu''], hx''⟩

theorem covered_addAt_self {p : Pool} {k : Nat} {r : Reg} (hk : k < p.length) :
    Covered (addAt p k r) r := by
  induction p generalizing k with
  | nil => cases hk
  | cons u p ih =>
    cases k with
    | zero => exact ⟨ins u r, by simp [addAt], mem_ins.2 (Or.inr rfl)⟩
    | succ k =>
      obtain ⟨u', hu', hx⟩ := ih (k := k) (by simpa using hk)
      exact ⟨u', by simp [addAt, hu'], hx⟩

theorem assignStep_spec {g : Graph} {pool pool' : Pool} {n : Reg}
    (h : assignStep g pool n = some pool') :
    pool'.length = pool.length ∧ (∀ x, Covered pool x → Covered pool' x) ∧
      (n.isVirt = true → Covered pool' n) := by
  unfold assignStep at h
  split at h
  · split at h
    · rename_i k hk
      simp only [Option.some.injEq] at h
      subst h
      obtain ⟨_, u, hu, _⟩ := firstFree_some hk
      simp only [Nat.sub_zero] at hu
      have hlt : k < pool.length := by
        rcases Nat.lt_or_ge k pool.length with h | h
        · exact h
        · rw [List.getElem?_eq_none h] at hu; cases hu
      exact ⟨addAt_length, fun x hx => covered_addAt_mono hx, fun _ => covered_addAt_self hlt⟩
    · cases h
  · rename_i hv
    simp only [Option.some.injEq] at h
    subst h
    exact ⟨rfl, fun x hx => hx, fun h => absurd h hv⟩

theorem assignFrom_spec {g : Graph} {ns : List Reg} {pool pool' : Pool}
    (h : assignFrom g pool ns = some pool') :
    pool'.length = pool.length ∧ (∀ x, Covered pool x → Covered pool' x) ∧
      (∀ n ∈ ns, n.isVirt = true → Covered pool' n) := by
  induction ns generalizing pool with
  | nil =>
    simp only [assignFrom, Option.some.injEq] at h
    subst h
    exact ⟨rfl, fun x hx => hx, by simp⟩
  | cons n ns ih =>
    simp only [assignFrom] at h
    split at h
    · rename_i p hp
      obtain ⟨l1, m1, c1⟩ := assignStep_spec hp
      obtain ⟨l2, m2, c2⟩ := ih h
      refine ⟨l2.trans l1, fun x hx => m2 x (m1 x hx), fun x hx hv => ?_⟩
      rcases List.mem_cons.1 hx with rfl | hx
      · exact m2 _ (c1 hv)
      · exact c2 x hx hv
    · cases h

/-! ### spill slots -/

theorem mem_offsetsFrom {locals : Nat} {l : List Reg} {i : Nat} {r : Reg} {o : Nat} :
    (r, o) ∈ offsetsFrom locals l i ↔ ∃ j, l[j]? = some r ∧ o = (i + j) * 8 + locals := by
  induction l generalizing i with
  | nil => simp [offsetsFrom]
  | cons a l ih =>
    simp only [offsetsFrom, List.mem_cons, Prod.mk.injEq, ih]
    constructor
    · rintro (⟨rfl, rfl⟩ | ⟨j, hj, rfl⟩)
      · exact ⟨0, by simp, by simp⟩
      · exact ⟨j + 1, by simpa using hj, by omega⟩
    · rintro ⟨j, hj, rfl⟩
      cases j with
      | zero => left; simp at hj; exact ⟨hj.symm, by simp⟩
      | succ j => right; exact ⟨j, by simpa using hj, by omega⟩

theorem mem_insertSorted {r x : Reg} {l : List Reg} : x ∈ insertSorted r l ↔ x = r ∨ x ∈ l := by
  induction l with
  | nil => simp [insertSorted]
  | cons a l ih =>
    simp only [insertSorted]
    split
    · simp
    · simp only [List.mem_cons, ih]
      constructor
      · rintro (h | h | h)
        · exact Or.inr (Or.inl h)
        · exact Or.inl h
        · exact Or.inr (Or.inr h)
      · rintro (h | h | h)
        · exact Or.inr (Or.inl h)
        · exact Or.inl h
        · exact Or.inr (Or.inr h)

theorem nodup_insertSorted {r : Reg} {l : List Reg} (hr : r ∉ l) (h : l.Nodup) :
    (insertSorted r l).Nodup := by
  induction l with
  | nil => simp [insertSorted]
  | cons a l ih =>
    simp only [insertSorted]
    split
    · exact List.nodup_cons.2 ⟨hr, h⟩
    · have ha := List.nodup_cons.1 h
      refine List.nodup_cons.2 ⟨?_, ih (fun h' => hr (List.mem_cons_of_mem _ h')) ha.2⟩
      intro h'
      rcases mem_insertSorted.1 h' with h' | h'
      · exact hr (by rw [h']; exact List.mem_cons_self ..)
      · exact ha.1 h'

theorem nodup_foldl_ins {l : List Reg} {s : RSet} (h : s.Nodup) : (l.foldl ins s).Nodup := by
  induction l generalizing s with
  | nil => exact h
  | cons a l ih =>
    apply ih
    unfold ins
    split
    · exact h
    · rename_i ha
      exact List.nodup_append.2 ⟨h, by simp, by
        intro x hx y hy
        simp only [List.mem_singleton] at hy
        subst hy
        exact fun e => ha (e ▸ hx)⟩

theorem nodup_getElem?_inj {α : Type} {l : List α} (h : l.Nodup) {i j : Nat} {a : α}
    (hi : l[i]? = some a) (hj : l[j]? = some a) : i = j := by
  induction l generalizing i j with
  | nil => simp at hi
  | cons x l ih =>
    have hx := List.nodup_cons.1 h
    cases i with
    | zero =>
      cases j with
      | zero => rfl
      | succ j =>
        simp only [List.getElem?_cons_zero, Option.some.injEq, List.getElem?_cons_succ] at hi hj
        exact absurd (hi ▸ List.mem_of_getElem? hj) hx.1
    | succ i =>
      cases j with
      | zero =>
        simp only [List.getElem?_cons_zero, Option.some.injEq, List.getElem?_cons_succ] at hi hj
        exact absurd (hj ▸ List.mem_of_getElem? hi) hx.1
      | succ j =>
        simp only [List.getElem?_cons_succ] at hi hj
        rw [ih hx.2 hi hj]

theorem sortRegs_spec (l : List Reg) : (sortRegs l).Nodup ∧ ∀ x, x ∈ sortRegs l ↔ x ∈ l := by
  unfold sortRegs
  have hn : (dedup l).Nodup := nodup_foldl_ins List.nodup_nil
  have hm : ∀ x, x ∈ dedup l ↔ x ∈ l := fun x => mem_dedup
  generalize dedup l = d at hn hm
  suffices h : (d.foldr insertSorted []).Nodup ∧ ∀ x, x ∈ d.foldr insertSorted [] ↔ x ∈ d by
    exact ⟨h.1, fun x => (h.2 x).trans (hm x)⟩
  clear hm
  induction d with
  | nil => simp
  | cons a d ih =>
    have ha := List.nodup_cons.1 hn
    obtain ⟨ih1, ih2⟩ := ih ha.2
    simp only [List.foldr_cons]
    refine ⟨nodup_insertSorted (fun h => ha.1 ((ih2 a).1 h)) ih1, fun x => ?_⟩
    simp only [mem_insertSorted, ih2, List.mem_cons]

end SwayVerif.Asm
