import SwayVerif.Model.AsmOpt
import SwayVerif.Lemmas.AsmOptSim
import SwayVerif.Lemmas.AsmOptFilter
/-!
C07: a concrete machine that satisfies `Respects` (so the hypotheses of the theorems are
satisfiable), used for the non-vacuity examples and for the counterexample
`flags_guard_insufficient` (the `def_const_registers ∩ next.use` guard of `remove_redundant_ops`
alone does not justify the deletion).

Values are naturals, the memory is a log. An op computes `val` = sum of the values it uses + its
immediate; writes `val` to its `defs`, its immediate (or 0) to its `def_const` registers; an
`other`/`call` op with a side effect appends `val` to the log; a side-effecting `rvrt`/`retcall`/
`jmpaddr` stops with `val`. The candidates of `remove_redundant_ops` only clear their `def_const`.
-/
namespace SwayVerif.AsmOpt
open SwayVerif.Asm

def demoImm (op : AOp) : Nat :=
  match op.kind with
  | .other _ (some k) => k
  | _ => 0

def demoVal (op : AOp) (r : Reg → Nat) : Nat := (op.uses.map r).foldl (· + ·) 0 + demoImm op

def demoLogs (op : AOp) : Bool :=
  op.sideEffect && !nopWf op && match op.kind with
    | .other _ _ | .call _ | .rvrt | .retcall | .jmpaddr => true
    | _ => false

def demoStops (op : AOp) : Bool :=
  op.sideEffect && !nopWf op && match op.kind with
    | .rvrt | .retcall | .jmpaddr => true
    | _ => false

def demoRegs (op : AOp) (r : Reg → Nat) : Reg → Nat := fun x =>
  if nopWf op then (if x ∈ op.defConst then 0 else r x)
  else if x ∈ op.defs then demoVal op r
  else if x ∈ op.defConst then demoImm op
  else r x

def demoSem (op : AOp) (r : Reg → Nat) (m : List Nat) : Res Nat (List Nat) Nat :=
  let m' := if demoLogs op then demoVal op r :: m else m
  if demoStops op then .exit (demoVal op r) m' else .next (demoRegs op r) m'

def demo : Machine Nat (List Nat) Nat := { sem := demoSem, isZero := fun v => v == 0 }

theorem demoVal_congr {op : AOp} {r r' : Reg → Nat} (h : ∀ x ∈ op.uses, r x = r' x) :
    demoVal op r = demoVal op r' := by
  unfold demoVal
  have : op.uses.map r = op.uses.map r' := List.map_congr_left h
  rw [this]

theorem demoLogs_false_of_pure {op : AOp} (h : op.sideEffect = false) : demoLogs op = false := by
  simp [demoLogs, h]

theorem demoStops_false_of_pure {op : AOp} (h : op.sideEffect = false) : demoStops op = false := by
  simp [demoStops, h]

theorem nopWf_defs {op : AOp} (h : nopWf op = true) {x : Reg} (hx : x ∈ op.defs) : x ∈ op.uses := by
  simp only [nopWf, Bool.and_eq_true, List.all_eq_true, List.contains_eq_mem, decide_eq_true_eq] at h
  exact h.2 x hx

theorem nopWf_noopOp : nopWf noopOp = true := by
  simp [nopWf, isNopCand, noopOp]

/-- the demo machine satisfies `Respects` for every choice of ambient registers -/
theorem demo_respects (amb : Reg → Bool) : Respects demo amb where
  frame := by
    intro op r m r₂ m₂ hs x hd hc _
    simp only [demo, demoSem] at hs
    split at hs
    · cases hs
    · simp only [Res.next.injEq] at hs
      rw [← hs.1]
      simp [demoRegs, hd, hc]
  reads := by
    intro op r r' m hu ha
    have hv := demoVal_congr hu
    simp only [demo, demoSem, hv]
    by_cases hst : demoStops op = true
    · simp only [hst, if_true]
      exact ⟨rfl, rfl⟩
    · simp only [hst]
      refine ⟨rfl, fun x hx => ?_⟩
      simp only [demoRegs, hv]
      by_cases hn : nopWf op = true
      · simp only [hn, if_true]
        by_cases hc : x ∈ op.defConst
        · simp [hc]
        · simp only [hc, if_false]
          rcases hx with hx | hx | hx
          · exact hu x (nopWf_defs hn hx)
          · exact absurd hx hc
          · exact ha hx.1 x hx.2
      · simp only [hn]
        by_cases hd : x ∈ op.defs
        · simp [hd]
        · by_cases hc : x ∈ op.defConst
          · simp [hd, hc]
          · simp only [hd, hc, if_false]
            rcases hx with hx | hx | hx
            · exact absurd hx hd
            · exact absurd hx hc
            · exact ha hx.1 x hx.2
  pure := by
    intro op r m hse
    exact ⟨demoRegs op r, by simp [demo, demoSem, demoLogs_false_of_pure hse, demoStops_false_of_pure hse]⟩
  nop := by
    intro op r m hn
    refine ⟨demoRegs op r, ?_, fun x hx => by simp [demoRegs, hn, hx]⟩
    simp [demo, demoSem, demoLogs, demoStops, hn]
  moveNoop := by
    intro op r m r₂ m₂ r₃ m₃ hk hdc h2 h3
    have hl : demoLogs op = false := by simp [demoLogs, hk]
    have hs : demoStops op = false := by simp [demoStops, hk]
    have hl3 : demoLogs noopOp = false := by simp [demoLogs, noopOp]
    have hs3 : demoStops noopOp = false := by simp [demoStops, noopOp]
    simp only [demo, demoSem, hl, hs, Bool.false_eq_true, if_false, Res.next.injEq] at h2
    simp only [demo, demoSem, hl3, hs3, Bool.false_eq_true, if_false, Res.next.injEq] at h3
    refine ⟨by rw [← h2.2, ← h3.2], fun x hx => ?_⟩
    rw [← h2.1, ← h3.1]
    have himm : demoImm op = 0 := by simp [demoImm, hk]
    simp only [demoRegs, hx, hdc, himm, nopWf_noopOp, if_true, if_false]
    by_cases hn : nopWf op = true <;> simp [hn]

end SwayVerif.AsmOpt
