import SwayVerif.Model.Toposort
/-!
Helper lemmas for C22 (`Model/Toposort.lean`): characterisation of the push loops, invariants of the
first phase of petgraph's `toposort` (`Inv1` unconditional, `Inv2` for acyclic graphs), the loop
bound, the meaning of the second phase (`VOK`), and the bridge from `PkgGraph` to `DiGraph`.
Core Lean only.
-/
namespace SwayVerif.Toposort

/-! ## push loops -/

theorem pushSuccs_eq (nx : Nat) (d : List Nat) (succs st : List Nat) :
    pushSuccs nx d succs st =
      if nx ∈ succs then none else some ((succs.filter fun s => decide (s ∉ d)).reverse ++ st) := by
  induction succs generalizing st with
  | nil => simp [pushSuccs]
  | cons s rest ih =>
    unfold pushSuccs
    by_cases h1 : s = nx
    · subst h1; simp
    · have h1' : ¬ nx = s := fun h => h1 h.symm
      by_cases h2 : s ∈ d
      · simp [h1, h1', h2, ih]
      · simp [h1, h1', h2, ih]

theorem pushUndisc_eq (d : List Nat) (succs st : List Nat) :
    pushUndisc d succs st = (succs.filter fun s => decide (s ∉ d)).reverse ++ st := by
  induction succs generalizing st with
  | nil => simp [pushUndisc]
  | cons s rest ih =>
    unfold pushUndisc
    by_cases h2 : s ∈ d
    · simp [h2, ih]
    · simp [h2, ih]

/-! ## first phase: basic invariants -/

structure DiGraph.WF (g : DiGraph) : Prop where
  succ_lt : ∀ v s, s ∈ g.succ v → s < g.n
  pred_lt : ∀ v p, p ∈ g.pred v → p < g.n
  cons : ∀ a b, b ∈ g.succ a ↔ a ∈ g.pred b

theorem step_next_cases {g : DiGraph} {s s' : St} (h : step g s = .next s') :
    (∃ nx rest, s.stack = nx :: rest ∧ nx ∉ s.disc ∧ nx ∉ g.succ nx ∧
      s' = { s with stack := ((g.succ nx).filter fun x => decide (x ∉ nx :: s.disc)).reverse ++ nx :: rest,
                    disc := nx :: s.disc }) ∨
    (∃ nx rest, s.stack = nx :: rest ∧ nx ∈ s.disc ∧ nx ∉ s.fin ∧
      s' = { s with stack := rest, fin := nx :: s.fin, fs := s.fs ++ [nx] }) ∨
    (∃ nx rest, s.stack = nx :: rest ∧ nx ∈ s.disc ∧ nx ∈ s.fin ∧ s' = { s with stack := rest }) := by
  unfold step at h
  split at h
  · simp at h
  · rename_i nx rest hst
    by_cases hd : nx ∈ s.disc
    · by_cases hf : nx ∈ s.fin
      · simp [hd, hf] at h
        right; right; exact ⟨nx, rest, hst, hd, hf, h.symm⟩
      · simp [hd, hf] at h
        right; left; exact ⟨nx, rest, hst, hd, hf, h.symm⟩
    · simp only [hd, not_false_eq_true, if_true, pushSuccs_eq] at h
      by_cases hs : nx ∈ g.succ nx
      · simp [hs] at h
      · simp only [hs, if_false] at h
        left
        refine ⟨nx, rest, hst, hd, hs, ?_⟩
        injection h with h
        exact h.symm

structure Inv1 (g : DiGraph) (s : St) : Prop where
  stack_lt : ∀ v ∈ s.stack, v < g.n
  fin_disc : ∀ v ∈ s.fin, v ∈ s.disc
  disc_cov : ∀ v ∈ s.disc, v ∈ s.fin ∨ v ∈ s.stack
  fs_fin : ∀ v, v ∈ s.fs ↔ v ∈ s.fin
  fs_nodup : s.fs.Nodup
  disc_lt : ∀ v ∈ s.disc, v < g.n
  no_self : ∀ v ∈ s.disc, v ∉ g.succ v

theorem step_inv1 {g : DiGraph} (hg : g.WF) {s s' : St} (h : step g s = .next s') (I : Inv1 g s) :
    Inv1 g s' := by
  obtain ⟨sl, fd, dc, ff, nd, dl, ns⟩ := I
  rcases step_next_cases h with ⟨nx, rest, hst, hd, hs, rfl⟩ | ⟨nx, rest, hst, hd, hf, rfl⟩ | ⟨nx, rest, hst, hd, hf, rfl⟩
  · have := hg.succ_lt nx
    constructor <;> simp_all <;> grind
  · constructor <;> simp_all <;> grind
  · constructor <;> simp_all <;> grind


theorem step_exit {g : DiGraph} {s s' : St} (h : step g s = .exit s') : s' = s ∧ s.stack = [] := by
  unfold step at h
  split at h
  · rename_i hst; injection h with h; exact ⟨h.symm, hst⟩
  · split at h
    · split at h <;> simp at h
    · split at h <;> simp at h

/-- Invariant rule for the `while` loop. -/
theorem inner_inv {g : DiGraph} (P : St → Prop) (hP : ∀ s s', step g s = .next s' → P s → P s')
    {fuel : Nat} {s s' : St} (h : inner g fuel s = .done s') (h0 : P s) : P s' ∧ s'.stack = [] := by
  induction fuel generalizing s with
  | zero => simp [inner] at h
  | succ f ih =>
    unfold inner at h
    split at h
    · rename_i s1 hs
      injection h with h; subst h
      obtain ⟨rfl, he⟩ := step_exit hs
      exact ⟨h0, he⟩
    · simp at h
    · rename_i s1 hs
      exact ih h (hP _ _ hs h0)

/-- Invariant rule for the `for` loop around it. `P` must survive pushing an undiscovered node on
the empty stack. -/
theorem outer_inv {g : DiGraph} (P : St → Prop) (hP : ∀ s s', step g s = .next s' → P s → P s')
    {fuel : Nat} {ids : List Nat}
    (hpush : ∀ s i, i ∈ ids → s.stack = [] → i ∉ s.disc → P s → P { s with stack := [i] })
    {s s' : St} (h : outer g fuel ids s = .done s') (h0 : P s) (hs : s.stack = []) :
    P s' ∧ s'.stack = [] := by
  induction ids generalizing s with
  | nil => simp [outer] at h; subst h; exact ⟨h0, hs⟩
  | cons i is ih =>
    have hpush' : ∀ s j, j ∈ is → s.stack = [] → j ∉ s.disc → P s → P { s with stack := [j] } :=
      fun s j hj => hpush s j (List.mem_cons_of_mem _ hj)
    unfold outer at h
    split at h
    · exact ih hpush' h h0 hs
    · rename_i hi
      split at h
      · rename_i s1 hin
        rw [hs] at hin
        obtain ⟨p1, e1⟩ := inner_inv P hP hin (hpush s i List.mem_cons_self hs hi h0)
        exact ih hpush' h p1 e1
      · rename_i r hr
        cases r <;> simp_all

theorem push_inv1 {g : DiGraph} {s : St} {i : Nat} (hi : i < g.n) (hs : s.stack = []) (I : Inv1 g s) :
    Inv1 g { s with stack := [i] } := by
  obtain ⟨sl, fd, dc, ff, nd, dl, ns⟩ := I
  constructor <;> simp_all

/-! ## loop bound -/

def wl (g : DiGraph) (l : List Nat) (d : List Nat) : Nat :=
  (l.map fun v => if v ∈ d then 0 else 1 + (g.succ v).length).sum

theorem wl_mono (g : DiGraph) (l : List Nat) (x : Nat) (d : List Nat) : wl g l (x :: d) ≤ wl g l d := by
  induction l with
  | nil => simp [wl]
  | cons a l ih =>
    simp only [wl, List.map_cons, List.sum_cons, List.mem_cons] at ih ⊢
    by_cases h1 : a = x <;> by_cases h2 : a ∈ d <;> simp [h1, h2] <;> omega

theorem wl_le_nil (g : DiGraph) (l : List Nat) (d : List Nat) : wl g l d ≤ wl g l [] := by
  induction d with
  | nil => exact Nat.le_refl _
  | cons x d ih => exact Nat.le_trans (wl_mono g l x d) ih

theorem wl_drop (g : DiGraph) (l : List Nat) (x : Nat) (d : List Nat) (hx : x ∈ l) (hd : x ∉ d) :
    wl g l (x :: d) + 1 + (g.succ x).length ≤ wl g l d := by
  induction l with
  | nil => simp at hx
  | cons a l ih =>
    have hm := wl_mono g l x d
    simp only [wl, List.map_cons, List.sum_cons, List.mem_cons] at ih hm ⊢
    by_cases h1 : a = x
    · subst h1; simp [hd]; omega
    · have hx' : x ∈ l := by
        rcases List.mem_cons.mp hx with h | h
        · exact absurd h.symm h1
        · exact h
      have := ih hx'
      by_cases h2 : a ∈ d <;> simp [h1, h2] <;> omega

def mu (g : DiGraph) (s : St) : Nat := wl g (List.range g.n) s.disc + s.stack.length

theorem step_mu {g : DiGraph} {s s' : St} (h : step g s = .next s') (I : Inv1 g s) : mu g s' < mu g s := by
  rcases step_next_cases h with ⟨nx, rest, hst, hd, hs, rfl⟩ | ⟨nx, rest, hst, hd, hf, rfl⟩ | ⟨nx, rest, hst, hd, hf, rfl⟩
  · have hlt : nx < g.n := I.stack_lt nx (by simp [hst])
    have := wl_drop g (List.range g.n) nx s.disc (List.mem_range.mpr hlt) hd
    have hl := List.length_filter_le (fun x => decide (x ∉ nx :: s.disc)) (g.succ nx)
    simp only [mu, hst, List.length_append, List.length_reverse, List.length_cons] at *
    omega
  · simp [mu, hst]
  · simp [mu, hst]

theorem inner_ne_fuel {g : DiGraph} (hg : g.WF) {fuel : Nat} {s : St} (I : Inv1 g s) (hf : mu g s < fuel) :
    inner g fuel s ≠ .fuel := by
  induction fuel generalizing s with
  | zero => omega
  | succ f ih =>
    unfold inner
    split
    · simp
    · simp
    · rename_i s1 hs
      have := step_mu hs I
      exact ih (step_inv1 hg hs I) (by omega)

theorem fuelBound_eq (g : DiGraph) : fuelBound g = wl g (List.range g.n) [] + 2 := by
  simp [fuelBound, wl]

theorem outer_ne_fuel {g : DiGraph} (hg : g.WF) {ids : List Nat} (hids : ∀ i ∈ ids, i < g.n) {s : St}
    (I : Inv1 g s) (hs : s.stack = []) : outer g (fuelBound g) ids s ≠ .fuel := by
  induction ids generalizing s with
  | nil => simp [outer]
  | cons i is ih =>
    have his : ∀ i ∈ is, i < g.n := fun j hj => hids j (List.mem_cons_of_mem _ hj)
    unfold outer
    split
    · exact ih his I hs
    · rename_i hi
      rw [hs]
      have I1 := push_inv1 (hids i (List.mem_cons_self)) hs I
      have hmu : mu g { s with stack := [i] } < fuelBound g := by
        have := wl_le_nil g (List.range g.n) s.disc
        simp only [mu, fuelBound_eq, List.length_cons, List.length_nil]
        omega
      split
      · rename_i s1 hin
        obtain ⟨p1, e1⟩ := inner_inv (Inv1 g) (fun _ _ h => step_inv1 hg h) hin I1
        exact ih his p1 e1
      · rename_i r hr
        exact inner_ne_fuel hg I1 hmu

/-! ## second phase -/

theorem dfsNext_none {nbrs : Nat → List Nat} {st d : List Nat} (h : ∀ v ∈ st, v ∈ d) :
    dfsNext nbrs st d = (none, [], d) := by
  induction st with
  | nil => simp [dfsNext]
  | cons a st ih =>
    have ha : a ∈ d := h a (List.mem_cons_self)
    simp only [dfsNext, ha, if_true]
    exact ih (fun v hv => h v (List.mem_cons_of_mem _ hv))

theorem dfsNext_some {nbrs : Nat → List Nat} {st d : List Nat} (h : ∃ v ∈ st, v ∉ d) :
    ∃ j st' d', dfsNext nbrs st d = (some j, st', d') := by
  induction st with
  | nil => simp at h
  | cons a st ih =>
    by_cases ha : a ∈ d
    · simp only [dfsNext, ha, if_true]
      apply ih
      obtain ⟨v, hv, hvd⟩ := h
      rcases List.mem_cons.mp hv with rfl | hv
      · exact absurd ha hvd
      · exact ⟨v, hv, hvd⟩
    · simp [dfsNext, ha]

/-- what the second phase checks, as a recursive predicate -/
def VOK (g : DiGraph) : List Nat → List Nat → Prop
  | [], _ => True
  | i :: rest, d => (∀ p ∈ g.pred i, p = i ∨ p ∈ d) ∧ VOK g rest (i :: d)

theorem verify_cons_disc {g : DiGraph} {i : Nat} {rest d : List Nat} (hi : i ∈ d) :
    verify g (i :: rest) d = verify g rest d := by
  simp [verify, dfsNext, hi]

theorem verify_cons_new {g : DiGraph} {i : Nat} {rest d : List Nat} (hi : i ∉ d) :
    verify g (i :: rest) d = (decide (∀ p ∈ g.pred i, p = i ∨ p ∈ d) && verify g rest (i :: d)) := by
  simp only [verify, dfsNext, hi, if_false, pushUndisc_eq, List.append_nil]
  by_cases hall : ∀ p ∈ g.pred i, p = i ∨ p ∈ d
  · have : dfsNext g.pred ((g.pred i).filter fun s => decide (s ∉ i :: d)).reverse (i :: d) = (none, [], i :: d) := by
      apply dfsNext_none
      intro v hv
      simp only [List.mem_reverse, List.mem_filter, List.mem_cons, decide_eq_true_eq, not_or] at hv
      rcases hall v hv.1 with h | h
      · exact absurd h hv.2.1
      · exact absurd h hv.2.2
    rw [this, decide_eq_true hall]; simp
  · have : ∃ j st' d', dfsNext g.pred ((g.pred i).filter fun s => decide (s ∉ i :: d)).reverse (i :: d) = (some j, st', d') := by
      apply dfsNext_some
      simp only [Classical.not_forall, not_or] at hall
      obtain ⟨p, hp, hn⟩ := hall
      refine ⟨p, ?_, ?_⟩
      · simp [hp, hn.1, hn.2]
      · simp [hn.1, hn.2]
    obtain ⟨j, st', d', e⟩ := this
    rw [e]; simp [hall]

theorem verify_iff_VOK {g : DiGraph} {order d : List Nat} (hnd : order.Nodup) (hd : ∀ v ∈ order, v ∉ d) :
    verify g order d = true ↔ VOK g order d := by
  induction order generalizing d with
  | nil => simp [verify, VOK]
  | cons i rest ih =>
    have hi : i ∉ d := hd i (List.mem_cons_self)
    have hnd' := List.nodup_cons.mp hnd
    rw [verify_cons_new hi]
    simp only [VOK, Bool.and_eq_true, decide_eq_true_eq]
    rw [ih hnd'.2]
    intro v hv
    simp only [List.mem_cons, not_or]
    exact ⟨fun h => hnd'.1 (h ▸ hv), hd v (List.mem_cons_of_mem _ hv)⟩

theorem idxOf_cons_ne' {i a : Nat} (l : List Nat) (h : i ≠ a) : (i :: l).idxOf a = l.idxOf a + 1 := by
  have : (i == a) = false := by simp [h]
  simp [List.idxOf_cons, this]

/-- `VOK` ⇒ every predecessor (≠ itself) of a listed node is listed strictly earlier (or was in `d`). -/
theorem VOK_idx {g : DiGraph} {order d : List Nat} (hnd : order.Nodup) (h : VOK g order d) :
    ∀ a ∈ order, ∀ b ∈ g.pred a, b ≠ a → b ∈ d ∨ (b ∈ order ∧ order.idxOf b < order.idxOf a) := by
  induction order generalizing d with
  | nil => simp
  | cons i rest ih =>
    have hnd' := List.nodup_cons.mp hnd
    obtain ⟨h1, h2⟩ := h
    intro a ha b hb hne
    rcases List.mem_cons.mp ha with rfl | ha
    · rcases h1 b hb with h | h
      · exact absurd h hne
      · exact Or.inl h
    · have hai : a ≠ i := fun e => hnd'.1 (e ▸ ha)
      have hia : i ≠ a := fun e => hai e.symm
      rcases ih hnd'.2 h2 a ha b hb hne with h | ⟨hbr, hlt⟩
      · rcases List.mem_cons.mp h with rfl | h
        · right
          refine ⟨List.mem_cons_self, ?_⟩
          rw [List.idxOf_cons_self, idxOf_cons_ne' _ hia]; omega
        · exact Or.inl h
      · right
        have hbi : i ≠ b := fun e => hnd'.1 (e ▸ hbr)
        refine ⟨List.mem_cons_of_mem _ hbr, ?_⟩
        rw [idxOf_cons_ne' _ hia, idxOf_cons_ne' _ hbi]; omega

/-- finish order: every successor of a listed node is listed later -/
def Sorted (g : DiGraph) : List Nat → Prop
  | [] => True
  | u :: rest => (∀ s ∈ g.succ u, s ∈ rest) ∧ Sorted g rest

theorem Sorted_closed {g : DiGraph} {l : List Nat} (h : Sorted g l) : ∀ p ∈ l, ∀ s ∈ g.succ p, s ∈ l := by
  induction l with
  | nil => simp
  | cons u rest ih =>
    intro p hp s hs
    rcases List.mem_cons.mp hp with rfl | hp
    · exact List.mem_cons_of_mem _ (h.1 s hs)
    · exact List.mem_cons_of_mem _ (ih h.2 p hp s hs)

theorem Sorted_VOK {g : DiGraph} (hg : g.WF) {order d : List Nat} (hs : Sorted g order) (hnd : order.Nodup)
    (hcov : ∀ v, v < g.n → v ∈ d ∨ v ∈ order) : VOK g order d := by
  induction order generalizing d with
  | nil => trivial
  | cons i rest ih =>
    have hnd' := List.nodup_cons.mp hnd
    refine ⟨?_, ?_⟩
    · intro p hp
      rcases hcov p (hg.pred_lt i p hp) with h | h
      · exact Or.inr h
      · rcases List.mem_cons.mp h with h | h
        · exact Or.inl h
        · exact absurd (Sorted_closed hs.2 p h i ((hg.cons p i).mpr hp)) hnd'.1
    · apply ih hs.2 hnd'.2
      intro v hv
      rcases hcov v hv with h | h
      · exact Or.inl (List.mem_cons_of_mem _ h)
      · rcases List.mem_cons.mp h with h | h
        · exact Or.inl (h ▸ List.mem_cons_self)
        · exact Or.inr h

/-! ## every node gets discovered -/

theorem step_keep {g : DiGraph} {s s' : St} (h : step g s = .next s') (v : Nat)
    (hv : v ∈ s.disc ∨ v ∈ s.stack) : v ∈ s'.disc ∨ v ∈ s'.stack := by
  rcases step_next_cases h with ⟨nx, rest, hst, hd, hs, rfl⟩ | ⟨nx, rest, hst, hd, hf, rfl⟩ | ⟨nx, rest, hst, hd, hf, rfl⟩
  · simp_all; grind
  · simp_all; grind
  · simp_all; grind

theorem outer_disc {g : DiGraph} {fuel : Nat} {ids : List Nat} {s s' : St} (X : List Nat)
    (h : outer g fuel ids s = .done s') (hs : s.stack = []) (hX : ∀ v ∈ X, v ∈ s.disc) :
    (∀ v ∈ X, v ∈ s'.disc) ∧ ∀ i ∈ ids, i ∈ s'.disc := by
  induction ids generalizing s X with
  | nil => simp [outer] at h; subst h; exact ⟨hX, by simp⟩
  | cons i is ih =>
    unfold outer at h
    split at h
    · rename_i hi
      have := ih (i :: X) h hs (by intro v hv; rcases List.mem_cons.mp hv with rfl | hv; exact hi; exact hX v hv)
      refine ⟨fun v hv => this.1 v (List.mem_cons_of_mem _ hv), ?_⟩
      intro j hj
      rcases List.mem_cons.mp hj with rfl | hj
      · exact this.1 j List.mem_cons_self
      · exact this.2 j hj
    · rename_i hi
      split at h
      · rename_i s1 hin
        rw [hs] at hin
        obtain ⟨p1, e1⟩ := inner_inv (fun t => ∀ v ∈ i :: X, v ∈ t.disc ∨ v ∈ t.stack)
          (fun a b hab hp v hv => step_keep hab v (hp v hv)) hin
          (by intro v hv; rcases List.mem_cons.mp hv with rfl | hv
              · right; simp
              · left; exact hX v hv)
        have hX1 : ∀ v ∈ i :: X, v ∈ s1.disc := by
          intro v hv
          rcases p1 v hv with h | h
          · exact h
          · rw [e1] at h; simp at h
        have := ih (i :: X) h e1 hX1
        refine ⟨fun v hv => this.1 v (List.mem_cons_of_mem _ hv), ?_⟩
        intro j hj
        rcases List.mem_cons.mp hj with rfl | hj
        · exact this.1 j List.mem_cons_self
        · exact this.2 j hj
      · rename_i r hr
        cases r <;> simp_all

theorem init_inv1 (g : DiGraph) : Inv1 g St.init := by
  constructor <;> simp [St.init]

/-- Summary of the first phase. -/
theorem outer_final {g : DiGraph} (hg : g.WF) {s' : St}
    (h : outer g (fuelBound g) (List.range g.n) St.init = .done s') :
    Inv1 g s' ∧ s'.stack = [] ∧ ∀ v, v < g.n → v ∈ s'.disc := by
  obtain ⟨I, e⟩ := outer_inv (Inv1 g) (fun _ _ h => step_inv1 hg h)
    (fun s i hi hs _ I => push_inv1 (List.mem_range.mp hi) hs I) h (init_inv1 g) rfl
  refine ⟨I, e, ?_⟩
  intro v hv
  exact (outer_disc [] h rfl (by simp)).2 v (List.mem_range.mpr hv)

/-! ## acyclic graphs: the finish order is a topological order -/

/-- a non-empty path along `succ` -/
inductive Path (g : DiGraph) : Nat → Nat → Prop
  | edge {a b : Nat} : b ∈ g.succ a → Path g a b
  | cons {a b c : Nat} : b ∈ g.succ a → Path g b c → Path g a c

theorem Path.snoc {g : DiGraph} {a b c : Nat} (h : Path g a b) (hc : c ∈ g.succ b) : Path g a c := by
  induction h with
  | edge h => exact .cons h (.edge hc)
  | cons h _ ih => exact .cons h (ih hc)

/-- the stack entries above the topmost occurrence of `u` -/
def above (u : Nat) (st : List Nat) : List Nat := st.takeWhile (· != u)

theorem above_cons_ne {a u : Nat} (l : List Nat) (h : a ≠ u) : above u (a :: l) = a :: above u l := by
  simp [above, h]

theorem above_cons_self (u : Nat) (l : List Nat) : above u (u :: l) = [] := by
  simp [above]

theorem above_append {u : Nat} {p : List Nat} (l : List Nat) (h : u ∉ p) : above u (p ++ l) = p ++ above u l := by
  unfold above
  apply List.takeWhile_append_of_pos
  intro a ha
  simp only [bne_iff_ne, ne_eq]
  exact fun e => h (e ▸ ha)

structure Inv2 (g : DiGraph) (s : St) : Prop where
  reach : ∀ u ∈ s.disc, u ∉ s.fin → ∀ w ∈ above u s.stack, Path g u w
  succs : ∀ u ∈ s.disc, u ∉ s.fin → ∀ x ∈ g.succ u, x ∈ s.fin ∨ x ∈ above u s.stack
  sorted : Sorted g s.fs.reverse

theorem step_inv2 {g : DiGraph} (hac : ∀ a, ¬ Path g a a) {s s' : St} (h : step g s = .next s')
    (I : Inv1 g s ∧ Inv2 g s) : Inv2 g s' := by
  obtain ⟨I1, ⟨hr, hsu, hso⟩⟩ := I
  rcases step_next_cases h with ⟨nx, rest, hst, hd, hs, rfl⟩ | ⟨nx, rest, hst, hd, hf, rfl⟩ | ⟨nx, rest, hst, hd, hf, rfl⟩
  · -- discovery of nx
    have hnp : nx ∉ ((g.succ nx).filter fun x => decide (x ∉ nx :: s.disc)).reverse := by simp
    have habove_nx : above nx (((g.succ nx).filter fun x => decide (x ∉ nx :: s.disc)).reverse ++ nx :: rest)
        = ((g.succ nx).filter fun x => decide (x ∉ nx :: s.disc)).reverse := by
      rw [above_append _ hnp, above_cons_self]; simp
    have habove_u : ∀ u ∈ s.disc, above u (((g.succ nx).filter fun x => decide (x ∉ nx :: s.disc)).reverse ++ nx :: rest)
        = ((g.succ nx).filter fun x => decide (x ∉ nx :: s.disc)).reverse ++ nx :: above u rest := by
      intro u hu
      have hne : nx ≠ u := fun e => hd (e ▸ hu)
      rw [above_append, above_cons_ne _ hne]
      simp; intro _ _; exact hu
    have hold : ∀ u ∈ s.disc, above u s.stack = nx :: above u rest := by
      intro u hu
      have hne : nx ≠ u := fun e => hd (e ▸ hu)
      rw [hst, above_cons_ne _ hne]
    refine ⟨?_, ?_, hso⟩
    · intro u hu huf w hw
      rcases List.mem_cons.mp hu with rfl | hu
      · rw [habove_nx] at hw
        simp only [List.mem_reverse, List.mem_filter] at hw
        exact .edge hw.1
      · simp only at hw
        rw [habove_u u hu] at hw
        have hold' := hold u hu
        rcases List.mem_append.mp hw with hw | hw
        · simp only [List.mem_reverse, List.mem_filter] at hw
          exact (hr u hu huf nx (by rw [hold']; exact List.mem_cons_self)).snoc hw.1
        · exact hr u hu huf w (by rw [hold']; exact hw)
    · intro u hu huf x hx
      rcases List.mem_cons.mp hu with rfl | hu
      · simp only
        rw [habove_nx]
        have hxne : x ≠ u := fun e => hs (e ▸ hx)
        by_cases hxd : x ∈ s.disc
        · by_cases hxf : x ∈ s.fin
          · exact Or.inl hxf
          · exfalso
            have hxs : x ∈ s.stack := (I1.disc_cov x hxd).resolve_left hxf
            have : Path g x u := hr x hxd hxf u (by rw [hold x hxd]; exact List.mem_cons_self)
            exact hac x (this.snoc hx)
        · right
          simp [hx, hxne, hxd]
      · simp only
        rw [habove_u u hu]
        rcases hsu u hu huf x hx with h | h
        · exact Or.inl h
        · right
          rw [hold u hu] at h
          exact List.mem_append_right _ h
  · -- nx finishes
    have hne : ∀ u, u ∉ nx :: s.fin → nx ≠ u := fun u hu e => hu (e ▸ List.mem_cons_self)
    refine ⟨?_, ?_, ?_⟩
    · intro u hu huf w hw
      have huf' : u ∉ s.fin := fun e => huf (List.mem_cons_of_mem _ e)
      exact hr u hu huf' w (by rw [hst, above_cons_ne _ (hne u huf)]; exact List.mem_cons_of_mem _ hw)
    · intro u hu huf x hx
      have huf' : u ∉ s.fin := fun e => huf (List.mem_cons_of_mem _ e)
      rcases hsu u hu huf' x hx with h | h
      · exact Or.inl (List.mem_cons_of_mem _ h)
      · rw [hst, above_cons_ne _ (hne u huf)] at h
        rcases List.mem_cons.mp h with rfl | h
        · exact Or.inl List.mem_cons_self
        · exact Or.inr h
    · simp only [List.reverse_append, List.reverse_cons, List.reverse_nil, List.nil_append, List.singleton_append]
      refine ⟨?_, hso⟩
      intro x hx
      rcases hsu nx hd hf x hx with h | h
      · exact List.mem_reverse.mpr ((I1.fs_fin x).mpr h)
      · rw [hst, above_cons_self] at h; simp at h
  · -- a stale duplicate of a finished node is popped
    have hne : ∀ u, u ∉ s.fin → nx ≠ u := fun u hu e => hu (e ▸ hf)
    refine ⟨?_, ?_, hso⟩
    · intro u hu huf w hw
      exact hr u hu huf w (by rw [hst, above_cons_ne _ (hne u huf)]; exact List.mem_cons_of_mem _ hw)
    · intro u hu huf x hx
      rcases hsu u hu huf x hx with h | h
      · exact Or.inl h
      · rw [hst, above_cons_ne _ (hne u huf)] at h
        rcases List.mem_cons.mp h with rfl | h
        · exact Or.inl hf
        · exact Or.inr h

theorem push_inv2 {g : DiGraph} {s : St} {i : Nat} (hs : s.stack = []) (I : Inv1 g s ∧ Inv2 g s) :
    Inv2 g { s with stack := [i] } := by
  obtain ⟨I1, ⟨hr, hsu, hso⟩⟩ := I
  have hnone : ∀ u ∈ s.disc, u ∉ s.fin → False := by
    intro u hu huf
    rcases I1.disc_cov u hu with h | h
    · exact huf h
    · rw [hs] at h; simp at h
  exact ⟨fun u hu huf => (hnone u hu huf).elim, fun u hu huf => (hnone u hu huf).elim, hso⟩

theorem init_inv2 (g : DiGraph) : Inv2 g St.init := by
  constructor <;> simp [St.init, Sorted]

theorem step_cycle {g : DiGraph} {s : St} (h : step g s = .cycle) : ∃ nx, nx ∈ g.succ nx := by
  unfold step at h
  split at h
  · simp at h
  · rename_i nx rest hst
    by_cases hd : nx ∈ s.disc
    · by_cases hf : nx ∈ s.fin <;> simp [hd, hf] at h
    · simp only [hd, not_false_eq_true, if_true, pushSuccs_eq] at h
      by_cases hs : nx ∈ g.succ nx
      · exact ⟨nx, hs⟩
      · simp [hs] at h

theorem inner_ne_cycle {g : DiGraph} (hns : ∀ a, a ∉ g.succ a) {fuel : Nat} {s : St} : inner g fuel s ≠ .cycle := by
  induction fuel generalizing s with
  | zero => simp [inner]
  | succ f ih =>
    unfold inner
    split
    · simp
    · rename_i hs
      obtain ⟨nx, h⟩ := step_cycle hs
      exact absurd h (hns nx)
    · exact ih

theorem outer_ne_cycle {g : DiGraph} (hns : ∀ a, a ∉ g.succ a) {fuel : Nat} {ids : List Nat} {s : St} :
    outer g fuel ids s ≠ .cycle := by
  induction ids generalizing s with
  | nil => simp [outer]
  | cons i is ih =>
    unfold outer
    split
    · exact ih
    · split
      · exact ih
      · rename_i r hr
        exact inner_ne_cycle hns

/-! ## `toposort` as a whole -/

theorem nodup_reverse' {l : List Nat} (h : l.Nodup) : l.reverse.Nodup := by
  unfold List.Nodup at *
  rw [List.pairwise_reverse]
  exact h.imp (fun h => Ne.symm h)

theorem toposort_ne_fuel {g : DiGraph} (hg : g.WF) : toposort g ≠ .fuel := by
  unfold toposort
  have := outer_ne_fuel hg (ids := List.range g.n) (fun i hi => List.mem_range.mp hi) (init_inv1 g) rfl
  split
  · rename_i h; exact absurd h this
  · simp
  · split <;> simp

theorem toposort_ne_panic {g : DiGraph} : toposort g ≠ .panic := by
  unfold toposort
  split
  · simp
  · simp
  · split <;> simp

theorem toposort_ok {g : DiGraph} (hg : g.WF) {order : List Nat} (h : toposort g = .ok order) :
    order.Nodup ∧ (∀ v, v ∈ order ↔ v < g.n) ∧ (∀ v, v < g.n → v ∉ g.succ v) ∧ VOK g order [] := by
  unfold toposort at h
  split at h
  · simp at h
  · simp at h
  · rename_i s hs
    obtain ⟨I, he, hall⟩ := outer_final hg hs
    split at h
    · rename_i hv
      injection h with h
      subst h
      have hnd : s.fs.reverse.Nodup := nodup_reverse' I.fs_nodup
      have hfin : ∀ v, v ∈ s.disc → v ∈ s.fin := by
        intro v hv
        rcases I.disc_cov v hv with h | h
        · exact h
        · rw [he] at h; simp at h
      refine ⟨hnd, ?_, ?_, ?_⟩
      · intro v
        rw [List.mem_reverse, I.fs_fin]
        exact ⟨fun h => I.disc_lt v (I.fin_disc v h), fun h => hfin v (hall v h)⟩
      · exact fun v hv => I.no_self v (hall v hv)
      · exact (verify_iff_VOK hnd (by simp)).mp hv
    · simp at h

theorem toposort_acyclic {g : DiGraph} (hg : g.WF) (hac : ∀ a, ¬ Path g a a) : ∃ order, toposort g = .ok order := by
  have hns : ∀ a, a ∉ g.succ a := fun a h => hac a (.edge h)
  have h1 := outer_ne_fuel hg (ids := List.range g.n) (fun i hi => List.mem_range.mp hi) (init_inv1 g) rfl
  have h2 := outer_ne_cycle hns (g := g) (fuel := fuelBound g) (ids := List.range g.n) (s := St.init)
  unfold toposort
  split
  · rename_i h; exact absurd h h1
  · rename_i h; exact absurd h h2
  · rename_i s hs
    obtain ⟨I, he, hall⟩ := outer_final hg hs
    obtain ⟨⟨_, I2⟩, _⟩ := outer_inv (fun t => Inv1 g t ∧ Inv2 g t)
      (fun _ _ h I => ⟨step_inv1 hg h I.1, step_inv2 hac h I⟩)
      (fun s i hi hs _ I => ⟨push_inv1 (List.mem_range.mp hi) hs I.1, push_inv2 hs I⟩) hs ⟨init_inv1 g, init_inv2 g⟩ rfl
    have hnd : s.fs.reverse.Nodup := nodup_reverse' I.fs_nodup
    have hfin : ∀ v, v ∈ s.disc → v ∈ s.fin := by
      intro v hv
      rcases I.disc_cov v hv with h | h
      · exact h
      · rw [he] at h; simp at h
    have hv : verify g s.fs.reverse [] = true := by
      rw [verify_iff_VOK hnd (by simp)]
      apply Sorted_VOK hg I2.sorted hnd
      intro v hv
      right
      rw [List.mem_reverse, I.fs_fin]
      exact hfin v (hall v hv)
    simp [hv]

/-! ## from the package graph to what `toposort` sees -/

theorem mem_outgoing {g : PkgGraph} {x b : Nat} : b ∈ g.outgoing x ↔ (x, b) ∈ g.edges := by
  simp only [PkgGraph.outgoing, List.mem_map, List.mem_filter, List.mem_reverse, beq_iff_eq]
  constructor
  · rintro ⟨⟨a, b'⟩, ⟨hm, rfl⟩, rfl⟩; exact hm
  · intro h; exact ⟨(x, b), ⟨h, rfl⟩, rfl⟩

theorem mem_incoming {g : PkgGraph} {x a : Nat} : a ∈ g.incoming x ↔ (a, x) ∈ g.edges := by
  simp only [PkgGraph.incoming, List.mem_map, List.mem_filter, List.mem_reverse, beq_iff_eq]
  constructor
  · rintro ⟨⟨a', b⟩, ⟨hm, rfl⟩, rfl⟩; exact hm
  · intro h; exact ⟨(a, x), ⟨h, rfl⟩, rfl⟩

theorem wf_edge {g : PkgGraph} (h : g.wf = true) {a b : Nat} (he : (a, b) ∈ g.edges) : a < g.n ∧ b < g.n := by
  simp only [PkgGraph.wf, List.all_eq_true, Bool.and_eq_true, decide_eq_true_eq] at h
  exact h (a, b) he

theorem reversed_WF {g : PkgGraph} (h : g.wf = true) : g.reversed.WF := by
  refine ⟨?_, ?_, ?_⟩
  · intro v s hs; exact (wf_edge h (mem_incoming.mp hs)).1
  · intro v p hp; exact (wf_edge h (mem_outgoing.mp hp)).2
  · intro a b
    show b ∈ g.incoming a ↔ a ∈ g.outgoing b
    rw [mem_incoming, mem_outgoing]

theorem DependsOn.snoc {g : PkgGraph} {a b c : Nat} (h : DependsOn g a b) (hc : (b, c) ∈ g.edges) : DependsOn g a c := by
  induction h with
  | direct h => exact .trans h (.direct hc)
  | trans h _ ih => exact .trans h (ih hc)

/-- a path in the reversed graph is a dependency chain read backwards -/
theorem path_reversed {g : PkgGraph} {a b : Nat} (h : Path g.reversed a b) : DependsOn g b a := by
  induction h with
  | edge h => exact .direct (mem_incoming.mp h)
  | cons h _ ih => exact ih.snoc (mem_incoming.mp h)

theorem acyclic_reversed {g : PkgGraph} (h : ¬ Cyclic g) : ∀ a, ¬ Path g.reversed a a :=
  fun a hp => h ⟨a, path_reversed hp⟩

/-- What an `ok` answer of the model means. -/
theorem compilationOrder_ok {g : PkgGraph} {order : List Nat} (h : compilationOrder g = .ok order) :
    g.wf = true ∧ IsTopoOrder g order := by
  unfold compilationOrder at h
  by_cases hw : g.wf = true
  · simp only [hw, if_true] at h
    obtain ⟨hnd, hmem, hns, hv⟩ := toposort_ok (reversed_WF hw) h
    refine ⟨hw, hnd, hmem, ?_⟩
    intro a b he
    have hab := wf_edge hw he
    have hne : b ≠ a := by
      rintro rfl
      exact hns b hab.1 (mem_incoming.mpr he)
    rcases VOK_idx hnd hv a ((hmem a).mpr hab.1) b (mem_outgoing.mpr he) hne with h | h
    · simp at h
    · exact h.2
  · simp [hw] at h

theorem dependsOn_idx {g : PkgGraph} {order : List Nat} (h : IsTopoOrder g order) {a b : Nat}
    (hd : DependsOn g a b) : order.idxOf b < order.idxOf a := by
  induction hd with
  | direct he => exact h.2.2 _ _ he
  | trans he _ ih => exact Nat.lt_trans ih (h.2.2 _ _ he)

theorem cyclic_no_order {g : PkgGraph} (hc : Cyclic g) (order : List Nat) : ¬ IsTopoOrder g order := by
  intro h
  obtain ⟨a, ha⟩ := hc
  exact Nat.lt_irrefl _ (dependsOn_idx h ha)

theorem compilationOrder_total {g : PkgGraph} (hw : g.wf = true) :
    compilationOrder g = .cycle ∨ ∃ order, compilationOrder g = .ok order := by
  have h1 := toposort_ne_fuel (reversed_WF hw)
  have h2 := toposort_ne_panic (g := g.reversed)
  unfold compilationOrder
  simp only [hw, if_true]
  cases h : toposort g.reversed with
  | ok o => exact Or.inr ⟨o, rfl⟩
  | cycle => exact Or.inl rfl
  | panic => exact absurd h h2
  | fuel => exact absurd h h1

theorem nodupB_iff (l : List Nat) : nodupB l = true ↔ l.Nodup := by
  induction l with
  | nil => simp [nodupB]
  | cons x xs ih => simp [nodupB, ih, List.nodup_cons]

theorem count_eq_one {l : List Nat} (h : l.Nodup) {v : Nat} (hv : v ∈ l) : l.count v = 1 := by
  induction l with
  | nil => simp at hv
  | cons x xs ih =>
    have h' := List.nodup_cons.mp h
    rcases List.mem_cons.mp hv with rfl | hv
    · simp [List.count_eq_zero.mpr h'.1]
    · have hne : x ≠ v := fun e => h'.1 (e ▸ hv)
      simp [hne, ih h'.2 hv]
end SwayVerif.Toposort
