import SwayVerif.Model.FsLock
/-!
Helper lemmas for C25: decimal round trip (`pidOfContents (toDec n) = some n`) and the inductive
invariant of the isolated-publish system.
-/
namespace SwayVerif.FsLock
open SwayVerif.Proc

/-! ## decimal round trip -/

def isDigit (b : UInt8) : Prop := 48 ≤ b.toNat ∧ b.toNat ≤ 57

theorem digit_toNat (d : Nat) (h : d < 10) : (UInt8.ofNat (48 + d)).toNat = 48 + d := by
  simp [UInt8.toNat_ofNat']
  omega

theorem toDecAux_digits (fuel n : Nat) (acc : Bytes) (hacc : ∀ b ∈ acc, isDigit b) :
    ∀ b ∈ toDecAux fuel n acc, isDigit b := by
  induction fuel generalizing n acc with
  | zero => simpa [toDecAux] using hacc
  | succ f ih =>
    have hd : isDigit (UInt8.ofNat (48 + n % 10)) := by
      have := digit_toNat (n % 10) (Nat.mod_lt _ (by decide))
      unfold isDigit; omega
    have hacc' : ∀ b ∈ UInt8.ofNat (48 + n % 10) :: acc, isDigit b := by
      intro b hb
      rcases List.mem_cons.mp hb with rfl | hb
      · exact hd
      · exact hacc b hb
    simp only [toDecAux]
    split
    · exact hacc'
    · exact ih _ _ hacc'

theorem toDecAux_ne_nil (fuel n : Nat) (acc : Bytes) : toDecAux (fuel + 1) n acc ≠ [] := by
  induction fuel generalizing n acc with
  | zero =>
    simp only [toDecAux]
    split
    · exact List.cons_ne_nil _ _
    · exact List.cons_ne_nil _ _
  | succ f ih =>
    rw [toDecAux]
    split
    · exact List.cons_ne_nil _ _
    · exact ih _ _

theorem parseDigits_toDecAux (fuel n : Nat) (acc : Bytes) (hf : n < fuel) :
    parseDigits (toDecAux fuel n acc) 0 = parseDigits acc n := by
  induction fuel generalizing n acc with
  | zero => omega
  | succ f ih =>
    have hd := digit_toNat (n % 10) (Nat.mod_lt _ (by decide))
    simp only [toDecAux]
    split
    · rename_i h0
      simp only [parseDigits, hd]
      have : 48 ≤ 48 + n % 10 ∧ 48 + n % 10 ≤ 57 := by omega
      rw [if_pos this]
      congr 1
      omega
    · rename_i h0
      rw [ih (n / 10) _ (by omega)]
      simp only [parseDigits, hd]
      have : 48 ≤ 48 + n % 10 ∧ 48 + n % 10 ≤ 57 := by omega
      rw [if_pos this]
      congr 1
      omega

theorem toDec_digits (n : Nat) : ∀ b ∈ toDec n, isDigit b :=
  toDecAux_digits _ _ _ (by simp)

theorem toDec_ne_nil (n : Nat) : toDec n ≠ [] := toDecAux_ne_nil _ _ _

theorem dropWhile_isWs_digits (l : Bytes) (h : ∀ b ∈ l, isDigit b) : l.dropWhile isWs = l := by
  cases l with
  | nil => rfl
  | cons a r =>
    have ha := h a (by simp)
    have : isWs a = false := by
      unfold isDigit at ha
      simp [isWs]; omega
    simp [List.dropWhile, this]

theorem trim_digits (l : Bytes) (h : ∀ b ∈ l, isDigit b) : trim l = l := by
  unfold trim
  rw [dropWhile_isWs_digits l h, dropWhile_isWs_digits l.reverse (by simpa using h)]
  simp

theorem readToString_digits (l : Bytes) (h : ∀ b ∈ l, isDigit b) : readToString l = some l := by
  unfold readToString
  rw [if_pos]
  simp only [List.all_eq_true, decide_eq_true_eq]
  intro b hb
  have := h b hb
  unfold isDigit at this
  omega

theorem parseUsize_of_digits (l : Bytes) (n : Nat) (hne : l ≠ []) (hd : ∀ b ∈ l, isDigit b)
    (hp : parseDigits l 0 = some n) (hn : n < usizeBound) : parseUsize l = some n := by
  cases l with
  | nil => exact absurd rfl hne
  | cons a r =>
    have ha : isDigit a := hd a (by simp)
    have hs : stripPlus (a :: r) = a :: r := by
      unfold stripPlus
      split
      · rename_i r' heq
        cases heq
        unfold isDigit at ha; simp at ha
      · rfl
    unfold parseUsize
    rw [hs]
    simp only [hp, hn, if_true]

theorem parseUsize_toDec (n : Nat) (hn : n < usizeBound) : parseUsize (toDec n) = some n := by
  apply parseUsize_of_digits _ _ (toDec_ne_nil n) (toDec_digits n) _ hn
  unfold toDec
  rw [parseDigits_toDecAux _ _ _ (by omega)]
  rfl

theorem pidOfContents_toDec (n : Nat) (hn : n < usizeBound) : pidOfContents (toDec n) = some n := by
  unfold pidOfContents
  rw [readToString_digits _ (toDec_digits n)]
  simp only [Option.getD_some]
  rw [trim_digits _ (toDec_digits n)]
  exact parseUsize_toDec n hn

end SwayVerif.FsLock

namespace SwayVerif.FsLock
open SwayVerif.Proc

/-! ## the inductive invariant of `sysIso .fixed` -/

def okCtx (w q : Pid) (c : Ctx) : Prop := q = w → c = .glp ∨ c = .isLocked
def okNext (w q : Pid) (n : Next) : Prop := q = w → n ≠ .lock

/-- Program counters of a live process `q` that are compatible with "`w` holds the flag, it is on disk
(entry `file`), `w` is alive": `q` has either not touched the file yet, or read exactly this entry /
`w`'s pid from it; `w` itself only runs observer operations. Everything else (a pending unlink, the
rest of `lock`) is excluded. -/
def consistent (file : Option Ino) (w q : Pid) : Pc → Prop
  | .idle => True
  | .glpOpen c => okCtx w q c
  | .glpRead c h => okCtx w q c ∧ file = some h
  | .glpActive c pid => okCtx w q c ∧ pid = w
  | .clReadDir n => okNext w q n
  | .clOpen n => okNext w q n
  | .clRead n h => okNext w q n ∧ file = some h
  | .clActive n pid => okNext w q n ∧ pid = w
  | _ => False

def Inv (s : State) : Prop :=
  ∀ w, w < usizeBound → s.holds w = true → s.alive w = true →
    flagShows s w ∧ ∀ q, s.alive q = true → consistent s.file w q (s.pc q)

theorem inv_init (s : State) (h : initial s) : Inv s := by
  intro w _ hh _
  rw [h.2 w] at hh
  exact absurd hh (by decide)

/-- A step of live `p` from a pc that is compatible with no holder: nobody holds, nothing to show. -/
theorem inv_step_bad (s t : State) (p : Pid) (hInv : Inv s) (hp : s.alive p = true)
    (hbad : ∀ w, ¬ consistent s.file w p (s.pc p))
    (hholds : ∀ w, t.holds w = true → s.holds w = true) (halive : t.alive = s.alive) : Inv t := by
  intro w hw hh ha
  rw [halive] at ha
  exact absurd ((hInv w hw (hholds w hh) ha).2 p hp) (hbad w)

/-- A step of live `p` that only moves `p`'s program counter. -/
theorem inv_setPc (s : State) (p : Pid) (c' : Pc) (hInv : Inv s) (hp : s.alive p = true)
    (hc : ∀ w, w < usizeBound → s.alive w = true → flagShows s w → consistent s.file w p (s.pc p) →
      consistent s.file w p c') : Inv (s.setPc p c') := by
  intro w hw hh ha
  have := hInv w hw hh ha
  refine ⟨this.1, ?_⟩
  intro q hq
  show consistent s.file w q (upd s.pc p c' q)
  unfold upd
  by_cases hqp : q = p
  · subst hqp
    simp only [if_true]
    exact hc w hw ha this.1 (this.2 q hq)
  · simp only [hqp, if_false]
    exact this.2 q hq

theorem content_of_flagShows {s : State} {w : Pid} {h : Ino} (hf : flagShows s w) (hh : s.file = some h) :
    s.content h = toDec w := by
  obtain ⟨h', h1, h2⟩ := hf
  rw [hh] at h1
  cases h1
  exact h2

end SwayVerif.FsLock

namespace SwayVerif.FsLock
open SwayVerif.Proc

def glpNext (p : Pid) : Ctx → Option Nat → Pc
  | .glp, _ => .idle
  | .isLocked, _ => .idle
  | .release k, r => if r.any (· ≠ p) then .glpOpen (.relMsg k) else .relRemove k
  | .relMsg _, _ => .idle

def clNext : Next → Pc
  | .done => .idle
  | .isLocked => .glpOpen .isLocked
  | .lock => .glpOpen (.release .lock)

theorem glpDone_fst (s : State) (p : Pid) (c : Ctx) (r : Option Nat) :
    (glpDone s p c r).1 = s.setPc p (glpNext p c r) := by
  cases c with
  | glp => rfl
  | isLocked => rfl
  | relMsg k => rfl
  | release k =>
    simp only [glpDone, glpNext]
    split <;> rfl

theorem clDone_fst (s : State) (p : Pid) (n : Next) (r : Ret) :
    (clDone s p n r).1 = s.setPc p (clNext n) := by
  cases n <;> rfl

theorem consistent_clNext (file : Option Ino) (w p : Pid) (n : Next) (h : okNext w p n) :
    consistent file w p (clNext n) := by
  cases n with
  | done => trivial
  | isLocked => intro _; exact Or.inr rfl
  | lock => intro hpw; exact absurd rfl (h hpw)

theorem consistent_glpNext_some (file : Option Ino) (w p : Pid) (c : Ctx) (h : okCtx w p c) :
    consistent file w p (glpNext p c (some w)) := by
  cases c with
  | glp => trivial
  | isLocked => trivial
  | relMsg k => trivial
  | release k =>
    have hne : p ≠ w := by
      intro hpw
      rcases h hpw with h | h <;> cases h
    have : (some w).any (· ≠ p) = true := by
      simp only [Option.any_some, decide_eq_true_eq]
      exact fun h => hne h.symm
    simp only [glpNext, this, if_true]
    intro hpw
    exact absurd hpw hne

end SwayVerif.FsLock

namespace SwayVerif.FsLock
open SwayVerif.Proc

section steps
variable {s t : State} {p : Pid} {r : Option Ret}

theorem step_glpOpen {c : Ctx} (hInv : Inv s) (hp : s.alive p = true) (hpc : s.pc p = .glpOpen c)
    (h : stepPc .fixed s p (.glpOpen c) = some (t, r)) : Inv t := by
  simp only [stepPc] at h
  split at h
  · rename_i hfile
    have ht : t = (glpDone s p c none).1 := by injection h with h; rw [h]
    rw [ht, glpDone_fst]
    apply inv_setPc s p _ hInv hp
    intro w _ _ hf _
    obtain ⟨h', h1, _⟩ := hf
    rw [hfile] at h1
    cases h1
  · rename_i hh hfile
    have ht : t = s.setPc p (.glpRead c hh) := by injection h with h; injection h with h1 _; exact h1.symm
    rw [ht]
    apply inv_setPc s p _ hInv hp
    intro w _ _ _ hc
    rw [hpc] at hc
    exact ⟨hc, hfile⟩

theorem step_glpRead {c : Ctx} {hh : Ino} (hInv : Inv s) (hp : s.alive p = true) (hpc : s.pc p = .glpRead c hh)
    (h : stepPc .fixed s p (.glpRead c hh) = some (t, r)) : Inv t := by
  simp only [stepPc] at h
  split at h
  · rename_i pid hpid
    have ht : t = s.setPc p (.glpActive c pid) := by injection h with h; injection h with h1 _; exact h1.symm
    rw [ht]
    apply inv_setPc s p _ hInv hp
    intro w hw _ hf hc
    rw [hpc] at hc
    rw [content_of_flagShows hf hc.2, pidOfContents_toDec w hw] at hpid
    cases hpid
    exact ⟨hc.1, rfl⟩
  · rename_i hpid
    have ht : t = (glpDone s p c none).1 := by injection h with h; rw [h]
    rw [ht, glpDone_fst]
    apply inv_setPc s p _ hInv hp
    intro w hw _ hf hc
    rw [hpc] at hc
    rw [content_of_flagShows hf hc.2, pidOfContents_toDec w hw] at hpid
    cases hpid

theorem step_glpActive {c : Ctx} {pid : Nat} (hInv : Inv s) (hp : s.alive p = true) (hpc : s.pc p = .glpActive c pid)
    (h : stepPc .fixed s p (.glpActive c pid) = some (t, r)) : Inv t := by
  simp only [stepPc] at h
  split at h
  · have ht : t = (glpDone s p c (some pid)).1 := by injection h with h; rw [h]
    rw [ht, glpDone_fst]
    apply inv_setPc s p _ hInv hp
    intro w _ _ _ hc
    rw [hpc] at hc
    rw [hc.2]
    exact consistent_glpNext_some _ _ _ _ hc.1
  · rename_i hdead
    have ht : t = s.setPc p (.glpRemove c) := by injection h with h; injection h with h1 _; exact h1.symm
    rw [ht]
    apply inv_setPc s p _ hInv hp
    intro w _ ha _ hc
    rw [hpc] at hc
    rw [hc.2] at hdead
    exact absurd ha hdead

theorem step_clReadDir {n : Next} (hInv : Inv s) (hp : s.alive p = true) (hpc : s.pc p = .clReadDir n)
    (h : stepPc .fixed s p (.clReadDir n) = some (t, r)) : Inv t := by
  have key : ∀ c', (∀ w, okNext w p n → consistent s.file w p c') → t = s.setPc p c' → Inv t := by
    intro c' hc' ht
    rw [ht]
    apply inv_setPc s p _ hInv hp
    intro w _ _ _ hc
    rw [hpc] at hc
    exact hc' w hc
  simp only [stepPc] at h
  split at h
  · apply key (clNext n) (fun w hn => consistent_clNext _ _ _ _ hn)
    rw [← clDone_fst s p n .err]; injection h with h; rw [h]
  · split at h
    · apply key (clNext n) (fun w hn => consistent_clNext _ _ _ _ hn)
      rw [← clDone_fst s p n (.cleaned 0)]; injection h with h; rw [h]
    · apply key (.clOpen n) (fun w hn => hn)
      injection h with h; injection h with h1 _; exact h1.symm

theorem step_clOpen {n : Next} (hInv : Inv s) (hp : s.alive p = true) (hpc : s.pc p = .clOpen n)
    (h : stepPc .fixed s p (.clOpen n) = some (t, r)) : Inv t := by
  have key : ∀ c', (∀ w, okNext w p n → consistent s.file w p c') → t = s.setPc p c' → Inv t := by
    intro c' hc' ht
    rw [ht]
    apply inv_setPc s p _ hInv hp
    intro w _ _ _ hc
    rw [hpc] at hc
    exact hc' w hc
  simp only [stepPc] at h
  split at h
  · apply key (clNext n) (fun w hn => consistent_clNext _ _ _ _ hn)
    rw [← clDone_fst s p n (.cleaned 0)]; injection h with h; rw [h]
  · rename_i hh hfile
    apply key (.clRead n hh) (fun w hn => ⟨hn, hfile⟩)
    injection h with h; injection h with h1 _; exact h1.symm

theorem step_clRead {n : Next} {hh : Ino} (hInv : Inv s) (hp : s.alive p = true) (hpc : s.pc p = .clRead n hh)
    (h : stepPc .fixed s p (.clRead n hh) = some (t, r)) : Inv t := by
  have key : ∀ c', (∀ w, w < usizeBound → flagShows s w → okNext w p n → s.file = some hh → consistent s.file w p c') →
      t = s.setPc p c' → Inv t := by
    intro c' hc' ht
    rw [ht]
    apply inv_setPc s p _ hInv hp
    intro w hw _ hf hc
    rw [hpc] at hc
    exact hc' w hw hf hc.1 hc.2
  simp only [stepPc] at h
  split at h
  · apply key (clNext n) (fun w _ _ hn _ => consistent_clNext _ _ _ _ hn)
    rw [← clDone_fst s p n (.cleaned 0)]; injection h with h; rw [h]
  · rename_i str hstr
    split at h
    · rename_i pid hpid
      apply key (.clActive n pid) _ (by injection h with h; injection h with h1 _; exact h1.symm)
      intro w hw hf hn hfile
      rw [content_of_flagShows hf hfile, readToString_digits _ (toDec_digits w)] at hstr
      cases hstr
      rw [trim_digits _ (toDec_digits w), parseUsize_toDec w hw] at hpid
      cases hpid
      exact ⟨hn, rfl⟩
    · rename_i hpid
      apply key (.clRemove n) _ (by injection h with h; injection h with h1 _; exact h1.symm)
      intro w hw hf hn hfile
      rw [content_of_flagShows hf hfile, readToString_digits _ (toDec_digits w)] at hstr
      cases hstr
      rw [trim_digits _ (toDec_digits w), parseUsize_toDec w hw] at hpid
      cases hpid

theorem step_clActive {n : Next} {pid : Nat} (hInv : Inv s) (hp : s.alive p = true) (hpc : s.pc p = .clActive n pid)
    (h : stepPc .fixed s p (.clActive n pid) = some (t, r)) : Inv t := by
  simp only [stepPc] at h
  split at h
  · have ht : t = (clDone s p n (.cleaned 0)).1 := by injection h with h; rw [h]
    rw [ht, clDone_fst]
    apply inv_setPc s p _ hInv hp
    intro w _ _ _ hc
    rw [hpc] at hc
    exact consistent_clNext _ _ _ _ hc.1
  · rename_i hdead
    have ht : t = s.setPc p (.clRemove n) := by injection h with h; injection h with h1 _; exact h1.symm
    rw [ht]
    apply inv_setPc s p _ hInv hp
    intro w _ ha _ hc
    rw [hpc] at hc
    rw [hc.2] at hdead
    exact absurd ha hdead

end steps
end SwayVerif.FsLock

namespace SwayVerif.FsLock
open SwayVerif.Proc

section steps2
variable {s t : State} {p : Pid} {r : Option Ret}

/-- Steps from program counters that no holder tolerates: unlinks, the rest of `lock` before the rename. -/
theorem step_bad (hInv : Inv s) (hp : s.alive p = true) {c : Pc} (hpc : s.pc p = c)
    (hc : c = .idle ∨ (∃ x, c = .glpRemove x) ∨ (∃ k, c = .relRemove k) ∨ c = .lkMkdir ∨ c = .lkCreate ∨
      (∃ h, c = .lkWrite h) ∨ c = .lkTmpCreate ∨ c = .lkTmpWrite ∨ (∃ n, c = .clRemove n))
    (h : stepPc .fixed s p c = some (t, r)) : Inv t := by
  have hbad : ∀ w, ¬ consistent s.file w p (s.pc p) := by
    intro w
    rw [hpc]
    rcases hc with rfl | ⟨x, rfl⟩ | ⟨k, rfl⟩ | rfl | rfl | ⟨h, rfl⟩ | rfl | rfl | ⟨n, rfl⟩ <;>
      first | exact fun h => h | skip
    -- idle is consistent, but an idle process takes no step
    simp [stepPc] at h
  have fin : t.holds = s.holds → t.alive = s.alive → Inv t := fun h1 h2 =>
    inv_step_bad s t p hInv hp hbad (fun w hw => by rw [h1] at hw; exact hw) h2
  rcases hc with rfl | ⟨x, rfl⟩ | ⟨k, rfl⟩ | rfl | rfl | ⟨hh, rfl⟩ | rfl | rfl | ⟨n, rfl⟩
  · simp [stepPc] at h
  · simp only [stepPc] at h
    have ht : t = (glpDone { s with file := none } p x none).1 := by injection h with h; rw [h]
    rw [glpDone_fst] at ht; subst ht; exact fin rfl rfl
  · simp only [stepPc] at h
    cases k <;> (injection h with h; injection h with h1 _; subst h1; exact fin rfl rfl)
  · simp only [stepPc] at h
    injection h with h; injection h with h1 _; subst h1; exact fin rfl rfl
  · simp [stepPc] at h
  · simp [stepPc] at h
  · simp only [stepPc] at h
    injection h with h; injection h with h1 _; subst h1; exact fin rfl rfl
  · simp only [stepPc] at h
    injection h with h; injection h with h1 _; subst h1; exact fin rfl rfl
  · simp only [stepPc] at h
    split at h
    · have ht : t = (clDone s p n .err).1 := by injection h with h; rw [h]
      rw [clDone_fst] at ht; subst ht; exact fin rfl rfl
    · have ht : t = (clDone { s with file := none } p n (.cleaned 1)).1 := by injection h with h; rw [h]
      rw [clDone_fst] at ht; subst ht; exact fin rfl rfl

/-- The publishing step: `rename(tmp, path)`, taken while every other live process is idle. -/
theorem step_lkRename (hInv : Inv s) (hp : s.alive p = true) (hpc : s.pc p = .lkRename)
    (hiso : ∀ q, q ≠ p → s.alive q = true → s.pc q = .idle)
    (h : stepPc .fixed s p .lkRename = some (t, r)) : Inv t := by
  simp only [stepPc] at h
  injection h with h; injection h with h1 _; subst h1
  intro w hw hh ha
  by_cases hwp : w = p
  · subst hwp
    refine ⟨⟨s.data.length, rfl, ?_⟩, ?_⟩
    · show (s.data ++ [toDec w]).getD s.data.length [] = toDec w
      simp
    · intro q hq
      show consistent _ w q (upd s.pc w .idle q)
      unfold upd
      by_cases hqp : q = w
      · simp [hqp, consistent]
      · simp only [hqp, if_false]
        rw [hiso q hqp hq]
        trivial
  · -- another holder would not tolerate `p` at `lkRename`
    have hh' : s.holds w = true := by
      have : upd s.holds p true w = true := hh
      simpa [upd, hwp] using this
    have := (hInv w hw hh' ha).2 p hp
    rw [hpc] at this
    exact this.elim

end steps2

theorem inv_start {s t : State} {p : Pid} {op : Op} {r : Option Ret} (hInv : Inv s)
    (h : exec .fixed s (.start p op) = some (t, r)) : Inv t := by
  simp only [exec] at h
  split at h
  · rename_i hcond
    simp only [Bool.and_eq_true, decide_eq_true_eq] at hcond
    injection h with h; injection h with h1 _; subst h1
    intro w hw hh ha
    -- holds only shrinks, alive/file/data unchanged
    have hh' : s.holds w = true ∧ (w = p → op.writes = false) := by
      by_cases hwr : op.writes = true
      · simp only [hwr, if_true] at hh
        have : upd s.holds p false w = true := hh
        by_cases hwp : w = p
        · simp [upd, hwp] at this
        · simp only [upd, hwp, if_false] at this
          exact ⟨this, fun h => absurd h hwp⟩
      · simp only [hwr] at hh
        exact ⟨hh, fun _ => by simpa using hwr⟩
    have ha' : s.alive w = true := by
      by_cases hwr : op.writes = true
      · simp only [hwr, if_true] at ha; exact ha
      · simp only [hwr] at ha; exact ha
    have base := hInv w hw hh'.1 ha'
    have hfile : (State.setPc (if op.writes = true then { s with holds := upd s.holds p false } else s) p (startPc op)).file = s.file := by
      split <;> rfl
    have hdata : (State.setPc (if op.writes = true then { s with holds := upd s.holds p false } else s) p (startPc op)).data = s.data := by
      split <;> rfl
    have halive : (State.setPc (if op.writes = true then { s with holds := upd s.holds p false } else s) p (startPc op)).alive = s.alive := by
      split <;> rfl
    have hpcs : (State.setPc (if op.writes = true then { s with holds := upd s.holds p false } else s) p (startPc op)).pc = upd s.pc p (startPc op) := by
      split <;> rfl
    refine ⟨?_, ?_⟩
    · obtain ⟨h', h1, h2⟩ := base.1
      exact ⟨h', by rw [hfile]; exact h1, by unfold State.content at *; rw [hdata]; exact h2⟩
    · intro q hq
      rw [halive] at hq
      rw [hfile, hpcs]
      unfold upd
      by_cases hqp : q = p
      · simp only [hqp, if_true]
        cases op <;> simp only [startPc, consistent, okCtx, okNext] <;> intro hpw <;>
          first
          | (simp; done)
          | (have := hh'.2 hpw.symm; simp [Op.writes] at this)
      · simp only [hqp, if_false]
        exact base.2 q hq
  · cases h

theorem inv_crash {s t : State} {p : Pid} {r : Option Ret} (hInv : Inv s)
    (h : exec .fixed s (.crash p) = some (t, r)) : Inv t := by
  simp only [exec] at h
  split at h
  · injection h with h; injection h with h1 _; subst h1
    intro w hw hh ha
    have hwp : w ≠ p := by
      intro hwp
      have : upd s.alive p false w = true := ha
      simp [upd, hwp] at this
    have ha' : s.alive w = true := by
      have : upd s.alive p false w = true := ha
      simpa [upd, hwp] using this
    have base := hInv w hw hh ha'
    refine ⟨base.1, ?_⟩
    intro q hq
    have hq' : upd s.alive p false q = true := hq
    by_cases hqp : q = p
    · simp [upd, hqp] at hq'
    · have hq'' : s.alive q = true := by simpa [upd, hqp] using hq'
      show consistent s.file w q (upd s.pc p .idle q)
      simp only [upd, hqp, if_false]
      exact base.2 q hq''
  · cases h

/-- Every step of the isolated-publish system (fixed `lock`) preserves the invariant. -/
theorem inv_step {s t : State} {l : Label} {r : Option Ret} (hInv : Inv s)
    (h : exec .fixed s l = some (t, r)) (hiso : isolated s l) : Inv t := by
  cases l with
  | start p op => exact inv_start hInv h
  | crash p => exact inv_crash hInv h
  | step p =>
    simp only [exec] at h
    split at h
    · rename_i hp
      cases hpc : s.pc p with
      | idle => rw [hpc] at h; exact step_bad hInv hp hpc (Or.inl rfl) h
      | glpOpen c => rw [hpc] at h; exact step_glpOpen hInv hp hpc h
      | glpRead c hh => rw [hpc] at h; exact step_glpRead hInv hp hpc h
      | glpActive c pid => rw [hpc] at h; exact step_glpActive hInv hp hpc h
      | glpRemove c => rw [hpc] at h; exact step_bad hInv hp hpc (Or.inr (Or.inl ⟨c, rfl⟩)) h
      | relRemove k => rw [hpc] at h; exact step_bad hInv hp hpc (Or.inr (Or.inr (Or.inl ⟨k, rfl⟩))) h
      | lkMkdir => rw [hpc] at h; exact step_bad hInv hp hpc (by simp) h
      | lkCreate => rw [hpc] at h; exact step_bad hInv hp hpc (by simp) h
      | lkWrite hh => rw [hpc] at h; exact step_bad hInv hp hpc (by simp) h
      | lkTmpCreate => rw [hpc] at h; exact step_bad hInv hp hpc (by simp) h
      | lkTmpWrite => rw [hpc] at h; exact step_bad hInv hp hpc (by simp) h
      | lkRename =>
        rw [hpc] at h
        have : ∀ q, q ≠ p → s.alive q = true → s.pc q = .idle := by
          have := hiso
          simp only [isolated, hpc, Pc.isPublish] at this
          exact this trivial
        exact step_lkRename hInv hp hpc this h
      | clReadDir n => rw [hpc] at h; exact step_clReadDir hInv hp hpc h
      | clOpen n => rw [hpc] at h; exact step_clOpen hInv hp hpc h
      | clRead n hh => rw [hpc] at h; exact step_clRead hInv hp hpc h
      | clActive n pid => rw [hpc] at h; exact step_clActive hInv hp hpc h
      | clRemove n => rw [hpc] at h; exact step_bad hInv hp hpc (by simp) h
    · cases h

theorem inv_reachable (s : State) (h : Reachable (sysIso .fixed) s) : Inv s :=
  inv_of_step (sysIso .fixed) Inv inv_init
    (fun _ _ _ hI hst => by
      obtain ⟨l, r, he, hiso⟩ := hst
      exact inv_step hI he hiso) s h

end SwayVerif.FsLock
