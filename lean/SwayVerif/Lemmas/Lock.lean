import SwayVerif.Model.Lock
/-! Helper lemmas for C20 / C21 (`Props/C20.lean`, `Props/C21.lean`). Core Lean only. -/
namespace SwayVerif.Lock

/-! ## `Res` -/

@[simp] theorem Res.bind_ok {α β : Type} (a : α) (f : α → Res β) : (Res.ok a).bind f = f a := rfl
@[simp] theorem Res.bind_err {α β : Type} (f : α → Res β) : (Res.err : Res α).bind f = .err := rfl
@[simp] theorem Res.bind_panic {α β : Type} (f : α → Res β) : (Res.panic : Res α).bind f = .panic := rfl
@[simp] theorem Res.ofOption_some {α : Type} (a : α) : Res.ofOption (some a) = .ok a := rfl
@[simp] theorem Res.ofOption_none {α : Type} : Res.ofOption (none : Option α) = .err := rfl
@[simp] theorem Res.orPanic_some {α : Type} (a : α) : Res.orPanic (some a) = .ok a := rfl
@[simp] theorem Res.orPanic_none {α : Type} : Res.orPanic (none : Option α) = .panic := rfl
@[simp] theorem Res.orElse_ok {α : Type} (a : α) (b : Res α) : (Res.ok a).orElse b = .ok a := rfl
@[simp] theorem Res.orElse_err {α : Type} (b : Res α) : (Res.err : Res α).orElse b = b := rfl

theorem Res.ofOption_ne_panic {α : Type} (o : Option α) : Res.ofOption o ≠ .panic := by
  cases o <;> simp [Res.ofOption]

theorem Res.bind_ne_panic {α β : Type} {x : Res α} {f : α → Res β}
    (hx : x ≠ .panic) (hf : ∀ a, x = .ok a → f a ≠ .panic) : x.bind f ≠ .panic := by
  cases x with
  | ok a => exact hf a rfl
  | err => simp
  | panic => exact absurd rfl hx

theorem Res.orElse_ne_panic {α : Type} {x y : Res α} (hx : x ≠ .panic) (hy : y ≠ .panic) :
    x.orElse y ≠ .panic := by
  cases x with
  | ok a => simp
  | err => simpa using hy
  | panic => exact absurd rfl hx

/-! ## Bytes -/

theorem u8len_pos (c : Char) : 0 < u8len c := by
  unfold u8len
  split
  · omega
  · split
    · omega
    · split <;> omega

@[simp] theorem blen_nil : blen [] = 0 := rfl
@[simp] theorem blen_cons (c : Char) (cs : Str) : blen (c :: cs) = u8len c + blen cs := rfl

theorem blen_append (a b : Str) : blen (a ++ b) = blen a + blen b := by
  induction a with
  | nil => simp
  | cons c cs ih => simp [ih, Nat.add_assoc]

theorem splitAtByte_zero (s : Str) : splitAtByte s 0 = some ([], s) := by
  cases s <;> rfl

theorem splitAtByte_cons_pos (c : Char) (cs : Str) (n : Nat) (h : 0 < n) :
    splitAtByte (c :: cs) n =
      if n < u8len c then none
      else match splitAtByte cs (n - u8len c) with
        | some (a, b) => some (c :: a, b)
        | none => none := by
  cases n with
  | zero => omega
  | succ n => rfl

theorem splitAtByte_append (p q : Str) : splitAtByte (p ++ q) (blen p) = some (p, q) := by
  induction p with
  | nil => simp [splitAtByte_zero]
  | cons c cs ih =>
    have h := u8len_pos c
    rw [List.cons_append, splitAtByte_cons_pos _ _ _ (by simp; omega)]
    have h1 : ¬ (blen (c :: cs) < u8len c) := by simp
    have h2 : blen (c :: cs) - u8len c = blen cs := by simp
    rw [if_neg h1, h2, ih]

theorem getFrom_append (p q : Str) : getFrom (p ++ q) (blen p) = some q := by
  simp [getFrom, splitAtByte_append]

theorem getFrom_of_startsWith {s p : Str} (h : startsWith s p = true) :
    getFrom s (blen p) = some (s.drop p.length) := by
  have hp : p <+: s := List.isPrefixOf_iff_prefix.mp h
  have := List.prefix_iff_eq_append.mp hp
  conv => lhs; rw [← this]
  exact getFrom_append _ _

theorem startsWith_append (p q : Str) : startsWith (p ++ q) p = true :=
  List.isPrefixOf_iff_prefix.mpr (List.prefix_append p q)

/-! ## No panic: the parsers -/

theorem stripPrefixPlus_ne_panic (lit s : Str) : stripPrefixPlus lit s ≠ .panic := by
  unfold stripPrefixPlus
  simp only
  split
  · rename_i h
    rw [getFrom_of_startsWith h]; simp
  · simp

theorem parsePath_ne_panic (s : Str) : parsePath s ≠ .panic := by
  unfold parsePath
  refine Res.bind_ne_panic (stripPrefixPlus_ne_panic _ _) fun a _ => ?_
  refine Res.bind_ne_panic (Res.ofOption_ne_panic _) fun b _ => ?_
  exact Res.ofOption_ne_panic _

theorem parseGit_ne_panic (ext : Ext) (s : Str) : parseGit ext s ≠ .panic := by
  unfold parseGit
  refine Res.bind_ne_panic (stripPrefixPlus_ne_panic _ _) fun a _ => ?_
  refine Res.bind_ne_panic (Res.ofOption_ne_panic _) fun b _ => ?_
  refine Res.bind_ne_panic (Res.ofOption_ne_panic _) fun c _ => ?_
  refine Res.bind_ne_panic (Res.ofOption_ne_panic _) fun d _ => ?_
  refine Res.bind_ne_panic (Res.ofOption_ne_panic _) fun e _ => ?_
  split
  · simp
  · split
    · rename_i h
      rw [getFrom_of_startsWith h]; simp
    · split
      · rename_i h
        rw [getFrom_of_startsWith h]; simp
      · split
        · simp
        · split <;> simp

theorem parseIpfs_ne_panic (ext : Ext) (s : Str) : parseIpfs ext s ≠ .panic := by
  unfold parseIpfs
  refine Res.bind_ne_panic (stripPrefixPlus_ne_panic _ _) fun a _ => ?_
  refine Res.bind_ne_panic (Res.ofOption_ne_panic _) fun b _ => ?_
  simp

theorem parseReg_ne_panic (ext : Ext) (s : Str) : parseReg ext s ≠ .panic := by
  unfold parseReg
  refine Res.bind_ne_panic (stripPrefixPlus_ne_panic _ _) fun a _ => ?_
  refine Res.bind_ne_panic (Res.ofOption_ne_panic _) fun b _ => ?_
  refine Res.bind_ne_panic (Res.ofOption_ne_panic _) fun c _ => ?_
  refine Res.bind_ne_panic (Res.ofOption_ne_panic _) fun d _ => ?_
  refine Res.bind_ne_panic (Res.ofOption_ne_panic _) fun e _ => ?_
  refine Res.bind_ne_panic (Res.ofOption_ne_panic _) fun f _ => ?_
  split
  · simp
  · refine Res.bind_ne_panic (Res.ofOption_ne_panic _) fun g _ => ?_
    simp

theorem parsePinned_ne_panic (ext : Ext) (s : Str) : parsePinned ext s ≠ .panic := by
  unfold parsePinned
  split
  · simp
  · refine Res.orElse_ne_panic ?_ (Res.orElse_ne_panic (parseGit_ne_panic _ _)
      (Res.orElse_ne_panic (parseIpfs_ne_panic _ _) (parseReg_ne_panic _ _)))
    exact Res.bind_ne_panic (parsePath_ne_panic _) fun a _ => by simp

theorem parseDepHead_ne_panic (s : Str) : parseDepHead s ≠ .panic := by
  unfold parseDepHead
  split
  · rename_i h
    refine Res.bind_ne_panic ?_ fun b _ => ?_
    · have := getFrom_of_startsWith h
      simp only [blen_cons, blen_nil] at this
      have h1 : u8len '(' + 0 = 1 := by decide
      rw [h1] at this
      rw [this]; simp
    · refine Res.bind_ne_panic (Res.ofOption_ne_panic _) fun c _ => ?_
      simp
  · simp

theorem parseDepTail_ne_panic (d : Option Str) (s : Str) : parseDepTail d s ≠ .panic := by
  unfold parseDepTail
  simp only
  refine Res.bind_ne_panic (Res.ofOption_ne_panic _) fun b _ => ?_
  split
  · simp
  · refine Res.bind_ne_panic (Res.ofOption_ne_panic _) fun c _ => ?_
    refine Res.bind_ne_panic (Res.ofOption_ne_panic _) fun d _ => ?_
    simp

theorem parsePkgDepLine_ne_panic (l : Str) : parsePkgDepLine l ≠ .panic := by
  unfold parsePkgDepLine
  exact Res.bind_ne_panic (parseDepHead_ne_panic _) fun a _ => parseDepTail_ne_panic _ _

/-! ## No panic: `to_graph` -/

theorem lookupKey_lt {keys : List Str} {k : Str} {i : Nat} (h : lookupKey keys k = some i) :
    i < keys.length := by
  induction keys generalizing i with
  | nil => simp [lookupKey] at h
  | cons x xs ih =>
    rw [lookupKey] at h
    cases hx : lookupKey xs k with
    | some j =>
      rw [hx] at h
      simp only [Option.some.injEq] at h
      have := ih hx
      simp only [List.length_cons]; omega
    | none =>
      rw [hx] at h
      simp only at h
      split at h
      · simp only [Option.some.injEq] at h; simp only [List.length_cons]; omega
      · simp at h

theorem lookupKey_isSome_of_mem {keys : List Str} {k : Str} (h : k ∈ keys) :
    (lookupKey keys k).isSome = true := by
  induction keys with
  | nil => simp at h
  | cons x xs ih =>
    simp only [lookupKey]
    cases hx : lookupKey xs k with
    | some j => simp
    | none =>
      rcases List.mem_cons.mp h with h | h
      · simp [h]
      · have := ih h
        rw [hx] at this; simp at this

theorem parseNodes_length {ext : Ext} {pkgs : List PkgLock} {nodes : List Pkg}
    (h : parseNodes ext pkgs = .ok nodes) : nodes.length = pkgs.length := by
  induction pkgs generalizing nodes with
  | nil => simp [parseNodes] at h; simp [← h]
  | cons p ps ih =>
    simp only [parseNodes] at h
    cases hp : parsePinned ext p.source with
    | ok src =>
      rw [hp] at h
      simp only [Res.bind_ok] at h
      cases hr : parseNodes ext ps with
      | ok rest =>
        rw [hr] at h
        simp only [Res.bind_ok, Res.ok.injEq] at h
        rw [← h]; simp [ih hr]
      | err => rw [hr] at h; simp at h
      | panic => rw [hr] at h; simp at h
    | err => rw [hp] at h; simp at h
    | panic => rw [hp] at h; simp at h

theorem parseNodes_ne_panic (ext : Ext) (pkgs : List PkgLock) : parseNodes ext pkgs ≠ .panic := by
  induction pkgs with
  | nil => simp [parseNodes]
  | cons p ps ih =>
    simp only [parseNodes]
    refine Res.bind_ne_panic (parsePinned_ne_panic _ _) fun a _ => ?_
    refine Res.bind_ne_panic ih fun b _ => ?_
    simp

theorem addDep_ne_panic {keys : List Str} {nodes : List Pkg} (hlen : nodes.length = keys.length)
    (node : Nat) (c : Bool) (es : List Edge) (line : Str) : addDep keys nodes node c es line ≠ .panic := by
  unfold addDep
  refine Res.bind_ne_panic (parsePkgDepLine_ne_panic _) fun a _ => ?_
  refine Res.bind_ne_panic (Res.ofOption_ne_panic _) fun b hb => ?_
  refine Res.bind_ne_panic ?_ fun d _ => by simp
  have hb' : lookupKey keys a.2.1 = some b := by
    cases h : lookupKey keys a.2.1 with
    | none => rw [h] at hb; simp at hb
    | some j => rw [h] at hb; simp at hb; rw [hb]
  have := lookupKey_lt hb'
  have hlt : b < nodes.length := by omega
  simp [List.getElem?_eq_getElem hlt]

theorem addDeps_ne_panic {keys : List Str} {nodes : List Pkg} (hlen : nodes.length = keys.length)
    (node : Nat) (c : Bool) (ls : List Str) (es : List Edge) : addDeps keys nodes node c ls es ≠ .panic := by
  induction ls generalizing es with
  | nil => simp [addDeps]
  | cons l ls ih =>
    simp only [addDeps]
    exact Res.bind_ne_panic (addDep_ne_panic hlen _ _ _ _) fun a _ => ih a

theorem addPkgs_ne_panic {names keys : List Str} {nodes : List Pkg} (hlen : nodes.length = keys.length)
    (ps : List PkgLock) (hps : ∀ p ∈ ps, pkgKey names p ∈ keys) (es : List Edge) :
    addPkgs names keys nodes ps es ≠ .panic := by
  induction ps generalizing es with
  | nil => simp [addPkgs]
  | cons p ps ih =>
    simp only [addPkgs]
    refine Res.bind_ne_panic ?_ fun a _ => ?_
    · have := lookupKey_isSome_of_mem (hps p (List.mem_cons_self))
      cases h : lookupKey keys (pkgKey names p) with
      | none => rw [h] at this; simp at this
      | some j => simp
    · refine Res.bind_ne_panic (addDeps_ne_panic hlen _ _ _ _) fun b _ => ?_
      refine Res.bind_ne_panic (addDeps_ne_panic hlen _ _ _ _) fun c _ => ?_
      exact ih (fun q hq => hps q (List.mem_cons_of_mem _ hq)) c

theorem toGraph_ne_panic (ext : Ext) (pkgs : List PkgLock) : toGraph ext pkgs ≠ .panic := by
  unfold toGraph
  simp only
  refine Res.bind_ne_panic (parseNodes_ne_panic _ _) fun nodes hn => ?_
  refine Res.bind_ne_panic ?_ fun es _ => by simp
  refine addPkgs_ne_panic ?_ pkgs ?_ []
  · simp [parseNodes_length hn]
  · intro p hp
    exact List.mem_map.mpr ⟨p, hp, rfl⟩

end SwayVerif.Lock
