import SwayVerif.Lemmas.LockRT
/-! Graph-level lemmas for C20 (`C20_roundtrip`). Core Lean only. -/
namespace SwayVerif.Lock

/-! ## Lists -/

theorem mem_insertSorted {x y : Str} {l : List Str} : y ∈ insertSorted x l ↔ y = x ∨ y ∈ l := by
  induction l with
  | nil => simp [insertSorted]
  | cons a t ih =>
    simp only [insertSorted]
    split
    · simp only [List.mem_cons, ih]
      constructor
      · rintro (h | h | h)
        · exact Or.inr (Or.inl h)
        · exact Or.inl h
        · exact Or.inr (Or.inr h)
      · rintro (h | h | h)
        · exact Or.inr (Or.inl h)
        · exact Or.inl h
        · exact Or.inr (Or.inr h)
    · simp

theorem mem_sortLines {y : Str} {l : List Str} : y ∈ sortLines l ↔ y ∈ l := by
  induction l with
  | nil => simp [sortLines]
  | cons a t ih => simp [sortLines, mem_insertSorted, ih]

theorem zipIdxFrom_map_snd {α : Type} (l : List α) (k : Nat) : (zipIdxFrom l k).map (·.2) = l := by
  induction l generalizing k with
  | nil => rfl
  | cons a t ih => simp [zipIdxFrom, ih]

theorem mem_zipIdxFrom {α : Type} {l : List α} {k i : Nat} {a : α} :
    (i, a) ∈ zipIdxFrom l k ↔ k ≤ i ∧ l[i - k]? = some a := by
  induction l generalizing k with
  | nil => simp [zipIdxFrom]
  | cons x t ih =>
    simp only [zipIdxFrom, List.mem_cons, Prod.mk.injEq, ih]
    constructor
    · rintro (⟨rfl, rfl⟩ | ⟨h1, h2⟩)
      · simp
      · refine ⟨by omega, ?_⟩
        have : i - k = (i - (k + 1)) + 1 := by omega
        rw [this]; simpa using h2
    · rintro ⟨h1, h2⟩
      by_cases hik : i = k
      · subst hik; simp at h2; exact Or.inl ⟨rfl, h2.symm⟩
      · right
        refine ⟨by omega, ?_⟩
        have : i - k = (i - (k + 1)) + 1 := by omega
        rw [this] at h2; simpa using h2

theorem pairwiseB_iff {α : Type} {r : α → α → Bool} {l : List α} :
    pairwiseB r l = true ↔ l.Pairwise (fun a b => r a b = true) := by
  induction l with
  | nil => simp [pairwiseB]
  | cons a t ih => simp [pairwiseB, List.pairwise_cons, ih, List.all_eq_true]

/-- In a list whose distinct positions are related by a symmetric `R`, two members that are not
related are equal. -/
theorem eq_of_pairwise_of_not {α : Type} {R : α → α → Prop} (hs : ∀ a b, R a b → R b a) {l : List α}
    (hp : l.Pairwise R) {a b : α} (ha : a ∈ l) (hb : b ∈ l) (h : ¬ R a b) : a = b := by
  induction l with
  | nil => simp at ha
  | cons x t ih =>
    rw [List.pairwise_cons] at hp
    rcases List.mem_cons.mp ha with rfl | ha'
    · rcases List.mem_cons.mp hb with rfl | hb'
      · rfl
      · exact absurd (hp.1 b hb') h
    · rcases List.mem_cons.mp hb with rfl | hb'
      · exact absurd (hs _ _ (hp.1 a ha')) h
      · exact ih hp.2 ha' hb'

theorem count_ge_two_of_two {α β : Type} [BEq β] [LawfulBEq β] (f : α → β) {l : List α}
    {a b : α} (ha : a ∈ l) (hb : b ∈ l) (hab : a ≠ b) (hf : f a = f b) :
    2 ≤ (l.map f).count (f a) := by
  induction l with
  | nil => simp at ha
  | cons x t ih =>
    rw [List.map_cons]
    rcases List.mem_cons.mp ha with rfl | ha'
    · rcases List.mem_cons.mp hb with rfl | hb'
      · exact absurd rfl hab
      · have : 1 ≤ (t.map f).count (f a) := by
          rw [hf]
          exact List.count_pos_iff.mpr (List.mem_map.mpr ⟨b, hb', rfl⟩)
        rw [List.count_cons_self]; omega
    · rcases List.mem_cons.mp hb with rfl | hb'
      · have : 1 ≤ (t.map f).count (f a) := List.count_pos_iff.mpr (List.mem_map.mpr ⟨a, ha', rfl⟩)
        rw [hf, List.count_cons_self, ← hf]; omega
      · have := ih ha' hb'
        have := List.count_le_count_cons (a := f a) (b := f x) (l := t.map f)
        omega

theorem lookupKey_spec {keys : List Str} {k : Str} {i : Nat} (h : lookupKey keys k = some i) :
    keys[i]? = some k := by
  induction keys generalizing i with
  | nil => simp [lookupKey] at h
  | cons x xs ih =>
    rw [lookupKey] at h
    cases hx : lookupKey xs k with
    | some j =>
      rw [hx] at h
      simp only [Option.some.injEq] at h
      subst h
      simpa using ih hx
    | none =>
      rw [hx] at h
      simp only at h
      split at h
      · rename_i hxk
        simp only [Option.some.injEq] at h
        subst h; simp [hxk]
      · simp at h

theorem dedup_of_nodup {l : List PkgLock} (h : l.Nodup) : dedup l = l := by
  induction l with
  | nil => rfl
  | cons x t ih =>
    rw [List.nodup_cons] at h
    simp [dedup, h.1, ih h.2]

/-- `l' ~ map f l` comes from a permutation of `l`. -/
theorem perm_map_inv {α β : Type} (f : α → β) {l' : List β} {l : List α} (h : l'.Perm (l.map f)) :
    ∃ l'' : List α, l''.Perm l ∧ l' = l''.map f := by
  generalize hm : l.map f = m at h
  induction h generalizing l with
  | nil =>
    have : l = [] := by simpa using hm
    exact ⟨[], by simp [this], rfl⟩
  | cons x _ ih =>
    cases l with
    | nil => simp at hm
    | cons a t =>
      simp only [List.map_cons, List.cons.injEq] at hm
      obtain ⟨t', ht, e⟩ := ih hm.2
      exact ⟨a :: t', List.Perm.cons a ht, by simp [hm.1, e]⟩
  | swap x y t =>
    cases l with
    | nil => simp at hm
    | cons a l1 =>
      cases l1 with
      | nil => simp at hm
      | cons b l2 =>
        simp only [List.map_cons, List.cons.injEq] at hm
        refine ⟨b :: a :: l2, List.Perm.swap a b l2, ?_⟩
        simp [hm.1, hm.2.1, hm.2.2]
  | trans _ _ ih1 ih2 =>
    obtain ⟨l2, h2, e2⟩ := ih2 hm
    obtain ⟨l1, h1, e1⟩ := ih1 e2.symm
    exact ⟨l1, h1.trans h2, e1⟩

/-! ## Well-formed graphs, unpacked -/

structure WFG (ext : Ext) (g : Graph) : Prop where
  node : ∀ p ∈ g.nodes, WFName p.name = true ∧ WFPinned ext p.source = true ∧ noChar '(' p.source.display = true
  nodeDistinct : g.nodes.Pairwise (fun p q => ¬ (p.name = q.name ∧ p.source.display = q.source.display))
  edge : ∀ e ∈ g.edges, e.src < g.nodes.length ∧ e.dst < g.nodes.length ∧ WFDepName e.name = true ∧ WFKind e.kind = true
  edgeDistinct : g.edges.Pairwise (fun e f => ¬ (e.src = f.src ∧ e.dst = f.dst))

theorem WFG_of {ext : Ext} {g : Graph} (h : WFGraph ext g = true) : WFG ext g := by
  simp only [WFGraph, Bool.and_eq_true, List.all_eq_true, decide_eq_true_eq, pairwiseB_iff] at h
  obtain ⟨⟨⟨h1, h2⟩, h3⟩, h4⟩ := h
  refine ⟨fun p hp => ?_, ?_, fun e he => ?_, ?_⟩
  · have := h1 p hp; exact ⟨this.1.1, this.1.2, this.2⟩
  · refine h2.imp ?_
    intro a b hab hc
    rcases (by simpa using hab : ¬a.name = b.name ∨ ¬a.source.display = b.source.display) with h | h
    · exact h hc.1
    · exact h hc.2
  · have := h3 e he; exact ⟨this.1.1.1, this.1.1.2, this.1.2, this.2⟩
  · refine h4.imp ?_
    intro a b hab hc
    rcases (by simpa using hab : ¬a.src = b.src ∨ ¬a.dst = b.dst) with h | h
    · exact h hc.1
    · exact h hc.2

theorem WFG.nodes_nodup {ext : Ext} {g : Graph} (w : WFG ext g) : g.nodes.Nodup := by
  refine w.nodeDistinct.imp ?_
  intro _ _ h e
  subst e; exact h ⟨rfl, rfl⟩

theorem WFG.node_eq {ext : Ext} {g : Graph} (w : WFG ext g) {p q : Pkg} (hp : p ∈ g.nodes) (hq : q ∈ g.nodes)
    (h : p.name = q.name ∧ p.source.display = q.source.display) : p = q :=
  eq_of_pairwise_of_not (R := fun p q => ¬ (p.name = q.name ∧ p.source.display = q.source.display))
    (fun a b hab hba => hab ⟨hba.1.symm, hba.2.symm⟩) w.nodeDistinct hp hq (fun hn => hn h)

theorem WFG.edge_eq {ext : Ext} {g : Graph} (w : WFG ext g) {e f : Edge} (he : e ∈ g.edges) (hf : f ∈ g.edges)
    (h : e.src = f.src ∧ e.dst = f.dst) : e = f :=
  eq_of_pairwise_of_not (R := fun e f => ¬ (e.src = f.src ∧ e.dst = f.dst))
    (fun a b hab hba => hab ⟨hba.1.symm, hba.2.symm⟩) w.edgeDistinct he hf (fun hn => hn h)

/-! ## Keys -/

/-- The package string of a node, as written (`names` = the names the disambiguation set is built from). -/
def keyOf (names : List Str) (p : Pkg) : Str :=
  pkgNameDisambiguated p.name p.source.display (needsDisambiguation names p.name)

theorem needsDisambiguation_perm {a b : List Str} (h : a.Perm b) (x : Str) :
    needsDisambiguation a x = needsDisambiguation b x := by
  unfold needsDisambiguation
  rw [h.count_eq]

theorem append_sep_inj {c : Char} {a a' b b' : Str} (ha : noChar c a = true) (ha' : noChar c a' = true)
    (h : a ++ c :: b = a' ++ c :: b') : a = a' ∧ b = b' := by
  have h1 := splitOnce_append_sep b ha
  have h2 := splitOnce_append_sep b' ha'
  rw [h, h2] at h1
  simp only [Option.some.injEq, Prod.mk.injEq] at h1
  exact ⟨h1.1.symm, h1.2.symm⟩

theorem WFName_parts {s : Str} (h : WFName s = true) :
    s ≠ [] ∧ noChar ' ' s = true ∧ noChar '(' s = true ∧ startOK s = true ∧ endOK s = true := by
  simp only [WFName, Bool.and_eq_true, Bool.not_eq_true', List.isEmpty_eq_false_iff] at h
  exact ⟨h.1.1.1.1, h.1.1.1.2, h.1.1.2, h.1.2, h.2⟩

/-- Distinct nodes have distinct keys. -/
theorem WFG.key_inj {ext : Ext} {g : Graph} (w : WFG ext g) {p q : Pkg} (hp : p ∈ g.nodes) (hq : q ∈ g.nodes)
    (h : keyOf (g.nodes.map (·.name)) p = keyOf (g.nodes.map (·.name)) q) : p = q := by
  have wp := WFName_parts (w.node p hp).1
  have wq := WFName_parts (w.node q hq).1
  unfold keyOf pkgNameDisambiguated pkgUniqueString at h
  by_cases dp : needsDisambiguation (g.nodes.map (·.name)) p.name = true
  · by_cases dq : needsDisambiguation (g.nodes.map (·.name)) q.name = true
    · rw [if_pos dp, if_pos dq] at h
      exact w.node_eq hp hq (append_sep_inj wp.2.1 wq.2.1 h)
    · rw [if_pos dp, if_neg dq] at h
      exfalso
      have : noChar ' ' (p.name ++ ' ' :: p.source.display) = true := by rw [h]; exact wq.2.1
      rw [noChar_append, noChar_cons] at this
      exact this.2.1 rfl
  · by_cases dq : needsDisambiguation (g.nodes.map (·.name)) q.name = true
    · rw [if_neg dp, if_pos dq] at h
      exfalso
      have : noChar ' ' (q.name ++ ' ' :: q.source.display) = true := by rw [← h]; exact wp.2.1
      rw [noChar_append, noChar_cons] at this
      exact this.2.1 rfl
    · rw [if_neg dp, if_neg dq] at h
      apply Classical.byContradiction
      intro hne
      have := count_ge_two_of_two (fun p : Pkg => p.name) hp hq hne h
      apply dp
      simp only [needsDisambiguation, decide_eq_true_eq]
      exact this

theorem WFG.keyOK {ext : Ext} {g : Graph} (w : WFG ext g) {p : Pkg} (hp : p ∈ g.nodes) (names : List Str) :
    KeyOK (keyOf names p) := by
  obtain ⟨hn, hs, hpar⟩ := w.node p hp
  obtain ⟨hne, hsp, hpn, hst, hen⟩ := WFName_parts hn
  unfold keyOf pkgNameDisambiguated pkgUniqueString
  split
  · refine ⟨by simp [hne], ?_, ?_, ?_⟩
    · cases hx : p.name with
      | nil => exact absurd hx hne
      | cons x xs => rw [hx] at hst; simpa [startOK] using hst
    · have he := EndOK_display hs
      obtain ⟨c, rest, e, _, _⟩ := head_display p.source
      have : EndOK (p.name ++ ' ' :: p.source.display) := EndOK_append_ne_nil (by simp)
        (by rw [e] at he ⊢; exact EndOK_append_ne_nil (a := [' ']) (by simp) he)
      unfold endOK
      cases hl : (p.name ++ ' ' :: p.source.display).getLast? with
      | none => rfl
      | some c => simp [this c hl]
    · rw [noChar_append, noChar_cons]
      exact ⟨hpn, by decide, hpar⟩
  · exact ⟨hne, hst, hen, hpn⟩

/-! ## The writer's records -/

/-- The record `from_node` writes for node `i`. -/
def recOf (g : Graph) (i : Nat) (p : Pkg) : PkgLock := fromNode g (g.nodes.map (·.name)) i p

def recs (g : Graph) : List PkgLock := (zipIdxFrom g.nodes 0).map fun (i, p) => recOf g i p

theorem recOf_name (g : Graph) (i : Nat) (p : Pkg) : (recOf g i p).name = p.name := rfl
theorem recOf_source (g : Graph) (i : Nat) (p : Pkg) : (recOf g i p).source = p.source.display := rfl

theorem mem_recs {g : Graph} {r : PkgLock} : r ∈ recs g ↔ ∃ i p, g.nodes[i]? = some p ∧ r = recOf g i p := by
  unfold recs
  rw [List.mem_map]
  constructor
  · rintro ⟨⟨i, p⟩, hm, rfl⟩
    rw [mem_zipIdxFrom] at hm
    exact ⟨i, p, by simpa using hm.2, rfl⟩
  · rintro ⟨i, p, h, rfl⟩
    exact ⟨(i, p), mem_zipIdxFrom.mpr ⟨Nat.zero_le _, by simpa using h⟩, rfl⟩

theorem recs_map_name (g : Graph) : (recs g).map (·.name) = g.nodes.map (·.name) := by
  unfold recs
  rw [List.map_map]
  have : ((fun r : PkgLock => r.name) ∘ fun (x : Nat × Pkg) => recOf g x.1 x.2) = (fun p : Pkg => p.name) ∘ (·.2) := by
    funext x; rfl
  rw [this, ← List.map_map, zipIdxFrom_map_snd]

theorem recs_nodup {ext : Ext} {g : Graph} (w : WFG ext g) : (recs g).Nodup := by
  have h1 : (recs g).map (fun r => (r.name, r.source)) = g.nodes.map (fun p => (p.name, p.source.display)) := by
    unfold recs
    rw [List.map_map]
    have : ((fun r : PkgLock => (r.name, r.source)) ∘ fun (x : Nat × Pkg) => recOf g x.1 x.2) =
        (fun p : Pkg => (p.name, p.source.display)) ∘ (·.2) := by
      funext x; rfl
    rw [this, ← List.map_map, zipIdxFrom_map_snd]
  have h2 : (g.nodes.map (fun p => (p.name, p.source.display))).Nodup := by
    rw [List.Nodup, List.pairwise_map]
    refine w.nodeDistinct.imp ?_
    intro a b h e
    simp only [Prod.mk.injEq] at e
    exact h e
  rw [← h1, List.Nodup, List.pairwise_map] at h2
  exact h2.imp (fun hne e => hne (by rw [e]))

theorem fromGraph_eq_recs {ext : Ext} {g : Graph} (w : WFG ext g) : fromGraph g = recs g := by
  unfold fromGraph
  exact dedup_of_nodup (recs_nodup w)

/-- The node a record is read back as. -/
def H (ext : Ext) (r : PkgLock) : Pkg :=
  ⟨r.name, match parsePinned ext r.source with
    | .ok s => s
    | _ => .member⟩

theorem H_recOf {ext : Ext} {g : Graph} (w : WFG ext g) {i : Nat} {p : Pkg} (hp : p ∈ g.nodes) :
    H ext (recOf g i p) = p := by
  unfold H
  rw [recOf_source, parsePinned_display (w.node p hp).2.1, recOf_name]

theorem parseNodes_map {ext : Ext} {L : List PkgLock} (h : ∀ r ∈ L, ∃ s, parsePinned ext r.source = .ok s) :
    parseNodes ext L = .ok (L.map (H ext)) := by
  induction L with
  | nil => rfl
  | cons r t ih =>
    obtain ⟨s, hs⟩ := h r List.mem_cons_self
    simp only [parseNodes, hs, Res.bind_ok, ih (fun r hr => h r (List.mem_cons_of_mem _ hr)), List.map_cons, H]

/-! ## The reader's context: any order `L` of the written records -/

theorem mem_of_perm_recs {g : Graph} {L : List PkgLock} (hL : L.Perm (recs g)) {r : PkgLock} :
    r ∈ L ↔ ∃ i p, g.nodes[i]? = some p ∧ r = recOf g i p := by
  rw [hL.mem_iff, mem_recs]

theorem names_perm {g : Graph} {L : List PkgLock} (hL : L.Perm (recs g)) :
    (L.map (·.name)).Perm (g.nodes.map (·.name)) := by
  rw [← recs_map_name]
  exact hL.map _

theorem pkgKey_recOf {g : Graph} {L : List PkgLock} (hL : L.Perm (recs g)) (i : Nat) (p : Pkg) :
    pkgKey (L.map (·.name)) (recOf g i p) = keyOf (g.nodes.map (·.name)) p := by
  unfold pkgKey keyOf
  rw [recOf_name, recOf_source, needsDisambiguation_perm (names_perm hL)]

theorem nodes_perm {ext : Ext} {g : Graph} (w : WFG ext g) {L : List PkgLock} (hL : L.Perm (recs g)) :
    (L.map (H ext)).Perm g.nodes := by
  have h1 : (L.map (H ext)).Perm ((recs g).map (H ext)) := hL.map _
  have h2 : (recs g).map (H ext) = g.nodes := by
    unfold recs
    rw [List.map_map]
    have : ∀ x ∈ zipIdxFrom g.nodes 0, ((H ext) ∘ fun (x : Nat × Pkg) => recOf g x.1 x.2) x = x.2 := by
      intro x hx
      obtain ⟨i, p⟩ := x
      rw [mem_zipIdxFrom] at hx
      exact H_recOf w (List.mem_of_getElem? hx.2)
    rw [List.map_congr_left this, zipIdxFrom_map_snd]
  rw [h2] at h1
  exact h1

/-- Looking up a node's key finds the position of that node among the re-read nodes. -/
theorem lookup_node {ext : Ext} {g : Graph} (w : WFG ext g) {L : List PkgLock} (hL : L.Perm (recs g))
    {p : Pkg} (hp : p ∈ g.nodes) :
    ∃ k, lookupKey (L.map (pkgKey (L.map (·.name)))) (keyOf (g.nodes.map (·.name)) p) = some k ∧
      (L.map (H ext))[k]? = some p := by
  obtain ⟨i, hi⟩ := List.mem_iff_getElem?.mp hp
  have hr : recOf g i p ∈ L := (mem_of_perm_recs hL).mpr ⟨i, p, hi, rfl⟩
  have hk : keyOf (g.nodes.map (·.name)) p ∈ L.map (pkgKey (L.map (·.name))) :=
    List.mem_map.mpr ⟨_, hr, pkgKey_recOf hL i p⟩
  have hsome := lookupKey_isSome_of_mem hk
  cases hl : lookupKey (L.map (pkgKey (L.map (·.name)))) (keyOf (g.nodes.map (·.name)) p) with
  | none => rw [hl] at hsome; simp at hsome
  | some k =>
    refine ⟨k, rfl, ?_⟩
    have hs := lookupKey_spec hl
    rw [List.getElem?_map] at hs
    cases hLk : L[k]? with
    | none => rw [hLk] at hs; simp at hs
    | some r' =>
      rw [hLk] at hs
      simp only [Option.map_some, Option.some.injEq] at hs
      obtain ⟨i', p', hi', rfl⟩ := (mem_of_perm_recs hL).mp (List.mem_of_getElem? hLk)
      rw [pkgKey_recOf hL] at hs
      have hp' : p' ∈ g.nodes := List.mem_of_getElem? hi'
      have : p' = p := w.key_inj hp' hp hs
      subst this
      rw [List.getElem?_map, hLk]
      simp [H_recOf w hp']

/-! ## Dependency lines of a node -/

def depNameOf (e : Edge) (d : Pkg) : Option Str := if e.name ≠ d.name then some e.name else none

/-- The line `from_node` writes for edge `e` whose target is the package `d`. -/
def lineOf (g : Graph) (e : Edge) (d : Pkg) : Str :=
  pkgDepLine (depNameOf e d) d.name d.source.display e.kind (needsDisambiguation (g.nodes.map (·.name)) d.name)

def isContract : DepKind → Bool
  | .library => false
  | .contract _ => true

def linesOf (c : Bool) (r : PkgLock) : List Str := if c then r.cdeps else r.deps

theorem mem_linesOf {g : Graph} {i : Nat} {p : Pkg} {c : Bool} {l : Str} :
    l ∈ linesOf c (recOf g i p) ↔
      ∃ e d, e ∈ g.edges ∧ e.src = i ∧ isContract e.kind = c ∧ g.nodes[e.dst]? = some d ∧ l = lineOf g e d := by
  unfold linesOf recOf fromNode
  cases c
  · simp only [Bool.false_eq_true, ↓reduceIte, mem_sortLines, List.mem_filterMap, List.mem_filter, decide_eq_true_eq]
    constructor
    · rintro ⟨⟨l', k⟩, ⟨e, ⟨he, hsrc⟩, hm⟩, hsel⟩
      cases hd : g.nodes[e.dst]? with
      | none => rw [hd] at hm; simp at hm
      | some d =>
        rw [hd] at hm
        simp only [Option.map_some, Option.some.injEq, Prod.mk.injEq] at hm
        obtain ⟨rfl, rfl⟩ := hm
        cases hk : e.kind with
        | library =>
          rw [hk] at hsel
          simp only [Option.some.injEq] at hsel
          exact ⟨e, d, he, hsrc, by simp [isContract, hk], hd, by rw [← hsel]; simp [lineOf, depNameOf, hk]⟩
        | contract s => rw [hk] at hsel; simp at hsel
    · rintro ⟨e, d, he, hsrc, hk, hd, rfl⟩
      cases hk' : e.kind with
      | library =>
        exact ⟨(lineOf g e d, .library), ⟨e, ⟨he, hsrc⟩, by rw [hd]; simp [lineOf, depNameOf, hk']⟩, rfl⟩
      | contract s => rw [hk'] at hk; simp [isContract] at hk
  · simp only [↓reduceIte, mem_sortLines, List.mem_filterMap, List.mem_filter, decide_eq_true_eq]
    constructor
    · rintro ⟨⟨l', k⟩, ⟨e, ⟨he, hsrc⟩, hm⟩, hsel⟩
      cases hd : g.nodes[e.dst]? with
      | none => rw [hd] at hm; simp at hm
      | some d =>
        rw [hd] at hm
        simp only [Option.map_some, Option.some.injEq, Prod.mk.injEq] at hm
        obtain ⟨rfl, rfl⟩ := hm
        cases hk : e.kind with
        | library => rw [hk] at hsel; simp at hsel
        | contract s =>
          rw [hk] at hsel
          simp only [Option.some.injEq] at hsel
          exact ⟨e, d, he, hsrc, by simp [isContract, hk], hd, by rw [← hsel]; simp [lineOf, depNameOf, hk]⟩
    · rintro ⟨e, d, he, hsrc, hk, hd, rfl⟩
      cases hk' : e.kind with
      | library => rw [hk'] at hk; simp [isContract] at hk
      | contract s =>
        exact ⟨(lineOf g e d, .contract s), ⟨e, ⟨he, hsrc⟩, by rw [hd]; simp [lineOf, depNameOf, hk']⟩, rfl⟩

theorem nodup_getElem?_inj {α : Type} {l : List α} (h : l.Nodup) {i j : Nat} {a : α}
    (hi : l[i]? = some a) (hj : l[j]? = some a) : i = j := by
  induction l generalizing i j with
  | nil => simp at hi
  | cons x t ih =>
    rw [List.nodup_cons] at h
    cases i with
    | zero =>
      cases j with
      | zero => rfl
      | succ j =>
        simp only [List.getElem?_cons_zero, Option.some.injEq] at hi
        simp only [List.getElem?_cons_succ] at hj
        subst hi
        exact absurd (List.mem_of_getElem? hj) h.1
    | succ i =>
      cases j with
      | zero =>
        simp only [List.getElem?_cons_zero, Option.some.injEq] at hj
        simp only [List.getElem?_cons_succ] at hi
        subst hj
        exact absurd (List.mem_of_getElem? hi) h.1
      | succ j =>
        simp only [List.getElem?_cons_succ] at hi hj
        rw [ih h.2 hi hj]

/-! ## The second pass of `to_graph` on the written records -/

section Reader
variable {ext : Ext} {g : Graph} {L : List PkgLock}

/-- Position of a node among the re-read nodes = what its key maps to in `pkg_to_node`. -/
def pos (g : Graph) (L : List PkgLock) (p : Pkg) : Nat :=
  (lookupKey (L.map (pkgKey (L.map (·.name)))) (keyOf (g.nodes.map (·.name)) p)).getD 0

theorem pos_spec (w : WFG ext g) (hL : L.Perm (recs g)) {p : Pkg} (hp : p ∈ g.nodes) :
    lookupKey (L.map (pkgKey (L.map (·.name)))) (keyOf (g.nodes.map (·.name)) p) = some (pos g L p) ∧
      (L.map (H ext))[pos g L p]? = some p := by
  obtain ⟨k, h1, h2⟩ := lookup_node w hL hp
  unfold pos
  rw [h1]
  exact ⟨rfl, h2⟩

theorem pos_inj (w : WFG ext g) (hL : L.Perm (recs g)) {p q : Pkg} (hp : p ∈ g.nodes) (hq : q ∈ g.nodes)
    (h : pos g L p = pos g L q) : p = q := by
  have h1 := (pos_spec w hL hp).2
  have h2 := (pos_spec w hL hq).2
  rw [h, h2] at h1
  exact (Option.some.inj h1).symm

def nodeAt (g : Graph) (i : Nat) : Pkg := (g.nodes[i]?).getD ⟨[], .member⟩

theorem nodeAt_spec {i : Nat} (h : i < g.nodes.length) : g.nodes[i]? = some (nodeAt g i) := by
  unfold nodeAt
  rw [List.getElem?_eq_getElem h]; rfl

/-- The edge `to_graph` creates for the written edge `e`. -/
def tr (g : Graph) (L : List PkgLock) (e : Edge) : Edge :=
  ⟨pos g L (nodeAt g e.src), pos g L (nodeAt g e.dst), e.name, e.kind⟩

theorem tr_pair_inj (w : WFG ext g) (hL : L.Perm (recs g)) {e f : Edge} (he : e ∈ g.edges) (hf : f ∈ g.edges)
    (h : (tr g L e).src = (tr g L f).src ∧ (tr g L e).dst = (tr g L f).dst) : e = f := by
  obtain ⟨es, ed, _, _⟩ := w.edge e he
  obtain ⟨fs, fd, _, _⟩ := w.edge f hf
  have n1 := nodeAt_spec es
  have n2 := nodeAt_spec ed
  have n3 := nodeAt_spec fs
  have n4 := nodeAt_spec fd
  have hs := pos_inj w hL (List.mem_of_getElem? n1) (List.mem_of_getElem? n3) h.1
  have hd := pos_inj w hL (List.mem_of_getElem? n2) (List.mem_of_getElem? n4) h.2
  rw [hs] at n1
  rw [hd] at n2
  exact w.edge_eq he hf ⟨nodup_getElem?_inj w.nodes_nodup n1 n3, nodup_getElem?_inj w.nodes_nodup n2 n4⟩

/-- One written line, read back: exactly `update_edge(node, pos(d), Edge { e.name, e.kind })`. -/
theorem addDep_line (w : WFG ext g) (hL : L.Perm (recs g)) {e : Edge} (he : e ∈ g.edges) {d : Pkg}
    (hd : g.nodes[e.dst]? = some d) (node : Nat) (es : List Edge) :
    addDep (L.map (pkgKey (L.map (·.name)))) (L.map (H ext)) node (isContract e.kind) es (lineOf g e d) =
      .ok (updateEdge es ⟨node, pos g L d, e.name, e.kind⟩) := by
  have hdm : d ∈ g.nodes := List.mem_of_getElem? hd
  obtain ⟨_, _, hdn, hk⟩ := w.edge e he
  have hparse := parsePkgDepLine_pkgDepLine (depNameOf e d) d.name d.source.display e.kind
    (needsDisambiguation (g.nodes.map (·.name)) d.name)
    (by intro x hx; unfold depNameOf at hx; split at hx
        · simp only [Option.some.injEq] at hx; rw [← hx]; exact hdn
        · simp at hx)
    (w.keyOK hdm _) hk
  obtain ⟨h1, h2⟩ := pos_spec w hL hdm
  unfold addDep lineOf
  rw [hparse]
  simp only [Res.bind_ok]
  have hkey : pkgNameDisambiguated d.name d.source.display (needsDisambiguation (g.nodes.map (·.name)) d.name) =
      keyOf (g.nodes.map (·.name)) d := rfl
  rw [hkey, h1]
  simp only [Res.ofOption_some, Res.bind_ok, h2, Res.orPanic_some]
  have hname : (depNameOf e d).getD d.name = e.name := by
    unfold depNameOf
    split
    · rfl
    · rename_i hne; simp only [ne_eq, Decidable.not_not] at hne; simp [hne]
  have hkind : (if isContract e.kind = true then DepKind.contract ((saltOf e.kind).getD zeroSalt) else DepKind.library) =
      e.kind := by
    cases e.kind with
    | library => simp [isContract]
    | contract s =>
      simp only [isContract, ↓reduceIte, saltOf]
      split
      · rename_i hz; simp [hz]
      · simp
  rw [hname, hkind]

/-- Invariant of the edge list while the written records are read back. -/
def Inv (g : Graph) (L : List PkgLock) (es : List Edge) : Prop :=
  (∀ x ∈ es, ∃ e ∈ g.edges, x = tr g L e) ∧ es.Pairwise (fun a b => ¬ (a.src = b.src ∧ a.dst = b.dst))

theorem updateEdge_inv (w : WFG ext g) (hL : L.Perm (recs g)) {es : List Edge} (hinv : Inv g L es)
    {e : Edge} (he : e ∈ g.edges) :
    Inv g L (updateEdge es (tr g L e)) ∧ (∀ x ∈ es, x ∈ updateEdge es (tr g L e)) ∧
      tr g L e ∈ updateEdge es (tr g L e) := by
  obtain ⟨hmem, hpw⟩ := hinv
  have key : ∀ x ∈ es, (x.src = (tr g L e).src ∧ x.dst = (tr g L e).dst) → x = tr g L e := by
    intro x hx hm
    obtain ⟨e0, he0, rfl⟩ := hmem x hx
    rw [tr_pair_inj w hL he0 he hm]
  unfold updateEdge
  by_cases hany : es.any (fun x => decide (x.src = (tr g L e).src ∧ x.dst = (tr g L e).dst)) = true
  · rw [if_pos hany]
    have hid : es.map (fun x => if x.src = (tr g L e).src ∧ x.dst = (tr g L e).dst then tr g L e else x) = es := by
      have : ∀ x ∈ es, (fun x => if x.src = (tr g L e).src ∧ x.dst = (tr g L e).dst then tr g L e else x) x = id x := by
        intro x hx
        simp only [id]
        split
        · rename_i hm; exact (key x hx hm).symm
        · rfl
      rw [List.map_congr_left this, List.map_id]
    rw [hid]
    refine ⟨⟨hmem, hpw⟩, fun x hx => hx, ?_⟩
    rw [List.any_eq_true] at hany
    obtain ⟨x, hx, hm⟩ := hany
    simp only [decide_eq_true_eq] at hm
    rw [← key x hx hm]; exact hx
  · rw [if_neg hany]
    refine ⟨⟨?_, ?_⟩, fun x hx => List.mem_append_left _ hx, by simp⟩
    · intro x hx
      rcases List.mem_append.mp hx with hx | hx
      · exact hmem x hx
      · simp only [List.mem_singleton] at hx
        exact ⟨e, he, hx⟩
    · rw [List.pairwise_append]
      refine ⟨hpw, by simp, ?_⟩
      intro a ha b hb
      simp only [List.mem_singleton] at hb
      subst hb
      intro hm
      apply hany
      rw [List.any_eq_true]
      exact ⟨a, ha, by simpa using hm⟩

/-- Reading back lines written for out-edges of node `p` (at index `i`) of one kind class. -/
theorem addDeps_lines (w : WFG ext g) (hL : L.Perm (recs g)) {i : Nat} {p : Pkg} (hi : g.nodes[i]? = some p)
    (c : Bool) (ls : List Str)
    (hls : ∀ l ∈ ls, ∃ e d, e ∈ g.edges ∧ e.src = i ∧ isContract e.kind = c ∧ g.nodes[e.dst]? = some d ∧ l = lineOf g e d)
    (es : List Edge) (hinv : Inv g L es) :
    ∃ es', addDeps (L.map (pkgKey (L.map (·.name)))) (L.map (H ext)) (pos g L p) c ls es = .ok es' ∧
      Inv g L es' ∧ (∀ x ∈ es, x ∈ es') ∧
      (∀ e d, e ∈ g.edges → e.src = i → isContract e.kind = c → g.nodes[e.dst]? = some d → lineOf g e d ∈ ls →
        tr g L e ∈ es') := by
  induction ls generalizing es with
  | nil => exact ⟨es, rfl, hinv, fun x hx => hx, by intro e d _ _ _ _ h; simp at h⟩
  | cons l ls ih =>
    obtain ⟨e0, d0, he0, hs0, hc0, hd0, rfl⟩ := hls _ List.mem_cons_self
    have htr : ∀ e d, e ∈ g.edges → e.src = i → g.nodes[e.dst]? = some d →
        (⟨pos g L p, pos g L d, e.name, e.kind⟩ : Edge) = tr g L e := by
      intro e d he hs hd
      unfold tr
      have h1 : nodeAt g e.src = p := by unfold nodeAt; rw [hs, hi]; rfl
      have h2 : nodeAt g e.dst = d := by unfold nodeAt; rw [hd]; rfl
      rw [h1, h2]
    have hstep := addDep_line w hL he0 hd0 (pos g L p) es
    rw [hc0, htr e0 d0 he0 hs0 hd0] at hstep
    obtain ⟨hinv1, hmono1, hin1⟩ := updateEdge_inv w hL hinv he0
    obtain ⟨es', hok, hinv', hmono', hadd'⟩ :=
      ih (fun l hl => hls l (List.mem_cons_of_mem _ hl)) (updateEdge es (tr g L e0)) hinv1
    refine ⟨es', ?_, hinv', fun x hx => hmono' x (hmono1 x hx), ?_⟩
    · simp only [addDeps, hstep, Res.bind_ok, hok]
    · intro e d he hs hc hd hl
      rcases List.mem_cons.mp hl with hl | hl
      · -- the same line: the step is also `update_edge(.., tr e)`
        have hstep2 := addDep_line w hL he hd (pos g L p) es
        rw [hc, htr e d he hs hd, hl, hstep] at hstep2
        have : updateEdge es (tr g L e0) = updateEdge es (tr g L e) := by
          simpa using hstep2
        have hin2 := (updateEdge_inv w hL hinv he).2.2
        rw [← this] at hin2
        exact hmono' _ hin2
      · exact hadd' e d he hs hc hd hl

/-- The second pass over any sub-list `ps` of the records. -/
theorem addPkgs_recs (w : WFG ext g) (hL : L.Perm (recs g)) (ps : List PkgLock) (hps : ∀ r ∈ ps, r ∈ L)
    (es : List Edge) (hinv : Inv g L es) :
    ∃ es', addPkgs (L.map (·.name)) (L.map (pkgKey (L.map (·.name)))) (L.map (H ext)) ps es = .ok es' ∧
      Inv g L es' ∧ (∀ x ∈ es, x ∈ es') ∧
      (∀ e ∈ g.edges, recOf g e.src (nodeAt g e.src) ∈ ps → tr g L e ∈ es') := by
  induction ps generalizing es with
  | nil => exact ⟨es, rfl, hinv, fun x hx => hx, by intro e _ h; simp at h⟩
  | cons r ps ih =>
    obtain ⟨i, p, hi, rfl⟩ := (mem_of_perm_recs hL).mp (hps r List.mem_cons_self)
    have hp : p ∈ g.nodes := List.mem_of_getElem? hi
    have hnode : lookupKey (L.map (pkgKey (L.map (·.name)))) (pkgKey (L.map (·.name)) (recOf g i p)) = some (pos g L p) := by
      rw [pkgKey_recOf hL]; exact (pos_spec w hL hp).1
    obtain ⟨es1, hok1, hinv1, hmono1, hadd1⟩ :=
      addDeps_lines w hL hi false (recOf g i p).deps (fun l hl => (mem_linesOf (c := false)).mp (by simpa [linesOf] using hl)) es hinv
    obtain ⟨es2, hok2, hinv2, hmono2, hadd2⟩ :=
      addDeps_lines w hL hi true (recOf g i p).cdeps (fun l hl => (mem_linesOf (c := true)).mp (by simpa [linesOf] using hl)) es1 hinv1
    obtain ⟨es', hok, hinv', hmono', hadd'⟩ := ih (fun r hr => hps r (List.mem_cons_of_mem _ hr)) es2 hinv2
    refine ⟨es', ?_, hinv', fun x hx => hmono' x (hmono2 x (hmono1 x hx)), ?_⟩
    · simp only [addPkgs, hnode, Res.orPanic_some, Res.bind_ok, hok1, hok2, hok]
    · intro e he hr
      rcases List.mem_cons.mp hr with hr | hr
      · -- `e` leaves the node this record was written for
        obtain ⟨hes, hed, _, _⟩ := w.edge e he
        have hsrc := nodeAt_spec hes
        have hpe : nodeAt g e.src = p := by
          have h1 : (recOf g e.src (nodeAt g e.src)).name = (recOf g i p).name := by rw [hr]
          have h2 : (recOf g e.src (nodeAt g e.src)).source = (recOf g i p).source := by rw [hr]
          exact w.node_eq (List.mem_of_getElem? hsrc) hp ⟨h1, h2⟩
        have hei : e.src = i := by
          rw [hpe] at hsrc
          exact nodup_getElem?_inj w.nodes_nodup hsrc hi
        have hdst := nodeAt_spec hed
        cases hc : isContract e.kind with
        | false =>
          have hl : lineOf g e (nodeAt g e.dst) ∈ (recOf g i p).deps := by
            have := (mem_linesOf (g := g) (i := i) (p := p) (c := false)).mpr ⟨e, _, he, hei, hc, hdst, rfl⟩
            simpa [linesOf] using this
          exact hmono' _ (hmono2 _ (hadd1 e _ he hei hc hdst hl))
        | true =>
          have hl : lineOf g e (nodeAt g e.dst) ∈ (recOf g i p).cdeps := by
            have := (mem_linesOf (g := g) (i := i) (p := p) (c := true)).mpr ⟨e, _, he, hei, hc, hdst, rfl⟩
            simpa [linesOf] using this
          exact hmono' _ (hadd2 e _ he hei hc hdst hl)
      · exact hadd' e he hr

end Reader

/-! ## Assembly -/

theorem resolved_nodup {g : Graph} (hn : g.nodes.Nodup)
    (hr : ∀ e ∈ g.edges, e.src < g.nodes.length ∧ e.dst < g.nodes.length)
    (he : g.edges.Pairwise (fun a b => ¬ (a.src = b.src ∧ a.dst = b.dst))) : g.resolved.Nodup := by
  unfold Graph.resolved
  rw [List.Nodup, List.pairwise_map]
  refine List.Pairwise.imp_of_mem ?_ he
  intro a b ha hb hab heq
  unfold resolveEdge at heq
  simp only [Prod.mk.injEq] at heq
  obtain ⟨e1, e2, _, _⟩ := heq
  obtain ⟨as, ad⟩ := hr a ha
  obtain ⟨bs, bd⟩ := hr b hb
  rw [List.getElem?_eq_getElem as] at e1
  rw [List.getElem?_eq_getElem ad] at e2
  exact hab ⟨nodup_getElem?_inj hn (List.getElem?_eq_getElem as) e1.symm,
    nodup_getElem?_inj hn (List.getElem?_eq_getElem ad) e2.symm⟩

theorem resolve_tr {ext : Ext} {g : Graph} {L : List PkgLock} (w : WFG ext g) (hL : L.Perm (recs g))
    {e : Edge} (he : e ∈ g.edges) (E : List Edge) :
    resolveEdge ⟨L.map (H ext), E⟩ (tr g L e) = resolveEdge g e := by
  obtain ⟨hs, hd, _, _⟩ := w.edge e he
  have n1 := nodeAt_spec hs
  have n2 := nodeAt_spec hd
  have p1 := (pos_spec w hL (List.mem_of_getElem? n1)).2
  have p2 := (pos_spec w hL (List.mem_of_getElem? n2)).2
  unfold resolveEdge tr
  simp only [p1, p2, n1, n2]

/-- `to_graph` of the written records, read in any order, succeeds and gives back the graph. -/
theorem toGraph_perm_recs {ext : Ext} {g : Graph} (w : WFG ext g) {L : List PkgLock} (hL : L.Perm (recs g)) :
    ∃ h, toGraph ext L = .ok h ∧ g.equiv h := by
  have hparse : parseNodes ext L = .ok (L.map (H ext)) := by
    apply parseNodes_map
    intro r hr
    obtain ⟨i, p, hi, rfl⟩ := (mem_of_perm_recs hL).mp hr
    exact ⟨p.source, by rw [recOf_source]; exact parsePinned_display (w.node p (List.mem_of_getElem? hi)).2.1⟩
  obtain ⟨E, hok, hinv, _, hadd⟩ := addPkgs_recs w hL L (fun r hr => hr) [] ⟨by simp, by simp⟩
  have hall : ∀ e ∈ g.edges, tr g L e ∈ E := by
    intro e he
    apply hadd e he
    obtain ⟨hs, _, _, _⟩ := w.edge e he
    exact (mem_of_perm_recs hL).mpr ⟨e.src, _, nodeAt_spec hs, rfl⟩
  refine ⟨⟨L.map (H ext), E⟩, ?_, (nodes_perm w hL).symm, ?_⟩
  · unfold toGraph
    simp only [hparse, Res.bind_ok, hok]
  · have hnd : (L.map (H ext)).Nodup := ((nodes_perm w hL).nodup_iff).mpr w.nodes_nodup
    have hrange : ∀ x ∈ E, x.src < (L.map (H ext)).length ∧ x.dst < (L.map (H ext)).length := by
      intro x hx
      obtain ⟨e, he, rfl⟩ := hinv.1 x hx
      obtain ⟨hs, hd, _, _⟩ := w.edge e he
      have p1 := (pos_spec w hL (List.mem_of_getElem? (nodeAt_spec hs))).2
      have p2 := (pos_spec w hL (List.mem_of_getElem? (nodeAt_spec hd))).2
      exact ⟨(List.getElem?_eq_some_iff.mp p1).1, (List.getElem?_eq_some_iff.mp p2).1⟩
    rw [List.perm_ext_iff_of_nodup
      (resolved_nodup w.nodes_nodup (fun e he => ⟨(w.edge e he).1, (w.edge e he).2.1⟩) w.edgeDistinct)
      (resolved_nodup (g := ⟨L.map (H ext), E⟩) hnd hrange hinv.2)]
    intro y
    unfold Graph.resolved
    simp only [List.mem_map]
    constructor
    · rintro ⟨e, he, hy⟩
      exact ⟨tr g L e, hall e he, by rw [resolve_tr w hL he]; exact hy⟩
    · rintro ⟨x, hx, hy⟩
      obtain ⟨e, he, rfl⟩ := hinv.1 x hx
      exact ⟨e, he, by rw [← resolve_tr w hL he E]; exact hy⟩

theorem equivB_iff (g h : Graph) : g.equivB h = true ↔ g.equiv h := by
  unfold Graph.equivB Graph.equiv
  rw [Bool.and_eq_true, List.isPerm_iff, List.isPerm_iff]

end SwayVerif.Lock
