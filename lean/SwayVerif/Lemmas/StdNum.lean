import SwayVerif.Model.StdNum
import Mathlib.Tactic.Linarith
import Mathlib.Tactic.Ring
import Mathlib.Data.Nat.Sqrt
/-!
Helper lemmas for C27 (numerics): the ALU under fixed flags, limb arithmetic of `U128`,
Newton iteration, exponentiation by squaring.
-/
namespace SwayVerif.StdNum
open SwayVerif.Word

/-- `omega` after replacing the word-size abbreviations by their numerals -/
macro "womega" : tactic => `(tactic| ((try simp only [W64, MAX64] at *) <;> omega))

theorem overflowingAdd_eq (fl : Flags) (x y : Nat) :
    overflowingAdd fl x y = .ok ⟨(x + y) / W64 % W64, (x + y) % W64⟩ := by
  simp [overflowingAdd, disablePanicOnOverflow, Word.add, capture]

theorem overflowingMul_eq (fl : Flags) (x y : Nat) :
    overflowingMul fl x y = .ok ⟨(x * y) / W64 % W64, (x * y) % W64⟩ := by
  simp [overflowingMul, disablePanicOnOverflow, Word.mul, capture]

@[simp] theorem panicOnOverflowEnabled_dflt : panicOnOverflowEnabled {} = true := rfl
@[simp] theorem panicOnUnsafeMathEnabled_dflt : panicOnUnsafeMathEnabled {} = true := rfl

theorem u64Add_dflt (a b : Nat) :
    u64Add {} a b = if a + b < W64 then .ok (a + b) else .panic .arithmeticOverflow := by
  unfold u64Add Word.add capture
  by_cases h : a + b < W64
  · have : ¬ (W64 ≤ a + b) := by omega
    simp [h, this, Nat.mod_eq_of_lt h]
  · have : W64 ≤ a + b := by omega
    simp [h, this]

theorem u64Sub_dflt (a b : Nat) :
    u64Sub {} a b = if b ≤ a then .ok (a - b) else .panic .arithmeticOverflow := by
  unfold u64Sub Word.sub
  by_cases h : a < b
  · have : ¬ b ≤ a := by omega
    simp [h, this]
  · have : b ≤ a := by omega
    simp [h, this]

theorem u64Mul_dflt (a b : Nat) :
    u64Mul {} a b = if a * b < W64 then .ok (a * b) else .panic .arithmeticOverflow := by
  unfold u64Mul Word.mul capture
  by_cases h : a * b < W64
  · have : ¬ (W64 ≤ a * b) := by omega
    simp [h, this, Nat.mod_eq_of_lt h]
  · have : W64 ≤ a * b := by omega
    simp [h, this]

theorem u64Mul_comm (fl : Flags) (a b : Nat) : u64Mul fl a b = u64Mul fl b a := by
  simp only [u64Mul, Word.mul, Nat.mul_comm]

namespace U128

theorem toNat_lt (a : U128) (h : a.wf) : a.toNat < 2 ^ 128 := by
  obtain ⟨h1, h2⟩ := h
  unfold toNat
  have : a.upper * W64 ≤ (W64 - 1) * W64 := Nat.mul_le_mul_right _ (by omega)
  norm_num at *
  omega

theorem ofNat_toNat (a : U128) (h : a.wf) : ofNat a.toNat = a := by
  obtain ⟨h1, h2⟩ := h
  cases a with
  | mk u l =>
    simp only [ofNat, toNat, mk.injEq] at *
    constructor <;> womega

theorem toNat_ofNat (n : Nat) (h : n < 2 ^ 128) : (ofNat n).toNat = n := by
  simp only [ofNat, toNat]
  have : n / W64 < W64 := by
    rw [Nat.div_lt_iff_lt_mul (by norm_num)]; norm_num at h ⊢; omega
  rw [Nat.mod_eq_of_lt this]
  womega

theorem ofNat_wf (n : Nat) : (ofNat n).wf := by
  simp only [ofNat, wf]
  constructor <;> apply Nat.mod_lt <;> norm_num


theorem assert_true : StdNum.assert true = .ok () := rfl
theorem assert_false : StdNum.assert false = .revert FAILED_ASSERT := rfl

/-- `U128::add` under default flags -/
theorem add_dflt (a b : U128) (ha : a.wf) (hb : b.wf) :
    add {} a b = if a.toNat + b.toNat < 2 ^ 128 then .ok (ofNat (a.toNat + b.toNat))
      else .revert FAILED_ASSERT := by
  obtain ⟨au, al⟩ := a
  obtain ⟨bu, bl⟩ := b
  simp only [wf] at ha hb
  obtain ⟨ha1, ha2⟩ := ha
  obtain ⟨hb1, hb2⟩ := hb
  simp only [add, overflowingAdd_eq, panicOnOverflowEnabled_dflt, toNat, ofNat, Res.ok_bind, if_true]
  by_cases h1 : au + bu < W64
  · have e1 : (au + bu) / W64 % W64 = 0 := by womega
    by_cases h2 : al + bl < W64
    · have e2 : (al + bl) / W64 % W64 = 0 := by womega
      have hs : au * W64 + al + (bu * W64 + bl) < 2 ^ 128 := by womega
      simp only [e1, e2, beq_self_eq_true, assert_true, Res.ok_bind, Nat.lt_irrefl, if_false, Res.pure_eq, hs, if_true]
      congr 2 <;> womega
    · have e2 : (al + bl) / W64 % W64 = 1 := by womega
      simp only [e1, e2, beq_self_eq_true, assert_true, Res.ok_bind, Nat.zero_lt_one, if_true]
      by_cases h3 : au + bu + 1 < W64
      · have e3 : ((au + bu) % W64 + 1) / W64 % W64 = 0 := by womega
        have hs : au * W64 + al + (bu * W64 + bl) < 2 ^ 128 := by womega
        simp only [e3, beq_self_eq_true, assert_true, Res.ok_bind, Res.pure_eq, hs, if_true]
        congr 2 <;> womega
      · have e3 : ((au + bu) % W64 + 1) / W64 % W64 = 1 := by womega
        have hs : ¬ (au * W64 + al + (bu * W64 + bl) < 2 ^ 128) := by womega
        simp only [e3, hs, ↓reduceIte]
        rfl
  · have e1 : (au + bu) / W64 % W64 = 1 := by womega
    have hs : ¬ (au * W64 + al + (bu * W64 + bl) < 2 ^ 128) := by womega
    simp only [e1, hs, ↓reduceIte]
    rfl


theorem lt_iff (a b : U128) (ha : a.wf) (hb : b.wf) : lt a b = true ↔ a.toNat < b.toNat := by
  obtain ⟨au, al⟩ := a
  obtain ⟨bu, bl⟩ := b
  simp only [wf] at ha hb
  simp only [lt, toNat, Bool.or_eq_true, Bool.and_eq_true, decide_eq_true_eq, beq_iff_eq]
  constructor
  · rintro (h | ⟨h1, h2⟩)
    · have : (au + 1) * W64 ≤ bu * W64 := Nat.mul_le_mul_right _ h
      womega
    · subst h1; omega
  · intro h
    by_cases h1 : au < bu
    · exact Or.inl h1
    · right
      have h2 : bu ≤ au := by omega
      have : bu * W64 ≤ au * W64 := Nat.mul_le_mul_right _ h2
      by_cases h3 : au = bu
      · subst h3; exact ⟨rfl, by omega⟩
      · have : (bu + 1) * W64 ≤ au * W64 := Nat.mul_le_mul_right _ (by omega)
        womega

/-- `U128::subtract` under default flags -/
theorem sub_dflt (a b : U128) (ha : a.wf) (hb : b.wf) :
    sub {} a b = if b.toNat ≤ a.toNat then .ok (ofNat (a.toNat - b.toNat))
      else .revert FAILED_ASSERT := by
  have hlt := lt_iff a b ha hb
  obtain ⟨au, al⟩ := a
  obtain ⟨bu, bl⟩ := b
  simp only [wf] at ha hb
  obtain ⟨ha1, ha2⟩ := ha
  obtain ⟨hb1, hb2⟩ := hb
  by_cases hl : lt ⟨au, al⟩ ⟨bu, bl⟩ = true
  · have h := hlt.mp hl
    have hs : ¬ ((⟨bu, bl⟩ : U128).toNat ≤ (⟨au, al⟩ : U128).toNat) := by omega
    simp only [sub, panicOnOverflowEnabled_dflt, if_true, hl, Bool.not_true, assert_false, hs, ↓reduceIte]
    rfl
  · have h : ¬ ((⟨au, al⟩ : U128).toNat < (⟨bu, bl⟩ : U128).toNat) := fun h => hl (hlt.mpr h)
    have hs : (⟨bu, bl⟩ : U128).toNat ≤ (⟨au, al⟩ : U128).toNat := by omega
    have hl' : lt ⟨au, al⟩ ⟨bu, bl⟩ = false := by simpa using hl
    simp only [toNat] at h hs
    have hu : bu ≤ au := by
      by_contra hc
      have : (au + 1) * W64 ≤ bu * W64 := Nat.mul_le_mul_right _ (by omega)
      womega
    simp only [sub, panicOnOverflowEnabled_dflt, if_true, hl', Bool.not_false, assert_true, Res.ok_bind,
      u64Sub_dflt, hu, toNat, hs, ↓reduceIte, ofNat]
    by_cases h3 : al < bl
    · have hu2 : bu + 1 ≤ au := by
        by_contra hc
        have : au = bu := by omega
        subst this; omega
      have k1 : al ≤ bl := by omega
      have k2 : 1 ≤ bl - al := by omega
      have k3 : bl - al - 1 ≤ MAX64 := by womega
      have k4 : 1 ≤ au - bu := by omega
      have : (au - bu - 1) * W64 + W64 = (au - bu) * W64 := by
        have : au - bu = (au - bu - 1) + 1 := by omega
        rw [this, Nat.add_mul]; simp
      have e0 : au * W64 = bu * W64 + (au - bu) * W64 := by
        rw [← Nat.add_mul]; congr 1; omega
      simp only [h3, k1, k2, k3, k4, ↓reduceIte, Res.ok_bind, Res.pure_eq]
      congr 2 <;> womega
    · have k1 : bl ≤ al := by omega
      have e0 : au * W64 = bu * W64 + (au - bu) * W64 := by
        rw [← Nat.add_mul]; congr 1; omega
      simp only [h3, k1, ↓reduceIte, Res.ok_bind, Res.pure_eq]
      congr 2 <;> womega


/-- the shared tail of `multiply` when one upper limb is zero: `x` (one limb) times `yu*W + yl` -/
theorem mul_tail (x yu yl : Nat) (hx : x < W64) (hyl : yl < W64) :
    let r : Res U128 := (do
      let t ← u64Mul {} x yu
      let u ← u64Add {} ((x * yl) / W64 % W64) t
      pure ⟨u, (x * yl) % W64⟩)
    (x * (yu * W64 + yl) < 2 ^ 128 → r = .ok (ofNat (x * (yu * W64 + yl)))) ∧
    (2 ^ 128 ≤ x * (yu * W64 + yl) → r.reverts = true) := by
  intro r
  have hhi : x * yl / W64 < W64 := by
    rw [Nat.div_lt_iff_lt_mul (by norm_num)]
    exact Nat.mul_lt_mul'' hx hyl
  have hexp : x * (yu * W64 + yl) = x * yu * W64 + x * yl := by ring
  have hdm : x * yl = W64 * (x * yl / W64) + x * yl % W64 := (Nat.div_add_mod _ _).symm
  have hml : x * yl % W64 < W64 := Nat.mod_lt _ (by norm_num)
  by_cases h1 : x * yu < W64
  · by_cases h2 : x * yl / W64 + x * yu < W64
    · have hr : r = .ok ⟨x * yl / W64 + x * yu, x * yl % W64⟩ := by
        simp only [r, u64Mul_dflt, h1, ↓reduceIte, Res.ok_bind, u64Add_dflt, Nat.mod_eq_of_lt hhi, h2, Res.pure_eq]
      constructor
      · intro _
        rw [hr, hexp]
        simp only [ofNat]
        congr 2 <;> womega
      · intro h; exfalso; rw [hexp] at h; womega
    · have hr : r = .panic .arithmeticOverflow := by
        simp only [r, u64Mul_dflt, h1, ↓reduceIte, Res.ok_bind, u64Add_dflt, Nat.mod_eq_of_lt hhi, h2, Res.panic_bind]
      constructor
      · intro h; exfalso; rw [hexp] at h; womega
      · intro _; rw [hr]; rfl
  · have hr : r = .panic .arithmeticOverflow := by
      simp only [r, u64Mul_dflt, h1, ↓reduceIte, Res.panic_bind]
    constructor
    · intro h; exfalso; rw [hexp] at h; womega
    · intro _; rw [hr]; rfl

/-- `U128::multiply` under default flags: exact, or reverts exactly when the product needs more than 128 bits -/
theorem mul_dflt (a b : U128) (ha : a.wf) (hb : b.wf) :
    (a.toNat * b.toNat < 2 ^ 128 → mul {} a b = .ok (ofNat (a.toNat * b.toNat))) ∧
    (2 ^ 128 ≤ a.toNat * b.toNat → (mul {} a b).reverts = true) := by
  obtain ⟨au, al⟩ := a
  obtain ⟨bu, bl⟩ := b
  simp only [wf] at ha hb
  obtain ⟨ha1, ha2⟩ := ha
  obtain ⟨hb1, hb2⟩ := hb
  by_cases h1 : au = 0
  · subst h1
    have := mul_tail al bu bl ha2 hb2
    simp only [toNat, Nat.zero_mul, Nat.zero_add]
    simpa only [mul, panicOnUnsafeMathEnabled_dflt, if_true, beq_self_eq_true, Bool.true_or, assert_true,
      Res.ok_bind, overflowingMul_eq, ↓reduceIte] using this
  · by_cases h2 : bu = 0
    · subst h2
      have := mul_tail bl au al hb2 ha2
      have e1 : (au * W64 + al) * (0 * W64 + bl) = bl * (au * W64 + al) := by ring
      have e2 : al * bl = bl * al := Nat.mul_comm _ _
      have e3 : au * bl = bl * au := Nat.mul_comm _ _
      have hau : (au == 0) = false := by simpa using h1
      simp only [toNat, e1]
      rw [u64Mul_comm] at this
      simpa only [mul, panicOnUnsafeMathEnabled_dflt, if_true, beq_self_eq_true, Bool.or_true, assert_true,
        Res.ok_bind, overflowingMul_eq, ↓reduceIte, hau, e2, e3, Bool.false_eq_true] using this
    · have hau : (au == 0) = false := by simpa using h1
      have hbu : (bu == 0) = false := by simpa using h2
      have hbig : 2 ^ 128 ≤ (au * W64 + al) * (bu * W64 + bl) := by
        have h3 : W64 ≤ au * W64 + al :=
          Nat.le_add_right_of_le (Nat.le_mul_of_pos_left W64 (Nat.pos_of_ne_zero h1))
        have h4 : W64 ≤ bu * W64 + bl :=
          Nat.le_add_right_of_le (Nat.le_mul_of_pos_left W64 (Nat.pos_of_ne_zero h2))
        calc 2 ^ 128 = W64 * W64 := by norm_num
          _ ≤ _ := Nat.mul_le_mul h3 h4
      simp only [toNat]
      constructor
      · intro h; omega
      · intro _
        simp only [mul, panicOnUnsafeMathEnabled_dflt, if_true, hau, hbu, Bool.or_self, assert_false]
        rfl

end U128

/-! ## u256 square root (Newton) -/

/-- Newton step never goes below the integer square root -/
theorem newton_ge (n x : Nat) (hx : 0 < x) : Nat.sqrt n ≤ (x + n / x) / 2 := by
  set r := Nat.sqrt n with hr
  have hrr : r * r ≤ n := Nat.sqrt_le n
  rw [Nat.le_div_iff_mul_le (by norm_num)]
  by_cases h : r * 2 ≤ x
  · generalize n / x = q
    omega
  · have hy : r * 2 - x ≤ n / x := by
      rw [Nat.le_div_iff_mul_le hx]
      have : ((r * 2 - x : ℕ) : ℤ) = (r : ℤ) * 2 - x := by omega
      have h2 : ((r * 2 - x : ℕ) : ℤ) * x ≤ (r : ℤ) * r := by
        rw [this]; nlinarith [sq_nonneg ((r : ℤ) - x)]
      have h3 : (r * 2 - x) * x ≤ r * r := by exact_mod_cast h2
      omega
    generalize n / x = q at hy
    omega

/-- above the root the quotient is at most the root -/
theorem div_le_sqrt (n x : Nat) (h : Nat.sqrt n < x) : n / x ≤ Nat.sqrt n := by
  set r := Nat.sqrt n with hr
  have h1 : n < (r + 1) * (r + 1) := Nat.lt_succ_sqrt n
  have hx : 0 < x := by omega
  have : n / x < r + 1 := by
    rw [Nat.div_lt_iff_lt_mul hx]
    calc n < (r + 1) * (r + 1) := h1
      _ ≤ (r + 1) * x := Nat.mul_le_mul_left _ (by omega)
  omega

theorem newton_lt (n x : Nat) (h : Nat.sqrt n < x) : (x + n / x) / 2 < x := by
  have := div_le_sqrt n x h
  omega

theorem newton_halves (n x : Nat) (h : Nat.sqrt n < x) :
    2 * ((x + n / x) / 2 - Nat.sqrt n) ≤ x - Nat.sqrt n := by
  have := div_le_sqrt n x h
  omega

theorem div_le_sqrt_add_two (n x : Nat) (h : Nat.sqrt n ≤ x) (hr : 0 < Nat.sqrt n) : n / x ≤ Nat.sqrt n + 2 := by
  set r := Nat.sqrt n with hrdef
  have h1 : n < (r + 1) * (r + 1) := Nat.lt_succ_sqrt n
  have : n / x ≤ n / r := Nat.div_le_div_left h hr
  have : n / r < r + 3 := by
    rw [Nat.div_lt_iff_lt_mul hr]
    nlinarith
  omega

theorem sqrt_lt_pow128 (n : Nat) (hn : n < 2 ^ 256) : Nat.sqrt n < 2 ^ 128 := by
  rw [Nat.sqrt_lt]; calc n < 2 ^ 256 := hn
    _ = 2 ^ 128 * 2 ^ 128 := by norm_num

theorem sqrt_le_half (n : Nat) (hn : 2 ≤ n) : Nat.sqrt n ≤ n / 2 := by
  set r := Nat.sqrt n with hr
  have hrr : r * r ≤ n := Nat.sqrt_le n
  by_cases h : 2 ≤ r
  · have : 2 * r ≤ r * r := Nat.mul_le_mul_right _ h
    omega
  · omega

theorem u256Div_ok (fl : Flags) (a b : Nat) (hb : b ≠ 0) : u256Div fl a b = .ok (a / b) := by
  simp [u256Div, Word.wdiv, aluError, hb]

theorem u256Add_ok (fl : Flags) (a b : Nat) (h : a + b < 2 ^ 256) : u256Add fl a b = .ok (a + b) := by
  norm_num at h
  simp [u256Add, Word.wadd, wideOverflow, Nat.not_le.mpr h, Nat.mod_eq_of_lt h]

theorem wshr_one (s : Nat) : Word.wshr 256 s 1 = s / 2 := by
  simp [Word.wshr]

theorem u256SqrtLoop_ok (fl : Flags) (n : Nat) (hn : n < 2 ^ 256) (hn2 : 2 ≤ n) :
    ∀ (f x0 : Nat), Nat.sqrt n ≤ x0 → x0 ≤ n / 2 → x0 - Nat.sqrt n < 2 ^ f →
      u256SqrtLoop fl n (f + 1) x0 ((x0 + n / x0) / 2) = .ok (Nat.sqrt n) := by
  have hr1 : 0 < Nat.sqrt n := Nat.sqrt_pos.mpr (by omega)
  have hr128 := sqrt_lt_pow128 n hn
  intro f
  induction f with
  | zero =>
    intro x0 h1 _ h3
    have : x0 = Nat.sqrt n := by omega
    subst this
    have := newton_ge n (Nat.sqrt n) hr1
    simp only [u256SqrtLoop]
    rw [if_neg (by omega)]; rfl
  | succ f ih =>
    intro x0 h1 h2 h3
    by_cases hx : Nat.sqrt n < x0
    · have hlt := newton_lt n x0 hx
      have hge := newton_ge n x0 (by omega)
      have hhalf := newton_halves n x0 hx
      set x1 := (x0 + n / x0) / 2 with hx1
      have hx1pos : x1 ≠ 0 := by omega
      have hdiv := div_le_sqrt_add_two n x1 hge hr1
      have hsum : x1 + n / x1 < 2 ^ 256 := by
        have : n / 2 < 2 ^ 255 := by omega
        have : (2:ℕ) ^ 255 + 2 ^ 128 + 2 < 2 ^ 256 := by norm_num
        omega
      rw [u256SqrtLoop]
      simp only [hlt, ↓reduceIte, u256Div_ok fl n x1 hx1pos, Res.ok_bind, u256Add_ok fl _ _ hsum, wshr_one]
      apply ih x1 hge (by omega)
      have : 2 ^ (f + 1) = 2 * 2 ^ f := by ring
      omega
    · have : x0 = Nat.sqrt n := by omega
      subst this
      have := newton_ge n (Nat.sqrt n) hr1
      rw [u256SqrtLoop, if_neg (by omega)]; rfl

theorem u256SqrtLoop_fuel_mono (fl : Flags) (n : Nat) :
    ∀ (f g x0 x1 : Nat) (r : Nat), f ≤ g → u256SqrtLoop fl n f x0 x1 = .ok r → u256SqrtLoop fl n g x0 x1 = .ok r := by
  intro f
  induction f with
  | zero => intro g x0 x1 r _ h; simp [u256SqrtLoop] at h
  | succ f ih =>
    intro g x0 x1 r hg h
    obtain ⟨g', rfl⟩ : ∃ g', g = g' + 1 := ⟨g - 1, by omega⟩
    rw [u256SqrtLoop] at h ⊢
    by_cases hlt : x1 < x0
    · simp only [hlt, ↓reduceIte] at h ⊢
      cases hq : u256Div fl n x1 with
      | ok q =>
        rw [hq] at h; simp only [Res.ok_bind] at h ⊢
        cases hs : u256Add fl x1 q with
        | ok s => rw [hs] at h; simp only [Res.ok_bind] at h ⊢; exact ih g' _ _ r (by omega) h
        | revert c => rw [hs] at h; simp at h
        | panic p => rw [hs] at h; simp at h
        | fuel => rw [hs] at h; simp at h
      | revert c => rw [hq] at h; simp at h
      | panic p => rw [hq] at h; simp at h
      | fuel => rw [hq] at h; simp at h
    · simp only [hlt, ↓reduceIte] at h ⊢; exact h

/-- `u256::sqrt` returns the floor square root for every 256-bit input, under any flags; in particular the
Newton loop terminates within `SQRT_FUEL` iterations and `x0 + self / x0` never overflows. -/
theorem u256Sqrt_eq (fl : Flags) (n : Nat) (hn : n < 2 ^ 256) : u256Sqrt fl n = .ok (Nat.sqrt n) := by
  unfold u256Sqrt
  simp only [wshr_one]
  by_cases h0 : n / 2 = 0
  · have : n = 0 ∨ n = 1 := by omega
    rcases this with rfl | rfl <;> simp
  · have hn2 : 2 ≤ n := by omega
    simp only [h0, ↓reduceIte, u256Div_ok fl n _ h0]
    have hq : n / (n / 2) ≤ 3 := by
      have : n / (n / 2) < 4 := by
        rw [Nat.div_lt_iff_lt_mul (by omega)]; omega
      omega
    have hsum : n / 2 + n / (n / 2) < 2 ^ 256 := by omega
    simp only [Res.ok_bind, u256Add_ok fl _ _ hsum]
    have hhalf := sqrt_le_half n hn2
    have h := u256SqrtLoop_ok fl n hn hn2 255 (n / 2) hhalf (le_refl _) (by omega)
    exact u256SqrtLoop_fuel_mono fl n 256 SQRT_FUEL _ _ _ (by decide) h


/-! ## pow -/

theorem expChecked_eq (b c : Nat) : expChecked b c = if b ^ c < W64 then some (b ^ c) else none := by
  unfold expChecked
  by_cases hb : b < 2
  · have : b = 0 ∨ b = 1 := by omega
    rcases this with rfl | rfl
    · by_cases hc : c = 0
      · subst hc; simp
      · simp [hc, Nat.zero_pow (Nat.pos_of_ne_zero hc)]
    · by_cases hc : c = 0 <;> simp [hc]
  · simp only [hb, ↓reduceIte]
    by_cases hc : 64 ≤ c
    · have : W64 ≤ b ^ c := by
        calc W64 = 2 ^ 64 := by norm_num
          _ ≤ 2 ^ c := Nat.pow_le_pow_right (by norm_num) hc
          _ ≤ b ^ c := Nat.pow_le_pow_left (by omega) c
      simp [hc, Nat.not_lt.mpr this]
    · simp [hc]

/-- the outcome of an overflowing operation whose result is documented as 0 under `F_WRAPPING` -/
def overflowOutcome (fl : Flags) : Res Nat := if fl.wrapping then .ok 0 else .panic .arithmeticOverflow

theorem u64Pow_eq (fl : Flags) (x e : Nat) :
    u64Pow fl x e = if x ^ e < W64 then .ok (x ^ e) else overflowOutcome fl := by
  unfold u64Pow Word.exp boolOverflow overflowOutcome
  rw [expChecked_eq]
  by_cases h : x ^ e < W64
  · simp [h]
  · cases hw : fl.wrapping <;> simp [h, hw]

theorem u256CheckedMul_eq (fl : Flags) (a b : Nat) :
    u256CheckedMul fl a b = if a * b < 2 ^ 256 then .ok (some (a * b))
      else if fl.wrapping then .ok none else .panic .arithmeticOverflow := by
  unfold u256CheckedMul Word.wmul wideOverflow
  by_cases h : a * b < 2 ^ 256
  · have h' : ¬ (2 ^ 256 ≤ a * b) := by omega
    simp only [h', decide_false, Bool.false_eq_true, false_and, ↓reduceIte, Nat.mod_eq_of_lt h, Res.ok_bind, h]
    simp
  · have h' : 2 ^ 256 ≤ a * b := by omega
    simp only [h', decide_true, true_and, h, ↓reduceIte]
    cases hw : fl.wrapping <;> simp only [↓reduceIte, Bool.false_eq_true, Res.panic_bind, Res.ok_bind] <;> rfl

theorem and_one (x : Nat) : Word.and x 1 = x % 2 := by
  simp [Word.and, Nat.and_one_is_mod]

theorem srl_one (x : Nat) : Word.srl x 1 = x / 2 := by
  simp [Word.srl]

/-- exponentiation by squaring: exact, or the overflow outcome exactly when the true power needs more than
256 bits. `acc ≥ 1 ∨ base = 0` is the loop invariant that makes every intermediate product a lower
bound of the final one. -/
theorem u256PowLoop_eq (fl : Flags) : ∀ (f exp base acc : Nat), 1 ≤ exp → exp < 2 ^ f → (1 ≤ acc ∨ base = 0) →
    u256PowLoop fl f exp base acc =
      if acc * base ^ exp < 2 ^ 256 then .ok (acc * base ^ exp) else overflowOutcome fl := by
  intro f
  induction f with
  | zero => intro exp base acc h1 h2; omega
  | succ f ih =>
    intro exp base acc h1 h2 hinv
    rw [u256PowLoop]
    by_cases hgt : 1 < exp
    · simp only [hgt, ↓reduceIte, and_one, srl_one]
      have hk1 : 1 ≤ exp / 2 := by omega
      have hk2 : exp / 2 < 2 ^ f := by
        have : 2 ^ (f + 1) = 2 * 2 ^ f := by ring
        omega
      by_cases hb0 : base = 0
      · subst hb0
        have e1 : (0:ℕ) ^ exp = 0 := Nat.zero_pow (by omega)
        have e2 : (0:ℕ) ^ (exp / 2) = 0 := Nat.zero_pow (by omega)
        have hi := ih (exp / 2) 0 0 hk1 hk2 (Or.inr rfl)
        have hi' := ih (exp / 2) 0 acc hk1 hk2 (Or.inr rfl)
        have hz' : (0:ℕ) < 2 ^ 256 := Nat.pow_pos (by norm_num)
        simp only [e2, Nat.mul_zero, hz', ↓reduceIte] at hi hi'
        have hz : (0:ℕ) < 2 ^ 256 := Nat.pow_pos (by norm_num)
        by_cases hodd : exp % 2 = 1
        · simp only [hodd, ↓reduceIte, u256CheckedMul_eq, Nat.mul_zero, hz, hi, e1]
        · simp only [hodd, ↓reduceIte, u256CheckedMul_eq, Nat.mul_zero, hz, hi', e1]
      · have hb1 : 1 ≤ base := Nat.pos_of_ne_zero hb0
        have ha1 : 1 ≤ acc := by rcases hinv with h | h; exact h; exact absurd h hb0
        have hsq : 1 ≤ (base * base) ^ (exp / 2) := Nat.one_le_pow _ _ (Nat.mul_pos hb1 hb1)
        have hsq2 : base * base ≤ (base * base) ^ (exp / 2) := by
          calc base * base = (base * base) ^ 1 := (pow_one _).symm
            _ ≤ (base * base) ^ (exp / 2) := Nat.pow_le_pow_right (Nat.mul_pos hb1 hb1) hk1
        by_cases hodd : exp % 2 = 1
        · have hT : acc * base ^ exp = (acc * base) * (base * base) ^ (exp / 2) := by
            have : exp = 2 * (exp / 2) + 1 := by omega
            conv_lhs => rw [this, pow_succ, pow_mul, sq]
            ring
          simp only [hodd, ↓reduceIte, u256CheckedMul_eq]
          by_cases ho1 : acc * base < 2 ^ 256
          · simp only [ho1, ↓reduceIte]
            by_cases ho2 : base * base < 2 ^ 256
            · simp only [ho2, ↓reduceIte]
              rw [ih (exp / 2) (base * base) (acc * base) hk1 hk2 (Or.inl (Nat.mul_pos ha1 hb1)), hT]
            · have hbig : ¬ (acc * base ^ exp < 2 ^ 256) := by
                rw [hT]
                have : base * base ≤ acc * base * (base * base) ^ (exp / 2) :=
                  le_trans hsq2 (Nat.le_mul_of_pos_left _ (Nat.mul_pos ha1 hb1))
                omega
              simp only [ho2, hbig, ↓reduceIte, overflowOutcome]; cases fl.wrapping <;> rfl
          · have hbig : ¬ (acc * base ^ exp < 2 ^ 256) := by
              rw [hT]
              have : acc * base ≤ acc * base * (base * base) ^ (exp / 2) := Nat.le_mul_of_pos_right _ hsq
              omega
            simp only [ho1, hbig, ↓reduceIte, overflowOutcome]; cases fl.wrapping <;> rfl
        · have hT : acc * base ^ exp = acc * (base * base) ^ (exp / 2) := by
            have : exp = 2 * (exp / 2) := by omega
            conv_lhs => rw [this, pow_mul, sq]
          have hodd' : ¬ (exp % 2 = 1) := hodd
          simp only [hodd', ↓reduceIte, u256CheckedMul_eq]
          by_cases ho2 : base * base < 2 ^ 256
          · simp only [ho2, ↓reduceIte]
            rw [ih (exp / 2) (base * base) acc hk1 hk2 (Or.inl ha1), hT]
          · have hbig : ¬ (acc * base ^ exp < 2 ^ 256) := by
              rw [hT]
              have : base * base ≤ acc * (base * base) ^ (exp / 2) :=
                le_trans hsq2 (Nat.le_mul_of_pos_left _ ha1)
              omega
            simp only [ho2, hbig, ↓reduceIte, overflowOutcome]; cases fl.wrapping <;> rfl
    · have : exp = 1 := by omega
      subst this
      simp only [Nat.lt_irrefl, ↓reduceIte, u256CheckedMul_eq, pow_one]
      by_cases ho : acc * base < 2 ^ 256
      · simp only [ho, ↓reduceIte]; rfl
      · simp only [ho, ↓reduceIte, overflowOutcome]; cases fl.wrapping <;> rfl

/-- `u256::pow`: exact when the power fits in 256 bits; otherwise VM panic (default flags) / 0 (`F_WRAPPING`). -/
theorem u256Pow_eq (fl : Flags) (x e : Nat) (he : e < 2 ^ 32) :
    u256Pow fl x e = if x ^ e < 2 ^ 256 then .ok (x ^ e) else overflowOutcome fl := by
  unfold u256Pow
  by_cases h0 : e = 0
  · subst h0
    have : (1:ℕ) < 2 ^ 256 := Nat.one_lt_two_pow (by norm_num)
    simp only [↓reduceIte, pow_zero, this]; rfl
  · simp only [h0, ↓reduceIte]
    rw [u256PowLoop_eq fl 33 e x 1 (by omega) (by omega) (Or.inl (le_refl _))]
    simp only [Nat.one_mul]


/-! ## log, log2 -/

/-- repeated division computes the floor logarithm -/
theorem ilogAux_spec (b : Nat) (hb : 2 ≤ b) : ∀ (f n : Nat), 1 ≤ n → n < 2 ^ f →
    b ^ (ilogAux b f n) ≤ n ∧ n < b ^ (ilogAux b f n + 1) := by
  intro f
  induction f with
  | zero => intro n h1 h2; simp at h2; omega
  | succ f ih =>
    intro n h1 h2
    rw [ilogAux]
    by_cases c : n < b
    · simp [c]; omega
    · simp only [c, ↓reduceIte]
      have hbpos : 0 < b := by omega
      have hq1 : 1 ≤ n / b := by
        rw [Nat.le_div_iff_mul_le hbpos]; omega
      have hq2 : n / b < 2 ^ f := by
        rw [Nat.div_lt_iff_lt_mul hbpos]
        have : 2 ^ (f + 1) = 2 ^ f * 2 := by ring
        calc n < 2 ^ f * 2 := by omega
          _ ≤ 2 ^ f * b := Nat.mul_le_mul_left _ hb
      obtain ⟨i1, i2⟩ := ih (n / b) hq1 hq2
      constructor
      · calc b ^ (ilogAux b f (n / b) + 1) = b ^ (ilogAux b f (n / b)) * b := pow_succ _ _
          _ ≤ (n / b) * b := Nat.mul_le_mul_right _ i1
          _ ≤ n := Nat.div_mul_le_self n b
      · rw [Nat.div_lt_iff_lt_mul hbpos] at i2
        calc n < b ^ (ilogAux b f (n / b) + 1) * b := i2
          _ = b ^ (ilogAux b f (n / b) + 1 + 1) := (pow_succ _ _).symm

/-- the floor logarithm is unique -/
theorem log_unique (b : Nat) (hb : 2 ≤ b) (n k m : Nat) (h1 : b ^ k ≤ n) (h2 : n < b ^ (k + 1))
    (h3 : b ^ m ≤ n) (h4 : n < b ^ (m + 1)) : k = m := by
  by_contra hne
  rcases Nat.lt_or_gt_of_ne hne with h | h
  · have : b ^ (k + 1) ≤ b ^ m := Nat.pow_le_pow_right (by omega) h
    omega
  · have : b ^ (m + 1) ≤ b ^ k := Nat.pow_le_pow_right (by omega) h
    omega

theorem ilog2_eq_log2 (a : Nat) (h1 : 1 ≤ a) (h2 : a < 2 ^ 64) : ilog 2 a = Nat.log2 a := by
  obtain ⟨i1, i2⟩ := ilogAux_spec 2 (le_refl _) 64 a h1 h2
  have ha : a ≠ 0 := by omega
  exact log_unique 2 (le_refl _) a _ _ i1 i2 (Nat.log2_self_le ha) Nat.lt_log2_self

/-- `u64::log` (the `mlog` instruction) while panic-on-unsafe-math is enabled -/
theorem u64Log_safe (fl : Flags) (hf : fl.unsafeMath = false) (x b : Nat) :
    U128.u64Log fl x b = if x = 0 ∨ b ≤ 1 then .panic .arithmeticError else .ok (ilog b x) := by
  unfold U128.u64Log Word.mlog aluError
  by_cases c : x = 0 ∨ b ≤ 1
  · have : (x == 0 || decide (b ≤ 1)) = true := by
      rcases c with c | c <;> simp [c]
    simp [this, c, hf]
  · have : (x == 0 || decide (b ≤ 1)) = false := by
      simp only [not_or] at c
      simp [c.1, c.2]
    simp [this, c]

theorem log2_shift (n a s : Nat) (ha : a = n / 2 ^ s) (h0 : a ≠ 0) : Nat.log2 n = Nat.log2 a + s := by
  have hn : n ≠ 0 := by
    intro h; subst h; simp at ha; exact h0 ha
  have i1 : 2 ^ Nat.log2 a ≤ a := Nat.log2_self_le h0
  have i2 : a < 2 ^ (Nat.log2 a + 1) := Nat.lt_log2_self
  have hp : 0 < 2 ^ s := Nat.pow_pos (by norm_num)
  have j1 : 2 ^ (Nat.log2 a + s) ≤ n := by
    rw [pow_add]
    calc 2 ^ Nat.log2 a * 2 ^ s ≤ a * 2 ^ s := Nat.mul_le_mul_right _ i1
      _ ≤ n := by rw [ha]; exact Nat.div_mul_le_self n _
  have j2 : n < 2 ^ (Nat.log2 a + s + 1) := by
    have : Nat.log2 a + s + 1 = (Nat.log2 a + 1) + s := by omega
    rw [this, pow_add, ← Nat.div_lt_iff_lt_mul hp, ← ha]
    exact i2
  exact log_unique 2 (le_refl _) n _ _ (Nat.log2_self_le hn) Nat.lt_log2_self j1 j2

/-- `u256::log2` while panic-on-unsafe-math is enabled: reverts on 0, otherwise the position of the
highest set bit -/
theorem u256Log2_safe (fl : Flags) (hf : fl.unsafeMath = false) (n : Nat) (hn : n < 2 ^ 256) :
    u256Log2 fl n = if n = 0 then .revert FAILED_ASSERT else .ok (Nat.log2 n) := by
  unfold u256Log2
  by_cases h0 : n = 0
  · subst h0; simp [panicOnUnsafeMathEnabled, hf]
  · simp only [h0, and_false, ↓reduceIte]
    have limb : ∀ a, a ≠ 0 → a < W64 → U128.u64Log fl a 2 = .ok (Nat.log2 a) := by
      intro a ha1 ha2
      have : ¬ (a = 0 ∨ 2 ≤ 1) := by omega
      rw [u64Log_safe fl hf, if_neg this, ilog2_eq_log2 a (by omega) ha2]
    have l64 : ∀ a, a < W64 → Nat.log2 a < 64 := by
      intro a ha
      by_cases hz : a = 0
      · subst hz; simp [Nat.log2]
      · rw [Nat.log2_lt hz]; exact ha
    have hA : n / 2 ^ 192 < W64 := by
      rw [Nat.div_lt_iff_lt_mul (Nat.pow_pos (by norm_num))]
      calc n < 2 ^ 256 := hn
        _ = W64 * 2 ^ 192 := by norm_num
    by_cases ca : n / 2 ^ 192 ≠ 0
    · rw [if_pos ca]; simp only [limb _ ca hA, Res.ok_bind]
      have := l64 _ hA
      rw [u256Add_ok _ _ _ (by have : (64:ℕ) + 0xc0 < 2 ^ 256 := by norm_num
                               omega)]
      rw [log2_shift n _ 192 rfl ca]
    · rw [if_neg ca]
      have hB : n / 2 ^ 128 % W64 < W64 := Nat.mod_lt _ (by norm_num)
      have ca' : n / 2 ^ 192 = 0 := by omega
      have hn192 : n < 2 ^ 192 := by
        by_contra hc
        have : 1 ≤ n / 2 ^ 192 := by
          rw [Nat.le_div_iff_mul_le (Nat.pow_pos (by norm_num))]; omega
        omega
      have eB : n / 2 ^ 128 % W64 = n / 2 ^ 128 := by
        apply Nat.mod_eq_of_lt
        rw [Nat.div_lt_iff_lt_mul (Nat.pow_pos (by norm_num))]
        calc n < 2 ^ 192 := hn192
          _ = W64 * 2 ^ 128 := by norm_num
      by_cases cb : n / 2 ^ 128 % W64 ≠ 0
      · rw [if_pos cb]; simp only [limb _ cb hB, Res.ok_bind]
        have := l64 _ hB
        rw [u256Add_ok _ _ _ (by have : (64:ℕ) + 0x80 < 2 ^ 256 := by norm_num
                                 omega)]
        rw [eB] at cb ⊢
        rw [log2_shift n _ 128 rfl cb]
      · rw [if_neg cb]
        have hn128 : n < 2 ^ 128 := by
          by_contra hc
          have : 1 ≤ n / 2 ^ 128 := by
            rw [Nat.le_div_iff_mul_le (Nat.pow_pos (by norm_num))]; omega
          omega
        have hC : n / 2 ^ 64 % W64 < W64 := Nat.mod_lt _ (by norm_num)
        have eC : n / 2 ^ 64 % W64 = n / 2 ^ 64 := by
          apply Nat.mod_eq_of_lt
          rw [Nat.div_lt_iff_lt_mul (Nat.pow_pos (by norm_num))]
          calc n < 2 ^ 128 := hn128
            _ = W64 * 2 ^ 64 := by norm_num
        by_cases cc : n / 2 ^ 64 % W64 ≠ 0
        · rw [if_pos cc]; simp only [limb _ cc hC, Res.ok_bind]
          have := l64 _ hC
          rw [u256Add_ok _ _ _ (by have : (64:ℕ) + 0x40 < 2 ^ 256 := by norm_num
                                   omega)]
          rw [eC] at cc ⊢
          rw [log2_shift n _ 64 rfl cc]
        · rw [if_neg cc]
          have hn64 : n < 2 ^ 64 := by
            by_contra hc
            have : 1 ≤ n / 2 ^ 64 := by
              rw [Nat.le_div_iff_mul_le (Nat.pow_pos (by norm_num))]; omega
            omega
          have eD : n % W64 = n := Nat.mod_eq_of_lt hn64
          have cd : n % W64 ≠ 0 := by rw [eD]; exact h0
          rw [if_pos cd]
          rw [limb _ cd (Nat.mod_lt _ (by norm_num)), eD]


theorem u256Sub_one (fl : Flags) (r : Nat) (h : 1 ≤ r) : u256Sub fl r 1 = .ok (r - 1) := by
  have : ¬ r < 1 := by omega
  simp [u256Sub, Word.wsub, this]

/-- what `base.pow(r)` returns inside `log` (panic on overflow disabled) -/
def powOf (b r : Nat) : Nat := if b ^ r < 2 ^ 256 then b ^ r else 0

theorem u256Pow_wrapping (fl : Flags) (hw : fl.wrapping = true) (b r : Nat) (hr : r < 2 ^ 32) :
    u256Pow fl b r = .ok (powOf b r) := by
  rw [u256Pow_eq fl b r hr]
  unfold powOf overflowOutcome
  by_cases h : b ^ r < 2 ^ 256
  · simp only [h, ↓reduceIte]
  · simp only [h, ↓reduceIte, hw]

/-- the correction loop of `u256::log` walks down from any over-estimate to the floor logarithm -/
theorem u256LogLoop_ok (fl : Flags) (hw : fl.wrapping = true) (x b L : Nat) (hb : 2 ≤ b) (hx : x < 2 ^ 256)
    (h1 : b ^ L ≤ x) (h2 : x < b ^ (L + 1)) :
    ∀ (f r : Nat), L ≤ r → r < f → f ≤ 2 ^ 32 → u256LogLoop fl x b f r (powOf b r) = .ok L := by
  intro f
  induction f with
  | zero => intro r _ h; omega
  | succ f ih =>
    intro r hLr hrf hf
    rw [u256LogLoop]
    by_cases c : r = L
    · subst c
      have hp : powOf b r = b ^ r := by
        unfold powOf; rw [if_pos (by omega)]
      have hpos : 0 < b ^ r := Nat.pow_pos (by omega)
      have : ¬ (x < powOf b r ∨ powOf b r = 0) := by rw [hp]; omega
      rw [if_neg this]; rfl
    · have hgt : L + 1 ≤ r := by omega
      have hbig : x < b ^ r := lt_of_lt_of_le h2 (Nat.pow_le_pow_right (by omega) hgt)
      have : x < powOf b r ∨ powOf b r = 0 := by
        unfold powOf
        by_cases hh : b ^ r < 2 ^ 256
        · left; rw [if_pos hh]; exact hbig
        · right; rw [if_neg hh]
      rw [if_pos this]
      have hr1 : 1 ≤ r := by omega
      have hmod : (r - 1) % W64 = r - 1 := by
        apply Nat.mod_eq_of_lt
        have : (2:ℕ) ^ 32 < W64 := by norm_num
        omega
      simp only [u256Sub_one fl r hr1, Res.ok_bind, hmod, u256Pow_wrapping fl hw b (r - 1) (by omega)]
      exact ih (r - 1) (by omega) (by omega) (by omega)

/-- `u256::log` (with the `fix:`): reverts for base < 2 or self = 0, otherwise returns the floor
logarithm `L`, `b^L ≤ x < b^(L+1)`. -/
theorem u256Log_dflt (x b : Nat) (hx : x < 2 ^ 256) (hb : b < 2 ^ 256) :
    (b < 2 ∨ x = 0 → u256Log {} x b = .revert FAILED_ASSERT) ∧
    (2 ≤ b → 1 ≤ x → ∃ L, u256Log {} x b = .ok L ∧ b ^ L ≤ x ∧ x < b ^ (L + 1)) := by
  have hfl : (disablePanicOnOverflow {}).unsafeMath = false := rfl
  have hwl : (disablePanicOnOverflow {}).wrapping = true := rfl
  have hpu : panicOnUnsafeMathEnabled (disablePanicOnOverflow {}) = true := rfl
  constructor
  · intro h
    unfold u256Log
    simp only [hpu, true_and]
    by_cases c : b < 2
    · simp [c]
    · have : x = 0 := by rcases h with h | h; exact absurd h c; exact h
      simp [c, this]
  · intro h2b h1x
    unfold u256Log
    have c1 : ¬ b < 2 := by omega
    have c2 : ¬ x = 0 := by omega
    simp only [hpu, true_and, c1, c2, ↓reduceIte, not_true_eq_false, false_and, or_self]
    by_cases c3 : x < b
    · refine ⟨0, by simp [c3], by simpa using h1x, by simpa using c3⟩
    · simp only [c3, ↓reduceIte]
      have hb0 : b ≠ 0 := by omega
      obtain ⟨i1, i2⟩ := ilogAux_spec b h2b 256 x h1x hx
      set L := ilogAux b 256 x with hL
      have hlb1 : 1 ≤ Nat.log2 b := by
        by_contra hc
        have : Nat.log2 b < 1 := by omega
        rw [Nat.log2_lt hb0] at this
        omega
      have hls : Nat.log2 x < 256 := by rw [Nat.log2_lt c2]; exact hx
      -- the estimate is an over-estimate
      have hest : L ≤ Nat.log2 x / Nat.log2 b := by
        rw [Nat.le_div_iff_mul_le (by omega)]
        have e1 : 2 ^ (Nat.log2 b * L) ≤ b ^ L := by
          rw [pow_mul]; exact Nat.pow_le_pow_left (Nat.log2_self_le hb0) L
        have e2 : x < 2 ^ (Nat.log2 x + 1) := Nat.lt_log2_self
        have e3 : 2 ^ (Nat.log2 b * L) < 2 ^ (Nat.log2 x + 1) := by omega
        have e4 := (Nat.pow_lt_pow_iff_right (by norm_num : 1 < 2)).mp e3
        rw [Nat.mul_comm]; omega
      have hr0 : Nat.log2 x / Nat.log2 b < 256 := lt_of_le_of_lt (Nat.div_le_self _ _) hls
      have hmod : Nat.log2 x / Nat.log2 b % W64 = Nat.log2 x / Nat.log2 b := by
        apply Nat.mod_eq_of_lt; have : (256:ℕ) < W64 := by norm_num
        omega
      have hlbne : Nat.log2 b ≠ 0 := by omega
      refine ⟨L, ?_, i1, i2⟩
      simp only [u256Log2_safe _ hfl x hx, c2, ↓reduceIte, Res.ok_bind, u256Log2_safe _ hfl b hb, hb0,
        u256Div_ok _ _ _ hlbne, hmod, u256Pow_wrapping _ hwl b _ (by omega : Nat.log2 x / Nat.log2 b < 2 ^ 32)]
      exact u256LogLoop_ok _ hwl x b L h2b hx i1 i2 300 _ hest (by omega) (by norm_num)

end SwayVerif.StdNum
