import SwayVerif.Model.StdNum
import Mathlib.Tactic.Linarith
import Mathlib.Tactic.Ring
import Mathlib.Data.Nat.Sqrt
/-!
Helper lemmas for C27 (numerics): the ALU under fixed flags, limb arithmetic of `U128`,
Newton iteration, exponentiation by squaring.
-/
namespace SwayVerif.StdNum
open SwayVerif.Word

/-- `omega` after replacing the word-size abbreviations by their numerals -/
macro "womega" : tactic => `(tactic| ((try simp only [W64, MAX64] at *) <;> omega))

theorem overflowingAdd_eq (fl : Flags) (x y : Nat) :
    overflowingAdd fl x y = .ok ⟨(x + y) / W64 % W64, (x + y) % W64⟩ := by
  simp [overflowingAdd, disablePanicOnOverflow, Word.add, capture]

theorem overflowingMul_eq (fl : Flags) (x y : Nat) :
    overflowingMul fl x y = .ok ⟨(x * y) / W64 % W64, (x * y) % W64⟩ := by
  simp [overflowingMul, disablePanicOnOverflow, Word.mul, capture]

@[simp] theorem panicOnOverflowEnabled_dflt : panicOnOverflowEnabled {} = true := rfl
@[simp] theorem panicOnUnsafeMathEnabled_dflt : panicOnUnsafeMathEnabled {} = true := rfl

theorem u64Add_dflt (a b : Nat) :
    u64Add {} a b = if a + b < W64 then .ok (a + b) else .panic .arithmeticOverflow := by
  unfold u64Add Word.add capture
  by_cases h : a + b < W64
  · have : ¬ (W64 ≤ a + b) := by omega
    simp [h, this, Nat.mod_eq_of_lt h]
  · have : W64 ≤ a + b := by omega
    simp [h, this]

theorem u64Sub_dflt (a b : Nat) :
    u64Sub {} a b = if b ≤ a then .ok (a - b) else .panic .arithmeticOverflow := by
  unfold u64Sub Word.sub
  by_cases h : a < b
  · have : ¬ b ≤ a := by omega
    simp [h, this]
  · have : b ≤ a := by omega
    simp [h, this]

theorem u64Mul_dflt (a b : Nat) :
    u64Mul {} a b = if a * b < W64 then .ok (a * b) else .panic .arithmeticOverflow := by
  unfold u64Mul Word.mul capture
  by_cases h : a * b < W64
  · have : ¬ (W64 ≤ a * b) := by omega
    simp [h, this, Nat.mod_eq_of_lt h]
  · have : W64 ≤ a * b := by omega
    simp [h, this]

theorem u64Mul_comm (fl : Flags) (a b : Nat) : u64Mul fl a b = u64Mul fl b a := by
  simp only [u64Mul, Word.mul, Nat.mul_comm]

namespace U128

theorem toNat_lt (a : U128) (h : a.wf) : a.toNat < 2 ^ 128 := by
  obtain ⟨h1, h2⟩ := h
  unfold toNat
  have : a.upper * W64 ≤ (W64 - 1) * W64 := Nat.mul_le_mul_right _ (by omega)
  norm_num at *
  omega

theorem ofNat_toNat (a : U128) (h : a.wf) : ofNat a.toNat = a := by
  obtain ⟨h1, h2⟩ := h
  cases a with
  | mk u l =>
    simp only [ofNat, toNat, mk.injEq] at *
    constructor <;> womega

theorem toNat_ofNat (n : Nat) (h : n < 2 ^ 128) : (ofNat n).toNat = n := by
  simp only [ofNat, toNat]
  have : n / W64 < W64 := by
    rw [Nat.div_lt_iff_lt_mul (by norm_num)]; norm_num at h ⊢; omega
  rw [Nat.mod_eq_of_lt this]
  womega

theorem ofNat_wf (n : Nat) : (ofNat n).wf := by
  simp only [ofNat, wf]
  constructor <;> apply Nat.mod_lt <;> norm_num


theorem assert_true : StdNum.assert true = .ok () := rfl
theorem assert_false : StdNum.assert false = .revert FAILED_ASSERT := rfl

/-- `U128::add` under default flags -/
theorem add_dflt (a b : U128) (ha : a.wf) (hb : b.wf) :
    add {} a b = if a.toNat + b.toNat < 2 ^ 128 then .ok (ofNat (a.toNat + b.toNat))
      else .revert FAILED_ASSERT := by
  obtain ⟨au, al⟩ := a
  obtain ⟨bu, bl⟩ := b
  simp only [wf] at ha hb
  obtain ⟨ha1, ha2⟩ := ha
  obtain ⟨hb1, hb2⟩ := hb
  simp only [add, overflowingAdd_eq, panicOnOverflowEnabled_dflt, toNat, ofNat, Res.ok_bind, if_true]
  by_cases h1 : au + bu < W64
  · have e1 : (au + bu) / W64 % W64 = 0 := by womega
    by_cases h2 : al + bl < W64
    · have e2 : (al + bl) / W64 % W64 = 0 := by womega
      have hs : au * W64 + al + (bu * W64 + bl) < 2 ^ 128 := by womega
      simp only [e1, e2, beq_self_eq_true, assert_true, Res.ok_bind, Nat.lt_irrefl, if_false, Res.pure_eq, hs, if_true]
      congr 2 <;> womega
    · have e2 : (al + bl) / W64 % W64 = 1 := by womega
      simp only [e1, e2, beq_self_eq_true, assert_true, Res.ok_bind, Nat.zero_lt_one, if_true]
      by_cases h3 : au + bu + 1 < W64
      · have e3 : ((au + bu) % W64 + 1) / W64 % W64 = 0 := by womega
        have hs : au * W64 + al + (bu * W64 + bl) < 2 ^ 128 := by womega
        simp only [e3, beq_self_eq_true, assert_true, Res.ok_bind, Res.pure_eq, hs, if_true]
        congr 2 <;> womega
      · have e3 : ((au + bu) % W64 + 1) / W64 % W64 = 1 := by womega
        have hs : ¬ (au * W64 + al + (bu * W64 + bl) < 2 ^ 128) := by womega
        simp only [e3, hs, ↓reduceIte]
        rfl
  · have e1 : (au + bu) / W64 % W64 = 1 := by womega
    have hs : ¬ (au * W64 + al + (bu * W64 + bl) < 2 ^ 128) := by womega
    simp only [e1, hs, ↓reduceIte]
    rfl


theorem lt_iff (a b : U128) (ha : a.wf) (hb : b.wf) : lt a b = true ↔ a.toNat < b.toNat := by
  obtain ⟨au, al⟩ := a
  obtain ⟨bu, bl⟩ := b
  simp only [wf] at ha hb
  simp only [lt, toNat, Bool.or_eq_true, Bool.and_eq_true, decide_eq_true_eq, beq_iff_eq]
  constructor
  · rintro (h | ⟨h1, h2⟩)
    · have : (au + 1) * W64 ≤ bu * W64 := Nat.mul_le_mul_right _ h
      womega
    · subst h1; omega
  · intro h
    by_cases h1 : au < bu
    · exact Or.inl h1
    · right
      have h2 : bu ≤ au := by omega
      have : bu * W64 ≤ au * W64 := Nat.mul_le_mul_right _ h2
      by_cases h3 : au = bu
      · subst h3; exact ⟨rfl, by omega⟩
      · have : (bu + 1) * W64 ≤ au * W64 := Nat.mul_le_mul_right _ (by omega)
        womega

/-- `U128::subtract` under default flags -/
theorem sub_dflt (a b : U128) (ha : a.wf) (hb : b.wf) :
    sub {} a b = if b.toNat ≤ a.toNat then .ok (ofNat (a.toNat - b.toNat))
      else .revert FAILED_ASSERT := by
  have hlt := lt_iff a b ha hb
  obtain ⟨au, al⟩ := a
  obtain ⟨bu, bl⟩ := b
  simp only [wf] at ha hb
  obtain ⟨ha1, ha2⟩ := ha
  obtain ⟨hb1, hb2⟩ := hb
  by_cases hl : lt ⟨au, al⟩ ⟨bu, bl⟩ = true
  · have h := hlt.mp hl
    have hs : ¬ ((⟨bu, bl⟩ : U128).toNat ≤ (⟨au, al⟩ : U128).toNat) := by omega
    simp only [sub, panicOnOverflowEnabled_dflt, if_true, hl, Bool.not_true, assert_false, hs, ↓reduceIte]
    rfl
  · have h : ¬ ((⟨au, al⟩ : U128).toNat < (⟨bu, bl⟩ : U128).toNat) := fun h => hl (hlt.mpr h)
    have hs : (⟨bu, bl⟩ : U128).toNat ≤ (⟨au, al⟩ : U128).toNat := by omega
    have hl' : lt ⟨au, al⟩ ⟨bu, bl⟩ = false := by simpa using hl
    simp only [toNat] at h hs
    have hu : bu ≤ au := by
      by_contra hc
      have : (au + 1) * W64 ≤ bu * W64 := Nat.mul_le_mul_right _ (by omega)
      womega
    simp only [sub, panicOnOverflowEnabled_dflt, if_true, hl', Bool.not_false, assert_true, Res.ok_bind,
      u64Sub_dflt, hu, toNat, hs, ↓reduceIte, ofNat]
    by_cases h3 : al < bl
    · have hu2 : bu + 1 ≤ au := by
        by_contra hc
        have : au = bu := by omega
        subst this; omega
      have k1 : al ≤ bl := by omega
      have k2 : 1 ≤ bl - al := by omega
      have k3 : bl - al - 1 ≤ MAX64 := by womega
      have k4 : 1 ≤ au - bu := by omega
      have : (au - bu - 1) * W64 + W64 = (au - bu) * W64 := by
        have : au - bu = (au - bu - 1) + 1 := by omega
        rw [this, Nat.add_mul]; simp
      have e0 : au * W64 = bu * W64 + (au - bu) * W64 := by
        rw [← Nat.add_mul]; congr 1; omega
      simp only [h3, k1, k2, k3, k4, ↓reduceIte, Res.ok_bind, Res.pure_eq]
      congr 2 <;> womega
    · have k1 : bl ≤ al := by omega
      have e0 : au * W64 = bu * W64 + (au - bu) * W64 := by
        rw [← Nat.add_mul]; congr 1; omega
      simp only [h3, k1, ↓reduceIte, Res.ok_bind, Res.pure_eq]
      congr 2 <;> womega


/-- the shared tail of `multiply` when one upper limb is zero: `x` (one limb) times `yu*W + yl` -/
theorem mul_tail (x yu yl : Nat) (hx : x < W64) (hyl : yl < W64) :
    let r : Res U128 := (do
      let t ← u64Mul {} x yu
      let u ← u64Add {} ((x * yl) / W64 % W64) t
      pure ⟨u, (x * yl) % W64⟩)
    (x * (yu * W64 + yl) < 2 ^ 128 → r = .ok (ofNat (x * (yu * W64 + yl)))) ∧
    (2 ^ 128 ≤ x * (yu * W64 + yl) → r.reverts = true) := by
  intro r
  have hhi : x * yl / W64 < W64 := by
    rw [Nat.div_lt_iff_lt_mul (by norm_num)]
    exact Nat.mul_lt_mul'' hx hyl
  have hexp : x * (yu * W64 + yl) = x * yu * W64 + x * yl := by ring
  have hdm : x * yl = W64 * (x * yl / W64) + x * yl % W64 := (Nat.div_add_mod _ _).symm
  have hml : x * yl % W64 < W64 := Nat.mod_lt _ (by norm_num)
  by_cases h1 : x * yu < W64
  · by_cases h2 : x * yl / W64 + x * yu < W64
    · have hr : r = .ok ⟨x * yl / W64 + x * yu, x * yl % W64⟩ := by
        simp only [r, u64Mul_dflt, h1, ↓reduceIte, Res.ok_bind, u64Add_dflt, Nat.mod_eq_of_lt hhi, h2, Res.pure_eq]
      constructor
      · intro _
        rw [hr, hexp]
        simp only [ofNat]
        congr 2 <;> womega
      · intro h; exfalso; rw [hexp] at h; womega
    · have hr : r = .panic .arithmeticOverflow := by
        simp only [r, u64Mul_dflt, h1, ↓reduceIte, Res.ok_bind, u64Add_dflt, Nat.mod_eq_of_lt hhi, h2, Res.panic_bind]
      constructor
      · intro h; exfalso; rw [hexp] at h; womega
      · intro _; rw [hr]; rfl
  · have hr : r = .panic .arithmeticOverflow := by
      simp only [r, u64Mul_dflt, h1, ↓reduceIte, Res.panic_bind]
    constructor
    · intro h; exfalso; rw [hexp] at h; womega
    · intro _; rw [hr]; rfl

/-- `U128::multiply` under default flags: exact, or reverts exactly when the product needs more than 128 bits -/
theorem mul_dflt (a b : U128) (ha : a.wf) (hb : b.wf) :
    (a.toNat * b.toNat < 2 ^ 128 → mul {} a b = .ok (ofNat (a.toNat * b.toNat))) ∧
    (2 ^ 128 ≤ a.toNat * b.toNat → (mul {} a b).reverts = true) := by
  obtain ⟨au, al⟩ := a
  obtain ⟨bu, bl⟩ := b
  simp only [wf] at ha hb
  obtain ⟨ha1, ha2⟩ := ha
  obtain ⟨hb1, hb2⟩ := hb
  by_cases h1 : au = 0
  · subst h1
    have := mul_tail al bu bl ha2 hb2
    simp only [toNat, Nat.zero_mul, Nat.zero_add]
    simpa only [mul, panicOnUnsafeMathEnabled_dflt, if_true, beq_self_eq_true, Bool.true_or, assert_true,
      Res.ok_bind, overflowingMul_eq, ↓reduceIte] using this
  · by_cases h2 : bu = 0
    · subst h2
      have := mul_tail bl au al hb2 ha2
      have e1 : (au * W64 + al) * (0 * W64 + bl) = bl * (au * W64 + al) := by ring
      have e2 : al * bl = bl * al := Nat.mul_comm _ _
      have e3 : au * bl = bl * au := Nat.mul_comm _ _
      have hau : (au == 0) = false := by simpa using h1
      simp only [toNat, e1]
      rw [u64Mul_comm] at this
      simpa only [mul, panicOnUnsafeMathEnabled_dflt, if_true, beq_self_eq_true, Bool.or_true, assert_true,
        Res.ok_bind, overflowingMul_eq, ↓reduceIte, hau, e2, e3, Bool.false_eq_true] using this
    · have hau : (au == 0) = false := by simpa using h1
      have hbu : (bu == 0) = false := by simpa using h2
      have hbig : 2 ^ 128 ≤ (au * W64 + al) * (bu * W64 + bl) := by
        have h3 : W64 ≤ au * W64 + al :=
          Nat.le_add_right_of_le (Nat.le_mul_of_pos_left W64 (Nat.pos_of_ne_zero h1))
        have h4 : W64 ≤ bu * W64 + bl :=
          Nat.le_add_right_of_le (Nat.le_mul_of_pos_left W64 (Nat.pos_of_ne_zero h2))
        calc 2 ^ 128 = W64 * W64 := by norm_num
          _ ≤ _ := Nat.mul_le_mul h3 h4
      simp only [toNat]
      constructor
      · intro h; omega
      · intro _
        simp only [mul, panicOnUnsafeMathEnabled_dflt, if_true, hau, hbu, Bool.or_self, assert_false]
        rfl

end U128

/-! ## u256 square root (Newton) -/

/-- Newton step never goes below the integer square root -/
theorem newton_ge (n x : Nat) (hx : 0 < x) : Nat.sqrt n ≤ (x + n / x) / 2 := by
  set r := Nat.sqrt n with hr
  have hrr : r * r ≤ n := Nat.sqrt_le n
  rw [Nat.le_div_iff_mul_le (by norm_num)]
  by_cases h : r * 2 ≤ x
  · generalize n / x = q
    omega
  · have hy : r * 2 - x ≤ n / x := by
      rw [Nat.le_div_iff_mul_le hx]
      have : ((r * 2 - x : ℕ) : ℤ) = (r : ℤ) * 2 - x := by omega
      have h2 : ((r * 2 - x : ℕ) : ℤ) * x ≤ (r : ℤ) * r := by
        rw [this]; nlinarith [sq_nonneg ((r : ℤ) - x)]
      have h3 : (r * 2 - x) * x ≤ r * r := by exact_mod_cast h2
      omega
    generalize n / x = q at hy
    omega

/-- above the root the quotient is at most the root -/
theorem div_le_sqrt (n x : Nat) (h : Nat.sqrt n < x) : n / x ≤ Nat.sqrt n := by
  set r := Nat.sqrt n with hr
  have h1 : n < (r + 1) * (r + 1) := Nat.lt_succ_sqrt n
  have hx : 0 < x := by omega
  have : n / x < r + 1 := by
    rw [Nat.div_lt_iff_lt_mul hx]
    calc n < (r + 1) * (r + 1) := h1
      _ ≤ (r + 1) * x := Nat.mul_le_mul_left _ (by omega)
  omega

theorem newton_lt (n x : Nat) (h : Nat.sqrt n < x) : (x + n / x) / 2 < x := by
  have := div_le_sqrt n x h
  omega

theorem newton_halves (n x : Nat) (h : Nat.sqrt n < x) :
    2 * ((x + n / x) / 2 - Nat.sqrt n) ≤ x - Nat.sqrt n := by
  have := div_le_sqrt n x h
  omega

theorem div_le_sqrt_add_two (n x : Nat) (h : Nat.sqrt n ≤ x) (hr : 0 < Nat.sqrt n) : n / x ≤ Nat.sqrt n + 2 := by
  set r := Nat.sqrt n with hrdef
  have h1 : n < (r + 1) * (r + 1) := Nat.lt_succ_sqrt n
  have : n / x ≤ n / r := Nat.div_le_div_left h hr
  have : n / r < r + 3 := by
    rw [Nat.div_lt_iff_lt_mul hr]
    nlinarith
  omega

theorem sqrt_lt_pow128 (n : Nat) (hn : n < 2 ^ 256) : Nat.sqrt n < 2 ^ 128 := by
  rw [Nat.sqrt_lt]; calc n < 2 ^ 256 := hn
    _ = 2 ^ 128 * 2 ^ 128 := by norm_num

theorem sqrt_le_half (n : Nat) (hn : 2 ≤ n) : Nat.sqrt n ≤ n / 2 := by
  set r := Nat.sqrt n with hr
  have hrr : r * r ≤ n := Nat.sqrt_le n
  by_cases h : 2 ≤ r
  · have : 2 * r ≤ r * r := Nat.mul_le_mul_right _ h
    omega
  · omega

theorem u256Div_ok (fl : Flags) (a b : Nat) (hb : b ≠ 0) : u256Div fl a b = .ok (a / b) := by
  simp [u256Div, Word.wdiv, aluError, hb]

theorem u256Add_ok (fl : Flags) (a b : Nat) (h : a + b < 2 ^ 256) : u256Add fl a b = .ok (a + b) := by
  norm_num at h
  simp [u256Add, Word.wadd, wideOverflow, Nat.not_le.mpr h, Nat.mod_eq_of_lt h]

theorem wshr_one (s : Nat) : Word.wshr 256 s 1 = s / 2 := by
  simp [Word.wshr]

theorem u256SqrtLoop_ok (fl : Flags) (n : Nat) (hn : n < 2 ^ 256) (hn2 : 2 ≤ n) :
    ∀ (f x0 : Nat), Nat.sqrt n ≤ x0 → x0 ≤ n / 2 → x0 - Nat.sqrt n < 2 ^ f →
      u256SqrtLoop fl n (f + 1) x0 ((x0 + n / x0) / 2) = .ok (Nat.sqrt n) := by
  have hr1 : 0 < Nat.sqrt n := Nat.sqrt_pos.mpr (by omega)
  have hr128 := sqrt_lt_pow128 n hn
  intro f
  induction f with
  | zero =>
    intro x0 h1 _ h3
    have : x0 = Nat.sqrt n := by omega
    subst this
    have := newton_ge n (Nat.sqrt n) hr1
    simp only [u256SqrtLoop]
    rw [if_neg (by omega)]; rfl
  | succ f ih =>
    intro x0 h1 h2 h3
    by_cases hx : Nat.sqrt n < x0
    · have hlt := newton_lt n x0 hx
      have hge := newton_ge n x0 (by omega)
      have hhalf := newton_halves n x0 hx
      set x1 := (x0 + n / x0) / 2 with hx1
      have hx1pos : x1 ≠ 0 := by omega
      have hdiv := div_le_sqrt_add_two n x1 hge hr1
      have hsum : x1 + n / x1 < 2 ^ 256 := by
        have : n / 2 < 2 ^ 255 := by omega
        have : (2:ℕ) ^ 255 + 2 ^ 128 + 2 < 2 ^ 256 := by norm_num
        omega
      rw [u256SqrtLoop]
      simp only [hlt, ↓reduceIte, u256Div_ok fl n x1 hx1pos, Res.ok_bind, u256Add_ok fl _ _ hsum, wshr_one]
      apply ih x1 hge (by omega)
      have : 2 ^ (f + 1) = 2 * 2 ^ f := by ring
      omega
    · have : x0 = Nat.sqrt n := by omega
      subst this
      have := newton_ge n (Nat.sqrt n) hr1
      rw [u256SqrtLoop, if_neg (by omega)]; rfl

theorem u256SqrtLoop_fuel_mono (fl : Flags) (n : Nat) :
    ∀ (f g x0 x1 : Nat) (r : Nat), f ≤ g → u256SqrtLoop fl n f x0 x1 = .ok r → u256SqrtLoop fl n g x0 x1 = .ok r := by
  intro f
  induction f with
  | zero => intro g x0 x1 r _ h; simp [u256SqrtLoop] at h
  | succ f ih =>
    intro g x0 x1 r hg h
    obtain ⟨g', rfl⟩ : ∃ g', g = g' + 1 := ⟨g - 1, by omega⟩
    rw [u256SqrtLoop] at h ⊢
    by_cases hlt : x1 < x0
    · simp only [hlt, ↓reduceIte] at h ⊢
      cases hq : u256Div fl n x1 with
      | ok q =>
        rw [hq] at h; simp only [Res.ok_bind] at h ⊢
        cases hs : u256Add fl x1 q with
        | ok s => rw [hs] at h; simp only [Res.ok_bind] at h ⊢; exact ih g' _ _ r (by omega) h
        | revert c => rw [hs] at h; simp at h
        | panic p => rw [hs] at h; simp at h
        | fuel => rw [hs] at h; simp at h
      | revert c => rw [hq] at h; simp at h
      | panic p => rw [hq] at h; simp at h
      | fuel => rw [hq] at h; simp at h
    · simp only [hlt, ↓reduceIte] at h ⊢; exact h

/-- `u256::sqrt` returns the floor square root for every 256-bit input, under any flags; in particular the
Newton loop terminates within `SQRT_FUEL` iterations and `x0 + self / x0` never overflows. -/
theorem u256Sqrt_eq (fl : Flags) (n : Nat) (hn : n < 2 ^ 256) : u256Sqrt fl n = .ok (Nat.sqrt n) := by
  unfold u256Sqrt
  simp only [wshr_one]
  by_cases h0 : n / 2 = 0
  · have : n = 0 ∨ n = 1 := by omega
    rcases this with rfl | rfl <;> simp
  · have hn2 : 2 ≤ n := by omega
    simp only [h0, ↓reduceIte, u256Div_ok fl n _ h0]
    have hq : n / (n / 2) ≤ 3 := by
      have : n / (n / 2) < 4 := by
        rw [Nat.div_lt_iff_lt_mul (by omega)]; omega
      omega
    have hsum : n / 2 + n / (n / 2) < 2 ^ 256 := by omega
    simp only [Res.ok_bind, u256Add_ok fl _ _ hsum]
    have hhalf := sqrt_le_half n hn2
    have h := u256SqrtLoop_ok fl n hn hn2 255 (n / 2) hhalf (le_refl _) (by omega)
    exact u256SqrtLoop_fuel_mono fl n 256 SQRT_FUEL _ _ _ (by decide) h


/-! ## pow -/

theorem expChecked_eq (b c : Nat) : expChecked b c = if b ^ c < W64 then some (b ^ c) else none := by
  unfold expChecked
  by_cases hb : b < 2
  · have : b = 0 ∨ b = 1 := by omega
    rcases this with rfl | rfl
    · by_cases hc : c = 0
      · subst hc; simp
      · simp [hc, Nat.zero_pow (Nat.pos_of_ne_zero hc)]
    · by_cases hc : c = 0 <;> simp [hc]
  · simp only [hb, ↓reduceIte]
    by_cases hc : 64 ≤ c
    · have : W64 ≤ b ^ c := by
        calc W64 = 2 ^ 64 := by norm_num
          _ ≤ 2 ^ c := Nat.pow_le_pow_right (by norm_num) hc
          _ ≤ b ^ c := Nat.pow_le_pow_left (by omega) c
      simp [hc, Nat.not_lt.mpr this]
    · simp [hc]

/-- the outcome of an overflowing operation whose result is documented as 0 under `F_WRAPPING` -/
def overflowOutcome (fl : Flags) : Res Nat := if fl.wrapping then .ok 0 else .panic .arithmeticOverflow

theorem u64Pow_eq (fl : Flags) (x e : Nat) :
    u64Pow fl x e = if x ^ e < W64 then .ok (x ^ e) else overflowOutcome fl := by
  unfold u64Pow Word.exp boolOverflow overflowOutcome
  rw [expChecked_eq]
  by_cases h : x ^ e < W64
  · simp [h]
  · cases hw : fl.wrapping <;> simp [h, hw]

theorem u256CheckedMul_eq (fl : Flags) (a b : Nat) :
    u256CheckedMul fl a b = if a * b < 2 ^ 256 then .ok (some (a * b))
      else if fl.wrapping then .ok none else .panic .arithmeticOverflow := by
  unfold u256CheckedMul Word.wmul wideOverflow
  by_cases h : a * b < 2 ^ 256
  · have h' : ¬ (2 ^ 256 ≤ a * b) := by omega
    simp only [h', decide_false, Bool.false_eq_true, false_and, ↓reduceIte, Nat.mod_eq_of_lt h, Res.ok_bind, h]
    simp
  · have h' : 2 ^ 256 ≤ a * b := by omega
    simp only [h', decide_true, true_and, h, ↓reduceIte]
    cases hw : fl.wrapping <;> simp only [↓reduceIte, Bool.false_eq_true, Res.panic_bind, Res.ok_bind] <;> rfl

theorem and_one (x : Nat) : Word.and x 1 = x % 2 := by
  simp [Word.and, Nat.and_one_is_mod]

theorem srl_one (x : Nat) : Word.srl x 1 = x / 2 := by
  simp [Word.srl]

/-- exponentiation by squaring: exact, or the overflow outcome exactly when the true power needs more than
256 bits. `acc ≥ 1 ∨ base = 0` is the loop invariant that makes every intermediate product a lower
bound of the final one. -/
theorem u256PowLoop_eq (fl : Flags) : ∀ (f exp base acc : Nat), 1 ≤ exp → exp < 2 ^ f → (1 ≤ acc ∨ base = 0) →
    u256PowLoop fl f exp base acc =
      if acc * base ^ exp < 2 ^ 256 then .ok (acc * base ^ exp) else overflowOutcome fl := by
  intro f
  induction f with
  | zero => intro exp base acc h1 h2; omega
  | succ f ih =>
    intro exp base acc h1 h2 hinv
    rw [u256PowLoop]
    by_cases hgt : 1 < exp
    · simp only [hgt, ↓reduceIte, and_one, srl_one]
      have hk1 : 1 ≤ exp / 2 := by omega
      have hk2 : exp / 2 < 2 ^ f := by
        have : 2 ^ (f + 1) = 2 * 2 ^ f := by ring
        omega
      by_cases hb0 : base = 0
      · subst hb0
        have e1 : (0:ℕ) ^ exp = 0 := Nat.zero_pow (by omega)
        have e2 : (0:ℕ) ^ (exp / 2) = 0 := Nat.zero_pow (by omega)
        have hi := ih (exp / 2) 0 0 hk1 hk2 (Or.inr rfl)
        have hi' := ih (exp / 2) 0 acc hk1 hk2 (Or.inr rfl)
        have hz' : (0:ℕ) < 2 ^ 256 := Nat.pow_pos (by norm_num)
        simp only [e2, Nat.mul_zero, hz', ↓reduceIte] at hi hi'
        have hz : (0:ℕ) < 2 ^ 256 := Nat.pow_pos (by norm_num)
        by_cases hodd : exp % 2 = 1
        · simp only [hodd, ↓reduceIte, u256CheckedMul_eq, Nat.mul_zero, hz, hi, e1]
        · simp only [hodd, ↓reduceIte, u256CheckedMul_eq, Nat.mul_zero, hz, hi', e1]
      · have hb1 : 1 ≤ base := Nat.pos_of_ne_zero hb0
        have ha1 : 1 ≤ acc := by rcases hinv with h | h; exact h; exact absurd h hb0
        have hsq : 1 ≤ (base * base) ^ (exp / 2) := Nat.one_le_pow _ _ (Nat.mul_pos hb1 hb1)
        have hsq2 : base * base ≤ (base * base) ^ (exp / 2) := by
          calc base * base = (base * base) ^ 1 := (pow_one _).symm
            _ ≤ (base * base) ^ (exp / 2) := Nat.pow_le_pow_right (Nat.mul_pos hb1 hb1) hk1
        by_cases hodd : exp % 2 = 1
        · have hT : acc * base ^ exp = (acc * base) * (base * base) ^ (exp / 2) := by
            have : exp = 2 * (exp / 2) + 1 := by omega
            conv_lhs => rw [this, pow_succ, pow_mul, sq]
            ring
          simp only [hodd, ↓reduceIte, u256CheckedMul_eq]
          by_cases ho1 : acc * base < 2 ^ 256
          · simp only [ho1, ↓reduceIte]
            by_cases ho2 : base * base < 2 ^ 256
            · simp only [ho2, ↓reduceIte]
              rw [ih (exp / 2) (base * base) (acc * base) hk1 hk2 (Or.inl (Nat.mul_pos ha1 hb1)), hT]
            · have hbig : ¬ (acc * base ^ exp < 2 ^ 256) := by
                rw [hT]
                have : base * base ≤ acc * base * (base * base) ^ (exp / 2) :=
                  le_trans hsq2 (Nat.le_mul_of_pos_left _ (Nat.mul_pos ha1 hb1))
                omega
              simp only [ho2, hbig, ↓reduceIte, overflowOutcome]; cases fl.wrapping <;> rfl
          · have hbig : ¬ (acc * base ^ exp < 2 ^ 256) := by
              rw [hT]
              have : acc * base ≤ acc * base * (base * base) ^ (exp / 2) := Nat.le_mul_of_pos_right _ hsq
              omega
            simp only [ho1, hbig, ↓reduceIte, overflowOutcome]; cases fl.wrapping <;> rfl
        · have hT : acc * base ^ exp = acc * (base * base) ^ (exp / 2) := by
            have : exp = 2 * (exp / 2) := by omega
            conv_lhs => rw [this, pow_mul, sq]
          have hodd' : ¬ (exp % 2 = 1) := hodd
          simp only [hodd', ↓reduceIte, u256CheckedMul_eq]
          by_cases ho2 : base * base < 2 ^ 256
          · simp only [ho2, ↓reduceIte]
            rw [ih (exp / 2) (base * base) acc hk1 hk2 (Or.inl ha1), hT]
          · have hbig : ¬ (acc * base ^ exp < 2 ^ 256) := by
              rw [hT]
              have : base * base ≤ acc * (base * base) ^ (exp / 2) :=
                le_trans hsq2 (Nat.le_mul_of_pos_left _ ha1)
              omega
            simp only [ho2, hbig, ↓reduceIte, overflowOutcome]; cases fl.wrapping <;> rfl
    · have : exp = 1 := by omega
      subst this
      simp only [Nat.lt_irrefl, ↓reduceIte, u256CheckedMul_eq, pow_one]
      by_cases ho : acc * base < 2 ^ 256
      · simp only [ho, ↓reduceIte]; rfl
      · simp only [ho, ↓reduceIte, overflowOutcome]; cases fl.wrapping <;> rfl

/-- `u256::pow`: exact when the power fits in 256 bits; otherwise VM panic (default flags) / 0 (`F_WRAPPING`). -/
theorem u256Pow_eq (fl : Flags) (x e : Nat) (he : e < 2 ^ 32) :
    u256Pow fl x e = if x ^ e < 2 ^ 256 then .ok (x ^ e) else overflowOutcome fl := by
  unfold u256Pow
  by_cases h0 : e = 0
  · subst h0
    have : (1:ℕ) < 2 ^ 256 := Nat.one_lt_two_pow (by norm_num)
    simp only [↓reduceIte, pow_zero, this]; rfl
  · simp only [h0, ↓reduceIte]
    rw [u256PowLoop_eq fl 33 e x 1 (by omega) (by omega) (Or.inl (le_refl _))]
    simp only [Nat.one_mul]

end SwayVerif.StdNum
