import SwayVerif.Driver.Util
/-!
Driver for C17. Case: `mut <pkg> <file> <kind> <fingerprint> ;; ok | err | ice <class> | panic <site> | abort <how> | hang`.
The property's predicate is exact per input: compiling terminates with artifacts (`ok`) or diagnostics (`err`);
a panic, an "internal compiler error", a process abort or a hang is a violation whatever found it.
-/
namespace SwayVerif.Driver.C17
open SwayVerif.Driver

def answer (line : String) : String :=
  let (c, i) := splitCase line
  match c, i with
  | "mut" :: _ :: _ :: kind :: _, r :: rest =>
    let good := r = "ok" || r = "err"
    let site := if good then "-" else "_".intercalate (r :: rest)
    s!"terminates-with-artifacts-or-diagnostics agree=1 prop={b01 good} outcome={r} kind={(kind.splitOn "+").headD kind} site={site}"
  | _, _ => "bad-op agree=0 prop=0"

def run : IO Unit := do
  lineLoop (← IO.getStdin) (← IO.getStdout) answer

end SwayVerif.Driver.C17

def main : IO Unit := SwayVerif.Driver.C17.run
