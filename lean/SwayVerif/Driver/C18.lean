import SwayVerif.Model.FmtSpec
import SwayVerif.Driver.Util
/-!
Driver for C18.
* `idem <cfg> <id> ;; <status> same=<0|1> len1=… len2=… [at=… ctx1=… ctx2=… fp=…]` — the real formatter applied twice
  (the comparison of the two texts is done by the harness; status `rej-*` = the formatter did not accept the source,
  which is not a violation; a panic is not one either, but `format` is specified to return a `Result`, so it is
  reported as a disagreement with that contract: `agree=0`). `prop` = the second pass returned exactly the same text.
* `nls <style> <text> <raw> ;; ok <out> <out2>` — newline-style kernel through the verif hook: `agree` = model
  `applyStyle` equals `out`; `prop` = idempotent (`out2 = out`) whenever the text has no `\r\r\n`
  (hypothesis of `newline_style_idempotent`) and all other characters are preserved.
* `nlseq <len> <thr> ;; ok <n>|panic` — newline-sequence clamp through the verif hook.
-/
namespace SwayVerif.Driver.C18
open SwayVerif.FmtSpec SwayVerif.Driver

def style? : String → Option Style
  | "auto" => some .auto | "windows" => some .windows | "unix" => some .unix | "native" => some .native | _ => none

def kvOf (ts : List String) (k : String) : Option String :=
  (ts.find? (·.startsWith (k ++ "="))).map fun t => (t.drop (k.length + 1)).toString

def answer (line : String) : String :=
  let (c, i) := splitCase line
  match c with
  | ["idem", cfg, _id] =>
    (match i with
     | st :: rest =>
       let accepted := !(st.startsWith "rej-" || st = "panic1")
       let same := kvOf rest "same" = some "1"
       if st = "panic1" || st = "panic2" then s!"skip agree=0 prop={b01 (st = "panic1")} status={st} cfg={cfg}"
       else if !accepted then s!"skip agree=1 prop=1 status={st} cfg={cfg}"
       else s!"{if same then "same" else "differ"} agree=1 prop={b01 same} status={st} cfg={cfg}"
     | [] => "bad-impl agree=0 prop=0")
  | ["nls", sty, text, raw] =>
    (match style? sty, parseCps? text, parseCps? raw with
     | some st, some text, some raw =>
       let m := applyStyle st text raw
       (match i with
        | ["ok", o1, o2] =>
          (match parseCps? o1, parseCps? o2 with
           | some o1, some o2 =>
             let hyp := !hasCRCRLF text
             let prop := (!hyp || o2 = o1) && eraseNewlines o1 = eraseNewlines text
             s!"{showCps m} agree={b01 (m = o1)} prop={b01 prop} kernel=nls sys={if sysType st raw = .windows then "windows" else "unix"} hyp={b01 hyp} idem={b01 (o2 = o1)}"
           | _, _ => "bad-impl agree=0 prop=0")
        | _ => s!"{showCps m} agree=0 prop=0 kernel=nls")
     | _, _, _ => "bad-op agree=0 prop=0")
  | ["nlseq", len, thr] =>
    (match len.toNat?, thr.toNat? with
     | some len, some thr =>
       let m := fmtNewlineSeq len thr
       let ms := match m with | some n => s!"ok {n}" | none => "panic"
       let impl := " ".intercalate i
       -- property of the kernel: whatever it wrote, a second pass over `written + 1` newlines writes the same
       let prop := match i with
         | ["ok", n] => (match n.toNat? with
            | some n => (fmtNewlineSeq (n + 1) thr == some n) && n ≤ thr
            | none => false)
         | ["panic"] => len = 0
         | _ => false
       s!"{ms} agree={b01 (ms = impl)} prop={b01 prop} kernel=nlseq clamped={b01 (len > thr)}"
     | _, _ => "bad-op agree=0 prop=0")
  | _ => "bad-op agree=0 prop=0"

def run : IO Unit := do
  lineLoop (← IO.getStdin) (← IO.getStdout) answer

end SwayVerif.Driver.C18

def main : IO Unit := SwayVerif.Driver.C18.run
