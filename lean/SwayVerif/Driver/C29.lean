import SwayVerif.Model.TestRun
import SwayVerif.Driver.Util
/-!
Driver for C29 (see `harness/src/bin/sv_c29.rs` for the line formats).

`test kind=<c|l> init=<a>,<b> <name> <cond> <ops> ;; ok cond=<c> state=<s> passed=<0|1> logs=<l> sawInitialStorage=<0|1|-> sameAlone=<0|1> sameFiltered=<0|1> samePermuted=<0|1> sameSerial=<0|1>`
`suite kind=<c|l> init=<a>,<b> run=<r> filter=<none|exact:p|contains:p> <name:cond:ops>… ;; ok <name:cond:state:passed:logs>…`
-/
namespace SwayVerif.Driver.C29
open SwayVerif.TestRun SwayVerif.Driver

def parseCond? (s : String) : Option Condition :=
  match s.splitOn "." with
  | ["none"] => some .shouldNotRevert
  | ["any"] => some (.shouldRevert none)
  | ["code", n] => n.toNat?.map fun c => .shouldRevert (some c)
  | _ => none

def showCond : Condition → String
  | .shouldNotRevert => "none"
  | .shouldRevert none => "any"
  | .shouldRevert (some c) => s!"code.{c}"

def condClass : Condition → String
  | .shouldNotRevert => "none"
  | .shouldRevert none => "any"
  | .shouldRevert (some _) => "code"

def parseState? (s : String) : Option State :=
  match s.splitOn "." with
  | ["return"] => some .ret
  | ["returndata"] => some .retData
  | ["revert", n] => n.toNat?.map .revert
  | _ => none

def showState : State → String
  | .ret => "return"
  | .retData => "returndata"
  | .revert c => s!"revert.{c}"

def stateClass : State → String
  | .ret => "return"
  | .retData => "returndata"
  | .revert 0 => "revert0"
  | .revert c => if c = assertCode then "revertAssert" else "revertN"

def parseNats? (sep : String) (s : String) : Option (List Nat) :=
  if s = "-" then some [] else
  (s.splitOn sep).foldr (fun t acc => match acc, t.toNat? with
    | some l, some n => some (n :: l)
    | _, _ => none) (some [])

def showNats (l : List Nat) : String :=
  if l.isEmpty then "-" else ".".intercalate (l.map toString)

def parseOp? (init : Storage) (s : String) : Option Op :=
  match s.splitOn "." with
  | ["log", v] => v.toNat?.map .log
  | ["clog", v] => v.toNat?.map .log
  | ["rd", k] => k.toNat?.map .read
  | ["wr", k, v] => do pure (.write (← k.toNat?) (← v.toNat?))
  | ["xi", k] => k.toNat?.map fun k => .expect k (init.getD k 0)
  | ["rv", c] => c.toNat?.map .revert
  | ["af"] => some (.revert assertCode)
  | ["div0"] => some .vmPanic
  | ["oob"] => some .vmPanic
  | ["oog"] => some .vmPanic
  | _ => none

def parseOps? (init : Storage) (s : String) : Option (List Op) :=
  if s = "-" then some [] else
  (s.splitOn ",").foldr (fun t acc => match acc, parseOp? init t with
    | some l, some o => some (o :: l)
    | _, _ => none) (some [])

def kvOf (key : String) (toks : List String) : Option String :=
  toks.findSome? fun t => if t.startsWith (key ++ "=") then some ((t.drop (key.length + 1)).toString) else none

def parseFlag? (s : String) : Option (Option Bool) :=
  if s = "1" then some (some true) else if s = "0" then some (some false) else if s = "-" then some none else none

def parseFilter? (s : String) : Option (Option Filter) :=
  if s = "none" then some none else
  match s.splitOn ":" with
  | ["exact", p] => some (some ⟨p.toList, true⟩)
  | ["contains", p] => some (some ⟨p.toList, false⟩)
  | _ => none

def parseInit? (s : String) : Option Storage := parseNats? "," s

def usesStorage (ops : List Op) : Bool :=
  ops.any fun | .read _ => true | .write _ _ => true | .expect _ _ => true | _ => false

def answerTest (c i : List String) : String :=
  let parsed : Option (Storage × List Char × Condition × List Op) := match c with
    | [_kind, init, name, cond, ops] => do
        let init ← (kvOf "init" [init]).bind parseInit?
        let cond ← parseCond? cond
        let ops ← parseOps? init ops
        pure (init, name.toList, cond, ops)
    | _ => none
  match parsed with
  | none => "bad-case agree=0 prop=0"
  | some (init, name, cond, ops) =>
    let m := run ⟨init⟩ (opsTest name cond ops)
    let head := s!"state={showState m.state} passed={b01 m.passed} logs={showNats m.logs}"
    let dist := s!"cond={condClass cond} st={stateClass m.state} pass={b01 m.passed} storage={b01 (usesStorage ops)}"
    let impl : Option (Condition × State × Bool × List Nat × List (Option Bool)) := do
      let ic ← (kvOf "cond" i).bind parseCond?
      let st ← (kvOf "state" i).bind parseState?
      let p ← (kvOf "passed" i).bind fun s => if s = "1" then some true else if s = "0" then some false else none
      let lg ← (kvOf "logs" i).bind (parseNats? ".")
      let fl ← ["sawInitialStorage", "sameAlone", "sameFiltered", "samePermuted", "sameSerial"].foldr
        (fun k acc => match acc, (kvOf k i).bind parseFlag? with
          | some l, some f => some (f :: l)
          | _, _ => none) (some [])
      pure (ic, st, p, lg, fl)
    match impl with
    | none => s!"{head} agree=0 prop=0 {dist} impl=unparsed"
    | some (ic, st, p, lg, fl) =>
      let agree := decide (ic = cond) && decide (st = m.state) && (p == m.passed) && decide (lg = m.logs)
      let prop := testProp cond ops init ic st p lg fl
      s!"{head} agree={b01 agree} prop={b01 prop} {dist}"

def parseDecl? (init : Storage) (s : String) : Option (List Char × Condition × List Op) :=
  match s.splitOn ":" with
  | [n, c, o] => do pure (n.toList, ← parseCond? c, ← parseOps? init o)
  | _ => none

def parseRes? (s : String) : Option (Result × Bool) :=
  match s.splitOn ":" with
  | [n, c, st, p, lg] => do
      let c ← parseCond? c
      let st ← parseState? st
      let p ← if p = "1" then some true else if p = "0" then some false else none
      let lg ← parseNats? "." lg
      pure ({ name := n.toList, cond := c, state := st, logs := lg }, p)
  | _ => none

def allSome {α : Type} (l : List (Option α)) : Option (List α) :=
  l.foldr (fun x acc => match acc, x with
    | some l, some a => some (a :: l)
    | _, _ => none) (some [])

def answerSuite (c i : List String) : String :=
  match c with
  | _kind :: init :: run :: filter :: decls =>
    let parsed : Option (Storage × Option Filter × List (List Char × Condition × List Op)) := do
      let init ← (kvOf "init" [init]).bind parseInit?
      let f ← (kvOf "filter" [filter]).bind parseFilter?
      let ds ← allSome (decls.map (parseDecl? init))
      pure (init, f, ds)
    match parsed with
    | none => "bad-case agree=0 prop=0"
    | some (init, f, ds) =>
      let m := runAll ⟨init⟩ (ds.map fun d => opsTest d.1 d.2.1 d.2.2) f
      let fk := match f with | none => "none" | some f => if f.exact then "exact" else "contains"
      let head := s!"ran={m.length}"
      let dist := s!"{run} fkind={fk} nsel={if m.length = 0 then "0" else if m.length = 1 then "1" else if m.length = ds.length then "all" else "some"}"
      let rsOpt := match i with
        | "ok" :: rs => allSome (rs.map parseRes?)
        | _ => none
      match rsOpt with
      | none => s!"{head} agree=0 prop=0 {dist} impl=unparsed"
      | some rs =>
        let agree := decide (rs.map (·.1) = m) && rs.all (fun r => r.2 == r.1.passed)
        let prop := suiteProp (ds.map fun d => (d.1, d.2.1)) f
          (rs.map fun r => (r.1.name, r.1.cond, r.1.state, r.2))
        s!"{head} agree={b01 agree} prop={b01 prop} {dist}"
  | _ => "bad-case agree=0 prop=0"

def answer (line : String) : String :=
  let (c, i) := splitCase line
  match c with
  | "test" :: rest => answerTest rest i
  | "suite" :: rest => answerSuite rest i
  | _ => "bad-op agree=0 prop=0"

def run : IO Unit := do
  lineLoop (← IO.getStdin) (← IO.getStdout) answer

end SwayVerif.Driver.C29

def main : IO Unit := SwayVerif.Driver.C29.run
