import SwayVerif.Driver.Util
/-!
Driver for C15. Case: `build <package> <profile> ;; <digests of run 1> <digests of run 2> …` where each
digest token is `ok:<bytecode>:<abi>:<storage>:<len>` or `err:<hash of message>` from a FRESH process.
The model of a deterministic build is a function of the package, so all runs must report the same token.
-/
namespace SwayVerif.Driver.C15
open SwayVerif.Driver

def allEq : List String → Bool
  | [] => true
  | x :: xs => xs.all (· = x)

def answer (line : String) : String :=
  let (c, i) := splitCase line
  match c with
  | ["build", _, _] =>
    let same := allEq i
    let kind := match i with
      | t :: _ => if t.startsWith "ok:" then "ok" else if t.startsWith "err:" then "err" else "other"
      | [] => "none"
    s!"deterministic agree={b01 same} prop={b01 (same && i.length ≥ 2)} kind={kind} runs={i.length}"
  | _ => "bad-op agree=0 prop=0"

def run : IO Unit := do
  lineLoop (← IO.getStdin) (← IO.getStdout) answer

end SwayVerif.Driver.C15

def main : IO Unit := SwayVerif.Driver.C15.run
