import SwayVerif.Model.Storage
import SwayVerif.Driver.Util
/-!
Driver for C12. Cases (see harness/src/bin/sv_c12.rs):
`field ns= name= key= pre= dig= val= subs= ;; slots= st= abi= mem= subs=` and
`decl <key:spec> .. ;; total=<n> <k,k> <k> ..`.
-/
namespace SwayVerif.Driver.C12
open SwayVerif.Driver SwayVerif.Storage

def kv (ts : List String) (k : String) : Option String :=
  ts.findSome? fun t => if t.startsWith (k ++ "=") then some (t.drop (k.length + 1)).toString else none

def bytesOf (s : String) : Option (List Nat) := (hexBytes? s).map (·.map UInt8.toNat)

/-- value spec: comma separated prefix notation -/
partial def parseVal : List String → Option (Val × List String)
  | [] => none
  | t :: rest =>
    match t.splitOn "." with
    | ["u8", n] => n.toNat?.map fun n => (Val.u8 n, rest)
    | ["bo", n] => n.toNat?.map fun n => (Val.bool (n != 0), rest)
    | ["w", b, n] => do let b ← b.toNat?; let n ← n.toNat?; pure (Val.word b n, rest)
    | ["b32", u, h] => do let n ← parseHex? h; pure (Val.b32 (u == "1") n, rest)
    | ["st", h] => (bytesOf h).map fun b => (Val.str b, rest)
    | ["un"] => some (Val.unit, rest)
    | ["T", n] => do
        let n ← n.toNat?
        let rec fields : Nat → List String → Option (List Val × List String)
          | 0, ts => some ([], ts)
          | k + 1, ts => do
            let (v, ts) ← parseVal ts
            let (vs, ts) ← fields k ts
            pure (v :: vs, ts)
        let (vs, ts) ← fields n rest
        pure (vs.foldr Val.cons Val.nil, ts)
    | ["E", tag, uw] => do
        let tag ← tag.toNat?; let uw ← uw.toNat?
        let (p, ts) ← parseVal rest
        pure (Val.enum tag uw p, ts)
    | _ => none

def parseSpec (s : String) : Option Val :=
  match parseVal (s.splitOn ",") with
  | some (v, []) => some v
  | _ => none

def parseSlots (s : String) : Option (List (Nat × List Nat)) :=
  if s = "-" then some [] else
  (s.splitOn ",").foldr (fun t acc => match acc, t.splitOn ":" with
    | some l, [k, v] => match parseHex? k, bytesOf v with
      | some k, some v => some ((k, v) :: l)
      | _, _ => none
    | _, _ => none) (some [])

def listSlot (v : List Nat) : Slot := fun b => if b < 32 then v.getD b 0 else 0

def kindOf : Val → String
  | .u8 _ => "u8" | .bool _ => "bool" | .word b _ => s!"u{b}" | .b32 u _ => if u then "u256" else "b256"
  | .str _ => "str" | .unit => "unit" | .nil => "empty" | .cons _ _ => "struct" | .enum _ _ _ => "enum"

partial def hasUnitVariant : Val → Bool
  | .enum _ _ .unit => true
  | .enum _ _ p => hasUnitVariant p
  | .cons h t => hasUnitVariant h || hasUnitVariant t
  | _ => false

def parseSubsCase (s : String) : Option (List (Nat × Nat × Val)) :=
  if s = "-" then some [] else
  (s.splitOn ";").foldr (fun t acc => match acc, t.splitOn ":" with
    | some l, [i, off, sp] => match i.toNat?, off.toNat?, parseSpec sp with
      | some i, some off, some v => some ((i, off, v) :: l)
      | _, _, _ => none
    | _, _ => none) (some [])

def parseSubsImpl (s : String) : Option (List (Nat × Option (List Nat))) :=
  if s = "-" then some [] else
  (s.splitOn ";").foldr (fun t acc => match acc, t.splitOn ":" with
    | some l, [i, h] => match i.toNat? with
      | some i => some ((i, if h = "none" then none else bytesOf h) :: l)
      | none => none
    | _, _ => none) (some [])

def answerField (c i : List String) : Option String := do
  let ns := (← kv c "ns")
  let ns : List (List Char) := if ns = "-" then [] else (ns.splitOn "/").map String.toList
  let name := (← kv c "name").toList
  let keyS ← kv c "key"
  let pre ← bytesOf (← kv c "pre")
  let dig ← parseHex? (← kv c "dig")
  let v ← parseSpec (← kv c "val")
  let subsC ← parseSubsCase (← kv c "subs")
  let emitted ← parseSlots (← kv i "slots")
  let st ← kv i "st"
  let abiS ← kv i "abi"
  let memS ← kv i "mem"
  let subsI ← parseSubsImpl (← kv i "subs")
  let auto := keyS = "auto"
  let key ← if auto then some dig else parseHex? keyS
  -- model
  let preOk := !auto || keyPreimage ns name [] == pre
  let model := serializeToSlots v key
  let modelL := model.map (·.map fun p => (p.1, slotList p.2))
  let slotsOk := modelL == some emitted
  let store := deploy (emitted.map fun p => (p.1, listSlot p.2))
  let ovf := key + v.nslots > two256
  let mread := readField store key v
  let obsMem := if memS = "-" then none else bytesOf memS
  let readOk := match obsMem with
    | some m => mread == some m && m == v.mem
    | none => if memS = "-" then mread == some v.mem else false
  let subsModelOk := subsC.all fun (idx, off, sv) =>
    match v.field idx with
    | some (boff, fv) => boff == 8 * off && fv == sv && readMember store key boff fv == some sv.mem
    | none => false
  let agree := v.wf && preOk && slotsOk && readOk && subsModelOk && !ovf
  -- property on the implementation's result
  let obsAbi := if abiS = "-" then none else bytesOf abiS
  let subsP := subsC.map fun (idx, _, sv) => (sv, (subsI.find? (·.1 == idx)).bind (·.2))
  let prop := fieldProp v key (emitted.map (·.1)) (st = "return") (obsAbi.getD []) subsP && obsAbi.isSome
  pure s!"slots={(modelL.map List.length).getD 0} agree={b01 agree} prop={b01 prop} kind={kindOf v} nsl={v.nslots} keykind={if auto then "auto" else "explicit"} unitvar={b01 (hasUnitVariant v)} nsdepth={ns.length} nsubs={subsC.length} pre={b01 preOk} slotsok={b01 slotsOk} readok={b01 readOk} subsok={b01 subsModelOk}"

def answerDecl (c i : List String) : Option String := do
  let fields ← c.drop 1 |>.foldr (fun t acc => match acc, t.splitOn ":" with
    | some l, [k, sp] => match parseHex? k, parseSpec sp with
      | some k, some v => some ((k, v) :: l)
      | _, _ => none
    | _, _ => none) (some [])
  let total ← (← kv i "total").toNat?
  let groups ← (i.filter (fun t => !t.startsWith "total=")).foldr (fun t acc => match acc with
    | some l => if t = "-" then some ([] :: l) else
      match (t.splitOn ",").foldr (fun h a => match a, parseHex? h with
        | some a, some k => some (k :: a) | _, _ => none) (some []) with
      | some g => some (g :: l)
      | none => none
    | none => none) (some [])
  let modelGroups := fields.map fun (k, v) => (List.range v.nslots).map (k + ·)
  let agree := modelGroups == groups
  let prop := declProp groups total
  pure s!"fields={fields.length} agree={b01 agree} prop={b01 prop} kind=decl total={total}"

def answer (line : String) : String :=
  let (c, i) := splitCase line
  let r := match c.head? with
    | some "field" => answerField c i
    | some "decl" => answerDecl c i
    | _ => none
  r.getD "bad-case agree=0 prop=0"

def run : IO Unit := do
  lineLoop (← IO.getStdin) (← IO.getStdout) answer

end SwayVerif.Driver.C12

def main : IO Unit := SwayVerif.Driver.C12.run
