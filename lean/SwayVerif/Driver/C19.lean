import SwayVerif.Model.FmtSpec
import SwayVerif.Driver.Util
/-!
Driver for C19. Case: `fmt <cfg> <id> <src stream>`; implementation result:
`ok <out stream> parses=<0|1>` | `nolex - parses=0` | `rej-<kind>` | `panic`.
A stream is `<k><cp>,<cp>….<k>…` (k = p i l d o c m), `-` = empty.
Answer: `<verdict> agree=1 prop=<fmtCheck> status=… [fp=<fingerprint>]`. There is no model of the formatter, so
`agree` only says that the line was understood; `prop` is the proved validator `fmtCheck` on the real output.
-/
namespace SwayVerif.Driver.C19
open SwayVerif.FmtSpec SwayVerif.Driver

def kindOf? (c : Char) : Option Kind :=
  match c with
  | 'p' => some .punct | 'i' => some .ident | 'l' => some .lit | 'd' => some .doc
  | 'o' => some .open | 'c' => some .close | 'm' => some .comment | _ => none

structure PS where
  acc : List Tok := []          -- reversed
  kind : Option Kind := none
  text : List Char := []        -- reversed
  cur : Nat := 0
  hasCur : Bool := false
  bad : Bool := false

def pushCp (s : PS) : PS :=
  if s.hasCur then
    if h : s.cur.isValidChar then { s with text := Char.ofNatAux s.cur h :: s.text, cur := 0, hasCur := false }
    else { s with bad := true }
  else s

def endTok (s : PS) : PS :=
  let s := pushCp s
  match s.kind with
  | some k => { s with acc := { kind := k, text := s.text.reverse } :: s.acc, kind := none, text := [] }
  | none => { s with bad := true }

def feed (s : PS) (c : Char) : PS :=
  if s.bad then s else
  match s.kind with
  | none => (match kindOf? c with | some k => { s with kind := some k } | none => { s with bad := true })
  | some _ =>
    if c = '.' then endTok s
    else if c = ',' then pushCp s
    else match hexDigit? c with
      | some d => { s with cur := s.cur * 16 + d, hasCur := true }
      | none => { s with bad := true }

def parseStream? (str : String) : Option (List Tok) :=
  if str = "-" then some [] else
  let s := endTok (str.foldl feed {})
  if s.bad then none else some s.acc.reverse

def answer (line : String) : String :=
  let (c, i) := splitCase line
  match c with
  | ["fmt", _cfg, _id, srcS] =>
    (match parseStream? srcS with
     | none => "bad-src agree=0 prop=0"
     | some src =>
       match i with
       | ["ok", outS, p] =>
         (match parseStream? outS with
          | none => "bad-out agree=0 prop=0"
          | some out =>
            let parses := p = "parses=1"
            let ok := fmtCheck src out parses
            let ncomments := (comments src).length
            let size := if src.length < 100 then "s" else if src.length < 1000 then "m" else "l"
            if ok then s!"accept agree=1 prop=1 status=ok size={size} comments={if ncomments = 0 then "0" else if ncomments < 10 then "few" else "many"}"
            else s!"reject agree=1 prop=0 status=ok size={size} fp={fingerprint src out parses}")
       | ["nolex", _, _] => s!"reject agree=1 prop=0 status=nolex fp=nolex"
       -- a `FormatterError` puts the source outside the statement; a panic too, but `format` is specified to return
       -- a `Result`, so a panic is reported as a disagreement with that contract (not as a C19 violation)
       | [st] => if st.startsWith "rej-" then s!"skip agree=1 prop=1 status={st}"
                 else if st = "panic" then "skip agree=0 prop=1 status=panic" else "bad-impl agree=0 prop=0"
       | _ => "bad-impl agree=0 prop=0")
  | _ => "bad-op agree=0 prop=0"

def run : IO Unit := do
  lineLoop (← IO.getStdin) (← IO.getStdout) answer

end SwayVerif.Driver.C19

def main : IO Unit := SwayVerif.Driver.C19.run
