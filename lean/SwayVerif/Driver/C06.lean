import SwayVerif.Model.ConstFold
import SwayVerif.Generated.FoldTable
import SwayVerif.Driver.Util
/-!
Driver for C06.
Case: `fold <irfold|consteval> <op> <ty> <a> <b> <route>` | `simp <op> u64 <l|r> <c> <x>` (hex payloads)
implementation result: `<ct>/<rt> ct=<hex|-> rt=<hex|-> [raw=<hex>]`,
  ct ∈ fold | arg | decline | abort | cterr, rt ∈ ok | revert | panic | rterr…
Answer: `<model ct>/<model rt> agree= prop= op= ty= ct= rt= src=`
`agree`: both model evaluators (over the GENERATED tables) equal both implementation results (and, for the
narrow-width `not`, the bare `NOT` result `raw`). `prop`: `propHolds` on the implementation's results.
-/
namespace SwayVerif.Driver.C06
open SwayVerif.Driver SwayVerif.RustInt SwayVerif.ConstFold SwayVerif.Generated.FoldTable

def parseOp : String → Option Op
  | "add" => some .add | "sub" => some .sub | "mul" => some .mul | "div" => some .div | "mod" => some .mod
  | "and" => some .and | "or" => some .or | "xor" => some .xor | "lsh" => some .lsh | "rsh" => some .rsh
  | "not" => some .not | "eq" => some .eq | "lt" => some .lt | "gt" => some .gt
  | _ => none

def parseTy : String → Option Ty
  | "u8" => some .u8 | "u16" => some .u16 | "u32" => some .u32 | "u64" => some .u64
  | "u256" => some .u256 | "b256" => some .b256 | "bool" => some .bool
  | _ => none

def parseSrc : String → Option Src
  | "irfold" => some .irFold | "consteval" => some .constEval
  | _ => none

def kvOf (toks : List String) (key : String) : Option String :=
  toks.findSome? fun t => if t.startsWith (key ++ "=") then some ((t.drop (key.length + 1)).toString) else none

def showCt : Ct → String
  | .fold v => s!"fold:{hexOfNat v}"
  | .decline => "decline"
  | .crash => "crash"

def showRt : Outcome → String
  | .ok v => s!"ok:{hexOfNat v}"
  | .revert => "revert"
  | .panic => "panic"

/-- Implementation's compile-time result. `arg` (the rewrite substituted the non-constant operand, whose
run-time value is `ct=`) counts as a substituted value. -/
def implCt (cls : String) (toks : List String) : Option Ct :=
  match cls with
  | "fold" | "arg" => (kvOf toks "ct").bind parseHex? |>.map Ct.fold
  | "decline" => some .decline
  | "abort" => some .crash
  | _ => none

def implRt (cls : String) (toks : List String) : Option Outcome :=
  match cls with
  | "ok" => (kvOf toks "rt").bind parseHex? |>.map Outcome.ok
  | "revert" => some .revert
  | "panic" => some .panic
  | _ => none

def classes (i : List String) : String × String :=
  match i.head? with
  | some t => match t.splitOn "/" with
    | [a, b] => (a, b)
    | _ => ("?", "?")
  | none => ("?", "?")

def answer (line : String) : String :=
  let (c, i) := splitCase line
  let (ctCls, rtCls) := classes i
  match c with
  | ["fold", src, sop, sty, a, b, route] =>
    match parseSrc src, parseOp sop, parseTy sty, parseHex? a, parseHex? b with
    | some src, some op, some ty, some a, some b =>
      let mct0 := ctFold foldTable src op ty (rhsTy op ty) a b
      -- Sway stream: an ill-typed intrinsic call does not compile (`decline`); `!x` on u8/u16/u32 is compiled
      -- as `__and(__not(x), max)` (ops.sw), and const_eval interprets exactly that
      let mct := if src == .constEval && !wellTyped op ty then Ct.decline
        else if src == .constEval && op == .not && !ty.isWide then
          (match mct0 with
           | .fold v => ctFold foldTable src .and ty ty v ty.maxVal
           | o => o)
        else mct0
      let mrt := if op == .not then rtNotStd lowering ty a else rtEval lowering op ty a b
      match implCt ctCls i, implRt rtCls i with
      | some ict, some irt =>
        -- the bare instruction for the narrow `not`
        let rawOk := match kvOf i "raw" with
          | some r => decide (some (rtEval lowering .not ty a 0) = (parseHex? r).map Outcome.ok)
          | none => true
        let rawDiff := match kvOf i "raw", ict with
          | some r, .fold v => if parseHex? r == some v then "0" else "1"
          | _, _ => "-"
        let agree := decide (mct = ict) && decide (mrt = irt) && rawOk
        s!"{showCt mct}/{showRt mrt} agree={b01 agree} prop={b01 (propHolds ict irt)} op={sop} ty={sty} ct={ctCls} rt={rtCls} src={route} notraw_differs={rawDiff}"
      | _, _ => s!"{showCt mct}/{showRt mrt} agree=0 prop=0 op={sop} ty={sty} ct={ctCls} rt={rtCls} src={route} bad=impl"
    | _, _, _, _, _ => "bad-case agree=0 prop=0"
  | ["simp", sop, "u64", side, cst, x] =>
    match parseOp sop, parseHex? cst, parseHex? x with
    | some op, some cst, some x =>
      let onLeft := side == "l"
      let entry := simpTable.find? fun s => s.op == op && s.constOnLeft == onLeft && s.c == cst
      let mrt := if onLeft then rtEval lowering op .u64 cst x else rtEval lowering op .u64 x cst
      -- model: class `arg` when the rewrite keeps the non-constant operand, `fold` when it keeps the constant
      let (mcls, mct) := match entry with
        | some s => (if s.constOnLeft == s.resultIsLeft then "fold" else "arg", Ct.fold (simpCt s x))
        | none => ("decline", Ct.decline)
      match implCt ctCls i, implRt rtCls i with
      | some ict, some irt =>
        let agree := decide (mct = ict) && mcls == ctCls && decide (mrt = irt)
        s!"{mcls}:{showCt mct}/{showRt mrt} agree={b01 agree} prop={b01 (propHolds ict irt)} op=simp-{sop} ty=u64 ct={ctCls} rt={rtCls} src=api"
      | _, _ => s!"{mcls}:{showCt mct}/{showRt mrt} agree=0 prop=0 op=simp-{sop} ty=u64 ct={ctCls} rt={rtCls} bad=impl"
    | _, _, _ => "bad-case agree=0 prop=0"
  | _ => "bad-case agree=0 prop=0"

def run : IO Unit := do
  lineLoop (← IO.getStdin) (← IO.getStdout) answer

end SwayVerif.Driver.C06

def main : IO Unit := SwayVerif.Driver.C06.run
