import SwayVerif.Driver.AbiSexp
/-!
Driver for C10. Same cases as C09 (harness/src/bin/sv_c09.rs, `--mode c10`).
agree: `is_encode_trivial::<T>()`, `is_decode_trivial::<T>()` and the mem-id test evaluate in the VM to what the model
computes from the regenerated tables, and the real memory bytes are the model's memory image (on every byte the
value determines). prop: whenever the PROGRAM says the type is trivially encodable (decodable), the real memory bytes
and the logged bytes are the canonical encoding; decoding invalid patterns (bool byte ∉ {0,1}, unknown tag) reverts;
decoding canonical bytes — for trivially decodable types a raw copy — reconstructs the value.
-/
namespace SwayVerif.Driver.C10
open SwayVerif.Abi SwayVerif.Driver SwayVerif.Driver.AbiSexp

def answerEnc (known : Bool) (c i : List String) : String :=
  match parseTy c with
  | some (t, rest) => match parseVal rest with
    | some (v, []) =>
      match kvOf i "bytes" >>= hexBytes?, kvOf i "mem" >>= hexBytes?, flag? i "trivE", flag? i "trivD", flag? i "memEq" with
      | some bytes, some mem, some trivE, some trivD, some memEq =>
        if !hasType t v then "ill-typed agree=0 prop=0" else
        let mE := isEncodeTrivial t
        let mD := isDecodeTrivial t
        let agree := mE == trivE && mD == trivD && memIdEq t == memEq && imageMatches (runtimeImage t v) mem
        let prop := propTrivial t v trivE trivD mem && (!trivE || bytes == encode t v)
        let why := if known && !prop && trivialEnumPaddedVariant t v && imageMatches (runtimeImage t v) mem
          then " why=trivialenum-padded-variant" else ""
        let pad := (runtimeImage t v).any (·.isNone)
        s!"trivE={b01 mE} trivD={b01 mD} memEq={b01 (memIdEq t)} agree={b01 agree} prop={b01 prop} kind=enc class={className t} depth={depth t} size={lenClass mem.length} implTrivE={b01 trivE} implTrivD={b01 trivD} implMemEq={b01 memEq} padded={b01 pad}{why}"
      | _, _, _, _, _ => "bad-impl agree=0 prop=0"
    | _ => "bad-val agree=0 prop=0"
  | none => "bad-ty agree=0 prop=0"

def answerDec (known : Bool) (c i : List String) : String :=
  match c with
  | kind :: rest => match parseTy rest with
    | some (t, [h]) => match hexBytes? h, parseObs i with
      | some bs, some obs =>
        let model := decode t bs
        let pred := predictDecode t bs
        let agree := match pred, obs with
          | some v, .ok re => implEncode t v == re || (known && imageMatches (runtimeImage t v) re)
          | none, .revert => true
          | _, _ => false
        let prop := propDecode t bs obs
        let why := if known && !prop && (match model with | some (w, _) => trivialEnumPaddedVariant t w | none => false)
          then " why=trivialenum-padded-variant" else ""
        let m := match model with | some (v, _) => "ok " ++ showHexBytes (encode t v) | none => "revert"
        s!"{m} agree={b01 agree} prop={b01 prop} kind=dec-{kind} class={className t} depth={depth t} len={lenClass bs.length} valid={b01 model.isSome} trivD={b01 (isDecodeTrivial t)}{why}"
      | _, _ => "bad-impl agree=0 prop=0"
    | _ => "bad-ty agree=0 prop=0"
  | [] => "bad-case agree=0 prop=0"

def answer (line : String) : String :=
  let ts := lex line
  let c := ts.takeWhile (· ≠ ";;")
  let i := (ts.dropWhile (· ≠ ";;")).drop 1
  match c with
  | "enc" :: r => answerEnc false r i
  | "enc-trivialenum" :: r => answerEnc true r i
  | "dec" :: r => answerDec false r i
  | "dec-trivialenum" :: r => answerDec true r i
  | _ => "bad-op agree=0 prop=0"

def run : IO Unit := do
  lineLoop (← IO.getStdin) (← IO.getStdout) answer

end SwayVerif.Driver.C10

def main : IO Unit := SwayVerif.Driver.C10.run
