/-!
Shared helpers of the line-protocol driver (import-free).

Line format used by every area: `<tokens of the case> ;; <implementation result tokens>`.
The driver answers one line per case: `<area-specific model result> agree=<0|1> prop=<0|1>`.
`agree` — model result equals the implementation's result (correspondence).
`prop`  — the property's own decidable predicate holds of the *implementation's* result.
-/
namespace SwayVerif.Driver

def hexDigit? (c : Char) : Option Nat :=
  if '0' ≤ c ∧ c ≤ '9' then some (c.toNat - '0'.toNat)
  else if 'a' ≤ c ∧ c ≤ 'f' then some (c.toNat - 'a'.toNat + 10)
  else if 'A' ≤ c ∧ c ≤ 'F' then some (c.toNat - 'A'.toNat + 10)
  else none

def parseHex? (s : String) : Option Nat :=
  if s.isEmpty then none else
  s.toList.foldl (fun acc c => match acc, hexDigit? c with
    | some a, some d => some (a * 16 + d)
    | _, _ => none) (some 0)

/-- Code points: `-` for the empty text, otherwise hex scalars joined by `,`. -/
def parseCps? (s : String) : Option (List Char) :=
  if s = "-" then some [] else
  (s.splitOn ",").foldr (fun t acc => match acc, parseHex? t with
    | some l, some n => if h : n.isValidChar then some (Char.ofNatAux n h :: l) else none
    | _, _ => none) (some [])

def hexOfNat (n : Nat) : String := String.ofList (Nat.toDigits 16 n)

def showCps (cs : List Char) : String :=
  if cs.isEmpty then "-" else ",".intercalate (cs.map fun c => hexOfNat c.toNat)

def hexBytes? (s : String) : Option (List UInt8) :=
  if s = "-" then some [] else
  let rec go : List Char → Option (List UInt8)
    | [] => some []
    | [_] => none
    | a :: b :: r => match hexDigit? a, hexDigit? b, go r with
      | some x, some y, some l => some (UInt8.ofNat (x * 16 + y) :: l)
      | _, _, _ => none
  go s.toList

def showHexBytes (bs : List UInt8) : String :=
  if bs.isEmpty then "-" else
  String.ofList (bs.foldr (fun b acc =>
    let d := Nat.toDigits 16 b.toNat
    (if d.length < 2 then '0' :: d else d) ++ acc) [])

def tokens (s : String) : List String :=
  (s.trimAscii.toString.splitOn " ").filter (· ≠ "")

/-- Split a protocol line at the `;;` separator. -/
def splitCase (line : String) : List String × List String :=
  let ts := tokens line
  let pre := ts.takeWhile (· ≠ ";;")
  let post := (ts.dropWhile (· ≠ ";;")).drop 1
  (pre, post)

def b01 (b : Bool) : String := if b then "1" else "0"

/-- Read all lines of stdin and answer each with `f`. -/
partial def lineLoop (h : IO.FS.Stream) (out : IO.FS.Stream) (f : String → String) : IO Unit := do
  let line ← h.getLine
  if line.isEmpty then return ()
  let t := line.trimAscii.toString
  if t.isEmpty then lineLoop h out f else
  out.putStrLn (f t)
  lineLoop h out f

end SwayVerif.Driver
