import SwayVerif.Model.FsLock
import SwayVerif.Driver.Util
/-!
Driver for C25. Case line (written by `harness/src/bin/sv_c25.rs`):

`sched iso=<0|1> np=<n> <tok>… ;; <obs>… [bad=<kind>:<q>:<w>…]`

tokens `init:<hex>` `initp:<i>` `s<i>:<op>` `<i>` `k<i>`; one observation `<file>|<dir>|<event>` per token
(file = `A` or hex bytes with real pids mapped to model pids 101+i). The driver replays the schedule on
the model (`Variant.fixed`): `agree` = identical observations, identical `iso` tag, identical `bad` tags.
`prop` is evaluated on the IMPLEMENTATION's observations only:
* while child w holds (its `lock`/`mark` returned ok, it has not started `lock`/`release`/`mark` since) and
  is alive, the flag file contains w's pid after every step, every `islocked`/`dirty` completed by another
  child returns `t` and every `glp` returns `some:<w>`;
* an `islocked`/`dirty` returning `t` needs a live other child whose pid has been in the flag file.
-/
namespace SwayVerif.Driver.C25
open SwayVerif.Driver SwayVerif.FsLock

def basePid : Nat := 101

inductive Tok
  | init (b : Bytes) | start (i : Nat) (op : String) | step (i : Nat) | kill (i : Nat)

def parseOp : String → Option Op
  | "lock" => some .lock | "release" => some .release | "islocked" => some .isLocked
  | "glp" => some .getLockerPid | "cleanup" => some .cleanup | "dirty" => some .isFileDirty
  | "mark" => some .markDirty | _ => none

def parseTok (t : String) : Option Tok :=
  if t.startsWith "init:" then (hexBytes? (t.drop 5).toString).map .init
  else if t.startsWith "initp:" then (t.drop 6).toString.toNat?.map fun i => .init (toDec (basePid + i))
  else if t.startsWith "s" then
    match (t.drop 1).toString.splitOn ":" with
    | [i, op] => i.toNat?.bind fun i => (parseOp op).map fun _ => .start i op
    | _ => none
  else if t.startsWith "k" then (t.drop 1).toString.toNat?.map .kill
  else t.toNat?.map .step

def showRet : Ret → String
  | .ok => "ok" | .err => "err"
  | .bool true => "t" | .bool false => "f"
  | .pid none => "none" | .pid (some p) => s!"some:{p}"
  | .cleaned n => s!"ok:{n}"

def showFile (s : State) : String := match s.file with
  | none => "A"
  | some h => showHexBytes (s.content h)

def obsOf (s : State) (ev : String) : String := s!"{showFile s}|{b01 s.dir}|{ev}"

/-- model replay: observations, iso, bad tags; `none` when the model cannot take a token -/
structure MRun where
  s : State
  obs : List String := []
  iso : Bool := true
  bad : List String := []
  stuck : Bool := false

def livePids (np : Nat) : List Nat := (List.range np).map (basePid + ·)

def mStep (np : Nat) (m : MRun) (t : Tok) : MRun :=
  if m.stuck then m else
  match t with
  | .init b =>
    let s := { m.s with dir := true, file := some m.s.data.length, data := m.s.data ++ [b] }
    { m with s := s, obs := m.obs ++ [obsOf s "init"] }
  | .start i op =>
    match (parseOp op).bind fun o => exec .fixed m.s (.start (basePid + i) o) with
    | some (s, _) => { m with s := s, obs := m.obs ++ [obsOf s s!"at:{(s.pc (basePid + i)).name}"] }
    | none => { m with stuck := true }
  | .kill i =>
    match exec .fixed m.s (.crash (basePid + i)) with
    | some (s, _) => { m with s := s, obs := m.obs ++ [obsOf s "killed"] }
    | none => { m with stuck := true }
  | .step i =>
    let p := basePid + i
    let isoOk := !(m.s.pc p).isPublish ||
      (livePids np).all fun q => q == p || !m.s.alive q || decide (m.s.pc q = .idle)
    match exec .fixed m.s (.step p) with
    | some (s, r) =>
      let ev := match r with
        | some r => s!"ret:{showRet r}"
        | none => s!"at:{(s.pc p).name}"
      let before := showFile m.s
      let after := showFile s
      let bad := if before == after then [] else
        (List.range np).filterMap fun w =>
          if w != i && m.s.alive (basePid + w) && before == showHexBytes (toDec (basePid + w)) then
            some s!"bad={if after == "A" then "unlink-live" else "overwrite-live"}:{i}:{w}"
          else none
      { m with s := s, obs := m.obs ++ [obsOf s ev], iso := m.iso && isoOk, bad := m.bad ++ bad }
    | none => { m with stuck := true }

/-- property evaluation on the implementation's observations -/
structure PRun where
  holds : List Bool
  alive : List Bool
  cur : List String          -- running operation per child ("" = idle)
  seen : List String := []   -- hex file contents seen so far
  viol : String := "none"
  held : Bool := false
  crashes : Nat := 0

def setAt {α : Type} (l : List α) (i : Nat) (v : α) : List α := l.set i v

def flagHex (w : Nat) : String := showHexBytes (toDec (basePid + w))

def pStep (np : Nat) (pr : PRun) (t : Tok) (ob : String) : PRun :=
  let parts := ob.splitOn "|"
  let file := parts.getD 0 "?"
  let ev := parts.getD 2 "?"
  let holders := (List.range np).filter fun w => pr.holds.getD w false && pr.alive.getD w false
  let pr1 : PRun := match t with
    | .init _ => pr
    | .start i op =>
      let pr := { pr with cur := setAt pr.cur i op }
      if op == "lock" || op == "release" || op == "mark" then { pr with holds := setAt pr.holds i false } else pr
    | .kill i => { pr with alive := setAt pr.alive i false, cur := setAt pr.cur i "", crashes := pr.crashes + 1 }
    | .step i =>
      if ev.startsWith "ret:" then
        let r := (ev.drop 4).toString
        let op := pr.cur.getD i ""
        let pr := { pr with cur := setAt pr.cur i "" }
        let others := holders.filter (· != i)
        let pr := if (op == "lock" || op == "mark") && r == "ok" then { pr with holds := setAt pr.holds i true, held := true } else pr
        if op == "islocked" || op == "dirty" then
          if r == "f" && !others.isEmpty then { pr with viol := "observer-clean" }
          else if r == "t" && !((List.range np).any fun j => j != i && pr.alive.getD j false && pr.seen.contains (flagHex j))
            then { pr with viol := "stale-dirty" }
          else pr
        else if op == "glp" then
          if others.any fun w => r != s!"some:{basePid + w}" then { pr with viol := "glp-wrong" } else pr
        else pr
      else pr
  let pr2 := { pr1 with seen := if pr1.seen.contains file then pr1.seen else file :: pr1.seen }
  -- after the token: every live holder's flag is on disk
  let holders2 := (List.range np).filter fun w => pr2.holds.getD w false && pr2.alive.getD w false
  if pr2.viol == "none" && holders2.any (fun w => file != flagHex w) then { pr2 with viol := "file-lost" } else pr2

def zipFold (np : Nat) : PRun → List Tok → List String → PRun
  | pr, t :: ts, o :: os =>
    let pr' := pStep np pr t o
    -- keep the FIRST violation
    let pr' := if pr.viol != "none" then { pr' with viol := pr.viol } else pr'
    zipFold np pr' ts os
  | pr, _, _ => pr

def kvOf (ts : List String) (k : String) : Option String :=
  (ts.find? (·.startsWith (k ++ "="))).map fun t => (t.drop (k.length + 1)).toString

def answer (line : String) : String :=
  let (c, i) := splitCase line
  match c with
  | "sched" :: rest =>
    let np := ((kvOf rest "np").bind (·.toNat?)).getD 0
    let isoTag := (kvOf rest "iso").getD "?"
    let tokStrs := rest.filter fun t => !(t.startsWith "np=" || t.startsWith "iso=")
    match tokStrs.mapM parseTok with
    | none => "bad-token agree=0 prop=0"
    | some toks =>
      if np == 0 || np > 8 then "bad-np agree=0 prop=0" else
      let implObs := i.filter fun t => !t.startsWith "bad="
      let implBad := i.filter fun t => t.startsWith "bad="
      let alive : Pid → Bool := fun p => decide (basePid ≤ p) && decide (p < basePid + np)
      let m := toks.foldl (mStep np) { s := emptyState alive }
      let pr := zipFold np { holds := List.replicate np false, alive := List.replicate np true,
                             cur := List.replicate np "" } toks implObs
      let sameObs := !m.stuck && m.obs == implObs
      let agree := sameObs && b01 m.iso == isoTag && m.bad == implBad && implObs.length == toks.length
      let diff := ((m.obs.zip implObs).findIdx? fun (a, b) => a != b).getD (min m.obs.length implObs.length)
      let prop := pr.viol == "none"
      let lenc := if toks.length < 10 then "s" else if toks.length < 25 then "m" else "l"
      let extra := if agree then "" else
        s!" diff={diff} mobs={m.obs.getD diff "-"} miso={b01 m.iso} mbad={m.bad.length} stuck={b01 m.stuck}"
      s!"n={toks.length} agree={b01 agree} prop={b01 prop} iso={isoTag} np={np} viol={pr.viol} held={b01 pr.held} crashes={min pr.crashes 2} len={lenc} badev={min implBad.length 2}{extra}"
  | _ => "bad-op agree=0 prop=0"

def run : IO Unit := do
  lineLoop (← IO.getStdin) (← IO.getStdout) answer

end SwayVerif.Driver.C25

def main : IO Unit := SwayVerif.Driver.C25.run
