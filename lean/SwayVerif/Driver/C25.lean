import SwayVerif.Driver.Util
/-! Driver for C25 (stub — replace `answer`; keep `run`). -/
namespace SwayVerif.Driver.C25
open SwayVerif.Driver

def answer (_line : String) : String := "unimplemented agree=0 prop=0"

def run : IO Unit := do
  lineLoop (← IO.getStdin) (← IO.getStdout) answer

end SwayVerif.Driver.C25

def main : IO Unit := SwayVerif.Driver.C25.run
