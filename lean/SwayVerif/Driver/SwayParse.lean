import SwayVerif.Model.SwaySem
import SwayVerif.Driver.Util
/-!
S-expression reader for the programs of the C01/C02 generator (`harness/src/proggen.rs`) and the
canonical outcome strings of the harness. Shared by `Driver/C01.lean` and `Driver/C02.lean`.

Grammar (atoms are separated by blanks or parentheses; numbers are decimal):
```
prog ::= (prog (fns fn*) (main stmt*))
fn   ::= (fn NAME (PARAM*) stmt*)
stmt ::= (let X e) | (set X (path*) e) | (while e (stmt*)) | (break) | (continue) | (ret e)
       | (expr e) | (tail e) | (log e) | (revert e) | (assert e) | (require e e)
path ::= (f N) | (i e)
e    ::= (W N) | (true) | (false) | (v X) | (OP e e) | (CMP e e) | (land e e) | (lor e e) | (not e)
       | (cast W e) | (tup e*) | (proj e N) | (idx e e) | (enm N e) | (if e (stmt*) (stmt*))
       | (block stmt*) | (call F e*) | (match e (arm pat e)*) | (opq e) | (ref e) | (deref e)
pat  ::= (_) | (b X) | (W N) | (true) | (false) | (enm N pat) | (tup pat*)
W    ::= u8 | u16 | u32 | u64 | u256
OP   ::= add sub mul div mod shl shr band bor bxor        CMP ::= eq ne lt le gt ge
```
`(opq e)` (a call of an `#[inline(never)]` identity function) and `(ref e)`/`(deref e)` (`&e`, `*e` of
an immutable reference that is dereferenced before the referent can change) denote `e`.
-/
namespace SwayVerif.Driver.SwayParse
open SwayVerif.SwaySem SwayVerif.Driver

inductive Sexp
  | atom (s : String)
  | list (xs : List Sexp)
  deriving Inhabited

def tokenize (s : String) : List String :=
  let flush (cur : List Char) (acc : List String) : List String :=
    if cur.isEmpty then acc else String.ofList cur.reverse :: acc
  let (cur, acc) := s.toList.foldl (fun (st : List Char × List String) c =>
    let (cur, acc) := st
    if c = '(' then ([], "(" :: flush cur acc)
    else if c = ')' then ([], ")" :: flush cur acc)
    else if c = ' ' ∨ c = '\t' then ([], flush cur acc)
    else (c :: cur, acc)) ([], [])
  (flush cur acc).reverse

/-- stack-based reader: returns the top-level list of S-expressions -/
def readAll (toks : List String) : Option (List Sexp) :=
  let rec go : List String → List (List Sexp) → Option (List Sexp)
    | [], [top] => some top.reverse
    | [], _ => none
    | "(" :: r, st => go r ([] :: st)
    | ")" :: r, cur :: par :: st => go r ((Sexp.list cur.reverse :: par) :: st)
    | ")" :: _, _ => none
    | a :: r, cur :: st => go r ((Sexp.atom a :: cur) :: st)
    | _ :: _, [] => none
  go toks [[]]

/-- decimal, or hexadecimal with a `0x` prefix -/
def parseNum? (s : String) : Option Nat :=
  if s.startsWith "0x" then parseHex? (s.drop 2).toString else s.toNat?

def parseW? : String → Option W
  | "u8" => some .u8 | "u16" => some .u16 | "u32" => some .u32 | "u64" => some .u64 | "u256" => some .u256
  | _ => none

def parseBin? : String → Option BinOp
  | "add" => some .add | "sub" => some .sub | "mul" => some .mul | "div" => some .div | "mod" => some .mod
  | "shl" => some .shl | "shr" => some .shr | "band" => some .band | "bor" => some .bor | "bxor" => some .bxor
  | _ => none

def parseCmp? : String → Option CmpOp
  | "eq" => some .eq | "ne" => some .ne | "lt" => some .lt | "le" => some .le | "gt" => some .gt | "ge" => some .ge
  | _ => none

partial def toPat : Sexp → Option Pat
  | .list [.atom "_"] => some .wild
  | .list [.atom "b", .atom x] => some (.bind x)
  | .list [.atom "true"] => some (.bool true)
  | .list [.atom "false"] => some (.bool false)
  | .list [.atom "enm", .atom n, p] => do some (.enm (← n.toNat?) (← toPat p))
  | .list (.atom "tup" :: ps) => do some (.tup (← ps.mapM toPat))
  | .list [.atom w, .atom n] => do some (.int (← parseW? w) (← parseNum? n))
  | _ => none

mutual
  partial def toExpr : Sexp → Option Expr
    | .list [.atom "true"] => some (.bool true)
    | .list [.atom "false"] => some (.bool false)
    | .list [.atom "v", .atom x] => some (.var x)
    | .list [.atom "opq", e] => toExpr e
    | .list [.atom "ref", e] => toExpr e
    | .list [.atom "deref", e] => toExpr e
    | .list [.atom "land", a, b] => do some (.land (← toExpr a) (← toExpr b))
    | .list [.atom "lor", a, b] => do some (.lor (← toExpr a) (← toExpr b))
    | .list [.atom "not", a] => do some (.not (← toExpr a))
    | .list [.atom "cast", .atom w, a] => do some (.cast (← parseW? w) (← toExpr a))
    | .list (.atom "tup" :: es) => do some (.tup (← es.mapM toExpr))
    | .list [.atom "proj", a, .atom i] => do some (.proj (← toExpr a) (← i.toNat?))
    | .list [.atom "idx", a, i] => do some (.idx (← toExpr a) (← toExpr i))
    | .list [.atom "enm", .atom t, a] => do some (.enm (← t.toNat?) (← toExpr a))
    | .list [.atom "if", c, .list t, .list e] => do
        some (.ite (← toExpr c) (← t.mapM toStmt) (← e.mapM toStmt))
    | .list (.atom "block" :: b) => do some (.block (← b.mapM toStmt))
    | .list (.atom "call" :: .atom f :: args) => do some (.call f (← args.mapM toExpr))
    | .list (.atom "match" :: a :: arms) => do
        let arms ← arms.mapM fun
          | .list [.atom "arm", p, e] => do some (Arm.mk (← toPat p) (← toExpr e))
          | _ => none
        some (.mtch (← toExpr a) arms)
    | .list [.atom op, a, b] =>
        match parseBin? op, parseCmp? op with
        | some o, _ => do some (.bin o (← toExpr a) (← toExpr b))
        | _, some o => do some (.cmp o (← toExpr a) (← toExpr b))
        | _, _ => none
    | .list [.atom w, .atom n] => do some (.lit (← parseW? w) (← parseNum? n))
    | _ => none
  partial def toStmt : Sexp → Option Stmt
    | .list [.atom "let", .atom x, e] => do some (.let_ x (← toExpr e))
    | .list [.atom "set", .atom x, .list path, e] => do
        let path ← path.mapM fun
          | .list [.atom "f", .atom i] => do some (PathElem.fld (← i.toNat?))
          | .list [.atom "i", e] => do some (PathElem.idx (← toExpr e))
          | _ => none
        some (.assign x path (← toExpr e))
    | .list [.atom "while", c, .list b] => do some (.while_ (← toExpr c) (← b.mapM toStmt))
    | .list [.atom "break"] => some .brk
    | .list [.atom "continue"] => some .cont
    | .list [.atom "ret", e] => do some (.ret (← toExpr e))
    | .list [.atom "expr", e] => do some (.expr (← toExpr e))
    | .list [.atom "tail", e] => do some (.tail (← toExpr e))
    | .list [.atom "log", e] => do some (.log (← toExpr e))
    | .list [.atom "revert", e] => do some (.revert (← toExpr e))
    | .list [.atom "assert", e] => do some (.assert (← toExpr e))
    | .list [.atom "require", c, v] => do some (.require (← toExpr c) (← toExpr v))
    | _ => none
end

def toFn : Sexp → Option Fn
  | .list (.atom "fn" :: .atom name :: .list ps :: body) => do
      let ps ← ps.mapM fun | .atom p => some p | _ => none
      some { name := name, params := ps, body := (← body.mapM toStmt) }
  | _ => none

def toProg : Sexp → Option Prog
  | .list [.atom "prog", .list (.atom "fns" :: fns), .list (.atom "main" :: main)] => do
      some { fns := (← fns.mapM toFn), main := (← main.mapM toStmt) }
  | _ => none

def parseProg (toks : List String) : Option Prog :=
  match readAll toks with
  | some [sx] => toProg sx
  | _ => none

/-! ### Outcomes as printed by the harness: `ok:<logs>` | `revert:<code>:<logs>`; logs = `-` or
`.`-joined hex payloads (`e` = empty payload). -/

structure Obs where
  reverted : Bool
  code : Nat
  logs : List Bytes
  deriving DecidableEq

def parseLogs? (s : String) : Option (List Bytes) :=
  if s = "-" then some [] else
  (s.splitOn ".").mapM fun t => if t = "e" then some [] else hexBytes? t

def parseObs? (s : String) : Option Obs :=
  match s.splitOn ":" with
  | ["ok", l] => do some ⟨false, 0, ← parseLogs? l⟩
  | ["revert", c, l] => do some ⟨true, ← c.toNat?, ← parseLogs? l⟩
  | _ => none

def showLogs (l : List Bytes) : String :=
  if l.isEmpty then "-" else ".".intercalate (l.map fun b => if b.isEmpty then "e" else showHexBytes b)

def showOutcome : Outcome → String
  | .ok l => s!"ok:{showLogs l}"
  | .revert c l => s!"revert:{c}:{showLogs l}"
  | .oob l => s!"oob:{showLogs l}"
  | .outOfFuel => "outOfFuel"
  | .stuck => "stuck"
  | .unsupported => "unsupported"
  | .invalid => "invalid"

def outcomeClass : Outcome → String
  | .ok _ => "ok" | .revert 0 _ => "revert0" | .revert _ _ => "revertN" | .oob _ => "oob"
  | .outOfFuel => "oof" | .stuck => "stuck" | .unsupported => "unsupported" | .invalid => "invalid"

/-- `key=value` lookup among impl tokens -/
def kvLookup (k : String) (toks : List String) : Option String :=
  toks.findSome? fun t => if t.startsWith (k ++ "=") then some ((t.drop (k.length + 1)).toString) else none

def FUEL : Nat := 6000

end SwayVerif.Driver.SwayParse
