import SwayVerif.Model.SwaySem
import SwayVerif.Driver.Util
import SwayVerif.Driver.SwayParse
/-!
Driver for C01. Case: `prog <sexp>` | `prog-oob <sexp>` | `e2e <name> <expected>`;
implementation result: `<class> debug=<obs> release=<obs>` with `<obs>` = `ok:<logs>` | `revert:<code>:<logs>`
(for `e2e`: `ret:<n>` | `retd:<hex>` | `revert:<code>`).

`prop` = in BOTH builds the run reverted exactly when `SwaySem.run` prescribes a revert and logged exactly the
prescribed payloads. `agree` additionally compares the revert code. For C01 the model is the prescription, so
the two coincide up to the revert code. `unsupported`/`outOfFuel` answers of the model are skipped (`skip=1`).
`why=dead-trap-eliminated` is printed only when the prescribed outcome is missed but each build behaves like a
run of the semantics in which the first k (≤ 8) trapping 64/256-bit `+ - *` or `/ %` whose result is never
observed were deleted (the real compiler deletes unused trapping instructions in both profiles).
`why=release-wrong-aggregate-param` is printed only for the kinds `prog-aggsel` / `prog-f4` (programs the generator
marks as containing a non-inlined function selecting among by-value aggregate parameters of one type) when the debug
build is exactly the prescribed run and the release build has the prescribed status and payload sizes.
`why=release-stale-self-update` likewise for the kinds `prog-selfupd` / `prog-f6` (programs that may re-assign an
aggregate from a constructor reading the same variable, finding F6).
`why=dyn-oob-no-revert` is printed only when the model prescribes a revert for an out-of-bounds dynamic array
index and the implementation returned normally having logged exactly one more payload.
-/
namespace SwayVerif.Driver.C01
open SwayVerif.Driver SwayVerif.SwaySem SwayVerif.Driver.SwayParse

/-- (prop, agree, oobNoRevert) of one observed run against the prescribed outcome -/
def judge (m : Outcome) (o : Obs) : Bool × Bool × Bool :=
  match m with
  | .ok l => let p := !o.reverted && decide (o.logs = l); (p, p, false)
  | .revert c l => let p := o.reverted && decide (o.logs = l); (p, p && decide (o.code = c), false)
  | .oob l =>
    let p := o.reverted && decide (o.logs = l)
    (p, p, !o.reverted && decide (o.logs.take l.length = l) && decide (o.logs.length = l.length + 1))
  | _ => (true, true, false)

/-- Is `o` the outcome of a run in which the first `k ≤ 8` trapping-but-unused operations (`SwaySem.skippable`)
were deleted by the compiler? (Such runs never observe the missing value: `Outcome.invalid` otherwise.) -/
def lenientMatch (p : Prog) (o : Obs) : Bool :=
  (List.range 8).any fun k =>
    match runSkip p FUEL (k + 1) with
    | .invalid | .outOfFuel | .stuck | .unsupported => false
    | m => let (pr, _, oobNoRevert) := judge m o; pr || oobNoRevert

/-- the release run has the prescribed status, number of payloads: only payloads differ (an enum payload may change its size with the variant)
(signature of finding F4: a non-inlined function returns the wrong by-value aggregate parameter in release) -/
def sameShape (m : Outcome) (o : Obs) : Bool :=
  match m with
  | .ok l => !o.reverted && decide (o.logs.length = l.length)
  | _ => false

def sizeClass (n : Nat) : String :=
  if n = 0 then "0" else if n ≤ 2 then "1-2" else if n ≤ 8 then "3-8" else "9+"

def outcomeLogs : Outcome → List Bytes
  | .ok l | .revert _ l | .oob l => l
  | _ => []

def answerProg (kind : String) (rest : List String) (itoks : List String) : String :=
  match parseProg rest with
  | none => "bad-prog agree=0 prop=1 why=unparsed-program"
  | some p =>
    let m := run p FUEL
    let ms := showOutcome m
    let cls := outcomeClass m
    match m with
    | .outOfFuel | .unsupported => s!"{ms} agree=1 prop=1 skip=1 cls={cls}"
    | .stuck => s!"{ms} agree=0 prop=1 skip=0 cls={cls} why=model-stuck"
    | _ =>
      match (kvLookup "debug" itoks).bind parseObs?, (kvLookup "release" itoks).bind parseObs? with
      | some d, some r =>
        let (pd, ad, wd) := judge m d
        let (pr, ar, wr) := judge m r
        let why := if (wd || wr) && (pd || wd) && (pr || wr) then " why=dyn-oob-no-revert" else
          if pd && pr then "" else
          if (kind = "prog-aggsel" || kind = "prog-f4") && pd && ad && sameShape m r then " why=release-wrong-aggregate-param" else
          if (kind = "prog-selfupd" || kind = "prog-f6") && pd && ad && sameShape m r then " why=release-stale-self-update" else
          if (pd || lenientMatch p d) && (pr || lenientMatch p r) then " why=dead-trap-eliminated" else
          if !pd && !pr then " why=both-differ" else if !pd then " why=debug-differs" else " why=release-differs"
        s!"{ms} agree={b01 (ad && ar)} prop={b01 (pd && pr)} skip=0 cls={cls} kind={kind} nlogs={sizeClass (outcomeLogs m).length}{why}"
      | _, _ =>
        -- the compiler produced no bytecode (ICE / hang / generator slip): C01 speaks about produced bytecode
        if itoks.head? = some "nobytecode" then s!"{ms} agree=1 prop=1 skip=1 cls={cls} kind={kind} why=no-bytecode"
        else s!"{ms} agree=0 prop=1 skip=0 cls={cls} why=impl-unparsed"

/-- e2e stream: `e2e <name> <expected> ;; <class> debug=<got> release=<got>`; no model involved: the maintainer's
expected value is the prescription. -/
def answerE2e (exp : String) (itoks : List String) : String :=
  match kvLookup "debug" itoks, kvLookup "release" itoks with
  | some d, some r =>
    if d.startsWith "builderr" || r.startsWith "builderr" then s!"{exp} agree=1 prop=1 skip=1 cls=e2e kind=e2e why=no-bytecode" else
    let ok := d = exp && r = exp
    s!"{exp} agree={b01 ok} prop={b01 ok} skip=0 cls=e2e kind=e2e"
  | _, _ => s!"{exp} agree=0 prop=1 skip=0 cls=e2e why=impl-unparsed"

def answer (line : String) : String :=
  match line.splitOn " ;; " with
  | [c, i] =>
    let itoks := tokens i
    match tokenize c with
    | kind :: rest =>
      if kind.startsWith "prog" then answerProg kind rest itoks
      else (match rest with | [_, exp] => if kind = "e2e" then answerE2e exp itoks else "bad-case agree=0 prop=1 why=bad-case" | _ => "bad-case agree=0 prop=1 why=bad-case")
    | _ => "bad-case agree=0 prop=1 why=bad-case"
  | _ => "bad-line agree=0 prop=1 why=bad-line"

def run : IO Unit := do
  lineLoop (← IO.getStdin) (← IO.getStdout) answer

end SwayVerif.Driver.C01

def main : IO Unit := SwayVerif.Driver.C01.run
