import SwayVerif.Model.Asm
import SwayVerif.Driver.AsmText
import SwayVerif.Driver.Util
/-!
Driver for C08 (register allocation). Cases (see `harness/src/bin/sv_c08.rs`):

* `alloc <ops> ;; K=<k> stages=ok live=.. edges=.. cops=.. clive=.. cedges=.. status=ok final=.. assign=.. spilled=.. dc=..`
  agree = the model's successors, live_out table, interference edges and coalescing result equal the
  real ones (the colours are NOT compared); prop = `validAlloc` on the real final assignment with the
  liveness of the real final ops recomputed by the model, and `validSlots` for every spill round.
* `slots <locals> <regs> ;; ok <v=off,..>`, `assign <n> <edges> <stack> K=<k> ;; ok <v=k,..>|err`, `vm .. ;; pass|fail`
-/
namespace SwayVerif.Driver.C08
open SwayVerif.Driver SwayVerif.Driver.AsmText SwayVerif.Asm

def get (kv : List (String × String)) (k : String) : Option String := kv.lookup k

def sizeClass (n : Nat) : String :=
  if n < 20 then "lt20" else if n < 100 then "lt100" else if n < 400 then "lt400" else "ge400"

/-- maximal number of simultaneously live registers -/
def pressure (lo : List RSet) : Nat := lo.foldl (fun m s => max m s.length) 0

def pressureClass (p : Nat) (K : Nat) : String :=
  if p ≤ K / 2 then "low" else if p ≤ K then "mid" else if p ≤ 48 then "high" else "gt48"

def colourFn (a : List (Reg × Nat)) (r : Reg) : Option Nat := a.lookup r

/-- one spill round `<ops>@<v=slot,..>`: interfering spilled registers have slots apart -/
def roundOk (s : String) : Option Bool :=
  match s.splitOn "@" with
  | [o, sl] => do
    let ops ← parseOps? o
    let ops ← withSucc ops
    let slots ← parseAssign? sl
    let lo ← liveness true ops
    pure (validSlots ops lo slots)
  | _ => none

/-- What the coalescing loop met: (merged, kept for an edge dst→src only, kept for an edge src→dst only,
kept for edges both ways, kept by the Briggs/George test) -/
structure CoStats where
  merged : Nat := 0
  fwd : Nat := 0
  bwd : Nat := 0
  both : Nat := 0
  unsafeKept : Nat := 0

def coStatsStep (K : Nat) (acc : CoState × CoStats) (x : AOp × RSet) : CoState × CoStats :=
  let st := acc.1
  let cs := acc.2
  let cs' := match moveOf? x.1 with
    | some (.virt a, .virt b) =>
      let r1 := rep st.map (.virt a)
      let r2 := rep st.map (.virt b)
      if r1 = r2 then cs else
      let f := decide ((r1, r2) ∈ st.graph)
      let bk := decide ((r2, r1) ∈ st.graph)
      if f && bk then { cs with both := cs.both + 1 }
      else if f then { cs with fwd := cs.fwd + 1 }
      else if bk then { cs with bwd := cs.bwd + 1 }
      else if !coalesceSafe K st.graph r1 r2 then { cs with unsafeKept := cs.unsafeKept + 1 }
      else { cs with merged := cs.merged + 1 }
    | _ => cs
  (coalesceStep (coalesceSafe K) st x, cs')

def coStats (K : Nat) (ops : List AOp) (lo : List RSet) (g : Graph) : CoStats :=
  ((ops.zip lo).foldl (coStatsStep K) ({ graph := g, map := [], kept := [] }, {})).2

def flag (n : Nat) : String := if n = 0 then "0" else "1"

def canonMap (m : List (Reg × Reg)) : List Nat :=
  dedupSorted (sortNats ((m.filter fun e => e.1 != e.2).map fun e => Reg.key e.1 * 4294967296 + Reg.key e.2))

def answerAlloc (c : List String) (kv : List (String × String)) : String :=
  match c with
  | [opsText] =>
    match parseOps? opsText, (get kv "K").bind String.toNat? with
    | some ops0, some K =>
      match withSucc ops0 with
      | none => "nosucc agree=0 prop=1"
      | some ops =>
        let succOk := ops.map (·.succ) == ops0.map (·.succ)
        match liveness true ops with
        | none => "nofix agree=0 prop=1"
        | some lo =>
          let g := interference ops lo
          let co := coalesce K ops lo g
          let flags : List Bool := match get kv "stages" with
            | some "ok" =>
              match (get kv "live").bind parseSets?, (get kv "edges").bind parseEdges?,
                (get kv "cops").bind parseOps?, (get kv "clive").bind parseSets?,
                (get kv "cedges").bind parseEdges?, (get kv "cmap").bind parseEdges'? with
              | some rl, some re, some rco, some rcl, some rce, some rcm =>
                [sameSets lo rl, canonEdges g == canonEdges re,
                  (match withSucc co.ops with
                      | some mo => sameOps mo rco
                      | none => false),
                  sameSets co.liveOut rcl, canonEdges co.graph == canonEdges rce,
                  canonMap co.map == canonMap rcm]
              | _, _, _, _, _, _ => [false]
            | _ => [false]
          let stagesAgree := flags.all id
          let fl := "".intercalate (flags.map b01)
          let p := pressure lo
          let cs := coStats K ops lo g
          let info := s!"succ={b01 succOk} stages={fl} co={flag cs.merged}{flag cs.fwd}{flag cs.bwd}{flag cs.both}{flag cs.unsafeKept} size={sizeClass ops.length} pressure={pressureClass p K} src={(get kv "src").getD "?"}"
          match get kv "status" with
          | some "ok" =>
            match (get kv "final").bind parseOps?, (get kv "assign").bind parseAssign?, get kv "spilled",
              (get kv "rmap").bind parseEdges'?, get kv "pre" with
            | some fin0, some asg, some sp, some rmap, some preText =>
              match withSucc fin0 with
              | none => s!"nosucc-final agree=0 prop=1 {info}"
              | some fin =>
                let finSucc := fin.map (·.succ) == fin0.map (·.succ)
                -- the op list the last colouring round started from, with its liveness
                let preLo : Option (List AOp × List RSet) :=
                  if preText = "same" then some (ops, lo) else do
                    let p0 ← parseOps? preText
                    let p1 ← withSucc p0
                    let l ← liveness true p1
                    pure (p1, l)
                match liveness true fin, preLo with
                | some lof, some (pre, lop) =>
                  let va := validAlloc fin lof (colourFn asg) K
                  let e2e := validAlloc pre lop (fun r => colourFn asg (rep rmap r)) K
                  let ren := coalesceMatches rmap pre fin
                  let rounds := if sp = "-" then [] else sp.splitOn "#"
                  let rs := rounds.map roundOk
                  let slotsOk := rs.all fun r => r == some true
                  let parsedOk := rs.all fun r => r.isSome
                  let dc := get kv "dc" == some "1"
                  let replay := get kv "replay" == some "1"
                  let agree := succOk && finSucc && stagesAgree && dc && parsedOk && replay
                  s!"ok agree={b01 agree} prop={b01 (va && e2e && ren && slotsOk)} valid={b01 va} e2e={b01 e2e} ren={b01 ren} slots={b01 slotsOk} fin={b01 finSucc}{b01 dc}{b01 parsedOk}{b01 replay} rounds={rounds.length} coalesced={ops.length - co.ops.length} {info}"
                | _, _ => s!"nofix-final agree=0 prop=1 {info}"
            | _, _, _, _, _ => s!"bad-final agree=0 prop=1 {info}"
          | some "err" => s!"err agree={b01 (succOk && stagesAgree)} prop=1 rounds=err {info}"
          | _ => s!"panic agree=0 prop=1 {info}"
    | _, _ => "bad-ops agree=0 prop=1"
  | _ => "bad-case agree=0 prop=1"

def answerSlots (c : List String) (i : List String) : String :=
  match c, i with
  | [locals, regs], ["ok", res] =>
    match locals.toNat?, parseRegs? regs, parseAssign? res with
    | some l, some rs, some impl =>
      let m := spillOffsets rs l
      let agree := match m with
        | some mo => (mo.map fun e => (Reg.key e.1, e.2)) == (impl.map fun e => (Reg.key e.1, e.2))
        | none => false
      -- distinct registers: slots 8 apart; every spilled register has a slot at or above `locals`
      let apart := impl.all fun a => impl.all fun b => a.1 == b.1 || slotsApart a.2 b.2
      let total := rs.all fun r => (impl.lookup r).any fun o => decide (l ≤ o) && (o - l) % 8 == 0
      s!"{impl.length} agree={b01 agree} prop={b01 (apart && total)} n={sizeClass rs.length}"
    | _, _, _ => "bad-slots agree=0 prop=1"
  | _, _ => "bad-slots agree=0 prop=1"

def answerAssign (c : List String) (i : List String) : String :=
  match c with
  | [_n, edges, stack, k] =>
    match parseEdges? edges, parseRegs? stack, (get (kvOf [k]) "K").bind String.toNat? with
    | some g, some st, some K =>
      let m := assign g K st
      match i with
      | ["ok", res] =>
        match parseAssign? res with
        | some impl =>
          let col := colourFn impl
          let proper := g.all fun e => e.1 == e.2 || match col e.1, col e.2 with
            | some a, some b => a != b
            | _, _ => true
          let total := st.all fun r => (col r).any fun c => decide (c < K)
          let exact := match m with
            | some pool => impl.all fun e => colourOf pool e.1 == some e.2
            | none => false
          s!"ok agree={b01 m.isSome} prop={b01 (proper && total)} exact={b01 exact} res=ok"
        | none => "bad-assign agree=0 prop=1"
      | ["err"] => s!"err agree={b01 m.isNone} prop=1 res=err"
      | _ => "panic agree=0 prop=1 res=panic"
    | _, _, _ => "bad-assign agree=0 prop=1"
  | _ => "bad-assign agree=0 prop=1"

def answer (line : String) : String :=
  let (c, i) := splitCase line
  match c with
  | "alloc" :: rest => answerAlloc rest (kvOf i)
  | "slots" :: rest => answerSlots rest i
  | "assign" :: rest => answerAssign rest i
  | "vm" :: _ => match i with
    | ["pass"] => "vm agree=1 prop=1 vm=pass"
    | ["fail"] => "vm agree=1 prop=0 vm=fail"
    | _ => "vm agree=0 prop=1 vm=builderr"
  | _ => "bad-op agree=0 prop=0"

def run : IO Unit := do
  lineLoop (← IO.getStdin) (← IO.getStdout) answer

end SwayVerif.Driver.C08

def main : IO Unit := SwayVerif.Driver.C08.run
