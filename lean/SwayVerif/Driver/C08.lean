import SwayVerif.Model.Asm
import SwayVerif.Driver.AsmText
import SwayVerif.Driver.Util
/-!
Driver for C08 (register allocation). Cases (see `harness/src/bin/sv_c08.rs`):

* `alloc <ops> ;; K=<k> stages=ok live=.. edges=.. cops=.. clive=.. cedges=.. status=ok final=.. assign=.. spilled=.. dc=..`
  agree = the model's successors, live_out table, interference edges and coalescing result equal the
  real ones (the colours are NOT compared); prop = `validAlloc` on the real final assignment with the
  liveness of the real final ops recomputed by the model, and `validSlots` for every spill round.
* `slots <locals> <regs> ;; ok <v=off,..>`, `assign <n> <edges> <stack> K=<k> ;; ok <v=k,..>|err`, `vm .. ;; pass|fail`
-/
namespace SwayVerif.Driver.C08
open SwayVerif.Driver SwayVerif.Driver.AsmText SwayVerif.Asm

def get (kv : List (String × String)) (k : String) : Option String := kv.lookup k

def sizeClass (n : Nat) : String :=
  if n < 20 then "lt20" else if n < 100 then "lt100" else if n < 400 then "lt400" else "ge400"

/-- maximal number of simultaneously live registers -/
def pressure (lo : List RSet) : Nat := lo.foldl (fun m s => max m s.length) 0

def pressureClass (p : Nat) (K : Nat) : String :=
  if p ≤ K / 2 then "low" else if p ≤ K then "mid" else if p ≤ 48 then "high" else "gt48"

def colourFn (a : List (Reg × Nat)) (r : Reg) : Option Nat := a.lookup r

/-- one spill round `<ops>@<v=slot,..>`: interfering spilled registers have slots apart -/
def roundOk (s : String) : Option Bool :=
  match s.splitOn "@" with
  | [o, sl] => do
    let ops ← parseOps? o
    let ops ← withSucc ops
    let slots ← parseAssign? sl
    let lo ← liveness true ops
    pure (validSlots ops lo slots)
  | _ => none

def answerAlloc (c : List String) (kv : List (String × String)) : String :=
  match c with
  | [opsText] =>
    match parseOps? opsText, (get kv "K").bind String.toNat? with
    | some ops0, some K =>
      match withSucc ops0 with
      | none => "nosucc agree=0 prop=1"
      | some ops =>
        let succOk := ops.map (·.succ) == ops0.map (·.succ)
        match liveness true ops with
        | none => "nofix agree=0 prop=1"
        | some lo =>
          let g := interference ops lo
          let co := coalesce K ops lo g
          let flags : List Bool := match get kv "stages" with
            | some "ok" =>
              match (get kv "live").bind parseSets?, (get kv "edges").bind parseEdges?,
                (get kv "cops").bind parseOps?, (get kv "clive").bind parseSets?,
                (get kv "cedges").bind parseEdges? with
              | some rl, some re, some rco, some rcl, some rce =>
                [sameSets lo rl, canonEdges g == canonEdges re,
                  (match withSucc co.ops with
                      | some mo => sameOps mo rco
                      | none => false),
                  sameSets co.liveOut rcl, canonEdges co.graph == canonEdges rce]
              | _, _, _, _, _ => [false]
            | _ => [false]
          let stagesAgree := flags.all id
          let fl := "".intercalate (flags.map b01)
          let p := pressure lo
          let info := s!"succ={b01 succOk} stages={fl} size={sizeClass ops.length} pressure={pressureClass p K} src={(get kv "src").getD "?"}"
          match get kv "status" with
          | some "ok" =>
            match (get kv "final").bind parseOps?, (get kv "assign").bind parseAssign?, get kv "spilled" with
            | some fin0, some asg, some sp =>
              match withSucc fin0 with
              | none => s!"nosucc-final agree=0 prop=1 {info}"
              | some fin =>
                let finSucc := fin.map (·.succ) == fin0.map (·.succ)
                match liveness true fin with
                | none => s!"nofix-final agree=0 prop=1 {info}"
                | some lof =>
                  let va := validAlloc fin lof (colourFn asg) K
                  let rounds := if sp = "-" then [] else sp.splitOn "#"
                  let rs := rounds.map roundOk
                  let slotsOk := rs.all fun r => r == some true
                  let parsedOk := rs.all fun r => r.isSome
                  let dc := get kv "dc" == some "1"
                  let agree := succOk && finSucc && stagesAgree && dc && parsedOk
                  s!"ok agree={b01 agree} prop={b01 (va && slotsOk)} valid={b01 va} slots={b01 slotsOk} fin={b01 finSucc}{b01 dc}{b01 parsedOk} rounds={rounds.length} coalesced={ops.length - co.ops.length} {info}"
            | _, _, _ => s!"bad-final agree=0 prop=1 {info}"
          | some "err" => s!"err agree={b01 (succOk && stagesAgree)} prop=1 rounds=err {info}"
          | _ => s!"panic agree=0 prop=1 {info}"
    | _, _ => "bad-ops agree=0 prop=1"
  | _ => "bad-case agree=0 prop=1"

def answerSlots (c : List String) (i : List String) : String :=
  match c, i with
  | [locals, regs], ["ok", res] =>
    match locals.toNat?, parseRegs? regs, parseAssign? res with
    | some l, some rs, some impl =>
      let m := spillOffsets rs l
      let agree := match m with
        | some mo => (mo.map fun e => (Reg.key e.1, e.2)) == (impl.map fun e => (Reg.key e.1, e.2))
        | none => false
      -- distinct registers: slots 8 apart; every spilled register has a slot at or above `locals`
      let apart := impl.all fun a => impl.all fun b => a.1 == b.1 || slotsApart a.2 b.2
      let total := rs.all fun r => (impl.lookup r).any fun o => decide (l ≤ o) && (o - l) % 8 == 0
      s!"{impl.length} agree={b01 agree} prop={b01 (apart && total)} n={sizeClass rs.length}"
    | _, _, _ => "bad-slots agree=0 prop=1"
  | _, _ => "bad-slots agree=0 prop=1"

def answerAssign (c : List String) (i : List String) : String :=
  match c with
  | [_n, edges, stack, k] =>
    match parseEdges? edges, parseRegs? stack, (get (kvOf [k]) "K").bind String.toNat? with
    | some g, some st, some K =>
      let m := assign g K st
      match i with
      | ["ok", res] =>
        match parseAssign? res with
        | some impl =>
          let col := colourFn impl
          let proper := g.all fun e => e.1 == e.2 || match col e.1, col e.2 with
            | some a, some b => a != b
            | _, _ => true
          let total := st.all fun r => (col r).any fun c => decide (c < K)
          let exact := match m with
            | some pool => impl.all fun e => colourOf pool e.1 == some e.2
            | none => false
          s!"ok agree={b01 m.isSome} prop={b01 (proper && total)} exact={b01 exact} res=ok"
        | none => "bad-assign agree=0 prop=1"
      | ["err"] => s!"err agree={b01 m.isNone} prop=1 res=err"
      | _ => "panic agree=0 prop=1 res=panic"
    | _, _, _ => "bad-assign agree=0 prop=1"
  | _ => "bad-assign agree=0 prop=1"

def answer (line : String) : String :=
  let (c, i) := splitCase line
  match c with
  | "alloc" :: rest => answerAlloc rest (kvOf i)
  | "slots" :: rest => answerSlots rest i
  | "assign" :: rest => answerAssign rest i
  | "vm" :: _ => match i with
    | ["pass"] => "vm agree=1 prop=1 vm=pass"
    | ["fail"] => "vm agree=1 prop=0 vm=fail"
    | _ => "vm agree=0 prop=1 vm=builderr"
  | _ => "bad-op agree=0 prop=0"

def run : IO Unit := do
  lineLoop (← IO.getStdin) (← IO.getStdout) answer

end SwayVerif.Driver.C08

def main : IO Unit := SwayVerif.Driver.C08.run
