import SwayVerif.Driver.Util
/-! Driver for C30 (stub — replace `answer`; keep `run`). -/
namespace SwayVerif.Driver.C30
open SwayVerif.Driver

def answer (_line : String) : String := "unimplemented agree=0 prop=0"

def run : IO Unit := do
  lineLoop (← IO.getStdin) (← IO.getStdout) answer

end SwayVerif.Driver.C30

def main : IO Unit := SwayVerif.Driver.C30.run
