import SwayVerif.Model.Fetch
import SwayVerif.Driver.Util
/-!
Driver for C30 (model: `Model/Fetch.lean`, program `progFixed n` = the code after the `fix:`).
Cases written by `harness/src/bin/sv_c30.rs`:
* `points <n> <m> <e> ;; <name#k> …`         fault points passed by an undisturbed fetch, in order
* `clean <n> <m> <e> <ref> ;; after=<fs> extra=<k> status=<..> result=<..>`
* `fault <name#k> <err|abort> <n> <m> <e> <lock> <ref> ;; after=<fs> extra=<k> first=<..> next=<..> …`
agree = the model predicts the same fault points / the same file-system summary after the fault and the same
decision of the later build; prop = the later build refetched or used the complete checkout.
-/
namespace SwayVerif.Driver.C30
open SwayVerif.Fetch SwayVerif.Driver

def kvOf (toks : List String) (key : String) : String :=
  match toks.find? (fun t => t.startsWith (key ++ "=")) with
  | some t => (t.drop (key.length + 1)).toString
  | none => "?"

def pointClass (name : String) : String :=
  if name.startsWith "tmp_repo" then (if name.endsWith "#0" then "pin" else "clone")
  else if name.startsWith "checkout_progress" then "blob"
  else if name.startsWith "lock_file" || name.startsWith "fetch_needed" then "entry"
  else "fetch"

def answer (line : String) : String :=
  let (c, i) := splitCase line
  match c with
  | ["points", n, _, _] =>
    match n.toNat? with
    | some n =>
      let m := pointNames (progFixed n)
      s!"{" ".intercalate m} agree={b01 (decide (m = i))} prop=1 kind=points n={n}"
    | none => "bad-case agree=0 prop=0"
  | ["clean", n, _, _, r] =>
    match n.toNat? with
    | some n =>
      let m := (run n (progFixed n) init).summary
      let ok := kvOf i "after" == m && kvOf i "extra" == "0" && kvOf i "status" == "exit0"
        && kvOf i "result" == "ok_compiled=ok"
      s!"after={m} agree={b01 ok} prop=1 kind=clean n={n} ref={r}"
    | none => "bad-case agree=0 prop=0"
  | ["fault", name, mode, n, m, e, lock, r] =>
    match n.toNat?, m.toNat?, e.toNat?, (if mode == "err" then some Kind.err else if mode == "abort" then some Kind.crash else none) with
    | some n, some m, some e, some k =>
      match faultState n (progFixed n) name k with
      | some t =>
        let ms := t.summary
        let mn := (nextBuild n m e t).name
        let implNext := kvOf i "next"
        let ok := kvOf i "after" == ms && implNext == mn && kvOf i "extra" == "0"
        s!"after={ms} next={mn} agree={b01 ok} prop={b01 (propHolds implNext)} kind=fault mode={mode} lock={lock} ref={r} n={n} class={pointClass name} implnext={implNext} state={ms}"
      | none => s!"unknown-point agree=0 prop={b01 (propHolds (kvOf i "next"))} kind=fault mode={mode}"
    | _, _, _, _ => "bad-case agree=0 prop=0"
  | _ => "bad-case agree=0 prop=0"

def run : IO Unit := do
  lineLoop (← IO.getStdin) (← IO.getStdout) answer

end SwayVerif.Driver.C30

def main : IO Unit := SwayVerif.Driver.C30.run
