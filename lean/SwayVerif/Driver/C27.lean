import SwayVerif.Model.StdSpec
import SwayVerif.Driver.Util
/-!
Driver for C27.
  `num <op> <ty> <mode> <a> <b> ;; ok <hex bytes> | revert <code>`
  `col <kind> <op>... ;; ok <obs>... | revert <code> <obs>...`
agree = the TRANSCRIPTION (`StdNum` / `StdVec` machine) gives the VM's result;
prop  = the REFERENCE (`refNum`: Nat arithmetic / `specRun`: List) gives the VM's result, reverts exactly
        when documented.
-/
namespace SwayVerif.Driver.C27
open SwayVerif.Driver SwayVerif.StdSpec SwayVerif.StdVec SwayVerif.Word

def parseTy : String → Option Ty
  | "u8" => some .u8 | "u16" => some .u16 | "u32" => some .u32 | "u64" => some .u64
  | "u128" => some .u128 | "u256" => some .u256 | _ => none

def parseOp : String → Option NumOp
  | "add" => some .add | "sub" => some .sub | "mul" => some .mul | "div" => some .div | "mod" => some .mod
  | "wadd" => some .wadd | "wsub" => some .wsub | "wmul" => some .wmul
  | "pow" => some .pow | "sqrt" => some .sqrt | "log" => some .log | "log2" => some .log2
  | "lsh" => some .lsh | "rsh" => some .rsh | "cmp" => some .cmp | "oadd" => some .oadd | "omul" => some .omul
  | "try8" => some (.tryFrom .u8) | "try16" => some (.tryFrom .u16) | "try32" => some (.tryFrom .u32)
  | "try64" => some (.tryFrom .u64)
  | "tas8" => some (.tryAs .u8) | "tas16" => some (.tryAs .u16) | "tas32" => some (.tryAs .u32)
  | _ => none

def pad (n : Nat) (s : String) : String := String.ofList (List.replicate (n - s.length) '0') ++ s

def hexOfPieces (ps : List Piece) : String :=
  if ps.isEmpty then "-" else String.join (ps.map fun (w, v) => pad (2 * w) (hexOfNat v))

/-- split a hex string into pieces of the given byte widths -/
def piecesOfHex (widths : List Nat) (s : String) : Option (List Piece) :=
  let rec go : List Nat → List Char → Option (List Piece)
    | [], [] => some []
    | [], _ => none
    | w :: ws, cs =>
      if cs.length < 2 * w then none
      else match parseHex? (String.ofList (cs.take (2 * w))), go ws (cs.drop (2 * w)) with
        | some v, some r => some ((w, v) :: r)
        | _, _ => none
  go widths (if s = "-" then [] else s.toList)

def showRes (r : Res (List Piece)) : String :=
  match r with
  | .ok ps => s!"ok {hexOfPieces ps}"
  | .revert c => s!"revert {c}"
  | .panic _ => "revert 0"
  | .fuel => "fuel"

/-- byte widths of what a case logs, given the total length (Option results log 1 or 2 values) -/
def widthsFor (op : NumOp) (t : Ty) (hexLen : Nat) : List Nat :=
  match op with
  | .tryFrom tt | .tryAs tt => if hexLen = 16 then [8] else [8, tt.bytes]
  | .cmp => [8]
  | .oadd | .omul => [8, 8]
  | _ => if t = .u128 then [8, 8] else [t.bytes]

def whyNum (op : NumOp) (t : Ty) (fl : Flags) (a b : Nat) : String :=
  match refNum op t fl a b with
  | none => "unspecified"
  | some none => "revert"
  | some (some _) => if op = .log ∧ (t = .u128 ∨ t = .u256) then "value-log-wide" else "value"

def answerNum (c i : List String) : String :=
  match c, i with
  | [ops, tys, ms, as, bs], ih :: irest =>
    match parseOp ops, parseTy tys, ms.toNat?, parseHex? as, parseHex? bs with
    | some op, some t, some m, some a, some b =>
      let fl := flagsOfMode m
      let impl : Option ImplNum := match ih, irest with
        | "ok", [h] => (piecesOfHex (widthsFor op t (if h = "-" then 0 else h.length)) h).map ImplNum.ok
        | "revert", [cd] => cd.toNat?.map ImplNum.revert
        | _, _ => none
      match runNum op t fl a b, impl with
      | some mr, some ir =>
        let agree := agreeNum mr ir
        let prop := propNum op t fl a b ir
        let kind := match ir with | .ok _ => "ok" | .revert _ => "revert"
        s!"{showRes mr} agree={b01 agree} prop={b01 prop} op={ops}.{tys} mode={m} spec={whyNum op t fl a b} out={kind}"
      | none, _ => "bad-op-for-type agree=0 prop=0"
      | _, none => "bad-impl agree=0 prop=0"
    | _, _, _, _, _ => "bad-case agree=0 prop=0"
  | _, _ => "bad-line agree=0 prop=0"

def hexList? (s : String) : Option (List Nat) :=
  if s = "-" then some [] else
  (s.splitOn ",").foldr (fun t acc => match acc, parseHex? t with
    | some l, some n => some (n :: l)
    | _, _ => none) (some [])

def parseColOp (s : String) : Option Op :=
  match s.splitOn ":" with
  | ["push", x] => (parseHex? x).map .push
  | ["pop"] => some .pop
  | ["get", i] => (parseHex? i).map .get
  | ["set", i, x] => do let i ← parseHex? i; let x ← parseHex? x; pure (.set i x)
  | ["insert", i, x] => do let i ← parseHex? i; let x ← parseHex? x; pure (.insert i x)
  | ["remove", i] => (parseHex? i).map .remove
  | ["swap", i, j] => do let i ← parseHex? i; let j ← parseHex? j; pure (.swap i j)
  | ["clear"] => some .clear
  | ["len"] => some .len
  | ["isempty"] => some .isEmpty
  | ["last"] => some .last
  | ["resize", n, x] => do let n ← parseHex? n; let x ← parseHex? x; pure (.resize n x)
  | ["iter"] => some .iter
  | ["append", xs] => (hexList? xs).map .append
  | ["splitat", m] => (parseHex? m).map .splitAt
  | ["str", xs] => (hexList? xs).map .fromSlice
  | _ => none

def answerCol (c i : List String) : String :=
  match c with
  | kind :: opToks =>
    -- first token of vec/bytes is the constructor
    let (v0, opToks) : Option Vec × List String := match kind, opToks with
      | "string", ts => (some Vec.new, ts)
      | _, "new" :: ts => (some Vec.new, ts)
      | _, t :: ts => (match t.splitOn ":" with
          | ["cap", n] => (parseHex? n).map Vec.withCapacity
          | _ => none, ts)
      | _, [] => (none, [])
    let ops := opToks.foldr (fun t acc => match acc, parseColOp t with
      | some l, some o => some (o :: l)
      | _, _ => none) (some [])
    let impl : Option ImplCol := match i with
      | "ok" :: obs => (obs.foldr (fun t acc => match acc, parseHex? t with
          | some l, some n => some (n :: l) | _, _ => none) (some [])).map fun o => ⟨o, none⟩
      | "revert" :: cd :: obs => match cd.toNat?, (obs.foldr (fun t acc => match acc, parseHex? t with
          | some l, some n => some (n :: l) | _, _ => none) (some [])) with
        | some c, some o => some ⟨o, some c⟩
        | _, _ => none
      | _ => none
    match v0, ops, impl with
    | some v0, some ops, some ir =>
      let m := run v0 ops
      let agree := agreeCol m ir
      let prop := propCol [] ops ir
      let mrev := match m.2 with | none => "ok" | some _ => "revert"
      let sz := if ops.length < 6 then "short" else if ops.length < 14 then "mid" else "long"
      s!"{mrev} obs={m.1.length} agree={b01 agree} prop={b01 prop} kind={kind} out={if ir.revert.isSome then "revert" else "ok"} size={sz}"
    | _, _, _ => "bad-col-case agree=0 prop=0"
  | [] => "bad-line agree=0 prop=0"

def answer (line : String) : String :=
  let (c, i) := splitCase line
  match c with
  | "num" :: rest => answerNum rest i
  | "col" :: rest => answerCol rest i
  | _ => "bad-line agree=0 prop=0"

def run : IO Unit := do
  lineLoop (← IO.getStdin) (← IO.getStdout) answer

end SwayVerif.Driver.C27

def main : IO Unit := SwayVerif.Driver.C27.run
