import SwayVerif.Model.Asm
import SwayVerif.Driver.Util
/-!
Parser / printer of the abstract op-list text form written by
`sway_core::verif_hooks::regalloc` (shared by the C08 and C07 drivers).

```
oplist := "-" | op ("|" op)*
op     := kind ":" regs ":" regs ":" regs ":" nats ":" ("0"|"1") [":" asm]
          -- kind : defs : uses : defConst : successors : side effect
kind   := "move" | "label."n | "jump."n | "jnz."n | "call."n | "jmpaddr" | "retcall" | "rvrt"
        | "comment" | "other."MNEMONIC ["."imm]
regs   := "-" | reg ("," reg)*          reg := "v"n | "c"n
nats   := "-" | n ("," n)*
```
-/
namespace SwayVerif.Driver.AsmText
open SwayVerif.Asm

def parseReg? (s : String) : Option Reg :=
  match s.toList with
  | 'v' :: r => (String.ofList r).toNat?.map Reg.virt
  | 'c' :: r => (String.ofList r).toNat?.map Reg.const
  | _ => none

def parseList? {α : Type} (f : String → Option α) (s : String) : Option (List α) :=
  if s = "-" || s = "" then some [] else (s.splitOn ",").mapM f

def parseRegs? : String → Option (List Reg) := parseList? parseReg?
def parseNats? : String → Option (List Nat) := parseList? String.toNat?

def parseKind? (s : String) : Option Kind :=
  match s.splitOn "." with
  | ["move"] => some .move
  | ["label", n] => n.toNat?.map Kind.label
  | ["jump", n] => n.toNat?.map Kind.jump
  | ["jnz", n] => n.toNat?.map Kind.jnz
  | ["call", n] => n.toNat?.map Kind.call
  | ["jmpaddr"] => some .jmpaddr
  | ["retcall"] => some .retcall
  | ["rvrt"] => some .rvrt
  | ["comment"] => some .comment
  | ["other", m] => some (.other m none)
  | ["other", m, i] => i.toNat?.map fun k => Kind.other m (some k)
  | _ => none

def parseOp? (s : String) : Option AOp :=
  match s.splitOn ":" with
  | k :: d :: u :: rest => do
    let kind ← parseKind? k
    let defs ← parseRegs? d
    let uses ← parseRegs? u
    let dc ← match rest with | x :: _ => parseRegs? x | [] => some []
    let succ ← match rest with | _ :: x :: _ => parseNats? x | _ => some []
    let se := match rest with | _ :: _ :: x :: _ => x != "0" | _ => true
    pure { kind, defs, uses, defConst := dc, succ, sideEffect := se }
  | _ => none

def parseOps? (s : String) : Option (List AOp) :=
  if s = "-" || s = "" then some [] else (s.splitOn "|").mapM parseOp?

/-- `set|set|…` (one register set per op) -/
def parseSets? (s : String) : Option (List RSet) :=
  if s = "-" || s = "" then some [] else (s.splitOn "|").mapM parseRegs?

/-- `a>b,a>b,…` -/
def parseEdges? (s : String) : Option Graph :=
  parseList? (fun t => match t.splitOn ">" with
    | [a, b] => do pure ((← parseReg? a), (← parseReg? b))
    | _ => none) s

/-- `a=b,a=b,…` (register pairs, e.g. the renaming of coalescing) -/
def parseEdges'? (s : String) : Option (List (Reg × Reg)) :=
  parseList? (fun t => match t.splitOn "=" with
    | [a, b] => do pure ((← parseReg? a), (← parseReg? b))
    | _ => none) s

/-- `v=k,v=k,…` -/
def parseAssign? (s : String) : Option (List (Reg × Nat)) :=
  parseList? (fun t => match t.splitOn "=" with
    | [a, b] => do pure ((← parseReg? a), (← b.toNat?))
    | _ => none) s

def Reg.key : Reg → Nat
  | .virt n => 2 * n
  | .const n => 2 * n + 1

def sortNats (l : List Nat) : List Nat := (l.toArray.qsort (· < ·)).toList

def dedupSorted : List Nat → List Nat
  | a :: b :: r => if a = b then dedupSorted (b :: r) else a :: dedupSorted (b :: r)
  | l => l

/-- canonical form of a register set -/
def canonSet (l : List Reg) : List Nat := dedupSorted (sortNats (l.map Reg.key))

def canonEdges (g : Graph) : List Nat :=
  dedupSorted (sortNats (g.map fun e => Reg.key e.1 * 4294967296 + Reg.key e.2))

def sameSets (a b : List RSet) : Bool :=
  a.length == b.length && (a.zip b).all fun x => canonSet x.1 == canonSet x.2

/-- ops agree in kind, defs, uses (as sets) and successors -/
def sameOps (a b : List AOp) : Bool :=
  a.length == b.length && (a.zip b).all fun x =>
    x.1.kind == x.2.kind && canonSet x.1.defs == canonSet x.2.defs
      && canonSet x.1.uses == canonSet x.2.uses && x.1.succ == x.2.succ

/-- `key=value` tokens of the implementation part -/
def kvOf (ts : List String) : List (String × String) :=
  ts.filterMap fun t => match t.splitOn "=" with
    | k :: v :: rest => some (k, "=".intercalate (v :: rest))
    | _ => none

end SwayVerif.Driver.AsmText
