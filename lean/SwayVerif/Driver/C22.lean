import SwayVerif.Model.Toposort
import SwayVerif.Driver.Util
/-!
Driver for C22. Case: `graph <n> <edges>` — edges in `add_edge` order, comma separated,
`a-b` = library dependency, `a~b` = contract dependency (a depends on b), `.` = no edges.
Implementation result: `ok <order, comma separated | .>` | `err` (dependency cycle detected) |
`errother` | `panic`.
-/
namespace SwayVerif.Driver.C22
open SwayVerif.Toposort SwayVerif.Driver

def parseEdge? (t : String) : Option (Nat × Nat × Bool) :=
  let contract := t.toList.contains '~'
  match t.split (fun c => c == '-' || c == '~') |>.toList.map (·.toString) with
  | [a, b] => do
    let a ← a.toNat?; let b ← b.toNat?
    pure (a, b, contract)
  | _ => none

def parseList? {α} (f : String → Option α) (s : String) : Option (List α) :=
  if s = "." then some [] else
  (s.splitOn ",").foldr (fun t acc => match acc, f t with
    | some l, some x => some (x :: l)
    | _, _ => none) (some [])

def showList (l : List Nat) : String :=
  if l.isEmpty then "." else ",".intercalate (l.map toString)

def showRes : Res → String
  | .ok o => s!"ok {showList o}"
  | .cycle => "err"
  | .panic => "panic"
  | .fuel => "fuel"

def sizeClass (n : Nat) : String :=
  if n ≤ 1 then "1" else if n ≤ 5 then "2-5" else if n ≤ 15 then "6-15" else "16+"

def edgeClass (n : Nat) : String :=
  if n = 0 then "0" else if n ≤ 10 then "1-10" else if n ≤ 50 then "11-50" else "51+"

def answer (line : String) : String :=
  let (c, i) := splitCase line
  let parsed : Option (PkgGraph × List Bool) := match c with
    | ["graph", n, es] => do
        let n ← n.toNat?
        let es ← parseList? parseEdge? es
        pure (⟨n, es.map fun e => (e.1, e.2.1)⟩, es.map (·.2.2))
    | _ => none
  -- `some (some impl)` = ok/err, `some none` = an answer the property never allows (panic / other error)
  let impl : Option (Option Impl) := match i with
    | ["ok", o] => (parseList? String.toNat? o).map (fun l => some (some l))
    | ["err"] => some (some none)
    | ["errother"] => some none
    | ["panic"] => some none
    | _ => none
  match parsed, impl with
  | some (g, kinds), some impl =>
    let m := compilationOrder g
    let (agree, prop) := match impl with
      | some (some o) => (decide (m = .ok o), propHolds g (some o))
      | some none => (decide (m = .cycle), propHolds g none)
      | none => (false, false)
    let self := g.edges.any fun e => e.1 == e.2
    let par := !(g.edges.eraseDups.length == g.edges.length)
    s!"{showRes m} agree={b01 agree} prop={b01 prop} cyc={b01 (hasCycle g)} nodes={sizeClass g.n} edges={edgeClass g.edges.length} self={b01 self} par={b01 par} contract={b01 (kinds.any id)}"
  | _, _ => "bad-op agree=0 prop=0"

def run : IO Unit := do
  lineLoop (← IO.getStdin) (← IO.getStdout) answer

end SwayVerif.Driver.C22

def main : IO Unit := SwayVerif.Driver.C22.run
