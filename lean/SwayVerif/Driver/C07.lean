import SwayVerif.Model.Asm
import SwayVerif.Model.AsmOpt
import SwayVerif.Driver.AsmText
import SwayVerif.Driver.Util
/-!
Driver for C07 (assembly-level optimisations). Cases (see `harness/src/bin/sv_c07.rs`):

* `pass <dce|cfg|seqjump|moves|ops> <before> ;; ok <after> src=<syn|harvest|corpus>` | `;; panic src=..`
  agree = the model pass applied to `<before>` gives exactly `<after>` (kind, defs, uses, def_const,
  side effect, and the successors recomputed by the model);
  prop  = the proved checker of that pass (`validDeleteAuto`, `validUnreach`, `validSeqJumpAuto`,
  `validMoves`) accepts the REAL before/after pair. For synthetic op lists (`src≠harvest`) the
  checker is only demanded when the input satisfies `flagsLocal` (flag registers are read by the op
  right after the one that sets them — what compiled code does; see `C07_flags_guard_insufficient`)
  and has no duplicate label.
* `addr <constidx|constprop|optimize0> <before> ;; ok <after>`: both lists are EXECUTED on a small interpreter for
  the address-arithmetic op subset; prop = same logged values, trap and final memory (per-list validation of
  the two passes that are not modelled).
* `round <0|1> <before> ;; ok <after>`: prop = the round loop never returns a longer op list (level 1).
* `prog <pkg> <test> <profile> ;; opt=<digest> noopt=<digest> …`: prop = the digests are equal.
-/
namespace SwayVerif.Driver.C07
open SwayVerif.Driver SwayVerif.Driver.AsmText SwayVerif.Asm SwayVerif.AsmOpt

def get (kv : List (String × String)) (k : String) : Option String := kv.lookup k

def sizeClass (n : Nat) : String :=
  if n < 16 then "lt16" else if n < 64 then "lt64" else if n < 256 then "lt256" else "ge256"

/-- ops agree in everything the passes look at (registers as sets) -/
def sameOp (a b : AOp) : Bool :=
  a.kind == b.kind && canonSet a.defs == canonSet b.defs && canonSet a.uses == canonSet b.uses
    && canonSet a.defConst == canonSet b.defConst && a.sideEffect == b.sideEffect

def sameList (a b : List AOp) : Bool :=
  a.length == b.length && (a.zip b).all fun x => sameOp x.1 x.2

def sameListSucc (a b : List AOp) : Bool :=
  sameList a b && (a.zip b).all fun x => x.1.succ == x.2.succ

/-- masks `ks` with `filterMask P ks ≈ Q`: match each op of `Q` with the earliest possible op of `P` -/
def alignEarliest : List AOp → List AOp → List Bool
  | [], _ => []
  | _ :: ps, [] => false :: alignEarliest ps []
  | p :: ps, q :: qs => if sameOp p q then true :: alignEarliest ps qs else false :: alignEarliest ps (q :: qs)

/-- … with the latest possible op -/
def alignLatest (P Q : List AOp) : List Bool := (alignEarliest P.reverse Q.reverse).reverse

def isSubMask (P Q : List AOp) (ks : List Bool) : Bool := sameList (filterMask P ks) Q

/-- the flag registers are read only by the op right after one that sets them -/
def flagsLocal (P : List AOp) : Bool :=
  let flags : List Reg := [.const 2, .const 8]
  let rec go : Option AOp → List AOp → Bool
    | _, [] => true
    | prev, op :: rest =>
      (flags.all fun f => !op.uses.contains f || match prev with
        | some p => p.defConst.contains f
        | none => false) && go (some op) rest
  go none P

/-- no label number occurs twice -/
def labelsUnique (P : List AOp) : Bool :=
  let ls := P.filterMap fun op => match op.kind with
    | .label l => some l
    | _ => none
  (sortNats ls) == dedupSorted (sortNats ls)

def modelPass (name : String) (P : List AOp) : Option (List AOp) :=
  match name with
  | "dce" => dce P
  | "cfg" => simplifyCfg P
  | "seqjump" => some (removeSequentialJumps P)
  | "moves" => some (removeRedundantMoves P)
  | "ops" => some (removeRedundantOps P)
  | _ => none

def modelMask (name : String) (P : List AOp) : Option (List Bool) :=
  match name with
  | "dce" => dceMask? P
  | "cfg" => simplifyCfgMask? P
  | "ops" => some (redundantOpsMask P)
  | _ => none

/-- the checker of pass `name` on the real pair -/
def validPass (name : String) (P Q : List AOp) (agreeMask : Option (List Bool)) : Bool :=
  let masks : List (List Bool) :=
    (match agreeMask with | some ks => [ks] | none => []) ++ [alignEarliest P Q, alignLatest P Q]
  match name with
  | "dce" | "ops" => masks.any fun ks => isSubMask P Q ks && validDeleteAuto ambReal P ks
  | "cfg" => masks.any fun ks => isSubMask P Q ks && validUnreach P ks
  | "seqjump" => validSeqJumpAuto ambReal P Q
  | "moves" => validMoves ambReal P Q
  | _ => false

def answerPass (c : List String) (i : List String) : String :=
  match c with
  | [name, before] =>
    let kv := kvOf i
    let src := (get kv "src").getD "?"
    match parseOps? before with
    | none => "bad-ops agree=0 prop=1"
    | some P0 =>
      let P := P0.map core
      let info := s!"pass={name} src={src} size={sizeClass P.length}"
      let m := modelPass name P
      match i with
      | "ok" :: after :: _ =>
        match parseOps? after with
        | none => s!"bad-after agree=0 prop=1 {info}"
        | some Q0 =>
          let Q := Q0.map core
          let agree := match m with
            | some R => (match withSucc R with
              | some R' => sameListSucc R' Q0
              | none => false)
            | none => false
          let mk := match m, modelMask name P with
            | some R, some ks => if sameList R Q then some ks else none
            | _, _ => none
          let valid := validPass name P Q mk
          let pre := flagsLocal P && labelsUnique P
          let prop := valid || (src != "harvest" && !pre)
          let changed := !(sameList P Q)
          s!"ok agree={b01 agree} prop={b01 prop} valid={b01 valid} pre={b01 pre} changed={b01 changed} removed={sizeClass (P.length - Q.length)} {info}"
      | "panic" :: _ => s!"panic agree={b01 m.isNone} prop=1 res=panic {info}"
      | _ => s!"bad-impl agree=0 prop=1 {info}"
  | _ => "bad-case agree=0 prop=1"

def answerRound (c : List String) (i : List String) : String :=
  match c, i with
  | [lvl, before], "ok" :: after :: _ =>
    match parseOps? before, parseOps? after with
    | some P, some Q =>
      let ok := lvl != "1" || decide (Q.length ≤ P.length)
      s!"round agree=1 prop={b01 ok} lvl={lvl} shrunk={b01 (decide (Q.length < P.length))} size={sizeClass P.length}"
    | _, _ => "bad-ops agree=0 prop=1"
  | _, _ => "bad-case agree=0 prop=1"

def answerProg (c : List String) (i : List String) : String :=
  let kv := kvOf i
  match c, get kv "opt", get kv "noopt" with
  | [_pkg, test, profile], some a, some b =>
    let st := (get kv "state").getD "?"
    let stc := if st.startsWith "revert" then "revert" else st
    s!"prog agree=1 prop={b01 (a == b)} profile={profile} state={stc} panic={b01 ((get kv "panic").getD "-" != "-")} logs={b01 ((get kv "nlogs").getD "0" != "0")} build={b01 (test != "@build")}"
  | _, _, _ => "bad-case agree=0 prop=1"


/-! ### executing address-arithmetic op lists (the `addr` lines)

A tiny interpreter for exactly the op subset of these lists, read from the ops' `Display` text
(7th field): 64-bit registers, a byte-addressed memory (unwritten bytes have an address-dependent
value, so a wrong address is seen), arithmetic overflow traps, `log`/`ret` are the observations. -/

structure IState where
  regs : List (String × Nat) := []
  mem : List (Nat × Nat) := []
  out : List Nat := []
  trap : Option String := none
  done : Bool := false
  unsupported : Bool := false

def w64 : Nat := 18446744073709551616

def initReg (name : String) : Nat :=
  match name with
  | "$zero" => 0
  | "$one" => 1
  | "$sp" => 65536
  | "$$locbase" => 65536
  | "$hp" => 50331648
  | "$$retv" => 4242
  | _ => match name.toList with
    | '$' :: 'r' :: ds => 1048576 + 65536 * ((String.ofList ds).toNat?.getD 77)
    | _ => 12345

def IState.get (st : IState) (r : String) : Nat := (st.regs.lookup r).getD (initReg r)

def IState.set (st : IState) (r : String) (v : Nat) : IState :=
  if r == "$zero" || r == "$one" then st
  else { st with regs := (r, v) :: st.regs.filter fun e => e.1 != r }

/-- unwritten memory: words below 2^24 (so that index arithmetic on loaded values does not overflow) -/
def memByte (st : IState) (a : Nat) : Nat :=
  (st.mem.lookup a).getD (if a % 8 < 5 then 0 else (a * 31 + 7) % 251)

def setByte (st : IState) (a v : Nat) : IState :=
  { st with mem := (a, v % 256) :: st.mem.filter fun e => e.1 != a }

def loadWord (st : IState) (a : Nat) : Nat :=
  (List.range 8).foldl (fun acc i => acc * 256 + memByte st (a + i)) 0

def storeWord (st : IState) (a v : Nat) : IState :=
  (List.range 8).foldl (fun s i => setByte s (a + i) (v / 256 ^ (7 - i))) st

def immOf (t : String) : Option Nat :=
  match t.toList with
  | 'i' :: ds => (String.ofList ds).toNat?
  | _ => none

def arith (st : IState) (d : String) (v : Int) : IState :=
  if v < 0 || v ≥ (w64 : Int) then { st with trap := some "overflow", done := true } else st.set d v.toNat

def execAsm (st : IState) (asm : String) : IState :=
  if st.done || st.unsupported then st else
  let ts := asm.splitOn "_"
  match ts with
  | [l] => if l.startsWith "." || l == "noop" then st else { st with unsupported := true }
  | "noop" :: _ => st
  | ["movi", d, i] => match immOf i with
    | some k => st.set d k
    | none => { st with unsupported := true }
  | ["move", d, a] => st.set d (st.get a)
  | ["add", d, a, b] => arith st d ((st.get a : Int) + st.get b)
  | ["sub", d, a, b] => arith st d ((st.get a : Int) - st.get b)
  | ["mul", d, a, b] => arith st d ((st.get a : Int) * st.get b)
  | ["addi", d, a, i] => match immOf i with
    | some k => arith st d ((st.get a : Int) + k)
    | none => { st with unsupported := true }
  | ["subi", d, a, i] => match immOf i with
    | some k => arith st d ((st.get a : Int) - k)
    | none => { st with unsupported := true }
  | ["muli", d, a, i] => match immOf i with
    | some k => arith st d ((st.get a : Int) * k)
    | none => { st with unsupported := true }
  | ["lw", d, b, i] => match immOf i with
    | some k => st.set d (loadWord st (st.get b + 8 * k))
    | none => { st with unsupported := true }
  | ["lb", d, b, i] => match immOf i with
    | some k => st.set d (memByte st (st.get b + k))
    | none => { st with unsupported := true }
  | ["sw", b, v, i] => match immOf i with
    | some k => storeWord st (st.get b + 8 * k) (st.get v)
    | none => { st with unsupported := true }
  | ["sb", b, v, i] => match immOf i with
    | some k => setByte st (st.get b + k) (st.get v)
    | none => { st with unsupported := true }
  | "log" :: rs => { st with out := st.out ++ rs.map st.get }
  | ["ret", a] => { st with out := st.out ++ [st.get a], done := true }
  | "fncall" :: _ => st.set "$$retv" 777
  | _ => { st with unsupported := true }

def asmOf (opText : String) : String := ((opText.splitOn ":")[6]?).getD "?"

def runAsm (ops : String) : IState :=
  if ops == "-" then {} else (ops.splitOn "|").foldl (fun st t => execAsm st (asmOf t)) {}

def observe (st : IState) : List Nat × Option String × List Nat :=
  (st.out, st.trap, sortNats (st.mem.map fun e => e.1 * 256 + e.2))

def answerAddr (c : List String) (i : List String) : String :=
  match c, i with
  | [pass, before], "ok" :: after :: _ =>
    let a := runAsm before
    let b := runAsm after
    let n := (before.splitOn "|").length
    let changed := before != after
    if a.unsupported || b.unsupported then
      s!"addr agree=1 prop=1 pass={pass} exec=unsupported changed={b01 changed} size={sizeClass n}"
    else
      let same := observe a == observe b
      s!"addr agree=1 prop={b01 same} pass={pass} exec={if a.trap.isSome then "trap" else "ok"} changed={b01 changed} stores={b01 (!a.mem.isEmpty)} size={sizeClass n}"
  | [pass, _], "panic" :: _ => s!"addr agree=1 prop=1 pass={pass} exec=panic"
  | _, _ => "bad-case agree=0 prop=1"

def answer (line : String) : String :=
  let (c, i) := splitCase line
  match c with
  | "pass" :: rest => answerPass rest i
  | "round" :: rest => answerRound rest i
  | "addr" :: rest => answerAddr rest i
  | "prog" :: rest => answerProg rest i
  | _ => "bad-op agree=0 prop=0"

def run : IO Unit := do
  lineLoop (← IO.getStdin) (← IO.getStdout) answer

end SwayVerif.Driver.C07

def main : IO Unit := SwayVerif.Driver.C07.run
