import SwayVerif.Model.Ty
import SwayVerif.Driver.Util
/-!
S-expression syntax of ABI types and values shared by the C09/C10 (C11/C12/C13) drivers and `harness/src/tygen.rs`.

types:  `u8 u16 u32 u64 u256 b256 bool unit bytes string str rawslice tbool`
        `(sa N)` str[N] · `(arr T N)` · `(tup T…)` · `(st T…)` struct fields · `(en T…)` enum variants
        (`Option<T>` = `(en unit T)`, `Result<T,E>` = `(en T E)`) · `(vec T)` · `(tenum T)` TrivialEnum<T>
values: `#<hex>` number (big-endian hex digits) · `true`/`false` · `unit` · `x<hex>` / `x-` bytes
        `(seq v…)` array/tuple/struct/Vec/wrapper-struct · `(var <tag> v)` enum variant
-/
namespace SwayVerif.Driver.AbiSexp
open SwayVerif.Abi SwayVerif.Driver

/-- whitespace-separated tokens with `(` and `)` as tokens of their own -/
def lex (s : String) : List String :=
  let padded := s.toList.foldr (fun c acc => if c = '(' ∨ c = ')' then ' ' :: c :: ' ' :: acc else c :: acc) []
  tokens (String.ofList padded)

partial def parseTy : List String → Option (Ty × List String)
  | [] => none
  | "(" :: head :: rest =>
    let rec items (ts : List String) (acc : List Ty) : Option (List Ty × List String) :=
      match ts with
      | ")" :: r => some (acc.reverse, r)
      | _ => match parseTy ts with
        | some (t, r) => items r (t :: acc)
        | none => none
    match head with
    | "sa" => match rest with
      | n :: ")" :: r => n.toNat?.map fun n => (.strArray n, r)
      | _ => none
    | "arr" => match parseTy rest with
      | some (t, n :: ")" :: r) => n.toNat?.map fun n => (.array t n, r)
      | _ => none
    | "tup" => (items rest []).map fun (ts, r) => (.tuple ts, r)
    | "st" => (items rest []).map fun (ts, r) => (.struct ts, r)
    | "en" => (items rest []).map fun (ts, r) => (.enum ts, r)
    | "vec" => match parseTy rest with
      | some (t, ")" :: r) => some (.vec t, r)
      | _ => none
    | "tenum" => match parseTy rest with
      | some (t, ")" :: r) => some (.trivialEnum t, r)
      | _ => none
    | _ => none
  | t :: rest =>
    let leaf : Option Ty := match t with
      | "u8" => some .u8 | "u16" => some .u16 | "u32" => some .u32 | "u64" => some .u64 | "u256" => some .u256
      | "b256" => some .b256 | "bool" => some .bool | "unit" => some .unit | "bytes" => some .bytes
      | "string" => some .string | "str" => some .strSlice | "rawslice" => some .rawSlice | "tbool" => some .trivialBool
      | _ => none
    leaf.map fun l => (l, rest)

partial def parseVal : List String → Option (Val × List String)
  | [] => none
  | "(" :: "seq" :: rest =>
    let rec items (ts : List String) (acc : List Val) : Option (List Val × List String) :=
      match ts with
      | ")" :: r => some (acc.reverse, r)
      | _ => match parseVal ts with
        | some (v, r) => items r (v :: acc)
        | none => none
    (items rest []).map fun (vs, r) => (.seq vs, r)
  | "(" :: "var" :: k :: rest => match k.toNat?, parseVal rest with
    | some k, some (v, ")" :: r) => some (.variant k v, r)
    | _, _ => none
  | "true" :: r => some (.bool true, r)
  | "false" :: r => some (.bool false, r)
  | "unit" :: r => some (.unit, r)
  | t :: r =>
    if t.startsWith "#" then (parseHex? (t.drop 1).toString).map fun n => (.num n, r)
    else if t.startsWith "x" then (hexBytes? (t.drop 1).toString).map fun b => (.bytes b, r)
    else none

/-- tokens up to (not including) the first token for which `p` holds -/
def kvOf (ts : List String) (k : String) : Option String :=
  ts.findSome? fun t => if t.startsWith (k ++ "=") then some (t.drop (k.length + 1)).toString else none

def flag? (ts : List String) (k : String) : Option Bool :=
  match kvOf ts k with
  | some "1" => some true
  | some "0" => some false
  | _ => none

partial def depth : Ty → Nat
  | .array t _ => depth t + 1
  | .tuple ts => (ts.map depth).foldl max 0 + 1
  | .struct ts => (ts.map depth).foldl max 0 + 1
  | .enum ts => (ts.map depth).foldl max 0 + 1
  | .vec t => depth t + 1
  | .trivialEnum t => depth t + 1
  | _ => 0

def className : Ty → String
  | .array .. => "array" | .tuple .. => "tuple" | .struct .. => "struct" | .enum .. => "enum" | .vec .. => "vec"
  | .bytes | .string | .strSlice | .rawSlice => "heap" | .strArray .. => "strarray"
  | .trivialBool | .trivialEnum .. => "wrapper" | .unit => "unit" | .bool => "bool" | _ => "int"

def lenClass (n : Nat) : String :=
  if n = 0 then "0" else if n ≤ 8 then "1-8" else if n ≤ 64 then "9-64" else if n ≤ 256 then "65-256" else "257+"

/-- exactly the shape of the known finding: `TrivialEnum<E>`, `E` an enum, and the value's variant has a canonical
encoding shorter than the union it sits in (left padding in memory / a u16,u32 held in a word) -/
def trivialEnumPaddedVariant (t : Ty) (v : Val) : Bool :=
  match t with
  | .trivialEnum (.enum vs) =>
    let tag := v.single.tagD
    match vs[tag]? with
    | some vt => !allZero (sizesRT vs) &&
        decide ((encode vt v.single.payloadD).length < align8 (maxList (sizesRT vs)))
    | none => false
  | _ => false

/-- the observation of an in-VM decode -/
def parseObs : List String → Option DecObs
  | ["ok", h] => (hexBytes? h).map .ok
  | ["revert"] => some .revert
  | _ => none

/-- what the implementation model predicts an in-VM `abi_decode::<T>(bs)` followed by `log` shows:
`none` = revert, otherwise the memory image / slow encoding of the decoded value -/
def predictDecode (t : Ty) (bs : List UInt8) : Option (Val) := implDecode t bs

end SwayVerif.Driver.AbiSexp
