import SwayVerif.Model.MiniIR
import SwayVerif.Model.DedupFields
import SwayVerif.Driver.Util
/-!
Driver for C03. Three kinds of lines (harness `sv_c03`):

* `passes <pkg> <test> <with>@<base> ;; base=<digest> with=<digest> bs=<state> ws=<state>`
  `passes <pkg> * <with>@<base> ;; base=ok with=- build=err:<class>` /
  `… ;; base=- with=- build=baseerr:<class>` —
  the real compiler + VM on a Sway package under two `SWAY_VERIF_IR_PASSES` settings. No model:
  `prop` = equal observable outcome ∧ the variant still builds whenever the baseline builds.
* `dedup <Arm> <field> ;; merged=<0|1>` — real `fn-dedup-release` on two functions that differ only in
  that field. Model: merged ⇔ the field is not in the generated `hashed` table.
  `prop` = a declared, not reviewed-as-derived field is never merged.
* `miniir <passes> A <k> <a b>… <before> ;; <after>` — real passes on a function inside the MiniIR
  subset; `prop` = `MiniIR.run before = MiniIR.run after` on every argument vector (fuel 48);
  `agree` = structural tie to the modelled passes (unreachable blocks are gone after `simplify-cfg`,
  real `dce` removes at least what the model's `dce` removes).
-/
namespace SwayVerif.Driver.C03
open SwayVerif.Driver SwayVerif.MiniIR SwayVerif.DedupFields SwayVerif.Generated.DedupHashTable

def kvOf (ts : List String) (k : String) : Option String :=
  ts.findSome? fun t => match t.splitOn "=" with
    | k' :: rest => if k' = k ∧ rest ≠ [] then some ("=".intercalate rest) else none
    | _ => none

def stateClass (s : String) : String :=
  if s.startsWith "revert:0:" then "revert0-or-vmpanic"
  else if s.startsWith "revert:" then "revert"
  else if s.startsWith "return" then "return"
  else if s.startsWith "panic" then "panic"
  else "other"

def pkgClass (p : String) : String :=
  if p.startsWith "s:" then "nostd-scalar" else if p.startsWith "m:" then "nostd-aggr"
  else if p.startsWith "gen:" then "std-gen" else if p.startsWith "trap:" then "trap-replay" else if p.startsWith "sw:" then "saved-source" else "std-inlang"

def answerPasses (c i : List String) : String :=
  match c with
  | ["passes", pkg, test, lists] =>
    let withL := (lists.splitOn "@").headD ""
    let np := ((withL.replace "/" ",").splitOn ",").filter (fun x => x ≠ "" ∧ x ≠ "-") |>.length
    let shape := if np ≤ 2 then "single" else if np ≥ 15 then "pipeline" else "multi"
    match kvOf i "build" with
    | some b =>
      if b.startsWith "baseerr" then s!"skip agree=1 prop=1 class={pkgClass pkg} shape={shape} built=baseerr"
      else s!"build-rejected agree=1 prop=0 class={pkgClass pkg} shape={shape} built=err"
    | none =>
      match kvOf i "base", kvOf i "with" with
      | some b, some w =>
        let eq := b == w && test ≠ "*"
        let rr := match kvOf i "rerun" with | some _ => " rerun=1" | none => ""
        s!"cmp agree=1 prop={b01 eq} class={pkgClass pkg} shape={shape} built=ok st={stateClass ((kvOf i "bs").getD "")}{rr}"
      | _, _ => "bad-line agree=0 prop=0"
  | _ => "bad-line agree=0 prop=0"

def answerDedup (c i : List String) : String :=
  match c with
  | ["dedup", arm, fld] =>
    let merged? : Option Bool := match i with
      | ["merged=1"] => some true
      | ["merged=0"] => some false
      | _ => none
    if arm = "Control" then
      match merged? with
      | some m => s!"expect-merged=1 agree={b01 m} prop=1 kind=control merged={b01 m}"
      | none => "bad-probe agree=0 prop=1 kind=control"
    else if arm = "Fact" then
      match factNames.lookup fld, merged? with
      | some f, some m =>
        let expect := !facts.contains f
        s!"expect-merged={b01 expect} agree={b01 (m == expect)} prop={b01 (!m)} kind=fact"
      | _, _ => "bad-probe agree=0 prop=1 kind=fact"
    else
      match armNames.lookup arm, fldNames.lookup fld, merged? with
      | some a, some f, some m =>
        let expect := !(hashedOf a).contains f
        let reviewed := reviewedUnhashed.contains (a, f)
        let relevant := (declaredOf a).contains f
        let prop := !m || reviewed || !relevant
        s!"expect-merged={b01 expect} agree={b01 (m == expect)} prop={b01 prop} kind=field reviewed={b01 reviewed} merged={b01 m}"
      | _, _, _ => "bad-probe agree=0 prop=1 kind=field"
  | _ => "bad-line agree=0 prop=0"

/-! ### MiniIR token parser -/

def parseOpd (s : String) : Option Operand :=
  if s.startsWith "v" then (s.drop 1).toNat?.map Operand.var
  else if s.startsWith "cu" then (s.drop 2).toNat?.map fun n => Operand.const (.u n)
  else if s = "cb0" then some (.const (.b false))
  else if s = "cb1" then some (.const (.b true))
  else none

def binOfString : String → Option BinOp
  | "add" => some .add | "sub" => some .sub | "mul" => some .mul | "div" => some .div | "mod" => some .mod
  | "and" => some .and | "or" => some .or | "xor" => some .xor | "lsh" => some .lsh | "rsh" => some .rsh
  | _ => none

def predOfString : String → Option Pred
  | "eq" => some .eq | "lt" => some .lt | "gt" => some .gt | _ => none

def takeN {α : Type} (f : String → Option α) : Nat → List String → Option (List α × List String)
  | 0, ts => some ([], ts)
  | n + 1, t :: ts => do
    let x ← f t
    let (xs, rest) ← takeN f n ts
    pure (x :: xs, rest)
  | _, _ => none

def parseTarget (ts : List String) : Option ((Label × List Operand) × List String) :=
  match ts with
  | l :: k :: rest => do
    let l ← l.toNat?
    let k ← k.toNat?
    let (args, rest) ← takeN parseOpd k rest
    pure ((l, args), rest)
  | _ => none

def parseInsts : Nat → List String → Option (List Inst × List String)
  | 0, ts => some ([], ts)
  | n + 1, "I" :: d :: "bin" :: op :: a :: b :: rest => do
    let i := Inst.binop (← d.toNat?) (← binOfString op) (← parseOpd a) (← parseOpd b)
    let (is, rest) ← parseInsts n rest
    pure (i :: is, rest)
  | n + 1, "I" :: d :: "cmp" :: p :: a :: b :: rest => do
    let i := Inst.cmp (← d.toNat?) (← predOfString p) (← parseOpd a) (← parseOpd b)
    let (is, rest) ← parseInsts n rest
    pure (i :: is, rest)
  | _, _ => none

def parseTerm (ts : List String) : Option (Term × List String) :=
  match ts with
  | "T" :: "br" :: rest => do
    let ((l, args), rest) ← parseTarget rest
    pure (.br l args, rest)
  | "T" :: "cbr" :: c :: rest => do
    let c ← parseOpd c
    let ((lt, ta), rest) ← parseTarget rest
    let ((lf, fa), rest) ← parseTarget rest
    pure (.cbr c lt ta lf fa, rest)
  | "T" :: "ret" :: v :: rest => do pure (.ret (← parseOpd v), rest)
  | _ => none

def parseBlocks : Nat → List String → Option (List Block × List String)
  | 0, ts => some ([], ts)
  | n + 1, "B" :: l :: np :: rest => do
    let l ← l.toNat?
    let np ← np.toNat?
    let (ps, rest) ← takeN String.toNat? np rest
    match rest with
    | ni :: rest =>
      let ni ← ni.toNat?
      let (is, rest) ← parseInsts ni rest
      let (t, rest) ← parseTerm rest
      let (bs, rest) ← parseBlocks n rest
      pure (⟨l, ps, is, t⟩ :: bs, rest)
    | [] => none
  | _, _ => none

def parseFunc (ts : List String) : Option (Func × List String) :=
  match ts with
  | "F" :: n :: rest => do
    let n ← n.toNat?
    let (bs, rest) ← parseBlocks n rest
    let entry := match bs with | b :: _ => b.label | [] => 0
    pure (⟨entry, bs⟩, rest)
  | _ => none

def parseArgs (ts : List String) : Option (List (List Val) × List String) :=
  match ts with
  | "A" :: k :: rest => do
    let k ← k.toNat?
    let (ns, rest) ← takeN String.toNat? (2 * k) rest
    let rec pairs : List Nat → List (List Val)
      | a :: b :: r => [Val.u a, Val.u b] :: pairs r
      | _ => []
    pure (pairs ns, rest)
  | _ => none

def showOutcome : Outcome → String
  | .ret (.u n) => s!"ret:{n}"
  | .ret (.b b) => s!"retb:{b01 b}"
  | .trap => "trap"
  | .stuck => "stuck"
  | .timeout => "timeout"

def countInsts (f : Func) : Nat := (f.blocks.map fun b => b.insts.length).sum

def answerMini (c i : List String) : String :=
  match c with
  | "miniir" :: passes :: rest =>
    match parseArgs rest with
    | none => "bad-args agree=0 prop=1"
    | some (vecs, rest) =>
      match parseFunc rest with
      | none => "bad-before agree=0 prop=1"
      | some (before, _) =>
        let first := (passes.splitOn ",").headD ""
        let single := (passes.splitOn ",").length = 1
        match i with
        | [w] =>
          if w.startsWith "unsupported" then s!"unsupported agree=1 prop=1 pass={first} out=unsupported"
          else s!"impl-error agree=0 prop=1 pass={first} out={w}"
        | _ =>
          match parseFunc i with
          | none => "bad-after agree=0 prop=1"
          | some (after, _) =>
            let fuel := 48
            let ob := vecs.map fun v => run before v fuel
            let oa := vecs.map fun v => run after v fuel
            let stuck := ob.any fun o => o == .stuck
            let prop := stuck || ob == oa
            let agree :=
              if single && first = "simplify-cfg" then
                let s := reachSet before
                after.blocks.all fun b => s.contains b.label
              else if single && first = "dce" then
                decide (countInsts after ≤ countInsts (dce (countInsts before) before))
              else true
            let o0 := match ob with | o :: _ => (showOutcome o).takeWhile (· ≠ ':') | [] => "none"
            let chg := decide (countInsts after ≠ countInsts before) || decide (after.blocks.length ≠ before.blocks.length)
            s!"{" ".intercalate (ob.map showOutcome)} agree={b01 (agree && !stuck)} prop={b01 prop} pass={first} npass={(passes.splitOn ",").length} out={o0} changed={b01 chg} nblocks={before.blocks.length}"
  | _ => "bad-line agree=0 prop=0"

def answer (line : String) : String :=
  let (c, i) := splitCase line
  match c with
  | "passes" :: _ => answerPasses c i
  | "dedup" :: _ => answerDedup c i
  | "miniir" :: _ => answerMini c i
  | _ => "bad-op agree=0 prop=0"

def run : IO Unit := do
  lineLoop (← IO.getStdin) (← IO.getStdout) answer

end SwayVerif.Driver.C03

def main : IO Unit := SwayVerif.Driver.C03.run
