import SwayVerif.Model.Lock
import SwayVerif.Driver.Util
/-!
Token-stream (de)serialisation shared by the C20 and C21 drivers (import-free).
Formats are those of `harness/src/lock_common.rs`:
* `X <n> {<u|c|v> <query> <answer|!>}`                       external-parser table
* `<pinned>` = `member` | `git <url> <branch|tag|rev|default> <ref> <commit>` | `path <HEX16>` |
               `ipfs <cid>` | `reg <name> <ver> <cid> <ns|!>`
* `G <n> {<name> <pinned>} <m> {<src> <dst> <name> <lib|con:SALT>}`
* `L <n> {<name> <version|!> <source> <nd> {<dep>} <nc> {<cdep>}}`
-/
namespace SwayVerif.Driver.LockCommon
open SwayVerif.Lock SwayVerif.Driver

abbrev P := StateT (List String) Option

def tok : P String := fun ts => match ts with
  | t :: r => some (t, r)
  | [] => none

def expect (s : String) : P Unit := do
  let t ← tok
  if t = s then pure () else failure

def nat : P Nat := do
  let t ← tok
  match t.toNat? with
  | some n => pure n
  | none => failure

def str : P Str := do
  let t ← tok
  match parseCps? t with
  | some s => pure s
  | none => failure

def ostr : P (Option Str) := do
  let t ← tok
  if t = "!" then pure none else
  match parseCps? t with
  | some s => pure (some s)
  | none => failure

def many {α : Type} (p : P α) : Nat → P (List α)
  | 0 => pure []
  | n + 1 => do
    let a ← p
    let r ← many p n
    pure (a :: r)

/-- `X ..` -/
def extTable : P (List (String × Str × Option Str)) := do
  expect "X"
  let n ← nat
  many (do let k ← tok; let q ← str; let a ← ostr; pure (k, q, a)) n

def extOf (tbl : List (String × Str × Option Str)) : Ext :=
  let look (k : String) (q : Str) : Option Str :=
    match tbl.find? (fun e => e.1 == k && e.2.1 == q) with
    | some e => e.2.2
    | none => none
  ⟨look "u", look "c", look "v"⟩

def pinned : P Pinned := do
  let k ← tok
  match k with
  | "member" => pure .member
  | "git" => do
    let url ← str
    let kind ← tok
    let r ← str
    let commit ← str
    let rf ← match kind with
      | "branch" => pure (Reference.branch r)
      | "tag" => pure (Reference.tag r)
      | "rev" => pure (Reference.rev r)
      | "default" => pure Reference.default
      | _ => failure
    pure (.git url rf commit)
  | "path" => do
    let h ← tok
    match parseHex? h with
    | some n => pure (.path n)
    | none => failure
  | "ipfs" => do pure (.ipfs (← str))
  | "reg" => do
    let name ← str
    let ver ← str
    let cid ← str
    let ns ← ostr
    pure (.registry name ver cid ns)
  | _ => failure

def depKind : P DepKind := do
  let t ← tok
  if t = "lib" then pure .library
  else if t.startsWith "con:" then pure (.contract (t.drop 4).toString.toList)
  else failure

def graph : P Graph := do
  expect "G"
  let n ← nat
  let nodes ← many (do let name ← str; let src ← pinned; pure (Pkg.mk name src)) n
  let m ← nat
  let edges ← many (do let s ← nat; let d ← nat; let name ← str; let k ← depKind; pure (Edge.mk s d name k)) m
  pure ⟨nodes, edges⟩

def records : P (List PkgLock) := do
  expect "L"
  let n ← nat
  many (do
    let name ← str
    let ver ← ostr
    let src ← str
    let nd ← nat
    let deps ← many str nd
    let nc ← nat
    let cdeps ← many str nc
    pure (PkgLock.mk name ver src deps cdeps)) n

def oShow : Option Str → String
  | none => "!"
  | some s => showCps s

def showPinned : Pinned → List String
  | .member => ["member"]
  | .git url r commit =>
    let (k, s) := match r with
      | .branch s => ("branch", showCps s)
      | .tag s => ("tag", showCps s)
      | .rev s => ("rev", showCps s)
      | .default => ("default", "-")
    ["git", showCps url, k, s, showCps commit]
  | .path root => ["path", String.ofList (showId root)]
  | .ipfs cid => ["ipfs", showCps cid]
  | .registry name ver cid ns => ["reg", showCps name, showCps ver, showCps cid, oShow ns]

def showKind : DepKind → String
  | .library => "lib"
  | .contract s => "con:" ++ String.ofList s

def showGraph (g : Graph) : List String :=
  ["G", toString g.nodes.length] ++ g.nodes.flatMap (fun p => showCps p.name :: showPinned p.source) ++
  [toString g.edges.length] ++ g.edges.flatMap (fun e => [toString e.src, toString e.dst, showCps e.name, showKind e.kind])

def join (ts : List String) : String := " ".intercalate ts

def showCls : Outcome → String
  | .ok => "ok"
  | .err => "err"
  | .panic => "panic"

/-- Outcome class of an implementation result token (`tomlerr` is an error of the TOML layer). -/
def clsOfToken (t : String) : Option Outcome :=
  match t with
  | "ok" => some .ok
  | "err" => some .err
  | "tomlerr" => some .err
  | "sererr" => some .err
  | "deerr" => some .err
  | "panic" => some .panic
  | _ => none

def sizeClass (n : Nat) : String := if n = 0 then "0" else if n = 1 then "1" else if n ≤ 3 then "2-3" else "4+"

end SwayVerif.Driver.LockCommon
