import SwayVerif.Model.DataSection
import SwayVerif.Driver.Util
/-!
Driver for C13. Cases (see `harness/src/bin/sv_c13.rs`):

* `layout <dop>… ;; ids=… n=… bytes=<hex> ents=<off:hex,…>` | `;; panic`
* `code <dop>… | <cop>… ;; ok len=… n=… eoffs=… emits=… named=… data=<hex>` | `;; panic`
* `base seed=… t=… d=<hex,…> offs=<o,…> len=<n> ;; at=<hex,…> observed=<hex,…>`
* `patch seed=… t=… d=<hex,…> j=<j> new=<hex> ;; observed=<hex,…>`
* `build seed=… t=… d=… ;; panic|error` (prop=0: the compiler produced no program) / `built … ;; ok`

`dop` = `I/<name|->/<pad>/<datum>` | `P/<hex>`; `pad` = `-`|`L<n>`|`R<n>`;
`datum` = `b/<hex>` | `w/<hex>` | `a/<hex|->` | `s/<hex|->` | `c/<k>(/<pad>/<datum>){k}`;
`cop` = `N` | `B<n>` | `L<c|n><idx>` | `A<c|n><idx>`.
-/
namespace SwayVerif.Driver.C13
open SwayVerif.DataSection SwayVerif.Driver

def parsePad (s : String) : Option (Option Pad) :=
  if s = "-" then some none else
  match s.toList with
  | 'L' :: r => (String.ofList r).toNat?.map (fun n => some (.left n))
  | 'R' :: r => (String.ofList r).toNat?.map (fun n => some (.right n))
  | _ => none

mutual
partial def parseDatum (f : Array String) (i : Nat) : Option (Datum × Nat) := do
  let k ← f[i]?
  let v ← f[i+1]?
  match k with
  | "b" => let n ← parseHex? v; pure (.byte (UInt8.ofNat n), i + 2)
  | "w" => let n ← parseHex? v; pure (.word n, i + 2)
  | "a" => let bs ← hexBytes? v; pure (.byteArray bs, i + 2)
  | "s" => let bs ← hexBytes? v; pure (.slice bs, i + 2)
  | "c" => let n ← v.toNat?; let (is, j) ← parseItems f (i + 2) n; pure (.coll is, j)
  | _ => none
partial def parseItems (f : Array String) (i : Nat) : Nat → Option (Items × Nat)
  | 0 => some (.nil, i)
  | n + 1 => do
    let p ← (f[i]?).bind parsePad
    let (d, j) ← parseDatum f (i + 1)
    let (rest, k) ← parseItems f j n
    pure (.cons d (p.getD (defaultPad d)) rest, k)
end

def parseDop (t : String) : Option DOp := do
  let f := (t.splitOn "/").toArray
  match f[0]? with
  | some "P" => let v ← (f[1]?).bind parseHex?; pure (.pointer v)
  | some "I" =>
    let nm ← f[1]?
    let p ← (f[2]?).bind parsePad
    let (d, _) ← parseDatum f 3
    pure (.insert (Entry.new d (if nm = "-" then none else some nm.toList) p))
  | _ => none

def parseId (cs : List Char) : Option DataId :=
  match cs with
  | 'c' :: r => (String.ofList r).toNat?.map (⟨true, ·⟩)
  | 'n' :: r => (String.ofList r).toNat?.map (⟨false, ·⟩)
  | _ => none

def parseCop (t : String) : Option COp :=
  match t.toList with
  | ['N'] => some (.fixed 4)
  | 'B' :: r => (String.ofList r).toNat?.map (fun n => .fixed (4 * n))
  | 'L' :: r => (parseId r).map .load
  | 'A' :: r => (parseId r).map .addr
  | _ => none

def mapM? {α β} (f : α → Option β) : List α → Option (List β)
  | [] => some []
  | a :: as => do let b ← f a; let bs ← mapM? f as; pure (b :: bs)

def showId (id : DataId) : String := (if id.conf then "c" else "n") ++ toString id.idx

def commaList (xs : List String) : String := if xs.isEmpty then "-" else ",".intercalate xs

def kvOf (ts : List String) (k : String) : Option String :=
  (ts.find? (fun t => t.startsWith (k ++ "="))).map (fun t => (t.drop (k.length + 1)).toString)

def splitComma (s : String) : List String := if s = "-" then [] else s.splitOn ","

/-- `e` = empty byte string inside a comma list -/
def hexItem? (s : String) : Option (List Byte) := if s = "e" then some [] else hexBytes? s
def showHexItem (b : List Byte) : String := if b.isEmpty then "e" else showHexBytes b
def hexList? (s : String) : Option (List (List Byte)) := mapM? hexItem? (splitComma s)

def showEmit : Emit → String
  | .fixed n => s!"f{n}"
  | .addi i => s!"i{i}"
  | .movi i => s!"m{i}"
  | .lb i => s!"b{i}"
  | .lw i => s!"w{i}"
  | .ptrLoad s p => s!"p{s}:{p}"

def parseEmit (t : String) : Option Emit :=
  match t.toList with
  | 'f' :: r => (String.ofList r).toNat?.map .fixed
  | 'i' :: r => (String.ofList r).toNat?.map .addi
  | 'm' :: r => (String.ofList r).toNat?.map .movi
  | 'b' :: r => (String.ofList r).toNat?.map .lb
  | 'w' :: r => (String.ofList r).toNat?.map .lw
  | 'p' :: r => match (String.ofList r).splitOn ":" with
    | [a, b] => do let a ← a.toNat?; let b ← b.toNat?; pure (.ptrLoad a b)
    | _ => none
  | _ => none

def showPanic : Panic → String
  | .missingData => "missingData" | .arith => "arith" | .imm12 => "imm12" | .pointerMissing => "pointerMissing"
  | .sizeAssert => "sizeAssert" | .misaligned => "misaligned" | .u32 => "u32"

def insertSorted {α} (lt : α → α → Bool) (a : α) : List α → List α
  | [] => [a]
  | b :: bs => if lt a b then a :: b :: bs else b :: insertSorted lt a bs
def sortBy {α} (lt : α → α → Bool) (l : List α) : List α := l.foldr (insertSorted lt) []

/-- BTreeMap<String, u64>: later bindings override, iteration in key order -/
def btree (l : List (String × Nat)) : List (String × Nat) :=
  let dedup := l.foldl (fun acc p => (acc.filter (·.1 ≠ p.1)) ++ [p]) []
  sortBy (fun a b => a.1 < b.1) dedup

def sizeClass (n : Nat) : String :=
  if n = 0 then "0" else if n ≤ 8 then "le8" else if n ≤ 64 then "le64" else if n ≤ 4095 then "le4095" else "gt4095"

/-! ### layout lines -/

def answerLayout (c i : List String) : String :=
  match mapM? parseDop c with
  | none => "bad-op agree=0 prop=0"
  | some ops =>
    let (ds, ids) := ({} : DS).run ops
    let mIds := commaList (ids.map showId)
    let mBytes := ds.serialize
    let all := ds.all
    let mEnts := (List.range all.length).map fun k => (ds.offsetOfAbs k, (all[k]?.map Entry.toBytes).getD [])
    let mEntsS := commaList (mEnts.map fun (o, b) => s!"{o}:{showHexBytes b}")
    let names : List (Option Name) := ops.map fun
      | .insert e => e.name
      | .pointer _ => none
    match i with
    | ["panic"] => s!"ids={mIds} agree=0 prop=1 outcome=panic"
    | _ =>
      let parsed : Option (List DataId × Nat × List Byte × List (Nat × List Byte)) := do
        let idsS ← kvOf i "ids"
        let iIds ← mapM? (fun s => parseId s.toList) (splitComma idsS)
        let n ← (kvOf i "n").bind (·.toNat?)
        let bytes ← (kvOf i "bytes").bind hexBytes?
        let ents ← (kvOf i "ents").bind fun s => mapM? (fun t => match t.splitOn ":" with
          | [o, b] => do let o ← o.toNat?; let b ← hexBytes? b; pure (o, b)
          | _ => none) (splitComma s)
        pure (iIds, n, bytes, ents)
      match parsed with
      | none => "bad-impl agree=0 prop=0"
      | some (iIds, n, bytes, ents) =>
        let agree := iIds == ids && n == ds.nonConf.length && bytes == mBytes && ents == mEnts
        let prop := layoutOk bytes 0 ents && idsDistinct (names.zip iIds)
        let merged := decide (ents.length < ops.length)
        s!"ids={mIds} n={ds.nonConf.length} ents={mEntsS} agree={b01 agree} prop={b01 prop} merged={b01 merged} nconf={ds.conf.length} size={sizeClass bytes.length}"

/-! ### code lines -/

def resolvesImpl (len n : Nat) (eoffs : List Nat) (dataLen : Nat) (data : List Byte) (pos : Nat) (op : COp) (e : Emit) : Bool :=
  let off (id : DataId) : Nat := eoffs.getD (if id.conf then id.idx + n else id.idx) dataLen
  match op, e with
  | .fixed a, .fixed b => a == b
  | .addr id, .addi imm => imm == off id
  | .addr id, .movi imm => imm == off id
  | .load id, .lb imm => imm == off id
  | .load id, .lw imm => imm * 8 == off id
  | .load id, .ptrLoad slot ptr => slice data (slot * 8) 8 == be64 ptr && ptr + pos + 4 == len + off id
  | _, _ => false

def allResolveImpl (len n : Nat) (eoffs : List Nat) (dataLen : Nat) (data : List Byte) : Nat → List COp → List Emit → Bool
  | _, [], [] => true
  | pos, op :: ops, e :: es => resolvesImpl len n eoffs dataLen data pos op e && allResolveImpl len n eoffs dataLen data (pos + e.size) ops es
  | _, _, _ => false

def answerCode (c i : List String) : String :=
  let d := c.takeWhile (· ≠ "|")
  let k := (c.dropWhile (· ≠ "|")).drop 1
  match mapM? parseDop d, mapM? parseCop k with
  | some dops, some cops =>
    let ds0 := (({} : DS).run dops).1
    -- `to_bytecode_mut` starts from a data section whose `pointer_id` map is whatever the history left
    let m := toBytecode ds0 cops
    let nLoad := (cops.filter fun | .load _ => true | _ => false).length
    let nAddr := (cops.filter fun | .addr _ => true | _ => false).length
    match m, i with
    | .panic p, ["panic"] => s!"panic agree=1 prop=1 outcome=panic why={showPanic p} loads={nLoad} addrs={nAddr}"
    | .panic p, _ => s!"panic agree=0 prop=1 outcome=modelpanic why={showPanic p}"
    | .ok b, ["panic"] => s!"ok len={b.codeLen} agree=0 prop=1 outcome=implpanic"
    | .ok b, _ =>
      let parsed : Option (Nat × Nat × List Nat × List Emit × List (String × Nat) × List Byte) := do
        let len ← (kvOf i "len").bind (·.toNat?)
        let n ← (kvOf i "n").bind (·.toNat?)
        let eoffs ← (kvOf i "eoffs").bind fun s => mapM? (·.toNat?) (splitComma s)
        let emits ← (kvOf i "emits").bind fun s => mapM? parseEmit (splitComma s)
        let named ← (kvOf i "named").bind fun s => mapM? (fun t => match t.splitOn ":" with
          | [a, o] => o.toNat?.map (fun o => (a, o))
          | _ => none) (splitComma s)
        let data ← (kvOf i "data").bind hexBytes?
        pure (len, n, eoffs, emits, named, data)
      match parsed with
      | none => "bad-impl agree=0 prop=0"
      | some (len, n, eoffs, emits, named, data) =>
        let all := b.ds.all
        let mEoffs := (List.range all.length).map b.ds.offsetOfAbs
        let mNamed := btree ((namedOffsets b).filterMap fun (nm, o) => nm.map fun x => (String.ofList x, o))
        let cops' := if emits.length = cops.length + 1 then cops ++ [.fixed 4] else cops
        let agree := len == b.codeLen && n == b.ds.nonConf.length && eoffs == mEoffs && emits == b.emits
          && named == mNamed && data == b.ds.serialize
        let namedOk := named.all fun (_, o) => (eoffs.drop n).any fun eo => o == len + eo
        let prop := allResolveImpl len n eoffs data.length data 0 cops' emits && namedOk && emitsSize emits == len
        let long := b.emits.any fun | .movi _ => true | _ => false
        let ptrs := b.emits.any fun | .ptrLoad _ _ => true | _ => false
        s!"ok len={b.codeLen} emits={commaList (b.emits.map showEmit)} agree={b01 agree} prop={b01 prop} outcome=ok loads={nLoad} addrs={nAddr} long={b01 long} ptr={b01 ptrs} size={sizeClass data.length}"
  | _, _ => "bad-op agree=0 prop=0"

/-! ### end-to-end lines -/

def offsetsOk (len : Nat) : Nat → List (Nat × Nat) → Bool
  | lo, [] => lo ≤ len
  | lo, (o, l) :: r => lo ≤ o && o % 8 == 0 && o + l ≤ len && offsetsOk len (o + l) r

/-- model's prediction: each configurable starts at a word boundary at or after the end of the previous one
(not necessarily the NEXT boundary: the entry of an enum-typed configurable is sized for its largest variant,
so it can be longer than the encoding of the compiled-in default) -/
def consecutive : List (Nat × Nat) → Bool
  | (o, l) :: (o', l') :: r => o' ≥ roundUp8 (o + l) && o' % 8 == 0 && consecutive ((o', l') :: r)
  | _ => true

def answerBase (c i : List String) : String :=
  let parsed : Option (List (List Byte) × List Nat × Nat) := do
    let d ← (kvOf c "d").bind hexList?
    let offs ← (kvOf c "offs").bind fun s => mapM? (·.toNat?) (splitComma s)
    let len ← (kvOf c "len").bind (·.toNat?)
    pure (d, offs, len)
  match parsed with
  | none => "bad-case agree=0 prop=0"   -- includes a configurable missing from the ABI (`none` offset)
  | some (d, offs, len) =>
    let at? := (kvOf i "at").bind hexList?
    let obs? := (kvOf i "observed").bind hexList?
    let sorted := sortBy (fun a b => a.1 < b.1) (offs.zip (d.map List.length))
    let lay := offs.length == d.length && offsetsOk len 0 sorted
    let prop := lay && at? == some d && obs? == some d
    let agree := prop && consecutive sorted
    s!"observed={commaList (d.map showHexItem)} agree={b01 agree} prop={b01 prop} kind=base ncfg={d.length} ran={b01 obs?.isSome}"

def answerPatch (c i : List String) : String :=
  let parsed : Option (List (List Byte) × Nat × List Byte) := do
    let d ← (kvOf c "d").bind hexList?
    let j ← (kvOf c "j").bind (·.toNat?)
    let new ← (kvOf c "new").bind hexItem?
    pure (d, j, new)
  match parsed with
  | none => "bad-case agree=0 prop=0"
  | some (d, j, new) =>
    let expect := d.set j new
    let obs? := (kvOf i "observed").bind hexList?
    let prop := match obs? with
      | some obs => patchObserved d j new obs
      | none => false
    let nontriv := decide (d[j]? ≠ some new)
    let others := decide (d.length > 1)
    s!"observed={commaList (expect.map showHexItem)} agree={b01 prop} prop={b01 prop} kind=patch nontriv={b01 nontriv} others={b01 others} newlen={sizeClass new.length} ran={b01 obs?.isSome}"

def answer (line : String) : String :=
  let (c, i) := splitCase line
  match c with
  | "layout" :: ops => answerLayout ops i
  | "code" :: rest => answerCode rest i
  | "base" :: rest => answerBase rest i
  | "patch" :: rest => answerPatch rest i
  | "build" :: _ => s!"built agree=0 prop=0 kind=build outcome={(i.headD "?")}"
  | "built" :: _ => "built agree=1 prop=1 kind=build outcome=ok"
  | _ => "bad-op agree=0 prop=0"

def run : IO Unit := do
  lineLoop (← IO.getStdin) (← IO.getStdout) answer

end SwayVerif.Driver.C13

def main : IO Unit := SwayVerif.Driver.C13.run
