import SwayVerif.Model.Storage
import SwayVerif.Driver.Util
/-!
Driver for C28. Case (see harness/src/bin/sv_c28.rs):
`hist fields=<kind:fid,..> h=<pre:dig,..> ops=<op,..> ;; st=<state> obs=<tok,..>`.
agree = the slot machine (`runSlot`, SHA-256 supplied as the finite table `h`) predicts the
observations; prop = the mathematical models (`histProp`) do.
-/
namespace SwayVerif.Driver.C28
open SwayVerif.Driver SwayVerif.Storage

def kv (ts : List String) (k : String) : Option String :=
  ts.findSome? fun t => if t.startsWith (k ++ "=") then some (t.drop (k.length + 1)).toString else none

def bytesOf (s : String) : Option (List Nat) := (hexBytes? s).map (·.map UInt8.toNat)

def parseList {α} (sep : String) (f : String → Option α) (s : String) : Option (List α) :=
  if s = "-" || s = "" then some [] else
  (s.splitOn sep).foldr (fun t acc => match acc, f t with
    | some l, some x => some (x :: l)
    | _, _ => none) (some [])

def parseField (t : String) : Option FieldInfo :=
  match t.splitOn ":" with
  | [k, h] => do
    let fid ← parseHex? h
    let kind ← if k = "B" || k = "S" then some FKind.slice
      else if k.startsWith "V" then (k.drop 1).toString.toNat?.map FKind.vec
      else if k.startsWith "M" then (k.drop 1).toString.toNat?.map FKind.map
      else none
    pure ⟨kind, fid⟩
  | _ => none

/-- the contract's `mk_bytes(len, seed, printable)` -/
def mkBytes (len seed : Nat) (printable : Bool) : List Nat :=
  (List.range len).map fun i => if printable then 32 + (seed + i * 7) % 95 else (seed + i * 7) % 256

def parseOp (fs : List (String)) (t : String) : Option Op :=
  match t.splitOn "." with
  | ["vpush", f, h] => do pure (.vpush (← f.toNat?) (← bytesOf h))
  | ["vpop", f] => do pure (.vpop (← f.toNat?))
  | ["vget", f, i] => do pure (.vget (← f.toNat?) (← i.toNat?))
  | ["vset", f, i, h] => do pure (.vset (← f.toNat?) (← i.toNat?) (← bytesOf h))
  | ["vlen", f] => do pure (.vlen (← f.toNat?))
  | ["vremove", f, i] => do pure (.vremove (← f.toNat?) (← i.toNat?))
  | ["vinsert", f, i, h] => do pure (.vinsert (← f.toNat?) (← i.toNat?) (← bytesOf h))
  | ["vswap", f, i, j] => do pure (.vswap (← f.toNat?) (← i.toNat?) (← j.toNat?))
  | ["vswaprm", f, i] => do pure (.vswaprm (← f.toNat?) (← i.toNat?))
  | ["vclear", f] => do pure (.vclear (← f.toNat?))
  | ["minsert", f, k, h] => do pure (.minsert (← f.toNat?) (← k.toNat?) (← bytesOf h))
  | ["mget", f, k] => do pure (.mget (← f.toNat?) (← k.toNat?))
  | ["mremove", f, k] => do pure (.mremove (← f.toNat?) (← k.toNat?))
  | ["bwrite", f, l, s] => do
      let f ← f.toNat?
      let printable := fs[f]? == some "S"
      pure (.bwrite f (mkBytes (← l.toNat?) (← s.toNat?) printable))
  | ["bread", f] => do pure (.bread (← f.toNat?))
  | ["blen", f] => do pure (.blen (← f.toNat?))
  | ["bclear", f] => do pure (.bclear (← f.toNat?))
  | ["raw", h] => do pure (.raw (← parseHex? h))
  | _ => none

def parseObs (t : String) : Option Obs :=
  if t = "u" then some .unit
  else if t = "n" then some .none
  else if t = "R" then some .revert
  else if t = "b0" then some (.bool false)
  else if t = "b1" then some (.bool true)
  else if t.startsWith "d" then (t.drop 1).toString.toNat?.map .num
  else if t.startsWith "s" then (bytesOf (t.drop 1).toString).map .some
  else none

def opName : Op → String
  | .vpush .. => "vpush" | .vpop .. => "vpop" | .vget .. => "vget" | .vset .. => "vset" | .vlen .. => "vlen"
  | .vremove .. => "vremove" | .vinsert .. => "vinsert" | .vswap .. => "vswap" | .vswaprm .. => "vswaprm"
  | .vclear .. => "vclear" | .minsert .. => "minsert" | .mget .. => "mget" | .mremove .. => "mremove"
  | .bwrite .. => "bwrite" | .bread .. => "bread" | .blen .. => "blen" | .bclear .. => "bclear" | .raw .. => "raw"

def showObs : Obs → String
  | .unit => "u" | .none => "n" | .some b => "s" ++ showHexBytes (b.map UInt8.ofNat) | .num n => s!"d{n}"
  | .bool b => if b then "b1" else "b0" | .revert => "R"

def answer (line : String) : String :=
  let (c, i) := splitCase line
  let r : Option String := do
    if c.head? != some "hist" then none
    let fieldToks := ((← kv c "fields").splitOn ",")
    let fs ← parseList "," parseField (← kv c "fields")
    let kinds := fieldToks.map fun t => (t.splitOn ":").headD ""
    let table ← parseList "," (fun t => match t.splitOn ":" with
      | [p, d] => do pure ((← bytesOf p), (← parseHex? d))
      | _ => none) (← kv c "h")
    let ops ← parseList "," (parseOp kinds) (← kv c "ops")
    let obs ← parseList "," parseObs (← kv i "obs")
    -- SHA-256 as supplied; a pre-image outside the table hashes to a sentinel that is reported
    let miss : Nat := two256 + 1
    let H : List Nat → Nat := fun p => match table.find? (·.1 == p) with
      | some e => e.2
      | none => miss
    let model := runSlot H fs Store.empty ops
    let agree := model == obs
    let prop := histProp (absInit fs) ops obs
    let reverted := obs.contains .revert
    -- distinctness of the keys in play (the hypotheses of the theorems, checked concretely)
    let keys := fs.map (·.fid) ++ table.map (·.2)
    let spaced := nodupKeys keys && keys.all (fun k => keys.all fun k' => k = k' || k + 64 ≤ k' || k' + 64 ≤ k) && keys.all (· + 64 < two256)
    let kindsHit := (ops.map opName).eraseDups
    pure s!"{",".intercalate (model.map showObs)} agree={b01 agree} prop={b01 prop} nops={ops.length} reverted={b01 reverted} spaced={b01 spaced} fieldsTouched={(ops.filterMap fun o => match o with
      | .vpush f _ | .vpop f | .vget f _ | .vset f _ _ | .vlen f | .vremove f _ | .vinsert f _ _ | .vswap f _ _ | .vswaprm f _ | .vclear f
      | .minsert f _ _ | .mget f _ | .mremove f _ | .bwrite f _ | .bread f | .blen f | .bclear f => some f
      | .raw _ => none).eraseDups.length} opkinds={kindsHit.length}"
  r.getD "bad-case agree=0 prop=0"

def run : IO Unit := do
  lineLoop (← IO.getStdin) (← IO.getStdout) answer

end SwayVerif.Driver.C28

def main : IO Unit := SwayVerif.Driver.C28.run
