import SwayVerif.Model.PassSeq
import SwayVerif.Driver.Util
/-!
Driver for C04. Case: `seq <module id> <pass,pass,…>`; implementation result:
`ok | passerr@k:<pass>:<class> | verifyfail@k:<pass>:<class> | panic@k:<pass>:<class> | hang@k:<pass> |
 abort@k:<pass> | initfail:<class>` followed by `mod=<n> len=<n> src=<kind>`. `skip <id> ;; <reason>` lines carry no verdict.
The verdict of the real verifier after every real pass IS the oracle; the driver evaluates the property
predicate `PassSeq.propHolds` on it.
-/
namespace SwayVerif.Driver.C04
open SwayVerif.PassSeq SwayVerif.Driver

def verdictOf (t : String) : Option Verdict :=
  if t = "ok" then some .ok
  else if t.startsWith "passerr@" then some .passErr
  else if t.startsWith "initfail:" then some .initFail
  else if t.startsWith "verifyfail@" then some .verifyFail
  else if t.startsWith "panic@" then some .panic
  else if t.startsWith "hang@" then some .hang
  else if t.startsWith "abort@" then some .abort
  else none

def kvOf (ts : List String) (k : String) : String :=
  match ts.find? (·.startsWith (k ++ "=")) with
  | some t => (t.drop (k.length + 1)).toString
  | none => ""

def answer (line : String) : String :=
  let (c, i) := splitCase line
  match c, i with
  | "seq" :: _ :: _, v :: rest =>
    match verdictOf v with
    | some vd =>
      let cls := ((v.splitOn "@").headD v |>.splitOn ":").headD v
      let pass := if cls = "ok" || cls = "initfail" then "-" else (((v.splitOn ":").drop 1).headD "-")
      s!"checked agree=1 prop={b01 (propHolds vd)} verdict={cls} pass={pass} src={kvOf rest "src"} len={kvOf rest "len"}"
    | none => "bad-verdict agree=0 prop=0"
  | "skip" :: _, _ => "info agree=1 prop=1 verdict=skip"
  | _, _ => "bad-op agree=0 prop=0"

def run : IO Unit := do
  lineLoop (← IO.getStdin) (← IO.getStdout) answer

end SwayVerif.Driver.C04

def main : IO Unit := SwayVerif.Driver.C04.run
