import SwayVerif.Model.Lock
import SwayVerif.Driver.Util
import SwayVerif.Driver.LockCommon
/-!
Driver for C21. Cases (see `harness/src/bin/sv_c21.rs`):
  `pin <s> X.. ;; ok <pinned> | err | panic`
  `lock L.. X.. ;; ok G.. | err | panic`
  `toml <bytes> ;; tomlerr | panic`      (TOML layer rejected the text — outside the model)
`agree` = model outcome (class and value) equals the implementation's; `prop` = implementation did not panic.
-/
namespace SwayVerif.Driver.C21
open SwayVerif.Lock SwayVerif.Driver SwayVerif.Driver.LockCommon

def variantOf : Res Pinned → String
  | .ok .member => "member"
  | .ok (.git ..) => "git"
  | .ok (.path _) => "path"
  | .ok (.ipfs _) => "ipfs"
  | .ok (.registry ..) => "reg"
  | _ => "none"

def answer (line : String) : String :=
  let (c, i) := splitCase line
  let implCls := (i.head?.bind clsOfToken)
  let prop := match implCls with
    | some o => c21PropHolds o
    | none => false
  match c with
  | "pin" :: rest =>
    match (do let s ← str; let t ← extTable; pure (s, t) : P _).run rest with
    | some ((s, tbl), []) =>
      let m := parsePinned (extOf tbl) s
      let ms := match m with
        | .ok p => join ("ok" :: showPinned p)
        | .err => "err"
        | .panic => "panic"
      s!"{ms} agree={b01 (ms == join i)} prop={b01 prop} kind=pin cls={showCls m.cls} variant={variantOf m}"
    | _ => "bad-case agree=0 prop=0"
  | "lock" :: rest =>
    match (do let l ← records; let t ← extTable; pure (l, t) : P _).run rest with
    | some ((pkgs, tbl), []) =>
      let m := toGraph (extOf tbl) pkgs
      let ms := match m with
        | .ok g => join ("ok" :: showGraph g)
        | .err => "err"
        | .panic => "panic"
      let ne := match m with
        | .ok g => sizeClass g.edges.length
        | _ => "-"
      s!"{ms} agree={b01 (ms == join i)} prop={b01 prop} kind=lock cls={showCls m.cls} pkgs={sizeClass pkgs.length} edges={ne}"
    | _ => "bad-case agree=0 prop=0"
  | ["toml", _] => s!"skip agree=1 prop={b01 prop} kind=toml cls=toml"
  | _ => "bad-case agree=0 prop=0"

def run : IO Unit := do
  lineLoop (← IO.getStdin) (← IO.getStdout) answer

end SwayVerif.Driver.C21

def main : IO Unit := SwayVerif.Driver.C21.run
