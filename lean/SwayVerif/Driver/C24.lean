import SwayVerif.Model.LspSched
import SwayVerif.Model.LspSchedTree
import SwayVerif.Driver.Util
/-!
Driver for C24. Case: `sched <schedule tokens…>`; implementation result:
`<quiescent|stuck|running> trace=<tid:point,…> end=q:<0|1>,stuck:<n>,lc:<v|none>,latest:<v> skipped=<n> …` (see
`harness/src/bin/sv_c24.rs`).

* `agree` — the trace of the instrumented server is a run of the model (configuration = the shape
  of the code in the tree) and the model's end state matches the observed one (quiescent, number of
  waiters still blocked, version used by the last completed compilation);
* `prop` — (a) and (b) on the REAL end state: quiescent ⇒ no waiter blocked ∧ last completed
  compilation used the latest version.
-/
namespace SwayVerif.Driver.C24
open SwayVerif.LspSched SwayVerif.Driver

def parseEv (t : String) : Option Ev :=
  match t.splitOn ":" with
  | [a, b] => a.toNat?.map fun n => ⟨n, b⟩
  | _ => none

def parseTrace (s : String) : Option (List Ev) :=
  if s = "-" then some [] else
  (s.splitOn ",").foldr (fun t acc => match acc, parseEv t with
    | some l, some e => some (e :: l)
    | _, _ => none) (some [])

structure End where
  q : Bool
  stuck : Nat
  lc : Option Nat
  latest : Nat

def kv (pre : String) (ts : List String) : Option String :=
  (ts.find? (·.startsWith pre)).map fun t => (t.drop pre.length).toString

def parseEnd (s : String) : Option End := do
  let fs := s.splitOn ","
  let q ← kv "q:" fs
  let st ← kv "stuck:" fs
  let lc ← kv "lc:" fs
  let la ← kv "latest:" fs
  let stuck ← st.toNat?
  let latest ← la.toNat?
  let lcv ← if lc = "none" then some none else lc.toNat?.map some
  pure ⟨q = "1", stuck, lcv, latest⟩

/-- Does some model end state match the observation? -/
def endMatches (ss : List State) (e : End) : Bool :=
  ss.any fun t =>
    (!e.q || quiescentB t) && (!e.q || waitingB t == e.stuck) && t.latest == e.latest &&
    (match e.lc with
     | some v => t.lastDone == v
     | none => true)

def answer (line : String) : String :=
  let (_, i) := splitCase line
  let cfg := treeCfg.getD Cfg.fixed
  match (kv "trace=" i).bind parseTrace, (kv "end=" i).bind parseEnd with
  | some tr, some e =>
    let ends := runTrace cfg [init] tr
    let accepted := !ends.isEmpty
    let agree := accepted && endMatches ends e
    let prop := propHolds e.q e.stuck e.lc e.latest
    let nh := (tr.map (·.tid)).foldl max 0
    let aborted := tr.any (·.name == "w_ls_aborted")
    let waited := tr.any (·.name == "p_wake")
    s!"accepted={b01 accepted} agree={b01 agree} prop={b01 prop} cfg={if treeCfg.isSome then "tree" else "unknown"} " ++
    s!"handlers={nh} aborted={b01 aborted} waited={b01 waited} q={b01 e.q} len={tr.length / 20 * 20}"
  | _, _ => "bad-line agree=0 prop=0"

def run : IO Unit := do
  lineLoop (← IO.getStdin) (← IO.getStdout) answer

end SwayVerif.Driver.C24

def main : IO Unit := SwayVerif.Driver.C24.run
