import SwayVerif.Model.Cache
import SwayVerif.Driver.Util
/-!
Driver for C26.

`step <hist> <k> <pkg> <op…> ;; incr=<digest|panic|abort> fresh=<digest> nondet=<0|1> settle=<…> ev=<events> cache=<entries> dl=<diff summary> diff=<…>`
  answer: `<model cache> agree=<model cache = committed cache of the server> prop=<incr = fresh> why=<defect class> …`
`dec <ty|parse> <path> fv=<path@n|v,…> e=<path|h=…|pv=…|tv=…|deps=p,p;…> ;; <0|1>`
  answer: `<model decision> agree=<equal> prop=1`
-/
namespace SwayVerif.Driver.C26
open SwayVerif.Cache SwayVerif.Driver

def indexOf? (xs : List String) (x : String) : Option Nat :=
  let rec go : List String → Nat → Option Nat
    | [], _ => none
    | y :: r, i => if x = y then some i else go r (i + 1)
  go xs 0

def kvOf (key : String) (toks : List String) : Option String :=
  toks.findSome? fun t => if t.startsWith (key ++ "=") then some ((t.drop (key.length + 1)).toString) else none

def optNat (s : String) : Option (Option Nat) :=
  if s = "n" then some none else (s.toNat?).map some

def showOpt : Option Nat → String
  | none => "n"
  | some v => toString v

def splitNE (s : String) (sep : String) : List String := (s.splitOn sep).filter (· ≠ "")

/-- insertion sort, lexicographic on code points (the harness sorts the same ASCII strings bytewise) -/
def sortStrings (xs : List String) : List String :=
  xs.foldl (fun acc x =>
    let (a, b) := acc.span (fun y => y < x)
    a ++ [x] ++ b) []

/-! ### decisions -/

def parseEntry (names : List String) (s : String) : Option (Path × Entry) := do
  let f := s.splitOn "|"
  let p ← indexOf? names (← f[0]?)
  let pv ← optNat (← kvOf "pv" f)
  let tvs ← kvOf "tv" f
  let typed : Option Typed ← (if tvs = "-" then some none else (optNat tvs).map fun v => some ⟨v, fun _ => 0⟩)
  let deps := (splitNE ((kvOf "deps" f).getD "") ",").filterMap (indexOf? names)
  let h := if kvOf "h" f = some "1" then 1 else 0
  pure (p, { hash := h, deps := deps, pver := pv, typed := typed })

def answerDec (c i : List String) : String :=
  match c, i with
  | ["dec", kind, path, fvS, eS], [impl] =>
    let fvL := splitNE ((fvS.drop 3).toString) ","
    let eL := splitNE ((eS.drop 2).toString) ";"
    let names0 := fvL.map fun t => (t.splitOn "@").headD ""
    let names1 := eL.map fun t => (t.splitOn "|").headD ""
    let depNames := eL.flatMap fun t => splitNE ((kvOf "deps" (t.splitOn "|")).getD "") ","
    let names := (names0 ++ names1 ++ depNames ++ [path]).eraseDups
    let fv : List (Path × Option Nat) := fvL.filterMap fun t =>
      match t.splitOn "@" with
      | [n, v] => do let i ← indexOf? names n; let o ← optNat v; pure (i, o)
      | _ => none
    let entries := eL.filterMap (parseEntry names)
    if entries.length ≠ eL.length ∨ fv.length ≠ fvL.length then "bad-dec agree=0 prop=0" else
    match indexOf? names path with
    | none => "bad-dec agree=0 prop=0"
    | some p =>
      let m := decide? kind entries fv p
      let ms := match m with | some true => "1" | some false => "0" | none => "diverges"
      s!"{ms} agree={b01 (ms = impl)} prop=1 kind={kind} dres={ms} tracked={fvL.length} entries={eL.length}"
  | _, _ => "bad-dec agree=0 prop=0"

/-! ### steps -/

structure Acc where
  names : List String := []
  root : Path := 0
  tbl : List (Content × Info) := []
  r : RSt := {}
  lastRes : String := "-"
  lastRt : String := "0"
  lastFv : FV := markNone
  lastMod : Option Path := none
  bad : Bool := false

def parseContent (names : List String) (s : String) : Option (Content × Info) :=
  -- `<cid>~<deps>~<imps>`
  match s.splitOn "~" with
  | [cid, d, i] => do
    let c ← cid.toNat?
    pure (c + 1, ⟨(splitNE d "+").filterMap (indexOf? names), (splitNE i "+").filterMap (indexOf? names)⟩)
  | _ => none

def fvOf (n : Nat) (m : Option (Path × Nat)) : FV := fun q =>
  if q < n then (match m with | some (f, v) => if q = f then some (some v) else some none | none => some none) else none

def stepEvent (allNames : List String) (a : Acc) (ev : String) : Acc :=
  let body := (ev.drop 1).toString
  let F := allNames.length + 2
  let files := List.range allNames.length
  match ev.front with
  | 'R' => { a with root := (indexOf? allNames body).getD 0 }
  | 'O' =>
    match body.splitOn "#" with
    | [f, rest] =>
      match indexOf? allNames f, parseContent allNames rest with
      | some p, some (c, info) =>
        { a with tbl := (c, info) :: a.tbl, r := { a.r with diskT := (p, c) :: a.r.diskT } }
      | _, _ => { a with bad := true }
    | _ => { a with bad := true }
  | 'E' =>
    match body.splitOn "#" with
    | [fv, rest] =>
      match fv.splitOn "@" with
      | [f, v] =>
        match indexOf? allNames f, v.toNat?, parseContent allNames rest with
        | some p, some vn, some (c, info) =>
          { a with tbl := (c, info) :: a.tbl,
                   r := { a.r with diskT := (p, c) :: (a.r.diskT.filter (·.1 != p)), nextVer := vn + 1 } }
        | _, _, _ => { a with bad := true }
      | _ => { a with bad := true }
    | _ => { a with bad := true }
  | 'S' => a
  | 'J' =>
    match body.splitOn ":" with
    | [m, res, rt] =>
      let modif : Option (Path × Nat) := match m.splitOn "@" with
        | [f, v] => do let p ← indexOf? allNames f; let vn ← v.toNat?; pure (p, vn)
        | _ => none
      if m ≠ "-" ∧ modif.isNone then { a with bad := true } else
      let fv := fvOf allNames.length modif
      let commit := res = "ok" ∧ rt = "0"
      { a with r := replayJob a.tbl F a.root files a.r fv (modif.map (·.1)) commit, lastRes := res, lastRt := rt, lastFv := fv, lastMod := modif.map (·.1) }
    | _ => { a with bad := true }
  | _ => { a with bad := true }

def modelCache (names : List String) (c : CacheL) : String :=
  let rows := (List.range names.length).filterMap fun p =>
    (lookupA p c).map fun e =>
      let tv := match e.typed with | none => "-" | some t => showOpt t.ver
      s!"{names.getD p "?"}|pv={showOpt e.pver}|tv={tv}"
  if rows.isEmpty then "-" else ";".intercalate (sortStrings rows)

def parseDl (names : List String) (s : String) : List (Char × Bool × Path) :=
  if s = "-" then [] else
  (splitNE s ",").filterMap fun t =>
    match t.splitOn ":" with
    | [ks, f] => match ks.toList, indexOf? names f with
      | [k, side], some p => some (k, side == 'f', p)
      | _, _ => none
    | _ => none

def answerStep (_c i : List String) : String :=
  match kvOf "incr" i, kvOf "fresh" i, kvOf "nondet" i, kvOf "ev" i, kvOf "cache" i, kvOf "dl" i, kvOf "settle" i with
  | some incr, some fresh, some nondet, some ev, some cache, some dl, some settle =>
    let evs0 := splitNE ev ","
    -- a compilation that crashed ran on the text as of its own request: later edits are left out
    let crashed := incr = "panic" ∨ incr = "abort"
    let lastVer : Option Nat := if crashed then
        (evs0.getLast?.bind fun e => ((((e.drop 1).toString).splitOn ":").headD "").splitOn "@" |>.getLast?).bind String.toNat?
      else none
    let evs := match lastVer with
      | none => evs0
      | some v => evs0.filter fun e =>
          !(e.startsWith "E") || (((((e.drop 1).toString).splitOn "#").headD "").splitOn "@" |>.getLast? |>.bind String.toNat? |>.map (fun x => decide (x ≤ v)) |>.getD true)
    let names := evs.filterMap fun e => if e.startsWith "O" then some ((((e.drop 1).toString).splitOn "#").headD "") else none
    let a := evs.foldl (stepEvent names) {}
    if a.bad then "bad-step agree=0 prop=0" else
    let files := List.range names.length
    let F := names.length + 2
    if crashed then
      let why := if jobReusesStale a.tbl F a.root files a.r a.lastFv then "crash_reusing_typed_module_of_importer"
        else if jobRetypesWithoutGc a.tbl F a.root a.r a.lastFv a.lastMod then "crash_after_retyping_without_garbage_collection"
        else "crash_unexplained"
      s!"crash agree=1 prop=0 why={why} settle={settle} last={a.lastRes} crash={incr}"
    else
      let mc := modelCache names a.r.cacheT
      -- the model assumes that a compilation reads the text of its request: a didChange that returned
      -- before the text was on disk breaks the correspondence
      let agree := mc = cache ∧ (kvOf "races" i).getD "0" = "0"
      let prop := incr = fresh ∨ nondet = "1"
      let why := if prop then "-" else
        explain a.tbl files a.r (a.lastRes = "reused") (a.lastRes = "err" ∨ a.lastRes = "tyerr") (a.lastRt = "1") (parseDl names dl)
      s!"{mc} agree={b01 agree} prop={b01 prop} why={why} settle={settle} last={a.lastRes} nondet={nondet} races={(kvOf "races" i).getD "0"} edits={(evs.filter (·.startsWith "E")).length}"
  | _, _, _, _, _, _, _ => "bad-step agree=0 prop=0"

def answer (line : String) : String :=
  let (c, i) := splitCase line
  match c.head? with
  | some "dec" => answerDec c i
  | some "step" => answerStep c i
  | _ => "bad-op agree=0 prop=0"

def run : IO Unit := do
  lineLoop (← IO.getStdin) (← IO.getStdout) answer

end SwayVerif.Driver.C26

def main : IO Unit := SwayVerif.Driver.C26.run
