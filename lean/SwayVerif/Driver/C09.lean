import SwayVerif.Driver.AbiSexp
/-!
Driver for C09. Cases (see harness/src/bin/sv_c09.rs):
  `enc <ty> <val> ;; bytes=<hex> slow=<hex> mem=<hex> trivE= trivD= memEq= abi <ty from the JSON ABI>`
  `dec <canon|trail|badbool|badtag> <ty> <hex> ;; ok <hex> | revert`
(prefixes `enc-trivialenum` / `dec-trivialenum` = known-finding stream).
agree: the implementation model (`implEncode` / `implDecode`, fast paths included) predicts the real bytes and the
JSON-derived type is the generated type. prop: the logged bytes and the plain `abi_encode` bytes are the canonical
encoding of the value at the type the JSON ABI describes; decoding canonical bytes (also with trailing bytes)
reconstructs the value (observed through its re-encoding).
-/
namespace SwayVerif.Driver.C09
open SwayVerif.Abi SwayVerif.Driver SwayVerif.Driver.AbiSexp

def answerEnc (known : Bool) (c i : List String) : String :=
  match parseTy c with
  | some (t, rest) => match parseVal rest with
    | some (v, []) =>
      let abiToks := (i.dropWhile (· ≠ "abi")).drop 1
      let abity := match parseTy abiToks with | some (a, []) => some a | _ => none
      match kvOf i "bytes" >>= hexBytes?, kvOf i "slow" >>= hexBytes?, flag? i "trivE" with
      | some bytes, some slow, some trivE =>
        if !hasType t v then "ill-typed agree=0 prop=0" else
        let tyToks := c.take (c.length - rest.length)
        let abiSame := decide (abiToks = tyToks)
        let predicted := implEncode t v
        let agree := (predicted == bytes || (known && imageMatches (runtimeImage t v) bytes))
          && slowEncode t v == slow && abiSame
        let pt := abity.getD t
        let prop := propEncode pt v bytes slow
        let why := if known && !prop && trivialEnumPaddedVariant t v && imageMatches (runtimeImage t v) bytes
            && slow == encode t v then " why=trivialenum-padded-variant" else ""
        s!"{showHexBytes (encode pt v)} agree={b01 agree} prop={b01 prop} kind=enc class={className t} depth={depth t} len={lenClass bytes.length} triv={b01 trivE} abi={if abity.isSome then (if abiSame then "same" else "differs") else "underived"}{why}"
      | _, _, _ => "bad-impl agree=0 prop=0"
    | _ => "bad-val agree=0 prop=0"
  | none => "bad-ty agree=0 prop=0"

def answerDec (known : Bool) (c i : List String) : String :=
  match c with
  | kind :: rest => match parseTy rest with
    | some (t, [h]) => match hexBytes? h, parseObs i with
      | some bs, some obs =>
        let model := decode t bs
        let pred := predictDecode t bs
        let agree := match pred, obs with
          | some v, .ok re => implEncode t v == re || (known && imageMatches (runtimeImage t v) re)
          | none, .revert => true
          | _, _ => false
        -- C09 speaks about canonical inputs only; the invalid-pattern stream belongs to C10
        let canonical := kind == "canon" || kind == "trail"
        let prop := if canonical then propDecode t bs obs else true
        let why := if known && !prop && (match pred with | some v => trivialEnumPaddedVariant t (match model with | some (w, _) => w | none => v) | none => false)
          then " why=trivialenum-padded-variant" else ""
        let m := match model with | some (v, _) => "ok " ++ showHexBytes (encode t v) | none => "revert"
        s!"{m} agree={b01 agree} prop={b01 prop} kind=dec-{kind} class={className t} depth={depth t} len={lenClass bs.length} valid={b01 model.isSome} trivD={b01 (isDecodeTrivial t)}{why}"
      | _, _ => "bad-impl agree=0 prop=0"
    | _ => "bad-ty agree=0 prop=0"
  | [] => "bad-case agree=0 prop=0"

def answer (line : String) : String :=
  let ts := lex line
  let c := ts.takeWhile (· ≠ ";;")
  let i := (ts.dropWhile (· ≠ ";;")).drop 1
  match c with
  | "enc" :: r => answerEnc false r i
  | "enc-trivialenum" :: r => answerEnc true r i
  | "dec" :: r => answerDec false r i
  | "dec-trivialenum" :: r => answerDec true r i
  | _ => "bad-op agree=0 prop=0"

def run : IO Unit := do
  lineLoop (← IO.getStdin) (← IO.getStdout) answer

end SwayVerif.Driver.C09

def main : IO Unit := SwayVerif.Driver.C09.run
