import SwayVerif.Model.Doc
import SwayVerif.Driver.Util
/-!
Driver for C23. Case: `apply <before> full <text>` | `apply <before> range <sl> <sc> <el> <ec> <text>`
implementation result: `ok <after>` | `err` | `erraltered <after>` | `panic`.
-/
namespace SwayVerif.Driver.C23
open SwayVerif.Doc SwayVerif.Driver

def showRes : Res (List Char) → String
  | .ok d => s!"ok {showCps d}"
  | .err => "err"
  | .panic => "panic"

def parseImpl : List String → Option (Res (List Char) ⊕ String)
  | ["ok", d] => (parseCps? d).map (Sum.inl ∘ Res.ok)
  | ["err"] => some (Sum.inl .err)
  | ["panic"] => some (Sum.inl .panic)
  | "erraltered" :: _ => some (Sum.inr "erraltered")
  | _ => none

def answer (line : String) : String :=
  let (c, i) := splitCase line
  let parsed : Option (List Char × Option Range × List Char) := match c with
    | ["apply", b, "full", t] => do
        let b ← parseCps? b; let t ← parseCps? t; pure (b, none, t)
    | ["apply", b, "range", sl, sc, el, ec, t] => do
        let b ← parseCps? b; let t ← parseCps? t
        let sl ← sl.toNat?; let sc ← sc.toNat?; let el ← el.toNat?; let ec ← ec.toNat?
        pure (b, some ⟨⟨sl, sc⟩, ⟨el, ec⟩⟩, t)
    | _ => none
  match parsed, parseImpl i with
  | some (b, r, t), some impl =>
    let m := serverApply b r t
    let (agree, prop) := match impl with
      | .inl ir => (decide (ir = m), propHolds b r t ir)
      | .inr _ => (false, false)
    s!"{showRes m} agree={b01 agree} prop={b01 prop} valid={b01 (clientApply b r t).isSome}"
  | _, _ => "bad-op agree=0 prop=0"

def run : IO Unit := do
  lineLoop (← IO.getStdin) (← IO.getStdout) answer

end SwayVerif.Driver.C23

def main : IO Unit := SwayVerif.Driver.C23.run
