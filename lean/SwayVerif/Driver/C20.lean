import SwayVerif.Model.Lock
import SwayVerif.Driver.Util
import SwayVerif.Driver.LockCommon
/-!
Driver for C20. Case (see `harness/src/bin/sv_c20.rs`):
  `rt G.. X.. ;; <ok|err|panic|sererr|deerr> eq=<0|1> toml=<same|diff|none> ;; L.. ;; L.. ;; G..`
where `G` = the original graph, first `L` = real `Lock::from_graph`, second `L` = the records after the
TOML write + read, last `G` = real `to_graph` of those (or `-`), `eq` = the real `==` up to numbering.

`agree`: model `fromGraph` = first `L` (as a set), TOML layer was the identity, model `toGraph` of the
re-read records = the real result exactly (node order, edge order), the canonical-form equivalence agrees
with the real `==`, and (for well-formed graphs) the model's own round trip is an equivalence.
`prop`: for a graph meeting the assumptions (`AssumedGraph`, class (a)) the implementation's re-read graph
is the original one (`c20PropHolds` and the real `==`). Class (b) graphs whose round trip fails get `prop=0`
with `why=<conjunct>` (the known findings `C20-<conjunct>`).
-/
namespace SwayVerif.Driver.C20
open SwayVerif.Lock SwayVerif.Driver SwayVerif.Driver.LockCommon

def splitOn2 (ts : List String) : List (List String) :=
  let rec go (cur : List String) (acc : List (List String)) : List String → List (List String)
    | [] => (cur.reverse :: acc).reverse
    | t :: r => if t = ";;" then go [] (cur.reverse :: acc) r else go (t :: cur) acc r
  go [] [] ts

def kvOf (ts : List String) (k : String) : String :=
  match ts.find? (fun t => t.startsWith (k ++ "=")) with
  | some t => (t.drop (k.length + 1)).toString
  | none => "?"

/-- Which conjunct of `WFGraph` fails first: class (a) (assumptions, prefix `a-`) before class (b)
(known findings); `ok` for well-formed graphs. For a graph with `AssumedGraph` the answer is a (b) key. -/
def whyNotWF (ext : Ext) (g : Graph) : String :=
  let pin (p : Pinned) : Option String :=
    if WFPinned ext p then none else
    match p with
    | .git repo r _ =>
      if !(noChar '?' repo) then some "git-url-qmark"
      else match r with
        | .rev _ => some "git-rev-not-commit"
        | _ => some "git-ref-hash"
    | .registry _ _ cid ns =>
      if !(validateCid cid) then some "reg-cid-not-v0"
      else match ns with
        | some d => if d.isEmpty then some "reg-ns-empty" else some "reg-ns-chars"
        | none => some "reg-other"
    | _ => some "pinned-other"
  if !(g.nodes.all fun p => WFName p.name) then "a-pkg-name"
  else if !(g.nodes.all fun p => AssumedPinned ext p.source) then "a-pinned"
  else if !(g.edges.all fun e => WFKind e.kind) then "a-salt"
  else if !(g.edges.all fun e => e.src < g.nodes.length && e.dst < g.nodes.length) then "a-dangling"
  else if !(pairwiseB (fun e f => !(e.src = f.src && e.dst = f.dst)) g.edges) then "a-parallel-edges"
  else
  match g.nodes.findSome? (fun p => pin p.source) with
  | some w => w
  | none =>
  if !(g.nodes.all fun p => noChar '(' p.source.display) then "paren-in-source"
  else if !(pairwiseB (fun p q => !(p.name = q.name && p.source.display = q.source.display)) g.nodes) then "duplicate-node"
  else if !(g.edges.all fun e => WFDepName e.name) then "dep-name-paren"
  else "ok"

def answer (line : String) : String :=
  let (c, i) := splitCase line
  match c with
  | "rt" :: rest =>
    match (do let g ← graph; let t ← extTable; pure (g, t) : P _).run rest, splitOn2 i with
    | some ((g, tbl), []), [hd, l1, l2, g2] =>
      let ext := extOf tbl
      let cls := hd.head?.getD "?"
      let eq := kvOf hd "eq" == "1"
      let toml := kvOf hd "toml"
      let wf := WFGraph ext g
      -- implementation's final result
      let impl : Option (Res Graph) := match cls with
        | "ok" => match graph.run g2 with
          | some (h, []) => some (.ok h)
          | _ => none
        | "err" => some .err
        | "panic" => some .panic
        | _ => some .err
      match impl with
      | none => "bad-impl agree=0 prop=0"
      | some impl =>
        -- model of the writer
        let m1 := fromGraph g
        let a1 := match records.run l1 with
          | some (r1, []) => m1.isPerm r1
          | _ => false
        -- model of the reader on the records the real TOML layer delivered
        let (a2, ms) := match records.run l2 with
          | some (r2, []) =>
            let m := toGraph ext r2
            let ms := match m with
              | .ok h => join ("ok" :: showGraph h)
              | .err => "err"
              | .panic => "panic"
            (ms == join (cls :: (if cls == "ok" then g2 else [])), ms)
          | _ => (false, "no-records")
        let equivImpl := match impl with
          | .ok h => g.equivB h
          | _ => false
        -- canonical forms vs the real `==`
        let a3 := equivImpl == eq
        -- the theorem's statement, evaluated: the model's own round trip
        let thm := match toGraph ext m1 with
          | .ok h => g.equivB h
          | _ => false
        let a4 := !wf || thm
        let agree := a1 && toml == "same" && a2 && a3 && a4
        let assumed := AssumedGraph ext g
        let prop := c20PropHolds ext g impl && (!assumed || eq)
        let dis := g.nodes.any (fun p => needsDisambiguation (g.nodes.map (·.name)) p.name)
        let con := g.edges.any (fun e => e.kind != .library)
        let ren := g.edges.any (fun e => match g.nodes[e.dst]? with | some d => e.name != d.name | none => false)
        s!"{ms} agree={b01 agree} prop={b01 prop} wf={b01 wf} assumed={b01 assumed} cls={cls} eq={b01 eq} thm={b01 thm} a={b01 a1}{b01 (toml == "same")}{b01 a2}{b01 a3}{b01 a4} why={whyNotWF ext g} nodes={sizeClass g.nodes.length} edges={sizeClass g.edges.length} dis={b01 dis} contract={b01 con} renamed={b01 ren}"
    | _, _ => "bad-case agree=0 prop=0"
  | _ => "bad-case agree=0 prop=0"

def run : IO Unit := do
  lineLoop (← IO.getStdin) (← IO.getStdout) answer

end SwayVerif.Driver.C20

def main : IO Unit := SwayVerif.Driver.C20.run
