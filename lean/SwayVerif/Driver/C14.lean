import SwayVerif.Model.Usefulness
import SwayVerif.Driver.Util
/-!
Driver for C14. Case: `match <type> <arms>`; implementation result:
`<ok|nonexh|ice:<slug>|other:<Kind>> exhaustive=<0|1> witness=<pats|-|unparsed> unreachable=<idxs|-> run=<val:arm,…|->`
(compact syntax documented in `harness/src/bin/sv_c14.rs`).

`agree`: the model of the analysis (`Usefulness.analyse`) returns the compiler's verdict kind and the same
set of unreachable-arm warnings. `prop`: the brute-force oracle over ALL values of the scrutinee type —
exhaustiveness verdict exact, every reported witness really uncovered, warnings exact, run-time arm = first
matching arm. A failing line carries `why=<classes joined by +>`; a class is printed only for the exact
shape that is a known deviation of the compiler, anything else is `unclassified`.
-/
namespace SwayVerif.Driver.C14
open SwayVerif.Usefulness SwayVerif.Driver

/-! ## Parser of the compact syntax -/

abbrev PR (α : Type) := Option (α × List Char)

def pNat (cs : List Char) : PR Nat :=
  let ds := cs.takeWhile Char.isDigit
  if ds.isEmpty then none else
  some (ds.foldl (fun a c => a * 10 + (c.toNat - '0'.toNat)) 0, cs.dropWhile Char.isDigit)

def expect (c : Char) : List Char → Option (List Char)
  | d :: cs => if c == d then some cs else none
  | [] => none

mutual
def pTy : Nat → List Char → PR Ty
  | 0, _ => none
  | _ + 1, 'b' :: cs => some (.bool, cs)
  | _ + 1, 'u' :: cs => some (.u8, cs)
  | f + 1, 'e' :: '[' :: cs => (pTyList f cs).map fun (ts, r) => (.enum ts, r)
  | f + 1, 't' :: '[' :: cs => (pTyList f cs).map fun (ts, r) => (.tuple ts, r)
  | f + 1, 's' :: '[' :: cs => (pTyList f cs).map fun (ts, r) => (.strct ts, r)
  | _, _ => none
/-- after `[`: elements separated by `,` up to `]`. -/
def pTyList : Nat → List Char → PR (List Ty)
  | 0, _ => none
  | _ + 1, ']' :: cs => some ([], cs)
  | f + 1, cs =>
    match pTy f cs with
    | none => none
    | some (t, ',' :: r) => (pTyList f r).map fun (ts, r') => (t :: ts, r')
    | some (t, ']' :: r) => some ([t], r)
    | some _ => none
end

mutual
def pPat : Nat → List Char → PR Pat
  | 0, _ => none
  | _ + 1, '_' :: cs => some (.wild, cs)
  | _ + 1, 'x' :: cs => some (.wild, cs)
  | _ + 1, 'T' :: cs => some (.bool true, cs)
  | _ + 1, 'F' :: cs => some (.bool false, cs)
  | _ + 1, 'n' :: cs => (pNat cs).map fun (n, r) => (.u8 n n, r)
  | _ + 1, 'm' :: cs => (pNat cs).map fun (n, r) => (.num n n, r)
  | _ + 1, 'r' :: cs =>
    match pNat cs with
    | some (a, '-' :: r) => (pNat r).map fun (b, r') => (.u8 a b, r')
    | _ => none
  | f + 1, 'v' :: cs =>
    match pNat cs with
    | some (k, '/' :: r) =>
      match pNat r with
      | some (n, '(' :: r') =>
        match pPat f r' with
        | some (p, ')' :: r'') => some (.enum n k p, r'')
        | _ => none
      | _ => none
    | _ => none
  | f + 1, 't' :: '[' :: cs => (pPatList f cs).map fun (ps, r) => (.tuple ps, r)
  | f + 1, 'o' :: '[' :: cs => (pPatList f cs).map fun (ps, r) => (.or ps, r)
  | f + 1, 's' :: '[' :: cs => (pFields f cs).map fun (fs, r) => (.strct (fs.map Prod.fst) (fs.map Prod.snd), r)
  | _, _ => none
def pPatList : Nat → List Char → PR (List Pat)
  | 0, _ => none
  | _ + 1, ']' :: cs => some ([], cs)
  | f + 1, cs =>
    match pPat f cs with
    | none => none
    | some (p, ',' :: r) => (pPatList f r).map fun (ps, r') => (p :: ps, r')
    | some (p, ']' :: r) => some ([p], r)
    | some _ => none
def pFields : Nat → List Char → PR (List (Nat × Pat))
  | 0, _ => none
  | _ + 1, ']' :: cs => some ([], cs)
  | f + 1, cs =>
    match pNat cs with
    | some (i, ':' :: r) =>
      match pPat f r with
      | none => none
      | some (p, ',' :: r') => (pFields f r').map fun (fs, r'') => ((i, p) :: fs, r'')
      | some (p, ']' :: r') => some ([(i, p)], r')
      | some _ => none
    | _ => none
end

mutual
def pVal : Nat → List Char → PR Val
  | 0, _ => none
  | _ + 1, 'T' :: cs => some (.bool true, cs)
  | _ + 1, 'F' :: cs => some (.bool false, cs)
  | _ + 1, 'n' :: cs => (pNat cs).map fun (n, r) => (.u8 n, r)
  | f + 1, 'v' :: cs =>
    match pNat cs with
    | some (k, '(' :: r) =>
      match pVal f r with
      | some (v, ')' :: r') => some (.enum k v, r')
      | _ => none
    | _ => none
  | f + 1, 't' :: '[' :: cs => (pValList f cs).map fun (vs, r) => (.tuple vs, r)
  | _, _ => none
def pValList : Nat → List Char → PR (List Val)
  | 0, _ => none
  | _ + 1, ']' :: cs => some ([], cs)
  | f + 1, cs =>
    match pVal f cs with
    | none => none
    | some (v, ',' :: r) => (pValList f r).map fun (vs, r') => (v :: vs, r')
    | some (v, ']' :: r) => some ([v], r)
    | some _ => none
end

def whole {α} (r : PR α) : Option α := match r with
  | some (a, []) => some a
  | _ => none

def parseTy (s : String) : Option Ty := whole (pTy 100000 s.toList)
def parsePat (s : String) : Option Pat := whole (pPat 100000 s.toList)
def parsePats (s : String) : Option (List Pat) := (s.splitOn ";").mapM parsePat

def parseIdxs (s : String) : Option (List Nat) :=
  if s = "-" then some [] else (s.splitOn ",").mapM String.toNat?

/-- `val:arm` pairs; arm `R` = the program reverted on that value. Splitting is on the `:` and on commas at
bracket depth 0. -/
def splitTop (cs : List Char) : List (List Char) :=
  let rec go (cs : List Char) (depth : Nat) (cur : List Char) (acc : List (List Char)) : List (List Char) :=
    match cs with
    | [] => (cur.reverse :: acc).reverse
    | c :: r =>
      if c == ',' && depth == 0 then go r depth [] (cur.reverse :: acc)
      else if c == '[' || c == '(' then go r (depth + 1) (c :: cur) acc
      else if c == ']' || c == ')' then go r (depth - 1) (c :: cur) acc
      else go r depth (c :: cur) acc
  go cs 0 [] []

def parseRuns (s : String) : Option (List (Val × Option Nat)) :=
  if s = "-" then some [] else
  (splitTop s.toList).mapM fun tok =>
    let v := tok.takeWhile (· != ':')
    let a := (tok.dropWhile (· != ':')).drop 1
    match whole (pVal 100000 v) with
    | none => none
    | some val =>
      if a == ['R'] then some (val, none)
      else match String.toNat? (String.ofList a) with
        | some k => some (val, some k)
        | none => none

def kv (toks : List String) (key : String) : Option String :=
  toks.findSome? fun t => if t.startsWith (key ++ "=") then some ((t.drop (key.length + 1)).toString) else none

/-! ## Shape predicates used to classify known deviations -/

mutual
def hasNum : Pat → Bool
  | .num _ _ => true
  | .enum _ _ p => hasNum p
  | .tuple ps => hasNumL ps
  | .strct _ ps => hasNumL ps
  | .or ps => hasNumL ps
  | _ => false
def hasNumL : List Pat → Bool
  | [] => false
  | p :: ps => hasNum p || hasNumL ps
end

mutual
/-- Some struct pattern does not list every field in declaration order. -/
def hasPartial : Pat → Ty → Bool
  | .enum _ k p, .enum ts => (match ts[k]? with
      | some t => hasPartial p t
      | none => false)
  | .tuple ps, .tuple ts => hasPartialL ps ts
  | .strct idx ps, .strct ts => idx != List.range ts.length || hasPartialF idx ps ts
  | .or ps, t => hasPartialAny ps t
  | _, _ => false
def hasPartialL : List Pat → List Ty → Bool
  | p :: ps, t :: ts => hasPartial p t || hasPartialL ps ts
  | _, _ => false
def hasPartialF : List Nat → List Pat → List Ty → Bool
  | i :: is, p :: ps, ts => (match ts[i]? with
      | some t => hasPartial p t
      | none => false) || hasPartialF is ps ts
  | _, _, _ => false
def hasPartialAny : List Pat → Ty → Bool
  | [], _ => false
  | p :: ps, t => hasPartial p t || hasPartialAny ps t
end

mutual
/-- All struct patterns with the field types of their struct, wherever they occur in `p : t`. -/
def strctSites : Pat → Ty → List (List Nat × List Ty)
  | .enum _ k p, .enum ts => (match ts[k]? with
      | some t => strctSites p t
      | none => [])
  | .tuple ps, .tuple ts => strctSitesL ps ts
  | .strct idx ps, .strct ts => (idx, ts) :: strctSitesF idx ps ts
  | .or ps, t => strctSitesAny ps t
  | _, _ => []
def strctSitesL : List Pat → List Ty → List (List Nat × List Ty)
  | p :: ps, t :: ts => strctSites p t ++ strctSitesL ps ts
  | _, _ => []
def strctSitesF : List Nat → List Pat → List Ty → List (List Nat × List Ty)
  | i :: is, p :: ps, ts => (match ts[i]? with
      | some t => strctSites p t
      | none => []) ++ strctSitesF is ps ts
  | _, _, _ => []
def strctSitesAny : List Pat → Ty → List (List Nat × List Ty)
  | [], _ => []
  | p :: ps, t => strctSites p t ++ strctSitesAny ps t
end

def isEnumTy : Option Ty → Bool
  | some (.enum _) => true
  | _ => false

/-- Two struct patterns with the same number of listed fields put DIFFERENT enum-typed fields in one positional
column: the compiler then compares enum names, which this model does not carry (see C14-ice-enum-names). -/
def enumMix (ty : Ty) (arms : List Pat) : Bool :=
  let sites := strctSitesAny arms ty
  sites.any fun (i1, ts) => sites.any fun (i2, _) =>
    i1.length == i2.length &&
    (List.range i1.length).any fun j =>
      i1[j]? != i2[j]? &&
      isEnumTy ((i1[j]?).bind (ts[·]?)) && isEnumTy ((i2[j]?).bind (ts[·]?))

mutual
def hasTypedU8 : Pat → Bool
  | .u8 _ _ => true
  | .enum _ _ p => hasTypedU8 p
  | .tuple ps => hasTypedU8L ps
  | .strct _ ps => hasTypedU8L ps
  | .or ps => hasTypedU8L ps
  | _ => false
def hasTypedU8L : List Pat → Bool
  | [] => false
  | p :: ps => hasTypedU8 p || hasTypedU8L ps
end

mutual
/-- A `num` range reaching above 255 (what `create_pattern_not_present` builds for untyped literals). -/
def hasWideNum : Pat → Bool
  | .num _ hi => hi > 255
  | .u8 _ hi => hi > 255
  | .enum _ _ p => hasWideNum p
  | .tuple ps => hasWideNumL ps
  | .strct _ ps => hasWideNumL ps
  | .or ps => hasWideNumL ps
  | _ => false
def hasWideNumL : List Pat → Bool
  | [] => false
  | p :: ps => hasWideNum p || hasWideNumL ps
end

mutual
def tyBeq : Ty → Ty → Bool
  | .bool, .bool => true
  | .u8, .u8 => true
  | .enum a, .enum b => tyBeqL a b
  | .tuple a, .tuple b => tyBeqL a b
  | .strct a, .strct b => tyBeqL a b
  | _, _ => false
def tyBeqL : List Ty → List Ty → Bool
  | [], [] => true
  | a :: as, b :: bs => tyBeq a b && tyBeqL as bs
  | _, _ => false
end

def isTupleTy : Ty → Bool
  | .tuple (_ :: _) => true
  | _ => false

/-- two tuple-typed components of the same type among `ts`. -/
def twinTuples : List Ty → Bool
  | [] => false
  | t :: ts => (isTupleTy t && ts.any (tyBeq t)) || twinTuples ts

mutual
/-- The scrutinee type contains a tuple with two tuple components of equal type — the shape on which the
type checker rejects patterns like `((_, false), (true, true))` with "Mismatched types". -/
def hasTwinTuples : Ty → Bool
  | .enum ts => hasTwinTuplesL ts
  | .tuple ts => twinTuples ts || hasTwinTuplesL ts
  | .strct ts => hasTwinTuplesL ts
  | _ => false
def hasTwinTuplesL : List Ty → Bool
  | [] => false
  | t :: ts => hasTwinTuples t || hasTwinTuplesL ts
end

/-- Position of the interior catch-all arm (`interior_catch_all_arm_position`). -/
def interiorCatchAll (arms : List Pat) : Option Nat :=
  findIdx Pat.isCatchAll (arms.take (arms.length - 1)) 0

def joinPlus (l : List String) : String := if l.isEmpty then "-" else "+".intercalate l

def showIdxs (l : List Nat) : String := if l.isEmpty then "-" else ",".intercalate (l.map toString)

def answer (line : String) : String :=
  let (c, i) := splitCase line
  match c, i with
  | ["match", tyS, armsS], head :: rest =>
    match parseTy tyS, parsePats armsS, (kv rest "unreachable").bind parseIdxs, (kv rest "run").bind parseRuns with
    | some ty, some arms, some unr, some runs =>
      let implIce := head.startsWith "ice:"
      let implOther := head.startsWith "other:" || !(implIce || head == "ok" || head == "nonexh")
      let implExh := head == "ok"
      let witS := (kv rest "witness").getD "-"
      let wit : Option (List Pat) :=
        if witS == "unparsed" then none else if witS == "-" then some [] else parsePats witS
      let witnessKey := if witS == "unparsed" || (witS != "-" && wit.isNone) then "unparsed" else if witS == "-" then "none" else "parsed"
      -- model
      let m := analyse driverFuel arms
      let (mHead, mUnr, mWit) := match m with
        | .ice => ("ice", ([] : List Nat), ([] : List Pat))
        | .ok true u _ => ("ok", u, [])
        | .ok false u w => ("nonexh", u, flattenStack w)
      let rtOK := runs.all fun (v, a) => rtFirst arms v == a
      let agree := !implOther && rtOK &&
        (if implIce then mHead == "ice" else mHead == head && sameSet mUnr unr)
      -- property
      let parts := propParts ty arms implIce implExh wit unr runs
      let partial_ := arms.any (hasPartial · ty)
      let num := arms.any hasNum
      let oracleUnr := (List.range arms.length).filter (unreachableBF ty arms)
      let ica := interiorCatchAll arms
      -- a known class is only ever attached to a verdict that the model of the code AS IT IS reproduces;
      -- a compiler verdict that differs from the model is never explained away
      let exhAgree := if implIce then mHead == "ice" else mHead == head
      let unrAgree := implIce || sameSet mUnr unr
      let whyExh : List String :=
        if parts.exh then [] else
        if !exhAgree then ["unclassified-exh"] else
        if partial_ then ["struct-rest-positional"]
        else if implIce && num && arms.any hasTypedU8 then ["literal-suffix-mix-ice"]
        else if num then ["literal-width-u64"] else ["unclassified-exh"]
      let whyUnr : List String :=
        if parts.unr then [] else
        if !unrAgree then ["unclassified-unr"] else
        -- warnings ⊆ oracle and the only missing one is the interior catch-all arm itself
        let missing := oracleUnr.filter (!unr.contains ·)
        let extra := unr.filter (!oracleUnr.contains ·)
        let icaOnly := match ica with
          | some k => extra.isEmpty && missing == [k]
          | none => false
        let icaPart := match ica with
          | some k => missing.contains k
          | none => false
        if icaOnly then ["interior-catchall-nowarn"]
        else if partial_ then (if icaPart then ["interior-catchall-nowarn", "struct-rest-positional"] else ["struct-rest-positional"])
        else if num then (if icaPart then ["interior-catchall-nowarn", "literal-width-u64"] else ["literal-width-u64"])
        else ["unclassified-unr"]
      let modelWitOK := mHead == "nonexh" && !mWit.isEmpty && mWit.all (witnessOK ty arms)
      let whyWit : List String :=
        if parts.wit then [] else
        if implExh || !exhAgree then ["unclassified-wit"] else
        if partial_ then ["struct-rest-positional"]
        else if mHead != "nonexh" then ["unclassified-wit"]
        else if modelWitOK then ["tuple-display-dedup"]
        else
          -- the model's own (pre-Display) witness list is already wrong: only because of out-of-type
          -- u64 ranges, or because of the stack concatenation
          let bad := mWit.filter (!witnessOK ty arms ·)
          if num && bad.all (fun w => hasWideNum w && !(allValues ty).any (w.matches ·)) then ["literal-width-u64"]
          else ["witness-join"]
      let whyRun : List String :=
        if parts.run then [] else
        if rtOK && arms.any Pat.hasOrCatchAll then ["or-catchall-alt-runtime"] else ["unclassified-run"]
      let typeErr := head == "other:TypeError" && hasTwinTuples ty
      let whyOther : List String := if implOther then ["unclassified-other"] else []
      let why := if typeErr then ["typecheck-twin-tuples"] else (whyExh ++ whyUnr ++ whyWit ++ whyRun ++ whyOther).eraseDups
      let prop := parts.all && !implOther
      let frag := arms.all (·.hasTy ty)
      let hasOr := arms.any fun a => match a with
        | .or _ => true
        | _ => false
      -- a reachable top-level or-arm whose LAST alternative adds nothing (the earlier alternatives carry it)
      let orLastDead := (List.range arms.length).any fun k => match arms[k]? with
        | some (.or alts) =>
          !unreachableBF ty arms k &&
          (match alts.getLast? with
            | some l => (allValues ty).all fun v => !l.matches v || covered (arms.take k ++ alts.dropLast) v
            | none => false)
        | _ => false
      s!"{mHead} unreachable={showIdxs mUnr} agree={b01 agree} prop={b01 prop} why={joinPlus why} pe={b01 parts.exh} pw={b01 parts.wit} pu={b01 parts.unr} pr={b01 parts.run} bf={b01 (exhaustiveBF ty arms)} fragment={b01 frag} witness={witnessKey} arms={arms.length} ran={b01 (!runs.isEmpty)} orarm={b01 hasOr} orlastdead={b01 orLastDead} enummix={b01 (enumMix ty arms)}"
    | _, _, _, _ => "bad-case agree=0 prop=0 why=unclassified-parse"
  | _, _ => "bad-line agree=0 prop=0 why=unclassified-parse"

def run : IO Unit := do
  lineLoop (← IO.getStdin) (← IO.getStdout) answer

end SwayVerif.Driver.C14

def main : IO Unit := SwayVerif.Driver.C14.run
