import SwayVerif.Model.Lexer
import SwayVerif.Driver.Util
/-!
Driver for C16.

Case `lex <chars>`: `<chars>` = `-` or `,`-joined `hexcp[:classhex]` (class bits 1 = whitespace, 2 = XID_Start,
4 = XID_Continue, 8 = bidi format char). Implementation result:
`lex=<ok|fail|panic|hang> toks=<..> errs=<..> parse=<ok|err|panic|hang> badspans=<n> tokbad=<n> render=<n> ndiag=<n> foreign=<n> src=<tag>`.
The model (`SwayVerif.Lexer.lex`) is run on the text; `agree` compares outcome, flattened tokens (kinds, spans, parsed
values) and errors (kinds, spans) — the `unicodeTextDirInLiteral` errors are left out of the comparison (their
presence is not part of C16; `bidi_same` reports whether they coincide; likewise bidi characters are removed from
the parsed value of string tokens on both sides). `prop` = `SwayVerif.Lexer.propHolds`.

Case `whole <len> <hash>`: an input larger than the window bound, evaluated in Rust only; `prop` from the fields.
Case `nest <kind> <depth> <stackMiB>`: generated nested input run in a child process; `prop` = it did not die.
-/
namespace SwayVerif.Driver.C16
open SwayVerif.Lexer SwayVerif.Driver

/-- Parse `hexcp[:classhex]` items joined by `,`. -/
def parseCCs (s : String) : Option (List CC) :=
  if s = "-" then some [] else
  let mk (v f : Nat) : Option CC :=
    if h : v.isValidChar then
      some { c := Char.ofNatAux v h, ws := f % 2 == 1, xs := (f / 2) % 2 == 1, xc := (f / 4) % 2 == 1, bd := (f / 8) % 2 == 1 }
    else none
  -- state: (value, flags, inFlags, seenDigit, acc reversed, ok)
  let step := fun (st : Nat × Nat × Bool × Bool × List CC × Bool) (ch : Char) =>
    let (v, f, inF, seen, acc, ok) := st
    if !ok then st
    else if ch = ',' then
      if !seen then (0, 0, false, false, acc, false)
      else match mk v f with
        | some cc => (0, 0, false, false, cc :: acc, true)
        | none => (0, 0, false, false, acc, false)
    else if ch = ':' then (v, f, true, seen, acc, ok)
    else match hexDigit? ch with
      | some d => if inF then (v, f * 16 + d, inF, seen, acc, ok) else (v * 16 + d, f, inF, true, acc, ok)
      | none => (v, f, inF, seen, acc, false)
  let (v, f, _, seen, acc, ok) := s.foldl step (0, 0, false, false, [], true)
  if !ok || !seen then none
  else match mk v f with
    | some cc => some (cc :: acc).reverse
    | none => none

def delimCh : Delim → String
  | .paren => "p" | .brace => "b" | .bracket => "k"

def intTyStr : IntTy → String
  | .u8 => "u8" | .u16 => "u16" | .u32 => "u32" | .u64 => "u64" | .u256 => "u256"
  | .i8 => "i8" | .i16 => "i16" | .i32 => "i32" | .i64 => "i64"

def showTok (t : Token) : String :=
  let sp := s!"@{t.start}-{t.stop}"
  match t.kind with
  | .ident raw => (if raw then "r" else "i") ++ sp
  | .punct c j => "p" ++ hexOfNat c.toNat ++ (if j then "j" else "a") ++ sp
  | .str p => "s" ++ sp ++ "=" ++ ".".intercalate (p.map fun c => hexOfNat c.toNat)
  | .chr c => "c" ++ sp ++ "=" ++ hexOfNat c.toNat
  | .int v => "n" ++ sp ++ "=" ++ hexOfNat v
  | .intSuffix ty => "t" ++ intTyStr ty ++ sp
  | .comment k => "k" ++ (match k with | .newlined => "n" | .trailing => "t" | .inlined => "i" | .multilined => "m") ++ sp
  | .doc inner cs => "d" ++ (if inner then "i" else "o") ++ sp ++ s!"+{cs}"
  | .open d => "o" ++ delimCh d ++ sp
  | .close d => "x" ++ delimCh d ++ sp

def errCode : ErrKind → String
  | .unclosedMultilineComment => "UMC" | .unexpectedCloseDelimiter => "UCD" | .mismatchedDelimiters => "MMD"
  | .unclosedDelimiter => "UD" | .unclosedStringLiteral => "USL" | .unclosedCharLiteral => "UCL"
  | .expectedCloseQuote => "ECQ" | .incompleteHexIntLiteral => "IHX" | .incompleteBinaryIntLiteral => "IBN"
  | .incompleteOctalIntLiteral => "IOC" | .invalidIntSuffix => "IIS" | .invalidCharacter => "IC"
  | .invalidHexEscape => "IHE" | .unicodeEscapeMissingBrace => "UMB" | .invalidUnicodeEscapeDigit => "IUD"
  | .unicodeEscapeOutOfRange => "UOR" | .unicodeEscapeInvalidCharValue => "UIV" | .unicodeTextDirInLiteral => "BIDI"
  | .invalidEscapeCode => "IEC"

def showErr (e : LexErr) : String := s!"{errCode e.kind}@{e.start}-{e.stop}"

def kvOf (ts : List String) : List (String × String) :=
  ts.filterMap fun t => match t.splitOn "=" with
    | k :: v :: rest => some (k, "=".intercalate (v :: rest))
    | _ => none

def look (kv : List (String × String)) (k : String) : String := (kv.lookup k).getD ""

def items (s : String) : List String := if s = "-" || s = "" then [] else s.splitOn ","

/-- The `(start, stop)` of `<kind>@<start>-<stop>[=..|+..]`. -/
def spanOf (t : String) : Option (Nat × Nat) :=
  match t.splitOn "@" with
  | [_, r] =>
    let r := ((r.splitOn "=").headD "")
    let r := ((r.splitOn "+").headD "")
    match r.splitOn "-" with
    | [a, b] => match a.toNat?, b.toNat? with
      | some a, some b => some (a, b)
      | _, _ => none
    | _ => none
  | _ => none

def firstDiff : List String → List String → Nat → String
  | [], [], _ => "none"
  | a :: _, [], i => s!"{i}:{a}|<end>"
  | [], b :: _, i => s!"{i}:<end>|{b}"
  | a :: as, b :: bs, i => if a = b then firstDiff as bs (i + 1) else s!"{i}:{a}|{b}"

def sizeClass (n : Nat) : String :=
  if n = 0 then "0" else if n ≤ 8 then "1-8" else if n ≤ 64 then "9-64" else if n ≤ 512 then "65-512"
  else if n ≤ 4096 then "513-4k" else "4k+"

def isBidi (s : String) : Bool := s.startsWith "BIDI@"

/-- The twelve `unicode_bidi::format_chars` code points (hex), as they appear in a transmitted parsed string. -/
def bidiHex : List String := ["61c", "2068", "202a", "2066", "200e", "202d", "202c", "2069", "202b", "2067", "200f", "202e"]

/-- Rejection of text-direction characters is not part of C16: in the comparison a string token's parsed value is
taken without them (the real lexer drops them from `parsed` together with reporting the error). -/
def normTok (t : String) : String :=
  if t.startsWith "s@" then
    match t.splitOn "=" with
    | [h, v] => h ++ "=" ++ ".".intercalate ((v.splitOn ".").filter (fun c => !bidiHex.contains c))
    | _ => t
  else t

def answerLex (chars : String) (post : List String) : String :=
  match parseCCs chars with
  | none => "bad-chars agree=0 prop=0"
  | some text =>
    let kv := kvOf post
    let implLex := look kv "lex"
    let implToks := items (look kv "toks")
    let implErrs := items (look kv "errs")
    let nat (k : String) : Nat := ((look kv k).toNat?).getD 1
    let spans := (implToks ++ implErrs).map spanOf
    let obs : Observed := {
      lexPanic := implLex == "panic", parsePanic := look kv "parse" == "panic",
      hang := implLex == "hang" || look kv "parse" == "hang",
      spans := spans.filterMap id,
      badDiagSpans := nat "badspans" + (spans.filter Option.isNone).length,
      badTokSpans := nat "tokbad", renderPanics := nat "render" }
    let wellFormed := ["ok", "fail", "panic", "hang"].contains implLex && ["ok", "err", "panic", "hang"].contains (look kv "parse")
    let prop := wellFormed && propHolds text obs
    let m := lex text
    let (mLex, mToks, mErrs) : String × List String × List String := match m with
      | .ok t e => ("ok", t.map showTok, e.map showErr)
      | .fail e => ("fail", [], e.map showErr)
      | .panic => ("panic", [], [])
      | .unsupported => ("unsupported", [], [])
    let mErrsNB := mErrs.filter (!isBidi ·)
    let iErrsNB := implErrs.filter (!isBidi ·)
    let bidiSame := mErrs.filter isBidi == implErrs.filter isBidi
    let cmpErrs := mLex != "panic"
    let agree := mLex == implLex && mToks.map normTok == implToks.map normTok && (!cmpErrs || mErrsNB == iErrsNB)
    let diff := if agree then "" else
      if mLex != implLex then s!" diff=outcome:{mLex}|{implLex}"
      else if mToks.map normTok != implToks.map normTok then s!" diff=tok{firstDiff (mToks.map normTok) (implToks.map normTok) 0}"
      else s!" diff=err{firstDiff mErrsNB iErrsNB 0}"
    let mb := text.any (fun x => x.c.toNat ≥ 128)
    s!"{mLex} ntoks={mToks.length} nerrs={mErrs.length} agree={b01 agree} prop={b01 prop} lex={implLex} parse={look kv "parse"} " ++
      s!"src={look kv "src"} size={sizeClass text.length} multibyte={b01 mb} bidi_same={b01 bidiSame} haserrs={b01 (!implErrs.isEmpty)} unsupported={b01 (mLex == "unsupported")} kind=full{diff}"

def answerWhole (post : List String) : String :=
  let kv := kvOf post
  let nat (k : String) : Nat := ((look kv k).toNat?).getD 1
  let implLex := look kv "lex"
  let p := look kv "parse"
  let prop := ["ok", "fail"].contains implLex && ["ok", "err"].contains p && nat "badspans" == 0 && nat "tokbad" == 0 && nat "render" == 0
  s!"rust-only agree=1 prop={b01 prop} lex={implLex} parse={p} src={look kv "src"} size=window+ kind=whole"

/-- `nest <kind> <depth> <stackMiB>`: a generated nested input run in a child process. -/
def answerNest (kind depth : String) (post : List String) : String :=
  let kv := kvOf post
  let p := look kv "parse"
  let bad := ((look kv "badspans").toNat?).getD 1
  let prop := ["ok", "err"].contains p && bad == 0
  s!"rust-only agree=1 prop={b01 prop} parse={p} kind=nest nest={kind}-{depth}-{p}"

def answer (line : String) : String :=
  let (c, i) := splitCase line
  match c with
  | ["lex", chars] => answerLex chars i
  | ["whole", _, _] => answerWhole i
  | ["nest", kind, depth, _] => answerNest kind depth i
  | _ => "bad-op agree=0 prop=0"

def run : IO Unit := do
  lineLoop (← IO.getStdin) (← IO.getStdout) answer

end SwayVerif.Driver.C16

def main : IO Unit := SwayVerif.Driver.C16.run
