import SwayVerif.Model.SwaySem
import SwayVerif.Driver.Util
import SwayVerif.Driver.SwayParse
/-!
Driver for C02. Consumes the case lines of `sv_c01`:
`<kind> <sexp> ;; <class> debug=<obs> release=<obs>` (kind `prog`/`prog-oob`) and `e2e <name> <expected> ;; …`.

`prop` = the debug and the release build have the same observable outcome: same revert/non-revert status and the
same logged payloads in the same order (for `e2e`: the same returned value / data / revert code). Gas, code size
and metadata are not part of the observation. No model is needed for the comparison.
`agree` = additionally the same revert code.
`nobytecode` lines (the compiler produced no bytecode in one of the profiles) are skipped: C02 speaks about the
behaviour of the two builds.

Only to *classify* a difference the reference semantics is consulted:
`why=dyn-oob-garbage` — both builds returned normally and agree on every payload the semantics prescribes before an
out-of-bounds dynamic index (where it prescribes a revert); they differ only in the payload read out of bounds.
`why=release-wrong-aggregate-param` — kinds `prog-aggsel`/`prog-f4` only: the debug build is the prescribed run, the
release build returned as well with payloads of the same sizes but different contents (finding F4).
`why=dead-trap-eliminated` — each build behaves like a run of the semantics in which some trapping instructions
whose results are unused were deleted (`SwaySem.runSkip`), but not the same ones.
-/
namespace SwayVerif.Driver.C02
open SwayVerif.Driver SwayVerif.SwaySem SwayVerif.Driver.SwayParse

/-- `o` is the behaviour of the run of the semantics in which the first `k` unused trapping operations were
deleted (`k = 0`: the prescriptive run); an out-of-bounds dynamic index at the very end may have returned one
garbage payload instead of reverting -/
def explainedBy (p : Prog) (k : Nat) (o : Obs) : Bool :=
  match runSkip p FUEL k with
  | .ok l => !o.reverted && decide (o.logs = l)
  | .revert _ l => o.reverted && decide (o.logs = l)
  | .oob l => (o.reverted && decide (o.logs = l)) ||
      (!o.reverted && decide (o.logs.take l.length = l) && o.logs.length = l.length + 1)
  | _ => false

def classify (kind : String) (rest : List String) (d r : Obs) : String :=
  match parseProg rest with
  | none => "differ"
  | some p =>
    if (kind = "prog-aggsel" || kind = "prog-f4") && explainedBy p 0 d && !d.reverted && !r.reverted &&
       decide (d.logs.length = r.logs.length) then "release-wrong-aggregate-param" else
    if (kind = "prog-selfupd" || kind = "prog-f6") && explainedBy p 0 d && !d.reverted && !r.reverted &&
       decide (d.logs.length = r.logs.length) then "release-stale-self-update" else
    if explainedBy p 0 d && explainedBy p 0 r then
      (match run p FUEL with | .oob _ => "dyn-oob-garbage" | _ => "differ")
    else if (List.range 9).any (explainedBy p · d) && (List.range 9).any (explainedBy p · r) then "dead-trap-eliminated"
    else "differ"

def answerProg (kind : String) (rest : List String) (itoks : List String) : String :=
  match kvLookup "debug" itoks, kvLookup "release" itoks with
  | some ds, some rs =>
    match parseObs? ds, parseObs? rs with
    | some d, some r =>
      let prop := d.reverted == r.reverted && decide (d.logs = r.logs)
      let agree := prop && d.code == r.code
      let st := if d.reverted then "revert" else "ok"
      let why := if prop then "" else s!" why={classify kind rest d r}"
      s!"{st} agree={b01 agree} prop={b01 prop} skip=0 kind={kind} dbg={st} samecode={b01 (d.code == r.code)}{why}"
    | _, _ => s!"nobytecode agree=1 prop=1 skip=1 kind={kind} why=no-bytecode"
  | _, _ => "bad-impl agree=0 prop=1 why=bad-impl"

def answerE2e (itoks : List String) : String :=
  match kvLookup "debug" itoks, kvLookup "release" itoks with
  | some d, some r =>
    if d.startsWith "builderr" || r.startsWith "builderr" then "nobytecode agree=1 prop=1 skip=1 kind=e2e why=no-bytecode"
    else s!"{d} agree={b01 (d = r)} prop={b01 (d = r)} skip=0 kind=e2e"
  | _, _ => "bad-impl agree=0 prop=1 why=bad-impl"

def answer (line : String) : String :=
  match line.splitOn " ;; " with
  | [c, i] =>
    let itoks := tokens i
    match tokenize c with
    | kind :: rest =>
      if kind.startsWith "prog" then answerProg kind rest itoks
      else if kind = "e2e" then answerE2e itoks
      else "bad-case agree=0 prop=1 why=bad-case"
    | _ => "bad-case agree=0 prop=1 why=bad-case"
  | _ => "bad-line agree=0 prop=1 why=bad-line"

def run : IO Unit := do
  lineLoop (← IO.getStdin) (← IO.getStdout) answer

end SwayVerif.Driver.C02

def main : IO Unit := SwayVerif.Driver.C02.run
