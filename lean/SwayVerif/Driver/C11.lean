import SwayVerif.Model.Dispatch
import SwayVerif.Driver.Util
/-!
Driver for C11.

Case: `abi <name-hex,..> fb=<0|1> call <name-hex|-> via=<abi|abi2|raw>` — method names in `contract_fns`
order, whether a `#[fallback]` is declared, the name the call carries.
Implementation result: `table=<names-hex>:<key/len/off/idx,..>:<F|R> ran=<idx|fallback|revert|…>
args_ok=<0|1> ret_ok=<0|1>` — the dispatch table extracted from the generated `__entry` source and what
was observed on the VM.

`agree` = the model's table (`buildTable`) rendered in the same format equals the dumped one AND the
model's `dispatch` target equals what ran. `prop` = `propHolds` on the observation.
-/
namespace SwayVerif.Driver.C11
open SwayVerif.Dispatch SwayVerif.Driver

def showTarget : Target → String
  | .method i => toString i
  | .fallback => "fallback"
  | .revert => "revert"
  | .oob => "oob"

def parseTarget (s : String) : Option Target :=
  if s = "fallback" then some .fallback
  else if s = "revert" then some .revert
  else s.toNat?.map .method

def showTable (t : Table) (fb : Bool) : String :=
  let arms := (flatten t.groups).map fun (k, e) => s!"{k}/{e.len}/{e.off}/{e.idx}"
  let armsS := if arms.isEmpty then "-" else ",".intercalate arms
  s!"{showHexBytes t.names}:{armsS}:{if fb then "F" else "R"}"

def kvOf (key : String) (ts : List String) : Option String :=
  ts.findSome? fun t => if t.startsWith (key ++ "=") then some ((t.drop (key.length + 1)).toString) else none

def parseNames (s : String) : Option (List Method) :=
  (s.splitOn ",").foldr (fun t acc => match acc, hexBytes? t with
    | some l, some b => some (⟨b⟩ :: l)
    | _, _ => none) (some [])

def sumLen (ms : List Method) : Nat := ms.foldl (fun a m => a + m.name.length) 0

def maxGroup (g : Groups) : Nat := g.foldl (fun a p => max a p.2.length) 0

def answer (line : String) : String :=
  let (c, i) := splitCase line
  match c with
  | ["abi", namesS, fbS, "call", callS, viaS] =>
    match parseNames namesS, kvOf "fb" [fbS], hexBytes? callS, kvOf "table" i, kvOf "ran" i,
          kvOf "args_ok" i, kvOf "ret_ok" i with
    | some ms, some fbv, some call, some tableS, some ranS, some aok, some rok =>
      let fb := fbv == "1"
      let t := buildTable ms
      let target := dispatch t fb call
      let modelTable := showTable t fb
      let ranT := parseTarget ranS
      let agree := modelTable == tableS && ranT == some target
      let prop := match ranT with
        | some r => propHolds ms fb call r (aok == "1") (rok == "1")
        | none => ranS == "builderr"   -- contract did not build: no observation, not a violation (agree=0)
      let hit := (indexOfName call ms).isSome
      let shared := decide (t.names.length < sumLen ms)
      s!"{showTarget target} agree={b01 agree} prop={b01 prop} hit={b01 hit} fb={b01 fb} {viaS} " ++
        s!"nmeth={ms.length} shared={b01 shared} maxgroup={maxGroup t.groups} table_ok={b01 (modelTable == tableS)}"
    | _, _, _, _, _, _, _ => "bad-fields agree=0 prop=0"
  | _ => "bad-op agree=0 prop=0"

def run : IO Unit := do
  lineLoop (← IO.getStdin) (← IO.getStdout) answer

end SwayVerif.Driver.C11

def main : IO Unit := SwayVerif.Driver.C11.run
