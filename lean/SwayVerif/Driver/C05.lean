import SwayVerif.Model.IrText
import SwayVerif.Driver.Util
/-!
Driver for C05 (see `harness/src/bin/sv_c05.rs` for the line formats).
  const <top|nested> <const tokens> ;; <hex printed | noprint> <ok <const tokens> | err | verr | verr0 | panic>
  ty <ty tokens> ;; <hex printed> <ok <ty tokens> | err | verr | panic>
  str <hex bytes> ;; <hex printed literal> <ok <hex bytes> | err | panic>
  module <id> <stage> ;; reparse=… verify=… fixpoint=… rawsame=… [diff=…] bytecode=… kind=… lines=…
  pipeline <id> ;; stopped=…      skip <id> ;; …
-/
namespace SwayVerif.Driver.C05
open SwayVerif.IrText SwayVerif.Driver

def natOf? (s : String) : Option Nat := s.toNat?

def afterColon (s : String) : String := ((s.splitOn ":").drop 1 |> String.intercalate ":")

partial def tyOfToks : List String → Option (Ty × List String)
  | [] => none
  | t :: r =>
    let many (k : Nat) (r : List String) : Option (Tys × List String) := Id.run do
      let mut acc : List Ty := []
      let mut rest := r
      for _ in [0:k] do
        match tyOfToks rest with
        | some (t, r') => acc := acc ++ [t]; rest := r'
        | none => return none
      return some (tysOfList acc, rest)
    if t = "never" then some (.never, r) else if t = "unit" then some (.unit, r) else if t = "bool" then some (.bool, r)
    else if t = "b256" then some (.b256, r) else if t = "strslice" then some (.strSlice, r)
    else if t = "slice" then some (.slice, r) else if t = "ptr" then some (.ptr, r)
    else if t.startsWith "uint:" then (natOf? (afterColon t)).map fun n => (.uint n, r)
    else if t.startsWith "strarr:" then (natOf? (afterColon t)).map fun n => (.strArr n, r)
    else if t.startsWith "arr:" then do
      let n ← natOf? (afterColon t); let (e, r') ← tyOfToks r; pure (.arr e n, r')
    else if t.startsWith "union:" then do
      let k ← natOf? (afterColon t); let (ts, r') ← many k r; pure (.union ts, r')
    else if t.startsWith "struct:" then do
      let k ← natOf? (afterColon t); let (ts, r') ← many k r; pure (.struct ts, r')
    else if t = "tptr" then do let (e, r') ← tyOfToks r; pure (.tptr e, r')
    else if t = "tslice" then do let (e, r') ← tyOfToks r; pure (.tslice e, r')
    else none

def consOfList : List Const → Consts
  | [] => .nil
  | c :: cs => .cons c (consOfList cs)

def bytesOfHex? (s : String) : Option (List Nat) := (hexBytes? s).map (·.map (·.toNat))

partial def constOfToks : List String → Option (Const × List String)
  | "C" :: r => do
    let (ty, r) ← tyOfToks r
    match r with
    | [] => none
    | v :: r =>
      let many (k : Nat) (r : List String) : Option (Consts × List String) := Id.run do
        let mut acc : List Const := []
        let mut rest := r
        for _ in [0:k] do
          match constOfToks rest with
          | some (c, r') => acc := acc ++ [c]; rest := r'
          | none => return none
        return some (consOfList acc, rest)
      if v = "undef" then some (.undef ty, r) else if v = "unit" then some (.unit ty, r)
      else if v = "bool:0" then some (.bool ty false, r) else if v = "bool:1" then some (.bool ty true, r)
      else if v.startsWith "uint:" then (natOf? (afterColon v)).map fun n => (.uint ty n, r)
      else if v.startsWith "u256:" then (parseHex? (afterColon v)).map fun n => (.u256 ty n, r)
      else if v.startsWith "b256:" then (parseHex? (afterColon v)).map fun n => (.b256 ty n, r)
      else if v.startsWith "str:" then (bytesOfHex? (afterColon v)).map fun b => (.str ty b, r)
      else if v.startsWith "raw:" then (bytesOfHex? (afterColon v)).map fun b => (.raw ty b, r)
      else if v.startsWith "arr:" then do let k ← natOf? (afterColon v); let (es, r') ← many k r; pure (.arr ty es, r')
      else if v.startsWith "slice:" then do let k ← natOf? (afterColon v); let (es, r') ← many k r; pure (.slice ty es, r')
      else if v.startsWith "struct:" then do let k ← natOf? (afterColon v); let (es, r') ← many k r; pure (.struct ty es, r')
      else if v = "ref" then do let (c, r') ← constOfToks r; pure (.ref ty c, r')
      else none
  | _ => none

def pad64 (n : Nat) : String :=
  let d := Nat.toDigits 16 n
  String.ofList (List.replicate (64 - d.length) '0' ++ d)

def hexOfBytes (bs : List Nat) : String :=
  if bs.isEmpty then "-" else
  String.ofList (bs.foldr (fun b acc =>
    let d := Nat.toDigits 16 b
    (if d.length < 2 then '0' :: d else d) ++ acc) [])

mutual
partial def toksOfTy : Ty → List String
  | .never => ["never"] | .unit => ["unit"] | .bool => ["bool"] | .uint n => [s!"uint:{n}"] | .b256 => ["b256"]
  | .strSlice => ["strslice"] | .strArr n => [s!"strarr:{n}"] | .slice => ["slice"] | .ptr => ["ptr"]
  | .arr t n => s!"arr:{n}" :: toksOfTy t
  | .union ts => let l := toksOfTys ts; s!"union:{l.1}" :: l.2
  | .struct ts => let l := toksOfTys ts; s!"struct:{l.1}" :: l.2
  | .tptr t => "tptr" :: toksOfTy t
  | .tslice t => "tslice" :: toksOfTy t
partial def toksOfTys : Tys → Nat × List String
  | .nil => (0, [])
  | .cons t ts => let r := toksOfTys ts; (r.1 + 1, toksOfTy t ++ r.2)
end

mutual
partial def toksOfConst : Const → List String
  | .undef t => "C" :: toksOfTy t ++ ["undef"]
  | .unit t => "C" :: toksOfTy t ++ ["unit"]
  | .bool t b => "C" :: toksOfTy t ++ [if b then "bool:1" else "bool:0"]
  | .uint t n => "C" :: toksOfTy t ++ [s!"uint:{n}"]
  | .u256 t n => "C" :: toksOfTy t ++ [s!"u256:{pad64 n}"]
  | .b256 t n => "C" :: toksOfTy t ++ [s!"b256:{pad64 n}"]
  | .str t b => "C" :: toksOfTy t ++ [s!"str:{hexOfBytes b}"]
  | .raw t b => "C" :: toksOfTy t ++ [s!"raw:{hexOfBytes b}"]
  | .arr t es => let l := toksOfConsts es; "C" :: toksOfTy t ++ s!"arr:{l.1}" :: l.2
  | .slice t es => let l := toksOfConsts es; "C" :: toksOfTy t ++ s!"slice:{l.1}" :: l.2
  | .struct t es => let l := toksOfConsts es; "C" :: toksOfTy t ++ s!"struct:{l.1}" :: l.2
  | .ref t c => "C" :: toksOfTy t ++ "ref" :: toksOfConst c
partial def toksOfConsts : Consts → Nat × List String
  | .nil => (0, [])
  | .cons c cs => let r := toksOfConsts cs; (r.1 + 1, toksOfConst c ++ r.2)
end

def charsOfHex? (s : String) : Option (List Char) := (hexBytes? s).map (·.map fun b => Char.ofNat b.toNat)

def showPR {α : Type} (f : α → String) : PR α → String
  | .ok a => "ok " ++ f a
  | .err => "err"
  | .panic => "panic"

def kvOf (ts : List String) (k : String) : String :=
  match ts.find? (·.startsWith (k ++ "=")) with
  | some t => (t.drop (k.length + 1)).toString
  | none => ""

def answer (line : String) : String :=
  let (c, i) := splitCase line
  match c with
  | "const" :: pos :: toks =>
    match constOfToks toks, i with
    | some (cn, []), printed :: res =>
      let top := pos = "top"
      let mprint := printConst cn
      let printAgree := match charsOfHex? printed with | some p => p == mprint | none => false
      let mparse := if top then parseConstTop mprint else parseConst mprint
      let mres := showPR (fun c => " ".intercalate (toksOfConst c)) mparse
      let ires := " ".intercalate res
      -- `verr`: the real `parse` ran the verifier on the wrapper module and it rejected the constant's
      -- shape (the kernel model stops before verification): comparable only as "the text parsed".
      -- `verr0`: the module built by the harness was not valid IR to begin with (random shape the verifier
      -- rejects): only "the text parsed" is comparable. `verr`: the original verified, the re-parsed module
      -- does not — the real parser produced a DIFFERENT constant (the kernel model stops before verification,
      -- so this can only be compared as a failure of the round trip).
      let verrAny := ires = "verr" || ires = "verr0"
      let parseAgree := if verrAny then (match mparse with | .ok _ => true | _ => false) else mres == ires
      let impl : PR Const := match res with
        | "ok" :: r => (match constOfToks r with | some (c', []) => .ok c' | _ => .err)
        | ["panic"] => .panic
        | _ => .err
      let dom := if top then printableTop cn else printable cn
      let prop := if ires = "verr0" then true else propConst top cn impl
      s!"{mres} agree={b01 (printAgree && parseAgree)} prop={b01 prop} printable={b01 dom} pos={pos} res={res.headD "?"} pa={b01 printAgree}"
    | _, _ => "bad-const agree=0 prop=0"
  | "ty" :: toks =>
    match tyOfToks toks, i with
    | some (t, []), printed :: res =>
      let mprint := printTy t
      let printAgree := match charsOfHex? printed with | some p => p == mprint | none => false
      let mparse := parseTy mprint
      let mres := showPR (fun t => " ".intercalate (toksOfTy t)) mparse
      let ires := " ".intercalate res
      let ok := tyOk t
      let prop := if ok then ires == "ok " ++ " ".intercalate (toksOfTy t) else true
      s!"{mres} agree={b01 (printAgree && mres == ires)} prop={b01 prop} tyok={b01 ok} res={res.headD "?"} pa={b01 printAgree}"
    | _, _ => "bad-ty agree=0 prop=0"
  | ["str", hx] =>
    match bytesOfHex? hx, i with
    | some bs, printed :: res =>
      let mprint := '"' :: escape bs ++ ['"']
      let printAgree := match charsOfHex? printed with | some p => p == mprint | none => false
      let mres := match unescape (escape bs) with | some b => "ok " ++ hexOfBytes b | none => "err"
      let ires := " ".intercalate res
      s!"{mres} agree={b01 (printAgree && mres == ires)} prop={b01 (ires == "ok " ++ hexOfBytes bs)} len={bs.length} pa={b01 printAgree}"
    | _, _ => "bad-str agree=0 prop=0"
  | "module" :: _ =>
    let rp := kvOf i "reparse" = "ok"
    let vf := kvOf i "verify" = "ok"
    let fx := kvOf i "fixpoint" = "1"
    let raw := kvOf i "rawsame" = "1"
    let bc := kvOf i "bytecode"
    let bcOk := bc = "same" || bc = "n/a" || bc = "diff_vmsame"
    let prop := propModule rp vf fx bcOk raw
    let why := if !rp then "reparse" else if !vf then "verify" else if !fx then "fixpoint" else if !bcOk then "bytecode"
               else if !raw then "value-numbering" else "-"
    let kind := kvOf i "kind"
    s!"validated agree=1 prop={b01 prop} why={why} kind={kind} bc={(bc.splitOn ":").headD ""}"
  | "pipeline" :: _ => s!"info agree=1 prop=1 why=- stopped={kvOf i "stopped"}"
  | "skip" :: _ => "info agree=1 prop=1 why=- skip=1"
  | _ => "bad-op agree=0 prop=0"

def run : IO Unit := do
  lineLoop (← IO.getStdin) (← IO.getStdout) answer

end SwayVerif.Driver.C05

def main : IO Unit := SwayVerif.Driver.C05.run
