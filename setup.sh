#!/bin/bash
# Build the framework offline from files on disk: Lean theorem modules + drivers of every claimed
# property, and the Rust harness (hooks feature on). Each check rebuilds what it needs anyway; this
# only warms the caches, so a failure here is reported but does not stop the rest.
cd "$(dirname "$0")"
export CARGO_NET_OFFLINE=true
rc=0
ids=$(python3 -c "import json;print(' '.join(c['property_id'] for c in json.load(open('MANIFEST.json'))['checks']))")
( cd harness && cargo build --offline --bins --keep-going 2>&1 | tail -3 ) || rc=1
for id in $ids; do
  lid=$(echo $id | tr 'A-Z' 'a-z')
  ( cd lean && lake build SwayVerif.Props.$id svdriver_$lid 2>&1 | tail -2 ) || rc=1
done
echo "setup done rc=$rc"
exit 0
