import SwayVerif.Props.C27
namespace SwayVerif.C27
open SwayVerif.Word SwayVerif.StdNum SwayVerif.StdVec SwayVerif.StdSpec

/-- `U128 % U128` on the single-limb path. -/
theorem u128_mod_spec_partial (a b : U128) (ha : a.wf) (hb : b.wf) :
    (b.toNat = 0 → U128.mod {} a b = .revert StdNum.FAILED_ASSERT) ∧
    (b.toNat ≠ 0 → a.upper = 0 → b.upper = 0 → U128.mod {} a b = .ok (U128.ofNat (a.toNat % b.toNat))) := by
  constructor
  · intro h
    have hz : U128.eq b U128.zero = true := by
      obtain ⟨bu, bl⟩ := b
      simp only [U128.wf] at hb
      simp only [U128.toNat] at h
      have h1 : bu = 0 := by
        by_contra hc
        have : W64 ≤ bu * W64 := Nat.le_mul_of_pos_left _ (Nat.pos_of_ne_zero hc)
        omega
      have h2 : bl = 0 := by subst h1; omega
      subst h1; subst h2
      simp [U128.eq, U128.zero]
    simp [U128.mod, hz, StdNum.assert]
  · intro h hau hbu
    have hd := (u128_div_spec_partial a b ha hb).2 h hau hbu
    have hnz : U128.eq b U128.zero = false := by
      obtain ⟨bu, bl⟩ := b
      simp only at hbu; subst hbu
      simp only [U128.toNat, Nat.zero_mul, Nat.zero_add] at h
      simp [U128.eq, U128.zero, h]
    have hlt := U128.toNat_lt a ha
    have hq : a.toNat / b.toNat < 2 ^ 128 := lt_of_le_of_lt (Nat.div_le_self _ _) hlt
    have hqb : a.toNat / b.toNat * b.toNat ≤ a.toNat := Nat.div_mul_le_self _ _
    have hm := (U128.mul_dflt (U128.ofNat (a.toNat / b.toNat)) b (U128.ofNat_wf _) hb).1
      (by rw [U128.toNat_ofNat _ hq]; omega)
    rw [U128.toNat_ofNat _ hq] at hm
    have hs := U128.sub_dflt a (U128.ofNat (a.toNat / b.toNat * b.toNat)) ha (U128.ofNat_wf _)
    rw [U128.toNat_ofNat _ (by omega), if_pos hqb] at hs
    have hmod : a.toNat - a.toNat / b.toNat * b.toNat = a.toNat % b.toNat := by
      have := Nat.div_add_mod a.toNat b.toNat
      rw [Nat.mul_comm] at this; omega
    rw [hmod] at hs
    simp [U128.mod, hnz, StdNum.assert, hd, hm, hs]
end SwayVerif.C27
