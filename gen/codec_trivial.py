#!/usr/bin/env python3
"""Translator for C09/C10: re-extracts, from /repo's working tree, every decision the Sway code makes about
"is this type trivially encodable / decodable" and the validity checks of the decoders:

  * every `impl AbiEncode/AbiDecode for T { fn is_*_trivial() -> bool { BODY } }` in
      sway-lib-std/src/{codec,vec,bytes,string}.sw     (BODY: literal, `is_*_trivial::<T>()`, or
      `[__runtime_mem_id::<Self>() == __encoding_mem_id::<Self>()] && is_*_trivial::<P>() && …`)
  * the format strings / loops of the auto-impl generator for structs and enums in
      sway-core/src/semantic_analysis/ast_node/declaration/auto_impl/abi_encoding.rs
  * whether `encode`, `abi_decode` (codec.sw) and `Vec<T>::abi_encode/abi_decode` (vec.sw) take the raw-memory
    fast path under the triviality test
  * the validity checks of `bool::abi_decode` (codec.sw) and of the generated enum decoder (abi_encoding.rs)
  * the defaults of `new_encoding` / `str_array_no_padding` in sway-features/src/lib.rs

into lean/SwayVerif/Generated/CodecTrivial.lean as DATA. It is a pattern matcher over source text that knows the
exact shapes present today. FAIL CLOSED: a body it does not recognise becomes `Body.unknown`, which the model
evaluates to `true` (worst case: "trivial") and for which the table lemma `tables_wellformed` in Lemmas/Ty.lean
fails, so Props/C10.lean stops compiling; an `impl` for a type it does not know lands in `extraImpls`, which the
same lemma requires to be empty.

Usable standalone (`python3 gen/codec_trivial.py [repo_root]`) and as a `gen=[…]` step of a check SPEC.
"""
import hashlib
import os
import re
import sys

VERIF = os.path.dirname(os.path.dirname(os.path.abspath(__file__)))
OUT = os.path.join(VERIF, "lean/SwayVerif/Generated/CodecTrivial.lean")

CODEC_SW = "sway-lib-std/src/codec.sw"
VEC_SW = "sway-lib-std/src/vec.sw"
BYTES_SW = "sway-lib-std/src/bytes.sw"
STRING_SW = "sway-lib-std/src/string.sw"
ABI_ENCODING_RS = "sway-core/src/semantic_analysis/ast_node/declaration/auto_impl/abi_encoding.rs"
FEATURES_RS = "sway-features/src/lib.rs"

MAX_TUPLE = 26


# ----------------------------------------------------------------------------- tiny source-text helpers

def strip_comments(src):
    """Remove // and /* */ comments, keep string literals intact."""
    out, i, n = [], 0, len(src)
    while i < n:
        c = src[i]
        if c == '"':
            j = i + 1
            while j < n and src[j] != '"':
                j += 2 if src[j] == '\\' else 1
            out.append(src[i:j + 1])
            i = j + 1
        elif src.startswith("//", i):
            j = src.find("\n", i)
            i = n if j < 0 else j
        elif src.startswith("/*", i):
            j = src.find("*/", i + 2)
            i = n if j < 0 else j + 2
        else:
            out.append(c)
            i += 1
    return "".join(out)


def match_brace(src, i):
    """src[i] == '{' -> index just past the matching '}' (string literals skipped)."""
    assert src[i] == "{", src[i:i + 20]
    depth, n = 0, len(src)
    while i < n:
        c = src[i]
        if c == '"':
            i += 1
            while i < n and src[i] != '"':
                i += 2 if src[i] == '\\' else 1
        elif c == "{":
            depth += 1
        elif c == "}":
            depth -= 1
            if depth == 0:
                return i + 1
        i += 1
    raise ValueError("unbalanced braces")


def norm(s):
    return re.sub(r"\s+", " ", s).strip()


def fn_body(block, name):
    """Body text (between the outer braces) of `fn name(...) ... { ... }` inside `block`, or None."""
    m = re.search(r"\bfn\s+%s\b[^{;]*\{" % re.escape(name), block)
    if not m:
        return None
    j = m.end() - 1
    return block[j + 1:match_brace(block, j) - 1]


def impls(src, trait):
    """[(cfg or None, generics list, type text, impl block text)] for every `impl<..> trait for T .. {..}`."""
    res = []
    for m in re.finditer(r"(#\[cfg\(([^\]]*)\)\]\s*)?impl\s*(<[^>{]*>)?\s*%s\s+for\s+" % trait, src):
        k = m.end()
        b = src.find("{", k)
        head = src[k:b]
        ty = norm(head.split(" where")[0].split("\nwhere")[0])
        ty = norm(re.split(r"\bwhere\b", head)[0])
        gen = [norm(g) for g in (m.group(3) or "<>")[1:-1].split(",") if norm(g)]
        res.append((norm(m.group(2)) if m.group(2) else None, gen, ty, src[b:match_brace(src, b)]))
    return res


# ----------------------------------------------------------------------------- is_*_trivial bodies

def lean_list(xs):
    return "[" + ", ".join(xs) + "]"


def parse_body(body, which, params):
    """-> Lean term of type Body. `which` = 'encode' | 'decode'; params = type parameter names in order."""
    if body is None:
        return ".unknown"
    b = norm(body)
    if b in ("true", "false"):
        return ".lit %s" % b
    call = r"is_%s_trivial::<\s*([A-Za-z_][A-Za-z0-9_]*)\s*>\(\)" % which
    m = re.fullmatch(call, b)
    if m and m.group(1) in params:
        return ".param %d" % params.index(m.group(1))
    # let r = [memid]; let r = r && is_x_trivial::<P>(); ... r
    stmts = [norm(s) for s in b.split(";")]
    if len(stmts) >= 2 and stmts[-1] == "r":
        stmts = stmts[:-1]
        memid, idxs, ok = False, [], True
        for k, s in enumerate(stmts):
            if k == 0 and s == "let r = __runtime_mem_id::<Self>() == __encoding_mem_id::<Self>()":
                memid = True
                continue
            mm = re.fullmatch(r"let r = r && " + call, s)
            if k == 0:
                mm = mm or None
                m0 = re.fullmatch(r"let r = " + call, s)
                if m0 and m0.group(1) in params:
                    idxs.append(params.index(m0.group(1)))
                    continue
            if mm and mm.group(1) in params:
                idxs.append(params.index(mm.group(1)))
            else:
                ok = False
        if ok:
            return ".conj %s %s" % ("true" if memid else "false", lean_list(map(str, idxs)))
    return ".unknown"


def generic_names(gen):
    """['T', 'const N: u64'] -> type parameter names (const generics excluded)."""
    return [g for g in gen if not g.startswith("const ")]


def classify(ty, gen):
    """impl target type text -> key"""
    params = generic_names(gen)
    simple = {"bool": "bool", "b256": "b256", "u256": "u256", "u64": "u64", "u32": "u32", "u16": "u16", "u8": "u8",
              "str": "strSlice", "raw_slice": "rawSlice", "()": "unit", "Bytes": "bytes", "String": "string",
              "TrivialBool": "trivialBool"}
    if ty in simple and not params:
        return simple[ty]
    if ty == "str[N]" and not params:
        return "strArray"
    if ty == "[T; N]" and params == ["T"]:
        return "array"
    if ty == "Vec<T>" and params == ["T"]:
        return "vec"
    if ty == "TrivialEnum<T>" and params == ["T"]:
        return "trivialEnum"
    m = re.fullmatch(r"\(([A-Z](?:\s*,\s*[A-Z])*)\s*,?\s*\)", ty)
    if m:
        names = [norm(x) for x in m.group(1).split(",")]
        if names == params:
            return "tuple%d" % len(names)
    return None


def scan_impls(repo, unknown_notes):
    table = {}      # (which, key) -> Lean Body term ; strArray keyed with the cfg value
    extra = []
    std = os.path.join(repo, "sway-lib-std/src")
    rels = sorted(os.path.relpath(os.path.join(d, f), repo) for d, _, fs in os.walk(std) for f in fs if f.endswith(".sw"))
    for rel in rels:
        raw = open(os.path.join(repo, rel), encoding="utf8").read()
        if "AbiEncode for" not in raw and "AbiDecode for" not in raw:
            continue
        src = strip_comments(raw)
        for which, trait in (("encode", "AbiEncode"), ("decode", "AbiDecode")):
            for cfg, gen, ty, block in impls(src, trait):
                key = classify(ty, gen)
                body = parse_body(fn_body(block, "is_%s_trivial" % which), which, generic_names(gen))
                if key is None:
                    extra.append('("%s:%s for %s", %s)' % (os.path.basename(rel), trait, ty.replace('"', "'"), body))
                    continue
                if key == "strArray":
                    mm = re.fullmatch(r"experimental_str_array_no_padding\s*=\s*(true|false)", cfg or "")
                    if not mm:
                        extra.append('("%s:%s for %s cfg=%s", %s)' % (os.path.basename(rel), trait, ty, cfg, body))
                        continue
                    key = "strArray_%s" % mm.group(1)
                elif cfg is not None:
                    extra.append('("%s:%s for %s cfg=%s", %s)' % (os.path.basename(rel), trait, ty, cfg, body))
                    continue
                if (which, key) in table:
                    extra.append('("%s:duplicate %s for %s", %s)' % (os.path.basename(rel), trait, ty, body))
                    continue
                table[(which, key)] = body
                if body == ".unknown":
                    unknown_notes.append("%s: is_%s_trivial of `%s`" % (rel, which, ty))
    return table, extra


# ----------------------------------------------------------------------------- fast paths and validity checks

def scan_fastpaths(repo):
    codec = strip_comments(open(os.path.join(repo, CODEC_SW), encoding="utf8").read())
    vec = strip_comments(open(os.path.join(repo, VEC_SW), encoding="utf8").read())
    res = {}
    # pub fn encode<T>(item: T) -> raw_slice
    b = norm(fn_body(codec, "encode") or "")
    res["encodeFastPath"] = bool(re.fullmatch(
        r"const IS_TRIVIAL: bool = is_encode_trivial::<T>\(\); if IS_TRIVIAL \{ let size = __size_of::<T>\(\); "
        r"let ptr = asm\(size: size, src: &item\) \{ aloc size; mcp hp src size; hp: raw_ptr \}; "
        r"__transmute::<\(raw_ptr, u64\), raw_slice>\(\(ptr, size\)\) \} else \{ "
        r"let buffer = item\.abi_encode\(Buffer::new\(\)\); buffer\.as_raw_slice\(\) \}", b))
    res["encodeSlowOnly"] = bool(re.fullmatch(
        r"let buffer = item\.abi_encode\(Buffer::new\(\)\); buffer\.as_raw_slice\(\)", b))
    b = norm(fn_body(codec, "abi_decode") or "")   # first `fn abi_decode` in the file is the free function? no: trait fns come later
    m = re.search(r"pub fn abi_decode<T>\(data: raw_slice\) -> T[^{]*\{", codec)
    b = norm(codec[m.end():match_brace(codec, m.end() - 1) - 1]) if m else ""
    res["decodeFastPath"] = bool(re.fullmatch(
        r"if is_decode_trivial::<T>\(\) \{ let size = __size_of::<T>\(\); "
        r"let item: &T = asm\(size: size, src: data\.ptr\(\)\) \{ aloc size; mcp hp src size; hp: &T \}; \*item \} else \{ "
        r"let mut buffer = BufferReader::from_parts\(data\.ptr\(\), data\.number_of_bytes\(\)\); T::abi_decode\(buffer\) \}", b))
    res["decodeSlowOnly"] = bool(re.fullmatch(
        r"let mut buffer = BufferReader::from_parts\(data\.ptr\(\), data\.number_of_bytes\(\)\); T::abi_decode\(buffer\)", b))
    # Vec<T>
    venc = vdec = ""
    for cfg, gen, ty, block in impls(vec, "AbiEncode"):
        if ty == "Vec<T>":
            venc = norm(fn_body(block, "abi_encode") or "")
    for cfg, gen, ty, block in impls(vec, "AbiDecode"):
        if ty == "Vec<T>":
            vdec = norm(fn_body(block, "abi_decode") or "")
    res["vecEncElemFastPath"] = bool(re.match(
        r"const IS_ELEM_TRIVIAL = is_encode_trivial::<T>\(\); if IS_ELEM_TRIVIAL \{ let buffer = self\.len\.abi_encode\(buffer\); "
        r"buffer\.append_raw\(\(self\.buf\.ptr, self\.len \* __size_of::<T>\(\)\)\) \} else \{", venc))
    res["vecEncElemSlowOnly"] = "IS_ELEM_TRIVIAL" not in venc and "append_raw" not in venc and "item.abi_encode(buffer)" in venc
    res["vecDecElemFastPath"] = bool(re.match(
        r"let len = u64::abi_decode\(buffer\); const IS_ELEM_TRIVIAL = is_decode_trivial::<T>\(\); if IS_ELEM_TRIVIAL \{ "
        r"let len_in_bytes = len \* __size_of::<T>\(\); let slice = buffer\.read_bytes\(len_in_bytes\);", vdec))
    res["vecDecElemSlowOnly"] = "IS_ELEM_TRIVIAL" not in vdec and "read_bytes" not in vdec and "T::abi_decode(buffer)" in vdec
    # bool decoder
    bdec = ""
    for cfg, gen, ty, block in impls(codec, "AbiDecode"):
        if ty == "bool":
            bdec = norm(fn_body(block, "abi_decode") or "")
    if re.fullmatch(r"match buffer\.read::<u8>\(\) \{ 0 => false, 1 => true, _ => __revert\(\d+\),? \}", bdec):
        res["boolDecode"] = ".strict"
    elif re.fullmatch(r"match buffer\.read::<u8>\(\) \{ 0 => false, _ => true,? \}", bdec) or \
            re.fullmatch(r"buffer\.read::<u8>\(\) != 0(u8)?", bdec):
        res["boolDecode"] = ".nonzeroIsTrue"
    elif re.fullmatch(r"buffer\.read::<bool>\(\)", bdec):
        res["boolDecode"] = ".raw"
    else:
        res["boolDecode"] = ".unknown"
    return res


def scan_autoimpl(repo, unknown_notes):
    src = strip_comments(open(os.path.join(repo, ABI_ENCODING_RS), encoding="utf8").read())
    res = {}
    MEMID = '"__runtime_mem_id::<Self>() == __encoding_mem_id::<Self>()".to_string()'

    def conj(fn_text, which, iter_re, decl):
        """the `let mut is_x_trivial = MEMID; for t in <iter> { push " && "; push is_x_trivial::<{}>() }` shape"""
        var = "is_%s_trivial" % which
        pat = (r"let (\w+) = %s; let mut %s = (.*?); for (\w+) in \1 \{ %s\.push_str\(\" && \"\); "
               r"%s\.push_str\(&format!\(\"is_%s_trivial::<\{\}>\(\)\", \3\)\); \}" % (iter_re, var, var, var, which))
        m = re.search(pat, fn_text)
        if not m:
            return None
        init = m.group(2)
        if init == MEMID:
            memid = "true"
        elif init in ('"true".to_string()', 'String::from("true")'):
            memid = "false"
        else:
            return None
        # and the string must be what is handed to the code template
        call = r"self\.generate_abi_%s_code\( %s\.name\(\), &%s\.generic_parameters, \w+\??, &%s,? \)" % (which, decl, decl, var)
        if not re.search(call, fn_text):
            return None
        return ".allFields %s" % memid

    def lit_arg(fn_text, which, decl):
        m = re.search(r"self\.generate_abi_%s_code\( %s\.name\(\), &%s\.generic_parameters, \w+\??, \"(true|false)\",? \)" % (which, decl, decl), fn_text)
        return ".lit %s" % m.group(1) if m else None

    st = norm(fn_body(src, "auto_impl_abi_encode_and_decode_for_struct") or "")
    en = norm(fn_body(src, "auto_impl_abi_encode_and_decode_for_enum") or "")
    s_iter = r"struct_decl \.fields \.iter\(\) \.map\(\|x\| Self::generate_type\(engines, &x\.type_argument\)\)"
    e_iter = r"enum_decl \.variants \.iter\(\) \.map\(\|x\| Self::generate_type\(engines, &x\.type_argument\)\)"
    for name, text, it, decl in (("struct", st, s_iter, "struct_decl"), ("enum", en, e_iter, "enum_decl")):
        for which in ("encode", "decode"):
            v = conj(text, which, it, decl) or lit_arg(text, which, decl)
            if v is None:
                unknown_notes.append("%s: is_%s_trivial string of the %s auto-impl" % (ABI_ENCODING_RS, which, name))
                v = ".unknown"
            res[(which, name)] = v
    # the templates must splice the string in as the whole body
    enc_t = norm(fn_body(src, "generate_abi_encode_code") or "")
    dec_t = norm(fn_body(src, "generate_abi_decode_code") or "")
    res["templateOk"] = ("fn is_encode_trivial() -> bool {{ {is_trivial_body} }}" in enc_t and
                         "fn is_decode_trivial() -> bool {{ {is_trivial_body} }}" in dec_t and
                         "is_trivial_body: &str" in norm(src))
    # generated decoders
    eb = norm(fn_body(src, "generate_abi_decode_enum_body") or "")
    res["enumDecodeRejectsUnknownTag"] = ('"let variant: u64 = buffer.decode::<u64>();"' in eb and
                                          bool(re.search(r'"match variant \{\{ \{arms\} _ => __revert\(\d+\), \}\}"', eb)) and
                                          '"{} => {}::{}, \\n", x.tag, enum_name, name' in eb and
                                          '{tag_value} => {enum_name}::{variant_name}(buffer.decode::<{variant_type}>()), \\n' in eb)
    sb = norm(fn_body(src, "generate_abi_decode_struct_body") or "")
    res["structDecodeAllFields"] = ("for f in decl.fields.iter() {" in sb and
                                    '"{field_name}: buffer.decode::<{field_type_name}>(),"' in sb)
    se = norm(fn_body(src, "generate_abi_encode_struct_body") or "")
    res["structEncodeAllFields"] = ("for f in decl.fields.iter() {" in se and
                                    '"let buffer = self.{field_name}.abi_encode(buffer);\\n"' in se)
    ee = norm(fn_body(src, "generate_abi_encode_enum_body") or "")
    res["enumEncodeTagThenPayload"] = ("{tag_value}u64.abi_encode(buffer)" in ee and
                                       "let buffer = {tag_value}u64.abi_encode(buffer); let buffer = value.abi_encode(buffer); buffer" in ee and
                                       "tag_value = x.tag" in ee)
    return res


def scan_features(repo):
    src = strip_comments(open(os.path.join(repo, FEATURES_RS), encoding="utf8").read())
    res = {}
    for f in ("new_encoding", "str_array_no_padding"):
        m = re.search(r"\b%s\s*=\s*(true|false)\s*," % f, src)
        res[f] = m.group(1) if m else None
    return res


# ----------------------------------------------------------------------------- output

LEAVES = ["bool", "b256", "u256", "u64", "u32", "u16", "u8", "strSlice", "rawSlice", "unit", "bytes", "string",
          "trivialBool", "vec", "array", "trivialEnum"]


def b(x):
    return "true" if x else "false"


def generate(repo):
    notes = []
    table, extra = scan_impls(repo, notes)
    fast = scan_fastpaths(repo)
    auto = scan_autoimpl(repo, notes)
    feat = scan_features(repo)
    lines = []

    def get(which, key):
        v = table.get((which, key))
        if v is None:
            notes.append("missing impl: is_%s_trivial for %s" % (which, key))
            return ".unknown"
        return v

    for which, pre in (("encode", "enc"), ("decode", "dec")):
        lines.append("-- is_%s_trivial bodies" % which)
        for key in LEAVES:
            lines.append("def %s_%s : Body := %s" % (pre, key, get(which, key)))
        lines.append("def %s_strArray (noPadding : Bool) : Body := if noPadding then %s else %s" % (
            pre, get(which, "strArray_true"), get(which, "strArray_false")))
        tup = [get(which, "tuple%d" % k) for k in range(1, MAX_TUPLE + 1) if (which, "tuple%d" % k) in table]
        n_t = len(tup)
        if any((which, "tuple%d" % k) not in table for k in range(1, n_t + 1)):
            notes.append("tuple impls of is_%s_trivial are not contiguous from arity 1" % which)
            tup = [".unknown"]
        lines.append("/-- entry k is the body of the impl for tuples of arity k+1 -/")
        lines.append("def %s_tuple : List Body := %s" % (pre, lean_list(tup)))
        lines.append("def %s_struct : Body := %s   -- auto-impl (abi_encoding.rs)" % (pre, auto[(which, "struct")]))
        lines.append("def %s_enum : Body := %s   -- auto-impl (abi_encoding.rs)" % (pre, auto[(which, "enum")]))
        lines.append("")
    if not auto["templateOk"]:
        notes.append("auto-impl code template no longer splices `is_trivial_body` as the whole function body")
    feats_ok = feat["new_encoding"] is not None and feat["str_array_no_padding"] is not None
    if not feats_ok:
        notes.append("feature defaults not found in %s" % FEATURES_RS)
    text = """/-! GENERATED by gen/codec_trivial.py from /repo's working tree — do not edit.
sources: %s, %s, %s, %s, %s, %s
-/
namespace SwayVerif.Generated.CodecTrivial

/-- Shape of an `is_encode_trivial` / `is_decode_trivial` body. -/
inductive Body where
  /-- literal `true` / `false` -/
  | lit (b : Bool)
  /-- `is_x_trivial::<P>()` for the impl's k-th type parameter -/
  | param (k : Nat)
  /-- `[__runtime_mem_id::<Self>() == __encoding_mem_id::<Self>()] && is_x_trivial::<P_i>() && …` (indices of
      the impl's type parameters, in source order) -/
  | conj (memId : Bool) (idxs : List Nat)
  /-- auto-impl generator: `[mem-id test] &&` one conjunct per field / variant type, in declaration order -/
  | allFields (memId : Bool)
  /-- unrecognised shape (fail closed: evaluated as `true`, no lemma applies) -/
  | unknown
deriving DecidableEq, Repr

/-- Validity check of `impl AbiDecode for bool`. -/
inductive BoolDecode where
  | strict          -- 0 => false, 1 => true, _ => revert
  | nonzeroIsTrue   -- no check: any non-zero byte is `true`
  | raw             -- no check: the byte is transmuted
  | unknown
deriving DecidableEq, Repr

%s
/-- impls for types the translator does not know (must be empty) -/
def extraImpls : List (String × Body) := %s

/-- the auto-impl templates splice the string as the whole body of `is_*_trivial` -/
def autoImplTemplateOk : Bool := %s

-- fast paths (codec.sw `encode` / `abi_decode`, vec.sw `Vec<T>::abi_encode/abi_decode`)
def encodeFastPath : Bool := %s
def encodeShapeKnown : Bool := %s
def decodeFastPath : Bool := %s
def decodeShapeKnown : Bool := %s
def vecEncElemFastPath : Bool := %s
def vecEncShapeKnown : Bool := %s
def vecDecElemFastPath : Bool := %s
def vecDecShapeKnown : Bool := %s

-- validity checks of the decoders
def boolDecode : BoolDecode := %s
def enumDecodeRejectsUnknownTag : Bool := %s
def structDecodeAllFields : Bool := %s
def structEncodeAllFields : Bool := %s
def enumEncodeTagThenPayload : Bool := %s

-- sway-features defaults
def newEncoding : Bool := %s
def strArrayNoPadding : Bool := %s
def featuresKnown : Bool := %s

end SwayVerif.Generated.CodecTrivial
""" % (CODEC_SW, VEC_SW, BYTES_SW, STRING_SW, ABI_ENCODING_RS, FEATURES_RS,
       "\n".join(lines), lean_list(extra), b(auto["templateOk"]),
       b(fast["encodeFastPath"]), b(fast["encodeFastPath"] or fast["encodeSlowOnly"]),
       b(fast["decodeFastPath"]), b(fast["decodeFastPath"] or fast["decodeSlowOnly"]),
       b(fast["vecEncElemFastPath"]), b(fast["vecEncElemFastPath"] or fast["vecEncElemSlowOnly"]),
       b(fast["vecDecElemFastPath"]), b(fast["vecDecElemFastPath"] or fast["vecDecElemSlowOnly"]),
       fast["boolDecode"], b(auto["enumDecodeRejectsUnknownTag"]), b(auto["structDecodeAllFields"]),
       b(auto["structEncodeAllFields"]), b(auto["enumEncodeTagThenPayload"]),
       feat["new_encoding"] or "false", feat["str_array_no_padding"] or "false", b(feats_ok))
    stats = dict(impls=len(table), extra=len(extra), unknown=text.count(".unknown"), notes=notes,
                 tuple_arity=len([k for k in table if k[0] == "encode" and k[1].startswith("tuple")]))
    return text, stats


def write(repo="/repo"):
    text, stats = generate(repo)
    os.makedirs(os.path.dirname(OUT), exist_ok=True)
    old = open(OUT, encoding="utf8").read() if os.path.exists(OUT) else None
    if old != text:   # keep the mtime when nothing changed (no needless Lean rebuild)
        with open(OUT, "w", encoding="utf8") as f:
            f.write(text)
    stats["sha256"] = hashlib.sha256(text.encode()).hexdigest()
    stats["changed"] = old != text
    return stats


def gen(ctx):
    """`gen=[…]` hook of the check SPEC."""
    import svlib
    stats = write(svlib.REPO)
    ctx.generated["Generated/CodecTrivial.lean"] = stats
    ctx.log("codec_trivial: %(impls)d is_*_trivial impls, tuple arity 1..%(tuple_arity)d, %(extra)d extra impls, "
            "%(unknown)d unrecognised, sha256=%(sha256).12s" % stats)
    for n in stats["notes"]:
        ctx.notes.append("codec_trivial.py: " + n)


if __name__ == "__main__":
    print(write(sys.argv[1] if len(sys.argv) > 1 else "/repo"))
