#!/usr/bin/env python3
"""Translator for C10: re-extracts, from /repo's working tree, the two *descriptions* of a type's bytes whose
hash equality is the `__runtime_mem_id::<T>() == __encoding_mem_id::<T>()` test, and the IR layout they describe:

  * `get_runtime_representation`  (sway-core/src/ir_generation/function.rs): leaf blob sizes, the padding rule of
    struct fields (trailing, to the next word), of union variants (leading, to the widest variant rounded up to a
    word) and of `str[N]`
  * `get_encoding_representation` (same file): leaf blob sizes, `None` leaves, the enum shape (tag word + `Or`,
    tag only when every variant is zero-sized)
  * `Type::size`, `get_struct_field_offset_and_type`, `get_union_field_offset_and_type` (sway-ir/src/irtype.rs):
    the layout the backend really uses
  * `convert_resolved_type_info` (sway-core/src/ir_generation/convert.rs): u16/u32/u64 are IR `u64`
  * `create_tagged_union_type` (sway-core/src/ir_generation/types.rs): enum = { u64 tag, union } / { u64 tag }

into lean/SwayVerif/Generated/MemRepr.lean as constants. Whole match arms are compared (after whitespace
normalisation, comments stripped) with the shapes present today; FAIL CLOSED: an arm that differs becomes
`PadRule.unknown` / size `0` / `false`, for which `tables_wellformed` (Lemmas/Ty.lean) fails by `decide`, so
Props/C10.lean stops compiling, while the model keeps evaluating (unknown padding rule = "no padding described",
the worst case for soundness).
"""
import hashlib
import os
import re
import sys

sys.path.insert(0, os.path.dirname(os.path.abspath(__file__)))
from codec_trivial import strip_comments, match_brace, norm, fn_body  # noqa: E402

VERIF = os.path.dirname(os.path.dirname(os.path.abspath(__file__)))
OUT = os.path.join(VERIF, "lean/SwayVerif/Generated/MemRepr.lean")

FUNCTION_RS = "sway-core/src/ir_generation/function.rs"
IRTYPE_RS = "sway-ir/src/irtype.rs"
CONVERT_RS = "sway-core/src/ir_generation/convert.rs"
TYPES_RS = "sway-core/src/ir_generation/types.rs"


def arms(body):
    """Split the (single, outermost) `match … { arms }` of a function body into [(pattern, arm text)]."""
    m = re.search(r"\bmatch\b[^{]*\{", body)
    if not m:
        return []
    inner = body[m.end():match_brace(body, m.end() - 1) - 1]
    res, i, n = [], 0, len(inner)
    while i < n:
        j = inner.find("=>", i)
        if j < 0:
            break
        pat = norm(inner[i:j])
        k = j + 2
        while k < n and inner[k].isspace():
            k += 1
        if k < n and inner[k] == "{":
            e = match_brace(inner, k)
            txt = inner[k + 1:e - 1]
            while e < n and (inner[e].isspace() or inner[e] == ","):
                e += 1
        else:
            depth, e = 0, k
            while e < n:
                c = inner[e]
                if c in "([{":
                    depth += 1
                elif c in ")]}":
                    depth -= 1
                elif c == "," and depth == 0:
                    break
                e += 1
            txt = inner[k:e]
            e += 1
        res.append((pat, norm(txt)))
        i = e
    return res


RT_STRUCT = {
    ".right": "let mut items = vec![]; let mut offset_in_bytes = 0; for idx in 0..fields.len() { let (position_in_bytes, t) = t .get_struct_field_offset_and_type(ctx, idx as u64) .expect(\"type `t` is checked to be `TypeContent::Struct`\"); assert!(offset_in_bytes == position_in_bytes); let field_mem_rep = get_runtime_representation(ctx, t); let field_len_in_bytes = field_mem_rep.len_in_bytes(); offset_in_bytes += field_len_in_bytes; if !offset_in_bytes.is_multiple_of(8) { let next = offset_in_bytes.next_multiple_of(8); let padding = MemoryRepresentation::Padding { len_in_bytes: next - offset_in_bytes, }; items.push(MemoryRepresentation::And(vec![field_mem_rep, padding])); offset_in_bytes = next; } else { items.push(field_mem_rep); } } MemoryRepresentation::And(items)",
}
RT_STRUCT[".left"] = RT_STRUCT[".right"].replace("vec![field_mem_rep, padding]", "vec![padding, field_mem_rep]")

RT_UNION = {
    ".left": "let mut items = variants .iter() .map(|variant| get_runtime_representation(ctx, *variant)) .collect::<Vec<_>>(); let biggest_len_in_bytes = items .iter() .map(|x| x.len_in_bytes()) .max() .unwrap_or_default(); let padding_to_word_boundary = if biggest_len_in_bytes.is_multiple_of(8) { 0 } else { let next = biggest_len_in_bytes.next_multiple_of(8); next - biggest_len_in_bytes }; for item in items.iter_mut() { let item_len_in_bytes = item.len_in_bytes(); let padding_to_biggest_variant = biggest_len_in_bytes - item_len_in_bytes; let total_padding = padding_to_word_boundary + padding_to_biggest_variant; if total_padding > 0 { let padding = MemoryRepresentation::Padding { len_in_bytes: total_padding, }; *item = MemoryRepresentation::And(vec![padding, item.clone()]) } } MemoryRepresentation::Or(items)",
}
RT_UNION[".right"] = RT_UNION[".left"].replace("vec![padding, item.clone()]", "vec![item.clone(), padding]")

RT_STRARRAY = {
    ".right": "if ctx.experimental.str_array_no_padding { MemoryRepresentation::Blob { len_in_bytes: *len } } else { let item = MemoryRepresentation::Blob { len_in_bytes: *len }; let item_len_in_bytes = item.len_in_bytes(); if !item_len_in_bytes.is_multiple_of(8) { MemoryRepresentation::And(vec![ item, MemoryRepresentation::Padding { len_in_bytes: item_len_in_bytes.next_multiple_of(8) - item_len_in_bytes, }, ]) } else { item } }",
}
RT_ARRAY = "let item = get_runtime_representation(ctx, *t); MemoryRepresentation::Array(Box::new(item), *len)"

ENC_TUPLE = "let items = fields .iter() .map(|field| get_encoding_representation_by_id(engines, field.type_id)) .collect::<Option<Vec<_>>>()?; Some(MemoryRepresentation::And(items))"
ENC_STRUCT = "let decl = engines.de().get(id); let items = decl .fields .iter() .map(|field| { get_encoding_representation_by_id(engines, field.type_argument.type_id) }) .collect::<Option<Vec<_>>>()?; Some(MemoryRepresentation::And(items))"
ENC_ENUM = "let decl = engines.de().get(id); let variants = decl .variants .iter() .map(|variant| { get_encoding_representation_by_id(engines, variant.type_argument.type_id) }) .collect::<Option<Vec<_>>>()?; if variants.iter().all(|variant| variant.len_in_bytes() == 0) { Some(MemoryRepresentation::And(vec![ MemoryRepresentation::Blob { len_in_bytes: 8 }, ])) } else { Some(MemoryRepresentation::And(vec![ MemoryRepresentation::Blob { len_in_bytes: 8 }, MemoryRepresentation::Or(variants), ])) }"
ENC_STRARRAY = "Some(MemoryRepresentation::Blob { len_in_bytes: len.extract_literal(engines).unwrap(), })"
ENC_ARRAY = "Some(MemoryRepresentation::Array( Box::new(get_encoding_representation_by_id(engines, item.type_id)?), len.extract_literal(engines)?, ))"

LEN_IN_BYTES = "match self { MemoryRepresentation::Padding { len_in_bytes } => *len_in_bytes, MemoryRepresentation::Blob { len_in_bytes, .. } => *len_in_bytes, MemoryRepresentation::And(items) => items.iter().map(|x| x.len_in_bytes()).sum(), MemoryRepresentation::Or(items) => items .iter() .map(|x| x.len_in_bytes()) .max() .unwrap_or_default(), MemoryRepresentation::Array(item, len) => item.len_in_bytes() * *len, }"

IR_STRUCT_SIZE = "TypeSize::new( field_tys .iter() .map(|field_ty| field_ty.size(context).in_bytes_aligned()) .sum(), )"
IR_UNION_SIZE = "TypeSize::new( field_tys .iter() .map(|field_ty| field_ty.size(context).in_bytes_aligned()) .max() .unwrap_or(0), )"
IR_ARRAY_SIZE = "TypeSize::new(cnt * el_ty.size(context).in_bytes())"
IR_STRARRAY_SIZE = "if context.experimental.str_array_no_padding { TypeSize::new(*n) } else { TypeSize::new(super::size_bytes_round_up_to_word_alignment!(*n)) }"
IR_STRUCT_OFFSET = "let field_offs_in_bytes = field_types .iter() .take(field_idx) .map(|field_ty| { field_ty.size(context).in_bytes_aligned() }) .sum::<u64>(); Some((field_offs_in_bytes, field_types[field_idx]))"
IR_UNION_OFFSET = "let union_size_in_bytes = self.size(context).in_bytes(); let field_size_in_bytes = field_type.size(context).in_bytes(); Some((union_size_in_bytes - field_size_in_bytes, field_type))"
TAGGED_UNION = "Ok(if field_types.iter().all(|f| f.is_zero_sized(context)) { Type::new_struct(context, vec![Type::get_uint64(context)]) } else { let u64_ty = Type::get_uint64(context); let union_ty = Type::new_union(context, field_types); Type::new_struct(context, vec![u64_ty, union_ty]) })"


def blob(txt):
    m = re.fullmatch(r"(?:Some\()?MemoryRepresentation::Blob \{ len_in_bytes: (\d+) \}\)?", txt)
    return int(m.group(1)) if m else None


def generate(repo):
    notes = []
    fsrc = strip_comments(open(os.path.join(repo, FUNCTION_RS), encoding="utf8").read())
    isrc = strip_comments(open(os.path.join(repo, IRTYPE_RS), encoding="utf8").read())
    csrc = strip_comments(open(os.path.join(repo, CONVERT_RS), encoding="utf8").read())
    tsrc = strip_comments(open(os.path.join(repo, TYPES_RS), encoding="utf8").read())
    c = {}

    # ---- get_runtime_representation
    rt = dict(arms(fn_body(fsrc, "get_runtime_representation") or ""))
    known_rt = set()

    def rt_leaf(name, pat):
        known_rt.add(pat)
        v = blob(rt.get(pat, ""))
        if v is None:
            notes.append("get_runtime_representation: arm `%s` not a Blob literal" % pat)
            v = 0
        c[name] = v
    rt_leaf("rtBool", "TypeContent::Bool")
    rt_leaf("rtU8", "TypeContent::Uint(8)")
    rt_leaf("rtU64", "TypeContent::Uint(64)")
    rt_leaf("rtU256", "TypeContent::Uint(256)")
    rt_leaf("rtB256", "TypeContent::B256")
    rt_leaf("rtPtr", "TypeContent::Pointer | TypeContent::TypedPointer(_)")
    rt_leaf("rtSlice", "TypeContent::Slice")
    rt_leaf("rtTypedSlice", "TypeContent::TypedSlice(_)")
    rt_leaf("rtStringSlice", "TypeContent::StringSlice")
    known_rt.add("TypeContent::Unit | TypeContent::Never")
    c["rtUnitEmpty"] = rt.get("TypeContent::Unit | TypeContent::Never") == "MemoryRepresentation::And(vec![])"

    def rule(name, pat, templates):
        known_rt.add(pat)
        got = rt.get(pat)
        for side, t in templates.items():
            if got == t:
                c[name] = side
                return
        notes.append("get_runtime_representation: arm `%s` has an unrecognised shape" % pat)
        c[name] = ".unknown"
    rule("rtStructPad", "TypeContent::Struct(fields)", RT_STRUCT)
    rule("rtUnionPad", "TypeContent::Union(variants)", RT_UNION)
    rule("rtStrArrayPad", "TypeContent::StringArray(len)", RT_STRARRAY)
    known_rt.add("TypeContent::Array(t, len)")
    c["rtArrayOk"] = rt.get("TypeContent::Array(t, len)") == RT_ARRAY
    # u16/u32 never reach the IR (panic arms) and the catch-all is unreachable
    for pat in ("TypeContent::Uint(16)", "TypeContent::Uint(32)", "TypeContent::Uint(_)"):
        known_rt.add(pat)
    c["rtNoOtherArms"] = set(rt.keys()) <= known_rt and len(rt) == len(known_rt)
    if not c["rtNoOtherArms"]:
        notes.append("get_runtime_representation: arm set changed: %s" % sorted(set(rt.keys()) ^ known_rt))
    m = re.search(r"impl MemoryRepresentation \{", fsrc)
    li = norm(fn_body(fsrc[m.start():], "len_in_bytes") or "") if m else ""
    c["reprLenOk"] = li == LEN_IN_BYTES
    mid = norm(fn_body(fsrc, "get_memory_id") or "")
    eid = norm(fn_body(fsrc, "get_encoding_id") or "")
    c["memIdIsHashOfRepr"] = (mid == "let r = get_runtime_representation(ctx, t); use std::hash::Hasher; let mut state = DefaultHasher::default(); r.hash(&mut state); state.finish()" and
                              eid == "use std::hash::Hasher; if let Some(r) = get_encoding_representation_by_id(engines, type_id) { let mut state = DefaultHasher::default(); r.hash(&mut state); state.finish() } else { 0 }" and
                              bool(re.search(r"#\[derive\(Clone, PartialEq, Eq, Hash\)\]\s*pub enum MemoryRepresentation", fsrc)))

    # ---- get_encoding_representation
    en = dict(arms(fn_body(fsrc, "get_encoding_representation") or ""))
    known_en = set()

    def en_leaf(name, pat):
        known_en.add(pat)
        v = blob(en.get(pat, ""))
        if v is None:
            notes.append("get_encoding_representation: arm `%s` not a Blob literal" % pat)
            v = 0
        c[name] = v
    en_leaf("encBool", "TypeInfo::Boolean")
    en_leaf("encU8", "TypeInfo::UnsignedInteger(IntegerBits::Eight)")
    en_leaf("encU16", "TypeInfo::UnsignedInteger(IntegerBits::Sixteen)")
    en_leaf("encU32", "TypeInfo::UnsignedInteger(IntegerBits::ThirtyTwo)")
    en_leaf("encU64", "TypeInfo::UnsignedInteger(IntegerBits::SixtyFour)")
    en_leaf("encU256", "TypeInfo::UnsignedInteger(IntegerBits::V256)")
    en_leaf("encB256", "TypeInfo::B256")
    nones = ["TypeInfo::Never", "TypeInfo::StringSlice", "TypeInfo::RawUntypedPtr", "TypeInfo::RawUntypedSlice",
             "TypeInfo::Slice(_)", "TypeInfo::Ref { .. }"]
    c["encNoneLeaves"] = all(en.get(p) == "None" for p in nones)
    known_en.update(nones)
    shapes = {"TypeInfo::Tuple(fields)": ENC_TUPLE, "TypeInfo::Struct(id)": ENC_STRUCT, "TypeInfo::Enum(id)": ENC_ENUM,
              "TypeInfo::StringArray(len)": ENC_STRARRAY, "TypeInfo::Array(item, len)": ENC_ARRAY,
              "TypeInfo::Alias { ty, .. }": "get_encoding_representation_by_id(engines, ty.type_id)"}
    for nm, pat in (("encTupleOk", "TypeInfo::Tuple(fields)"), ("encStructOk", "TypeInfo::Struct(id)"),
                    ("encEnumOk", "TypeInfo::Enum(id)"), ("encStrArrayOk", "TypeInfo::StringArray(len)"),
                    ("encArrayOk", "TypeInfo::Array(item, len)")):
        c[nm] = en.get(pat) == shapes[pat]
        if not c[nm]:
            notes.append("get_encoding_representation: arm `%s` has an unrecognised shape" % pat)
    known_en.update(shapes.keys())
    known_en.add("x")
    c["encNoOtherArms"] = set(en.keys()) == known_en
    if not c["encNoOtherArms"]:
        notes.append("get_encoding_representation: arm set changed: %s" % sorted(set(en.keys()) ^ known_en))

    # ---- sway-ir layout
    sz = dict(arms(fn_body(isrc, "size") or ""))

    def sz_leaf(name, pat):
        m = re.fullmatch(r"TypeSize::new\((\d+)\)", sz.get(pat, ""))
        if not m:
            notes.append("Type::size: arm `%s` not a literal" % pat)
        c[name] = int(m.group(1)) if m else 0
    sz_leaf("irUnit", "TypeContent::Unit | TypeContent::Never")
    sz_leaf("irU8Bool", "TypeContent::Uint(8) | TypeContent::Bool")
    sz_leaf("irWord", "TypeContent::Uint(16) | TypeContent::Uint(32) | TypeContent::Uint(64) | TypeContent::TypedPointer(_) | TypeContent::Pointer")
    sz_leaf("irU256", "TypeContent::Uint(256)")
    sz_leaf("irB256", "TypeContent::B256")
    sz_leaf("irSlice", "TypeContent::Slice")
    sz_leaf("irTypedSlice", "TypeContent::TypedSlice(..)")
    sz_leaf("irStringSlice", "TypeContent::StringSlice")
    c["irStructAligned"] = sz.get("TypeContent::Struct(field_tys)") == IR_STRUCT_SIZE
    c["irUnionMaxAligned"] = sz.get("TypeContent::Union(field_tys)") == IR_UNION_SIZE
    c["irArrayProduct"] = sz.get("TypeContent::Array(el_ty, cnt)") == IR_ARRAY_SIZE
    c["irStrArrayRounded"] = sz.get("TypeContent::StringArray(n)") == IR_STRARRAY_SIZE
    so = norm(fn_body(isrc, "get_struct_field_offset_and_type") or "")
    uo = norm(fn_body(isrc, "get_union_field_offset_and_type") or "")
    c["irStructOffsetsAligned"] = IR_STRUCT_OFFSET in so
    c["irUnionLeftPadded"] = IR_UNION_OFFSET in uo
    al = norm(fn_body(isrc, "in_bytes_aligned") or "")
    c["irAlignIsWord"] = al == "(self.size_in_bytes + 7) - ((self.size_in_bytes + 7) % 8)" and \
        bool(re.search(r"macro_rules! size_bytes_round_up_to_word_alignment \{\s*\(\$bytes_expr: expr\) => \{\s*\(\$bytes_expr \+ 7\) - \(\(\$bytes_expr \+ 7\) % 8\)\s*\};\s*\}", isrc))
    for k in ("irStructAligned", "irUnionMaxAligned", "irArrayProduct", "irStrArrayRounded", "irStructOffsetsAligned",
              "irUnionLeftPadded", "irAlignIsWord"):
        if not c[k]:
            notes.append("sway-ir/irtype.rs: layout shape `%s` not recognised" % k)

    # ---- convert.rs / types.rs
    cn = norm(csrc)
    c["convIntsOk"] = ("TypeInfo::UnsignedInteger(IntegerBits::V256) => Type::get_uint256(context), "
                       "TypeInfo::UnsignedInteger(IntegerBits::Eight) => Type::get_uint8(context), "
                       "TypeInfo::UnsignedInteger(IntegerBits::Sixteen) | TypeInfo::UnsignedInteger(IntegerBits::ThirtyTwo) "
                       "| TypeInfo::UnsignedInteger(IntegerBits::SixtyFour) | TypeInfo::Numeric => Type::get_uint64(context), "
                       "TypeInfo::Boolean => Type::get_bool(context), TypeInfo::B256 => Type::get_b256(context),") in cn
    tu = norm(fn_body(tsrc, "create_tagged_union_type") or "")
    c["enumIsTagPlusUnion"] = TAGGED_UNION in tu
    for k in ("convIntsOk", "enumIsTagPlusUnion"):
        if not c[k]:
            notes.append("ir_generation: shape `%s` not recognised" % k)

    def v(x):
        return ("true" if x else "false") if isinstance(x, bool) else str(x)
    order = ["rtBool", "rtU8", "rtU64", "rtU256", "rtB256", "rtPtr", "rtSlice", "rtTypedSlice", "rtStringSlice"]
    encs = ["encBool", "encU8", "encU16", "encU32", "encU64", "encU256", "encB256"]
    irs = ["irUnit", "irU8Bool", "irWord", "irU256", "irB256", "irSlice", "irTypedSlice", "irStringSlice"]
    flags = ["rtUnitEmpty", "rtArrayOk", "rtNoOtherArms", "reprLenOk", "memIdIsHashOfRepr", "encNoneLeaves", "encTupleOk",
             "encStructOk", "encEnumOk", "encStrArrayOk", "encArrayOk", "encNoOtherArms", "irStructAligned",
             "irUnionMaxAligned", "irArrayProduct", "irStrArrayRounded", "irStructOffsetsAligned", "irUnionLeftPadded",
             "irAlignIsWord", "convIntsOk", "enumIsTagPlusUnion"]
    text = """/-! GENERATED by gen/mem_repr.py from /repo's working tree — do not edit.
sources: %s (get_runtime_representation, get_encoding_representation, get_memory_id, get_encoding_id),
%s (Type::size, field offsets), %s, %s
-/
namespace SwayVerif.Generated.MemRepr

/-- Where `get_runtime_representation` puts the padding it describes. -/
inductive PadRule where
  | right | left
  /-- unrecognised shape (fail closed: evaluated as "no padding described", no lemma applies) -/
  | unknown
deriving DecidableEq, Repr

-- blob sizes of get_runtime_representation (bytes)
%s
def rtStructPad : PadRule := %s     -- trailing padding of a struct field that does not end on a word boundary
def rtUnionPad : PadRule := %s      -- leading padding of a union variant narrower than the (word-rounded) widest
def rtStrArrayPad : PadRule := %s   -- trailing padding of str[N] (only when str_array_no_padding = false)

-- blob sizes of get_encoding_representation (bytes)
%s

-- leaf sizes of sway-ir Type::size (bytes)
%s

-- recognised shapes (all must be true)
%s
def shapeFlags : List (String × Bool) := %s

end SwayVerif.Generated.MemRepr
""" % (FUNCTION_RS, IRTYPE_RS, CONVERT_RS, TYPES_RS,
       "\n".join("def %s : Nat := %s" % (k, v(c[k])) for k in order),
       c["rtStructPad"], c["rtUnionPad"], c["rtStrArrayPad"],
       "\n".join("def %s : Nat := %s" % (k, v(c[k])) for k in encs),
       "\n".join("def %s : Nat := %s" % (k, v(c[k])) for k in irs),
       "\n".join("def %s : Bool := %s" % (k, v(c[k])) for k in flags),
       "[" + ", ".join('("%s", %s)' % (k, k) for k in flags) + "]")
    stats = dict(constants=len(order) + len(encs) + len(irs) + 3, flags=len(flags),
                 unknown=text.count(".unknown") + sum(1 for k in flags if not c[k]) + sum(1 for k in order + encs if c[k] == 0),
                 notes=notes)
    return text, stats


def write(repo="/repo"):
    text, stats = generate(repo)
    os.makedirs(os.path.dirname(OUT), exist_ok=True)
    old = open(OUT, encoding="utf8").read() if os.path.exists(OUT) else None
    if old != text:
        with open(OUT, "w", encoding="utf8") as f:
            f.write(text)
    stats["sha256"] = hashlib.sha256(text.encode()).hexdigest()
    stats["changed"] = old != text
    return stats


def gen(ctx):
    import svlib
    stats = write(svlib.REPO)
    ctx.generated["Generated/MemRepr.lean"] = stats
    ctx.log("mem_repr: %(constants)d constants, %(flags)d shape flags, %(unknown)d unrecognised, sha256=%(sha256).12s" % stats)
    for n in stats["notes"]:
        ctx.notes.append("mem_repr.py: " + n)


if __name__ == "__main__":
    print(write(sys.argv[1] if len(sys.argv) > 1 else "/repo"))
