#!/usr/bin/env python3
"""Translator for C03 (fn-dedup): regenerates lean/SwayVerif/Generated/DedupHashTable.lean from /repo's working tree.

Two tables, both keyed by instruction variant (`InstOp::*` and, nested under `InstOp::FuelVm`, `FuelVmInstruction::*`):

  * `declared` — from the DEFINITIONS in sway-ir/src/instruction.rs and asm.rs: every field of the variant that is
    NOT an operand (`Value`, `Vec<Value>`, `Option<Value>`), nested structs (`BranchToWithArgs`, `AsmBlock`,
    `AsmArg`, `AsmInstruction`, `InitAggr`) flattened. Operands are hashed in one go through `get_operands()`.
  * `hashed`   — from `hash_fn` in sway-ir/src/optimize/fn_dedup.rs: per `match &inst.op` / `match fuel_vm_inst` arm,
    the fields whose value reaches `….hash(state)`.

Field names: named fields keep their name, tuple fields are `posN`, nested fields are joined with `_`
(`pos0_block`, `true_block_block`, `pos0_body_op_name`).

`facts` lists the variant-independent hashing steps found in `hash_fn` (instruction discriminant, operands through
`hash_value`, constants by content, SSA values / blocks by function-local index, block argument types, function
attributes, return type, locals).

FAIL CLOSED: the Lean file declares the inductive types `Arm` and `Fld` from the DEFINITIONS only. A hash receiver
that the translator cannot attribute to exactly one field of the arm becomes the constructor `Fld.unknown_<n>`,
which does not exist, so the generated file (and with it Props/C03.lean) stops compiling. A fact whose source
text is not found is simply absent from `facts`, and `dedup_global_facts` fails by `decide`.
"""
import os
import re
import sys

VERIF = os.path.dirname(os.path.dirname(os.path.abspath(__file__)))
OUT = os.path.join(VERIF, "lean/SwayVerif/Generated/DedupHashTable.lean")
INSTR_RS = "sway-ir/src/instruction.rs"
ASM_RS = "sway-ir/src/asm.rs"
DEDUP_RS = "sway-ir/src/optimize/fn_dedup.rs"

OPERAND_TYPES = {"Value", "Vec<Value>", "Option<Value>"}
NESTED = {"BranchToWithArgs", "AsmBlock", "AsmArg", "AsmInstruction", "InitAggr"}


def strip_comments(src):
    src = re.sub(r"/\*.*?\*/", " ", src, flags=re.S)
    return re.sub(r"//[^\n]*", "", src)


def match_brace(s, i, open_="{", close="}"):
    """s[i] == open_; returns index just after the matching close."""
    depth = 0
    for j in range(i, len(s)):
        if s[j] == open_:
            depth += 1
        elif s[j] == close:
            depth -= 1
            if depth == 0:
                return j + 1
    return len(s)


def split_top(s, sep=","):
    """Split at top-level separators (outside (), {}, <>, [])."""
    out, depth, cur = [], 0, ""
    for ch in s:
        if ch in "({[<":
            depth += 1
        elif ch in ")}]>":
            depth -= 1
        if ch == sep and depth == 0:
            out.append(cur)
            cur = ""
        else:
            cur += ch
    if cur.strip():
        out.append(cur)
    return [x.strip() for x in out if x.strip()]


def norm_ty(t):
    return re.sub(r"\s+", "", t)


def parse_struct(src, name):
    m = re.search(r"pub struct %s\s*\{" % name, src)
    if not m:
        return None
    body = src[m.end():match_brace(src, m.end() - 1) - 1]
    fields = []
    for f in split_top(body):
        f = re.sub(r"^pub(\([^)]*\))?\s+", "", f.strip())
        mm = re.match(r"(\w+)\s*:\s*(.+)$", f, flags=re.S)
        if mm:
            fields.append((mm.group(1), norm_ty(mm.group(2))))
    return fields


def parse_enum(src, name):
    m = re.search(r"pub enum %s\s*\{" % name, src)
    if not m:
        return None
    body = src[m.end():match_brace(src, m.end() - 1) - 1]
    body = re.sub(r"#\[[^\]]*\]", "", body)
    variants = []
    for v in split_top(body):
        mm = re.match(r"(\w+)\s*(.*)$", v, flags=re.S)
        vname, rest = mm.group(1), mm.group(2).strip()
        if rest.startswith("("):
            tys = split_top(rest[1:match_brace(rest, 0, "(", ")") - 1])
            variants.append((vname, [("pos%d" % i, norm_ty(t)) for i, t in enumerate(tys)]))
        elif rest.startswith("{"):
            fs = []
            for f in split_top(rest[1:match_brace(rest, 0) - 1]):
                mm2 = re.match(r"(\w+)\s*:\s*(.+)$", f, flags=re.S)
                fs.append((mm2.group(1), norm_ty(mm2.group(2))))
            variants.append((vname, fs))
        else:
            variants.append((vname, []))
    return variants


def flatten(fields, structs, prefix=""):
    """Non-operand leaf fields of a field list."""
    out = []
    for fname, ty in fields:
        path = prefix + fname
        if ty in OPERAND_TYPES:
            continue
        inner = ty
        mm = re.match(r"(?:Vec|Option)<(\w+)>$", ty)
        if mm:
            inner = mm.group(1)
        if inner in NESTED and structs.get(inner) is not None:
            out += flatten(structs[inner], structs, path + "_")
        else:
            out.append(path)
    return out


# ---------------------------------------------------------------------------------------------- hash_fn

def split_arms(inner):
    """[(pattern text, body text)] of the arms of a match body."""
    arms, i, n = [], 0, len(inner)
    while i < n:
        j = inner.find("=>", i)
        if j < 0:
            break
        pat = inner[i:j].strip()
        k = j + 2
        while k < n and inner[k].isspace():
            k += 1
        if k < n and inner[k] == "{":
            e = match_brace(inner, k)
            body = inner[k + 1:e - 1]
        else:
            depth, e = 0, k
            while e < n:
                if inner[e] in "({[":
                    depth += 1
                elif inner[e] in ")}]":
                    depth -= 1
                elif inner[e] == "," and depth == 0:
                    break
                e += 1
            body = inner[k:e]
        while e < n and (inner[e].isspace() or inner[e] == ","):
            e += 1
        arms.append((pat, body))
        i = e
    return arms


def pattern_bindings(pat, variant_fields):
    """identifier -> field path for one `crate::InstOp::X(..)` / `X { .. }` pattern."""
    mm = re.match(r"(?:crate::)?(?:InstOp|FuelVmInstruction)::(\w+)\s*(.*)$", pat.strip(), flags=re.S)
    if not mm:
        return None, {}
    vname, rest = mm.group(1), mm.group(2).strip()
    binds = {}
    if rest.startswith("("):
        parts = split_top(rest[1:match_brace(rest, 0, "(", ")") - 1])
        for i, p in enumerate(parts):
            if re.match(r"^\w+$", p) and p != "_":
                binds[p] = "pos%d" % i
    elif rest.startswith("{"):
        for p in split_top(rest[1:match_brace(rest, 0) - 1]):
            if p == "..":
                continue
            mm2 = re.match(r"(\w+)\s*:\s*(\w+)$", p)
            if mm2:
                if mm2.group(2) != "_":
                    binds[mm2.group(2)] = mm2.group(1)
            elif re.match(r"^\w+$", p):
                binds[p] = p
    return vname, binds


ASM_ARM_EXPECTED = re.sub(r"\s+", "", """
for arg in args.iter().map(|arg| &arg.name).chain(asm_block.args_names.iter()) { arg.as_str().hash(state); }
if let Some(return_name) = &asm_block.return_name { return_name.as_str().hash(state); }
asm_block.return_type.hash(state);
for asm_inst in &asm_block.body {
    asm_inst.op_name.as_str().hash(state);
    for arg in &asm_inst.args { arg.as_str().hash(state); }
    if let Some(imm) = &asm_inst.immediate { imm.as_str().hash(state); }
}
""")
ASM_ARM_FIELDS = ["pos1_name", "pos0_args_names", "pos0_return_name", "pos0_return_type",
                  "pos0_body_op_name", "pos0_body_args", "pos0_body_immediate"]


class Unknowns:
    def __init__(self):
        self.n = 0
        self.texts = []

    def new(self, text):
        self.n += 1
        self.texts.append(text)
        return "unknown_%d" % self.n


def arm_hashed(pat_binds, body, declared_paths, unk):
    """Field paths hashed in an arm body."""
    binds = dict(pat_binds)
    # `match <..ident..> { Some(alias) => …` introduces an alias of that identifier
    for mm in re.finditer(r"match\s+([^{]*)\{\s*Some\((\w+)\)", body):
        roots = [b for b in binds if re.search(r"\b%s\b" % re.escape(b), mm.group(1))]
        if len(roots) == 1:
            binds[mm.group(2)] = binds[roots[0]]
    out = []
    for mm in re.finditer(r"([\w\.\(\)\s,&:]+?)\s*\.hash\(\s*state\s*\)", body):
        recv = mm.group(1).strip()
        # cut back to the start of the statement
        recv = re.split(r"[;{}]|=>", recv)[-1].strip()
        roots = [b for b in binds if re.search(r"\b%s\b" % re.escape(b), recv)]
        if len(roots) != 1:
            out.append(unk.new(recv))
            continue
        path = binds[roots[0]]
        m2 = re.search(r"\b%s\.(\w+)\b" % re.escape(roots[0]), recv)
        if m2 and (path + "_" + m2.group(1)) in declared_paths:
            path = path + "_" + m2.group(1)
        out.append(path)
    return out


def parse_hash_fn(src, inst_variants, fv_variants, structs, unk):
    m = re.search(r"fn hash_fn\s*\(", src)
    if not m:
        return None
    b0 = src.index("{", src.index("-> u64", m.end()))
    body = src[b0:match_brace(src, b0)]
    hashed = {}
    mm = re.search(r"match\s+&inst\.op\s*\{", body)
    if not mm:
        return None
    inner = body[mm.end():match_brace(body, mm.end() - 1) - 1]
    decl = {v: set(flatten(fs, structs)) for v, fs in inst_variants + fv_variants}

    def do_arms(inner_text):
        for pat, abody in split_arms(inner_text):
            alts = split_top(pat, "|")
            for alt in alts:
                vname, binds = pattern_bindings(alt, None)
                if vname is None:
                    hashed.setdefault("unparsed_pattern", []).append(unk.new(alt))
                    continue
                if vname == "FuelVm":
                    m3 = re.search(r"match\s+%s\s*\{" % re.escape(list(binds.keys())[0]) if binds else r"$^", abody)
                    facts_fv = re.search(r"std::mem::discriminant\(\s*%s\s*\)\s*\.hash\(state\)" % (list(binds.keys())[0] if binds else "_"), abody)
                    hashed["FuelVm"] = ["pos0_discriminant"] if facts_fv else [unk.new("FuelVm discriminant not hashed")]
                    if m3:
                        do_arms(abody[m3.end():match_brace(abody, m3.end() - 1) - 1])
                    else:
                        hashed["FuelVm"].append(unk.new("no nested match"))
                    continue
                if vname == "AsmBlock":
                    if re.sub(r"\s+", "", abody) == ASM_ARM_EXPECTED and binds == {"asm_block": "pos0", "args": "pos1"}:
                        hashed[vname] = list(ASM_ARM_FIELDS)
                    else:
                        hashed[vname] = [unk.new("AsmBlock arm changed")]
                    continue
                hashed[vname] = hashed.get(vname, []) + arm_hashed(binds, abody, decl.get(vname, set()), unk)

    do_arms(inner)
    return hashed, body


FACT_PATTERNS = [
    ("inst_discriminant", r"std::mem::discriminant\(&inst\.op\)\.hash\(state\)"),
    ("operands_hash_value", r"for v in inst\.op\.get_operands\(\)\s*\{\s*hash_value\("),
    ("value_discriminant", r"std::mem::discriminant\(val\)\.hash\(hasher\)"),
    ("value_constant_content", r"ValueDatum::Constant\(c\)\s*=>\s*c\.hash\(hasher\)"),
    ("value_localised_id", r"ValueDatum::Argument\(_\)\s*\|\s*crate::ValueDatum::Instruction\(_\)\s*=>\s*\{?\s*get_localised_id\(v, localised_value_id\)\.hash\(hasher\)"),
    ("inst_result_localised_id", r"get_localised_id\(inst, localised_value_id\)\.hash\(state\)"),
    ("block_localised_id", r"get_localised_id\(block, localised_block_id\)\.hash\(state\)"),
    ("block_arg_localised_id", r"get_localised_id\(arg, localised_value_id\)\.hash\(state\)"),
    ("block_arg_type", r"arg\.get_argument\(context\)\.unwrap\(\)\.ty\.hash\(state\)"),
    ("fn_is_entry", r"function\.is_entry\(context\)\.hash\(state\)"),
    ("fn_is_original_entry", r"function\.is_original_entry\(context\)\.hash\(state\)"),
    ("fn_is_fallback", r"function\.is_fallback\(context\)\.hash\(state\)"),
    ("fn_arg_immutable", r"function\.is_arg_immutable\(context, i\)\.hash\(state\)"),
    ("fn_return_type", r"function\.get_return_type\(context\)\.hash\(state\)"),
    ("local_name", r"local_name\.hash\(state\)"),
    ("local_initializer", r"init\.hash\(state\)"),
    ("local_type", r"local_var\.get_type\(context\)\.hash\(state\)"),
    ("local_mutable", r"local_var\.is_mutable\(context\)\.hash\(state\)"),
    ("blocks_in_order", r"for block in function\.block_iter\(context\)"),
    ("insts_in_order", r"for inst in block\.instruction_iter\(context\)"),
]


def lean_ident(s):
    return re.sub(r"\W", "_", s)


def generate(repo="/repo", out=OUT):
    instr = strip_comments(open(os.path.join(repo, INSTR_RS), encoding="utf8").read())
    asm = strip_comments(open(os.path.join(repo, ASM_RS), encoding="utf8").read())
    dedup = strip_comments(open(os.path.join(repo, DEDUP_RS), encoding="utf8").read())
    structs = {}
    for s in NESTED:
        structs[s] = parse_struct(instr, s) or parse_struct(asm, s)
    inst_variants = parse_enum(instr, "InstOp") or []
    fv_variants = parse_enum(instr, "FuelVmInstruction") or []
    unk = Unknowns()
    res = parse_hash_fn(dedup, inst_variants, fv_variants, structs, unk)
    hashed, fn_body = res if res else ({}, "")
    if not res:
        hashed = {"hash_fn_not_found": [unk.new("hash_fn")]}
    declared = [(v, flatten(fs, structs)) for v, fs in inst_variants + fv_variants]
    # FuelVm(FuelVmInstruction): the nested enum's discriminant is the non-operand "field"
    declared = [(v, (["pos0_discriminant"] if v == "FuelVm" else fs)) for v, fs in declared]
    arms = [v for v, _ in declared]
    flds = []
    for _, fs in declared:
        for f in fs:
            if f not in flds:
                flds.append(f)
    # fields that only appear on the hashed side (operands hashed a second time, e.g. Retd.ptr) are legal names too
    all_named = {}
    for v, fs in inst_variants + fv_variants:
        for fname, _ty in fs:
            all_named[fname] = True
    for v, hs in hashed.items():
        for h in hs:
            if h not in flds and (h in all_named):
                flds.append(h)
    facts = [name for name, pat in FACT_PATTERNS if re.search(pat, fn_body)]
    L = []
    L.append("/-! GENERATED by gen/dedup_hash_table.py from %s, %s and %s — do not edit. -/" % (INSTR_RS, ASM_RS, DEDUP_RS))
    L.append("namespace SwayVerif.Generated.DedupHashTable")
    L.append("")
    L.append("/-- Variants of `InstOp` and (nested under `FuelVm`) of `FuelVmInstruction`, from the definitions. -/")
    L.append("inductive Arm where")
    for a in arms:
        L.append("  | %s" % lean_ident(a))
    L.append("deriving DecidableEq, Repr")
    L.append("")
    L.append("/-- Non-operand field paths, from the definitions. -/")
    L.append("inductive Fld where")
    for f in flds:
        L.append("  | %s" % lean_ident(f))
    L.append("deriving DecidableEq, Repr")
    L.append("")
    L.append("/-- Hashing steps of `hash_fn` that do not depend on the instruction variant. -/")
    L.append("inductive Fact where")
    for name, _ in FACT_PATTERNS:
        L.append("  | %s" % name)
    L.append("deriving DecidableEq, Repr")
    L.append("")
    L.append("def allArms : List Arm := [%s]" % ", ".join(".%s" % lean_ident(a) for a in arms))
    L.append("def allFlds : List Fld := [%s]" % ", ".join(".%s" % lean_ident(f) for f in flds))
    L.append("def allFacts : List Fact := [%s]" % ", ".join(".%s" % n for n, _ in FACT_PATTERNS))
    L.append("/-- Source names (for the line protocol; strings are never compared inside a proof). -/")
    L.append("def armNames : List (String × Arm) := [%s]" % ", ".join('("%s", .%s)' % (a, lean_ident(a)) for a in arms))
    L.append("def fldNames : List (String × Fld) := [%s]" % ", ".join('("%s", .%s)' % (f, lean_ident(f)) for f in flds))
    L.append("def factNames : List (String × Fact) := [%s]" % ", ".join('("%s", .%s)' % (n, n) for n, _ in FACT_PATTERNS))
    L.append("")
    L.append("/-- Per variant: every field that is not a `Value` operand (instruction.rs / asm.rs). -/")
    L.append("def declared : List (Arm × List Fld) := [")
    L.append(",\n".join("  (.%s, [%s])" % (lean_ident(v), ", ".join(".%s" % lean_ident(f) for f in fs)) for v, fs in declared))
    L.append("]")
    L.append("")
    L.append("/-- Per `hash_fn` arm: the fields fed to the hasher (fn_dedup.rs). -/")
    L.append("def hashed : List (Arm × List Fld) := [")
    L.append(",\n".join("  (.%s, [%s])" % (lean_ident(v), ", ".join(".%s" % lean_ident(f) for f in fs)) for v, fs in hashed.items()))
    L.append("]")
    L.append("")
    L.append("def facts : List Fact := [%s]" % ", ".join(".%s" % f for f in facts))
    L.append("")
    L.append("end SwayVerif.Generated.DedupHashTable")
    text = "\n".join(L) + "\n"
    old = open(out, encoding="utf8").read() if os.path.exists(out) else None
    if old != text:
        with open(out, "w", encoding="utf8") as fh:
            fh.write(text)
    return {"arms": len(arms), "hashed_arms": len(hashed), "fields": len(flds), "facts": len(facts),
            "unknown": unk.texts, "changed": old != text}


def gen(ctx):
    """svlib gen step."""
    info = generate(svlib_repo())
    ctx.generated["Generated/DedupHashTable.lean"] = info
    ctx.log("dedup_hash_table: %s" % info)


def svlib_repo():
    return os.environ.get("VERIF_REPO", "/repo")


if __name__ == "__main__":
    print(generate(sys.argv[1] if len(sys.argv) > 1 else "/repo"))
